import OV.Lemmas.C03FragA
/-!
# Bookkeeping invariant on fragment A: what `_clear_unused_initializers` pops is unreferenced

Use counts move along with the alias substitution (`decUse x; incUse y`), so they stay upper bounds
of the real number of occurrences; every recorded alias target is an input of a node already emitted.
-/
namespace OV.C03

variable {V : Type}

/-! ### use counts through the alias substitution -/

theorem count_map_substOne_pos (st : St) (z : Name) : ∀ (ins : List (Option Name)),
    0 < (ins.map (substOne st)).count (some z) → 0 < ins.count (some z) ∨ ∃ x, lookupA st.sym x = some (.alias z)
  | [], h => by simp at h
  | a :: r, h => by
    simp only [List.map_cons, List.count_cons] at h
    by_cases ha : substOne st a = some z
    · cases a with
      | none => simp [substOne] at ha
      | some x =>
        simp only [substOne, St.getSym, Option.bind] at ha
        split at ha
        · rename_i y hy
          have : y = z := by simpa using ha
          subst this
          exact Or.inr ⟨x, hy⟩
        · have : x = z := by simpa using ha
          subst this
          left; simp [List.count_cons]
    · have hb : (substOne st a == some z) = false := by simpa using ha
      simp only [hb, Bool.false_eq_true, if_false, Nat.add_zero] at h
      rcases count_map_substOne_pos st z r h with h' | h'
      · left; simp only [List.count_cons]; omega
      · exact Or.inr h'

theorem substStep_uses (st : St) (z : Name) : ∀ (ins : List (Option Name)) (acc : List (Option Name) × St),
    SameIS st acc.2 → (∀ w, ins.count (some w) ≤ acc.2.usesOf w) →
    (ins.foldl substStep acc).2.usesOf z + ins.count (some z) = acc.2.usesOf z + (ins.map (substOne st)).count (some z) := by
  intro ins
  induction ins with
  | nil => intro acc _ _; simp
  | cons a r ih =>
    intro acc hs hlb
    simp only [List.foldl_cons, List.map_cons]
    cases a with
    | none =>
      have hlb' : ∀ w, r.count (some w) ≤ acc.2.usesOf w := fun w => by
        have := hlb w; simp only [List.count_cons] at this; omega
      have := ih (substStep acc none) hs hlb'
      simp only [substStep] at this ⊢
      simp only [List.count_cons, substOne]
      simpa using this
    | some x =>
      cases hsym : st.getSym (some x) with
      | none =>
        have hstep : substStep acc (some x) = (acc.1 ++ [some x], acc.2) := by
          simp only [substStep, getSym_sameIS hs, hsym]
        have hlb' : ∀ w, r.count (some w) ≤ acc.2.usesOf w := fun w => by
          have := hlb w; simp only [List.count_cons] at this; omega
        have := ih (acc.1 ++ [some x], acc.2) hs hlb'
        rw [hstep]
        simp only [List.count_cons, substOne, hsym] at this ⊢
        omega
      | some sv =>
        cases sv with
        | seq l =>
          have hstep : substStep acc (some x) = (acc.1 ++ [some x], acc.2) := by
            simp only [substStep, getSym_sameIS hs, hsym]
          have hlb' : ∀ w, r.count (some w) ≤ acc.2.usesOf w := fun w => by
            have := hlb w; simp only [List.count_cons] at this; omega
          have := ih (acc.1 ++ [some x], acc.2) hs hlb'
          rw [hstep]
          simp only [List.count_cons, substOne, hsym] at this ⊢
          omega
        | shape sh =>
          have hstep : substStep acc (some x) = (acc.1 ++ [some x], acc.2) := by
            simp only [substStep, getSym_sameIS hs, hsym]
          have hlb' : ∀ w, r.count (some w) ≤ acc.2.usesOf w := fun w => by
            have := hlb w; simp only [List.count_cons] at this; omega
          have := ih (acc.1 ++ [some x], acc.2) hs hlb'
          rw [hstep]
          simp only [List.count_cons, substOne, hsym] at this ⊢
          omega
        | alias y =>
          have hstep : substStep acc (some x) =
              (acc.1 ++ [some y], { ((acc.2.decUse x).incUse y) with modified := true }.note "subst:alias") := by
            simp only [substStep, getSym_sameIS hs, hsym]
          have hx1 : 1 ≤ acc.2.usesOf x := by
            have := hlb x; simp only [List.count_cons, beq_self_eq_true, if_true] at this; omega
          have hu : ∀ w, (substStep acc (some x)).2.usesOf w =
              (if w = y then (if w = x then acc.2.usesOf w - 1 else acc.2.usesOf w) + 1
               else if w = x then acc.2.usesOf w - 1 else acc.2.usesOf w) := by
            intro w
            rw [hstep]
            show ((acc.2.decUse x).incUse y).usesOf w = _
            rw [usesOf_incUse, usesOf_decUse]
          have hs' : SameIS st (substStep acc (some x)).2 := by
            rw [hstep]; exact SameIS.trans hs ⟨rfl, rfl⟩
          have cnt_hd : ∀ w, (some x :: r).count (some w) = r.count (some w) + (if x = w then 1 else 0) := by
            intro w
            simp only [List.count_cons]
            by_cases h : x = w <;> simp [h]
          have cnt_hd' : ∀ w, (some y :: r.map (substOne st)).count (some w) =
              (r.map (substOne st)).count (some w) + (if y = w then 1 else 0) := by
            intro w
            simp only [List.count_cons]
            by_cases h : y = w <;> simp [h]
          have hlb' : ∀ w, r.count (some w) ≤ (substStep acc (some x)).2.usesOf w := by
            intro w
            rw [hu]
            have hw := hlb w
            rw [cnt_hd] at hw
            by_cases hwx : w = x <;> by_cases hwy : w = y
            · rw [if_pos hwy, if_pos hwx]; rw [if_pos hwx.symm] at hw; omega
            · rw [if_neg hwy, if_pos hwx]; rw [if_pos hwx.symm] at hw; omega
            · rw [if_pos hwy, if_neg hwx]; rw [if_neg (fun e => hwx e.symm)] at hw; omega
            · rw [if_neg hwy, if_neg hwx]; rw [if_neg (fun e => hwx e.symm)] at hw; omega
          have hih := ih (substStep acc (some x)) hs' hlb'
          rw [hu] at hih
          have hso : substOne st (some x) = some y := by simp only [substOne, hsym]
          rw [hso, cnt_hd, cnt_hd']
          have hz := hlb z
          rw [cnt_hd] at hz
          by_cases hzx : z = x <;> by_cases hzy : z = y
          · rw [if_pos hzy, if_pos hzx] at hih; rw [if_pos hzx.symm] at hz ⊢; rw [if_pos hzy.symm]; omega
          · rw [if_neg hzy, if_pos hzx] at hih; rw [if_pos hzx.symm] at hz ⊢; rw [if_neg (fun e => hzy e.symm)]; omega
          · rw [if_pos hzy, if_neg hzx] at hih; rw [if_neg (fun e => hzx e.symm)] at hz ⊢; rw [if_pos hzy.symm]; omega
          · rw [if_neg hzy, if_neg hzx] at hih; rw [if_neg (fun e => hzx e.symm)] at hz ⊢; rw [if_neg (fun e => hzy e.symm)]; omega

/-! ### the invariant -/

structure BkA (g : Graph) (st : St) (acc todo : List Node) : Prop where
  lb : ∀ x, cnt x (acc ++ todo) ≤ st.usesOf x
  gouts : ∀ o, g.outputs.contains o = true → st.gouts.contains o = true
  gins : ∀ i, g.inputs.contains i = true → st.gins.contains i = true
  rem : ∀ x, x ∈ st.removed → cnt x (acc ++ todo) = 0 ∧ g.outputs.contains x = false ∧ g.inputs.contains x = false
  nofresh : ∀ k : Nat, cnt ("%" ++ toString k) (acc ++ todo) = 0
  aliasSrc : ∀ x y, lookupA st.sym x = some (.alias y) → 0 < cnt y acc

theorem substInputs_gouts (st : St) (n : Node) : (substInputs st n).2.gouts = st.gouts := by
  unfold substInputs
  simp only []
  suffices h : ∀ (l : List (Option Name)) (acc : List (Option Name) × St), (l.foldl substStep acc).2.gouts = acc.2.gouts from h _ _
  intro l
  induction l with
  | nil => intro acc; rfl
  | cons x xs ih =>
    intro acc
    simp only [List.foldl_cons]
    rw [ih]
    unfold substStep
    cases x with
    | none => rfl
    | some y =>
      simp only []
      split <;> rfl

theorem substInputs_usesEq (st : St) (n : Node) (hlb : ∀ w, n.inputs.count (some w) ≤ st.usesOf w) (z : Name) :
    (substInputs st n).2.usesOf z + n.inputs.count (some z) = st.usesOf z + (n.inputs.map (substOne st)).count (some z) := by
  unfold substInputs
  exact substStep_uses st z n.inputs ([], st) (SameIS.refl st) hlb

theorem cnt_le_of_count (x : Name) (n : Node) (a b : List Node) : n.inputs.count (some x) ≤ cnt x (a ++ n :: b) := by
  rw [cnt_append, cnt_cons]; omega

/-- after the alias substitution on the node at the head of `todo` -/
theorem BkA.subst {g : Graph} {st : St} {acc rest : List Node} {n0 : Node} (h : BkA g st acc (n0 :: rest)) :
    BkA g (substInputs st n0).2 acc (n0.setInputs (n0.inputs.map (substOne st)) :: rest) := by
  have hfr := sameFrame_substInputs st n0
  have hgo := substInputs_gouts st n0
  have hsis := (substInputs_spec st n0).2
  have heq := substInputs_usesEq st n0 (fun w => Nat.le_trans (cnt_le_of_count w n0 acc rest) (h.lb w))
  have hcn : ∀ z, cnt z (acc ++ n0.setInputs (n0.inputs.map (substOne st)) :: rest) =
      cnt z (acc ++ rest) + (n0.inputs.map (substOne st)).count (some z) := by
    intro z; rw [cnt_append, cnt_append, cnt_cons, setInputs_inputs]; omega
  have hco : ∀ z, cnt z (acc ++ n0 :: rest) = cnt z (acc ++ rest) + n0.inputs.count (some z) := by
    intro z; rw [cnt_append, cnt_append, cnt_cons]; omega
  have hacc : ∀ z, cnt z acc ≤ cnt z (acc ++ n0 :: rest) := fun z => by rw [cnt_append]; omega
  have hzero : ∀ z, cnt z (acc ++ n0 :: rest) = 0 → (n0.inputs.map (substOne st)).count (some z) = 0 := by
    intro z hz
    cases hc : (n0.inputs.map (substOne st)).count (some z) with
    | zero => rfl
    | succ k =>
      exfalso
      rcases count_map_substOne_pos st z n0.inputs (by omega) with h1 | ⟨x, hx⟩
      · have := hco z; omega
      · have := h.aliasSrc x z hx
        have := hacc z
        omega
  refine ⟨?_, ?_, ?_, ?_, ?_, ?_⟩
  · intro z
    have := heq z
    have := h.lb z
    rw [hco] at this
    rw [hcn]
    omega
  · intro o ho; rw [hgo]; exact h.gouts o ho
  · intro i hi; rw [hfr.1]; exact h.gins i hi
  · intro x hx
    rw [hfr.2] at hx
    obtain ⟨r1, r2, r3⟩ := h.rem x hx
    refine ⟨?_, r2, r3⟩
    rw [hcn, hzero x r1]
    have := hco x; omega
  · intro k
    have h0 := h.nofresh k
    rw [hcn, hzero _ h0]
    have := hco ("%" ++ toString k); omega
  · intro x y hx
    rw [hsis.2] at hx
    exact h.aliasSrc x y hx

/-- the node at the head of `todo` is kept -/
theorem BkA.keep {g : Graph} {st st' : St} {acc rest : List Node} {n : Node} (h : BkA g st acc (n :: rest))
    (hbk : SameBk st st')
    (hsym : ∀ x y, lookupA st'.sym x = some (.alias y) → lookupA st.sym x = some (.alias y) ∨ n.inputs.contains (some y) = true) :
    BkA g st' (n :: acc) rest := by
  have hc : ∀ z, cnt z ((n :: acc) ++ rest) = cnt z (acc ++ n :: rest) := by
    intro z; rw [cnt_append, cnt_append, cnt_cons, cnt_cons]; omega
  refine ⟨?_, ?_, ?_, ?_, ?_, ?_⟩
  · intro z; rw [hc, hbk.usesOf]; exact h.lb z
  · intro o ho; rw [hbk.2.2.1]; exact h.gouts o ho
  · intro i hi; rw [hbk.2.1]; exact h.gins i hi
  · intro x hx; rw [hbk.2.2.2] at hx; rw [hc]; exact h.rem x hx
  · intro k; rw [hc]; exact h.nofresh k
  · intro x y hx
    rw [cnt_cons]
    rcases hsym x y hx with h1 | h1
    · have := h.aliasSrc x y h1; omega
    · have : 0 < n.inputs.count (some y) := List.count_pos_iff.mpr (by simpa using h1)
      omega

/-- the node at the head of `todo` is folded into an initializer -/
theorem BkA.fold {g : Graph} {st0 st3 : St} {acc rest : List Node} {n : Node} (h : BkA g st0 acc (n :: rest))
    (hbk : SameBk st0 st3) (o : Name) (k : Nat) (l : List Name)
    (hsym4 : ∀ x y, lookupA (foldState st3 n o ("%" ++ toString k) l).sym x = some (.alias y) →
      lookupA st0.sym x = some (.alias y)) :
    BkA g (foldState st3 n o ("%" ++ toString k) l) acc rest := by
  obtain ⟨p1, p2, p3, p4⟩ := sameBk_foldState_parts st3 n o ("%" ++ toString k) l
  have hcnt : ∀ x, cnt x (acc ++ n :: rest) = cnt x (acc ++ rest) + n.inputs.count (some x) := by
    intro x; rw [cnt_append, cnt_append, cnt_cons]; omega
  have hlb : ∀ x, cnt x (acc ++ rest) ≤ (foldState st3 n o ("%" ++ toString k) l).usesOf x := by
    intro x
    by_cases hx : x = "%" ++ toString k
    · have := h.nofresh k
      rw [hcnt] at this
      rw [hx]
      omega
    · have h1 := h.lb x
      rw [hcnt] at h1
      have h2 := usesOf_inheritInfo st3 o ("%" ++ toString k) x hx
      rw [hbk.usesOf] at h2
      rw [p3]
      omega
  refine ⟨hlb, ?_, ?_, ?_, ?_, ?_⟩
  · intro o' ho'; rw [p2, hbk.2.2.1]; exact h.gouts o' ho'
  · intro i hi; rw [p1, hbk.2.1]; exact h.gins i hi
  · intro x hx
    rcases p4 x hx with h' | ⟨hu, hgo, hgi⟩
    · rw [hbk.2.2.2] at h'
      obtain ⟨r1, r2, r3⟩ := h.rem x h'
      rw [hcnt] at r1
      exact ⟨by omega, r2, r3⟩
    · refine ⟨?_, ?_, ?_⟩
      · have := hlb x
        omega
      · cases hc : g.outputs.contains x with
        | false => rfl
        | true =>
          have := h.gouts x hc
          rw [← hbk.2.2.1, hgo] at this
          exact absurd this (by decide)
      · cases hc : g.inputs.contains x with
        | false => rfl
        | true =>
          have := h.gins x hc
          rw [← hbk.2.1, hgi] at this
          exact absurd this (by decide)
  · intro k'
    have := h.nofresh k'
    rw [hcnt] at this
    omega
  · intro x y hx
    exact h.aliasSrc x y (hsym4 x y hx)

/-- the node at the head of `todo` is replaced by one new node that reads a subset of its inputs -/
theorem BkA.replId {g : Graph} {st0 st3 : St} {acc rest : List Node} {n m : Node} (h : BkA g st0 acc (n :: rest))
    (hbk : SameBk st0 st3) (o : Name) (k : Nat) (l : List Name)
    (hmle : ∀ z, m.inputs.count (some z) ≤ n.inputs.count (some z))
    (hsym4 : ∀ x y, lookupA (replState st3 n o ("%" ++ toString k) m l).sym x = some (.alias y) →
      lookupA st0.sym x = some (.alias y)) :
    BkA g (replState st3 n o ("%" ++ toString k) m l) acc (m :: rest) := by
  obtain ⟨p1, p2, p3, p4⟩ := replState_parts st3 n o ("%" ++ toString k) m l
  have hcnt : ∀ x, cnt x (acc ++ n :: rest) = cnt x (acc ++ rest) + n.inputs.count (some x) := by
    intro x; rw [cnt_append, cnt_append, cnt_cons]; omega
  have hcntm : ∀ x, cnt x (acc ++ m :: rest) = cnt x (acc ++ rest) + m.inputs.count (some x) := by
    intro x; rw [cnt_append, cnt_append, cnt_cons]; omega
  have hlb : ∀ x, cnt x (acc ++ m :: rest) ≤ (replState st3 n o ("%" ++ toString k) m l).usesOf x := by
    intro x
    have hm := hmle x
    by_cases hx : x = "%" ++ toString k
    · have := h.nofresh k
      rw [hcnt] at this
      rw [hcntm, hx]
      rw [hx] at hm
      omega
    · have h1 := h.lb x
      rw [hcnt] at h1
      have h2 := usesOf_inheritInfo st3 o ("%" ++ toString k) x hx
      rw [hbk.usesOf] at h2
      rw [p3, hcntm]
      omega
  refine ⟨hlb, ?_, ?_, ?_, ?_, ?_⟩
  · intro o' ho'; rw [p2, hbk.2.2.1]; exact h.gouts o' ho'
  · intro i hi; rw [p1, hbk.2.1]; exact h.gins i hi
  · intro x hx
    rcases p4 x hx with h' | ⟨hu, hgo, hgi⟩
    · rw [hbk.2.2.2] at h'
      obtain ⟨r1, r2, r3⟩ := h.rem x h'
      rw [hcnt] at r1
      have hm := hmle x
      exact ⟨by rw [hcntm]; omega, r2, r3⟩
    · refine ⟨?_, ?_, ?_⟩
      · have := hlb x
        omega
      · cases hc : g.outputs.contains x with
        | false => rfl
        | true =>
          have := h.gouts x hc
          rw [← hbk.2.2.1, hgo] at this
          exact absurd this (by decide)
      · cases hc : g.inputs.contains x with
        | false => rfl
        | true =>
          have := h.gins x hc
          rw [← hbk.2.1, hgi] at this
          exact absurd this (by decide)
  · intro k'
    have := h.nofresh k'
    rw [hcnt] at this
    have hm := hmle ("%" ++ toString k')
    rw [hcntm]
    omega
  · intro x y hx
    exact h.aliasSrc x y (hsym4 x y hx)

theorem sameBk_processConstant (ctx : Ctx) (st : St) (n : Node) : SameBk st (processConstant ctx st n) := by
  unfold processConstant
  split
  · exact SameBk.refl st
  · split
    · exact SameBk.refl st
    · split
      · rename_i o k a _ _
        have key : ∀ (c? : Option CInfo), SameBk st (match c? with
            | none => st
            | some c => st.setInfo o { dtype := some c.dtype, shape := some (c.shape.map fun (d : Nat) => Dim.known (Int.ofNat d)), const := some c }) := by
          intro c?
          cases c? <;> exact ⟨rfl, rfl, rfl, rfl⟩
        exact key _
      · exact SameBk.refl st

/-- the node classes of fragment A without their side conditions on names (all the bookkeeping needs) -/
def ClsI' (n : Node) : Prop := n.op = "Identity" ∧ n.domain = "" ∧ ∃ x o, n.inputs = [some x] ∧ n.outputs = [o]
def FragBk (n : Node) : Prop := n.subs = [] ∧ hasRefAttr n = false ∧ (ClsP n ∨ ClsK n ∨ ClsI' n ∨ ClsX n)

theorem FragA.toBk {n : Node} (h : FragA n) : FragBk n := by
  refine ⟨h.1, h.2.1, ?_⟩
  rcases h.2.2 with hP | hK | ⟨h1, h2, x, o, h3, h4, _⟩ | ⟨h1, x, o, h2, _, h3⟩ | ⟨h1, _, x, o, h2, h3, _⟩ | ⟨h1, _, _, x, w, o, h2, h3, _⟩
  · exact Or.inl hP
  · exact Or.inr (Or.inl hK)
  · exact Or.inr (Or.inr (Or.inl ⟨h1, h2, x, o, h3, h4⟩))
  · refine Or.inr (Or.inr (Or.inr ?_))
    rcases h3 with ⟨hop, hin⟩ | ⟨hop, tl, hin, htl⟩
    · exact clsX_concat1 n x o hop hin h2
    · exact clsX_dropout n x o tl hop hin htl h2
  · exact Or.inr (Or.inr (Or.inr (clsX_cast n x o h1 h2 h3)))
  · exact Or.inr (Or.inr (Or.inr (clsX_castlike n x o [some w] h1 h2 h3)))

theorem substOne_shape (st : St) : ∀ (l : List (Option Name)), (l.map (substOne st)).map Option.isSome = l.map Option.isSome
  | [] => rfl
  | a :: r => by
    simp only [List.map_cons, substOne_shape st r, List.cons.injEq, and_true]
    cases a with
    | none => rfl
    | some x =>
      obtain ⟨y, hy⟩ := substOne_some st x
      rw [hy]; rfl

/-- what the end-to-end theorem needs about the final state and the final node list -/
def FinalBk (g : Graph) (st : St) (L : List Node) : Prop :=
  (∀ x, x ∈ st.removed → cnt x L = 0 ∧ g.outputs.contains x = false ∧ g.inputs.contains x = false) ∧
  (st.err.isSome = true ∨ ∀ x y, lookupA st.sym x = some (.alias y) → 0 < cnt y L)

theorem BkA.final {g : Graph} {st st' : St} {acc todo : List Node} (h : BkA g st acc todo)
    (hr : st'.removed = st.removed) (hs : st'.err.isSome = true ∨ st'.sym = st.sym) : FinalBk g st' (acc.reverse ++ todo) := by
  have hc : ∀ z, cnt z (acc.reverse ++ todo) = cnt z (acc ++ todo) := by
    intro z; rw [cnt_append, cnt_append, cnt_reverse]
  refine ⟨?_, ?_⟩
  · intro x hx; rw [hr] at hx; rw [hc]; exact h.rem x hx
  · rcases hs with hs | hs
    · exact Or.inl hs
    · right
      intro x y hx
      rw [hs] at hx
      have := h.aliasSrc x y hx
      rw [hc, cnt_append]; omega

/-- **The bookkeeping invariant holds through the node loop on fragment A.** -/
theorem visitNodes_bkA (ctx : Ctx) (hnf : ctx.isFunction = false) (vg : St → Graph → St × Graph) (g : Graph) :
    ∀ (f : Nat) (todo : List Node) (st : St) (acc : List Node) (ai : List (Name × String)),
      (∀ n ∈ todo, FragBk n) → BkA g st acc todo →
      FinalBk g (visitNodes ctx vg f st todo acc ai).1 (visitNodes ctx vg f st todo acc ai).2.1 := by
  intro f
  induction f with
  | zero =>
    intro todo st acc ai _ hb
    simp only [visitNodes]
    exact hb.final rfl (Or.inl rfl)
  | succ f ih =>
    intro todo st acc ai hfr hb
    cases todo with
    | nil =>
      simp only [visitNodes]
      have := hb.final (st' := st) rfl (Or.inr rfl)
      simpa using this
    | cons n0 rest =>
      have hfr0 := hfr n0 List.mem_cons_self
      have hfrrest : ∀ m ∈ rest, FragBk m := fun m hm => hfr m (List.mem_cons_of_mem _ hm)
      have stuck : ∀ (s : St), s.removed = st.removed → (s.err.isSome = true ∨ s.sym = st.sym) →
          FinalBk g ((s, acc.reverse ++ n0 :: rest, ai) : St × List Node × List (Name × String)).1
            ((s, acc.reverse ++ n0 :: rest, ai) : St × List Node × List (Name × String)).2.1 :=
        fun s h1 h2 => hb.final h1 h2
      obtain ⟨hspec1, hspec2⟩ := substInputs_spec st n0
      have hb0 := hb.subst
      have hfr00 := sameFrame_substInputs st n0
      generalize hnn : (substInputs st n0).1 = n at hspec1
      generalize hst0 : (substInputs st n0).2 = st0 at hspec2 hb0 hfr00
      rw [← hspec1] at hb0
      have hnsubs : n.subs = [] := by rw [hspec1, setInputs_subs]; exact hfr0.1
      have hnout : n.outputs = n0.outputs := by rw [hspec1, setInputs_outputs]
      have keepCase : ∀ (st' : St), SameBk st0 st' →
          (∀ x y, lookupA st'.sym x = some (.alias y) → lookupA st0.sym x = some (.alias y) ∨ n.inputs.contains (some y) = true) →
          FinalBk g (visitNodes ctx vg f st' rest (n :: acc) ai).1 (visitNodes ctx vg f st' rest (n :: acc) ai).2.1 :=
        fun st' hbk hsym => ih rest st' (n :: acc) ai hfrrest (hb0.keep hbk hsym)
      have stuck0 : ∀ (s : St), SameBk st0 s → s.err.isSome = true →
          FinalBk g ((s, acc.reverse ++ n0 :: rest, ai) : St × List Node × List (Name × String)).1
            ((s, acc.reverse ++ n0 :: rest, ai) : St × List Node × List (Name × String)).2.1 :=
        fun s hbk hs => stuck s (hbk.2.2.2.trans hfr00.2) (Or.inl hs)
      have cascade : ∀ (stG : St) (v : Nat), SameBk st0 stG →
          (∀ x y, lookupA stG.sym x = some (.alias y) → lookupA st0.sym x = some (.alias y) ∨
            (n.outputs.contains x = true ∧ n.inputs.contains (some y) = true)) →
          FinalBk g
            (match gateCascade ctx stG n v with
              | (PRes.error m, st) => ({ st with err := some m }, acc.reverse ++ n0 :: rest, ai)
              | (PRes.keep n', st) => visitNodes ctx vg f (visitSubs vg st n'.subs).1 rest (n'.setSubs (visitSubs vg st n'.subs).2 :: acc) ai
              | (PRes.repl n' r, st) =>
                match applyRepl ctx st n' r with
                | .error m => ({ st with err := some m }, acc.reverse ++ n0 :: rest, ai)
                | .ok (newNodes, inits, st) => visitNodes ctx vg f st (newNodes ++ rest) acc (ai ++ inits)).1
            (match gateCascade ctx stG n v with
              | (PRes.error m, st) => ({ st with err := some m }, acc.reverse ++ n0 :: rest, ai)
              | (PRes.keep n', st) => visitNodes ctx vg f (visitSubs vg st n'.subs).1 rest (n'.setSubs (visitSubs vg st n'.subs).2 :: acc) ai
              | (PRes.repl n' r, st) =>
                match applyRepl ctx st n' r with
                | .error m => ({ st with err := some m }, acc.reverse ++ n0 :: rest, ai)
                | .ok (newNodes, inits, st) => visitNodes ctx vg f st (newNodes ++ rest) acc (ai ++ inits)).2.1 := by
        intro stG v hbkG hsymG
        have hbkc := sameBk_gateCascade ctx stG n v
        rcases gateCascade_cases ctx hnf stG n v with ⟨st', hg, hs'⟩ | ⟨m, st', hg⟩ | ⟨c, st2, st3, o, hs2, hora, ho, hsubs, hnc, hins, hg, hsym3, hinfo3⟩
        · rw [hg] at hbkc ⊢
          simp only [hnsubs, visitSubs, setSubs_nil n hnsubs]
          exact keepCase st' (SameBk.trans hbkG hbkc) (fun x y hx => by
            rw [hs'.2] at hx
            rcases hsymG x y hx with h | h
            · exact Or.inl h
            · exact Or.inr h.2)
        · rw [hg] at hbkc ⊢
          exact stuck0 { st' with err := some m } (SameBk.trans (SameBk.trans hbkG hbkc) ⟨rfl, rfl, rfl, rfl⟩) rfl
        · rw [hg] at hbkc ⊢
          obtain ⟨st4, happ, hs4, l, hst4⟩ := applyRepl_fold ctx hnf st3 n o (freshOf st2) c.tok ho
          simp only [happ, List.nil_append]
          have hfold := inheritInfo_fold st2 st3 o (freshOf st2) c hinfo3
          have hbk3 : SameBk st0 st3 := SameBk.trans hbkG hbkc
          have hst4' : st4 = foldState st3 n o ("%" ++ toString st2.fresh) l := hst4
          rw [hst4']
          apply ih rest _ acc (ai ++ [(o, c.tok)]) hfrrest
          apply hb0.fold hbk3 o st2.fresh l
          intro x y hx
          rw [← hst4', hs4.2, hfold.1, hsym3, hs2.2, lookupA_erase] at hx
          by_cases hxo : x = o
          · simp [hxo] at hx
          · simp only [hxo, if_false] at hx
            rcases hsymG x y hx with h | h
            · exact h
            · exfalso
              rw [ho] at h
              simp at h
              exact hxo h.1
      simp only [visitNodes]
      split
      · rename_i herr
        exact stuck st rfl (Or.inl herr)
      · rw [processNode_noref ctx st n0 hfr0.2.1, hnn, hst0]
        have hdom : n.domain = n0.domain := by rw [hspec1, setInputs_domain]
        rcases hfr0.2.2 with hP | hK | hIcls | hR
        · have hev : ∀ v, lookupEvaluator n v = none := fun v => by rw [hspec1, lookupEvaluator_setInputs]; exact hP.2 v
          simp only [hP.1, Bool.false_eq_true, if_false]
          cases himp : lookupA ctx.imports n0.domain with
          | none =>
            simp only [hnsubs, visitSubs, setSubs_nil n hnsubs]
            exact keepCase _ ⟨rfl, rfl, rfl, rfl⟩ (fun x y hx => Or.inl hx)
          | some v =>
            simp only [evalPartial, hev, finishNode]
            exact cascade st0 v (SameBk.refl st0) (fun x y hx => Or.inl hx)
        · have hev : ∀ v, lookupEvaluator n v = none := by
            intro v
            rw [hspec1, lookupEvaluator_setInputs]
            have hk := hK.1
            simp only [Node.isOp, Bool.and_eq_true, beq_iff_eq] at hk
            unfold lookupEvaluator
            split
            · rfl
            · simp [hk.1]
          have hisop : n.isOp "Constant" = true := by rw [hspec1, isOp_setInputs]; exact hK.1
          have hpbk := sameBk_processConstant ctx st0 n
          have hpsym := (processConstant_facts ctx st0 n).1
          simp only [hK.1, if_true]
          cases himp : lookupA ctx.imports n0.domain with
          | none =>
            simp only [hnsubs, visitSubs, setSubs_nil n hnsubs]
            exact keepCase _ (SameBk.trans hpbk ⟨rfl, rfl, rfl, rfl⟩) (fun x y hx => Or.inl (by
              have : ((processConstant ctx st0 n).note "gate:noimport").sym = st0.sym := hpsym
              rw [this] at hx; exact hx))
          | some v =>
            simp only [evalPartial, hev, finishNode, gateCascade, hisop, if_true]
            simp only [hnsubs, visitSubs, setSubs_nil n hnsubs]
            exact keepCase _ (SameBk.trans hpbk ⟨rfl, rfl, rfl, rfl⟩) (fun x y hx => Or.inl (by
              have : ((processConstant ctx st0 n).note "gate:constant").sym = st0.sym := hpsym
              rw [this] at hx; exact hx))
        · obtain ⟨hiop, hidom, x0, o, hin0, hout0⟩ := hIcls
          have hnc : n0.isOp "Constant" = false := by simp [Node.isOp, hiop]
          simp only [hnc, Bool.false_eq_true, if_false]
          cases himp : lookupA ctx.imports n0.domain with
          | none =>
            simp only [hnsubs, visitSubs, setSubs_nil n hnsubs]
            exact keepCase _ ⟨rfl, rfl, rfl, rfl⟩ (fun x y hx => Or.inl hx)
          | some v =>
            have hxin : ∃ x, n.inputs = [some x] := by
              rw [hspec1, setInputs_inputs, hin0]
              simp only [List.map_cons, List.map_nil, substOne]
              split
              · exact ⟨_, rfl⟩
              · exact ⟨_, rfl⟩
            obtain ⟨x, hxin⟩ := hxin
            have hno : n.outputs = [o] := by rw [hnout, hout0]
            obtain ⟨st2, hep, hsym2, _, hbk2, _, _⟩ := evalPartial_identity st0 n v x o
              (by rw [hspec1, setInputs_op]; exact hiop) (by rw [hdom]; exact hidom) hxin hno
            simp only [hep, finishNode]
            exact cascade st2 v hbk2 (fun x' y hx => by
              rw [hsym2, lookupA_insert] at hx
              by_cases hxo : x' = o
              · simp only [hxo, if_true, Option.some.injEq, SymVal.alias.injEq] at hx
                right
                exact ⟨by rw [hxo, hno]; simp, by rw [hxin, ← hx]; simp⟩
              · simp only [hxo, if_false] at hx
                exact Or.inl hx)
        · obtain ⟨hnc, ⟨o, hout0⟩, hshape⟩ := hR
          simp only [hnc, Bool.false_eq_true, if_false]
          cases himp : lookupA ctx.imports n0.domain with
          | none =>
            simp only [hnsubs, visitSubs, setSubs_nil n hnsubs]
            exact keepCase _ ⟨rfl, rfl, rfl, rfl⟩ (fun x y hx => Or.inl hx)
          | some v =>
            have hno : n.outputs = [o] := by rw [hnout, hout0]
            have hes : EvShape n := by
              rw [hspec1]; exact hshape _ (substOne_shape st n0.inputs)
            have hbk2 := sameBk_evalPartial n v st0
            simp only []
            generalize hE : evalPartial n v st0 = e at hbk2 ⊢
            obtain ⟨r1, st2⟩ := e
            rcases (hes st0 v).2 with ⟨hr, hsym⟩ | ⟨x, opn, attrs, hr, hxin, hsym, hkind⟩
            · rw [hE] at hr hsym
              simp only [] at hr hsym hbk2
              subst hr
              simp only [finishNode]
              exact cascade st2 v hbk2 (fun x y hx => Or.inl (by rw [hsym] at hx; exact hx))
            · rw [hE] at hr hsym
              simp only [] at hr hsym hbk2
              subst hr
              simp only [finishNode]
              have hpos : 0 < n.inputs.count (some x) := List.count_pos_iff.mpr hxin
              have hxfv : x ≠ freshOf st0 := by
                intro e
                have h0 := hb0.nofresh st0.fresh
                have h1 := cnt_le_of_count x n acc rest
                rw [e] at h1 hpos
                unfold freshOf at h1 hpos
                omega
              obtain ⟨l, happ⟩ := applyRepl_one ctx hnf st2 n o (freshOf st0) x opn attrs hno hxfv
              have happ' : applyRepl ctx st2 n (oneRepl st0 opn x attrs) = .ok ([mkNode opn [some x] [o] attrs], [],
                  replState st2 n o ("%" ++ toString st0.fresh) (mkNode opn [some x] [o] attrs) l) := happ
              simp only [happ', List.cons_append, List.nil_append, List.append_nil]
              have hfr' : ∀ k ∈ mkNode opn [some x] [o] attrs :: rest, FragBk k := by
                intro k hk
                rcases List.mem_cons.mp hk with rfl | hk'
                · rcases hkind with ⟨rfl, rfl, _⟩ | ⟨rfl, ⟨t, rfl⟩, _, _⟩
                  · exact ⟨rfl, rfl, Or.inr (Or.inr (Or.inl ⟨rfl, rfl, x, o, rfl, rfl⟩))⟩
                  · exact ⟨rfl, rfl, Or.inr (Or.inr (Or.inr (clsX_cast _ x o rfl rfl rfl)))⟩
                · exact hfrrest k hk'
              apply ih (mkNode opn [some x] [o] attrs :: rest) _ acc ai hfr'
              apply hb0.replId hbk2 o st0.fresh l
              · intro z
                by_cases hz : z = x
                · subst hz
                  have : (mkNode opn [some z] [o] attrs).inputs.count (some z) = 1 := by simp [mkNode, Node.inputs]
                  omega
                · have hb : (some x == some z) = false := by simp; exact fun e => hz e.symm
                  have : (mkNode opn [some x] [o] attrs).inputs.count (some z) = 0 := by
                    simp [mkNode, Node.inputs, List.count_cons, hb]
                  omega
              · intro x' y hx
                rw [(sameIS_replState st2 n o _ _ l).2, inheritInfo_sym, lookupA_erase] at hx
                by_cases hxo : x' = o
                · simp [hxo] at hx
                · simp only [hxo, if_false] at hx
                  rw [hsym] at hx
                  exact hx

/-! ### discharging the pruning side condition on fragment A -/

theorem replaceOutputs_mem (nodes : List Node) : ∀ (outs : List Name) (st : St) (o' : Name),
    o' ∈ (replaceOutputs st nodes outs).2 → o' ∈ outs ∨ ∃ o, lookupA st.sym o = some (.alias o')
  | [], _, _, h => by simp [replaceOutputs] at h
  | o :: rest, st, o', h => by
    simp only [replaceOutputs] at h
    split at h
    · rename_i y hy
      split at h
      · rcases List.mem_cons.mp h with rfl | h'
        · exact Or.inl List.mem_cons_self
        · rcases replaceOutputs_mem nodes rest _ o' h' with h1 | h1
          · exact Or.inl (List.mem_cons_of_mem _ h1)
          · exact Or.inr h1
      · split at h
        · rcases List.mem_cons.mp h with rfl | h'
          · exact Or.inl List.mem_cons_self
          · rcases replaceOutputs_mem nodes rest _ o' h' with h1 | h1
            · exact Or.inl (List.mem_cons_of_mem _ h1)
            · exact Or.inr h1
        · rcases List.mem_cons.mp h with rfl | h'
          · exact Or.inr ⟨o, by simpa [St.getSym] using hy⟩
          · rcases replaceOutputs_mem nodes rest _ o' h' with h1 | h1
            · exact Or.inl (List.mem_cons_of_mem _ h1)
            · exact Or.inr h1
    · rcases List.mem_cons.mp h with rfl | h'
      · exact Or.inl List.mem_cons_self
      · rcases replaceOutputs_mem nodes rest st o' h' with h1 | h1
        · exact Or.inl (List.mem_cons_of_mem _ h1)
        · exact Or.inr h1

theorem initialState_bkA (g : Graph) (info : List (Name × VInfo))
    (hnf : ∀ k : Nat, cnt ("%" ++ toString k) g.nodes = 0) : BkA g (initialState g info) [] g.nodes := by
  have h := initialState_bk g info hnf
  refine ⟨h.lb, h.gouts, h.gins, h.rem, h.nofresh, ?_⟩
  intro x y hx
  rw [(initialState_sym g info).1] at hx
  simp [lookupA] at hx

/-- On fragment A nothing popped by `_clear_unused_initializers` is still referenced in the result. -/
theorem prune_ok_fragmentA (k : Nat) (ctx : Ctx) (hnf : ctx.isFunction = false) (info : List (Name × VInfo)) (g : Graph)
    (hfr : ∀ n ∈ g.nodes, FragBk n) (hnofresh : ∀ k : Nat, cnt ("%" ++ toString k) g.nodes = 0) :
    ∀ x, (visitGraph ctx (k + 1) (initialState g info) g).1.removed.contains x = true →
      g.inputs.contains x = false ∧
      (visitGraph ctx (k + 1) (initialState g info) g).2.outputs.contains x = false ∧
      ∀ n ∈ (visitGraph ctx (k + 1) (initialState g info) g).2.nodes, n.inputs.contains (some x) = false := by
  have hfin := visitNodes_bkA ctx hnf (visitGraph ctx k) g
    (stepFuel g + 16 * (initialState g info).uses.length) g.nodes (initialState g info) [] [] hfr
    (initialState_bkA g info hnofresh)
  generalize hvn : visitNodes ctx (visitGraph ctx k) (stepFuel g + 16 * (initialState g info).uses.length)
    (initialState g info) g.nodes [] [] = r at hfin
  obtain ⟨stN, L, added⟩ := r
  simp only [] at hfin
  have hres : (visitGraph ctx (k + 1) (initialState g info) g).2.nodes = L ∧
      (visitGraph ctx (k + 1) (initialState g info) g).1.removed = stN.removed ∧
      (∀ o', o' ∈ (visitGraph ctx (k + 1) (initialState g info) g).2.outputs →
        o' ∈ g.outputs ∨ (stN.err.isSome = false ∧ ∃ o, lookupA stN.sym o = some (.alias o'))) := by
    simp only [visitGraph, hvn]
    split
    · exact ⟨rfl, rfl, fun o' ho' => Or.inl ho'⟩
    · rename_i herr
      refine ⟨rfl, (sameFrame_replaceOutputs _ _ _).2, ?_⟩
      intro o' ho'
      rcases replaceOutputs_mem L g.outputs stN o' ho' with h | h
      · exact Or.inl h
      · exact Or.inr ⟨by simpa using herr, h⟩
  intro x hx
  rw [hres.2.1] at hx
  have hxm : x ∈ stN.removed := by simpa using hx
  obtain ⟨r1, r2, r3⟩ := hfin.1 x hxm
  refine ⟨r3, ?_, ?_⟩
  · cases hc : (visitGraph ctx (k + 1) (initialState g info) g).2.outputs.contains x with
    | false => rfl
    | true =>
      exfalso
      rcases hres.2.2 x (by simpa using hc) with h | ⟨herr, o, ho⟩
      · rw [List.contains_iff_mem.mpr h] at r2
        exact absurd r2 (by decide)
      · rcases hfin.2 with he | ha
        · rw [herr] at he; exact absurd he (by decide)
        · have := ha o x ho
          omega
  · intro n hn
    rw [hres.1] at hn
    cases hc : n.inputs.contains (some x) with
    | false => rfl
    | true =>
      exfalso
      have hpos : 0 < cnt x L := by
        unfold cnt
        apply List.count_pos_iff.mpr
        exact List.mem_flatMap.mpr ⟨n, hn, by simpa using hc⟩
      omega

end OV.C03
