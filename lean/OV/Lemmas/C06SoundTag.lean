import OV.Lemmas.C06SoundOr

/-!
# C06 — soundness for the whole pattern language, tagged `OpIdDispatchOr` included

`_match_value` ignores the result of `self._match.bind(tag_var, i)` for an `OpIdDispatchOr`: on a
clash the current partial match is marked failed but `True` is returned and matching goes on.  The
invariants of `C06SoundOr` are therefore restated *relative to the success flags of the stack*
(`allOk`): as long as no partial match on the stack is failed they say what they said before; a
failed partial match is never merged and never reported, so the final statement is unconditional.
-/

namespace OV.C06

/-- no partial match on the stack has been failed -/
def allOk (st : Stack) : Prop := ∀ c ∈ st, c.ok = true

theorem allOk_cons {c : Partial} {rest : Stack} : allOk (c :: rest) ↔ c.ok = true ∧ allOk rest := by
  simp [allOk]

theorem allOk_le {c c' : Partial} {rest : Stack} (l : Le c c') (h : allOk (c' :: rest)) : allOk (c :: rest) :=
  allOk_cons.2 ⟨l.ok (allOk_cons.1 h).1, (allOk_cons.1 h).2⟩

/-- the invariant of `C06SoundOr`, as long as nothing on the stack has failed -/
def InvT (E : Env) (rest : Stack) (c : Partial) (P : List NPId) : Prop :=
  allOk (c :: rest) → InvS E rest c P

theorem InvT.ext {E : Env} {rest : Stack} {c c' : Partial} {P : List NPId} (h : InvT E rest c P)
    (e : Ext c c') : InvT E rest c' P :=
  fun hok => (h (allOk_le e.le hok)).ext e

def NodeSpecT (E : Env) (rec : NPId → NodeId → Stack → R) : Prop :=
  ∀ np n rest c P r, rec np n (c :: rest) = r → InvT E rest c P → (∀ x ∈ P, np < x) → FreshP rest c →
    ∃ c', ResS rest r c' ∧ Le c c' ∧ FreshP rest c' ∧
      (r.1 = true → InvT E rest c' P ∧ (allOk (c' :: rest) → SatN E (assignStack (c' :: rest)) np n))

mutual
theorem matchValue_specT (E : Env) (rec : NPId → NodeId → Stack → R) (hrec : NodeSpecT E rec)
    (hf3 : E.fixF3 = true) : ∀ (vp : VPat) (v : Option ValueId) (rest : Stack) (c : Partial)
      (P : List NPId) (r : R),
      matchValue E rec vp v (c :: rest) = r → InvT E rest c P → FreshP rest c →
      (∀ q ∈ vp.refs, ∀ x ∈ P, q < x) →
      ∃ c', ResS rest r c' ∧ Le c c' ∧ FreshP rest c' ∧
        (r.1 = true → InvT E rest c' P ∧ (allOk (c' :: rest) → SatV E (assignStack (c' :: rest)) vp v))
  | .any, v, rest, c, P, r, hr, hinv, hf, _ => by
    unfold matchValue at hr
    split at hr
    · subst hr
      exact ⟨_, ResS.failed rest c, (ext_failed c).le, hf.failed, fun h => by simp [fail_cons] at h⟩
    · dsimp only at hr
      subst hr
      exact ⟨c, ⟨rfl, fun h => by simp at h⟩, Le.refl c, hf, fun _ => ⟨hinv, fun _ => .any v⟩⟩
  | .var id name isVar canNone check, v, rest, c, P, r, hr, hinv, hf, _ => by
    unfold matchValue at hr
    split at hr
    · subst hr
      exact ⟨_, ResS.failed rest c, (ext_failed c).le, hf.failed, fun h => by simp [fail_cons] at h⟩
    · next hcg =>
      dsimp only at hr
      obtain ⟨c1, r1, e1, f1, b1⟩ := bindValue2_specS E.fixF2 E.p rest c (.var id name isVar canNone check) v hf
      split at hr
      · next hff =>
        subst hr
        have hf' : (bindValue2 E.fixF2 E.p (c :: rest) (.var id name isVar canNone check) v).1 = false := by
          simpa using hff
        exact ⟨c1, r1, e1.le, f1, fun h => by simp [hf'] at h⟩
      · next ht =>
        have ht' : (bindValue2 E.fixF2 E.p (c :: rest) (.var id name isVar canNone check) v).1 = true := by
          simpa using ht
        split at hr
        · subst hr
          rw [r1.st]
          exact ⟨_, ResS.failed rest c1, (e1.trans (ext_failed c1)).le, f1.failed,
            fun h => by simp [fail_cons] at h⟩
        · next hn =>
          subst hr
          refine ⟨c1, r1, e1.le, f1, fun _ => ⟨hinv.ext e1, fun _ => .var _ _ _ _ _ _ (b1 ht') ?_ (crossGraph_var hcg)⟩⟩
          intro hv
          subst hv
          simpa using hn
  | .const id k, v, rest, c, P, r, hr, hinv, hf, _ => by
    unfold matchValue at hr
    split at hr
    · subst hr
      exact ⟨_, ResS.failed rest c, (ext_failed c).le, hf.failed, fun h => by simp [fail_cons] at h⟩
    · next hcg =>
      dsimp only at hr
      obtain ⟨c1, r1, e1, f1, b1⟩ := bindValue_specS E.p rest c (.const id k) v hf
      split at hr
      · next hff =>
        subst hr
        have hf' : (bindValue E.p (c :: rest) (.const id k) v).1 = false := by simpa using hff
        exact ⟨c1, r1, e1.le, f1, fun h => by simp [hf'] at h⟩
      · next ht =>
        have ht' : (bindValue E.p (c :: rest) (.const id k) v).1 = true := by simpa using ht
        rw [r1.st] at hr
        split at hr
        · subst hr
          exact ⟨_, ResS.failed rest c1, (e1.trans (ext_failed c1)).le, f1.failed,
            fun h => by simp [fail_cons] at h⟩
        · next x =>
          obtain ⟨c2, r2, e2, hb2, hv2, k2⟩ := matchConstant_specS E k x rest c1 r hr
          refine ⟨c2, r2, (e1.trans e2).le, Ext.fresh_of_same f1 hb2 hv2 e2.nb e2.nodes,
            fun h => ⟨hinv.ext (e1.trans e2), fun _ => ?_⟩⟩
          obtain ⟨cv, h1, h2⟩ := k2 h
          exact .const id k x cv (boundTo_mono (e2.le.toALeS rest) _ _ _ (b1 ht')) h1 h2
  | .out np idx, v, rest, c, P, r, hr, hinv, hf, hq => by
    unfold matchValue at hr
    split at hr
    · subst hr
      exact ⟨_, ResS.failed rest c, (ext_failed c).le, hf.failed, fun h => by simp [fail_cons] at h⟩
    · next hcg =>
      dsimp only at hr
      obtain ⟨c1, r1, e1, f1, b1⟩ := bindValue_specS E.p rest c (.out np idx) v hf
      split at hr
      · next hff =>
        subst hr
        have hf' : (bindValue E.p (c :: rest) (.out np idx) v).1 = false := by simpa using hff
        exact ⟨c1, r1, e1.le, f1, fun h => by simp [hf'] at h⟩
      · next ht =>
        have ht' : (bindValue E.p (c :: rest) (.out np idx) v).1 = true := by simpa using ht
        rw [r1.st] at hr
        split at hr
        · subst hr
          exact ⟨_, ResS.failed rest c1, (e1.trans (ext_failed c1)).le, f1.failed,
            fun h => by simp [fail_cons] at h⟩
        · next x =>
          unfold matchNodeOutput at hr
          split at hr
          · subst hr
            exact ⟨_, ResS.failed rest c1, (e1.trans (ext_failed c1)).le, f1.failed,
              fun h => by simp [fail_cons] at h⟩
          · next n hprod =>
            split at hr
            · subst hr
              exact ⟨_, ResS.failed rest c1, (e1.trans (ext_failed c1)).le, f1.failed,
                fun h => by simp [fail_cons] at h⟩
            · next hidx =>
              obtain ⟨c2, r2, l2, f2, s2⟩ := hrec np n rest c1 P r hr (hinv.ext e1)
                (hq np (by simp [VPat.refs])) f1
              refine ⟨c2, r2, e1.le.trans l2, f2, fun h => ⟨(s2 h).1, fun hok => ?_⟩⟩
              have hidx' : E.g.index x = some idx := by simpa using hidx
              exact .out np idx x n (boundTo_mono (l2.toALeS rest) _ _ _ (b1 ht')) (crossGraph_out hcg)
                hprod hidx' ((s2 h).2 hok)
  | .orD id name tagVar alts, v, rest, c, P, r, hr, hinv, hf, hq => by
    unfold matchValue at hr
    split at hr
    · subst hr
      exact ⟨_, ResS.failed rest c, (ext_failed c).le, hf.failed, fun h => by simp [fail_cons] at h⟩
    · next hcg =>
      dsimp only at hr
      obtain ⟨c1, r1, e1, f1, b1⟩ := bindValue_specS E.p rest c (.orD id name tagVar alts) v hf
      split at hr
      · next hff =>
        subst hr
        have hf' : (bindValue E.p (c :: rest) (.orD id name tagVar alts) v).1 = false := by simpa using hff
        exact ⟨c1, r1, e1.le, f1, fun h => by simp [hf'] at h⟩
      · next ht =>
        have ht' : (bindValue E.p (c :: rest) (.orD id name tagVar alts) v).1 = true := by simpa using ht
        rw [r1.st] at hr
        split at hr
        · subst hr
          exact ⟨_, ResS.failed rest c1, (e1.trans (ext_failed c1)).le, f1.failed,
            fun h => by simp [fail_cons] at h⟩
        · next x =>
          have hfor : E.g.isForeign x = false := by
            simp only [crossGraphBad, VPat.crossGraphOk, Bool.not_false, Bool.and_true,
              Bool.not_eq_true] at hcg
            exact hcg
          split at hr
          · subst hr
            exact ⟨_, ResS.failed rest c1, (e1.trans (ext_failed c1)).le, f1.failed,
              fun h => by simp [fail_cons] at h⟩
          · next a hd =>
            have hdm : a ∈ alts := by
              unfold getDispatch at hd
              split at hd
              · cases hd
              · split at hd
                · cases hd
                · exact List.mem_of_find?_eq_some hd
            obtain ⟨c2, r2, e2, f2, b2⟩ := bindValue_specS E.p rest c1 (.out a.np a.idx) (some x) f1
            -- the dispatched alternative `_match_value(pattern_choice, value)`
            have key : ∀ R2, (if !(bindValue E.p (c1 :: rest) (.out a.np a.idx) (some x)).1 then
                bindValue E.p (c1 :: rest) (.out a.np a.idx) (some x)
              else matchNodeOutput E rec a.np a.idx x (bindValue E.p (c1 :: rest) (.out a.np a.idx) (some x)).2) = R2 →
                ∃ c3, ResS rest R2 c3 ∧ Le c1 c3 ∧ FreshP rest c3 ∧
                  (R2.1 = true → InvT E rest c3 P ∧ (allOk (c3 :: rest) →
                    SatV E (assignStack (c3 :: rest)) (.out a.np a.idx) (some x) ∧
                    (assignStack (c3 :: rest)).boundTo E.p (.orD id name tagVar alts) (some x))) := by
              intro R2 hr'
              split at hr'
              · next hf2 =>
                subst hr'
                have hf2' : (bindValue E.p (c1 :: rest) (.out a.np a.idx) (some x)).1 = false := by simpa using hf2
                exact ⟨c2, r2, e2.le, f2, fun h => by simp [hf2'] at h⟩
              · next ht2 =>
                have ht2' : (bindValue E.p (c1 :: rest) (.out a.np a.idx) (some x)).1 = true := by simpa using ht2
                rw [r2.st] at hr'
                have e12 := e1.trans e2
                unfold matchNodeOutput at hr'
                split at hr'
                · subst hr'
                  exact ⟨_, ResS.failed rest c2, (e2.trans (ext_failed c2)).le, f2.failed,
                    fun h => by simp [fail_cons] at h⟩
                · next n hprod =>
                  split at hr'
                  · subst hr'
                    exact ⟨_, ResS.failed rest c2, (e2.trans (ext_failed c2)).le, f2.failed,
                      fun h => by simp [fail_cons] at h⟩
                  · next hidx =>
                    obtain ⟨c3, r3, l3, f3, s3⟩ := hrec a.np n rest c2 P R2 hr' (hinv.ext e12)
                      (hq a.np (by simp only [VPat.refs, List.mem_map]; exact ⟨a, hdm, rfl⟩)) f2
                    refine ⟨c3, r3, e2.le.trans l3, f3, fun h => ⟨(s3 h).1, fun hok => ⟨?_, ?_⟩⟩⟩
                    · have hidx' : E.g.index x = some a.idx := by simpa using hidx
                      exact .out a.np a.idx x n (boundTo_mono (l3.toALeS rest) _ _ _ (b2 ht2')) hfor hprod hidx'
                        ((s3 h).2 hok)
                    · exact boundTo_mono ((e2.le.trans l3).toALeS rest) _ _ _ (b1 ht')
            generalize hR : (if !(bindValue E.p (c1 :: rest) (.out a.np a.idx) (some x)).1 then
                bindValue E.p (c1 :: rest) (.out a.np a.idx) (some x)
              else matchNodeOutput E rec a.np a.idx x (bindValue E.p (c1 :: rest) (.out a.np a.idx) (some x)).2) = R2 at hr
            obtain ⟨c3, r3, l3, f3, s3⟩ := key R2 hR
            split at hr
            · next hR1 =>
              cases tagVar with
              | none =>
                dsimp only at hr
                subst hr
                exact ⟨c3, r3, e1.le.trans l3, f3, fun h => ⟨(s3 h).1, fun hok =>
                  .orD id name none alts x a ((s3 h).2 hok).2 hfor hd ((s3 h).2 hok).1 (fun t e => by cases e)⟩⟩
              | some t =>
                dsimp only at hr
                rw [r3.st] at hr
                -- `self._match.bind(tag_var, i)`: the result is ignored, a clash only fails the partial match
                obtain ⟨c4, rb, eb, _, fb, bb⟩ := bind_specS rest c3 t (.tag a.tag) f3
                rw [rb.st] at hr
                subst hr
                refine ⟨c4, ⟨rfl, fun h => by simp at h⟩, (e1.le.trans l3).trans eb.le, fb,
                  fun _ => ⟨(s3 hR1).1.ext eb, fun hok => ?_⟩⟩
                have hok3 := allOk_le eb.le hok
                have hb : (bind (c3 :: rest) t (.tag a.tag)).1 = true := by
                  cases hb1 : (bind (c3 :: rest) t (.tag a.tag)).1 with
                  | true => rfl
                  | false =>
                    have h4 := rb.okF hb1
                    rw [(allOk_cons.1 hok).1] at h4
                    cases h4
                exact .orD id name (some t) alts x a
                  (boundTo_mono (eb.le.toALeS rest) _ _ _ ((s3 hR1).2 hok3).2) hfor hd
                  (satV_mono (eb.le.toALeS rest) ((s3 hR1).2 hok3).1)
                  (fun t' e => by cases e; exact bb hb)
            · next hR0 =>
              subst hr
              exact ⟨c3, r3, e1.le.trans l3, f3, fun h => absurd h hR0⟩
  | .orB id name tagVar tags alts, v, rest, c, P, r, hr, hinv, hf, hq => by
    unfold matchValue at hr
    split at hr
    · subst hr
      exact ⟨_, ResS.failed rest c, (ext_failed c).le, hf.failed, fun h => by simp [fail_cons] at h⟩
    · next hcg =>
      dsimp only at hr
      obtain ⟨c1, r1, e1, f1, b1⟩ := bindValue_specS E.p rest c (.orB id name tagVar tags alts) v hf
      split at hr
      · next hff =>
        subst hr
        have hf' : (bindValue E.p (c :: rest) (.orB id name tagVar tags alts) v).1 = false := by simpa using hff
        exact ⟨c1, r1, e1.le, f1, fun h => by simp [hf'] at h⟩
      · next ht =>
        have ht' : (bindValue E.p (c :: rest) (.orB id name tagVar tags alts) v).1 = true := by simpa using ht
        rw [r1.st] at hr
        obtain ⟨c2, r2, l2, f2, s2⟩ := matchAlts_specT E rec hrec hf3 alts tags tagVar v rest c1 P r hr
          (hinv.ext e1) f1 (fun q hq' => hq q (by simpa [VPat.refs] using hq'))
        refine ⟨c2, r2, e1.le.trans l2, f2, fun h => ⟨(s2 h).1, fun hok => ?_⟩⟩
        obtain ⟨i, alt, hi, hs, htag⟩ := (s2 h).2 hok
        exact .orB id name tagVar tags alts v i alt (boundTo_mono (l2.toALeS rest) _ _ _ (b1 ht'))
          (crossGraph_orB hcg) hi hs htag
theorem matchAlts_specT (E : Env) (rec : NPId → NodeId → Stack → R) (hrec : NodeSpecT E rec)
    (hf3 : E.fixF3 = true) : ∀ (alts : List VPat) (tags : List Int) (tagVar : Option String)
      (v : Option ValueId) (rest : Stack) (c : Partial) (P : List NPId) (r : R),
      matchAlts E rec alts tags tagVar v (c :: rest) = r → InvT E rest c P →
      FreshP rest c → (∀ q ∈ refsL alts, ∀ x ∈ P, q < x) →
      ∃ c', ResS rest r c' ∧ Le c c' ∧ FreshP rest c' ∧
        (r.1 = true → InvT E rest c' P ∧ (allOk (c' :: rest) → ∃ i alt, alts[i]? = some alt ∧
          SatV E (assignStack (c' :: rest)) alt v ∧
          (∀ t, tagVar = some t → (assignStack (c' :: rest)).names t = some (.tag (tags.getD i 0)))))
  | [], tags, tagVar, v, rest, c, P, r, hr, _, hf, _ => by
    unfold matchAlts at hr
    subst hr
    exact ⟨_, ResS.failed rest c, (ext_failed c).le, hf.failed, fun h => by simp [fail_cons] at h⟩
  | alt :: more, tags, tagVar, v, rest, c, P, r, hr, hinv, hf, hq => by
    unfold matchAlts at hr
    dsimp only at hr
    have hpush := assignStack_push E rest c
    have inv0 : InvT E (c :: rest) ({} : Partial) P := by
      intro hok0 q m hq'
      rw [hpush.2.2 q] at hq'
      rcases hinv (allOk_cons.1 hok0).2 q m hq' with h | h
      · exact .inl h
      · exact .inr (satN_mono hpush.1 h)
    obtain ⟨cur1, ra, la, fa, sa⟩ := matchValue_specT E rec hrec hf3 alt v (c :: rest) {} P _ rfl inv0
      (FreshP.empty _) (fun q hq' => hq q (by simp [refsL, hq']))
    have hrest : ∀ r', matchAlts E rec more tags.tail tagVar v (c :: rest) = r' →
        ∃ c', ResS rest r' c' ∧ Le c c' ∧ FreshP rest c' ∧
        (r'.1 = true → InvT E rest c' P ∧ (allOk (c' :: rest) → ∃ i alt', (alt :: more)[i]? = some alt' ∧
          SatV E (assignStack (c' :: rest)) alt' v ∧
          (∀ t, tagVar = some t → (assignStack (c' :: rest)).names t = some (.tag (tags.getD i 0))))) := by
      intro r' hr'
      obtain ⟨c', h1, h2, h3, h4⟩ := matchAlts_specT E rec hrec hf3 more tags.tail tagVar v rest c P r' hr'
        hinv hf (fun q hq' => hq q (by simp [refsL, hq']))
      refine ⟨c', h1, h2, h3, fun ht => ⟨(h4 ht).1, fun hok => ?_⟩⟩
      obtain ⟨i, alt', hia, hs, htag⟩ := (h4 ht).2 hok
      refine ⟨i + 1, alt', by simpa using hia, hs, fun t e => ?_⟩
      have hgt : tags.tail.getD i 0 = tags.getD (i + 1) 0 := by cases tags <;> simp
      rw [← hgt]
      exact htag t e
    have enter_eq : enter (c :: rest) = ({} : Partial) :: c :: rest := rfl
    rw [enter_eq] at hr
    split at hr
    · next hta =>
      have hta' : (matchValue E rec alt v (({} : Partial) :: c :: rest)).1 = true := hta
      rw [ra.st] at hr
      -- the tag binding in the sub-match
      have htagstep : ∃ cur2, tagBind tagVar (tags.headD 0) (cur1 :: c :: rest) = cur2 :: c :: rest ∧
            Ext cur1 cur2 ∧ FreshP (c :: rest) cur2 ∧
            (cur2.ok = true → ∀ t, tagVar = some t →
              lookupBinding (cur2 :: c :: rest) t = some (.tag (tags.headD 0))) := by
        cases tagVar with
        | none => exact ⟨cur1, rfl, Ext.refl _, fa, fun _ t e => by cases e⟩
        | some t =>
          obtain ⟨cur2, rb, eb, _, fb, bb⟩ := bind_specS (c :: rest) cur1 t (.tag (tags.headD 0)) fa
          refine ⟨cur2, rb.st, eb, fb, fun hok t' e => ?_⟩
          cases e
          apply bb
          cases hb1 : (bind (cur1 :: c :: rest) t (.tag (tags.headD 0))).1 with
          | true => rfl
          | false => rw [rb.okF hb1] at hok; cases hok
      obtain ⟨cur2, hst2, e12, f2, htag2⟩ := htagstep
      rw [hst2] at hr
      split at hr
      · next hok2 =>
        have hok2' : cur2.ok = true := hok2
        subst hr
        simp only [mergeTop, hf3, if_true]
        obtain ⟨eb, ev, en, eok, fm⟩ := mergeAll_spec rest c cur2 hf f2
        obtain ⟨alem, hnode⟩ := mergeAll_assign rest c cur2 hf f2
        have lecm : Le c (c.mergeAll cur2) :=
          ⟨fun k x h => by rw [eb]; simp [List.lookup_append, h],
           fun k x h => by rw [ev]; simp [List.lookup_append, h],
           fun k x h => by rw [en]; simp [List.lookup_append, h], fun h => eok ▸ h⟩
        have hokc : allOk ((c.mergeAll cur2) :: rest) → allOk (cur2 :: c :: rest) := fun hokm =>
          allOk_cons.2 ⟨hok2', allOk_le lecm hokm⟩
        refine ⟨c.mergeAll cur2, ⟨rfl, fun h => by simp at h⟩, lecm, fm,
          fun _ => ⟨?_, fun hokm => ⟨0, alt, rfl, ?_, ?_⟩⟩⟩
        · intro hokm q m hq'
          rw [hnode q] at hq'
          rcases ((sa hta').1.ext e12) (hokc hokm) q m hq' with h | h
          · exact .inl h
          · exact .inr (satN_mono alem h)
        · exact satV_mono alem (satV_mono (e12.le.toALeS (c :: rest))
            ((sa hta').2 (allOk_le e12.le (hokc hokm))))
        · intro t e
          have := htag2 hok2' t e
          have h2 := alem.names _ _ this
          cases tags <;> simpa using h2
      · next hok2 =>
        split at hr
        · have : abandon (cur2 :: c :: rest) = c :: rest := rfl
          rw [this] at hr
          exact hrest r hr
        · have : abandon (cur2 :: c :: rest) = c :: rest := rfl
          rw [this] at hr
          subst hr
          exact ⟨_, ResS.failed rest c, (ext_failed c).le, hf.failed, fun h => by simp [fail_cons] at h⟩
    · next hfa =>
      rw [ra.st] at hr
      have : abandon (cur1 :: c :: rest) = c :: rest := rfl
      rw [this] at hr
      exact hrest r hr
end

theorem matchInputs_specT (E : Env) (rec : NPId → NodeId → Stack → R) (hrec : NodeSpecT E rec)
    (hf3 : E.fixF3 = true) (P : List NPId) (rest : Stack) :
    ∀ (pairs : List (Option ValueId × Option VPat)) (c : Partial) (r : R),
      matchInputs (matchValue E rec) pairs (c :: rest) = r → InvT E rest c P → FreshP rest c →
      (∀ v vp, (v, some vp) ∈ pairs → ∀ q ∈ vp.refs, ∀ x ∈ P, q < x) →
      ∃ c', ResS rest r c' ∧ Le c c' ∧ FreshP rest c' ∧ (r.1 = true → InvT E rest c' P ∧
        (∀ v, (v, none) ∈ pairs → v = none) ∧
        (allOk (c' :: rest) → ∀ v vp, (v, some vp) ∈ pairs → SatV E (assignStack (c' :: rest)) vp v)) := by
  intro pairs
  induction pairs with
  | nil =>
    intro c r hr hinv hf _
    unfold matchInputs at hr
    subst hr
    exact ⟨c, ⟨rfl, fun h => by simp at h⟩, Le.refl c, hf,
      fun _ => ⟨hinv, fun _ h => by simp at h, fun _ _ _ h => by simp at h⟩⟩
  | cons hd tl ih =>
    intro c r hr hinv hf hp
    obtain ⟨v, ovp⟩ := hd
    cases ovp with
    | none =>
      unfold matchInputs at hr
      split at hr
      · next hv =>
        obtain ⟨c', h1, h2, h3, h4⟩ := ih c r hr hinv hf (fun v vp hm => hp v vp (List.mem_cons_of_mem _ hm))
        refine ⟨c', h1, h2, h3, fun ht => ⟨(h4 ht).1, ?_, ?_⟩⟩
        · intro v' hm
          rcases List.mem_cons.1 hm with he | hm
          · cases he; simpa using hv
          · exact (h4 ht).2.1 v' hm
        · intro hok v' vp hm
          rcases List.mem_cons.1 hm with he | hm
          · cases he
          · exact (h4 ht).2.2 hok v' vp hm
      · subst hr
        exact ⟨_, ResS.failed rest c, (ext_failed c).le, hf.failed, fun h => by simp [fail_cons] at h⟩
    | some vp =>
      unfold matchInputs at hr
      dsimp only at hr
      have hq := hp v vp (List.mem_cons_self ..)
      obtain ⟨c1, r1, l1, f1, s1⟩ := matchValue_specT E rec hrec hf3 vp v rest c P _ rfl hinv hf hq
      split at hr
      · next hff =>
        subst hr
        have hf' : (matchValue E rec vp v (c :: rest)).1 = false := by simpa using hff
        exact ⟨c1, r1, l1, f1, fun h => by simp [hf'] at h⟩
      · next ht =>
        have ht' : (matchValue E rec vp v (c :: rest)).1 = true := by simpa using ht
        rw [r1.st] at hr
        obtain ⟨c', h1, h2, h3, h4⟩ := ih c1 r hr (s1 ht').1 f1 (fun v vp hm => hp v vp (List.mem_cons_of_mem _ hm))
        refine ⟨c', h1, l1.trans h2, h3, fun ht2 => ⟨(h4 ht2).1, ?_, ?_⟩⟩
        · intro v' hm
          rcases List.mem_cons.1 hm with he | hm
          · cases he
          · exact (h4 ht2).2.1 v' hm
        · intro hok v' vp' hm
          rcases List.mem_cons.1 hm with he | hm
          · cases he
            exact satV_mono (h2.toALeS rest) ((s1 ht').2 (allOk_le h2 hok))
          · exact (h4 ht2).2.2 hok v' vp' hm

theorem nodeStep_specT (E : Env) (rec : NPId → NodeId → Stack → R) (hrec : NodeSpecT E rec)
    (hf3 : E.fixF3 = true) (htopo : E.p.topoDeep)
    (har : E.fixF1 = true ∨ OutputArityOk E.p E.g) :
    NodeSpecT E (nodeStep E (matchValue E rec)) := by
  intro np n rest c P r hr hinv hlt hf
  unfold nodeStep at hr
  split at hr
  · next m hm =>
    split at hr
    · next hmn =>
      subst hr
      have hmn' : m = n := by simpa using hmn
      subst hmn'
      refine ⟨c, ⟨rfl, fun h => by simp at h⟩, Le.refl c, hf, fun _ => ⟨hinv, fun hok => ?_⟩⟩
      rcases hinv hok np m hm with h | h
      · exact absurd (hlt np h) (Nat.lt_irrefl _)
      · exact h
    · subst hr
      exact ⟨_, ResS.failed rest c, (ext_failed c).le, hf.failed, fun h => by simp [fail_cons] at h⟩
  · next hm =>
    split at hr
    · next Pn N hP hN =>
      obtain ⟨c1, r1, e1, f1, a1⟩ := nodeMatches_specS Pn N rest c _ rfl hf
      dsimp only at hr
      split at hr
      · next hff =>
        subst hr
        rw [r1.st]
        exact ⟨_, ResS.failed rest c1, (e1.trans (ext_failed c1)).le, f1.failed,
          fun h => by simp [fail_cons] at h⟩
      · next ht =>
        have ht' : (nodeMatches Pn N (c :: rest)).1 = true := by simpa using ht
        rw [r1.st] at hr
        let c2 : Partial := { c1 with nodes := c1.nodes ++ [n], nb := c1.nb ++ [(np, n)] }
        have hc2 : bindNode (c1 :: rest) np n = c2 :: rest := rfl
        rw [hc2] at hr
        have hm' : lookupNode (c1 :: rest) np = none := by
          rw [lookupNode_cons, e1.nb, ← lookupNode_cons]; exact hm
        rw [lookupNode_cons] at hm'
        obtain ⟨hmr, hm1⟩ := or_none_both hm'
        have l12 : Le c1 c2 :=
          ⟨fun _ _ h => h, fun _ _ h => h, fun k x h => lookup_snoc_of_some _ _ _ _ _ h, id⟩
        have hnp2 : lookupNode (c2 :: rest) np = some n := by
          rw [lookupNode_cons, hmr]
          simp [c2, lookup_snoc_self _ _ _ hm1]
        have f2 : FreshP rest c2 :=
          ⟨f1.b, f1.v, fun k x hmem => by
              rcases List.mem_append.1 hmem with h1 | h1
              · exact f1.n _ _ h1
              · simp at h1; obtain ⟨rfl, rfl⟩ := h1; exact hmr,
           f1.bd, f1.vd, nodup_snoc _ _ _ f1.nd hm1, by simp [c2, f1.nbn]⟩
        have inv2 : InvT E rest c2 (np :: P) := by
          intro hok2 q m hq
          by_cases hqn : q = np
          · exact .inl (by simp [hqn])
          · have hq1 : lookupNode (c1 :: rest) q = some m := by
              rw [lookupNode_cons] at hq ⊢
              cases hr' : lookupNode rest q with
              | some y => simpa [hr'] using hq
              | none =>
                simp only [hr', Option.none_or] at hq ⊢
                have : (c1.nb ++ [(np, n)]).lookup q = some m := hq
                simp only [List.lookup_append, List.lookup] at this
                cases h1 : c1.nb.lookup q with
                | some m' => simp [h1] at this; exact this ▸ rfl
                | none =>
                  simp [h1] at this
                  have hne : (q == np) = false := by simpa using hqn
                  simp [hne] at this
            rcases (hinv.ext e1) (allOk_le l12 hok2) q m hq1 with h | h
            · exact .inl (List.mem_cons_of_mem _ h)
            · exact .inr (satN_mono (l12.toALeS rest) h)
        split at hr
        · subst hr
          exact ⟨_, ResS.failed rest c2, (e1.le.trans l12).trans (ext_failed c2).le, f2.failed,
            fun h => by simp [fail_cons] at h⟩
        · next hlen =>
          have hpairs : ∀ v vp, (v, some vp) ∈ zipPad N.inputs Pn.inputs →
              ∀ q ∈ vp.refs, ∀ x ∈ np :: P, q < x := by
            intro v vp hmem
            have hin := zipPad_mem_snd _ _ _ _ hmem
            refine fun q hqr x hx => ?_
            have hqnp := htopo np Pn hP vp hin q hqr
            rcases List.mem_cons.1 hx with h | h
            · exact h ▸ hqnp
            · exact Nat.lt_trans hqnp (hlt x h)
          obtain ⟨c3, r3, l3, f3, s3⟩ :=
            matchInputs_specT E rec hrec hf3 (np :: P) rest _ c2 _ rfl inv2 f2 hpairs
          split at hr
          · next hff =>
            subst hr
            have hf' : (matchInputs (matchValue E rec) (zipPad N.inputs Pn.inputs) (c2 :: rest)).1 = false := by
              simpa using hff
            exact ⟨c3, r3, (e1.le.trans l12).trans l3, f3, fun h => by simp [hf'] at h⟩
          · next ht3 =>
            have ht3' : (matchInputs (matchValue E rec) (zipPad N.inputs Pn.inputs) (c2 :: rest)).1 = true := by
              simpa using ht3
            rw [r3.st] at hr
            have harity : E.fixF1 = true ∨ 0 + Pn.outputs.length ≤ N.outputs.length := by
              rcases har with h | har
              · exact .inl h
              · have := har Pn (List.mem_of_getElem? hP) N (List.mem_of_getElem? hN) (a1 ht').1 (a1 ht').2.1
                exact .inr (by omega)
            obtain ⟨c4, r4, e4, f4, b4⟩ := bindOutputs_specS E.fixF1 E.p np N.outputs rest Pn.outputs 0 c3 r hr harity f3
            have l14 : Le c1 c4 := (l12.trans l3).trans e4.le
            refine ⟨c4, r4, e1.le.trans l14, f4, fun h => ?_⟩
            have hnode4 : lookupNode (c4 :: rest) np = some n :=
              ((l3.trans e4.le).toALeS rest).node _ _ hnp2
            have hsat : allOk (c4 :: rest) → SatN E (assignStack (c4 :: rest)) np n := by
              intro hok4
              refine .mk np n Pn N hP hN hnode4 (a1 ht').1 (a1 ht').2.1
                (attrsSat_mono (l14.toALeS rest) _ _ (a1 ht').2.2) ?_ ?_ ?_ ?_
              · by_cases hl : N.inputs.length ≤ Pn.inputs.length
                · exact .inl hl
                · right
                  have : N.inputs.length > Pn.inputs.length := by omega
                  simp only [this, decide_true, Bool.true_and, Bool.not_eq_true', Bool.not_eq_false] at hlen
                  simpa using hlen
              · intro i hi
                have := zipPad_mem_of_get N.inputs Pn.inputs i none hi
                exact (s3 ht3').2.1 _ this
              · intro i vp hi
                have := zipPad_mem_of_get N.inputs Pn.inputs i (some vp) hi
                exact satV_mono (e4.le.toALeS rest) ((s3 ht3').2.2 (allOk_le e4.le hok4) _ vp this)
              · intro i hi
                exact b4 h i (Nat.zero_le _) (by omega)
            refine ⟨?_, hsat⟩
            intro hok4 q m hq
            rcases ((s3 ht3').1.ext e4) hok4 q m hq with h' | h'
            · rcases List.mem_cons.1 h' with h'' | h''
              · subst h''
                rw [hnode4] at hq
                cases hq
                exact .inr (hsat hok4)
              · exact .inl h''
            · exact .inr h'
    · subst hr
      exact ⟨_, ResS.failed rest c, (ext_failed c).le, hf.failed, fun h => by simp [fail_cons] at h⟩

theorem matchNode_specT (E : Env) (hf3 : E.fixF3 = true) (htopo : E.p.topoDeep)
    (har : E.fixF1 = true ∨ OutputArityOk E.p E.g) : ∀ f, NodeSpecT E (matchNode E f)
  | 0 => by
    intro np n rest c P r hr hinv _ hf
    unfold matchNode at hr
    subst hr
    exact ⟨_, ResS.failed rest c, (ext_failed c).le, hf.failed, fun h => by simp [fail_cons] at h⟩
  | f + 1 => by
    have ih := matchNode_specT E hf3 htopo har f
    have := nodeStep_specT E (matchNode E f) ih hf3 htopo har
    intro np n rest c P r hr
    unfold matchNode at hr
    exact this np n rest c P r hr

/-! ## Top level -/

theorem matchOutputNodes_specT (E : Env) (hf3 : E.fixF3 = true)
    (htopo : E.p.topoDeep) (har : E.fixF1 = true ∨ OutputArityOk E.p E.g) :
    ∀ (l : List (NPId × NodeId)) (c : Partial) (r : R),
      matchOutputNodes E l [c] = r → InvT E [] c [] → FreshP [] c →
      ∃ c', ResS [] r c' ∧ Le c c' ∧ FreshP [] c' ∧
        (r.1 = true → InvT E [] c' [] ∧
          (allOk [c'] → ∀ np n, (np, n) ∈ l → SatN E (assignStack [c']) np n)) := by
  intro l
  induction l with
  | nil =>
    intro c r hr hinv hf
    unfold matchOutputNodes at hr
    subst hr
    exact ⟨c, ⟨rfl, fun h => by simp at h⟩, Le.refl c, hf, fun _ => ⟨hinv, fun _ _ _ h => by simp at h⟩⟩
  | cons hd tl ih =>
    intro c r hr hinv hf
    obtain ⟨np, n⟩ := hd
    unfold matchOutputNodes at hr
    dsimp only at hr
    obtain ⟨c1, r1, l1, f1, s1⟩ :=
      matchNode_specT E hf3 htopo har E.p.fuel np n [] c [] _ rfl hinv (fun _ h => by simp at h) hf
    split at hr
    · next hff =>
      subst hr
      have hf' : (matchNode E E.p.fuel np n [c]).1 = false := by simpa using hff
      exact ⟨c1, r1, l1, f1, fun h => by simp [hf'] at h⟩
    · next ht =>
      have ht' : (matchNode E E.p.fuel np n [c]).1 = true := by simpa using ht
      rw [r1.st] at hr
      obtain ⟨c', h1, h2, h3, h4⟩ := ih c1 r hr (s1 ht').1 f1
      refine ⟨c', h1, l1.trans h2, h3, fun ht2 => ⟨(h4 ht2).1, fun hok np' n' hm => ?_⟩⟩
      rcases List.mem_cons.1 hm with he | hm
      · cases he
        exact satN_mono (h2.toALeS []) ((s1 ht').2 (allOk_le h2 hok))
      · exact (h4 ht2).2 hok np' n' hm

theorem finish_ok (E : Env) (rm : Bool) (r0 : R) (c' : Partial) (hst : r0.2 = [c'])
    (hok : (finish E rm r0).ok = true) : c'.ok = true := by
  unfold finish at hok
  simp only [hst, topPartial] at hok
  split at hok
  · exact hok
  · split at hok
    · simp [Result.ofPartial] at hok
    · split at hok
      · simp [Result.ofPartial] at hok
      · exact hok

/-- what the matcher proper establishes on every pattern (repaired `merge`) -/
theorem matcher_coreT (E : Env) (root : NodeId) (rm : Bool) (hf3 : E.fixF3 = true)
    (htopo : E.p.topoDeep) (har : E.fixF1 = true ∨ OutputArityOk E.p E.g)
    (hok : (matcherMatch E root rm).ok = true) :
    ∃ c' combo, (matcherMatch E root rm).bindings = c'.bindings ∧
      (matcherMatch E root rm).nb = c'.nb ∧ (matcherMatch E root rm).vb = c'.vb ∧
      (matcherMatch E root rm).nodes = c'.nodes ∧
      outputValues E.p c' = some (matcherMatch E root rm).outputs ∧
      (rm = true → Removable E.g c'.nodes (matcherMatch E root rm).outputs) ∧
      combo.head? = some root ∧ E.p.outputNodes.length ≤ combo.length ∧
      (∀ np n, (np, n) ∈ E.p.outputNodes.zip combo → SatN E (assignOf c') np n) ∧
      c'.nodes = c'.nb.map (·.2) := by
  obtain ⟨combo, he, hhead, hlen⟩ := matcherMatch_ok E root rm hok
  rw [he] at hok ⊢
  unfold multiMatch at hok ⊢
  have inv0 : InvT E [] ({} : Partial) [] := by
    intro _ q m hq
    simp [lookupNode] at hq
  obtain ⟨c', r1, _, f1, s1⟩ :=
    matchOutputNodes_specT E hf3 htopo har (E.p.outputNodes.zip combo) {} _ rfl inv0 (FreshP.empty [])
  obtain ⟨ht, ho, hb, hn, hnb, hvb, hrem⟩ := finish_spec E rm _ c' r1.st r1.okF hok
  have hokc : allOk [c'] := by
    intro x hx
    simp only [List.mem_singleton] at hx
    subst hx
    exact finish_ok E rm _ _ r1.st hok
  exact ⟨c', combo, hb, hnb, hvb, hn, ho, hrem, hhead, hlen,
    fun np n hm => satN_mono (assignStack_single c') ((s1 ht).2 hokc np n hm), f1.nbn⟩

theorem patternMatch_soundT (E : Env) (root : NodeId) (rm : Bool) (r : Result) (hf3 : E.fixF3 = true)
    (htopo : E.p.topoDeep) (har : E.fixF1 = true ∨ OutputArityOk E.p E.g)
    (h : patternMatch E root rm = some r) :
    Instance E root r.assign ∧ ChecksPass E.p r.assign ∧
      (rm = true → Removable E.g r.nodes r.outputs) ∧
      E.p.outputs.mapM (r.assign.outputOf E.p) = some r.outputs ∧
      r.nodes = r.nb.map (·.2) ∧
      (∀ nm, some nm ∈ E.p.inputs → ∃ b, r.assign.names nm = some b) := by
  obtain ⟨hok, hr, hchk, hvchk, hcond⟩ := patternMatch_some E root rm r h
  obtain ⟨c', combo, hb, hnb, hvb, hn, hout, hrem, hhead, hlen, hsat, hnbn⟩ :=
    matcher_coreT E root rm hf3 htopo har hok
  have hale : ALe (assignOf c') r.assign := by
    subst hr
    refine ⟨fun k x hk => ?_, fun k x hk => ?_, fun k x hk => ?_⟩
    · show List.lookup k _ = some x
      exact (inputs_fold_le E.p.inputs _).1 k x (hb ▸ hk)
    · show List.lookup k (matcherMatch E root rm).nb = some x
      rw [hnb]; exact hk
    · show List.lookup k (matcherMatch E root rm).vb = some x
      rw [hvb]; exact hk
  refine ⟨⟨?_, ?_, hcond⟩, ⟨?_, ?_⟩, ?_, ?_, ?_, ?_⟩
  · intro np hnp
    have h0 : E.p.outputNodes[0]? = some np := by rw [← List.head?_eq_getElem?]; exact hnp
    have h1 : combo[0]? = some root := by rw [← List.head?_eq_getElem?]; exact hhead
    have : (np, root) ∈ E.p.outputNodes.zip combo :=
      List.mem_iff_getElem?.2 ⟨0, List.getElem?_zip_eq_some.2 ⟨h0, h1⟩⟩
    exact satN_node (satN_mono hale (hsat np root this))
  · intro np hnp
    obtain ⟨i, hi⟩ := List.mem_iff_getElem?.1 hnp
    have hilt : i < E.p.outputNodes.length := by
      rcases Nat.lt_or_ge i E.p.outputNodes.length with h | h
      · exact h
      · simp [List.getElem?_eq_none h] at hi
    have hic : i < combo.length := by omega
    have : (np, combo[i]) ∈ E.p.outputNodes.zip combo :=
      List.mem_iff_getElem?.2 ⟨i, List.getElem?_zip_eq_some.2 ⟨hi, List.getElem?_eq_getElem hic⟩⟩
    have hs := satN_mono hale (hsat np _ this)
    exact ⟨_, satN_node hs, hs⟩
  · intro np n P hnode hP
    have hm : (np, n) ∈ r.nb := lookup_mem _ _ _ hnode
    unfold checksPass at hchk
    simp only [List.all_eq_true] at hchk
    have := hchk (np, n) hm
    simp only [hP] at this
    simpa using this
  · intro id v hleaf
    have hm : (VKey.leaf id, v) ∈ r.vb := lookup_mem _ _ _ hleaf
    unfold valueChecksPass at hvchk
    simp only [List.all_eq_true] at hvchk
    have := hvchk (VKey.leaf id, v) hm
    simpa using this
  · intro hrm
    have := hrem hrm
    subst hr
    show Removable E.g (matcherMatch E root rm).nodes (matcherMatch E root rm).outputs
    rw [hn]; exact this
  · rw [outputValues_eq] at hout
    subst hr
    exact mapM_mono _ _ (outputOf_mono hale E.p) _ _ hout
  · subst hr
    show (matcherMatch E root rm).nodes = (matcherMatch E root rm).nb.map (·.2)
    rw [hn, hnb]; exact hnbn
  · subst hr
    intro nm hm
    exact (inputs_fold_le E.p.inputs _).2 nm hm

end OV.C06
