import OV.Model.C17OpsetGen
/-! Helper lemmas for C17 (list reasoning about `selectS/selectM/pick`, parameter binding). -/
namespace OV.C17

/-! ### continuation-passing selections are ordinary functions -/

def selS (d n : Nat) : List Schema → List Schema → List Schema
  | [], acc => acc
  | s :: ss, acc => if s.domain == d && s.name == n then selS d n ss (s :: acc) else selS d n ss acc

def selM (d n : Nat) : List Cls → List (Nat × Method) → List (Nat × Method)
  | [], acc => acc
  | c :: cs, acc =>
    if c.domain == d then
      match c.methods.find? (fun m => m.name == n) with
      | some m => selM d n cs ((c.version, m) :: acc)
      | none => selM d n cs acc
    else selM d n cs acc

theorem selectS_eq {β} (d n : Nat) (l acc : List Schema) (k : List Schema → β) :
    selectS d n l acc k = k (selS d n l acc) := by
  induction l generalizing acc with
  | nil => rfl
  | cons s ss ih =>
    simp only [selectS, selS]
    split
    · exact ih _
    · exact ih _

theorem selectM_eq {β} (d n : Nat) (l : List Cls) (acc : List (Nat × Method)) (k : List (Nat × Method) → β) :
    selectM d n l acc k = k (selM d n l acc) := by
  induction l generalizing acc with
  | nil => rfl
  | cons c cs ih =>
    simp only [selectM, selM]
    split
    · cases hf : c.methods.find? (fun m => m.name == n) with
      | some m => exact ih _
      | none => exact ih _
    · exact ih _

theorem selectS_cps {β} (d n : Nat) (l acc : List Schema) (k : List Schema → β) :
    selectS d n l acc k = k (selectS d n l acc id) := by
  rw [selectS_eq, selectS_eq]; rfl

theorem selectM_cps {β} (d n : Nat) (l : List Cls) (acc : List (Nat × Method)) (k : List (Nat × Method) → β) :
    selectM d n l acc k = k (selectM d n l acc id) := by
  rw [selectM_eq, selectM_eq]; rfl

theorem selectS_mem (d n : Nat) (l acc : List Schema) (s : Schema)
    (h : s ∈ selectS d n l acc id) : s ∈ acc ∨ (s ∈ l ∧ s.domain = d ∧ s.name = n) := by
  induction l generalizing acc with
  | nil => exact Or.inl h
  | cons x xs ih =>
    simp only [selectS] at h
    split at h
    next hc =>
      simp only [Bool.and_eq_true, beq_iff_eq] at hc
      rcases ih _ h with h1 | ⟨h1, h2, h3⟩
      · rcases List.mem_cons.mp h1 with rfl | h1
        · exact Or.inr ⟨List.mem_cons_self, hc.1, hc.2⟩
        · exact Or.inl h1
      · exact Or.inr ⟨List.mem_cons_of_mem _ h1, h2, h3⟩
    next =>
      rcases ih _ h with h1 | ⟨h1, h2, h3⟩
      · exact Or.inl h1
      · exact Or.inr ⟨List.mem_cons_of_mem _ h1, h2, h3⟩

theorem find?_name_some {l : List Method} {n : Nat} {m : Method}
    (h : l.find? (fun m => m.name == n) = some m) : m ∈ l ∧ m.name = n := by
  refine ⟨List.mem_of_find?_eq_some h, ?_⟩
  have := List.find?_some h
  simpa using this

theorem selectM_mem (d n : Nat) (l : List Cls) (acc : List (Nat × Method)) (p : Nat × Method)
    (h : p ∈ selectM d n l acc id) :
    p ∈ acc ∨ ∃ c ∈ l, c.domain = d ∧ c.version = p.1 ∧ p.2 ∈ c.methods ∧ p.2.name = n := by
  induction l generalizing acc with
  | nil => exact Or.inl h
  | cons x xs ih =>
    simp only [selectM] at h
    split at h
    next hc =>
      simp only [beq_iff_eq] at hc
      split at h
      next m hm =>
        rcases ih _ h with h1 | ⟨c, hc1, hc2⟩
        · rcases List.mem_cons.mp h1 with rfl | h1
          · have := find?_name_some hm
            exact Or.inr ⟨x, List.mem_cons_self, hc, rfl, this.1, this.2⟩
          · exact Or.inl h1
        · exact Or.inr ⟨c, List.mem_cons_of_mem _ hc1, hc2⟩
      next =>
        rcases ih _ h with h1 | ⟨c, hc1, hc2⟩
        · exact Or.inl h1
        · exact Or.inr ⟨c, List.mem_cons_of_mem _ hc1, hc2⟩
    next =>
      rcases ih _ h with h1 | ⟨c, hc1, hc2⟩
      · exact Or.inl h1
      · exact Or.inr ⟨c, List.mem_cons_of_mem _ hc1, hc2⟩

theorem pick_mem {α} (ver : α → Nat) (N : Nat) (l : List α) (best : Option α) (x : α)
    (h : pick ver N l best = some x) : x ∈ l ∨ best = some x := by
  induction l generalizing best with
  | nil => exact Or.inr h
  | cons y ys ih =>
    simp only [pick] at h
    split at h
    · split at h
      · rcases ih _ h with h1 | h1
        · exact Or.inl (List.mem_cons_of_mem _ h1)
        · cases h1; exact Or.inl List.mem_cons_self
      · split at h
        · rcases ih _ h with h1 | h1
          · exact Or.inl (List.mem_cons_of_mem _ h1)
          · cases h1; exact Or.inl List.mem_cons_self
        · rcases ih _ h with h1 | h1
          · exact Or.inl (List.mem_cons_of_mem _ h1)
          · exact Or.inr h1
    · rcases ih _ h with h1 | h1
      · exact Or.inl (List.mem_cons_of_mem _ h1)
      · exact Or.inr h1

/-- the result of `pick` is in force: its version is `≤ N` (when the initial `best` is) -/
theorem pick_le {α} (ver : α → Nat) (N : Nat) (l : List α) (best : Option α) (x : α)
    (hb : ∀ b, best = some b → ver b ≤ N)
    (h : pick ver N l best = some x) : ver x ≤ N := by
  induction l generalizing best with
  | nil => exact hb x h
  | cons y ys ih =>
    simp only [pick] at h
    split at h
    next hy =>
      split at h
      · exact ih _ (by intro b hb'; cases hb'; exact hy) h
      · split at h
        · exact ih _ (by intro b hb'; cases hb'; exact hy) h
        · exact ih _ hb h
    next => exact ih _ hb h

/-- nothing in the list that is in force is newer than the result of `pick` -/
theorem pick_max {α} (ver : α → Nat) (N : Nat) (l : List α) (best : Option α) (x : α)
    (h : pick ver N l best = some x) :
    (∀ y ∈ l, ver y ≤ N → ver y ≤ ver x) ∧ (∀ b, best = some b → ver b ≤ ver x) := by
  induction l generalizing best with
  | nil =>
    refine ⟨(by intro y hy; cases hy), ?_⟩
    intro b hb
    simp only [pick] at h
    rw [hb] at h; cases h; exact Nat.le_refl _
  | cons z zs ih =>
    simp only [pick] at h
    split at h
    next hz =>
      split at h
      next =>
        have := ih _ h
        refine ⟨?_, by intro b hb; cases hb⟩
        intro y hy hyN
        rcases List.mem_cons.mp hy with rfl | hy
        · exact this.2 _ rfl
        · exact this.1 y hy hyN
      next b =>
        split at h
        next hlt =>
          have := ih _ h
          refine ⟨?_, ?_⟩
          · intro y hy hyN
            rcases List.mem_cons.mp hy with rfl | hy
            · exact this.2 _ rfl
            · exact this.1 y hy hyN
          · intro b' hb'; cases hb'
            exact Nat.le_trans (Nat.le_of_lt hlt) (this.2 _ rfl)
        next hlt =>
          have := ih _ h
          refine ⟨?_, this.2⟩
          intro y hy hyN
          rcases List.mem_cons.mp hy with rfl | hy
          · exact Nat.le_trans (Nat.le_of_not_lt hlt) (this.2 _ rfl)
          · exact this.1 y hy hyN
    next hz =>
      have := ih _ h
      refine ⟨?_, this.2⟩
      intro y hy hyN
      rcases List.mem_cons.mp hy with rfl | hy
      · exact absurd hyN hz
      · exact this.1 y hy hyN

theorem lookup_eq (schemas : List Schema) (d N n : Nat) :
    lookup schemas d N n = pick Schema.since N (selectS d n schemas [] id) none := by
  unfold lookup; rw [selectS_cps]

theorem resolve_eq (classes : List Cls) (d N n : Nat) :
    resolve classes d N n = (pick Prod.fst N (selectM d n classes [] id) none).map Prod.snd := by
  unfold resolve; rw [selectM_cps]

/-- `get_schema` answers with a registered schema of that name and domain, in force at `N` -/
theorem lookup_some {schemas : List Schema} {d N n : Nat} {s : Schema}
    (h : lookup schemas d N n = some s) : s ∈ schemas ∧ s.domain = d ∧ s.name = n ∧ s.since ≤ N := by
  rw [lookup_eq] at h
  have hle := pick_le Schema.since N _ none s (by intro b hb; cases hb) h
  rcases pick_mem _ _ _ _ _ h with h1 | h1
  · rcases selectS_mem _ _ _ _ _ h1 with h2 | ⟨h2, h3, h4⟩
    · cases h2
    · exact ⟨h2, h3, h4, hle⟩
  · cases h1

/-- attribute resolution answers with a definition of that name in a class of the domain, version `≤ N` -/
theorem resolve_some {classes : List Cls} {d N n : Nat} {m : Method}
    (h : resolve classes d N n = some m) :
    ∃ c ∈ classes, c.domain = d ∧ c.version ≤ N ∧ m ∈ c.methods ∧ m.name = n := by
  rw [resolve_eq] at h
  rcases Option.map_eq_some_iff.mp h with ⟨p, hp, rfl⟩
  have hle := pick_le Prod.fst N _ none p (by intro b hb; cases hb) hp
  rcases pick_mem _ _ _ _ _ hp with h1 | h1
  · rcases selectM_mem _ _ _ _ _ h1 with h2 | ⟨c, hc, h3, h4, h5, h6⟩
    · cases h2
    · exact ⟨c, hc, h3, by rw [h4]; exact hle, h5, h6⟩
  · cases h1

theorem rowOk_cell {schemas : List Schema} {classes : List Cls} {ungen : List Nat} {d n : Nat}
    (h : rowOk schemas classes ungen d n = true) {c : Cls} (hc : c ∈ classes) (hd : c.domain = d) :
    cellOk (ungen.contains d) (lookup schemas d c.version n) (resolve classes d c.version n) = true := by
  unfold rowOk at h
  rw [selectS_cps, selectM_cps] at h
  have := List.all_eq_true.mp h c hc
  rw [lookup_eq, resolve_eq]
  simp only [Bool.or_eq_true, bne_iff_ne, ne_eq] at this
  rcases this with h1 | h1
  · exact absurd hd h1
  · exact h1

theorem inGrid_iff {chunks : List (Nat × List Nat)} {d n : Nat} :
    inGrid chunks d n = true ↔ ∃ g ∈ chunks, g.1 = d ∧ n ∈ g.2 := by
  simp [inGrid, List.any_eq_true]


/-! ### histories of `Opset.__new__` / dynamic lookups -/

/-- every cached key points at an instance carrying exactly the key's class, domain and version -/
def WF (st : OState) : Prop :=
  ∀ e ∈ st.cache, st.insts[e.2]? = some ⟨e.1.1, e.1.2.1, e.1.2.2⟩

theorem WF_empty : WF OState.empty := by intro e he; cases he

theorem cacheGet_mem {k : Nat × Nat × Nat} {l : List ((Nat × Nat × Nat) × Nat)} {i : Nat}
    (h : cacheGet k l = some i) : (k, i) ∈ l := by
  induction l with
  | nil => simp [cacheGet] at h
  | cons e es ih =>
    simp only [cacheGet] at h
    split at h
    next he =>
      simp only [beq_iff_eq] at he
      simp only [Option.some.injEq] at h
      have : e = (k, i) := Prod.ext he h
      rw [this]; exact List.mem_cons_self
    next => exact List.mem_cons_of_mem _ (ih h)

/-- a step never changes or removes an existing instance -/
theorem step_keeps (schemas : List Schema) (st : OState) (c : Cmd) (i : Nat) (x : Inst)
    (h : st.insts[i]? = some x) : (step schemas st c).1.insts[i]? = some x := by
  cases c with
  | new cl d v =>
    simp only [step]
    split
    · split <;> exact h
    · simp only
      rw [List.getElem?_append_left]
      · exact h
      · exact (List.getElem?_eq_some_iff.mp h).1
  | getitem j n => simp only [step]; split <;> exact h
  | contains j n => simp only [step]; split <;> exact h
  | getattr j n =>
    simp only [step]
    split
    · split <;> exact h
    · exact h

/-- a step never changes what a cached key points at -/
theorem step_keeps_cache (schemas : List Schema) (st : OState) (c : Cmd) (k : Nat × Nat × Nat) (i : Nat)
    (h : cacheGet k st.cache = some i) : cacheGet k (step schemas st c).1.cache = some i := by
  cases c with
  | new cl d v =>
    simp only [step]
    split
    · split <;> exact h
    · next hnone =>
      simp only [cacheGet]
      split
      next heq =>
        simp only [beq_iff_eq] at heq
        rw [← heq] at h; rw [h] at hnone; cases hnone
      next => exact h
  | getitem j n => simp only [step]; split <;> exact h
  | contains j n => simp only [step]; split <;> exact h
  | getattr j n =>
    simp only [step]
    split
    · split <;> exact h
    · exact h

theorem step_wf (schemas : List Schema) (st : OState) (c : Cmd) (h : WF st) : WF (step schemas st c).1 := by
  cases c with
  | new cl d v =>
    simp only [step]
    split
    · split <;> exact h
    · intro e he
      simp only at he ⊢
      rcases List.mem_cons.mp he with rfl | he'
      · simp
      · have := h e he'
        rw [List.getElem?_append_left]
        · exact this
        · exact (List.getElem?_eq_some_iff.mp this).1
  | getitem j n => simp only [step]; split <;> exact h
  | contains j n => simp only [step]; split <;> exact h
  | getattr j n =>
    simp only [step]
    split
    · split <;> exact h
    · exact h

theorem run_wf (schemas : List Schema) (st : OState) (cs : List Cmd) (h : WF st) : WF (run schemas st cs).1 := by
  induction cs generalizing st with
  | nil => exact h
  | cons c cs ih => simp only [run]; exact ih _ (step_wf schemas st c h)

theorem run_keeps (schemas : List Schema) (st : OState) (cs : List Cmd) (i : Nat) (x : Inst)
    (h : st.insts[i]? = some x) : (run schemas st cs).1.insts[i]? = some x := by
  induction cs generalizing st with
  | nil => exact h
  | cons c cs ih => simp only [run]; exact ih _ (step_keeps schemas st c i x h)

theorem run_keeps_cache (schemas : List Schema) (st : OState) (cs : List Cmd) (k : Nat × Nat × Nat) (i : Nat)
    (h : cacheGet k st.cache = some i) : cacheGet k (run schemas st cs).1.cache = some i := by
  induction cs generalizing st with
  | nil => exact h
  | cons c cs ih => simp only [run]; exact ih _ (step_keeps_cache schemas st c k i h)

/-- `cls(domain, version)` on a well-formed state returns an instance that carries exactly that domain and
version, and afterwards the key is cached at that instance -/
theorem new_gives (schemas : List Schema) (st : OState) (h : WF st) (c d v : Nat) :
    ∃ i, (step schemas st (.new c d v)).2 = .inst i d v ∧
      (step schemas st (.new c d v)).1.insts[i]? = some ⟨c, d, v⟩ ∧
      cacheGet (c, d, v) (step schemas st (.new c d v)).1.cache = some i := by
  simp only [step]
  cases hg : cacheGet (c, d, v) st.cache with
  | some i =>
    have := h _ (cacheGet_mem hg)
    simp only at this
    refine ⟨i, ?_, ?_, ?_⟩
    · simp only [this]
    · simp only [this]
    · simp only [this]; exact hg
  | none =>
    refine ⟨st.insts.length, rfl, ?_, ?_⟩
    · simp
    · simp [cacheGet]

/-! ### parameter binding -/

theorem findKw_map_self (l : List (Nat × Dflt)) (f : Nat → Dflt → Dflt) (k : Nat) :
    findKw k (l.map (fun p => (p.1, f p.1 p.2))) = (findKw k l).map (f k) := by
  induction l with
  | nil => rfl
  | cons p ps ih =>
    simp only [List.map, findKw]
    split
    next h => simp only [beq_iff_eq] at h; subst h; rfl
    next => exact ih

/-! ### `_prepare_inputs` -/

theorem prepare_append_none {α} (xs : List (Option α)) :
    prepareInputs (xs ++ [none]) = prepareInputs xs := by
  simp [prepareInputs]

theorem prepare_append_some {α} (xs : List (Option α)) (v : α) :
    prepareInputs (xs ++ [some v]) = xs ++ [some v] := by
  simp [prepareInputs]

/-! ### decidable equalities used by `mirrors` are sound; binding and forwarding of keyword-only parameters -/

theorem sc_beq_eq {a b : Sc} (h : a.beq b = true) : a = b := by
  cases a <;> cases b <;> simp [Sc.beq] at h <;> simp [h]

theorem scList_beq_eq {a b : List Sc} (h : scListBeq a b = true) : a = b := by
  induction a generalizing b with
  | nil => cases b <;> simp [scListBeq] at h ⊢
  | cons x xs ih =>
    cases b with
    | nil => simp [scListBeq] at h
    | cons y ys =>
      simp only [scListBeq, Bool.and_eq_true] at h
      rw [sc_beq_eq h.1, ih h.2]

theorem dflt_beq_eq {a b : Dflt} (h : a.beq b = true) : a = b := by
  cases a <;> cases b <;> simp [Dflt.beq] at h
  · rfl
  · rfl
  · rw [sc_beq_eq h]
  · rw [scList_beq_eq h]
  · rw [h]

theorem natPairList_beq_eq {a b : List (Nat × Nat)} (h : natPairListBeq a b = true) : a = b := by
  induction a generalizing b with
  | nil => cases b <;> simp [natPairListBeq] at h ⊢
  | cons x xs ih =>
    cases b with
    | nil => simp [natPairListBeq] at h
    | cons y ys =>
      simp only [natPairListBeq, Bool.and_eq_true, beq_iff_eq] at h
      rw [ih h.2, Prod.ext h.1.1 h.1.2]

/-- binding keyword-only parameters: a parameter gets the caller's value, else its default, and a call
that succeeds never leaves a default-less parameter unsupplied -/
theorem bindKw_find {l kw bound : List (Nat × Dflt)} (h : bindKw l kw = some bound) (k : Nat) (d : Dflt)
    (hk : findKw k l = some d) :
    findKw k bound = some (match findKw k kw with | some v => v | none => d) ∧
      (findKw k kw = none → d ≠ .absent) := by
  induction l generalizing bound with
  | nil => simp [findKw] at hk
  | cons p ps ih =>
    simp only [bindKw] at h
    simp only [findKw] at hk
    by_cases hpk : (p.1 == k) = true
    · simp only [hpk, if_true, Option.some.injEq] at hk
      have hpk' : p.1 = k := by simpa using hpk
      subst hk
      cases hkw : findKw p.1 kw with
      | some v =>
        rw [hkw] at h
        simp only [Option.map_eq_some_iff] at h
        rcases h with ⟨r, _, rfl⟩
        subst hpk'
        simp [findKw, hkw]
      | none =>
        rw [hkw] at h
        subst hpk'
        cases hp2 : p.2 with
        | absent => rw [hp2] at h; simp at h
        | pyNone =>
          rw [hp2] at h; simp only [Option.map_eq_some_iff] at h
          rcases h with ⟨r, _, rfl⟩; simp [findKw, hkw]
        | sc s =>
          rw [hp2] at h; simp only [Option.map_eq_some_iff] at h
          rcases h with ⟨r, _, rfl⟩; simp [findKw, hkw]
        | list s =>
          rw [hp2] at h; simp only [Option.map_eq_some_iff] at h
          rcases h with ⟨r, _, rfl⟩; simp [findKw, hkw]
        | other s =>
          rw [hp2] at h; simp only [Option.map_eq_some_iff] at h
          rcases h with ⟨r, _, rfl⟩; simp [findKw, hkw]
    · simp only [hpk] at hk
      have hrest : ∃ r, bindKw ps kw = some r ∧ ∃ x, bound = (p.1, x) :: r := by
        cases hkw : findKw p.1 kw with
        | some v =>
          rw [hkw] at h; simp only [Option.map_eq_some_iff] at h
          rcases h with ⟨r, hr, rfl⟩; exact ⟨r, hr, v, rfl⟩
        | none =>
          rw [hkw] at h
          cases hp2 : p.2 with
          | absent => rw [hp2] at h; simp at h
          | pyNone =>
            rw [hp2] at h; simp only [Option.map_eq_some_iff] at h
            rcases h with ⟨r, hr, rfl⟩; exact ⟨r, hr, _, rfl⟩
          | sc s =>
            rw [hp2] at h; simp only [Option.map_eq_some_iff] at h
            rcases h with ⟨r, hr, rfl⟩; exact ⟨r, hr, _, rfl⟩
          | list s =>
            rw [hp2] at h; simp only [Option.map_eq_some_iff] at h
            rcases h with ⟨r, hr, rfl⟩; exact ⟨r, hr, _, rfl⟩
          | other s =>
            rw [hp2] at h; simp only [Option.map_eq_some_iff] at h
            rcases h with ⟨r, hr, rfl⟩; exact ⟨r, hr, _, rfl⟩
      rcases hrest with ⟨r, hr, x, rfl⟩
      have := ih hr hk
      simp only [findKw, hpk]
      exact this

/-- forwarding `kw=kw` for every keyword-only parameter hands over exactly the bound values -/
theorem fwdKw_find {bound attrs : List (Nat × Dflt)} {l : List (Nat × Dflt)}
    (h : fwdKw bound (l.map (fun p => (p.1, p.1))) = some attrs) (k : Nat) (d : Dflt)
    (hk : findKw k l = some d) : findKw k attrs = findKw k bound := by
  induction l generalizing attrs with
  | nil => simp [findKw] at hk
  | cons p ps ih =>
    simp only [List.map, fwdKw] at h
    cases hb : findKw p.1 bound with
    | none => rw [hb] at h; simp at h
    | some x =>
      rw [hb] at h
      cases hr : fwdKw bound (ps.map (fun p => (p.1, p.1))) with
      | none => rw [hr] at h; simp at h
      | some r =>
        rw [hr] at h
        simp only [Option.some.injEq] at h
        subst h
        simp only [findKw] at hk ⊢
        by_cases hpk : (p.1 == k) = true
        · have : p.1 = k := by simpa using hpk
          subst this
          simp [hb]
        · simp only [hpk] at hk ⊢
          exact ih hr hk

theorem attrsOk_find {s : Schema} {kw : List (Nat × Dflt)} (h : attrsOk s kw = true) (a : Attr)
    (ha : a ∈ s.attrs) : findKw a.name kw = some (attrDefault a) := by
  simp only [attrsOk, Bool.and_eq_true, List.all_eq_true] at h
  have := h.2 a ha
  cases hf : findKw a.name kw with
  | none => rw [hf] at this; simp at this
  | some d => rw [hf] at this; rw [dflt_beq_eq this]

/-! ### positional binding and forwarding -/

theorem natBoolList_beq_eq {a b : List (Nat × Bool)} (h : natBoolListBeq a b = true) : a = b := by
  induction a generalizing b with
  | nil => cases b <;> simp [natBoolListBeq] at h ⊢
  | cons x xs ih =>
    cases b with
    | nil => simp [natBoolListBeq] at h
    | cons y ys =>
      simp only [natBoolListBeq, Bool.and_eq_true, beq_iff_eq] at h
      rw [ih h.2, Prod.ext h.1.1 h.1.2]

theorem findPos_of_nodup {α} {bound : List (Nat × Option α)} (hnd : (bound.map Prod.fst).Nodup)
    {p : Nat × Option α} (hp : p ∈ bound) : findPos p.1 bound = some p.2 := by
  induction bound with
  | nil => cases hp
  | cons q qs ih =>
    simp only [List.map, List.nodup_cons] at hnd
    simp only [findPos]
    rcases List.mem_cons.mp hp with rfl | hp'
    · simp
    · have : q.1 ≠ p.1 := by
        intro h
        exact hnd.1 (h ▸ List.mem_map_of_mem hp')
      simp only [beq_iff_eq, this, if_false]
      exact ih hnd.2 hp'

theorem fwdValues_named {α} (bound : List (Nat × Option α)) (extra : List (Option α))
    (l : List (Nat × Option α)) (tail : List (Nat × Bool))
    (h : ∀ p ∈ l, findPos p.1 bound = some p.2) :
    fwdValues bound extra (l.map (fun p => (p.1, false)) ++ tail) =
      (fwdValues bound extra tail).map (fun r => l.map Prod.snd ++ r) := by
  induction l with
  | nil => simp
  | cons q qs ih =>
    have hq := h q List.mem_cons_self
    have ih' := ih (fun p hp => h p (List.mem_cons_of_mem _ hp))
    simp only [List.map, List.cons_append, fwdValues, hq, ih']
    cases fwdValues bound extra tail <;> simp

/-- binding positional parameters keeps the parameter names and, as values, the supplied arguments
followed by `None` for every omitted (optional) parameter; what is left over goes to `*vararg` -/
theorem bindPos_spec {α} (pos : List (Nat × Dflt)) (args : List (Option α))
    (bound : List (Nat × Option α)) (extra : List (Option α))
    (h : bindPos pos args = some (bound, extra)) :
    bound.map Prod.fst = pos.map Prod.fst ∧
      bound.map Prod.snd ++ extra = args ++ List.replicate (pos.length - args.length) none ∧
      (extra ≠ [] → pos.length ≤ args.length) := by
  induction pos generalizing args bound extra with
  | nil =>
    simp only [bindPos, Option.some.injEq, Prod.mk.injEq] at h
    rcases h with ⟨rfl, rfl⟩
    simp
  | cons p ps ih =>
    cases args with
    | cons a as =>
      simp only [bindPos, Option.map_eq_some_iff] at h
      rcases h with ⟨r, hr, hre⟩
      simp only [Prod.mk.injEq] at hre
      rcases hre with ⟨rfl, rfl⟩
      have := ih as r.1 r.2 (by rw [hr])
      refine ⟨by simp [this.1], ?_, ?_⟩
      · simp only [List.map, List.cons_append, List.length_cons, Nat.add_sub_add_right]
        rw [this.2.1]
      · intro he; have := this.2.2 he; simp only [List.length_cons]; omega
    | nil =>
      simp only [bindPos] at h
      cases hp2 : p.2 with
      | pyNone =>
        rw [hp2] at h
        simp only [Option.map_eq_some_iff] at h
        rcases h with ⟨r, hr, hre⟩
        simp only [Prod.mk.injEq] at hre
        rcases hre with ⟨rfl, rfl⟩
        have := ih [] r.1 r.2 (by rw [hr])
        refine ⟨by simp [this.1], ?_, ?_⟩
        · have h2 := this.2.1
          simp only [List.nil_append, List.length_nil, Nat.sub_zero] at h2 ⊢
          simp only [List.map, List.cons_append, List.length_cons, List.replicate_succ]
          rw [h2]
        · intro he; have := this.2.2 he; simp at this
          -- ps.length ≤ 0 → then bindPos gives extra = [] ; contradiction handled by omega on lengths
          have h2 := this
          subst h2
          simp [bindPos] at hr
          rcases hr with ⟨_, rfl⟩
          exact absurd rfl he
      | absent => rw [hp2] at h; simp at h
      | sc s => rw [hp2] at h; simp at h
      | list s => rw [hp2] at h; simp at h
      | other s => rw [hp2] at h; simp at h

/-! ### `separate_input_attributes_from_arguments` -/

theorem findTok_mem {k v : Nat} {kwargs : List (Nat × Nat)} (hk : findTok k kwargs = some v) :
    (k, v) ∈ kwargs := by
  induction kwargs with
  | nil => simp [findTok] at hk
  | cons q qs ihq =>
    simp only [findTok] at hk
    split at hk
    next hq =>
      simp only [beq_iff_eq] at hq
      simp only [Option.some.injEq] at hk
      have : q = (k, v) := Prod.ext hq hk
      rw [this]; exact List.mem_cons_self
    next => exact List.mem_cons_of_mem _ (ihq hk)

/-- invariant of the loop with `fill_defaults=False`: every attribute collected is a value the caller wrote -/
theorem sepLoop_nofill_written (args : List Nat) (kwargs : List (Nat × Nat))
    (ps : List SigParam) (rest : List Nat) (ins : List (Option Nat)) (attrs : List (Nat × Nat)) (hv : Bool) (tp : Nat)
    (hrest : ∀ a ∈ rest, a ∈ args)
    (hacc : ∀ kv ∈ attrs, kv.2 ∈ args ∨ kv ∈ kwargs)
    {ins' : List (Option Nat)} {attrs' : List (Nat × Nat)} {hv' : Bool} {rest' : List Nat} {tp' : Nat}
    (h : sepLoop kwargs false ps rest ins attrs hv tp = .ok (ins', attrs', hv', rest', tp')) :
    ∀ kv ∈ attrs', kv.2 ∈ args ∨ kv ∈ kwargs := by
  induction ps generalizing rest ins attrs hv tp with
  | nil =>
    simp only [sepLoop, Except.ok.injEq, Prod.mk.injEq] at h
    rcases h with ⟨_, rfl, _, _, _⟩; exact hacc
  | cons p ps ih =>
    simp only [sepLoop] at h
    split at h
    · exact ih _ _ _ _ _ (by intro a ha; cases ha) hacc h
    · cases rest with
      | cons a rest1 =>
        simp only at h
        have hr1 : ∀ x ∈ rest1, x ∈ args := fun x hx => hrest x (List.mem_cons_of_mem _ hx)
        split at h
        · exact ih _ _ _ _ _ hr1 hacc h
        · refine ih _ _ _ _ _ hr1 ?_ h
          intro kv hkv
          rcases List.mem_append.mp hkv with h1 | h1
          · exact hacc kv h1
          · simp only [List.mem_singleton] at h1; subst h1
            exact Or.inl (hrest a List.mem_cons_self)
      | nil =>
        simp only at h
        cases hk : findTok p.name kwargs with
        | some v =>
          rw [hk] at h; simp only at h
          have hmem : (p.name, v) ∈ kwargs := findTok_mem hk
          split at h
          · exact ih _ _ _ _ _ (by intro a ha; cases ha) hacc h
          · refine ih _ _ _ _ _ (by intro a ha; cases ha) ?_ h
            intro kv hkv
            rcases List.mem_append.mp hkv with h1 | h1
            · exact hacc kv h1
            · simp only [List.mem_singleton] at h1; subst h1; exact Or.inr hmem
        | none =>
          rw [hk] at h; simp only at h
          split at h
          · simp only [Bool.false_eq_true, if_false] at h
            exact ih _ _ _ _ _ (by intro a ha; cases ha) hacc h
          · split at h
            · cases h
            · split at h
              · exact ih _ _ _ _ _ (by intro a ha; cases ha) hacc h
              · exact ih _ _ _ _ _ (by intro a ha; cases ha) hacc h

/-- a value the caller wrote: positionally, or under some keyword -/
def Written (args : List Nat) (kwargs : List (Nat × Nat)) (x : Option Nat) : Prop :=
  x = none ∨ ∃ v, x = some v ∧ (v ∈ args ∨ ∃ k, (k, v) ∈ kwargs)

/-- invariant of the loop, either mode: every input slot is a `None` placeholder or a value the caller wrote -/
theorem sepLoop_inputs_written (args : List Nat) (kwargs : List (Nat × Nat)) (fill : Bool)
    (ps : List SigParam) (rest : List Nat) (ins : List (Option Nat)) (attrs : List (Nat × Nat)) (hv : Bool) (tp : Nat)
    (hrest : ∀ a ∈ rest, a ∈ args)
    (hacc : ∀ x ∈ ins, Written args kwargs x)
    {ins' : List (Option Nat)} {attrs' : List (Nat × Nat)} {hv' : Bool} {rest' : List Nat} {tp' : Nat}
    (h : sepLoop kwargs fill ps rest ins attrs hv tp = .ok (ins', attrs', hv', rest', tp')) :
    ∀ x ∈ ins', Written args kwargs x := by
  induction ps generalizing rest ins attrs hv tp with
  | nil =>
    simp only [sepLoop, Except.ok.injEq, Prod.mk.injEq] at h
    rcases h with ⟨rfl, _, _, _, _⟩; exact hacc
  | cons p ps ih =>
    have snoc : ∀ (y : Option Nat), Written args kwargs y → ∀ x ∈ ins ++ [y], Written args kwargs x := by
      intro y hy x hx
      rcases List.mem_append.mp hx with h1 | h1
      · exact hacc x h1
      · simp only [List.mem_singleton] at h1; subst h1; exact hy
    simp only [sepLoop] at h
    split at h
    · refine ih _ _ _ _ _ (by intro a ha; cases ha) ?_ h
      intro x hx
      rcases List.mem_append.mp hx with h1 | h1
      · exact hacc x h1
      · rcases List.mem_map.mp h1 with ⟨a, ha, rfl⟩
        exact Or.inr ⟨a, rfl, Or.inl (hrest a ha)⟩
    · cases rest with
      | cons a rest1 =>
        simp only at h
        have hr1 : ∀ x ∈ rest1, x ∈ args := fun x hx => hrest x (List.mem_cons_of_mem _ hx)
        split at h
        · exact ih _ _ _ _ _ hr1 (snoc _ (Or.inr ⟨a, rfl, Or.inl (hrest a List.mem_cons_self)⟩)) h
        · exact ih _ _ _ _ _ hr1 hacc h
      | nil =>
        simp only at h
        cases hk : findTok p.name kwargs with
        | some v =>
          rw [hk] at h; simp only at h
          split at h
          · exact ih _ _ _ _ _ (by intro a ha; cases ha)
              (snoc _ (Or.inr ⟨v, rfl, Or.inr ⟨p.name, findTok_mem hk⟩⟩)) h
          · exact ih _ _ _ _ _ (by intro a ha; cases ha) hacc h
        | none =>
          rw [hk] at h; simp only at h
          split at h
          · split at h
            · exact ih _ _ _ _ _ (by intro a ha; cases ha) hacc h
            · exact ih _ _ _ _ _ (by intro a ha; cases ha) hacc h
          · split at h
            · cases h
            · split at h
              · exact ih _ _ _ _ _ (by intro a ha; cases ha) (snoc _ (Or.inl rfl)) h
              · exact ih _ _ _ _ _ (by intro a ha; cases ha) hacc h

/-- attribute lists of the two modes: `F` (no fill) is `T` (fill) without some declared defaults -/
def FillRel (params : List SigParam) (F T : List (Nat × Nat)) : Prop :=
  List.Sublist F T ∧ ∀ kv ∈ T, kv ∈ F ∨ ∃ p ∈ params, p.isInput = false ∧ p.name = kv.1 ∧ p.dflt = some kv.2

theorem FillRel.snoc_both {params F T} (h : FillRel params F T) (x : Nat × Nat) :
    FillRel params (F ++ [x]) (T ++ [x]) := by
  refine ⟨List.Sublist.append h.1 (List.Sublist.refl _), ?_⟩
  intro kv hkv
  rcases List.mem_append.mp hkv with h1 | h1
  · rcases h.2 kv h1 with h2 | h2
    · exact Or.inl (List.mem_append_left _ h2)
    · exact Or.inr h2
  · exact Or.inl (List.mem_append_right _ h1)

theorem FillRel.snoc_default {params F T} (h : FillRel params F T) (p : SigParam) (hp : p ∈ params)
    (hi : p.isInput = false) (d : Nat) (hd : p.dflt = some d) :
    FillRel params F (T ++ [(p.name, d)]) := by
  refine ⟨List.Sublist.trans h.1 (List.sublist_append_left _ _), ?_⟩
  intro kv hkv
  rcases List.mem_append.mp hkv with h1 | h1
  · exact h.2 kv h1
  · simp only [List.mem_singleton] at h1; subst h1
    exact Or.inr ⟨p, hp, hi, rfl, hd⟩

theorem sepLoop_fill_vs_nofill (params : List SigParam) (kwargs : List (Nat × Nat))
    (ps : List SigParam) (hps : ∀ p ∈ ps, p ∈ params) (rest : List Nat) (ins : List (Option Nat))
    (F T : List (Nat × Nat)) (hv : Bool) (tp : Nat)
    (hrel : FillRel params F T)
    {ins' : List (Option Nat)} {T' : List (Nat × Nat)} {hv' : Bool} {rest' : List Nat} {tp' : Nat}
    (h : sepLoop kwargs true ps rest ins T hv tp = .ok (ins', T', hv', rest', tp')) :
    ∃ F', sepLoop kwargs false ps rest ins F hv tp = .ok (ins', F', hv', rest', tp') ∧ FillRel params F' T' := by
  induction ps generalizing rest ins F T hv tp with
  | nil =>
    simp only [sepLoop, Except.ok.injEq, Prod.mk.injEq] at h
    rcases h with ⟨rfl, rfl, rfl, rfl, rfl⟩
    exact ⟨F, rfl, hrel⟩
  | cons p ps ih =>
    have hps' : ∀ q ∈ ps, q ∈ params := fun q hq => hps q (List.mem_cons_of_mem _ hq)
    have hp : p ∈ params := hps p List.mem_cons_self
    simp only [sepLoop] at h ⊢
    split at h
    next hc => simp only [hc, if_true]; exact ih hps' _ _ _ _ _ _ hrel h
    next hc =>
      simp only [hc]
      cases rest with
      | cons a rest1 =>
        simp only at h ⊢
        split at h
        next hi => simp only [hi, if_true]; exact ih hps' _ _ _ _ _ _ hrel h
        next hi => simp only [hi]; exact ih hps' _ _ _ _ _ _ (hrel.snoc_both _) h
      | nil =>
        simp only at h ⊢
        cases hk : findTok p.name kwargs with
        | some v =>
          rw [hk] at h; simp only at h ⊢
          split at h
          next hi => simp only [hi, if_true]; exact ih hps' _ _ _ _ _ _ hrel h
          next hi => simp only [hi]; exact ih hps' _ _ _ _ _ _ (hrel.snoc_both _) h
        | none =>
          rw [hk] at h; simp only at h ⊢
          cases hd : (if p.isInput = true then none else p.dflt) with
          | some d =>
            rw [hd] at h; simp only [if_true] at h
            simp only [Bool.false_eq_true, if_false]
            have hi : p.isInput = false := by
              cases hpi : p.isInput with
              | true => simp [hpi] at hd
              | false => rfl
            have hd' : p.dflt = some d := by simpa [hi] using hd
            exact ih hps' _ _ _ _ _ _ (hrel.snoc_default p hp hi d hd') h
          | none =>
            rw [hd] at h; simp only at h ⊢
            split at h
            · cases h
            · next hr =>
              simp only [hr]
              split at h
              next hi => simp only [hi, if_true]; exact ih hps' _ _ _ _ _ _ hrel h
              next hi => simp only [hi]; exact ih hps' _ _ _ _ _ _ hrel h

/-- the input slots end in exactly `tp` placeholders, and what precedes them does not end in `None` -/
def TpInv (ins : List (Option Nat)) (tp : Nat) : Prop :=
  ∃ pre, ins = pre ++ List.replicate tp none ∧ pre.getLast? ≠ some none

theorem TpInv.snoc_some {ins tp} (_h : TpInv ins tp) (a : Nat) : TpInv (ins ++ [some a]) 0 :=
  ⟨ins ++ [some a], by simp, by simp⟩

theorem TpInv.snoc_none {ins tp} (h : TpInv ins tp) : TpInv (ins ++ [none]) (tp + 1) := by
  rcases h with ⟨pre, rfl, hl⟩
  exact ⟨pre, by rw [List.replicate_succ', List.append_assoc], hl⟩

theorem sepLoop_tp (kwargs : List (Nat × Nat)) (fill : Bool)
    (ps : List SigParam) (rest : List Nat) (ins : List (Option Nat)) (attrs : List (Nat × Nat)) (hv : Bool) (tp : Nat)
    (hinv : TpInv ins tp)
    {ins' : List (Option Nat)} {attrs' : List (Nat × Nat)} {hv' : Bool} {rest' : List Nat} {tp' : Nat}
    (h : sepLoop kwargs fill ps rest ins attrs hv tp = .ok (ins', attrs', hv', rest', tp')) :
    TpInv ins' tp' := by
  induction ps generalizing rest ins attrs hv tp with
  | nil =>
    simp only [sepLoop, Except.ok.injEq, Prod.mk.injEq] at h
    rcases h with ⟨rfl, _, _, _, rfl⟩; exact hinv
  | cons p ps ih =>
    simp only [sepLoop] at h
    split at h
    · refine ih _ _ _ _ _ ?_ h
      cases rest with
      | nil => simpa using hinv
      | cons a as =>
        refine ⟨ins ++ (a :: as).map some, by simp, ?_⟩
        intro hbad
        rw [List.getLast?_append] at hbad
        cases hl2 : ((a :: as).map some).getLast? with
        | none => simp at hl2
        | some x =>
          rw [hl2] at hbad
          have hbad : x = none := by simpa using hbad
          have hx := List.mem_of_getLast? hl2
          rcases List.mem_map.mp hx with ⟨y, _, hy⟩
          rw [← hy] at hbad
          cases hbad
    · cases rest with
      | cons a rest1 =>
        simp only at h
        split at h
        · exact ih _ _ _ _ _ (hinv.snoc_some a) h
        · exact ih _ _ _ _ _ hinv h
      | nil =>
        simp only at h
        cases hk : findTok p.name kwargs with
        | some v =>
          rw [hk] at h; simp only at h
          split at h
          · exact ih _ _ _ _ _ (hinv.snoc_some v) h
          · exact ih _ _ _ _ _ hinv h
        | none =>
          rw [hk] at h; simp only at h
          split at h
          · split at h
            · exact ih _ _ _ _ _ hinv h
            · exact ih _ _ _ _ _ hinv h
          · split at h
            · cases h
            · split at h
              · exact ih _ _ _ _ _ hinv.snoc_none h
              · exact ih _ _ _ _ _ hinv h

/-! ### converter default opset / exported imports -/

theorem findTok_append_keep {d x : Nat} {l m : List (Nat × Nat)} (h : findTok d l = some x) :
    findTok d (l ++ m) = some x := by
  induction l with
  | nil => simp [findTok] at h
  | cons q qs ih =>
    simp only [List.cons_append, findTok] at h ⊢
    split
    next hq => simp only [hq, if_true] at h; exact h
    next hq => simp only [hq] at h; exact ih h

theorem findTok_append_none {d : Nat} {l m : List (Nat × Nat)} (h : findTok d l = none) :
    findTok d (l ++ m) = findTok d m := by
  induction l with
  | nil => rfl
  | cons q qs ih =>
    simp only [List.cons_append, findTok] at h ⊢
    split
    next hq => simp only [hq, if_true] at h; cases h
    next hq => simp only [hq] at h; exact ih h

theorem findTok_mem' {k v : Nat} {l : List (Nat × Nat)} (hk : findTok k l = some v) : (k, v) ∈ l :=
  findTok_mem hk

theorem appendNode_dflt (st : ConvState) (d v : Nat) : (appendNode st d v).dflt = st.dflt := by
  unfold appendNode; split
  · rfl
  · split <;> rfl

theorem appendNode_keep (st : ConvState) (d v k x : Nat) (h : findTok k st.imports = some x) :
    findTok k (appendNode st d v).imports = some x := by
  unfold appendNode; split
  · exact findTok_append_keep h
  · split <;> exact h

/-- after a node of (d, v) the domain is imported: at `v` if it was new, else at the version it already had -/
theorem appendNode_self (st : ConvState) (d v : Nat) :
    findTok d (appendNode st d v).imports =
      some (match findTok d st.imports with | some v0 => v0 | none => v) := by
  unfold appendNode
  cases h : findTok d st.imports with
  | none => simp only; rw [findTok_append_none h]; simp [findTok]
  | some v0 => simp only; split <;> exact h

theorem appendNode_mem (st : ConvState) (d v : Nat) (p : Nat × Nat)
    (h : p ∈ (appendNode st d v).imports) : p ∈ st.imports ∨ p = (d, v) := by
  unfold appendNode at h; split at h
  · simp only [List.mem_append, List.mem_singleton] at h; exact h
  · split at h <;> exact Or.inl h

/-- a `''` import, once there, is the converter's default opset -/
def ConvInv (st : ConvState) : Prop := ∀ v0, findTok 1 st.imports = some v0 → st.dflt = some (1, v0)

theorem setDefault_ok {st st' : ConvState} {d v : Nat} (h : setDefault st d v = .ok st') :
    st'.imports = st.imports ∧ st'.conflicts = st.conflicts ∧
      (∀ x, st.dflt = some x → st'.dflt = some x) ∧ (d = 1 → st'.dflt = some (1, v)) ∧
      (d ≠ 1 → st'.dflt = st.dflt) := by
  unfold setDefault at h
  split at h
  next hd =>
    simp only [bne_iff_ne, ne_eq] at hd
    cases h
    exact ⟨rfl, rfl, fun _ hx => hx, fun h1 => absurd h1 hd, fun _ => rfl⟩
  next hd =>
    have hd1 : d = 1 := by simpa using hd
    cases hdf : st.dflt with
    | none =>
      rw [hdf] at h; simp only [Except.ok.injEq] at h; subst h
      refine ⟨rfl, rfl, ?_, fun _ => by rw [hd1], fun h1 => absurd hd1 h1⟩
      intro x hx; cases hx
    | some dv =>
      rcases dv with ⟨d0, v0⟩
      rw [hdf] at h; simp only at h
      split at h
      · cases h
      · next hne =>
        simp only [Bool.or_eq_true, bne_iff_ne, ne_eq, not_or, Decidable.not_not] at hne
        cases h
        refine ⟨rfl, rfl, fun _ hx => hdf ▸ hx, ?_, fun h1 => absurd hd1 h1⟩
        intro _; rw [hdf, ← hne.1, ← hne.2, hd1]

theorem convStep_props {st st' : ConvState} {e : Ev} (hinv : ConvInv st) (h : convStep st e = .ok st') :
    ConvInv st' ∧ (∀ x, st.dflt = some x → st'.dflt = some x) ∧
      (∀ k x, findTok k st.imports = some x → findTok k st'.imports = some x) ∧
      (∀ v, e = .call 1 v → findTok 1 st'.imports = some v) ∧
      (∀ p ∈ st'.imports, p ∈ st.imports ∨ e = .call p.1 p.2 ∨ e = .implicit) := by
  cases e with
  | call d v =>
    simp only [convStep] at h
    cases hs : setDefault st d v with
    | error err => rw [hs] at h; cases h
    | ok s1 =>
      rw [hs] at h; simp only [Except.ok.injEq] at h; subst h
      rcases setDefault_ok hs with ⟨himp, _, hkeep, hone, hother⟩
      have hinv1 : ConvInv s1 := by
        intro v0 hv0; rw [himp] at hv0; exact hkeep _ (hinv v0 hv0)
      refine ⟨?_, ?_, ?_, ?_, ?_⟩
      · intro v0 hv0
        rw [appendNode_dflt]
        by_cases hd : d = 1
        · subst hd
          rw [appendNode_self] at hv0
          cases hf : findTok 1 s1.imports with
          | none => rw [hf] at hv0; simp only [Option.some.injEq] at hv0; subst hv0; exact hone rfl
          | some w => rw [hf] at hv0; simp only [Option.some.injEq] at hv0; subst hv0; exact hinv1 _ hf
        · -- the appended entry is of another domain
          have : findTok 1 s1.imports = some v0 := by
            unfold appendNode at hv0
            split at hv0
            · next hnone =>
              cases hf : findTok 1 s1.imports with
              | some w => rw [findTok_append_keep hf] at hv0; exact hv0
              | none =>
                rw [findTok_append_none hf] at hv0
                simp only [findTok] at hv0
                split at hv0
                next hq => simp only [beq_iff_eq] at hq; exact absurd hq hd
                next => cases hv0
            · split at hv0 <;> exact hv0
          exact hinv1 _ this
      · intro x hx; rw [appendNode_dflt]; exact hkeep x hx
      · intro k x hk; apply appendNode_keep; rw [himp]; exact hk
      · intro v' he
        simp only [Ev.call.injEq] at he
        rcases he with ⟨rfl, rfl⟩
        rw [appendNode_self]
        cases hf : findTok 1 s1.imports with
        | none => rfl
        | some w =>
          have h1 := hinv1 _ hf
          have h2 := hone rfl
          rw [h1] at h2
          simp only [Option.some.injEq, Prod.mk.injEq, true_and] at h2
          simp [h2]
      · intro p hp
        rcases appendNode_mem _ _ _ _ hp with h1 | h1
        · rw [himp] at h1; exact Or.inl h1
        · subst h1; exact Or.inr (Or.inl rfl)
  | implicit =>
    simp only [convStep] at h
    cases hdf : st.dflt with
    | none => rw [hdf] at h; cases h
    | some dv =>
      rcases dv with ⟨d0, v0⟩
      rw [hdf] at h; simp only [Except.ok.injEq] at h; subst h
      refine ⟨?_, ?_, ?_, ?_, ?_⟩
      · intro w hw
        rw [appendNode_dflt]
        by_cases hd : d0 = 1
        · subst hd
          rw [appendNode_self] at hw
          cases hf : findTok 1 st.imports with
          | none => rw [hf] at hw; simp only [Option.some.injEq] at hw; subst hw; exact hdf
          | some u => rw [hf] at hw; simp only [Option.some.injEq] at hw; subst hw; exact hinv _ hf
        · have : findTok 1 st.imports = some w := by
            unfold appendNode at hw
            split at hw
            · cases hf : findTok 1 st.imports with
              | some u => rw [findTok_append_keep hf] at hw; exact hw
              | none =>
                rw [findTok_append_none hf] at hw
                simp only [findTok] at hw
                split at hw
                next hq => simp only [beq_iff_eq] at hq; exact absurd hq hd
                next => cases hw
            · split at hw <;> exact hw
          exact hinv _ this
      · intro x hx; rw [appendNode_dflt]; exact hdf ▸ hx
      · intro k x hk; exact appendNode_keep _ _ _ _ _ hk
      · intro v he; cases he
      · intro p hp
        rcases appendNode_mem _ _ _ _ hp with h1 | h1
        · exact Or.inl h1
        · exact Or.inr (Or.inr rfl)

theorem convRun_props {st st' : ConvState} {evs : List Ev} (hinv : ConvInv st) (h : convRun st evs = .ok st') :
    (∀ x, st.dflt = some x → st'.dflt = some x) ∧
      (∀ k x, findTok k st.imports = some x → findTok k st'.imports = some x) ∧
      (∀ v, Ev.call 1 v ∈ evs → findTok 1 st'.imports = some v) ∧
      (∀ p ∈ st'.imports, p ∈ st.imports ∨ Ev.call p.1 p.2 ∈ evs ∨ Ev.implicit ∈ evs) := by
  induction evs generalizing st with
  | nil =>
    simp only [convRun, Except.ok.injEq] at h; subst h
    exact ⟨fun _ hx => hx, fun _ _ hk => hk, fun v hv => (by cases hv), fun p hp => Or.inl hp⟩
  | cons e es ih =>
    simp only [convRun] at h
    cases hs : convStep st e with
    | error err => rw [hs] at h; cases h
    | ok s1 =>
      rw [hs] at h; simp only at h
      rcases convStep_props hinv hs with ⟨hinv1, hk1, hi1, hc1, hm1⟩
      rcases ih hinv1 h with ⟨hk2, hi2, hc2, hm2⟩
      refine ⟨fun x hx => hk2 x (hk1 x hx), fun k x hk => hi2 k x (hi1 k x hk), ?_, ?_⟩
      · intro v hv
        rcases List.mem_cons.mp hv with rfl | hv'
        · exact hi2 1 v (hc1 v rfl)
        · exact hc2 v hv'
      · intro p hp
        rcases hm2 p hp with h1 | h1 | h1
        · rcases hm1 p h1 with h2 | h2 | h2
          · exact Or.inl h2
          · exact Or.inr (Or.inl (h2 ▸ List.mem_cons_self))
          · exact Or.inr (Or.inr (h2 ▸ List.mem_cons_self))
        · exact Or.inr (Or.inl (List.mem_cons_of_mem _ h1))
        · exact Or.inr (Or.inr (List.mem_cons_of_mem _ h1))

/-- with a default opset in place, the only way translation stops is "Two distincts opset were used" -/
theorem convRun_error {st : ConvState} {evs : List Ev} {err : ConvErr} (hinv : ConvInv st)
    (hd : st.dflt.isSome = true) (h : convRun st evs = .error err) : err = .twoOpsets := by
  induction evs generalizing st with
  | nil => simp [convRun] at h
  | cons e es ih =>
    simp only [convRun] at h
    cases hs : convStep st e with
    | ok s1 =>
      rw [hs] at h; simp only at h
      rcases convStep_props hinv hs with ⟨hinv1, hk1, _, _, _⟩
      refine ih hinv1 ?_ h
      rcases Option.isSome_iff_exists.mp hd with ⟨x, hx⟩
      rw [hk1 x hx]; rfl
    | error e2 =>
      rw [hs] at h; simp only [Except.error.injEq] at h; subst h
      cases e with
      | call d v =>
        simp only [convStep] at hs
        cases hsd : setDefault st d v with
        | ok s1 => rw [hsd] at hs; cases hs
        | error e3 =>
          rw [hsd] at hs; simp only [Except.error.injEq] at hs; subst hs
          unfold setDefault at hsd
          split at hsd
          · cases hsd
          · split at hsd
            · split at hsd
              · simp only [Except.error.injEq] at hsd; exact hsd.symm
              · cases hsd
            · cases hsd
      | implicit =>
        simp only [convStep] at hs
        rcases Option.isSome_iff_exists.mp hd with ⟨x, hx⟩
        rw [hx] at hs
        cases hs

theorem findOnnxOpset_some {evs : List Ev} {v : Nat} (h : Ev.call 1 v ∈ evs) :
    (findOnnxOpset evs).isSome = true := by
  induction evs with
  | nil => cases h
  | cons e es ih =>
    cases e with
    | call d w =>
      simp only [findOnnxOpset]
      split
      · rfl
      · next hd =>
        rcases List.mem_cons.mp h with h1 | h1
        · simp only [Ev.call.injEq] at h1; simp [h1.1] at hd
        · exact ih h1
    | implicit =>
      simp only [findOnnxOpset]
      rcases List.mem_cons.mp h with h1 | h1
      · cases h1
      · exact ih h1

/-! ### the one-node eager model -/

/-- `pick` answers as soon as one candidate is in force -/
theorem pick_exists {α} (ver : α → Nat) (N : Nat) (l : List α) (best : Option α)
    (h : (∃ x ∈ l, ver x ≤ N) ∨ best.isSome = true) : ∃ y, pick ver N l best = some y := by
  induction l generalizing best with
  | nil =>
    rcases h with ⟨x, hx, _⟩ | h
    · cases hx
    · simp only [pick]; exact Option.isSome_iff_exists.mp h
  | cons z zs ih =>
    simp only [pick]
    split
    next hz =>
      split
      · exact ih _ (Or.inr rfl)
      · split
        · exact ih _ (Or.inr rfl)
        · exact ih _ (Or.inr rfl)
    next hz =>
      apply ih
      rcases h with ⟨x, hx, hxN⟩ | h
      · rcases List.mem_cons.mp hx with rfl | hx
        · exact absurd hxN hz
        · exact Or.inl ⟨x, hx, hxN⟩
      · exact Or.inr h

/-- **`get_schema` at a schema's own `since_version` finds that schema** (by key): if `get_schema(n, N, d)` is
`s`, then `get_schema(n, s.since_version, d)` answers, with the same (name, since_version, domain). -/
theorem lookup_at_since {reg : List Schema} {d N n : Nat} {s : Schema}
    (h : lookup reg d N n = some s) :
    ∃ s', lookup reg d s.since n = some s' ∧ s'.key = s.key := by
  have hs := lookup_some h
  rw [lookup_eq] at h
  have hmem : s ∈ selectS d n reg [] id := by
    rcases pick_mem _ _ _ _ _ h with h1 | h1
    · exact h1
    · cases h1
  rcases pick_exists Schema.since s.since (selectS d n reg [] id) none
      (Or.inl ⟨s, hmem, Nat.le_refl _⟩) with ⟨s', hs'⟩
  have hl : lookup reg d s.since n = some s' := by rw [lookup_eq]; exact hs'
  refine ⟨s', hl, ?_⟩
  have h1 := lookup_some hl
  have h2 := (pick_max _ _ _ _ _ hs').1 s hmem (Nat.le_refl _)
  have h3 : s'.since = s.since := Nat.le_antisymm h1.2.2.2 h2
  simp only [Schema.key]
  rw [h1.2.1, h1.2.2.1, hs.2.1, hs.2.2.1, h3]

/-- a name that is not a keyword is not found after dropping the `None`-valued keywords either -/
theorem findKw_dropNone_none {k : Nat} {l : List (Nat × Dflt)} (h : k ∉ l.map Prod.fst) :
    findKw k (dropNone l) = none := by
  induction l with
  | nil => rfl
  | cons p ps ih =>
    have hp : (p.1 == k) = false := by
      cases hc : p.1 == k with
      | false => rfl
      | true => exact absurd (by simp only [List.map_cons, List.mem_cons]; left; exact (beq_iff_eq.mp hc).symm) h
    have ht : k ∉ ps.map Prod.fst := fun hc => h (by simp only [List.map_cons]; exact List.mem_cons_of_mem _ hc)
    simp only [dropNone]
    split
    · exact ih ht
    · simp only [findKw, hp, Bool.false_eq_true, if_false]; exact ih ht

/-- with distinct keywords (a Python `dict`), dropping the keywords whose value is `None`
(`if value is not None` in `_prepare_model_and_inputs_for_eager`) does not change what the node means -/
theorem attrMeaning_dropNone {l : List (Nat × Dflt)} (hnd : (l.map Prod.fst).Nodup) (a : Attr) :
    attrMeaning (dropNone l) a = attrMeaning l a := by
  induction l with
  | nil => rfl
  | cons p ps ih =>
    simp only [List.map_cons, List.nodup_cons] at hnd
    cases hc : p.1 == a.name with
    | true =>
      have hk : a.name ∉ ps.map Prod.fst := by rw [← beq_iff_eq.mp hc]; exact hnd.1
      cases hv : p.2 with
      | pyNone =>
        simp only [attrMeaning, dropNone, hv, findKw, hc, if_true, findKw_dropNone_none hk]
      | absent => simp only [attrMeaning, dropNone, hv, findKw, hc, if_true]
      | sc s => simp only [attrMeaning, dropNone, hv, findKw, hc, if_true]
      | list s => simp only [attrMeaning, dropNone, hv, findKw, hc, if_true]
      | other s => simp only [attrMeaning, dropNone, hv, findKw, hc, if_true]
    | false =>
      have := ih hnd.2
      simp only [attrMeaning] at this
      cases hv : p.2 with
      | pyNone => simp only [attrMeaning, dropNone, hv, findKw, hc, Bool.false_eq_true, if_false]; exact this
      | absent => simp only [attrMeaning, dropNone, hv, findKw, hc, Bool.false_eq_true, if_false]; exact this
      | sc s => simp only [attrMeaning, dropNone, hv, findKw, hc, Bool.false_eq_true, if_false]; exact this
      | list s => simp only [attrMeaning, dropNone, hv, findKw, hc, Bool.false_eq_true, if_false]; exact this
      | other s => simp only [attrMeaning, dropNone, hv, findKw, hc, Bool.false_eq_true, if_false]; exact this

/-- Boolean distinctness (evaluated by the kernel on the tables) -/
theorem distinctNat_nodup {l : List Nat} (h : distinctNat l = true) : l.Nodup := by
  induction l with
  | nil => exact List.nodup_nil
  | cons x xs ih =>
    simp only [distinctNat, Bool.and_eq_true, Bool.not_eq_true'] at h
    refine List.nodup_cons.mpr ⟨?_, ih h.2⟩
    intro hx
    have : xs.contains x = true := List.contains_iff_mem.mpr hx
    rw [this] at h; exact absurd h.1 (by decide)

/-- the keys `fwdKw` produces are the forwarded keyword names, in order -/
theorem fwdKw_keys {bound attrs : List (Nat × Dflt)} {l : List (Nat × Nat)} (h : fwdKw bound l = some attrs) :
    attrs.map Prod.fst = l.map Prod.fst := by
  induction l generalizing attrs with
  | nil => simp only [fwdKw, Option.some.injEq] at h; subst h; rfl
  | cons p ps ih =>
    rcases p with ⟨k, v⟩
    simp only [fwdKw] at h
    split at h
    next x r hx hr => simp only [Option.some.injEq] at h; subst h; simp only [List.map_cons, ih hr]
    next => cases h

/-- `renameFrom`/`feedsFrom`: the fed names are exactly the non-empty input names, in order -/
theorem feeds_names {α} (i : Nat) (xs : List (Option α)) :
    (feedsFrom i xs).map Prod.fst = (renameFrom i xs).filterMap id := by
  induction xs generalizing i with
  | nil => rfl
  | cons x xs ih =>
    cases x with
    | none => simp only [feedsFrom, renameFrom, List.filterMap_cons, id]; exact ih _
    | some v => simp only [feedsFrom, renameFrom, List.filterMap_cons, id, List.map_cons]; rw [ih]

theorem renameFrom_length {α} (i : Nat) (xs : List (Option α)) : (renameFrom i xs).length = xs.length := by
  induction xs generalizing i with
  | nil => rfl
  | cons x xs ih => cases x <;> simp only [renameFrom, List.length_cons, ih]

/-- position `j` of the node's input names is `""` iff argument `j` is `None`, and `input{i+j}` otherwise -/
theorem renameFrom_get {α} (i : Nat) (xs : List (Option α)) (j : Nat) (hj : j < xs.length) :
    (renameFrom i xs)[j]? = some ((xs[j]'hj).map (fun _ => i + j)) := by
  induction xs generalizing i j with
  | nil => cases hj
  | cons x xs ih =>
    cases j with
    | zero => cases x <;> simp [renameFrom]
    | succ j =>
      have hj' : j < xs.length := Nat.lt_of_succ_lt_succ hj
      have := ih (i + 1) j hj'
      cases x <;> simp only [renameFrom, List.getElem?_cons_succ, List.getElem_cons_succ, this] <;>
        simp only [Nat.add_assoc, Nat.add_comm 1 j]

/-- every feed `input{k} ↦ v` is the caller's argument at position `k - i` -/
theorem feedsFrom_mem {α} (i : Nat) (xs : List (Option α)) (k : Nat) (v : α) (h : (k, v) ∈ feedsFrom i xs) :
    i ≤ k ∧ xs[k - i]? = some (some v) := by
  induction xs generalizing i with
  | nil => cases h
  | cons x xs ih =>
    cases x with
    | none =>
      simp only [feedsFrom] at h
      have := ih _ h
      refine ⟨by omega, ?_⟩
      have e : k - i = (k - (i + 1)) + 1 := by omega
      rw [e, List.getElem?_cons_succ]; exact this.2
    | some w =>
      simp only [feedsFrom, List.mem_cons] at h
      rcases h with h | h
      · simp only [Prod.mk.injEq] at h
        rcases h with ⟨rfl, rfl⟩
        exact ⟨Nat.le_refl _, by simp⟩
      · have := ih _ h
        refine ⟨by omega, ?_⟩
        have e : k - i = (k - (i + 1)) + 1 := by omega
        rw [e, List.getElem?_cons_succ]; exact this.2

/-! ### the name set -/

theorem increasing_head_lt {a : Nat} {r : List Nat} (h : increasing (a :: r) = true) : ∀ x ∈ r, a < x := by
  induction r generalizing a with
  | nil => intro x hx; cases hx
  | cons b r ih =>
    simp only [increasing, Bool.and_eq_true, decide_eq_true_eq] at h
    intro x hx
    rcases List.mem_cons.mp hx with rfl | hx
    · exact h.1
    · exact Nat.lt_trans h.1 (ih h.2 x hx)

theorem increasing_tail {a : Nat} {r : List Nat} (h : increasing (a :: r) = true) : increasing r = true := by
  cases r with
  | nil => rfl
  | cons b r => simp only [increasing, Bool.and_eq_true] at h; exact h.2

/-- in a list whose codes strictly increase, an entry is determined by its code -/
theorem increasing_inj {l : List (String × Nat)} (h : increasing (l.map Prod.snd) = true) {p q : String × Nat}
    (hp : p ∈ l) (hq : q ∈ l) (he : p.2 = q.2) : p = q := by
  induction l with
  | nil => cases hp
  | cons z zs ih =>
    simp only [List.map_cons] at h
    have hlt := increasing_head_lt h
    rcases List.mem_cons.mp hp with rfl | hp' <;> rcases List.mem_cons.mp hq with rfl | hq'
    · rfl
    · have := hlt q.2 (List.mem_map_of_mem hq'); omega
    · have := hlt p.2 (List.mem_map_of_mem hp'); omega
    · exact ih (increasing_tail h) hp' hq'

/-! ### a key names one schema -/

theorem selectS_mem_of (d n : Nat) (l acc : List Schema) (s : Schema)
    (h : s ∈ acc ∨ (s ∈ l ∧ s.domain = d ∧ s.name = n)) : s ∈ selectS d n l acc id := by
  induction l generalizing acc with
  | nil =>
    rcases h with h | ⟨h, _, _⟩
    · exact h
    · cases h
  | cons x xs ih =>
    simp only [selectS]
    split
    next hc =>
      apply ih
      rcases h with h | ⟨h, h2, h3⟩
      · exact Or.inl (List.mem_cons_of_mem _ h)
      · rcases List.mem_cons.mp h with rfl | h
        · exact Or.inl List.mem_cons_self
        · exact Or.inr ⟨h, h2, h3⟩
    next hc =>
      apply ih
      rcases h with h | ⟨h, h2, h3⟩
      · exact Or.inl h
      · rcases List.mem_cons.mp h with rfl | h
        · exfalso; apply hc; simp [h2, h3]
        · exact Or.inr ⟨h, h2, h3⟩

theorem eq_of_since_nodup {L : List Schema} (h : (L.map Schema.since).Nodup) {s s' : Schema}
    (hs : s ∈ L) (hs' : s' ∈ L) (he : s.since = s'.since) : s = s' := by
  induction L with
  | nil => cases hs
  | cons z zs ih =>
    simp only [List.map_cons, List.nodup_cons] at h
    rcases List.mem_cons.mp hs with rfl | hs1 <;> rcases List.mem_cons.mp hs' with rfl | hs1'
    · rfl
    · exact absurd (by rw [he]; exact List.mem_map_of_mem hs1') h.1
    · exact absurd (by rw [← he]; exact List.mem_map_of_mem hs1) h.1
    · exact ih h.2 hs1 hs1'

theorem key_unique {reg : List Schema} {chunks : List (Nat × List Nat)} (hu : keysUnique reg chunks = true)
    (hc : schemasCovered chunks reg = true) {s s' : Schema} (hs : s ∈ reg) (hs' : s' ∈ reg)
    (hk : s.key = s'.key) : s = s' := by
  have hin := List.all_eq_true.mp hc s hs
  rcases inGrid_iff.mp hin with ⟨g, hg, hg1, hg2⟩
  have h1 := List.all_eq_true.mp (List.all_eq_true.mp hu g hg) s.name hg2
  rw [selectS_cps] at h1
  have hnd := distinctNat_nodup h1
  simp only [Schema.key, Prod.mk.injEq] at hk
  have m1 : s ∈ selectS g.1 s.name reg [] id := selectS_mem_of _ _ _ _ _ (Or.inr ⟨hs, hg1.symm, rfl⟩)
  have m2 : s' ∈ selectS g.1 s.name reg [] id :=
    selectS_mem_of _ _ _ _ _ (Or.inr ⟨hs', by rw [← hk.2.2]; exact hg1.symm, hk.1.symm⟩)
  exact eq_of_since_nodup hnd m1 m2 hk.2.1

theorem lookup_at_since_eq {reg : List Schema} {chunks : List (Nat × List Nat)}
    (hu : keysUnique reg chunks = true) (hc : schemasCovered chunks reg = true) {d N n : Nat} {s : Schema}
    (h : lookup reg d N n = some s) : lookup reg d s.since n = some s := by
  rcases lookup_at_since h with ⟨s', hl, hk⟩
  have := key_unique hu hc (lookup_some hl).1 (lookup_some h).1 hk
  rw [this] at hl; exact hl

end OV.C17
