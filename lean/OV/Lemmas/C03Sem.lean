import OV.Model.C03Pass
/-!
# Helper lemmas for C03/C04: environments, frame property of `evalGraph`

`mentionsG d g o` — syntactic occurrence of the name `o` anywhere in `g` (inputs, initializers,
node inputs/outputs, outputs, bodies up to depth `d`; conservative `true` below that).
Frame property: binding a name a graph does not mention cannot change what the graph computes.
-/
namespace OV.C03

variable {V : Type}

theorem Env.set_get_same (ρ : Env V) (x : Name) (v : V) : (ρ.set x v) x = some v := by
  simp [Env.set]

theorem Env.set_get_ne (ρ : Env V) {x y : Name} (v : V) (h : y ≠ x) : (ρ.set x v) y = ρ y := by
  simp [Env.set, h]

theorem Env.set_comm (ρ : Env V) {x y : Name} (v w : V) (h : x ≠ y) :
    (ρ.set x v).set y w = (ρ.set y w).set x v := by
  funext z
  simp only [Env.set]
  by_cases h1 : z = y <;> by_cases h2 : z = x <;> simp_all

/-! ### occurrence of a name -/

def mentionsN (mg : Graph → Name → Bool) (n : Node) (o : Name) : Bool :=
  n.inputs.contains (some o) || n.outputs.contains o || n.subs.any (fun s => mg s.2 o)

def mentionsG : Nat → Graph → Name → Bool
  | 0, _, _ => true
  | d + 1, g, o =>
    g.inputs.contains o || g.inits.any (fun p => p.1 == o) || g.outputs.contains o ||
      g.nodes.any (fun n => mentionsN (mentionsG d) n o)

/-! ### frame lemmas, one level -/

theorem lookupIn_set {ρ : Env V} {o : Name} {v : V} {x : Option Name} (h : x ≠ some o) :
    lookupIn (ρ.set o v) x = lookupIn ρ x := by
  cases x with
  | none => rfl
  | some y =>
    have : y ≠ o := fun e => h (by rw [e])
    simp [lookupIn, Env.set, this]

theorem lookupAll_set {ρ : Env V} {o : Name} {v : V} {xs : List (Option Name)}
    (h : xs.contains (some o) = false) : lookupAll (ρ.set o v) xs = lookupAll ρ xs := by
  induction xs with
  | nil => rfl
  | cons x xs ih =>
    simp only [List.contains_cons, Bool.or_eq_false_iff] at h
    have hx : x ≠ some o := by
      intro e; subst e; simp at h
    simp only [lookupAll, lookupIn_set hx, ih h.2]

theorem lookupOuts_set {ρ : Env V} {o : Name} {v : V} {xs : List Name}
    (h : xs.contains o = false) : lookupOuts (ρ.set o v) xs = lookupOuts ρ xs := by
  induction xs with
  | nil => rfl
  | cons x xs ih =>
    simp only [List.contains_cons, Bool.or_eq_false_iff] at h
    have hx : x ≠ o := by
      intro e; subst e; simp at h
    simp only [lookupOuts, Env.set_get_ne ρ v hx, ih h.2]

theorem bindOuts_set {o : Name} {v : V} : ∀ {xs : List Name} {vs : List V} {ρ : Env V},
    xs.contains o = false → bindOuts (ρ.set o v) xs vs = (bindOuts ρ xs vs).map (·.set o v)
  | [], [], _, _ => rfl
  | [], _ :: _, _, _ => rfl
  | _ :: _, [], _, _ => rfl
  | x :: xs, w :: ws, ρ, h => by
    simp only [List.contains_cons, Bool.or_eq_false_iff] at h
    have hx : o ≠ x := by
      intro e; subst e; simp at h
    simp only [bindOuts]
    rw [Env.set_comm ρ v w hx]
    exact bindOuts_set h.2

theorem bindInits_set (sem : Sem V) {o : Name} {v : V} : ∀ {l : List (Name × String)} {ρ : Env V},
    l.any (fun p => p.1 == o) = false → bindInits sem (ρ.set o v) l = (bindInits sem ρ l).set o v
  | [], _, _ => rfl
  | (x, t) :: r, ρ, h => by
    simp only [List.any_cons, Bool.or_eq_false_iff, beq_eq_false_iff_ne] at h
    simp only [bindInits]
    rw [Env.set_comm ρ v (sem.tensor t) (Ne.symm h.1)]
    exact bindInits_set sem h.2

theorem bindInputs_set {o : Name} {v : V} (hd : Name → Bool) : ∀ {xs : List Name} {as : List (Option V)} {ρ : Env V},
    xs.contains o = false → bindInputs hd (ρ.set o v) xs as = (bindInputs hd ρ xs as).map (·.set o v)
  | [], [], _, _ => rfl
  | [], _ :: _, _, _ => rfl
  | _ :: _, [], _, _ => rfl
  | x :: xs, some w :: as, ρ, h => by
    simp only [List.contains_cons, Bool.or_eq_false_iff] at h
    have hx : o ≠ x := by
      intro e; subst e; simp at h
    simp only [bindInputs]
    rw [Env.set_comm ρ v w hx]
    exact bindInputs_set hd h.2
  | x :: xs, none :: as, ρ, h => by
    simp only [List.contains_cons, Bool.or_eq_false_iff] at h
    simp only [bindInputs]
    split
    · exact bindInputs_set hd h.2
    · rfl

/-- A body evaluator is insensitive to `o` on the graphs of `n`. -/
def SubFrame (sub : Env V → Graph → List (Option V) → Option (List V)) (o : Name) (n : Node) : Prop :=
  ∀ (ρ : Env V) (v : V) (s : String × Graph), s ∈ n.subs → ∀ args, sub (ρ.set o v) s.2 args = sub ρ s.2 args

theorem find_mem {α} {p : α → Bool} {l : List α} {a : α} (h : l.find? p = some a) : a ∈ l :=
  List.mem_of_find?_eq_some h

theorem nodeOutputs_set (sem : Sem V) {sub} {o : Name} {n : Node} (hs : SubFrame sub o n)
    (ρ : Env V) (v : V) (args : List (Option V)) :
    nodeOutputs sem sub (ρ.set o v) n args = nodeOutputs sem sub ρ n args := by
  unfold nodeOutputs
  split
  · rfl
  · split
    · -- If
      cases hthen : n.sub "then_branch" with
      | none => simp
      | some t =>
        cases helse : n.sub "else_branch" with
        | none => simp
        | some e =>
          have ht : ∃ k, (k, t) ∈ n.subs := by
            unfold Node.sub at hthen
            cases hf : n.subs.find? (fun x => x.1 == "then_branch") with
            | none => simp [hf] at hthen
            | some p =>
              simp [hf] at hthen
              exact ⟨p.1, by have := find_mem hf; rw [← hthen]; exact this⟩
          have he : ∃ k, (k, e) ∈ n.subs := by
            unfold Node.sub at helse
            cases hf : n.subs.find? (fun x => x.1 == "else_branch") with
            | none => simp [hf] at helse
            | some p =>
              simp [hf] at helse
              exact ⟨p.1, by have := find_mem hf; rw [← helse]; exact this⟩
          obtain ⟨kt, hkt⟩ := ht
          obtain ⟨ke, hke⟩ := he
          rcases args with _ | ⟨a, _ | ⟨b, r⟩⟩
          · rfl
          · cases a with
            | none => rfl
            | some c =>
              simp only []
              cases sem.truth c with
              | none => rfl
              | some b =>
                simp only [Option.bind]
                cases b
                · exact hs ρ v (ke, e) hke []
                · exact hs ρ v (kt, t) hkt []
          · cases a <;> rfl
    · congr 1
      apply List.map_congr_left
      intro s hsmem
      funext vs
      exact hs ρ v s hsmem _

theorem evalNode_set (sem : Sem V) {sub} {o : Name} {n : Node}
    (hin : n.inputs.contains (some o) = false) (hout : n.outputs.contains o = false)
    (hs : SubFrame sub o n) (ρ : Env V) (v : V) :
    evalNode sem sub (ρ.set o v) n = (evalNode sem sub ρ n).map (·.set o v) := by
  unfold evalNode
  rw [lookupAll_set hin]
  cases lookupAll ρ n.inputs with
  | none => rfl
  | some args =>
    simp only [Option.bind]
    rw [nodeOutputs_set sem hs]
    cases nodeOutputs sem sub ρ n args with
    | none => rfl
    | some vs => exact bindOuts_set hout

theorem evalNodes_set (sem : Sem V) {sub} {o : Name} {v : V} : ∀ {ns : List Node} {ρ : Env V},
    (∀ n ∈ ns, n.inputs.contains (some o) = false ∧ n.outputs.contains o = false ∧ SubFrame sub o n) →
    evalNodes (evalNode sem sub) (ρ.set o v) ns = (evalNodes (evalNode sem sub) ρ ns).map (·.set o v)
  | [], _, _ => rfl
  | n :: ns, ρ, h => by
    have hn := h n (List.mem_cons_self)
    simp only [evalNodes]
    rw [evalNode_set sem hn.1 hn.2.1 hn.2.2]
    cases evalNode sem sub ρ n with
    | none => rfl
    | some ρ' =>
      simp only [Option.map, Option.bind]
      exact evalNodes_set sem (fun m hm => h m (List.mem_cons_of_mem _ hm))

/-! ### frame property of `evalGraph` at every depth -/

theorem evalGraph_frame (sem : Sem V) : ∀ (d : Nat) (g : Graph) (o : Name) (ρ : Env V) (v : V) (args : List (Option V)),
    mentionsG d g o = false → evalGraph sem d (ρ.set o v) g args = evalGraph sem d ρ g args
  | 0, _, _, _, _, _, _ => rfl
  | d + 1, g, o, ρ, v, args, h => by
    simp only [mentionsG, Bool.or_eq_false_iff] at h
    obtain ⟨⟨⟨hin, hinit⟩, hout⟩, hnodes⟩ := h
    have hstart : startEnv sem (ρ.set o v) g args = (startEnv sem ρ g args).map (·.set o v) := by
      unfold startEnv
      rw [bindInits_set sem hinit]
      exact bindInputs_set _ hin
    simp only [evalGraph, hstart]
    cases startEnv sem ρ g args with
    | none => rfl
    | some ρ0 =>
      simp only [Option.map, Option.bind]
      have hall : ∀ n ∈ g.nodes, n.inputs.contains (some o) = false ∧ n.outputs.contains o = false ∧
          SubFrame (evalGraph sem d) o n := by
        intro n hn
        have := List.any_eq_false.mp hnodes n hn
        simp only [mentionsN, Bool.not_eq_true, Bool.or_eq_false_iff] at this
        refine ⟨this.1.1, this.1.2, ?_⟩
        intro ρ' v' s hsmem args'
        have hsub := List.any_eq_false.mp this.2 s hsmem
        simp only [Bool.not_eq_true] at hsub
        exact evalGraph_frame sem d s.2 o ρ' v' args' hsub
      rw [evalNodes_set sem hall]
      cases evalNodes (evalNode sem (evalGraph sem d)) ρ0 g.nodes with
      | none => rfl
      | some ρ1 =>
        simp only [Option.map, Option.bind]
        exact lookupOuts_set hout

/-- What non-occurrence gives for one node of a graph evaluated at depth `d + 1`. -/
theorem subFrame_of_mentions (sem : Sem V) (d : Nat) (o : Name) (n : Node)
    (h : mentionsN (mentionsG d) n o = false) :
    n.inputs.contains (some o) = false ∧ n.outputs.contains o = false ∧ SubFrame (evalGraph sem d) o n := by
  simp only [mentionsN, Bool.or_eq_false_iff] at h
  refine ⟨h.1.1, h.1.2, ?_⟩
  intro ρ' v' s hsmem args'
  have hsub := List.any_eq_false.mp h.2 s hsmem
  simp only [Bool.not_eq_true] at hsub
  exact evalGraph_frame sem d s.2 o ρ' v' args' hsub

end OV.C03
