import OV.Model.C16Bind
/-!
Helper lemmas for `OV.Props.C16`: closed forms of the two binders, facts extracted from `bindsOk`,
the regex language, invariants of the registry state machine.
-/
namespace OV.C16

/-! ### `slots` / `bindS` -/

theorem slots_length (npos : Nat) (kws : List String) (k : Nat) (ps : List OParam) :
    (slots npos kws k ps).length = ps.length := by
  induction ps generalizing k with
  | nil => rfl
  | cons p ps ih => simp [slots, ih]

theorem slots_getElem? (npos : Nat) (kws : List String) (k : Nat) (ps : List OParam) (j : Nat) :
    (slots npos kws k ps)[j]? = (ps[j]?).map (slot npos kws (k + j)) := by
  induction ps generalizing k j with
  | nil => simp [slots]
  | cons p ps ih =>
    cases j with
    | zero => simp [slots]
    | succ j =>
      simp only [slots, List.getElem?_cons_succ, ih]
      have : k + 1 + j = k + (j + 1) := by omega
      rw [this]

/-- The loop of `_construct_named_inputs_and_attrs` raises nothing exactly when every required
parameter beyond the positionals has its keyword; then its result is `slots`. -/
theorem bindS_eq_slots (npos : Nat) (kws : List String) (k : Nat) (ps : List OParam)
    (h : ∀ j p, ps[j]? = some p → p.required = true → (slot npos kws (k + j) p).isSome = true) :
    bindS npos kws k ps = .ok (slots npos kws k ps) := by
  induction ps generalizing k with
  | nil => rfl
  | cons p ps ih =>
    have hrest : bindS npos kws (k + 1) ps = .ok (slots npos kws (k + 1) ps) := by
      apply ih
      intro j q hq hr
      have := h (j + 1) q (by simpa using hq) hr
      have e : k + 1 + j = k + (j + 1) := by omega
      rw [e]; exact this
    have h0 := h 0 p (by simp)
    simp only [slot, Nat.add_zero] at h0
    simp only [bindS, slots, slot]
    by_cases c1 : k < npos
    · simp only [c1, if_true, hrest, Except.map]
    · by_cases c2 : kws.contains p.name = true
      · simp only [c1, c2, if_true, if_false, hrest, Except.map]
      · by_cases c3 : p.required = true
        · have := h0 c3
          rw [if_neg c1, if_neg c2] at this
          exact absurd this (by simp)
        · simp only [c1, c2, c3, if_false, hrest, Except.map]
          rfl

/-! ### facts carried by `bindsOk` -/

theorem bindsOk_clause {m : Mode} {a : AtenSchema} {s : OsSig} (h : bindsOk m a s = true) (c : Clause) :
    clauseOk m a s c = true := by
  unfold bindsOk at h
  rw [List.all_eq_true] at h
  apply h
  cases c <;> simp [Clause.all]

theorem failing_nil_iff (m : Mode) (a : AtenSchema) (s : OsSig) :
    failing m a s = [] ↔ bindsOk m a s = true := by
  unfold failing bindsOk
  rw [List.filter_eq_nil_iff, List.all_eq_true]
  constructor
  · intro h c hc
    have := h c hc
    cases hv : clauseOk m a s c <;> simp [hv] at this ⊢
  · intro h c hc
    simp [h c hc]

theorem mustSupply_lt {a : AtenSchema} {c : Call} (hc : Conforms a c) {j : Nat}
    (h : mustSupply a j = true) : j < c.npos := by
  unfold mustSupply at h
  rw [List.any_eq_true] at h
  obtain ⟨x, hx, hd⟩ := h
  obtain ⟨i, hi⟩ := List.mem_iff_getElem?.mp hx
  rw [List.getElem?_drop] at hi
  have := hc.required_pos (j + i) x hi (by simpa using hd)
  omega

/-- Under `requiredBound`, every required parameter gets a value in every conforming call. -/
theorem required_slot_some {m : Mode} {a : AtenSchema} {s : OsSig} (h : bindsOk m a s = true)
    {c : Call} (hc : Conforms a c) {j : Nat} {p : OParam} (hp : s[j]? = some p)
    (hr : p.required = true) : (slot c.npos c.kws j p).isSome = true := by
  have hcl := bindsOk_clause h .requiredBound
  simp only [clauseOk] at hcl
  rw [List.all_eq_true] at hcl
  have hmem : (p, j) ∈ s.zipIdx := List.mem_zipIdx_iff_getElem?.mpr hp
  have := hcl (p, j) hmem
  simp only [hr, Bool.not_true, Bool.false_or, Bool.or_eq_true, Bool.and_eq_true, decide_eq_true_eq,
    List.any_eq_true, beq_iff_eq, Bool.not_eq_true'] at this
  unfold slot
  rcases this with hms | ⟨_, x, hx, hxn⟩
  · have := mustSupply_lt hc hms
    simp [this]
  · by_cases c1 : j < c.npos
    · simp [c1]
    · have hk := hc.required_kw x hx hxn.2
      rw [hxn.1] at hk
      simp [c1, hk]

/-! ### the regex language -/

theorem takeWhile_all {α} (p : α → Bool) (l : List α) : ∀ x ∈ l.takeWhile p, p x = true := by
  induction l with
  | nil => simp
  | cons a l ih =>
    intro x hx
    simp only [List.takeWhile_cons] at hx
    by_cases h : p a = true
    · simp only [h, if_true, List.mem_cons] at hx
      rcases hx with rfl | hx
      · exact h
      · exact ih x hx
    · simp [h] at hx

/-! ### cheap duplicate check -/

theorem memN_of_mem (k : Nat) (l : List Nat) (h : k ∈ l) : memN k l = true := by
  induction l with
  | nil => cases h
  | cons x xs ih =>
    simp only [memN, Bool.or_eq_true]
    rcases List.mem_cons.mp h with rfl | hm
    · left; exact Nat.beq_refl k
    · right; exact ih hm

theorem nodupN_sound (l : List Nat) (h : nodupN l = true) : l.Nodup := by
  induction l with
  | nil => simp
  | cons k ks ih =>
    simp only [nodupN, Bool.and_eq_true, Bool.not_eq_true'] at h
    rw [List.nodup_cons]
    refine ⟨?_, ih h.2⟩
    intro hm
    have := memN_of_mem k ks hm
    rw [this] at h
    exact absurd h.1 (by decide)

theorem nodup_of_map {α β} (f : α → β) (l : List α) (h : (l.map f).Nodup) : l.Nodup := by
  induction l with
  | nil => simp
  | cons a l ih =>
    simp only [List.map_cons, List.nodup_cons] at h ⊢
    exact ⟨fun hm => h.1 (List.mem_map_of_mem hm), ih h.2⟩

/-- Distinct numbers ⇒ distinct keys (no injectivity of the numbering is needed in this direction). -/
theorem nodup_of_nodupN_natKey (l : List (List Nat × Bool)) (h : nodupN (l.map natKey) = true) :
    l.Nodup := nodup_of_map natKey l (nodupN_sound _ h)

/-! ### registry invariants -/

/-- Every record holds at most one function per kind. -/
def AtMostOne (r : Reg) : Prop := ∀ o ∈ r, o.overloads.length ≤ 1 ∧ o.complex.length ≤ 1

theorem addTo_atMostOne (o : Overloaded) (f : Nat) (cx : Bool)
    (h : o.overloads.length ≤ 1 ∧ o.complex.length ≤ 1) :
    (addTo o f cx).overloads.length ≤ 1 ∧ (addTo o f cx).complex.length ≤ 1 := by
  unfold addTo
  cases cx
  · by_cases e : o.overloads.isEmpty = true
    · have : o.overloads = [] := List.isEmpty_iff.mp e
      simp [e, this, h.2]
    · simp [e, h]
  · by_cases e : o.complex.isEmpty = true
    · have : o.complex = [] := List.isEmpty_iff.mp e
      simp [e, this, h.1]
    · simp [e, h]

theorem addTo_name (o : Overloaded) (f : Nat) (cx : Bool) : (addTo o f cx).name = o.name := by
  unfold addTo
  cases cx <;> simp <;> split <;> rfl

theorem register_atMostOne (r : Reg) (x : Registration) (h : AtMostOne r) : AtMostOne (register r x) := by
  induction r with
  | nil =>
    intro o ho
    simp only [register, List.mem_singleton] at ho
    subst ho
    exact addTo_atMostOne _ _ _ (by simp)
  | cons o os ih =>
    simp only [register]
    by_cases e : (o.name == x.name) = true
    · simp only [e, if_true]
      intro o' ho'
      rcases List.mem_cons.mp ho' with rfl | hm
      · exact addTo_atMostOne _ _ _ (h o (by simp))
      · exact h o' (by simp [hm])
    · simp only [e]
      intro o' ho'
      rcases List.mem_cons.mp ho' with rfl | hm
      · exact h _ (by simp)
      · exact ih (fun q hq => h q (by simp [hq])) o' hm

theorem register_names (r : Reg) (x : Registration) :
    (register r x).map (·.name) = if x.name ∈ r.map (·.name) then r.map (·.name) else r.map (·.name) ++ [x.name] := by
  induction r with
  | nil => simp [register, addTo_name]
  | cons o os ih =>
    simp only [register]
    by_cases e : (o.name == x.name) = true
    · have e' : o.name = x.name := by simpa using e
      simp [e, addTo_name, e']
    · have e' : ¬ o.name = x.name := by simpa using e
      have e'' : ¬ x.name = o.name := fun h => e' h.symm
      rw [if_neg e]
      simp only [List.map_cons, ih, List.mem_cons, e'', false_or]
      by_cases hm : x.name ∈ List.map (fun x => x.name) os
      · simp only [hm, if_true]
      · simp only [hm, if_false, List.cons_append]

theorem register_nodup (r : Reg) (x : Registration) (h : (r.map (·.name)).Nodup) :
    ((register r x).map (·.name)).Nodup := by
  rw [register_names]
  split
  · exact h
  · rename_i hn
    rw [List.nodup_append]
    refine ⟨h, by simp, ?_⟩
    intro a ha b hb
    simp only [List.mem_singleton] at hb
    subst hb
    intro hab
    exact hn (hab ▸ ha)

end OV.C16
