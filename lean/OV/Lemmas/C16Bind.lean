import OV.Model.C16Bind
/-!
Helper lemmas for `OV.Props.C16`: closed forms of the two binders, facts extracted from `bindsOk`,
the regex language, invariants of the registry state machine.
-/
namespace OV.C16

/-! ### `slots` / `bindS` -/

theorem slots_length (npos : Nat) (kws : List String) (k : Nat) (ps : List OParam) :
    (slots npos kws k ps).length = ps.length := by
  induction ps generalizing k with
  | nil => rfl
  | cons p ps ih => simp [slots, ih]

theorem slots_getElem? (npos : Nat) (kws : List String) (k : Nat) (ps : List OParam) (j : Nat) :
    (slots npos kws k ps)[j]? = (ps[j]?).map (slot npos kws (k + j)) := by
  induction ps generalizing k j with
  | nil => simp [slots]
  | cons p ps ih =>
    cases j with
    | zero => simp [slots]
    | succ j =>
      simp only [slots, List.getElem?_cons_succ, ih]
      have : k + 1 + j = k + (j + 1) := by omega
      rw [this]

/-- The loop of `_construct_named_inputs_and_attrs` raises nothing exactly when every required
parameter beyond the positionals has its keyword; then its result is `slots`. -/
theorem bindS_eq_slots (npos : Nat) (kws : List String) (k : Nat) (ps : List OParam)
    (h : ∀ j p, ps[j]? = some p → p.required = true → (slot npos kws (k + j) p).isSome = true) :
    bindS npos kws k ps = .ok (slots npos kws k ps) := by
  induction ps generalizing k with
  | nil => rfl
  | cons p ps ih =>
    have hrest : bindS npos kws (k + 1) ps = .ok (slots npos kws (k + 1) ps) := by
      apply ih
      intro j q hq hr
      have := h (j + 1) q (by simpa using hq) hr
      have e : k + 1 + j = k + (j + 1) := by omega
      rw [e]; exact this
    have h0 := h 0 p (by simp)
    simp only [slot, Nat.add_zero] at h0
    simp only [bindS, slots, slot]
    by_cases c1 : k < npos
    · simp only [c1, if_true, hrest, Except.map]
    · by_cases c2 : kws.contains p.name = true
      · simp only [c1, c2, if_true, if_false, hrest, Except.map]
      · by_cases c3 : p.required = true
        · have := h0 c3
          rw [if_neg c1, if_neg c2] at this
          exact absurd this (by simp)
        · simp only [c1, c2, c3, if_false, hrest, Except.map]
          rfl

/-- a value agrees with itself (judged or not) -/
theorem dvAgree_self (u : DVal) : dvAgree u u = true := by simp [dvAgree]

/-! ### facts carried by `bindsOk` -/

theorem bindsOk_clause {m : Mode} {a : AtenSchema} {s : OsSig} (h : bindsOk m a s = true) (c : Clause) :
    clauseOk m a s c = true := by
  unfold bindsOk at h
  rw [List.all_eq_true] at h
  apply h
  cases c <;> simp [Clause.all]

theorem failing_nil_iff (m : Mode) (a : AtenSchema) (s : OsSig) :
    failing m a s = [] ↔ bindsOk m a s = true := by
  unfold failing bindsOk
  rw [List.filter_eq_nil_iff, List.all_eq_true]
  constructor
  · intro h c hc
    have := h c hc
    cases hv : clauseOk m a s c <;> simp [hv] at this ⊢
  · intro h c hc
    simp [h c hc]

theorem mustSupply_lt {a : AtenSchema} {c : Call} (hc : Conforms a c) {j : Nat}
    (h : mustSupply a j = true) : j < c.npos := by
  unfold mustSupply at h
  rw [List.any_eq_true] at h
  obtain ⟨x, hx, hd⟩ := h
  obtain ⟨i, hi⟩ := List.mem_iff_getElem?.mp hx
  rw [List.getElem?_drop] at hi
  have := hc.required_pos (j + i) x hi (by simpa using hd)
  omega

/-- Under `requiredBound`, every required parameter gets a value in every conforming call. -/
theorem required_slot_some {m : Mode} {a : AtenSchema} {s : OsSig} (h : bindsOk m a s = true)
    {c : Call} (hc : Conforms a c) {j : Nat} {p : OParam} (hp : s[j]? = some p)
    (hr : p.required = true) : (slot c.npos c.kws j p).isSome = true := by
  have hcl := bindsOk_clause h .requiredBound
  simp only [clauseOk] at hcl
  rw [List.all_eq_true] at hcl
  have hmem : (p, j) ∈ s.zipIdx := List.mem_zipIdx_iff_getElem?.mpr hp
  have := hcl (p, j) hmem
  simp only [hr, Bool.not_true, Bool.false_or, Bool.or_eq_true, Bool.and_eq_true, decide_eq_true_eq,
    List.any_eq_true, beq_iff_eq, Bool.not_eq_true'] at this
  unfold slot
  rcases this with hms | ⟨_, x, hx, hxn⟩
  · have := mustSupply_lt hc hms
    simp [this]
  · by_cases c1 : j < c.npos
    · simp [c1]
    · have hk := hc.required_kw x hx hxn.2
      rw [hxn.1] at hk
      simp [c1, hk]


/-! ### converse closed form, extreme calls (for the tightness theorem) -/

theorem bindS_ok_eq_slots (npos : Nat) (kws : List String) (k : Nat) (ps : List OParam) (b : Binding)
    (h : bindS npos kws k ps = .ok b) : b = slots npos kws k ps := by
  induction ps generalizing k b with
  | nil => simp only [bindS, Except.ok.injEq] at h; simp [slots, ← h]
  | cons p ps ih =>
    unfold bindS at h
    unfold slots slot
    by_cases c1 : k < npos
    · rw [if_pos c1] at h ⊢
      cases hr : bindS npos kws (k + 1) ps with
      | error e => rw [hr] at h; cases h
      | ok b' =>
        rw [hr] at h
        simp only [Except.map, Except.ok.injEq] at h
        rw [← h, ih (k + 1) b' hr]
    · rw [if_neg c1] at h ⊢
      by_cases c2 : kws.contains p.name = true
      · rw [if_pos c2] at h ⊢
        cases hr : bindS npos kws (k + 1) ps with
        | error e => rw [hr] at h; cases h
        | ok b' =>
          rw [hr] at h
          simp only [Except.map, Except.ok.injEq] at h
          rw [← h, ih (k + 1) b' hr]
      · rw [if_neg c2] at h ⊢
        by_cases c3 : p.required = true
        · rw [if_pos c3] at h; cases h
        · rw [if_neg c3] at h
          cases hr : bindS npos kws (k + 1) ps with
          | error e => rw [hr] at h; cases h
          | ok b' =>
            rw [hr] at h
            simp only [Except.map, Except.ok.injEq] at h
            rw [← h, ih (k + 1) b' hr]

/-- What a successful Python call guarantees (the four `TypeError` guards were all false). -/
theorem bindT_ok_facts (s : OsSig) (c : Call) (b : Binding) (h : bindT s c = .ok b) :
    ¬ s.length < c.npos ∧
    (∀ n, n ∈ c.kws → s.any (fun q => q.name == n) = true) ∧
    b = slots c.npos c.kws 0 s := by
  unfold bindT at h
  by_cases g1 : s.length < c.npos
  · simp [g1] at h
  · rw [if_neg g1] at h
    by_cases g2 : c.kws.any (fun n => !(s.any (fun q => q.name == n))) = true
    · simp [g2] at h
    · rw [if_neg g2] at h
      refine ⟨g1, ?_, ?_⟩
      · intro n hn
        cases hv : s.any (fun q => q.name == n) with
        | true => rfl
        | false =>
          exfalso; apply g2
          rw [List.any_eq_true]
          exact ⟨n, hn, by simp [hv]⟩
      · split at h
        · cases h
        · split at h
          · cases h
          · simp only [Except.ok.injEq] at h; exact h.symm

theorem bind_ok_eq_slots (m : Mode) (s : OsSig) (c : Call) (b : Binding) (h : bind m s c = .ok b) :
    b = slots c.npos c.kws 0 s := by
  cases m with
  | scripted => exact bindS_ok_eq_slots _ _ _ _ _ h
  | traced => exact (bindT_ok_facts s c b h).2.2

theorem mustSupply_iff (l : List AArg) (j : Nat) :
    (l.drop j).any (fun x => !x.hasDefault) = true ↔ j < nreqPos l := by
  induction l generalizing j with
  | nil => simp [nreqPos]
  | cons x xs ih =>
    have h0 : xs.any (fun x => !x.hasDefault) = true ↔ 0 < nreqPos xs := by
      have := ih 0; simpa using this
    cases j with
    | zero =>
      simp only [List.drop_zero, List.any_cons, Bool.or_eq_true]
      rw [nreqPos]
      split
      · rename_i hc
        simp only [Bool.or_eq_true, decide_eq_true_eq] at hc
        constructor
        · intro _; omega
        · intro _
          rcases hc with hc | hc
          · left; exact hc
          · right; exact h0.mpr hc
      · rename_i hc
        constructor
        · intro h
          exfalso; apply hc
          rcases h with h | h
          · simp [h]
          · simp [h0.mp h]
        · intro h; omega
    | succ j =>
      simp only [List.drop_succ_cons]
      rw [ih j, nreqPos]
      split
      · omega
      · rename_i hc
        simp only [Bool.or_eq_true, decide_eq_true_eq, not_or] at hc
        omega

theorem nreqPos_le (l : List AArg) : nreqPos l ≤ l.length := by
  induction l with
  | nil => simp [nreqPos]
  | cons x xs ih =>
    simp only [nreqPos, List.length_cons]
    split <;> omega

theorem conforms_maxCall (a : AtenSchema) : Conforms a (maxCall a) := by
  refine ⟨Nat.le_refl _, ?_, ?_, ?_⟩
  · intro i arg hi _
    exact (List.getElem?_eq_some_iff.mp hi).1
  · intro n hn
    simp only [maxCall, List.mem_map] at hn
    exact hn
  · intro arg harg _
    simp only [maxCall, List.mem_map]
    exact ⟨arg, harg, rfl⟩

theorem conforms_minCall (a : AtenSchema) : Conforms a (minCall a) := by
  refine ⟨nreqPos_le _, ?_, ?_, ?_⟩
  · intro i arg hi hd
    apply (mustSupply_iff a.positional i).mp
    rw [List.any_eq_true]
    refine ⟨arg, ?_, by simp [hd]⟩
    rw [List.mem_iff_getElem?]
    exact ⟨0, by rw [List.getElem?_drop]; simpa using hi⟩
  · intro n hn
    simp only [minCall, List.mem_map, List.mem_filter] at hn
    obtain ⟨arg, ⟨harg, _⟩, hn⟩ := hn
    exact ⟨arg, harg, hn⟩
  · intro arg harg hd
    simp only [minCall, List.mem_map, List.mem_filter]
    exact ⟨arg, ⟨harg, by simp [hd]⟩, rfl⟩

/-- Distinct parameter names: a name determines the index. -/
theorem index_of_name {s : OsSig} (hnd : (s.map (·.name)).Nodup) {j j' : Nat} {q p : OParam}
    (hq : s[j]? = some q) (hp : s[j']? = some p) (hn : q.name = p.name) : j = j' := by
  have hj : j < (s.map (·.name)).length := by
    rw [List.length_map]; exact (List.getElem?_eq_some_iff.mp hq).1
  apply (List.getElem?_inj hj hnd).mp
  rw [List.getElem?_map, List.getElem?_map, hq, hp]
  simp [hn]


/-- Distinct schema argument names: a positional argument's name determines its index. -/
theorem pos_index_of_name {a : AtenSchema} (hnd : ((a.positional ++ a.kwonly).map (·.name)).Nodup)
    {i j : Nat} {x y : AArg} (hx : a.positional[i]? = some x) (hy : a.positional[j]? = some y)
    (hn : x.name = y.name) : i = j := by
  have hi : i < a.positional.length := (List.getElem?_eq_some_iff.mp hx).1
  have hj : j < a.positional.length := (List.getElem?_eq_some_iff.mp hy).1
  have hlen : i < ((a.positional ++ a.kwonly).map (·.name)).length := by
    rw [List.length_map, List.length_append]; omega
  apply (List.getElem?_inj hlen hnd).mp
  rw [List.getElem?_map, List.getElem?_map, List.getElem?_append_left hi, List.getElem?_append_left hj, hx, hy]
  simp [hn]


theorem kReasons_nil_iff (m : Mode) (a : AtenSchema) (s : OsSig) :
    kReasons m a s = [] ↔ bindsOkK m a s = true := by
  unfold kReasons bindsOkK
  cases bindsOk m a s <;> cases posNamed a s <;> cases requiredOwn a s <;>
    cases nodupS (s.map (·.name)) <;> cases nodupS ((a.positional ++ a.kwonly).map (·.name)) <;> simp

theorem bindsOk_false_clause {m : Mode} {a : AtenSchema} {s : OsSig} (h : bindsOk m a s = false) :
    ∃ c, clauseOk m a s c = false := by
  unfold bindsOk at h
  rw [List.all_eq_false] at h
  obtain ⟨c, _, hc⟩ := h
  exact ⟨c, by simpa using hc⟩

/-! ### the regex language -/

theorem takeWhile_all {α} (p : α → Bool) (l : List α) : ∀ x ∈ l.takeWhile p, p x = true := by
  induction l with
  | nil => simp
  | cons a l ih =>
    intro x hx
    simp only [List.takeWhile_cons] at hx
    by_cases h : p a = true
    · simp only [h, if_true, List.mem_cons] at hx
      rcases hx with rfl | hx
      · exact h
      · exact ih x hx
    · simp [h] at hx


/-! ### resolution of names -/

theorem takeWhile_append_stop {α} (p : α → Bool) (l r : List α) (y : α)
    (hl : ∀ x ∈ l, p x = true) (hy : p y = false) : (l ++ y :: r).takeWhile p = l := by
  induction l with
  | nil => simp [List.takeWhile_cons, hy]
  | cons a l ih =>
    have ha := hl a (by simp)
    simp only [List.cons_append, List.takeWhile_cons, ha, if_true]
    rw [ih (fun x hx => hl x (by simp [hx]))]

theorem dropWhile_append_stop {α} (p : α → Bool) (l r : List α) (y : α)
    (hl : ∀ x ∈ l, p x = true) (hy : p y = false) : (l ++ y :: r).dropWhile p = y :: r := by
  induction l with
  | nil => simp [List.dropWhile_cons, hy]
  | cons a l ih =>
    have ha := hl a (by simp)
    simp only [List.cons_append, List.dropWhile_cons, ha, if_true]
    exact ih (fun x hx => hl x (by simp [hx]))

theorem takeWhile_all_true {α} (p : α → Bool) (l : List α) (hl : ∀ x ∈ l, p x = true) :
    l.takeWhile p = l ∧ l.dropWhile p = [] := by
  induction l with
  | nil => simp
  | cons a l ih =>
    have ha := hl a (by simp)
    have := ih (fun x hx => hl x (by simp [hx]))
    simp [List.takeWhile_cons, List.dropWhile_cons, ha, this]

theorem isWord_ne (c : Nat) (h : isWord c = true) : c ≠ 58 ∧ c ≠ 46 := by
  unfold isWord at h
  simp only [Bool.or_eq_true, Bool.and_eq_true, decide_eq_true_eq, beq_iff_eq] at h
  omega

/-- `resolveKey` on a name of the regex's shape. -/
theorem resolveKey_shape (ns nm ov : List Nat)
    (hns : ∀ c ∈ ns, isWord c = true) (hnm : ∀ c ∈ nm, isWord c = true)
    (hov : ov = [] ∨ ∃ t, ov = 46 :: t) :
    resolveKey (ns ++ (58 :: 58 :: (nm ++ ov))) =
      ⟨ns, nm, match ov with | [] => defaultCodes | _ :: t => t⟩ := by
  have h58 : ∀ x ∈ ns, (x != 58) = true := fun x hx => by simp [(isWord_ne x (hns x hx)).1]
  have h46 : ∀ x ∈ nm, (x != 46) = true := fun x hx => by simp [(isWord_ne x (hnm x hx)).2]
  unfold resolveKey
  rw [takeWhile_append_stop _ ns _ 58 h58 (by decide), dropWhile_append_stop _ ns _ 58 h58 (by decide)]
  simp only [List.drop_succ_cons, List.drop_zero]
  rcases hov with rfl | ⟨t, rfl⟩
  · have := takeWhile_all_true _ nm h46
    simp [this.1, this.2]
  · rw [takeWhile_append_stop _ nm t 46 h46 (by decide), dropWhile_append_stop _ nm t 46 h46 (by decide)]

/-! ### cheap duplicate check -/

theorem nodupS_sound (l : List String) (h : nodupS l = true) : l.Nodup := by
  induction l with
  | nil => simp
  | cons k ks ih =>
    simp only [nodupS, Bool.and_eq_true, Bool.not_eq_true'] at h
    rw [List.nodup_cons]
    refine ⟨?_, ih h.2⟩
    intro hm
    have := List.contains_iff_mem.mpr hm
    rw [this] at h
    exact absurd h.1 (by decide)


theorem memN_of_mem (k : Nat) (l : List Nat) (h : k ∈ l) : memN k l = true := by
  induction l with
  | nil => cases h
  | cons x xs ih =>
    simp only [memN, Bool.or_eq_true]
    rcases List.mem_cons.mp h with rfl | hm
    · left; exact Nat.beq_refl k
    · right; exact ih hm

theorem nodupN_sound (l : List Nat) (h : nodupN l = true) : l.Nodup := by
  induction l with
  | nil => simp
  | cons k ks ih =>
    simp only [nodupN, Bool.and_eq_true, Bool.not_eq_true'] at h
    rw [List.nodup_cons]
    refine ⟨?_, ih h.2⟩
    intro hm
    have := memN_of_mem k ks hm
    rw [this] at h
    exact absurd h.1 (by decide)

theorem nodup_of_map {α β} (f : α → β) (l : List α) (h : (l.map f).Nodup) : l.Nodup := by
  induction l with
  | nil => simp
  | cons a l ih =>
    simp only [List.map_cons, List.nodup_cons] at h ⊢
    exact ⟨fun hm => h.1 (List.mem_map_of_mem hm), ih h.2⟩

/-- Distinct numbers ⇒ distinct keys (no injectivity of the numbering is needed in this direction). -/
theorem nodup_of_nodupN_natKey (l : List (List Nat × Bool)) (h : nodupN (l.map natKey) = true) :
    l.Nodup := nodup_of_map natKey l (nodupN_sound _ h)

/-! ### registry invariants -/

/-- Every record holds at most one function per kind. -/
def AtMostOne (r : Reg) : Prop := ∀ o ∈ r, o.overloads.length ≤ 1 ∧ o.complex.length ≤ 1

theorem addTo_atMostOne (o : Overloaded) (f : Nat) (cx : Bool)
    (h : o.overloads.length ≤ 1 ∧ o.complex.length ≤ 1) :
    (addTo o f cx).overloads.length ≤ 1 ∧ (addTo o f cx).complex.length ≤ 1 := by
  unfold addTo
  cases cx
  · by_cases e : o.overloads.isEmpty = true
    · have : o.overloads = [] := List.isEmpty_iff.mp e
      simp [e, this, h.2]
    · simp [e, h]
  · by_cases e : o.complex.isEmpty = true
    · have : o.complex = [] := List.isEmpty_iff.mp e
      simp [e, this, h.1]
    · simp [e, h]

theorem addTo_name (o : Overloaded) (f : Nat) (cx : Bool) : (addTo o f cx).name = o.name := by
  unfold addTo
  cases cx <;> simp <;> split <;> rfl

theorem register_atMostOne (r : Reg) (x : Registration) (h : AtMostOne r) : AtMostOne (register r x) := by
  induction r with
  | nil =>
    intro o ho
    simp only [register, List.mem_singleton] at ho
    subst ho
    exact addTo_atMostOne _ _ _ (by simp)
  | cons o os ih =>
    simp only [register]
    by_cases e : (o.name == x.name) = true
    · simp only [e, if_true]
      intro o' ho'
      rcases List.mem_cons.mp ho' with rfl | hm
      · exact addTo_atMostOne _ _ _ (h o (by simp))
      · exact h o' (by simp [hm])
    · simp only [e]
      intro o' ho'
      rcases List.mem_cons.mp ho' with rfl | hm
      · exact h _ (by simp)
      · exact ih (fun q hq => h q (by simp [hq])) o' hm

theorem register_names (r : Reg) (x : Registration) :
    (register r x).map (·.name) = if x.name ∈ r.map (·.name) then r.map (·.name) else r.map (·.name) ++ [x.name] := by
  induction r with
  | nil => simp [register, addTo_name]
  | cons o os ih =>
    simp only [register]
    by_cases e : (o.name == x.name) = true
    · have e' : o.name = x.name := by simpa using e
      simp [e, addTo_name, e']
    · have e' : ¬ o.name = x.name := by simpa using e
      have e'' : ¬ x.name = o.name := fun h => e' h.symm
      rw [if_neg e]
      simp only [List.map_cons, ih, List.mem_cons, e'', false_or]
      by_cases hm : x.name ∈ List.map (fun x => x.name) os
      · simp only [hm, if_true]
      · simp only [hm, if_false, List.cons_append]

theorem register_nodup (r : Reg) (x : Registration) (h : (r.map (·.name)).Nodup) :
    ((register r x).map (·.name)).Nodup := by
  rw [register_names]
  split
  · exact h
  · rename_i hn
    rw [List.nodup_append]
    refine ⟨h, by simp, ?_⟩
    intro a ha b hb
    simp only [List.mem_singleton] at hb
    subst hb
    intro hab
    exact hn (hab ▸ ha)

end OV.C16

namespace OV.C16



/-! ### the decorator: registries contain only checked names -/

/-- Invariant of every registry built through `torch_op`. -/
def RegInv (r : Reg) : Prop :=
  AtMostOne r ∧ (r.map (·.name)).Nodup ∧ ∀ n ∈ r.map (·.name), nameOk n = true

theorem register_inv (r : Reg) (x : Registration) (h : RegInv r) (hx : nameOk x.name = true) :
    RegInv (register r x) := by
  refine ⟨register_atMostOne r x h.1, register_nodup r x h.2.1, ?_⟩
  rw [register_names]
  split
  · exact h.2.2
  · intro n hn
    rcases List.mem_append.mp hn with hn | hn
    · exact h.2.2 n hn
    · simp only [List.mem_singleton] at hn
      rw [hn]; exact hx

theorem foldl_register_inv (f : Nat) (cx : Bool) (names : List String) (r : Reg) (h : RegInv r)
    (hn : ∀ n ∈ names, nameOk n = true) :
    RegInv (names.foldl (fun r n => register r ⟨f, n, cx⟩) r) := by
  induction names generalizing r with
  | nil => exact h
  | cons n ns ih =>
    simp only [List.foldl_cons]
    apply ih
    · exact register_inv r ⟨f, n, cx⟩ h (hn n (by simp))
    · intro m hm; exact hn m (by simp [hm])

theorem torchOp_inv (r r' : Reg) (d : Decl) (h : RegInv r) (ht : torchOp r d = some r') : RegInv r' := by
  unfold torchOp at ht
  by_cases hall : d.names.all nameOk = true
  · rw [if_pos hall] at ht
    simp only [Option.some.injEq] at ht
    subst ht
    by_cases hp : d.isPrivate = true
    · simp only [hp, if_true]; exact h
    · simp only [hp]
      exact foldl_register_inv _ _ _ r h (fun n hn => (List.all_eq_true.mp hall) n hn)
  · rw [if_neg hall] at ht; cases ht

theorem runDecls_inv (ds : List Decl) (r r' : Reg) (h : RegInv r) (hr : runDecls r ds = some r') : RegInv r' := by
  induction ds generalizing r with
  | nil => simp only [runDecls, Option.some.injEq] at hr; subst hr; exact h
  | cons d ds ih =>
    simp only [runDecls] at hr
    cases ht : torchOp r d with
    | none => rw [ht] at hr; cases hr
    | some r1 =>
      rw [ht] at hr
      exact ih r1 (torchOp_inv r r1 d h ht) hr


/-! ### kind discipline: which functions can sit in a real slot -/

theorem addTo_overloads_mem (o : Overloaded) (f : Nat) (cx : Bool) (g : Nat)
    (h : g ∈ (addTo o f cx).overloads) : g ∈ o.overloads ∨ (g = f ∧ cx = false) := by
  unfold addTo at h
  cases cx
  · simp only [Bool.false_eq_true, if_false] at h
    split at h
    · simp only [List.mem_append, List.mem_singleton] at h
      rcases h with h | h
      · exact Or.inl h
      · exact Or.inr ⟨h, rfl⟩
    · exact Or.inl h
  · simp only [if_true] at h
    split at h <;> exact Or.inl h

theorem register_overloads_mem (r : Reg) (x : Registration) (o : Overloaded) (g : Nat)
    (ho : o ∈ register r x) (hg : g ∈ o.overloads) :
    (∃ o' ∈ r, g ∈ o'.overloads) ∨ (g = x.func ∧ x.isComplex = false) := by
  induction r with
  | nil =>
    simp only [register, List.mem_singleton] at ho
    subst ho
    rcases addTo_overloads_mem _ _ _ _ hg with h | h
    · simp at h
    · exact Or.inr h
  | cons q qs ih =>
    simp only [register] at ho
    by_cases e : (q.name == x.name) = true
    · rw [if_pos e] at ho
      rcases List.mem_cons.mp ho with rfl | hm
      · rcases addTo_overloads_mem _ _ _ _ hg with h | h
        · exact Or.inl ⟨q, by simp, h⟩
        · exact Or.inr h
      · exact Or.inl ⟨o, by simp [hm], hg⟩
    · rw [if_neg e] at ho
      rcases List.mem_cons.mp ho with rfl | hm
      · exact Or.inl ⟨o, by simp, hg⟩
      · rcases ih hm with ⟨o', ho', hg'⟩ | h
        · exact Or.inl ⟨o', by simp [ho'], hg'⟩
        · exact Or.inr h

/-- No function satisfying `bad` sits in a real slot. -/
def RealClean (bad : Nat → Bool) (r : Reg) : Prop := ∀ o ∈ r, ∀ g ∈ o.overloads, bad g = false

theorem register_realClean (bad : Nat → Bool) (r : Reg) (x : Registration) (h : RealClean bad r)
    (hx : x.isComplex = false → bad x.func = false) : RealClean bad (register r x) := by
  intro o ho g hg
  rcases register_overloads_mem r x o g ho hg with ⟨o', ho', hg'⟩ | ⟨rfl, hc⟩
  · exact h o' ho' g hg'
  · exact hx hc

theorem torchOp_realClean (bad : Nat → Bool) (r r' : Reg) (d : Decl) (h : RealClean bad r)
    (hd : bad d.func = true → d.isComplex = true) (ht : torchOp r d = some r') : RealClean bad r' := by
  unfold torchOp at ht
  split at ht
  · simp only [Option.some.injEq] at ht
    subst ht
    split
    · exact h
    · have : ∀ (names : List String) (r : Reg), RealClean bad r →
          RealClean bad (names.foldl (fun r n => register r ⟨d.func, n, d.isComplex⟩) r) := by
        intro names
        induction names with
        | nil => intro r hr; exact hr
        | cons n ns ih =>
          intro r hr
          simp only [List.foldl_cons]
          apply ih
          apply register_realClean bad r _ hr
          intro hc
          cases hb : bad d.func with
          | false => rfl
          | true => simp only at hc; rw [hd hb] at hc; cases hc
      exact this _ r h
  · cases ht

theorem runDecls_realClean (bad : Nat → Bool) (ds : List Decl) (r r' : Reg) (h : RealClean bad r)
    (hd : ∀ d ∈ ds, bad d.func = true → d.isComplex = true) (hr : runDecls r ds = some r') :
    RealClean bad r' := by
  induction ds generalizing r with
  | nil => simp only [runDecls, Option.some.injEq] at hr; subst hr; exact h
  | cons d ds ih =>
    simp only [runDecls] at hr
    cases ht : torchOp r d with
    | none => rw [ht] at hr; cases hr
    | some r1 =>
      rw [ht] at hr
      exact ih r1 (torchOp_realClean bad r r1 d h (hd d (by simp)) ht) (fun d' hd' => hd d' (by simp [hd'])) hr

/-! ### first registration wins, as a lookup law -/

theorem lookup_addTo (o : Overloaded) (f : Nat) (cx cx' : Bool) :
    (if cx' then (addTo o f cx).complex else (addTo o f cx).overloads) =
      (if cx = cx' ∧ (if cx' then o.complex else o.overloads) = [] then [f]
       else (if cx' then o.complex else o.overloads)) := by
  unfold addTo
  cases cx <;> cases cx'
  · cases h : o.overloads <;> simp [h]
  · cases h : o.overloads <;> simp [h]
  · cases h : o.complex <;> simp [h]
  · cases h : o.complex <;> simp [h]

theorem lookup_register (r : Reg) (x : Registration) (n : String) (cx : Bool) :
    lookup (register r x) n cx =
      if x.name = n ∧ x.isComplex = cx ∧ lookup r n cx = [] then [x.func] else lookup r n cx := by
  induction r with
  | nil =>
    simp only [register, lookup, List.find?_cons, addTo_name, List.find?_nil]
    by_cases hn : x.name = n
    · subst hn
      simp only [beq_self_eq_true, true_and]
      have := lookup_addTo ⟨x.name, [], []⟩ x.func x.isComplex cx
      simp only at this
      rw [this]
      cases cx <;> simp
    · have : (x.name == n) = false := by simpa using hn
      simp [this, hn]
  | cons o os ih =>
    simp only [register]
    by_cases e : (o.name == x.name) = true
    · have e' : o.name = x.name := by simpa using e
      rw [if_pos e]
      simp only [lookup, List.find?_cons, addTo_name]
      by_cases hn : o.name = n
      · have hb : (o.name == n) = true := by simpa using hn
        simp only [hb]
        rw [lookup_addTo]
        have hxn : x.name = n := by rw [← e', hn]
        simp only [hxn, true_and]
      · have hb : (o.name == n) = false := by simpa using hn
        have hxn : ¬ x.name = n := by rw [← e']; exact hn
        simp only [hb, hxn, false_and, if_false]
    · have e' : ¬ o.name = x.name := by simpa using e
      rw [if_neg e]
      by_cases hn : o.name = n
      · have hb : (o.name == n) = true := by simpa using hn
        have hxn : ¬ x.name = n := by intro h; exact e' (hn.trans h.symm)
        simp only [lookup, List.find?_cons, hb, hxn, false_and, if_false]
      · have hb : (o.name == n) = false := by simpa using hn
        have := ih
        simp only [lookup, List.find?_cons, hb] at this ⊢
        exact this

/-! ### `get_torchlib_ops` yields each (name, kind) once -/

/-- The (qualified name, is_complex) pairs `get_torchlib_ops` returns. -/
def opsKeys (r : Reg) : List (String × Bool) := (torchlibOps r).map (fun t => (t.1, t.2.2))

def entryKeys (o : Overloaded) : List (String × Bool) :=
  o.overloads.map (fun _ => (o.name, false)) ++ o.complex.map (fun _ => (o.name, true))

theorem opsKeys_cons (o : Overloaded) (os : Reg) :
    opsKeys (o :: os) =
      (if !(internalPrefix.isPrefixOf o.name.toList) then entryKeys o else []) ++ opsKeys os := by
  unfold opsKeys torchlibOps entryKeys
  by_cases hk : (!(internalPrefix.isPrefixOf o.name.toList)) = true
  · simp [List.filter_cons, hk, List.flatMap_cons, List.map_append, List.map_map, Function.comp_def]
  · simp [List.filter_cons, hk]

theorem mem_opsKeys_name (r : Reg) (k : String × Bool) (h : k ∈ opsKeys r) : k.1 ∈ r.map (·.name) := by
  induction r with
  | nil => simp [opsKeys, torchlibOps] at h
  | cons o os ih =>
    rw [opsKeys_cons] at h
    rcases List.mem_append.mp h with h | h
    · split at h
      · unfold entryKeys at h
        simp only [List.mem_append, List.mem_map] at h
        rcases h with ⟨_, _, rfl⟩ | ⟨_, _, rfl⟩ <;> simp
      · cases h
    · simp [ih h]

theorem entryKeys_nodup (o : Overloaded) (h : o.overloads.length ≤ 1 ∧ o.complex.length ≤ 1) :
    (entryKeys o).Nodup := by
  unfold entryKeys
  obtain ⟨h1, h2⟩ := h
  match ho : o.overloads, hc : o.complex with
  | [], [] => simp
  | [_], [] => simp
  | [], [_] => simp
  | [_], [_] => simp
  | _ :: _ :: _, _ => rw [ho] at h1; simp at h1
  | _, _ :: _ :: _ => rw [hc] at h2; simp at h2

theorem opsKeys_nodup (r : Reg) (h1 : AtMostOne r) (h2 : (r.map (·.name)).Nodup) : (opsKeys r).Nodup := by
  induction r with
  | nil => simp [opsKeys, torchlibOps]
  | cons o os ih =>
    rw [opsKeys_cons]
    simp only [List.map_cons, List.nodup_cons] at h2
    have ihos := ih (fun q hq => h1 q (by simp [hq])) h2.2
    rw [List.nodup_append]
    refine ⟨?_, ihos, ?_⟩
    · split
      · exact entryKeys_nodup o (h1 o (by simp))
      · simp
    · intro a ha b hb hab
      subst hab
      have hn := mem_opsKeys_name os a hb
      split at ha
      · unfold entryKeys at ha
        simp only [List.mem_append, List.mem_map] at ha
        rcases ha with ⟨_, _, rfl⟩ | ⟨_, _, rfl⟩ <;> exact h2.1 hn
      · cases ha

end OV.C16
