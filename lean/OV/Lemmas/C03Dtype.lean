import OV.Lemmas.C03Repl
/-!
# Element-type annotations through the node loop

`DtOK L st ρf`: every element type the state records for a value is the element type of that value
in the *final* environment of the node list (values are single-assignment, so the final environment
agrees with every intermediate one on the names already bound).  The `cast`/`cast_like` evaluators
read these annotations; this file has what is needed to carry the invariant through a step.
-/
namespace OV.C03

variable {V : Type}

def DtOK {sem : Sem V} (L : OpLaws sem) (st : St) (ρf : Env V) : Prop :=
  (∀ x v dt, ρf x = some v → (st.getInfo x).dtype = some dt → L.hasDtype v dt) ∧
  (∀ x dt, (st.getInfo x).dtype = some dt → NF x)

theorem DtOK.step {sem : Sem V} {L : OpLaws sem} {st st' : St} {ρf : Env V} (h : DtOK L st ρf)
    (hnew : ∀ x dt, (st'.getInfo x).dtype = some dt → (st.getInfo x).dtype = some dt ∨
      (NF x ∧ ∀ v, ρf x = some v → L.hasDtype v dt)) : DtOK L st' ρf := by
  refine ⟨?_, ?_⟩
  · intro x v dt hv hd
    rcases hnew x dt hd with h1 | h1
    · exact h.1 x v dt hv h1
    · exact h1.2 v hv
  · intro x dt hd
    rcases hnew x dt hd with h1 | h1
    · exact h.2 x dt h1
    · exact h1.1

theorem getInfo_sameIS {st st' : St} (h : SameIS st st') (x : Name) : st'.getInfo x = st.getInfo x := by
  simp only [St.getInfo, h.1]

theorem DtOK.sameIS {sem : Sem V} {L : OpLaws sem} {st st' : St} {ρf : Env V} (h : DtOK L st ρf) (hs : SameIS st st') :
    DtOK L st' ρf :=
  h.step (fun x dt hd => Or.inl (by rw [getInfo_sameIS hs] at hd; exact hd))

theorem getInfo_setInfo (st : St) (o x : Name) (v : VInfo) :
    (st.setInfo o v).getInfo x = if x = o then v else st.getInfo x := by
  simp only [St.getInfo, St.setInfo, lookupA_insert]
  by_cases h : x = o <;> simp [h]

theorem processConstant_info (ctx : Ctx) (st0 : St) (n : Node) (x : Name) :
    (processConstant ctx st0 n).getInfo x = st0.getInfo x ∨ n.outputs.contains x = true := by
  unfold processConstant
  split
  · exact Or.inl rfl
  · split
    · exact Or.inl rfl
    · split
      · rename_i o k a ho hattrs
        have key : ∀ (c? : Option CInfo),
            (match c? with
              | none => st0
              | some c => st0.setInfo o { dtype := some c.dtype, shape := some (c.shape.map fun (d : Nat) => Dim.known (Int.ofNat d)), const := some c }).getInfo x =
              st0.getInfo x ∨ n.outputs.contains x = true := by
          intro c?
          cases c? with
          | none => exact Or.inl rfl
          | some c =>
            by_cases hx : x = o
            · right; rw [ho, hx]; simp
            · left; rw [getInfo_setInfo]; simp [hx]
        exact key _
      · exact Or.inl rfl

/-- `replace_nodes_and_values` on one pair: what the annotations are afterwards -/
theorem getInfo_inheritInfo (st3 : St) (o fv x : Name) :
    (inheritInfo st3 [(o, fv)]).getInfo x =
      if x = fv then {} else
      if x = o then { dtype := orElse (st3.getInfo o).dtype (st3.getInfo fv).dtype,
                      shape := orElse (st3.getInfo o).shape (st3.getInfo fv).shape,
                      const := orElse (st3.getInfo o).const (st3.getInfo fv).const }
      else st3.getInfo x := by
  simp only [inheritInfo, List.foldl_cons, List.foldl_nil, St.getInfo, St.setInfo, St.clearSym, lookupA_erase, lookupA_insert]
  by_cases h1 : x = fv
  · simp [h1]
  · by_cases h2 : x = o
    · subst h2
      have h3 : ¬ x = fv := h1
      simp [h3]
    · simp [h1, h2]

/-- two operator nodes that compute the same thing from the current environment -/
theorem evalNode_congr_op (sem : Sem V) (sub) (ρ : Env V) (n m : Node) (hns : n.subs = []) (hms : m.subs = [])
    (hnc : n.isOp "Constant" = false) (hmc : m.isOp "Constant" = false) (hout : m.outputs = n.outputs)
    (a1 a2 : List (Option V)) (h1 : lookupAll ρ n.inputs = some a1) (h2 : lookupAll ρ m.inputs = some a2)
    (hop : sem.op m.op m.domain m.attrs a2 = sem.op n.op n.domain n.attrs a1) :
    evalNode sem sub ρ m = evalNode sem sub ρ n := by
  simp only [evalNode, h1, h2, Option.bind, nodeOutputs, hns, hms, List.isEmpty_nil, if_true,
    constDenote_not_constant sem n hnc, constDenote_not_constant sem m hmc, hop, hout]

/-- a one-input, one-output operator node, executed -/
theorem evalNode_unary (sem : Sem V) (sub) (ρ ρ1 : Env V) (n : Node) (x o : Name)
    (hsubs : n.subs = []) (hnc : n.isOp "Constant" = false) (hin : n.inputs = [some x]) (hout : n.outputs = [o])
    (he : evalNode sem sub ρ n = some ρ1) :
    ∃ v w ws, ρ x = some v ∧ sem.op n.op n.domain n.attrs [some v] = some (w :: ws) ∧ ρ1 = ρ.set o w := by
  simp only [evalNode, hin, lookupAll, lookupIn] at he
  cases hx : ρ x with
  | none => simp [hx] at he
  | some v =>
    simp only [hx, Option.map, Option.bind, nodeOutputs, hsubs, List.isEmpty_nil, if_true,
      constDenote_not_constant sem n hnc, hout] at he
    cases hop : sem.op n.op n.domain n.attrs [some v] with
    | none => simp [hop] at he
    | some vs =>
      cases vs with
      | nil => simp [hop, bindOuts] at he
      | cons w ws =>
        simp only [hop, bindOuts, Option.some.injEq] at he
        exact ⟨v, w, ws, rfl, hop, he.symm⟩

/-! ### the `cast` and `cast_like` evaluators, by outcome -/

theorem evalPartial_cast (st0 : St) (n : Node) (v : Nat) (x o : Name)
    (hop : n.op = "Cast") (hdom : n.domain = "") (hin : n.inputs = [some x]) (hout : n.outputs = [o]) :
    (∃ st2, evalPartial n v st0 = (EvRes.none, st2) ∧ st2.sym = st0.sym ∧ (∀ y, st2.constOf y = st0.constOf y) ∧
      (∀ y dt, (st2.getInfo y).dtype = some dt → (st0.getInfo y).dtype = some dt ∨
        (y = o ∧ ∃ to : Int, intAttr n "to" none = some to ∧ dt = to.toNat))) ∨
    (∃ (st2 : St) (to : Int), evalPartial n v st0 = (EvRes.repl (idRepl st0 x), st2) ∧ SameIS st0 st2 ∧
      intAttr n "to" none = some to ∧ ((((st0.getInfo x).dtype).getD 0 : Nat) : Int) = to) := by
  have hl : lookupEvaluator n v = some evCast := by
    unfold lookupEvaluator
    simp [hdom, hop]
  have hgi : getInput n 0 = some x := by simp [getInput, hin]
  have hgo : getOutput n 0 = some o := by simp [getOutput, hout]
  have het : elemType st0 n 0 = ((st0.getInfo x).dtype).getD 0 := by simp [elemType, hin]
  unfold evalPartial
  rw [hl]
  simp only [runEvaluator, evCast, hgi, hgo]
  cases hto : intAttr n "to" none with
  | none =>
    left
    exact ⟨_, rfl, rfl, fun y => rfl, fun y dt h => Or.inl h⟩
  | some to =>
    simp only []
    by_cases hsame : ((elemType st0 n 0 : Int) == to) = true
    · right
      rw [if_pos hsame]
      refine ⟨_, to, rfl, ⟨rfl, rfl⟩, rfl, ?_⟩
      rw [← het]
      exact beq_iff_eq.mp hsame
    · left
      rw [if_neg hsame]
      refine ⟨_, rfl, rfl, ?_, ?_⟩
      · intro y
        simp only [St.constOf, St.getInfo, St.setInfo, St.note, lookupA_insert]
        by_cases hy : y = o
        · subst hy; simp
        · simp [hy]
      · intro y dt h
        simp only [St.getInfo, St.setInfo, St.note, lookupA_insert] at h
        by_cases hy : y = o
        · subst hy
          simp only [if_true, Option.getD_some, Option.some.injEq] at h
          exact Or.inr ⟨rfl, to, rfl, h.symm⟩
        · simp only [hy, if_false] at h
          exact Or.inl h

theorem evalPartial_castlike (st0 : St) (n : Node) (v : Nat) (x w : Name)
    (hop : n.op = "CastLike") (hdom : n.domain = "") (hin : n.inputs = [some x, some w]) :
    (∃ st2, evalPartial n v st0 = (EvRes.none, st2) ∧ SameIS st0 st2) ∨
    (∃ (st2 : St) (dw : Nat), evalPartial n v st0 = (EvRes.repl (idRepl st0 x), st2) ∧ SameIS st0 st2 ∧ dw ≠ 0 ∧
      (st0.getInfo w).dtype = some dw ∧ (st0.getInfo x).dtype = some dw) ∨
    (∃ (st2 : St) (dw : Nat), evalPartial n v st0 = (EvRes.repl (oneRepl st0 "Cast" x [("to", Attr.int dw)]), st2) ∧ SameIS st0 st2 ∧
      dw ≠ 0 ∧ (st0.getInfo w).dtype = some dw) := by
  have hl : lookupEvaluator n v = some evCastLike := by
    unfold lookupEvaluator
    simp [hdom, hop]
  have e0 : elemType st0 n 0 = ((st0.getInfo x).dtype).getD 0 := by simp [elemType, hin]
  have e1 : elemType st0 n 1 = ((st0.getInfo w).dtype).getD 0 := by simp [elemType, hin]
  unfold evalPartial
  rw [hl]
  simp only [runEvaluator, evCastLike, hin]
  by_cases h0 : (elemType st0 n 1 == 0) = true
  · left
    rw [if_pos h0]
    exact ⟨_, rfl, ⟨rfl, rfl⟩⟩
  · rw [if_neg h0]
    have htgt : elemType st0 n 1 ≠ 0 := fun e => h0 (by rw [e]; rfl)
    cases hdw : (st0.getInfo w).dtype with
    | none => rw [e1, hdw] at htgt; exact absurd rfl htgt
    | some dw =>
      have e1' : elemType st0 n 1 = dw := by rw [e1, hdw]; rfl
      by_cases hs : (elemType st0 n 0 == elemType st0 n 1) = true
      · right; left
        rw [if_pos hs]
        refine ⟨_, dw, rfl, ⟨rfl, rfl⟩, by rw [← e1']; exact htgt, rfl, ?_⟩
        have h2 := beq_iff_eq.mp hs
        rw [e0, e1'] at h2
        cases hdx : (st0.getInfo x).dtype with
        | none =>
          rw [hdx] at h2
          simp only [Option.getD_none] at h2
          exact absurd (by rw [e1', ← h2]) htgt
        | some dx =>
          rw [hdx] at h2
          simp only [Option.getD_some] at h2
          rw [h2]
      · right; right
        rw [if_neg hs]
        refine ⟨({ st0 with fresh := st0.fresh + 1, hist := "castlike:cast" :: st0.hist } : St), dw, ?_, ⟨rfl, rfl⟩,
          by rw [← e1']; exact htgt, rfl⟩
        simp only [St.freshName, St.note, oneRepl, freshOf, e1']

theorem evalPartial_identity_dtype (st0 : St) (n : Node) (v : Nat) (x o : Name)
    (hop : n.op = "Identity") (hdom : n.domain = "") (hin : n.inputs = [some x]) (hout : n.outputs = [o]) :
    ∀ y dt, ((evalPartial n v st0).2.getInfo y).dtype = some dt →
      (st0.getInfo y).dtype = some dt ∨ (y = x ∧ (st0.getInfo o).dtype = some dt) := by
  have hl : lookupEvaluator n v = some evIdentity := by
    unfold lookupEvaluator
    simp [hdom, hop]
  unfold evalPartial
  rw [hl]
  simp only [runEvaluator, evIdentity, hin, hout]
  intro y dt h
  by_cases hgi : st0.isGraphInput x = true
  · rw [if_pos hgi] at h
    exact Or.inl h
  rw [if_neg hgi] at h
  simp only [St.getInfo, St.setInfo, St.setSym, St.note, lookupA_insert] at h
  by_cases hy : y = x
  · subst hy
    simp only [if_true, Option.getD_some] at h
    cases hdx : ((lookupA st0.info y).getD {}).dtype with
    | some d =>
      rw [hdx] at h
      left
      simp only [St.getInfo, hdx]
      exact h
    | none =>
      rw [hdx] at h
      right
      exact ⟨rfl, by simpa only [St.getInfo] using h⟩
  · simp only [hy, if_false] at h
    exact Or.inl (by simpa only [St.getInfo] using h)

/-! ### the typing hypotheses -/

/-- `Cast` produces a value of the requested element type -/
def CastTyped {sem : Sem V} (L : OpLaws sem) : Prop :=
  ∀ attrs (v w : V) ws (dt : Int), sem.op "Cast" "" attrs [some v] = some (w :: ws) →
    (attrs.find? (·.1 == "to")).map (·.2) = some (Attr.int dt) → L.hasDtype w dt.toNat

/-- the oracle's answers carry their true element type -/
def OracleTyped {sem : Sem V} (L : OpLaws sem) (ctx : Ctx) : Prop :=
  ∀ key (c : CInfo), lookupA ctx.oracle key = some (.single c) → L.hasDtype (sem.tensor c.tok) c.dtype

/-- whatever element type `_process_constant_node` newly records for the output of a `Constant` node is the
element type of the value the node evaluates to -/
def ConstMarkTyped {sem : Sem V} (L : OpLaws sem) (ctx : Ctx) (n : Node) : Prop :=
  ∀ (sub : Env V → Graph → List (Option V) → Option (List V)) (st0 : St) (x : Name) (dt : Nat) (ρ ρ1 : Env V) (v : V),
    (processConstant ctx st0 n).getInfo x ≠ st0.getInfo x → ((processConstant ctx st0 n).getInfo x).dtype = some dt →
    evalNode sem sub ρ n = some ρ1 → ρ1 x = some v → L.hasDtype v dt

end OV.C03
