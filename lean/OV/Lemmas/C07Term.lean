import OV.Model.C07Apply
/-! Helper lemmas for C07: the cursor discipline of `passLoop` on lists of node ids. -/
namespace OV.C07

def insAfterIds (ids : List Nat) (cur : Nat) (new : List Nat) : List Nat :=
  ids.flatMap fun i => if i == cur then i :: new else [i]

/-- the ids at or after the cursor -/
def todo (ids : List Nat) : Option Nat → List Nat
  | none => []
  | some c => ids.dropWhile (· != c)

/-- potential: what is left to visit, original nodes weighted by the size bound of a replacement -/
def mu (base K : Nat) (ids : List Nat) (cur : Option Nat) : Nat :=
  (todo ids cur).length + K * ((todo ids cur).filter (· < base)).length

theorem split_first (c : Nat) (ids : List Nat) (h : c ∈ ids) :
    ∃ pre post, ids = pre ++ c :: post ∧ c ∉ pre := by
  induction ids with
  | nil => simp at h
  | cons a r ih =>
    by_cases hac : a = c
    · exact ⟨[], r, by simp [hac], by simp⟩
    · have hr : c ∈ r := by
        rcases List.mem_cons.mp h with h | h
        · exact absurd h.symm hac
        · exact h
      obtain ⟨pre, post, e, hn⟩ := ih hr
      refine ⟨a :: pre, post, by simp [e], ?_⟩
      intro hm
      rcases List.mem_cons.mp hm with h' | h'
      · exact hac h'.symm
      · exact hn h'

theorem dropWhile_split (c : Nat) (pre post : List Nat) (h : c ∉ pre) :
    (pre ++ c :: post).dropWhile (· != c) = c :: post := by
  induction pre with
  | nil => simp
  | cons a r ih =>
    have hac : a ≠ c := fun e => h (by simp [e])
    have : (a != c) = true := by simpa using hac
    simp only [List.cons_append, List.dropWhile_cons, this, if_true]
    exact ih (fun hm => h (by simp [hm]))

theorem dropWhile_none (c : Nat) (l : List Nat) (h : c ∉ l) : l.dropWhile (· != c) = [] := by
  induction l with
  | nil => rfl
  | cons a r ih =>
    have hac : a ≠ c := fun e => h (by simp [e])
    have : (a != c) = true := by simpa using hac
    simp only [List.dropWhile_cons, this, if_true]
    exact ih (fun hm => h (by simp [hm]))

theorem todo_head (pre post : List Nat) (c : Nat) (hnd : (pre ++ c :: post).Nodup) :
    todo (pre ++ c :: post) post.head? = post := by
  cases post with
  | nil => rfl
  | cons n rest =>
    simp only [List.head?_cons, todo]
    have hn : n ∉ pre ++ [c] := by
      have := hnd
      rw [show pre ++ c :: n :: rest = (pre ++ [c]) ++ n :: rest by simp] at this
      have h2 := (List.nodup_append.mp this).2.2
      intro hm
      exact h2 n hm n (by simp) rfl
    have := dropWhile_split n (pre ++ [c]) rest hn
    simpa using this

/-- no application at the cursor: the successor is read off the unchanged list -/
theorem todo_successor_same (pre post : List Nat) (c : Nat) (hnd : (pre ++ c :: post).Nodup) :
    todo (pre ++ c :: post) (successor (pre ++ c :: post) (pre ++ c :: post) c) = post := by
  have hc : c ∉ pre := by
    have := (List.nodup_append.mp hnd).2.2
    intro hm; exact this c hm c (by simp) rfl
  have hs : successor (pre ++ c :: post) (pre ++ c :: post) c = post.head? := by
    unfold successor
    rw [dropWhile_split c pre post hc]
    cases post <;> rfl
  rw [hs]
  exact todo_head pre post c hnd

theorem insAfterIds_split (pre post new : List Nat) (c : Nat) (h1 : c ∉ pre) (h2 : c ∉ post) :
    insAfterIds (pre ++ c :: post) c new = pre ++ c :: new ++ post := by
  have hself : ∀ l : List Nat, c ∉ l → insAfterIds l c new = l := by
    intro l hl
    induction l with
    | nil => rfl
    | cons a r ih =>
      have hac : a ≠ c := fun e => hl (by simp [e])
      have ih' := ih (fun hm => hl (by simp [hm]))
      unfold insAfterIds at ih' ⊢
      simp only [List.flatMap_cons]
      rw [ih']
      simp [hac]
  unfold insAfterIds at hself ⊢
  simp only [List.flatMap_append, List.flatMap_cons]
  rw [hself pre h1, hself post h2]
  simp

/-- an application at the cursor: what is left to visit afterwards is the new nodes followed by the
surviving part of the old tail — whatever the splice removed, and whether or not it inserted -/
theorem todo_applied (pre post new : List Nat) (c : Nat) (keep : Nat → Bool)
    (hnd : (pre ++ c :: post).Nodup) (hpos : ∀ i ∈ pre ++ c :: post, 0 < i)
    (hfresh : ∀ i ∈ new, i ∉ pre ++ c :: post) (hkeep : ∀ i ∈ new, keep i = true) :
    let ids' := (insAfterIds (pre ++ c :: post) c new).filter keep
    let first := new.head?.getD 0
    todo ids' (if ids'.contains first then some first else successor (pre ++ c :: post) ids' c) =
      new ++ post.filter keep := by
  have hc1 : c ∉ pre := by
    have := (List.nodup_append.mp hnd).2.2
    intro hm; exact this c hm c (by simp) rfl
  have hc2 : c ∉ post := by
    have := (List.nodup_cons.mp (List.nodup_append.mp hnd).2.1).1
    exact this
  have hpp : ∀ x ∈ post, x ∉ pre := by
    intro x hx hm
    exact (List.nodup_append.mp hnd).2.2 x hm x (by simp [hx]) rfl
  intro ids' first
  have hids : ids' = pre.filter keep ++ ([c].filter keep ++ (new ++ post.filter keep)) := by
    show (insAfterIds (pre ++ c :: post) c new).filter keep = _
    rw [insAfterIds_split pre post new c hc1 hc2]
    have hn : new.filter keep = new := List.filter_eq_self.mpr hkeep
    have : pre ++ c :: new ++ post = pre ++ ([c] ++ (new ++ post)) := by simp
    rw [this, List.filter_append, List.filter_append, List.filter_append, hn]
  cases new with
  | cons f rest =>
    have hf : f ∉ pre ++ c :: post := hfresh f (by simp)
    have hcont : ids'.contains first = true := by
      rw [hids]; simp [first]
    simp only [hcont, if_true]
    show todo ids' (some f) = _
    have hfp : f ∉ pre.filter keep ++ [c].filter keep := by
      intro hm
      rcases List.mem_append.mp hm with h | h
      · exact hf (List.mem_append.mpr (Or.inl (List.mem_filter.mp h).1))
      · have := (List.mem_filter.mp h).1
        simp at this
        exact hf (by simp [this])
    have := dropWhile_split f (pre.filter keep ++ [c].filter keep) (rest ++ post.filter keep) hfp
    simp only [todo, hids]
    simpa using this
  | nil =>
    have hz : ids'.contains first = false := by
      have : ∀ i ∈ ids', 0 < i := by
        intro i hi
        rw [hids] at hi
        simp only [List.nil_append, List.mem_append, List.mem_filter] at hi
        rcases hi with h | h | h
        · exact hpos i (by simp [h.1])
        · have := h.1; simp at this; exact hpos i (by simp [this])
        · exact hpos i (by simp [h.1])
      apply Bool.eq_false_iff.mpr
      intro hcon
      have := this first (by simpa using hcon)
      simp [first] at this
    simp only [hz, Bool.false_eq_true, if_false, List.nil_append]
    by_cases hk : keep c = true
    · have hids2 : ids' = pre.filter keep ++ c :: post.filter keep := by
        rw [hids]; simp [hk]
      have hndf : (pre.filter keep ++ c :: post.filter keep).Nodup := by
        have := hnd.sublist (l₁ := pre.filter keep ++ c :: post.filter keep) (by
          apply List.Sublist.append (List.filter_sublist)
          exact List.Sublist.cons_cons c List.filter_sublist)
        exact this
      have hcf : c ∉ pre.filter keep := fun hm => hc1 (List.mem_filter.mp hm).1
      have hs : successor (pre ++ c :: post) ids' c = (post.filter keep).head? := by
        unfold successor
        rw [hids2, dropWhile_split c _ _ hcf]
        cases post.filter keep <;> rfl
      rw [hs, hids2]
      exact todo_head _ _ c hndf
    · have hk' : keep c = false := by simpa using hk
      have hids2 : ids' = pre.filter keep ++ post.filter keep := by
        rw [hids]; simp [hk']
      have hcn : c ∉ ids' := by
        rw [hids2]
        intro hm
        rcases List.mem_append.mp hm with h | h
        · exact hc1 (List.mem_filter.mp h).1
        · exact hc2 (List.mem_filter.mp h).1
      have hmem : ∀ x ∈ post, ids'.contains x = keep x := by
        intro x hx
        have hxp : x ∉ pre := hpp x hx
        rw [hids2]
        by_cases hkx : keep x = true
        · simp [List.mem_filter, hkx, hx]
        · have hkx' : keep x = false := by simpa using hkx
          simp [List.mem_filter, hkx']
      have hs : successor (pre ++ c :: post) ids' c = (post.filter keep).head? := by
        unfold successor
        rw [dropWhile_none c ids' hcn, dropWhile_split c pre post hc1]
        simp only [List.drop_succ_cons, List.drop_zero]
        rw [← List.head?_filter]
        congr 1
        exact List.filter_congr hmem
      rw [hs, hids2]
      cases hpf : post.filter keep with
      | nil => simp [todo]
      | cons n rest =>
        simp only [List.head?_cons, todo]
        have hnpost : n ∈ post := (List.mem_filter.mp (by rw [hpf]; simp : n ∈ post.filter keep)).1
        have hn : n ∉ pre.filter keep := fun hm => hpp n hnpost (List.mem_filter.mp hm).1
        exact dropWhile_split n _ rest hn

theorem ids_applied_nodup (pre post new : List Nat) (c : Nat) (keep : Nat → Bool)
    (hnd : (pre ++ c :: post).Nodup) (hnew : new.Nodup) (hfresh : ∀ i ∈ new, i ∉ pre ++ c :: post) :
    ((insAfterIds (pre ++ c :: post) c new).filter keep).Nodup := by
  have hc1 : c ∉ pre := by
    have := (List.nodup_append.mp hnd).2.2
    intro hm; exact this c hm c (by simp) rfl
  have hc2 : c ∉ post := (List.nodup_cons.mp (List.nodup_append.mp hnd).2.1).1
  rw [insAfterIds_split pre post new c hc1 hc2]
  refine List.Nodup.sublist List.filter_sublist ?_
  have hpre := (List.nodup_append.mp hnd).1
  have hpost := (List.nodup_cons.mp (List.nodup_append.mp hnd).2.1).2
  have hdis := (List.nodup_append.mp hnd).2.2
  rw [show pre ++ c :: new ++ post = pre ++ (c :: (new ++ post)) by simp]
  apply List.nodup_append.mpr
  refine ⟨hpre, ?_, ?_⟩
  · apply List.nodup_cons.mpr
    refine ⟨?_, ?_⟩
    · intro hm
      rcases List.mem_append.mp hm with h | h
      · exact hfresh c h (by simp)
      · exact hc2 h
    · apply List.nodup_append.mpr
      refine ⟨hnew, hpost, ?_⟩
      intro a ha b hb hab
      subst hab
      exact hfresh a ha (by simp [hb])
  · intro a ha b hb hab
    subst hab
    rcases List.mem_cons.mp hb with h | h
    · exact hc1 (h ▸ ha)
    · rcases List.mem_append.mp h with h | h
      · exact hfresh a h (by simp [ha])
      · exact hdis a ha a (by simp [h]) rfl

theorem ids_applied_pos (pre post new : List Nat) (c : Nat) (keep : Nat → Bool) (base : Nat) (hb : 0 < base)
    (hpos : ∀ i ∈ pre ++ c :: post, 0 < i) (hnew : ∀ i ∈ new, base ≤ i) :
    ∀ i ∈ (insAfterIds (pre ++ c :: post) c new).filter keep, 0 < i := by
  intro i hi
  have hi' := (List.mem_filter.mp hi).1
  unfold insAfterIds at hi'
  obtain ⟨a, ha, hia⟩ := List.mem_flatMap.mp hi'
  by_cases hac : a == c
  · simp only [hac, if_true, List.mem_cons] at hia
    rcases hia with rfl | h
    · exact hpos _ ha
    · exact Nat.lt_of_lt_of_le hb (hnew i h)
  · simp only [hac, Bool.false_eq_true, if_false, List.mem_singleton] at hia
    subst hia; exact hpos _ ha

theorem mu_step_same (base K : Nat) (c : Nat) (post : List Nat) (ids : List Nat) (next : Option Nat)
    (h0 : todo ids (some c) = c :: post) (h1 : todo ids next = post) :
    mu base K ids next < mu base K ids (some c) := by
  unfold mu
  rw [h0, h1]
  simp only [List.length_cons, List.filter_cons]
  split
  · simp only [List.length_cons, Nat.mul_succ]; omega
  · omega

theorem mu_step_applied (base K : Nat) (c : Nat) (post new : List Nat) (keep : Nat → Bool)
    (ids ids' : List Nat) (next : Option Nat) (hc : c < base) (hK : new.length ≤ K)
    (hnew : ∀ i ∈ new, base ≤ i)
    (h0 : todo ids (some c) = c :: post) (h1 : todo ids' next = new ++ post.filter keep) :
    mu base K ids' next < mu base K ids (some c) := by
  unfold mu
  rw [h0, h1]
  have hn0 : new.filter (· < base) = [] := by
    apply List.filter_eq_nil_iff.mpr
    intro i hi
    have := hnew i hi
    simp; omega
  have hl : (post.filter keep).length ≤ post.length := List.length_filter_le _ _
  have ho : ((post.filter keep).filter (· < base)).length ≤ (post.filter (· < base)).length := by
    rw [List.filter_filter]
    have : (post.filter fun a => decide (a < base) && keep a) = ((post.filter (· < base)).filter keep) := by
      rw [List.filter_filter]; congr 1; funext a; exact Bool.and_comm _ _
    rw [this]
    exact List.length_filter_le _ _
  simp only [List.length_append, List.filter_append, hn0, List.nil_append, List.length_cons, List.filter_cons,
    hc, decide_true, if_true]
  have : K * ((post.filter keep).filter (· < base)).length ≤ K * (post.filter (· < base)).length :=
    Nat.mul_le_mul_left K ho
  rw [Nat.mul_succ]
  omega

end OV.C07

namespace OV.C07

theorem renNode_id (a b : Name) (d : Nat) (n : Node) : (renNode a b d n).id = n.id := by
  cases d with
  | zero => simp [renNode]
  | succ d => cases n; simp [renNode, Node.id]

theorem renGraph_ids (a b : Name) (d : Nat) (g : Graph) : (renGraph a b d g).ids = g.ids := by
  cases d with
  | zero => simp [renGraph]
  | succ d =>
    cases g with
    | mk ins inits nodes outs =>
      simp only [renGraph, Graph.ids, Graph.nodes, List.map_map]
      apply List.map_congr_left
      intro n _
      exact renNode_id a b d n

theorem renamePassthru_ids (d : Nat) (pairs : List (Name × NewOut)) :
    ∀ g : Graph, (renamePassthru d pairs g).ids = g.ids := by
  unfold renamePassthru
  induction pairs with
  | nil => intro g; rfl
  | cons p rest ih =>
    intro g
    obtain ⟨o, nv⟩ := p
    simp only [List.foldl_cons]
    cases nv with
    | existing x => simp only; rw [ih, renGraph_ids]
    | fresh t => exact ih g
    | none => exact ih g

theorem transferNames_ids (pairs : List (Name × NewOut)) :
    ∀ new : List Node, (transferNames pairs new).map (·.id) = new.map (·.id) := by
  unfold transferNames
  induction pairs with
  | nil => intro new; rfl
  | cons p rest ih =>
    intro new
    obtain ⟨o, nv⟩ := p
    simp only [List.foldl_cons]
    cases nv with
    | fresh t =>
      simp only
      rw [ih, List.map_map]
      apply List.map_congr_left
      intro n _
      exact renNode_id t o 1 n
    | existing x => exact ih new
    | none => exact ih new

theorem retireOld_ids (g : Graph) (m : Match) (rm : Bool) : (retireOld g m rm).ids = g.ids := by
  unfold retireOld
  cases rm with
  | true => rfl
  | false =>
    cases g with
    | mk ins inits nodes outs =>
      simp only [Bool.false_eq_true, if_false, Graph.ids, Graph.setNodes, Graph.nodes, List.map_map]
      apply List.map_congr_left
      intro n _
      simp only [Function.comp]
      split
      · cases n; rfl
      · rfl

theorem insertAfter_ids (ns new : List Node) (root : Nat) :
    (insertAfter ns root new).map (·.id) = insAfterIds (ns.map (·.id)) root (new.map (·.id)) := by
  unfold insertAfter insAfterIds
  induction ns with
  | nil => rfl
  | cons a r ih =>
    simp only [List.flatMap_cons, List.map_append, List.map_cons, ih]
    by_cases h : a.id == root <;> simp [h]

theorem spliceNodes_ids (ns new : List Node) (root : Nat) (matched : List Nat) (rm : Bool) :
    (spliceNodes ns root matched new rm).map (·.id) =
      (insAfterIds (ns.map (·.id)) root (new.map (·.id))).filter (fun i => !(rm && matched.contains i)) := by
  unfold spliceNodes
  cases rm with
  | true =>
    simp only [if_true, Bool.true_and]
    rw [← insertAfter_ids, List.filter_map]
    rfl
  | false =>
    simp only [Bool.false_eq_true, if_false, Bool.false_and, Bool.not_false]
    rw [← insertAfter_ids]
    exact (List.filter_eq_self.mpr (fun _ _ => rfl)).symm

end OV.C07
