import OV.Model.C20Save
/-!
# C20 — invariant machinery for the save model

`Inv I f`: the state predicate `I` survives `f` on **every** exit (normal or exceptional) and for every fault plan
(the plan `k` is a field of the state and is universally quantified).  `Stable` lists what an invariant has to
tolerate; every function of the model is shown to keep every stable invariant once (`inv_*`).  Two instances are
used by the property theorems: "the original tensor objects are still there, unchanged" and "files other than the two
destination files are untouched".
-/
namespace OV.C20
set_option linter.unusedSectionVars false

instance : DecidableEq (Except Err Unit)
  | .ok (), .ok () => isTrue rfl
  | .error a, .error b => if h : a = b then isTrue (by rw [h]) else isFalse (by intro h'; cases h'; exact h rfl)
  | .ok (), .error _ => isFalse (by intro h; cases h)
  | .error _, .ok () => isFalse (by intro h; cases h)

def Inv (I : St → Prop) (f : M α) : Prop := ∀ s, I s → I (f s).2

theorem inv_pure {I : St → Prop} (a : α) : Inv I (pure a : M α) := fun _ h => h

theorem inv_bind {I : St → Prop} {f : M α} {g : α → M β} (hf : Inv I f) (hg : ∀ a, Inv I (g a)) :
    Inv I (f >>= g) := by
  intro s hs
  show I (M.bind f g s).2
  unfold M.bind
  have h1 := hf s hs
  cases h : f s with
  | mk r s1 =>
    rw [h] at h1
    cases r with
    | ok a => exact hg a s1 h1
    | error e => exact h1

theorem inv_seq {I : St → Prop} {f : M Unit} {g : M β} (hf : Inv I f) (hg : Inv I g) :
    Inv I (do f; g) := inv_bind hf (fun _ => hg)

theorem inv_throw {I : St → Prop} (e : Err) : Inv I (throw e : M α) := fun _ h => h
theorem inv_get {I : St → Prop} : Inv I get := fun _ h => h
theorem inv_modify {I : St → Prop} {g : St → St} (h : ∀ s, I s → I (g s)) : Inv I (modify g) := fun s hs => h s hs

/-- What the invariants used here tolerate.  `W` = files the save may write. -/
structure Stable0 (dest mp : String) (I : St → Prop) : Prop where
  tick : ∀ s c t, I s → I { s with calls := c, trace := t }
  cb : ∀ s c t, I s → I { s with cb := c, cbTotal := t }
  cv : ∀ s c, I s → I { s with cv := c }
  fs : ∀ s fs', (∀ p, p ≠ dest → p ≠ mp → FS.get? fs' p = FS.get? s.fs p) → I s → I { s with fs := fs' }
  new : ∀ s t, I s → I { s with heap := s.heap ++ [t] }

structure Stable (dest mp : String) (I : St → Prop) : Prop extends Stable0 dest mp I where
  inval : ∀ s id f o l v, I s → s.heap[id]? = some (.ext f o l v) → f = dest →
    I { s with heap := s.heap.modify id fun | .ext f o l _ => .ext f o l false | t => t }

section
variable {I : St → Prop}

theorem inv_tryFinally {body : M α} {fin : St → St} (hb : Inv I body) (hf : ∀ s, I s → I (fin s)) :
    Inv I (tryFinally body fin) := by
  intro s hs
  unfold tryFinally
  exact hf _ (hb s hs)

theorem inv_mapM' {f : α → M β} (hf : ∀ a, Inv I (f a)) : ∀ l, Inv I (mapM' f l)
  | [] => inv_pure _
  | a :: as => by
    unfold mapM'
    exact inv_bind (hf a) (fun _ => inv_bind (inv_mapM' hf as) (fun _ => inv_pure _))

theorem inv_forM' {f : α → M Unit} (hf : ∀ a, Inv I (f a)) : ∀ l, Inv I (forM' f l)
  | [] => inv_pure _
  | a :: as => by
    unfold forM'
    exact inv_bind (hf a) (fun _ => inv_forM' hf as)

theorem inv_forZip {f : α → β → M Unit} (hf : ∀ a b, Inv I (f a b)) : ∀ l1 l2, Inv I (forZip f l1 l2)
  | [], _ => by unfold forZip; exact inv_pure _
  | _ :: _, [] => by unfold forZip; exact inv_pure _
  | a :: as, b :: bs => by
    unfold forZip
    exact inv_bind (hf a b) (fun _ => inv_forZip hf as bs)

end

theorem get?_set_ne (fs : FS) (f p : String) (c : Content) (h : p ≠ f) :
    FS.get? (FS.set fs f c) p = FS.get? fs p := by
  induction fs with
  | nil =>
    simp only [FS.set, FS.get?, List.lookup]
    have : (p == f) = false := by simpa using h
    simp [this]
  | cons x rest ih =>
    obtain ⟨g, d⟩ := x
    simp only [FS.set]
    by_cases hg : g = f
    · subst hg
      simp only [if_true, FS.get?, List.lookup]
      have : (p == g) = false := by simpa using h
      simp [this]
    · simp only [hg, if_false, FS.get?, List.lookup]
      simp only [FS.get?] at ih
      cases hpg : p == g <;> simp [ih]

theorem get?_append_ne (fs : FS) (f p : String) (b : Bytes) (h : p ≠ f) :
    FS.get? (FS.append fs f b) p = FS.get? fs p := by
  unfold FS.append
  split <;> exact get?_set_ne _ _ _ _ h

section
variable {dest mp : String} {I : St → Prop} (S : Stable0 dest mp I)
include S

theorem inv_tick (op : Op) : Inv I (tick op) := by
  intro s hs
  unfold tick
  split <;> exact S.tick s _ _ hs

theorem inv_withClose {body : M α} (f : String) (hb : Inv I body) : Inv I (withClose f body) := by
  intro s hs
  unfold withClose
  have h1 := hb s hs
  cases h : body s with
  | mk r s1 =>
    rw [h] at h1
    have h2 := inv_tick S (.close f) s1 h1
    cases r with
    | ok a =>
      simp only []
      cases h' : tick (.close f) s1 with
      | mk r2 s2 => rw [h'] at h2; cases r2 <;> exact h2
    | error e =>
      simp only []
      cases h' : tick (.close f) s1 with
      | mk r2 s2 => rw [h'] at h2; cases r2 <;> exact h2

/-! ### file-system primitives (only on `dest` or `mp`) -/

theorem inv_fsSet (f : String) (c : Content) (hf : f = dest ∨ f = mp) :
    Inv I (modify fun s => { s with fs := s.fs.set f c }) := by
  apply inv_modify
  intro s hs
  apply S.fs s _ _ hs
  intro p h1 h2
  apply get?_set_ne
  rcases hf with h | h <;> (rw [h]; assumption)

theorem inv_fsApp (f : String) (b : Bytes) (hf : f = dest ∨ f = mp) :
    Inv I (modify fun s => { s with fs := s.fs.append f b }) := by
  apply inv_modify
  intro s hs
  apply S.fs s _ _ hs
  intro p h1 h2
  apply get?_append_ne
  rcases hf with h | h <;> (rw [h]; assumption)

theorem inv_fsOpenW (f : String) (hf : f = dest ∨ f = mp) : Inv I (fsOpenW f) := by
  unfold fsOpenW
  exact inv_bind (inv_tick S _) (fun _ => inv_fsSet S f _ hf)

theorem inv_fsWrite (f : String) (b : Bytes) (hf : f = dest ∨ f = mp) : Inv I (fsWrite f b) := by
  unfold fsWrite
  exact inv_bind (inv_tick S _) (fun _ => inv_fsApp S f _ hf)

theorem inv_fsCWrite (f : String) (b : Bytes) (hf : f = dest ∨ f = mp) : Inv I (fsCWrite f b) := by
  unfold fsCWrite
  exact inv_fsApp S f _ hf

theorem inv_fsWriteProto (f : String) (p : Proto) (hf : f = dest ∨ f = mp) : Inv I (fsWriteProto f p) := by
  unfold fsWriteProto
  exact inv_bind (inv_tick S _) (fun _ => inv_fsSet S f _ hf)

theorem inv_fsOpenR (f : String) : Inv I (fsOpenR f) := by
  unfold fsOpenR
  refine inv_bind (inv_tick S _) (fun _ => inv_bind inv_get (fun s => ?_))
  split
  · exact inv_pure _
  · exact inv_throw _
  · exact inv_throw _

theorem inv_fileLen (f : String) : Inv I (fileLen f) := by
  unfold fileLen
  refine inv_bind inv_get (fun s => ?_)
  split <;> exact inv_pure _

/-! ### tensor objects -/

theorem inv_newObj (t : TRef) : Inv I (newObj t) := by
  intro s hs
  unfold newObj
  exact S.new s t hs

theorem inv_getObj (id : Nat) : Inv I (getObj id) := by
  unfold getObj
  refine inv_bind inv_get (fun s => ?_)
  split
  · exact inv_pure _
  · exact inv_throw _

theorem inv_extToMem (id : Nat) : Inv I (extToMem id) := by
  unfold extToMem
  refine inv_bind (inv_getObj S id) (fun t => ?_)
  split
  · exact inv_throw _
  · split
    · exact inv_throw _
    · split
      · exact inv_newObj S _
      · refine inv_bind (inv_fsOpenR S _) (fun whole => ?_)
        refine inv_bind (inv_withClose S _ ?_) (fun _ => ?_)
        · split
          · exact inv_throw _
          · exact inv_pure _
        · split
          · exact inv_newObj S _
          · exact inv_throw _

end

/-- `getObj` returns what is in the heap and leaves the state alone. -/
theorem getObj_spec (id : Nat) (s : St) :
    (∃ t, s.heap[id]? = some t ∧ getObj id s = (.ok t, s)) ∨ (s.heap[id]? = none ∧ getObj id s = (.error .typeError, s)) := by
  unfold getObj
  cases h : s.heap[id]? with
  | none =>
    right
    refine ⟨rfl, ?_⟩
    show M.bind get _ s = _
    simp only [M.bind, get, h]
    rfl
  | some t =>
    left
    refine ⟨t, rfl, ?_⟩
    show M.bind get _ s = _
    simp only [M.bind, get, h]
    rfl

/-- "the object at `id` is this external tensor" survives everything that only appends to the heap. -/
theorem stable0_objAt (dest mp : String) (id : Nat) (t : TRef) :
    Stable0 dest mp (fun s => s.heap[id]? = some t) where
  tick := fun _ _ _ h => h
  cb := fun _ _ _ h => h
  cv := fun _ _ h => h
  fs := fun _ _ _ h => h
  new := fun s t' h => by
    show (s.heap ++ [t'])[id]? = some t
    have hlt : id < s.heap.length := by
      rcases Nat.lt_or_ge id s.heap.length with h' | h'
      · exact h'
      · rw [List.getElem?_eq_none h'] at h; cases h
    rw [List.getElem?_append_left hlt]; exact h

section
variable {dest mp : String} {I : St → Prop} (S : Stable dest mp I)
include S

theorem inv_materializeOne (exists_ : Bool) (p : String × Nat) : Inv I (materializeOne dest exists_ p) := by
  intro s hs
  unfold materializeOne
  split
  · exact hs
  · show I (M.bind (getObj p.2) _ s).2
    unfold M.bind
    rcases getObj_spec p.2 s with ⟨t, ht, hg⟩ | ⟨_, hg⟩
    · rw [hg]
      simp only []
      cases t with
      | mem b np => exact hs
      | ext f o l v =>
        simp only []
        split
        · rename_i hfd
          -- extToMem, then invalidate the original object
          show I (M.bind (extToMem p.2) _ s).2
          unfold M.bind
          have h1 := inv_extToMem S.toStable0 p.2 s hs
          have hkeep := inv_extToMem (stable0_objAt dest mp p.2 (.ext f o l v)) p.2 s ht
          cases h : extToMem p.2 s with
          | mk r s1 =>
            rw [h] at h1 hkeep
            cases r with
            | error e => exact h1
            | ok nid =>
              simp only []
              show I (M.bind (invalidate p.2) _ s1).2
              unfold M.bind invalidate modify
              simp only []
              exact S.inval s1 p.2 f o l v h1 hkeep hfd
        · exact hs
    · rw [hg]
      exact hs

/-! ### writing, placing, unloading, saving — `dest` is the data file, `mp` the model file -/

theorem inv_tofile (id : Nat) : Inv I (tofile dest id) := by
  unfold tofile
  refine inv_bind (inv_getObj S.toStable0 id) (fun t => ?_)
  split
  · refine inv_bind (inv_tick S.toStable0 _) (fun _ => ?_)
    refine inv_bind (inv_fsCWrite S.toStable0 _ _ (Or.inl rfl)) (fun _ => ?_)
    exact inv_bind (inv_fileLen S.toStable0 _) (fun _ => inv_tick S.toStable0 _)
  · exact inv_fsWrite S.toStable0 _ _ (Or.inl rfl)
  · split
    · exact inv_throw _
    · refine inv_bind (inv_fsOpenR S.toStable0 _) (fun whole => ?_)
      apply inv_withClose S.toStable0
      refine inv_bind (inv_tick S.toStable0 _) (fun _ => ?_)
      refine inv_bind (inv_forM' (fun c => ?_) _) (fun _ => ?_)
      · exact inv_bind (inv_tick S.toStable0 _) (fun _ => inv_fsWrite S.toStable0 _ _ (Or.inl rfl))
      · split
        · exact inv_bind (inv_tick S.toStable0 _) (fun _ => inv_throw _)
        · exact inv_pure _

theorem inv_writeOne (verbose : Bool) (item : String × Nat × Nat) : Inv I (writeOne dest verbose item) := by
  unfold writeOne
  obtain ⟨name, id, off⟩ := item
  simp only []
  have rest : Inv I (do
      let size ← fileLen dest
      if off > size then do
          fsWrite dest (zeros (off - size))
          tofile dest id
        else tofile dest id) := by
    refine inv_bind (inv_fileLen S.toStable0 _) (fun size => ?_)
    split
    · exact inv_bind (inv_fsWrite S.toStable0 _ _ (Or.inl rfl)) (fun _ => inv_tofile S id)
    · exact inv_tofile S id
  split
  · exact inv_bind (inv_modify (fun s hs => S.cb s _ _ hs)) (fun _ => rest)
  · exact rest

theorem inv_writeExternalData (verbose : Bool) (items : List (String × Nat × Nat)) :
    Inv I (writeExternalData dest verbose items) := by
  unfold writeExternalData
  refine inv_bind (inv_fsOpenW S.toStable0 _ (Or.inl rfl)) (fun _ => ?_)
  apply inv_withClose S.toStable0
  dsimp only
  split
  · exact inv_bind (inv_modify (fun s hs => S.cb s _ _ hs)) (fun _ => inv_forM' (fun it => inv_writeOne S verbose it) _)
  · exact inv_forM' (fun it => inv_writeOne S verbose it) _

theorem inv_placeAndWrite (verbose : Bool) (names : List String) (ids : List Nat) :
    Inv I (placeAndWrite dest verbose names ids) := by
  unfold placeAndWrite
  refine inv_bind (inv_mapM' (fun id => ?_) _) (fun sizes => ?_)
  · unfold sizeOf
    exact inv_bind (inv_getObj S.toStable0 id) (fun _ => inv_pure _)
  · simp only []
    refine inv_bind (inv_writeExternalData S verbose _) (fun _ => ?_)
    refine inv_bind (inv_mapM' (fun p => ?_) _) (fun made => ?_)
    · unfold makeExternal
      exact inv_bind (inv_newObj S.toStable0 _) (fun _ => inv_pure _)
    · split
      · exact inv_pure _
      · exact inv_throw _

theorem inv_convertToExternal (verbose : Bool) (inp : List (String × Nat)) :
    Inv I (convertToExternal dest verbose inp) := by
  unfold convertToExternal
  refine inv_bind inv_get (fun s => ?_)
  simp only []
  exact inv_bind (inv_mapM' (fun p => inv_materializeOne S _ p) _) (fun ids => inv_placeAndWrite S verbose _ ids)

theorem inv_setCv (i id : Nat) : Inv I (setCv i id) := by
  unfold setCv
  exact inv_modify (fun s hs => S.cv s _ hs)

theorem inv_unload (names : List String) (verbose : Bool) : Inv I (unload names dest verbose) := by
  unfold unload
  refine inv_bind inv_get (fun s => ?_)
  simp only []
  refine inv_bind (inv_mapM' (fun i => inv_extToMem S.toStable0 _) _) (fun memIds => ?_)
  refine inv_bind (inv_convertToExternal S verbose _) (fun extIds => ?_)
  exact inv_bind (inv_forZip (fun i id => inv_setCv S i id) _ _) (fun _ => inv_forZip (fun i id => inv_setCv S i id) _ _)

end

/-- Every stable invariant (for `dest = dir/name.data`, `mp = dir/name`) survives the whole save, for every fault plan. -/
theorem inv_save {I : St → Prop} (deep : Bool) (sig : List (String × Bool)) (dir name : String) (verbose : Bool)
    (S : Stable (joinPath dir (name ++ ".data")) (joinPath dir name) I) :
    Inv I (save deep sig dir name verbose) := by
  unfold save
  refine inv_bind inv_get (fun s => ?_)
  split
  · exact inv_throw _
  · unfold irSave
    refine inv_bind inv_get (fun s0 => ?_)
    apply inv_tryFinally
    · refine inv_bind (inv_unload S _ verbose) (fun _ => ?_)
      refine inv_bind inv_get (fun s1 => ?_)
      split
      · exact inv_throw _
      · simp only []
        refine inv_bind (inv_fsOpenW S.toStable0 _ (Or.inr rfl)) (fun _ => ?_)
        exact inv_withClose S.toStable0 _ (inv_fsWriteProto S.toStable0 _ _ (Or.inr rfl))
    · intro s hs
      exact S.cv s _ hs

/-! ### the two invariants used by the property theorems -/

/-- "Every original tensor object is still in the heap, unchanged" — stable provided no original object is an
`ExternalTensor` living in the destination data file. -/
theorem stable_orig (h0 : List TRef) (dest mp : String)
    (hgood : ∀ (id : Nat) (f : String) (o l : Nat) (v : Bool), h0[id]? = some (TRef.ext f o l v) → f ≠ dest) :
    Stable dest mp (fun s => ∀ (id : Nat) (t : TRef), h0[id]? = some t → s.heap[id]? = some t) where
  tick := fun _ _ _ h => h
  cb := fun _ _ _ h => h
  cv := fun _ _ h => h
  fs := fun _ _ _ h => h
  new := fun s t' h id t ht => by
    show (s.heap ++ [t'])[id]? = some t
    have h1 := h id t ht
    have hlt : id < s.heap.length := by
      rcases Nat.lt_or_ge id s.heap.length with h' | h'
      · exact h'
      · rw [List.getElem?_eq_none h'] at h1; cases h1
    rw [List.getElem?_append_left hlt]; exact h1
  inval := fun s id f o l v h hobj hf id' t ht => by
    show (s.heap.modify id _)[id']? = some t
    have h1 := h id' t ht
    rw [List.getElem?_modify]
    by_cases hi : id = id'
    · subst hi
      rw [hobj] at h1
      cases h1
      exact absurd hf (hgood id f o l v ht)
    · simp only [hi, if_false]; simpa using h1

/-- "Files other than the data file and the model file are what they were." -/
theorem stable_frame (fs0 : FS) (dest mp : String) :
    Stable dest mp (fun s => ∀ p, p ≠ dest → p ≠ mp → FS.get? s.fs p = FS.get? fs0 p) where
  tick := fun _ _ _ h => h
  cb := fun _ _ _ h => h
  cv := fun _ _ h => h
  fs := fun s fs' hfs h p h1 h2 => by
    show FS.get? fs' p = FS.get? fs0 p
    rw [hfs p h1 h2]; exact h p h1 h2
  new := fun _ _ h => h
  inval := fun _ _ _ _ _ _ h _ _ => h

/-- The `const_value` pointers after the call are the ones before it — `finally` of `ir.save`. -/
theorem save_cv (deep : Bool) (sig : List (String × Bool)) (dir name : String) (verbose : Bool) (s : St) :
    (save deep sig dir name verbose s).2.cv = s.cv := by
  unfold save
  show (M.bind get _ s).2.cv = s.cv
  simp only [M.bind, get]
  split
  · rfl
  · unfold irSave
    show (M.bind get _ s).2.cv = s.cv
    simp only [M.bind, get, tryFinally]

/-- The guard fires: nothing at all happens. -/
theorem save_guard (deep : Bool) (sig : List (String × Bool)) (dir name : String) (verbose : Bool) (s : St)
    (h : (guardHits deep sig s.cv).isEmpty = false) :
    save deep sig dir name verbose s = (.error .valueError, s) := by
  unfold save
  show M.bind get _ s = _
  simp only [M.bind, get, h]
  rfl

theorem guardHits_hit (deep : Bool) :
    ∀ (sig : List (String × Bool)) (cv : List (Option Nat)) (i : Nat) (n : String) (sub : Bool),
      sig[i]? = some (n, sub) → cv[i]? = some none → (deep = true ∨ sub = false) →
      (guardHits deep sig cv).isEmpty = false
  | [], _, i, _, _, h, _, _ => by simp at h
  | _ :: _, [], i, _, _, _, h, _ => by simp at h
  | (n0, sub0) :: sig, c :: cv, 0, n, sub, h1, h2, h3 => by
    simp only [List.getElem?_cons_zero, Option.some.injEq, Prod.mk.injEq] at h1 h2
    obtain ⟨rfl, rfl⟩ := h1
    subst h2
    unfold guardHits
    simp only [List.zip_cons_cons, List.filter_cons]
    simp [h3]
  | (n0, sub0) :: sig, c :: cv, i + 1, n, sub, h1, h2, h3 => by
    simp only [List.getElem?_cons_succ] at h1 h2
    have ih := guardHits_hit deep sig cv i n sub h1 h2 h3
    unfold guardHits at ih ⊢
    simp only [List.zip_cons_cons, List.filter_cons]
    split
    · simp
    · exact ih

/-! ### layout arithmetic -/

theorem newOffset_ge (cur size : Nat) : cur ≤ newOffset cur size := by
  unfold newOffset alignFactor alignThreshold
  split <;> omega

theorem newOffset_lt (cur size : Nat) : newOffset cur size < cur + alignFactor := by
  unfold newOffset alignFactor alignThreshold
  split <;> omega

theorem newOffset_aligned (cur size : Nat) (h : size > alignThreshold) : newOffset cur size % alignFactor = 0 := by
  unfold newOffset alignFactor alignThreshold at *
  simp only [h, if_true]
  omega

theorem newOffset_small (cur size : Nat) (h : size ≤ alignThreshold) : newOffset cur size = cur := by
  unfold newOffset alignThreshold at *
  have : ¬ size > 1048576 := by omega
  simp only [this, if_false]

/-- End of the file after writing tensors of the given sizes from `cur`. -/
def layoutEnd (cur : Nat) : List Nat → Nat
  | [] => cur
  | n :: ns => layoutEnd (newOffset cur n + n) ns

theorem layout_ge (cur : Nat) (sizes : List Nat) : ∀ e ∈ layout cur sizes, cur ≤ e.1 := by
  induction sizes generalizing cur with
  | nil => intro e h; simp [layout] at h
  | cons n ns ih =>
    intro e h
    simp only [layout, List.mem_cons] at h
    rcases h with rfl | h
    · exact newOffset_ge cur n
    · have := ih _ e h
      have := newOffset_ge cur n
      omega

theorem layoutEnd_ge (cur : Nat) (sizes : List Nat) : cur ≤ layoutEnd cur sizes := by
  induction sizes generalizing cur with
  | nil => simp [layoutEnd]
  | cons n ns ih =>
    simp only [layoutEnd]
    have := ih (newOffset cur n + n)
    have := newOffset_ge cur n
    omega

/-- Content appended to a file of length `cur` by the write loop, for tensors with the given bytes. -/
def image (cur : Nat) : List Bytes → Bytes
  | [] => []
  | b :: bs => zeros (newOffset cur b.length - cur) ++ b ++ image (newOffset cur b.length + b.length) bs

theorem image_length (cur : Nat) (bs : List Bytes) :
    cur + (image cur bs).length = layoutEnd cur (bs.map List.length) := by
  induction bs generalizing cur with
  | nil => simp [image, layoutEnd]
  | cons b bs ih =>
    simp only [image, List.map_cons, layoutEnd, List.length_append, zeros, List.length_replicate]
    have := ih (newOffset cur b.length + b.length)
    have := newOffset_ge cur b.length
    omega

theorem slice_append_left (a b : Bytes) (off len : Nat) (h : off + len ≤ a.length) :
    slice (a ++ b) off len = slice a off len := by
  unfold slice
  rw [List.drop_append_of_le_length (by omega)]
  rw [List.take_append_of_le_length (by simp; omega)]

theorem slice_exact (a b c : Bytes) : slice (a ++ b ++ c) a.length b.length = b := by
  unfold slice
  rw [List.append_assoc, List.drop_left, List.take_left]

end OV.C20

namespace OV.C20

theorem image_cons_eq (pre b : Bytes) (bs : List Bytes) :
    pre ++ image pre.length (b :: bs) =
      (pre ++ zeros (newOffset pre.length b.length - pre.length) ++ b) ++
        image (pre ++ zeros (newOffset pre.length b.length - pre.length) ++ b).length bs := by
  have hge := newOffset_ge pre.length b.length
  have hl : (pre ++ zeros (newOffset pre.length b.length - pre.length) ++ b).length
      = newOffset pre.length b.length + b.length := by
    simp only [List.length_append, zeros, List.length_replicate]; omega
  rw [hl]
  simp only [image, List.append_assoc]

/-- Reading back what the write loop wrote: for every prefix already in the file, every list of tensors (any sizes,
zero included) and every index, the recorded `(offset, length)` selects exactly that tensor's bytes. -/
theorem image_readback_aux (bs : List Bytes) : ∀ (pre : Bytes) (i : Nat), i < bs.length →
    ∃ e, (layout pre.length (bs.map List.length))[i]? = some e ∧ e.2 = (bs[i]?.getD []).length ∧
      slice (pre ++ image pre.length bs) e.1 e.2 = bs[i]?.getD [] := by
  induction bs with
  | nil => intro pre i h; simp at h
  | cons b bs ih =>
    intro pre i h
    have hge := newOffset_ge pre.length b.length
    cases i with
    | zero =>
      refine ⟨(newOffset pre.length b.length, b.length), by simp [layout], by simp, ?_⟩
      simp only [List.getElem?_cons_zero, Option.getD_some]
      rw [image_cons_eq]
      have hl : (pre ++ zeros (newOffset pre.length b.length - pre.length)).length = newOffset pre.length b.length := by
        simp only [List.length_append, zeros, List.length_replicate]; omega
      have := slice_exact (pre ++ zeros (newOffset pre.length b.length - pre.length)) b
        (image (pre ++ zeros (newOffset pre.length b.length - pre.length) ++ b).length bs)
      rw [hl] at this
      exact this
    | succ j =>
      have hj : j < bs.length := by simpa using h
      obtain ⟨e, he1, he2, he3⟩ := ih (pre ++ zeros (newOffset pre.length b.length - pre.length) ++ b) j hj
      have hl : (pre ++ zeros (newOffset pre.length b.length - pre.length) ++ b).length
          = newOffset pre.length b.length + b.length := by
        simp only [List.length_append, zeros, List.length_replicate]; omega
      refine ⟨e, ?_, ?_, ?_⟩
      · simp only [List.map_cons, layout, List.getElem?_cons_succ]
        rw [hl] at he1; exact he1
      · simpa using he2
      · rw [image_cons_eq]
        simpa using he3

end OV.C20

namespace OV.C20

/-! ### the fault-free write loop on in-memory tensors -/

theorem tick_ok (op : Op) (s : St) (hk : s.k = none) :
    tick op s = (.ok (), { s with calls := s.calls + 1, trace := s.trace ++ [op] }) := by
  unfold tick
  simp [hk]

theorem get?_set_eq (fs : FS) (f : String) (c : Content) : FS.get? (FS.set fs f c) f = some c := by
  induction fs with
  | nil => simp [FS.set, FS.get?, List.lookup]
  | cons x rest ih =>
    obtain ⟨g, d⟩ := x
    simp only [FS.set]
    by_cases hg : g = f
    · subst hg; simp [FS.get?, List.lookup]
    · simp only [hg, if_false, FS.get?, List.lookup]
      have : (f == g) = false := by simpa using (fun h => hg h.symm)
      simp only [this]
      exact ih

theorem set_set (fs : FS) (f : String) (c d : Content) : FS.set (FS.set fs f c) f d = FS.set fs f d := by
  induction fs with
  | nil => simp [FS.set]
  | cons x rest ih =>
    obtain ⟨g, e⟩ := x
    simp only [FS.set]
    by_cases hg : g = f
    · subst hg; simp [FS.set]
    · simp only [hg, if_false, FS.set, ih]

theorem set_same (fs : FS) (f : String) (c : Content) (h : FS.get? fs f = some c) : FS.set fs f c = fs := by
  induction fs with
  | nil => simp [FS.get?] at h
  | cons x rest ih =>
    obtain ⟨g, d⟩ := x
    simp only [FS.get?, List.lookup] at h
    simp only [FS.set]
    by_cases hg : g = f
    · subst hg
      simp only [BEq.rfl, Option.some.injEq] at h
      subst h; simp
    · have : (f == g) = false := by simpa using (fun h => hg h.symm)
      simp only [this] at h
      simp only [hg, if_false, List.cons.injEq, true_and]
      exact ih h

theorem append_data (fs : FS) (f : String) (c b : Bytes) (h : FS.get? fs f = some (.data c)) :
    FS.append fs f b = FS.set fs f (.data (c ++ b)) := by
  unfold FS.append
  rw [h]

/-- Items handed to the write loop for tensors `(name, id, bytes)` laid out from `cur`. -/
def mkItems (cur : Nat) : List (String × Nat × Bytes) → List (String × Nat × Nat)
  | [] => []
  | (n, id, b) :: r => (n, id, newOffset cur b.length) :: mkItems (newOffset cur b.length + b.length) r

/-- What matters of a state for the fault-free lemmas (everything but the call counter, trace and callback log). -/
structure Core (s s' : St) (fs' : FS) : Prop where
  k : s'.k = s.k
  heap : s'.heap = s.heap
  cv : s'.cv = s.cv
  fs : s'.fs = fs'

theorem bind_apply (f : M α) (g : α → M β) (s : St) :
    (f >>= g) s = match f s with
      | (.ok a, s') => g a s'
      | (.error e, s') => (.error e, s') := rfl
theorem pure_apply (a : α) (s : St) : (pure a : M α) s = (.ok a, s) := rfl
theorem get_apply (s : St) : get s = (.ok s, s) := rfl
theorem modify_apply (g : St → St) (s : St) : modify g s = (.ok (), g s) := rfl

theorem fileLen_data (f : String) (c : Bytes) (s : St) (h : FS.get? s.fs f = some (.data c)) :
    fileLen f s = (.ok c.length, s) := by
  unfold fileLen
  simp only [bind_apply, get_apply, h, pure_apply]

theorem getObj_ok (id : Nat) (t : TRef) (s : St) (h : s.heap[id]? = some t) : getObj id s = (.ok t, s) := by
  rcases getObj_spec id s with ⟨t', ht, hg⟩ | ⟨hn, _⟩
  · rw [h] at ht; cases ht; exact hg
  · rw [h] at hn; cases hn

/-- `tensor.tofile(file)` for an in-memory tensor, no fault: the bytes are appended, nothing else changes. -/
theorem tofile_mem_ok (dest : String) (id : Nat) (b c : Bytes) (np : Bool) (s : St)
    (hk : s.k = none) (hobj : s.heap[id]? = some (.mem b np)) (hfile : FS.get? s.fs dest = some (.data c)) :
    ∃ s', tofile dest id s = (.ok (), s') ∧ Core s s' (FS.set s.fs dest (.data (c ++ b))) := by
  unfold tofile
  simp only [bind_apply, getObj_ok id _ s hobj]
  cases np with
  | true =>
    simp only [bind_apply, tick_ok _ s hk, fsCWrite, modify_apply, append_data _ _ _ _ hfile]
    rw [fileLen_data dest (c ++ b) _ (by simp only [get?_set_eq])]
    simp only []
    rw [tick_ok _ _ (by exact hk)]
    exact ⟨_, rfl, ⟨rfl, rfl, rfl, rfl⟩⟩
  | false =>
    simp only [fsWrite, bind_apply, tick_ok _ s hk, modify_apply, append_data _ _ _ _ hfile]
    exact ⟨_, rfl, ⟨rfl, rfl, rfl, rfl⟩⟩

theorem Core.trans {s s1 s2 : St} {fs1 fs2 : FS} (h1 : Core s s1 fs1) (h2 : Core s1 s2 fs2) : Core s s2 fs2 :=
  ⟨h2.k.trans h1.k, h2.heap.trans h1.heap, h2.cv.trans h1.cv, h2.fs⟩

/-- The part of `writeOne` after the callback: padding up to the offset, then `tofile`. -/
theorem writeRest_ok (dest : String) (id : Nat) (b c : Bytes) (np : Bool) (s : St)
    (hk : s.k = none) (hobj : s.heap[id]? = some (.mem b np)) (hfile : FS.get? s.fs dest = some (.data c)) :
    ∃ s', (do
        let size ← fileLen dest
        if newOffset c.length b.length > size then do
            fsWrite dest (zeros (newOffset c.length b.length - size))
            tofile dest id
          else tofile dest id) s = (.ok (), s') ∧
      Core s s' (FS.set s.fs dest (.data (c ++ zeros (newOffset c.length b.length - c.length) ++ b))) := by
  have hge := newOffset_ge c.length b.length
  simp only [bind_apply, fileLen_data dest c s hfile]
  by_cases hpad : newOffset c.length b.length > c.length
  · simp only [hpad, if_true, fsWrite, bind_apply, tick_ok _ s hk, modify_apply, append_data _ _ _ _ hfile]
    obtain ⟨s', h1, h2⟩ := tofile_mem_ok dest id b (c ++ zeros (newOffset c.length b.length - c.length)) np
      { s with calls := s.calls + 1, trace := s.trace ++ [Op.write dest (zeros (newOffset c.length b.length - c.length)).length],
               fs := FS.set s.fs dest (.data (c ++ zeros (newOffset c.length b.length - c.length))) }
      hk hobj (by simp only [get?_set_eq])
    refine ⟨s', h1, ?_⟩
    have h3 := h2.fs
    simp only [set_set] at h3
    exact ⟨h2.k, h2.heap, h2.cv, h3⟩
  · simp only [hpad, if_false]
    obtain ⟨s', h1, h2⟩ := tofile_mem_ok dest id b c np s hk hobj hfile
    refine ⟨s', h1, ?_⟩
    have : newOffset c.length b.length - c.length = 0 := by omega
    rw [this]
    simpa [zeros] using h2

theorem writeOne_ok (dest : String) (verbose : Bool) (name : String) (id : Nat) (b c : Bytes) (np : Bool) (s : St)
    (hk : s.k = none) (hobj : s.heap[id]? = some (.mem b np)) (hfile : FS.get? s.fs dest = some (.data c)) :
    ∃ s', writeOne dest verbose (name, id, newOffset c.length b.length) s = (.ok (), s') ∧
      Core s s' (FS.set s.fs dest (.data (c ++ zeros (newOffset c.length b.length - c.length) ++ b))) := by
  unfold writeOne
  simp only []
  cases verbose with
  | false =>
    simp only [Bool.false_eq_true, if_false]
    exact writeRest_ok dest id b c np s hk hobj hfile
  | true =>
    simp only [if_true, bind_apply, modify_apply]
    obtain ⟨s', h1, h2⟩ := writeRest_ok dest id b c np
      { s with cb := s.cb ++ [(name, newOffset c.length b.length)] } hk hobj hfile
    exact ⟨s', h1, ⟨h2.k, h2.heap, h2.cv, h2.fs⟩⟩

/-- The whole loop, no fault, in-memory tensors: the file grows by exactly `image`. -/
theorem writeLoop_ok (dest : String) (verbose : Bool) :
    ∀ (ts : List (String × Nat × Bytes)) (c : Bytes) (s : St), s.k = none →
      (∀ x ∈ ts, ∃ np, s.heap[x.2.1]? = some (.mem x.2.2 np)) →
      FS.get? s.fs dest = some (.data c) →
      ∃ s', forM' (writeOne dest verbose) (mkItems c.length ts) s = (.ok (), s') ∧
        Core s s' (FS.set s.fs dest (.data (c ++ image c.length (ts.map (·.2.2))))) := by
  intro ts
  induction ts with
  | nil =>
    intro c s hk _ hf
    refine ⟨s, rfl, ⟨rfl, rfl, rfl, ?_⟩⟩
    simp only [List.map_nil, image, List.append_nil]
    exact (set_same _ _ _ hf).symm
  | cons t ts ih =>
    intro c s hk hobjs hf
    obtain ⟨n, id, b⟩ := t
    obtain ⟨np, hnp⟩ := hobjs (n, id, b) (List.mem_cons_self)
    obtain ⟨s1, h1, c1⟩ := writeOne_ok dest verbose n id b c np s hk hnp hf
    have hk1 : s1.k = none := by rw [c1.k]; exact hk
    have hlen : (c ++ zeros (newOffset c.length b.length - c.length) ++ b).length = newOffset c.length b.length + b.length := by
      have := newOffset_ge c.length b.length
      simp only [List.length_append, zeros, List.length_replicate]; omega
    obtain ⟨s2, h2, c2⟩ := ih (c ++ zeros (newOffset c.length b.length - c.length) ++ b) s1 hk1
      (by
        intro x hx
        obtain ⟨np', h'⟩ := hobjs x (List.mem_cons_of_mem _ hx)
        exact ⟨np', by rw [c1.heap]; exact h'⟩)
      (by rw [c1.fs]; exact get?_set_eq _ _ _)
    refine ⟨s2, ?_, ?_⟩
    · simp only [mkItems, forM', bind_apply, h1]
      rw [hlen] at h2
      exact h2
    · have := Core.trans c1 c2
      refine ⟨this.k, this.heap, this.cv, ?_⟩
      have hfs := this.fs
      rw [c1.fs, set_set, hlen] at hfs
      rw [hfs]
      simp only [List.map_cons, image, List.append_assoc]

/-- `_write_external_data`, no fault, in-memory tensors: afterwards the data file is exactly `image 0 …`. -/
theorem writeExternalData_ok (dest : String) (verbose : Bool) (ts : List (String × Nat × Bytes)) (s : St)
    (hk : s.k = none) (hobjs : ∀ x ∈ ts, ∃ np, s.heap[x.2.1]? = some (.mem x.2.2 np)) :
    ∃ s', writeExternalData dest verbose (mkItems 0 ts) s = (.ok (), s') ∧
      Core s s' (FS.set s.fs dest (.data (image 0 (ts.map (·.2.2))))) := by
  unfold writeExternalData fsOpenW
  simp only [bind_apply, tick_ok _ s hk, modify_apply]
  -- the state inside the `with` block
  generalize hs0 : ({ s with calls := s.calls + 1, trace := s.trace ++ [Op.openW dest],
                             fs := FS.set s.fs dest (.data []) } : St) = s0
  have hk0 : s0.k = none := by rw [← hs0]; exact hk
  have hh0 : s0.heap = s.heap := by rw [← hs0]
  have hc0 : s0.cv = s.cv := by rw [← hs0]
  have hf0 : s0.fs = FS.set s.fs dest (.data []) := by rw [← hs0]
  have hbody : ∀ (st : St), st.k = none → st.heap = s.heap → st.cv = s.cv → st.fs = FS.set s.fs dest (.data []) →
      ∃ st', forM' (writeOne dest verbose) (mkItems 0 ts) st = (.ok (), st') ∧
        Core st st' (FS.set s.fs dest (.data (image 0 (ts.map (·.2.2))))) := by
    intro st hkst hhst _ hfst
    obtain ⟨st', h1, h2⟩ := writeLoop_ok dest verbose ts [] st hkst
      (by intro x hx; obtain ⟨np, h⟩ := hobjs x hx; exact ⟨np, by rw [hhst]; exact h⟩)
      (by rw [hfst]; exact get?_set_eq _ _ _)
    refine ⟨st', h1, ⟨h2.k, h2.heap, h2.cv, ?_⟩⟩
    rw [h2.fs, hfst, set_set]
    simp
  unfold withClose
  by_cases hcb : (verbose && !(mkItems 0 ts).isEmpty) = true
  · simp only [hcb, if_true, bind_apply, modify_apply]
    obtain ⟨st', h1, h2⟩ := hbody { s0 with cbTotal := some (mkItems 0 ts).length } hk0 hh0 hc0 hf0
    rw [h1]
    simp only []
    rw [tick_ok _ st' (by rw [h2.k]; exact hk0)]
    exact ⟨_, rfl, ⟨by show st'.k = s.k; rw [h2.k]; show s0.k = s.k; rw [← hs0],
      by show st'.heap = s.heap; rw [h2.heap]; exact hh0,
      by show st'.cv = s.cv; rw [h2.cv]; exact hc0, h2.fs⟩⟩
  · simp only [hcb]
    obtain ⟨st', h1, h2⟩ := hbody s0 hk0 hh0 hc0 hf0
    simp only [Bool.false_eq_true, if_false]
    rw [h1]
    simp only []
    rw [tick_ok _ st' (by rw [h2.k]; exact hk0)]
    exact ⟨_, rfl, ⟨by show st'.k = s.k; rw [h2.k]; rw [← hs0],
      by show st'.heap = s.heap; rw [h2.heap]; exact hh0,
      by show st'.cv = s.cv; rw [h2.cv]; exact hc0, h2.fs⟩⟩

end OV.C20
