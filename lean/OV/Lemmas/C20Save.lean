import OV.Model.C20Save
/-!
# C20 — invariant machinery for the save model

`Inv I f`: the state predicate `I` survives `f` on **every** exit (normal or exceptional) and for every fault plan
(the plan `k` is a field of the state and is universally quantified).  `Stable` lists what an invariant has to
tolerate; every function of the model is shown to keep every stable invariant once (`inv_*`).  Two instances are
used by the property theorems: "the original tensor objects are still there, unchanged" and "files other than the two
destination files are untouched".
-/
namespace OV.C20
set_option linter.unusedSectionVars false

instance : DecidableEq (Except Err Unit)
  | .ok (), .ok () => isTrue rfl
  | .error a, .error b => if h : a = b then isTrue (by rw [h]) else isFalse (by intro h'; cases h'; exact h rfl)
  | .ok (), .error _ => isFalse (by intro h; cases h)
  | .error _, .ok () => isFalse (by intro h; cases h)

def Inv (I : St → Prop) (f : M α) : Prop := ∀ s, I s → I (f s).2

theorem inv_pure {I : St → Prop} (a : α) : Inv I (pure a : M α) := fun _ h => h

theorem inv_bind {I : St → Prop} {f : M α} {g : α → M β} (hf : Inv I f) (hg : ∀ a, Inv I (g a)) :
    Inv I (f >>= g) := by
  intro s hs
  show I (M.bind f g s).2
  unfold M.bind
  have h1 := hf s hs
  cases h : f s with
  | mk r s1 =>
    rw [h] at h1
    cases r with
    | ok a => exact hg a s1 h1
    | error e => exact h1

theorem inv_seq {I : St → Prop} {f : M Unit} {g : M β} (hf : Inv I f) (hg : Inv I g) :
    Inv I (do f; g) := inv_bind hf (fun _ => hg)

theorem inv_throw {I : St → Prop} (e : Err) : Inv I (throw e : M α) := fun _ h => h
theorem inv_get {I : St → Prop} : Inv I get := fun _ h => h
theorem inv_modify {I : St → Prop} {g : St → St} (h : ∀ s, I s → I (g s)) : Inv I (modify g) := fun s hs => h s hs

/-- What the invariants used here tolerate.  `W` = files the save may write. -/
structure Stable0 (dest mp : String) (I : St → Prop) : Prop where
  /-- one file-system call is counted and traced -/
  tick : ∀ s op, I s → I { s with calls := s.calls + 1, trace := s.trace ++ [op] }
  cb : ∀ s c t, I s → I { s with cb := c, cbTotal := t }
  cv : ∀ s c, I s → I { s with cv := c }
  tn : ∀ s t, I s → I { s with tn := t }
  /-- a change of the two destination files through a write handle -/
  fs : ∀ s fs', (∀ p, p ≠ dest → p ≠ mp → FS.get? fs' p = FS.get? s.fs p) → s.wopened ≠ [] → I s → I { s with fs := fs' }
  /-- a successful (i.e. not the planned fault) `open(f, "wb")` of a destination file, from the state before the call:
  the call is counted and traced, the file truncated, the handle recorded -/
  openW : ∀ s f fs', (∀ p, p ≠ dest → p ≠ mp → FS.get? fs' p = FS.get? s.fs p) → I s → s.k ≠ some s.calls →
    I { s with calls := s.calls + 1, trace := s.trace ++ [.openW f], fs := fs', wopened := s.wopened ++ [f] }
  new : ∀ s t, I s → I { s with heap := s.heap ++ [t] }

structure Stable (dest mp : String) (I : St → Prop) : Prop extends Stable0 dest mp I where
  inval : ∀ s id f o l v, I s → s.heap[id]? = some (.ext f o l v) → f = dest →
    I { s with heap := s.heap.modify id fun | .ext f o l _ => .ext f o l false | t => t }

section
variable {I : St → Prop}

theorem inv_tryFinally {body : M α} {fin : St → St} (hb : Inv I body) (hf : ∀ s, I s → I (fin s)) :
    Inv I (tryFinally body fin) := by
  intro s hs
  unfold tryFinally
  exact hf _ (hb s hs)

theorem inv_mapM' {f : α → M β} (hf : ∀ a, Inv I (f a)) : ∀ l, Inv I (mapM' f l)
  | [] => inv_pure _
  | a :: as => by
    unfold mapM'
    exact inv_bind (hf a) (fun _ => inv_bind (inv_mapM' hf as) (fun _ => inv_pure _))

theorem inv_forM' {f : α → M Unit} (hf : ∀ a, Inv I (f a)) : ∀ l, Inv I (forM' f l)
  | [] => inv_pure _
  | a :: as => by
    unfold forM'
    exact inv_bind (hf a) (fun _ => inv_forM' hf as)

end

theorem get?_set_ne (fs : FS) (f p : String) (c : Content) (h : p ≠ f) :
    FS.get? (FS.set fs f c) p = FS.get? fs p := by
  induction fs with
  | nil =>
    simp only [FS.set, FS.get?, List.lookup]
    have : (p == f) = false := by simpa using h
    simp [this]
  | cons x rest ih =>
    obtain ⟨g, d⟩ := x
    simp only [FS.set]
    by_cases hg : g = f
    · subst hg
      simp only [if_true, FS.get?, List.lookup]
      have : (p == g) = false := by simpa using h
      simp [this]
    · simp only [hg, if_false, FS.get?, List.lookup]
      simp only [FS.get?] at ih
      cases hpg : p == g <;> simp [ih]

theorem get?_append_ne (fs : FS) (f p : String) (b : Bytes) (h : p ≠ f) :
    FS.get? (FS.append fs f b) p = FS.get? fs p := by
  unfold FS.append
  split <;> exact get?_set_ne _ _ _ _ h

section
variable {dest mp : String} {I : St → Prop} (S : Stable0 dest mp I)
include S

omit S in
theorem tick_cases (op : Op) (s : St) :
    tick op s = (.error .osError, { s with calls := s.calls + 1, trace := s.trace ++ [op] }) ∨
    tick op s = (.ok (), { s with calls := s.calls + 1, trace := s.trace ++ [op] }) := by
  unfold tick
  by_cases h : s.k = some s.calls <;> simp [h]

theorem inv_tick (op : Op) : Inv I (tick op) := by
  intro s hs
  unfold tick
  split <;> exact S.tick s _ hs

theorem inv_withClose {body : M α} (f : String) (hb : Inv I body) : Inv I (withClose f body) := by
  intro s hs
  unfold withClose
  have h1 := hb s hs
  cases h : body s with
  | mk r s1 =>
    rw [h] at h1
    have h2 := inv_tick S (.close f) s1 h1
    cases r with
    | ok a =>
      simp only []
      cases h' : tick (.close f) s1 with
      | mk r2 s2 => rw [h'] at h2; cases r2 <;> exact h2
    | error e =>
      simp only []
      cases h' : tick (.close f) s1 with
      | mk r2 s2 => rw [h'] at h2; cases r2 <;> exact h2

/-! ### file-system primitives (only on `dest` or `mp`) -/

theorem frame_set (fs : FS) (f : String) (c : Content) (hf : f = dest ∨ f = mp) :
    ∀ p, p ≠ dest → p ≠ mp → FS.get? (FS.set fs f c) p = FS.get? fs p := by
  intro p h1 h2
  apply get?_set_ne
  rcases hf with h | h <;> (rw [h]; assumption)

theorem frame_append (fs : FS) (f : String) (b : Bytes) (hf : f = dest ∨ f = mp) :
    ∀ p, p ≠ dest → p ≠ mp → FS.get? (FS.append fs f b) p = FS.get? fs p := by
  intro p h1 h2
  apply get?_append_ne
  rcases hf with h | h <;> (rw [h]; assumption)

theorem inv_fsOpenW (f : String) (hf : f = dest ∨ f = mp) : Inv I (fsOpenW f) := by
  intro s hs
  unfold fsOpenW
  show I (M.bind (tick _) _ s).2
  unfold M.bind
  by_cases hk : s.k = some s.calls
  · have : tick (.openW f) s = (.error .osError, { s with calls := s.calls + 1, trace := s.trace ++ [.openW f] }) := by
      unfold tick; rw [if_pos hk]
    rw [this]
    exact S.tick s _ hs
  · have : tick (.openW f) s = (.ok (), { s with calls := s.calls + 1, trace := s.trace ++ [.openW f] }) := by
      unfold tick; rw [if_neg hk]
    rw [this]
    exact S.openW s f _ (frame_set S s.fs f _ hf) hs hk

/-- A body run behind `needHandle f` may assume some write handle exists. -/
theorem inv_needHandle (f : String) {body : M α} (hb : ∀ s, I s → s.wopened ≠ [] → I (body s).2) :
    Inv I (needHandle f >>= fun _ => body) := by
  intro s hs
  show I (M.bind (needHandle f) _ s).2
  unfold M.bind needHandle
  by_cases h : s.wopened.contains f = true
  · simp only [h, if_true]
    apply hb s hs
    intro hnil
    rw [hnil] at h
    simp at h
  · simp only [h]
    exact hs

theorem inv_fsWrite (f : String) (b : Bytes) (hf : f = dest ∨ f = mp) : Inv I (fsWrite f b) := by
  unfold fsWrite
  apply inv_needHandle S
  intro s hs hw
  show I (M.bind (tick _) _ s).2
  unfold M.bind
  rcases tick_cases _ s with h | h <;> rw [h]
  · exact S.tick s _ hs
  · exact S.fs _ _ (frame_append S s.fs f b hf) hw (S.tick s _ hs)

theorem inv_fsCWrite (f : String) (b : Bytes) (hf : f = dest ∨ f = mp) : Inv I (fsCWrite f b) := by
  unfold fsCWrite
  apply inv_needHandle S
  intro s hs hw
  exact S.fs _ _ (frame_append S s.fs f b hf) hw hs

theorem inv_fsWriteProto (f : String) (p : Proto) (hf : f = dest ∨ f = mp) : Inv I (fsWriteProto f p) := by
  unfold fsWriteProto
  apply inv_needHandle S
  intro s hs hw
  show I (M.bind (tick _) _ s).2
  unfold M.bind
  rcases tick_cases _ s with h | h <;> rw [h]
  · exact S.tick s _ hs
  · exact S.fs _ _ (frame_set S s.fs f _ hf) hw (S.tick s _ hs)

theorem inv_fsOpenR (f : String) : Inv I (fsOpenR f) := by
  unfold fsOpenR
  refine inv_bind (inv_tick S _) (fun _ => inv_bind inv_get (fun s => ?_))
  split
  · exact inv_pure _
  · exact inv_throw _
  · exact inv_throw _

theorem inv_fileLen (f : String) : Inv I (fileLen f) := by
  unfold fileLen
  refine inv_bind inv_get (fun s => ?_)
  split <;> exact inv_pure _

/-! ### tensor objects -/

theorem inv_newObj (t : TRef) : Inv I (newObj t) := by
  intro s hs
  unfold newObj
  exact S.new s t hs

theorem inv_getObj (id : Nat) : Inv I (getObj id) := by
  unfold getObj
  refine inv_bind inv_get (fun s => ?_)
  split
  · exact inv_pure _
  · exact inv_throw _

theorem inv_extToMem (id : Nat) : Inv I (extToMem id) := by
  unfold extToMem
  refine inv_bind (inv_getObj S id) (fun t => ?_)
  split
  · exact inv_throw _
  · split
    · exact inv_throw _
    · split
      · exact inv_newObj S _
      · refine inv_bind (inv_fsOpenR S _) (fun whole => ?_)
        refine inv_bind (inv_withClose S _ ?_) (fun _ => ?_)
        · split
          · exact inv_throw _
          · exact inv_pure _
        · split
          · exact inv_newObj S _
          · exact inv_throw _

end

/-- `getObj` returns what is in the heap and leaves the state alone. -/
theorem getObj_spec (id : Nat) (s : St) :
    (∃ t, s.heap[id]? = some t ∧ getObj id s = (.ok t, s)) ∨ (s.heap[id]? = none ∧ getObj id s = (.error .typeError, s)) := by
  unfold getObj
  cases h : s.heap[id]? with
  | none =>
    right
    refine ⟨rfl, ?_⟩
    show M.bind get _ s = _
    simp only [M.bind, get, h]
    rfl
  | some t =>
    left
    refine ⟨t, rfl, ?_⟩
    show M.bind get _ s = _
    simp only [M.bind, get, h]
    rfl

/-- "the object at `id` is this external tensor" survives everything that only appends to the heap. -/
theorem stable0_objAt (dest mp : String) (id : Nat) (t : TRef) :
    Stable0 dest mp (fun s => s.heap[id]? = some t) where
  tick := fun _ _ h => h
  cb := fun _ _ _ h => h
  cv := fun _ _ h => h
  tn := fun _ _ h => h
  fs := fun _ _ _ _ h => h
  openW := fun _ _ _ _ h _ => h
  new := fun s t' h => by
    show (s.heap ++ [t'])[id]? = some t
    have hlt : id < s.heap.length := by
      rcases Nat.lt_or_ge id s.heap.length with h' | h'
      · exact h'
      · rw [List.getElem?_eq_none h'] at h; cases h
    rw [List.getElem?_append_left hlt]; exact h

section
variable {dest mp : String} {I : St → Prop} (S : Stable dest mp I)
include S

theorem inv_materializeOne (exists_ : Bool) (p : String × Nat) : Inv I (materializeOne dest exists_ p) := by
  intro s hs
  unfold materializeOne
  split
  · exact hs
  · show I (M.bind (getObj p.2) _ s).2
    unfold M.bind
    rcases getObj_spec p.2 s with ⟨t, ht, hg⟩ | ⟨_, hg⟩
    · rw [hg]
      simp only []
      cases t with
      | mem b np => exact hs
      | ext f o l v =>
        simp only []
        split
        · rename_i hfd
          -- extToMem, then invalidate the original object
          show I (M.bind (extToMem p.2) _ s).2
          unfold M.bind
          have h1 := inv_extToMem S.toStable0 p.2 s hs
          have hkeep := inv_extToMem (stable0_objAt dest mp p.2 (.ext f o l v)) p.2 s ht
          cases h : extToMem p.2 s with
          | mk r s1 =>
            rw [h] at h1 hkeep
            cases r with
            | error e => exact h1
            | ok nid =>
              simp only []
              show I (M.bind (invalidate p.2) _ s1).2
              unfold M.bind invalidate modify
              simp only []
              exact S.inval s1 p.2 f o l v h1 hkeep hfd
        · exact hs
    · rw [hg]
      exact hs

/-! ### writing, placing, unloading, saving — `dest` is the data file, `mp` the model file -/

theorem inv_tofile (id : Nat) : Inv I (tofile dest id) := by
  unfold tofile
  refine inv_bind (inv_getObj S.toStable0 id) (fun t => ?_)
  split
  · refine inv_bind (inv_tick S.toStable0 _) (fun _ => ?_)
    refine inv_bind (inv_fsCWrite S.toStable0 _ _ (Or.inl rfl)) (fun _ => ?_)
    exact inv_bind (inv_fileLen S.toStable0 _) (fun _ => inv_tick S.toStable0 _)
  · exact inv_fsWrite S.toStable0 _ _ (Or.inl rfl)
  · split
    · exact inv_throw _
    · refine inv_bind (inv_fsOpenR S.toStable0 _) (fun whole => ?_)
      apply inv_withClose S.toStable0
      refine inv_bind (inv_tick S.toStable0 _) (fun _ => ?_)
      refine inv_bind (inv_forM' (fun c => ?_) _) (fun _ => ?_)
      · exact inv_bind (inv_tick S.toStable0 _) (fun _ => inv_fsWrite S.toStable0 _ _ (Or.inl rfl))
      · split
        · exact inv_bind (inv_tick S.toStable0 _) (fun _ => inv_throw _)
        · exact inv_pure _

theorem inv_writeOne (verbose : Bool) (item : String × Nat × Nat) : Inv I (writeOne dest verbose item) := by
  unfold writeOne
  obtain ⟨name, id, off⟩ := item
  simp only []
  have rest : Inv I (do
      let size ← fileLen dest
      if off > size then do
          fsWrite dest (zeros (off - size))
          tofile dest id
        else tofile dest id) := by
    refine inv_bind (inv_fileLen S.toStable0 _) (fun size => ?_)
    split
    · exact inv_bind (inv_fsWrite S.toStable0 _ _ (Or.inl rfl)) (fun _ => inv_tofile S id)
    · exact inv_tofile S id
  split
  · exact inv_bind (inv_modify (fun s hs => S.cb s _ _ hs)) (fun _ => rest)
  · exact rest

theorem inv_writeExternalData (verbose : Bool) (items : List (String × Nat × Nat)) :
    Inv I (writeExternalData dest verbose items) := by
  unfold writeExternalData
  refine inv_bind (inv_fsOpenW S.toStable0 _ (Or.inl rfl)) (fun _ => ?_)
  apply inv_withClose S.toStable0
  dsimp only
  split
  · exact inv_bind (inv_modify (fun s hs => S.cb s _ _ hs)) (fun _ => inv_forM' (fun it => inv_writeOne S verbose it) _)
  · exact inv_forM' (fun it => inv_writeOne S verbose it) _

theorem inv_placeAndWrite (verbose : Bool) (names : List String) (ids : List Nat) :
    Inv I (placeAndWrite dest verbose names ids) := by
  unfold placeAndWrite
  refine inv_bind (inv_mapM' (fun id => ?_) _) (fun sizes => ?_)
  · unfold sizeOf
    exact inv_bind (inv_getObj S.toStable0 id) (fun _ => inv_pure _)
  · simp only []
    refine inv_bind (inv_writeExternalData S verbose _) (fun _ => ?_)
    refine inv_bind (inv_mapM' (fun p => ?_) _) (fun made => ?_)
    · unfold makeExternal
      exact inv_bind (inv_newObj S.toStable0 _) (fun _ => inv_pure _)
    · split
      · exact inv_pure _
      · exact inv_throw _

theorem inv_convertToExternal (verbose : Bool) (inp : List (String × Nat)) :
    Inv I (convertToExternal dest verbose inp) := by
  unfold convertToExternal
  refine inv_bind inv_get (fun s => ?_)
  simp only []
  exact inv_bind (inv_mapM' (fun p => inv_materializeOne S _ p) _) (fun ids => inv_placeAndWrite S verbose _ ids)

theorem inv_unload {thr : Nat} (names : List String) (verbose : Bool) : Inv I (unload thr names dest verbose) := by
  unfold unload
  refine inv_bind inv_get (fun s => ?_)
  refine inv_bind (inv_mapM' (fun i => inv_extToMem S.toStable0 _) _) (fun memIds => ?_)
  refine inv_bind (inv_convertToExternal S verbose _) (fun extIds => ?_)
  exact inv_modify (fun s' hs => S.cv s' _ hs)

end

/-- Every stable invariant (for `dest = dir/name.data`, `mp = dir/name`) survives the whole save, for every fault plan. -/
theorem inv_save {I : St → Prop} (cfg : Cfg) (sig : List (String × Bool)) (tnames : List String) (dir name : String) (verbose : Bool)
    (S : Stable (joinPath dir (name ++ ".data")) (joinPath dir name) I) :
    Inv I (save cfg sig tnames dir name verbose) := by
  unfold save
  refine inv_bind inv_get (fun s => ?_)
  split
  · exact inv_throw _
  · split
    · exact inv_throw _
    have hir : Inv I (irSave cfg.thr sig tnames dir name (name ++ ".data") verbose) := by
      unfold irSave
      refine inv_bind inv_get (fun s0 => ?_)
      apply inv_tryFinally
      · refine inv_bind (inv_unload S _ verbose) (fun _ => ?_)
        refine inv_bind (inv_modify (fun s' hs => S.tn s' _ hs)) (fun _ => ?_)
        refine inv_bind inv_get (fun s1 => ?_)
        split
        · exact inv_throw _
        · simp only []
          refine inv_bind (inv_fsOpenW S.toStable0 _ (Or.inr rfl)) (fun _ => ?_)
          exact inv_withClose S.toStable0 _ (inv_fsWriteProto S.toStable0 _ _ (Or.inr rfl))
      · intro s hs
        exact S.cv s _ hs
    split
    · exact inv_tryFinally hir (fun s' hs => S.tn s' _ hs)
    · exact hir

/-! ### the two invariants used by the property theorems -/

/-- "Every original tensor object is still in the heap, unchanged" — stable provided no original object is an
`ExternalTensor` living in the destination data file. -/
theorem stable_orig (h0 : List TRef) (dest mp : String)
    (hgood : ∀ (id : Nat) (f : String) (o l : Nat) (v : Bool), h0[id]? = some (TRef.ext f o l v) → f ≠ dest) :
    Stable dest mp (fun s => ∀ (id : Nat) (t : TRef), h0[id]? = some t → s.heap[id]? = some t) where
  tick := fun _ _ h => h
  cb := fun _ _ _ h => h
  cv := fun _ _ h => h
  tn := fun _ _ h => h
  fs := fun _ _ _ _ h => h
  openW := fun _ _ _ _ h _ => h
  new := fun s t' h id t ht => by
    show (s.heap ++ [t'])[id]? = some t
    have h1 := h id t ht
    have hlt : id < s.heap.length := by
      rcases Nat.lt_or_ge id s.heap.length with h' | h'
      · exact h'
      · rw [List.getElem?_eq_none h'] at h1; cases h1
    rw [List.getElem?_append_left hlt]; exact h1
  inval := fun s id f o l v h hobj hf id' t ht => by
    show (s.heap.modify id _)[id']? = some t
    have h1 := h id' t ht
    rw [List.getElem?_modify]
    by_cases hi : id = id'
    · subst hi
      rw [hobj] at h1
      cases h1
      exact absurd hf (hgood id f o l v ht)
    · simp only [hi, if_false]; simpa using h1

/-- "Files other than the data file and the model file are what they were." -/
theorem stable_frame (fs0 : FS) (dest mp : String) :
    Stable dest mp (fun s => ∀ p, p ≠ dest → p ≠ mp → FS.get? s.fs p = FS.get? fs0 p) where
  tick := fun _ _ h => h
  cb := fun _ _ _ h => h
  cv := fun _ _ h => h
  tn := fun _ _ h => h
  fs := fun s fs' hfs _ h p h1 h2 => by
    show FS.get? fs' p = FS.get? fs0 p
    rw [hfs p h1 h2]; exact h p h1 h2
  openW := fun s f fs' hfs h _ p h1 h2 => by
    show FS.get? fs' p = FS.get? fs0 p
    rw [hfs p h1 h2]; exact h p h1 h2
  new := fun _ _ h => h
  inval := fun _ _ _ _ _ _ h _ _ => h

/-- "Unless some open-for-write call has succeeded, the file system is the initial one" — with the bookkeeping that makes
it checkable against the trace: the fault plan never changes, the trace has one entry per call, and a successful
open-for-write is a trace entry `openW f` whose index is not the planned fault. -/
def Untouched (fs0 : FS) (k0 : Option Nat) (s : St) : Prop :=
  s.k = k0 ∧ s.trace.length = s.calls ∧
    ((s.fs = fs0 ∧ s.wopened = []) ∨ (∃ i f, s.trace[i]? = some (Op.openW f) ∧ k0 ≠ some i))

theorem stable_untouched (fs0 : FS) (k0 : Option Nat) (dest mp : String) : Stable dest mp (Untouched fs0 k0) where
  tick := fun s op ⟨hk, hl, h⟩ => by
    refine ⟨hk, by simp [hl], ?_⟩
    rcases h with h | ⟨i, f, hi, hne⟩
    · exact Or.inl h
    · refine Or.inr ⟨i, f, ?_, hne⟩
      show (s.trace ++ [op])[i]? = _
      have hlt : i < s.trace.length := by
        rcases Nat.lt_or_ge i s.trace.length with h' | h'
        · exact h'
        · rw [List.getElem?_eq_none h'] at hi; cases hi
      rw [List.getElem?_append_left hlt]; exact hi
  cb := fun _ _ _ h => h
  cv := fun _ _ h => h
  tn := fun _ _ h => h
  fs := fun s fs' _ hw ⟨hk, hl, h⟩ => by
    refine ⟨hk, hl, ?_⟩
    rcases h with ⟨_, h2⟩ | h
    · exact absurd h2 hw
    · exact Or.inr h
  openW := fun s f fs' _ ⟨hk, hl, _⟩ hne => by
    refine ⟨hk, by simp [hl], Or.inr ⟨s.calls, f, ?_, by rw [← hk]; exact hne⟩⟩
    show (s.trace ++ [Op.openW f])[s.calls]? = _
    rw [← hl]
    simp
  new := fun _ _ h => h
  inval := fun _ _ _ _ _ _ h _ _ => h

/-- The `const_value` pointers after the call are the ones before it — `finally` of `ir.save`. -/
theorem irSave_cv (thr : Nat) (sig : List (String × Bool)) (tnames : List String) (dir name rel : String) (verbose : Bool) (s : St) :
    (irSave thr sig tnames dir name rel verbose s).2.cv = s.cv := by
  unfold irSave
  show (M.bind get _ s).2.cv = s.cv
  simp only [M.bind, get, tryFinally]

theorem save_cv (cfg : Cfg) (sig : List (String × Bool)) (tnames : List String) (dir name : String) (verbose : Bool) (s : St) :
    (save cfg sig tnames dir name verbose s).2.cv = s.cv := by
  unfold save
  show (M.bind get _ s).2.cv = s.cv
  simp only [M.bind, get]
  split
  · rfl
  · split
    · rfl
    split
    · simp only [tryFinally]
      exact irSave_cv _ sig tnames dir name _ verbose s
    · exact irSave_cv _ sig tnames dir name _ verbose s

/-- With the name-restoring `finally` (`cfg.keepNames`), the tensor names after the call are the ones before it. -/
theorem save_tn (cfg : Cfg) (hkn : cfg.keepNames = true) (sig : List (String × Bool)) (tnames : List String)
    (dir name : String) (verbose : Bool) (s : St) :
    (save cfg sig tnames dir name verbose s).2.tn = s.tn := by
  unfold save
  show (M.bind get _ s).2.tn = s.tn
  simp only [M.bind, get, hkn, if_true]
  split
  · rfl
  · split
    · rfl
    · simp only [tryFinally]

/-- The guard fires: nothing at all happens. -/
theorem save_guard (cfg : Cfg) (sig : List (String × Bool)) (tnames : List String) (dir name : String) (verbose : Bool) (s : St)
    (h : (guardHits cfg.deep sig s.cv).isEmpty = false) :
    save cfg sig tnames dir name verbose s = (.error .valueError, s) := by
  unfold save
  show M.bind get _ s = _
  simp only [M.bind, get, h]
  rfl

/-- The second guard (tensors stored in the destination data file) fires: nothing at all happens. -/
theorem save_guard2 (cfg : Cfg) (sig : List (String × Bool)) (tnames : List String) (dir name : String) (verbose : Bool) (s : St)
    (hr : cfg.refuse = true) (h : (destHits (joinPath dir (name ++ ".data")) s.heap s.cv).isEmpty = false) :
    (save cfg sig tnames dir name verbose s).1 = .error .valueError ∧ (save cfg sig tnames dir name verbose s).2 = s := by
  unfold save
  show (M.bind get _ s).1 = _ ∧ (M.bind get _ s).2 = _
  simp only [M.bind, get, hr, h]
  split <;> exact ⟨rfl, rfl⟩

/-- The second guard's other half (3d20cf2: tensors stored in the file at `model_path` itself) fires: nothing at all happens. -/
theorem save_guard3 (cfg : Cfg) (sig : List (String × Bool)) (tnames : List String) (dir name : String) (verbose : Bool) (s : St)
    (hr : cfg.refuseModel = true) (h : (destHits (joinPath dir name) s.heap s.cv).isEmpty = false) :
    (save cfg sig tnames dir name verbose s).1 = .error .valueError ∧ (save cfg sig tnames dir name verbose s).2 = s := by
  unfold save
  show (M.bind get _ s).1 = _ ∧ (M.bind get _ s).2 = _
  simp only [M.bind, get, hr, h, Bool.not_false, Bool.and_self, Bool.or_true]
  split <;> exact ⟨rfl, rfl⟩

theorem guardHits_hit (deep : Bool) :
    ∀ (sig : List (String × Bool)) (cv : List (Option Nat)) (i : Nat) (n : String) (sub : Bool),
      sig[i]? = some (n, sub) → cv[i]? = some none → (deep = true ∨ sub = false) →
      (guardHits deep sig cv).isEmpty = false
  | [], _, i, _, _, h, _, _ => by simp at h
  | _ :: _, [], i, _, _, _, h, _ => by simp at h
  | (n0, sub0) :: sig, c :: cv, 0, n, sub, h1, h2, h3 => by
    simp only [List.getElem?_cons_zero, Option.some.injEq, Prod.mk.injEq] at h1 h2
    obtain ⟨rfl, rfl⟩ := h1
    subst h2
    unfold guardHits
    simp only [List.zip_cons_cons, List.filter_cons]
    simp [h3]
  | (n0, sub0) :: sig, c :: cv, i + 1, n, sub, h1, h2, h3 => by
    simp only [List.getElem?_cons_succ] at h1 h2
    have ih := guardHits_hit deep sig cv i n sub h1 h2 h3
    unfold guardHits at ih ⊢
    simp only [List.zip_cons_cons, List.filter_cons]
    split
    · simp
    · exact ih

/-! ### layout arithmetic -/

theorem newOffset_ge (cur size : Nat) : cur ≤ newOffset cur size := by
  unfold newOffset alignFactor alignThreshold
  split <;> omega

theorem newOffset_lt (cur size : Nat) : newOffset cur size < cur + alignFactor := by
  unfold newOffset alignFactor alignThreshold
  split <;> omega

theorem newOffset_aligned (cur size : Nat) (h : size > alignThreshold) : newOffset cur size % alignFactor = 0 := by
  unfold newOffset alignFactor alignThreshold at *
  simp only [h, if_true]
  omega

theorem newOffset_small (cur size : Nat) (h : size ≤ alignThreshold) : newOffset cur size = cur := by
  unfold newOffset alignThreshold at *
  have : ¬ size > 1048576 := by omega
  simp only [this, if_false]

/-- End of the file after writing tensors of the given sizes from `cur`. -/
def layoutEnd (cur : Nat) : List Nat → Nat
  | [] => cur
  | n :: ns => layoutEnd (newOffset cur n + n) ns

theorem layout_ge (cur : Nat) (sizes : List Nat) : ∀ e ∈ layout cur sizes, cur ≤ e.1 := by
  induction sizes generalizing cur with
  | nil => intro e h; simp [layout] at h
  | cons n ns ih =>
    intro e h
    simp only [layout, List.mem_cons] at h
    rcases h with rfl | h
    · exact newOffset_ge cur n
    · have := ih _ e h
      have := newOffset_ge cur n
      omega

theorem layoutEnd_ge (cur : Nat) (sizes : List Nat) : cur ≤ layoutEnd cur sizes := by
  induction sizes generalizing cur with
  | nil => simp [layoutEnd]
  | cons n ns ih =>
    simp only [layoutEnd]
    have := ih (newOffset cur n + n)
    have := newOffset_ge cur n
    omega

/-- Content appended to a file of length `cur` by the write loop, for tensors with the given bytes. -/
def image (cur : Nat) : List Bytes → Bytes
  | [] => []
  | b :: bs => zeros (newOffset cur b.length - cur) ++ b ++ image (newOffset cur b.length + b.length) bs

theorem image_length (cur : Nat) (bs : List Bytes) :
    cur + (image cur bs).length = layoutEnd cur (bs.map List.length) := by
  induction bs generalizing cur with
  | nil => simp [image, layoutEnd]
  | cons b bs ih =>
    simp only [image, List.map_cons, layoutEnd, List.length_append, zeros, List.length_replicate]
    have := ih (newOffset cur b.length + b.length)
    have := newOffset_ge cur b.length
    omega

theorem slice_append_left (a b : Bytes) (off len : Nat) (h : off + len ≤ a.length) :
    slice (a ++ b) off len = slice a off len := by
  unfold slice
  rw [List.drop_append_of_le_length (by omega)]
  rw [List.take_append_of_le_length (by simp; omega)]

theorem slice_exact (a b c : Bytes) : slice (a ++ b ++ c) a.length b.length = b := by
  unfold slice
  rw [List.append_assoc, List.drop_left, List.take_left]

end OV.C20

namespace OV.C20

theorem image_cons_eq (pre b : Bytes) (bs : List Bytes) :
    pre ++ image pre.length (b :: bs) =
      (pre ++ zeros (newOffset pre.length b.length - pre.length) ++ b) ++
        image (pre ++ zeros (newOffset pre.length b.length - pre.length) ++ b).length bs := by
  have hge := newOffset_ge pre.length b.length
  have hl : (pre ++ zeros (newOffset pre.length b.length - pre.length) ++ b).length
      = newOffset pre.length b.length + b.length := by
    simp only [List.length_append, zeros, List.length_replicate]; omega
  rw [hl]
  simp only [image, List.append_assoc]

/-- Reading back what the write loop wrote: for every prefix already in the file, every list of tensors (any sizes,
zero included) and every index, the recorded `(offset, length)` selects exactly that tensor's bytes. -/
theorem image_readback_aux (bs : List Bytes) : ∀ (pre : Bytes) (i : Nat), i < bs.length →
    ∃ e, (layout pre.length (bs.map List.length))[i]? = some e ∧ e.2 = (bs[i]?.getD []).length ∧
      slice (pre ++ image pre.length bs) e.1 e.2 = bs[i]?.getD [] := by
  induction bs with
  | nil => intro pre i h; simp at h
  | cons b bs ih =>
    intro pre i h
    have hge := newOffset_ge pre.length b.length
    cases i with
    | zero =>
      refine ⟨(newOffset pre.length b.length, b.length), by simp [layout], by simp, ?_⟩
      simp only [List.getElem?_cons_zero, Option.getD_some]
      rw [image_cons_eq]
      have hl : (pre ++ zeros (newOffset pre.length b.length - pre.length)).length = newOffset pre.length b.length := by
        simp only [List.length_append, zeros, List.length_replicate]; omega
      have := slice_exact (pre ++ zeros (newOffset pre.length b.length - pre.length)) b
        (image (pre ++ zeros (newOffset pre.length b.length - pre.length) ++ b).length bs)
      rw [hl] at this
      exact this
    | succ j =>
      have hj : j < bs.length := by simpa using h
      obtain ⟨e, he1, he2, he3⟩ := ih (pre ++ zeros (newOffset pre.length b.length - pre.length) ++ b) j hj
      have hl : (pre ++ zeros (newOffset pre.length b.length - pre.length) ++ b).length
          = newOffset pre.length b.length + b.length := by
        simp only [List.length_append, zeros, List.length_replicate]; omega
      refine ⟨e, ?_, ?_, ?_⟩
      · simp only [List.map_cons, layout, List.getElem?_cons_succ]
        rw [hl] at he1; exact he1
      · simpa using he2
      · rw [image_cons_eq]
        simpa using he3

end OV.C20

namespace OV.C20

end OV.C20

