import OV.Lemmas.C09Shape
/-! Broadcasting lemmas for C09 (core Lean only): strategies 1–3 of `_check_expand_removable`. -/
set_option linter.unusedSimpArgs false
namespace OV.C09

theorem bdim_some_cases {a e d : Int} (h : bdim a e = some d) :
    (a = 1 ∧ d = e) ∨ (e = 1 ∧ d = a) ∨ (a = e ∧ d = a) := by
  unfold bdim at h
  by_cases h1 : a = 1
  · simp only [h1, if_true, Option.some.injEq] at h; exact Or.inl ⟨h1, h.symm⟩
  · by_cases h2 : e = 1
    · simp only [h1, h2, if_true, if_false, Option.some.injEq] at h; exact Or.inr (Or.inl ⟨h2, h.symm⟩)
    · by_cases h3 : a = e
      · simp only [h1, h2, h3, if_true, if_false, Option.some.injEq] at h
        exact Or.inr (Or.inr ⟨h3, by omega⟩)
      · simp only [h1, h2, h3, if_false] at h; cases h

/-- Head identity of strategy 1: expanding `a` by `e` and then broadcasting with `b` is broadcasting
`a` with `b` directly — as `Option`s, i.e. including which inputs are rejected. -/
theorem bdim_expand_then {a e b : Int} (h : e = 1 ∨ a = e ∨ b = e) :
    (bdim a e).bind (fun d => bdim d b) = bdim a b := by
  rcases h with h | h | h
  · subst h; rw [bdim_one_right]; rfl
  · subst h; rw [bdim_self]; rfl
  · subst h
    unfold bdim
    by_cases h1 : a = 1
    · simp [h1]
    · by_cases h2 : b = 1
      · simp [h1, h2]
      · by_cases h3 : a = b
        · simp [h1, h2, h3]
        · simp [h1, h2, h3]

theorem bcastN_length : ∀ (n : Nat) (a b t : List Int), bcastN n a b = some t → t.length = n
  | 0, _, _, t, h => by simp only [bcastN, Option.some.injEq] at h; subst h; rfl
  | n + 1, a, b, t, h => by
    simp only [bcastN] at h
    cases hd : bdim (a.headD 1) (b.headD 1) with
    | none => simp only [hd, Option.bind_none] at h; cases h
    | some d =>
      simp only [hd, Option.bind_some, Option.map_eq_some_iff] at h
      obtain ⟨t', ht', rfl⟩ := h
      simp only [List.length_cons, bcastN_length n _ _ t' ht']

theorem admits_hd_tl {σ : String → Nat} {s : Shape} {l : List Int} (h : Admits σ s l) :
    (hd1 s).Admits σ (l.headD 1) ∧ Admits σ s.tail l.tail := by
  match s, l, h with
  | [], [], _ => simp only [hd1, List.headD_nil, Dim.Admits, List.tail_nil, Admits, and_self]
  | [], _ :: _, h => simp only [Admits] at h
  | _ :: _, [], h => simp only [Admits] at h
  | d :: s, v :: l, h =>
    simp only [Admits] at h
    simp only [hd1, List.headD_cons, List.tail_cons]; exact h

theorem s1Rev_cons {e : Int} {es : List Int} {x y : Shape} {k : Nat} (h : s1Rev (e :: es) x y k = none) :
    dimOk1 e (hd1 x) (hd1 y) = true ∧ s1Rev es x.tail y.tail (k + 1) = none := by
  simp only [s1Rev] at h
  by_cases hc : dimOk1 e (hd1 x) (hd1 y) = true
  · simp only [hc, if_true] at h; exact ⟨hc, h⟩
  · simp only [hc] at h; cases h

theorem suffRev_cons {e : Dim} {es x y : Shape} {k : Nat} (h : suffRev (e :: es) x y k = none) :
    dimOk2 e (hd1 x) (hd1 y) = true ∧ suffRev es x.tail y.tail (k + 1) = none := by
  simp only [suffRev] at h
  by_cases hc : dimOk2 e (hd1 x) (hd1 y) = true
  · simp only [hc, if_true] at h; exact ⟨hc, h⟩
  · simp only [hc] at h; cases h

/-- what `dimOk1` means for the concrete values -/
theorem dimOk1_sem {σ : String → Nat} {e a b : Int} {xd yd : Dim}
    (hok : dimOk1 e xd yd = true) (hx : xd.Admits σ a) (hy : yd.Admits σ b) : e = 1 ∨ a = e ∨ b = e := by
  simp only [dimOk1, Bool.or_eq_true, decide_eq_true_eq] at hok
  rcases hok with (h | h) | h
  · exact Or.inl h
  · subst h; simp only [Dim.Admits] at hx; exact Or.inr (Or.inl hx.symm)
  · subst h; simp only [Dim.Admits] at hy; exact Or.inr (Or.inr hy.symm)

/-- **Strategy 1, reversed lists.**  `m` dims of Expand, `n ≥ m` dims of the binary op. -/
theorem s1_core {σ : String → Nat} : ∀ (m n : Nat) (e : List Int) (x y : Shape) (lx ly : List Int) (k : Nat),
    m = max lx.length e.length → m ≤ n → s1Rev e x y k = none → Admits σ x lx → Admits σ y ly →
    (bcastN m lx e).bind (fun le => bcastN n le ly) = bcastN n lx ly
  | 0, n, e, x, y, lx, ly, k, hm, _, _, _, _ => by
    have h1 : lx = [] := List.eq_nil_of_length_eq_zero (by omega)
    subst h1
    simp only [bcastN, Option.bind_some]
  | m + 1, 0, _, _, _, _, _, _, _, hmn, _, _, _ => by omega
  | m + 1, n + 1, e, x, y, lx, ly, k, hm, hmn, hs, hx, hy => by
    obtain ⟨hxh, hxt⟩ := admits_hd_tl hx
    obtain ⟨hyh, hyt⟩ := admits_hd_tl hy
    have hlen : m = max lx.tail.length e.tail.length := by
      simp only [List.length_tail]; omega
    -- head condition and tail loop
    have hhead : (e.headD 1) = 1 ∨ lx.headD 1 = e.headD 1 ∨ ly.headD 1 = e.headD 1 ∧ True := by
      cases e with
      | nil => exact Or.inl rfl
      | cons ed es =>
        have := dimOk1_sem (s1Rev_cons hs).1 hxh hyh
        simp only [List.headD_cons]
        rcases this with h | h | h
        · exact Or.inl h
        · exact Or.inr (Or.inl h)
        · exact Or.inr (Or.inr ⟨h, trivial⟩)
    have hhead' : e.headD 1 = 1 ∨ lx.headD 1 = e.headD 1 ∨ ly.headD 1 = e.headD 1 := by
      rcases hhead with h | h | h
      · exact Or.inl h
      · exact Or.inr (Or.inl h)
      · exact Or.inr (Or.inr h.1)
    have htail : s1Rev e.tail x.tail y.tail (k + 1) = none := by
      cases e with
      | nil => simp only [List.tail_nil, s1Rev]
      | cons ed es => exact (s1Rev_cons hs).2
    have ih := s1_core (σ := σ) m n e.tail x.tail y.tail lx.tail ly.tail (k + 1) hlen (by omega) htail hxt hyt
    have hH := bdim_expand_then hhead'
    simp only [bcastN]
    generalize bdim (lx.headD 1) (e.headD 1) = o1 at hH ⊢
    generalize bcastN m lx.tail e.tail = o2 at ih ⊢
    generalize bcastN n lx.tail ly.tail = o3 at ih ⊢
    generalize bdim (lx.headD 1) (ly.headD 1) = o4 at hH ⊢
    cases o1 with
    | none =>
      simp only [Option.bind_none] at hH ⊢
      subst hH; simp only [Option.bind_none]
    | some d =>
      simp only [Option.bind_some] at hH ⊢
      cases o2 with
      | none =>
        simp only [Option.bind_none] at ih
        subst ih
        simp only [Option.map_none, Option.bind_none, Option.bind_fun_none]
      | some t =>
        simp only [Option.bind_some] at ih
        simp only [Option.map_some, Option.bind_some, List.headD_cons, List.tail_cons, hH, ih]

theorem admits_append {σ : String → Nat} : ∀ {s1 s2 : Shape} {l1 l2 : List Int},
    Admits σ s1 l1 → Admits σ s2 l2 → Admits σ (s1 ++ s2) (l1 ++ l2)
  | [], _, [], _, _, h2 => by simpa only [List.nil_append] using h2
  | [], _, _ :: _, _, h1, _ => by simp only [Admits] at h1
  | _ :: _, _, [], _, h1, _ => by simp only [Admits] at h1
  | d :: s1, s2, v :: l1, l2, h1, h2 => by
    simp only [Admits] at h1
    simp only [List.cons_append, Admits]
    exact ⟨h1.1, admits_append h1.2 h2⟩

theorem admits_reverse {σ : String → Nat} : ∀ {s : Shape} {l : List Int}, Admits σ s l → Admits σ s.reverse l.reverse
  | [], [], _ => by simp only [List.reverse_nil, Admits]
  | [], _ :: _, h => by simp only [Admits] at h
  | _ :: _, [], h => by simp only [Admits] at h
  | d :: s, v :: l, h => by
    simp only [Admits] at h
    simp only [List.reverse_cons]
    exact admits_append (admits_reverse h.2) (by simp only [Admits]; exact ⟨h.1, trivial⟩)

theorem hasUnknown_reverse (s : Shape) : hasUnknown s.reverse = hasUnknown s := by
  simp only [hasUnknown, List.any_reverse]

theorem semEq_iff {d1 d2 : Dim} : semEq d1 d2 = true ↔ d1.isUnknown = false ∧ d2.isUnknown = false ∧ d1 = d2 := by
  simp only [semEq, Bool.and_eq_true, Bool.not_eq_true', decide_eq_true_eq, and_assoc]

/-- what `dimOk2` means for concrete values (`_same_dim` never equates unnamed dims) -/
theorem dimOk2_sem {σ : String → Nat} {ed xd yd : Dim} {v a b : Int}
    (hok : dimOk2 ed xd yd = true)
    (he : ed.Admits σ v) (hx : xd.Admits σ a) (hy : yd.Admits σ b) : v = 1 ∨ a = v ∨ b = v := by
  simp only [dimOk2, Bool.or_eq_true, decide_eq_true_eq] at hok
  rcases hok with (h | h) | h
  · subst h; simp only [Dim.Admits] at he; exact Or.inl he.symm
  · obtain ⟨_, hu, rfl⟩ := semEq_iff.mp h; exact Or.inr (Or.inl (Dim.admits_det hu hx he))
  · obtain ⟨_, hu, rfl⟩ := semEq_iff.mp h; exact Or.inr (Or.inr (Dim.admits_det hu hy he))

/-- head identity of strategy 2: `v` is the expanded value of `a` (so `a = v ∨ a = 1`). -/
theorem bdim_expanded {a v b : Int} (hav : a = v ∨ a = 1) (h : v = 1 ∨ a = v ∨ b = v) :
    bdim v b = bdim a b := by
  rcases hav with h1 | h1
  · subst h1; rfl
  · subst h1
    rcases h with h | h | h
    · subst h; rfl
    · subst h; rfl
    · subst h; rw [bdim_self, bdim_one_left]

/-- **Strategy 2, reversed lists.** `lE` is what Expand produced from `lx` (`m` dims), `E` its
annotation without unnamed dims. -/
theorem s2_core {σ : String → Nat} : ∀ (m n : Nat) (E x y : Shape) (lx le lE ly : List Int) (k : Nat),
    m = max lx.length le.length → m ≤ n → bcastN m lx le = some lE →
    suffRev E x y k = none → Admits σ E lE → Admits σ x lx → Admits σ y ly →
    bcastN n lE ly = bcastN n lx ly
  | 0, n, E, x, y, lx, le, lE, ly, k, hm, _, hb, _, _, _, _ => by
    have h1 : lx = [] := List.eq_nil_of_length_eq_zero (by omega)
    simp only [bcastN, Option.some.injEq] at hb
    subst h1; subst hb; rfl
  | m + 1, 0, _, _, _, _, _, _, _, _, _, hmn, _, _, _, _, _ => by omega
  | m + 1, n + 1, E, x, y, lx, le, lE, ly, k, hm, hmn, hb, hs, hE, hx, hy => by
    simp only [bcastN] at hb
    cases hd : bdim (lx.headD 1) (le.headD 1) with
    | none => simp only [hd, Option.bind_none] at hb; cases hb
    | some d =>
      simp only [hd, Option.bind_some, Option.map_eq_some_iff] at hb
      obtain ⟨t, ht, rfl⟩ := hb
      match E, hE with
      | [], hE => simp only [Admits] at hE
      | Ed :: Es, hE =>
        simp only [Admits] at hE
        obtain ⟨hxh, hxt⟩ := admits_hd_tl hx
        obtain ⟨hyh, hyt⟩ := admits_hd_tl hy
        obtain ⟨hok, htl⟩ := suffRev_cons hs
        have hsem := dimOk2_sem hok hE.1 hxh hyh
        have hav : lx.headD 1 = d ∨ lx.headD 1 = 1 := by
          rcases bdim_some_cases hd with h | h | h
          · exact Or.inr h.1
          · exact Or.inl h.2.symm
          · exact Or.inl h.2.symm
        have hlen : m = max lx.tail.length le.tail.length := by
          simp only [List.length_tail]; omega
        have ih := s2_core (σ := σ) m n Es x.tail y.tail lx.tail le.tail t ly.tail (k + 1) hlen (by omega) ht htl
          hE.2 hxt hyt
        simp only [bcastN, List.headD_cons, List.tail_cons, bdim_expanded hav hsem, ih]

/-- Symbolic broadcast is a truthful annotation of the numeric broadcast. -/
theorem bcastDim_sound {σ : String → Nat} {d1 d2 c : Dim} {a b v : Int}
    (h : bcastDim d1 d2 = some c) (h1 : d1.Admits σ a) (h2 : d2.Admits σ b) (hv : bdim a b = some v) :
    c.Admits σ v := by
  unfold bcastDim at h
  by_cases e1 : d1 = .known 1
  · simp only [e1, if_true, Option.some.injEq] at h
    subst h; subst e1; simp only [Dim.Admits] at h1; subst h1
    rw [bdim_one_left] at hv; simp only [Option.some.injEq] at hv; subst hv; exact h2
  · by_cases e2 : d2 = .known 1
    · simp only [e1, e2, if_true, if_false, Option.some.injEq] at h
      subst h; subst e2; simp only [Dim.Admits] at h2; subst h2
      rw [bdim_one_right] at hv; simp only [Option.some.injEq] at hv; subst hv; exact h1
    · by_cases e3 : semEq d1 d2 = true
      · simp only [e1, e2, e3, if_true, if_false, Option.some.injEq] at h
        obtain ⟨_, _, e3'⟩ := semEq_iff.mp e3
        subst h; subst e3'
        rcases bdim_some_cases hv with h | h | h
        · rw [h.2]; exact h2
        · rw [h.2]; exact h1
        · rw [h.2]; exact h1
      · simp only [e1, e2, e3, if_false] at h; cases h

/-- … and when the symbolic result has no unnamed dim the numeric broadcast is defined. -/
theorem bcastDim_defined {σ : String → Nat} {d1 d2 c : Dim} {a b : Int}
    (h : bcastDim d1 d2 = some c) (hc : c.isUnknown = false) (h1 : d1.Admits σ a) (h2 : d2.Admits σ b) :
    ∃ v, bdim a b = some v := by
  unfold bcastDim at h
  by_cases e1 : d1 = .known 1
  · subst e1; simp only [Dim.Admits] at h1; subst h1; exact ⟨b, bdim_one_left b⟩
  · by_cases e2 : d2 = .known 1
    · subst e2; simp only [Dim.Admits] at h2; subst h2; exact ⟨a, bdim_one_right a⟩
    · by_cases e3 : semEq d1 d2 = true
      · simp only [e1, e2, e3, if_true, if_false, Option.some.injEq] at h
        obtain ⟨_, _, e3'⟩ := semEq_iff.mp e3
        subst h; subst e3'
        have := Dim.admits_det hc h1 h2
        subst this; exact ⟨a, bdim_self a⟩
      · simp only [e1, e2, e3, if_false] at h; cases h

theorem bcastShapeN_sound {σ : String → Nat} : ∀ (n : Nat) (x y c : Shape) (lx ly : List Int),
    bcastShapeN n x y = some c → Admits σ x lx → Admits σ y ly →
    (∀ lo, bcastN n lx ly = some lo → Admits σ c lo) ∧
    (hasUnknown c = false → ∃ lo, bcastN n lx ly = some lo)
  | 0, x, y, c, lx, ly, h, _, _ => by
    simp only [bcastShapeN, Option.some.injEq] at h; subst h
    refine ⟨fun lo hlo => ?_, fun _ => ⟨[], rfl⟩⟩
    simp only [bcastN, Option.some.injEq] at hlo; subst hlo; simp only [Admits]
  | n + 1, x, y, c, lx, ly, h, hx, hy => by
    simp only [bcastShapeN] at h
    cases hd : bcastDim (hd1 x) (hd1 y) with
    | none => simp only [hd, Option.bind_none] at h; cases h
    | some d =>
      simp only [hd, Option.bind_some, Option.map_eq_some_iff] at h
      obtain ⟨ct, hct, rfl⟩ := h
      obtain ⟨hxh, hxt⟩ := admits_hd_tl hx
      obtain ⟨hyh, hyt⟩ := admits_hd_tl hy
      obtain ⟨ih1, ih2⟩ := bcastShapeN_sound (σ := σ) n x.tail y.tail ct lx.tail ly.tail hct hxt hyt
      refine ⟨fun lo hlo => ?_, fun hu => ?_⟩
      · simp only [bcastN] at hlo
        cases hv : bdim (lx.headD 1) (ly.headD 1) with
        | none => simp only [hv, Option.bind_none] at hlo; cases hlo
        | some v =>
          simp only [hv, Option.bind_some, Option.map_eq_some_iff] at hlo
          obtain ⟨lt, hlt, rfl⟩ := hlo
          simp only [Admits]
          exact ⟨bcastDim_sound hd hxh hyh hv, ih1 lt hlt⟩
      · simp only [hasUnknown, List.any_cons, Bool.or_eq_false_iff] at hu
        obtain ⟨v, hv⟩ := bcastDim_defined hd hu.1 hxh hyh
        obtain ⟨lt, hlt⟩ := ih2 (by simpa only [hasUnknown] using hu.2)
        exact ⟨v :: lt, by simp only [bcastN, hv, Option.bind_some, hlt, Option.map_some]⟩

/-- elementwise `_same_dim` on two shapes of equal length: they are the same shape and contain no unnamed dim -/
theorem zipWith_semEq_all : ∀ (c out : Shape), c.length = out.length → (List.zipWith semEq c out).all id = true →
    c = out ∧ hasUnknown out = false
  | [], [], _, _ => ⟨rfl, rfl⟩
  | [], _ :: _, h, _ => by simp only [List.length_nil, List.length_cons] at h; omega
  | _ :: _, [], h, _ => by simp only [List.length_nil, List.length_cons] at h; omega
  | d :: c, e :: out, hl, h => by
    simp only [List.zipWith_cons_cons, List.all_cons, id, Bool.and_eq_true] at h
    obtain ⟨_, hu, rfl⟩ := semEq_iff.mp h.1
    obtain ⟨rfl, hu'⟩ := zipWith_semEq_all c out (by simpa using hl) h.2
    refine ⟨rfl, ?_⟩
    simp only [hasUnknown, List.any_cons, hu, Bool.false_or]
    simpa only [hasUnknown] using hu'

end OV.C09
