import OV.Lemmas.C03Sem
/-!
# Helper lemmas for C03: node lists, preservation of bindings, single-step rewrites
-/
namespace OV.C03

variable {V : Type}

theorem evalNodes_append (f : Env V → Node → Option (Env V)) : ∀ (a b : List Node) (ρ : Env V),
    evalNodes f ρ (a ++ b) = (evalNodes f ρ a).bind fun ρ' => evalNodes f ρ' b
  | [], _, _ => rfl
  | n :: a, b, ρ => by
    simp only [List.cons_append, evalNodes]
    cases f ρ n with
    | none => rfl
    | some ρ' => exact evalNodes_append f a b ρ'

theorem bindOuts_get_other {x : Name} : ∀ {xs : List Name} {vs : List V} {ρ ρ' : Env V},
    bindOuts ρ xs vs = some ρ' → xs.contains x = false → ρ' x = ρ x
  | [], [], _, _, h, _ => by simp only [bindOuts, Option.some.injEq] at h; rw [h]
  | [], _ :: _, _, _, h, _ => by simp only [bindOuts, Option.some.injEq] at h; rw [h]
  | _ :: _, [], _, _, h, _ => by simp [bindOuts] at h
  | y :: ys, w :: ws, ρ, ρ', h, hx => by
    simp only [List.contains_cons, Bool.or_eq_false_iff] at hx
    have hne : x ≠ y := by
      intro e; subst e; simp at hx
    simp only [bindOuts] at h
    rw [bindOuts_get_other h hx.2, Env.set_get_ne ρ w hne]

/-- A node only changes the bindings of its own outputs. -/
theorem evalNode_get_other (sem : Sem V) {sub} {ρ ρ' : Env V} {n : Node} {x : Name}
    (h : evalNode sem sub ρ n = some ρ') (hx : n.outputs.contains x = false) : ρ' x = ρ x := by
  unfold evalNode at h
  cases h1 : lookupAll ρ n.inputs with
  | none => simp [h1] at h
  | some args =>
    simp only [h1, Option.bind] at h
    cases h2 : nodeOutputs sem sub ρ n args with
    | none => simp [h2] at h
    | some vs =>
      simp only [h2] at h
      exact bindOuts_get_other h hx

theorem evalNodes_get_other (sem : Sem V) {sub} {x : Name} : ∀ {ns : List Node} {ρ ρ' : Env V},
    evalNodes (evalNode sem sub) ρ ns = some ρ' → (∀ n ∈ ns, n.outputs.contains x = false) → ρ' x = ρ x
  | [], _, _, h, _ => by simp only [evalNodes, Option.some.injEq] at h; rw [h]
  | n :: ns, ρ, ρ', h, hx => by
    simp only [evalNodes] at h
    cases h1 : evalNode sem sub ρ n with
    | none => simp [h1] at h
    | some ρ1 =>
      simp only [h1, Option.bind] at h
      rw [evalNodes_get_other sem h (fun m hm => hx m (List.mem_cons_of_mem _ hm)),
          evalNode_get_other sem h1 (hx n List.mem_cons_self)]

/-- `lookupAll` only reads the listed names. -/
theorem lookupAll_congr {ρ ρ' : Env V} : ∀ {xs : List (Option Name)},
    (∀ x, some x ∈ xs → ρ' x = ρ x) → lookupAll ρ' xs = lookupAll ρ xs
  | [], _ => rfl
  | none :: xs, h => by
    simp only [lookupAll, lookupIn]
    rw [lookupAll_congr (fun x hx => h x (List.mem_cons_of_mem _ hx))]
  | some y :: xs, h => by
    simp only [lookupAll, lookupIn]
    rw [h y List.mem_cons_self, lookupAll_congr (fun x hx => h x (List.mem_cons_of_mem _ hx))]

theorem lookupOuts_pointwise {ρ : Env V} : ∀ {xs ys : List Name},
    xs.length = ys.length → (∀ i (h1 : i < xs.length) (h2 : i < ys.length), ρ (xs[i]) = ρ (ys[i])) →
    lookupOuts ρ xs = lookupOuts ρ ys
  | [], [], _, _ => rfl
  | [], _ :: _, hl, _ => by simp at hl
  | _ :: _, [], hl, _ => by simp at hl
  | x :: xs, y :: ys, hl, h => by
    simp only [lookupOuts]
    have h0 := h 0 (by simp) (by simp)
    simp only [List.getElem_cons_zero] at h0
    rw [h0]
    rw [lookupOuts_pointwise (xs := xs) (ys := ys) (by simpa using hl)
      (fun i h1 h2 => by
        have := h (i + 1) (by simpa using h1) (by simpa using h2)
        simpa only [List.getElem_cons_succ] using this)]

/-- Substitute `y` for `x` in an input list (the first loop of `process_node`). -/
def substIn (x y : Name) (l : List (Option Name)) : List (Option Name) :=
  l.map fun z => if z = some x then some y else z

theorem lookupAll_substIn {ρ : Env V} {x y : Name} (h : ρ x = ρ y) : ∀ (l : List (Option Name)),
    lookupAll ρ (substIn x y l) = lookupAll ρ l
  | [] => rfl
  | z :: l => by
    simp only [substIn, List.map_cons, lookupAll]
    have ih := lookupAll_substIn h l
    simp only [substIn] at ih
    rw [ih]
    by_cases hz : z = some x
    · subst hz; simp [lookupIn, h]
    · simp [hz]

theorem bindInits_append (sem : Sem V) : ∀ (a b : List (Name × String)) (ρ : Env V),
    bindInits sem ρ (a ++ b) = bindInits sem (bindInits sem ρ a) b
  | [], _, _ => rfl
  | (x, t) :: a, b, ρ => by simp only [List.cons_append, bindInits]; exact bindInits_append sem a b _

theorem find_append_single {o : Name} {c : String} {inits : List (Name × String)} {x : Name}
    (hx : x ≠ o) : ((inits ++ [(o, c)]).find? (fun p => p.1 == x)).map (·.2) = (inits.find? (fun p => p.1 == x)).map (·.2) := by
  have hox : (o == x) = false := by simp [Ne.symm hx]
  induction inits with
  | nil => simp [List.find?, hox]
  | cons p r ih =>
    simp only [List.cons_append, List.find?]
    cases p.1 == x
    · exact ih
    · rfl

/-! ### operator laws (the part of the ONNX specification the partial evaluators rely on) and
soundness of the pass's static facts -/

/-- Denotation of a symbolic dimension under a valuation of the symbols. -/
def Dim.denote (σ : String → Int) : Dim → Option Int
  | .known n => some n
  | .sym s => some (σ s)
  | .unk => none

/-- The facts of the operator specification used by the evaluators.  `hasDtype`/`hasShape`/`isInts`
are what a type annotation, a shape annotation and "is this 1-D int64 tensor" *mean* for runtime
values; they are parameters, like the operators themselves. -/
structure OpLaws (sem : Sem V) where
  hasDtype : V → Nat → Prop
  hasShape : V → List Int → Prop
  isInts : V → List Int → Prop
  identity : ∀ attrs v, sem.op "Identity" "" attrs [some v] = some [v]
  cast_same : ∀ attrs v (dt : Nat), hasDtype v dt → (attrs.find? (·.1 == "to")).map (·.2) = some (Attr.int dt) →
    sem.op "Cast" "" attrs [some v] = some [v]
  castlike_is_cast : ∀ v w (dt : Nat), hasDtype w dt →
    sem.op "CastLike" "" [] [some v, some w] = sem.op "Cast" "" [("to", Attr.int dt)] [some v]
  reshape_same : ∀ attrs v t dims, hasShape v dims → isInts t dims → sem.op "Reshape" "" attrs [some v, some t] = some [v]
  expand_same : ∀ attrs v t dims, hasShape v dims → isInts t dims → sem.op "Expand" "" attrs [some v, some t] = some [v]
  concat_single : ∀ attrs v, sem.op "Concat" "" attrs [some v] = some [v]
  /-- inference-mode Dropout returns its input first, whatever the ratio -/
  dropout_inference : ∀ attrs v rest vs, (rest = [] ∨ (∃ r, rest = [r]) ∨ (∃ r, rest = [r, none])) →
    sem.op "Dropout" "" attrs (some v :: rest) = some vs → vs.head? = some v
  tensor_ints : ∀ (c : CInfo) l, c.dtype = DT_INT64 → c.shape.length = 1 → c.ints = some l → isInts (sem.tensor c.tok) l

/-- The state's annotations are truthful for the environment (A-shape) under the valuation `σ`. -/
structure InfoSound {sem : Sem V} (L : OpLaws sem) (σ : String → Int) (st : St) (ρ : Env V) : Prop where
  dtype : ∀ x v dt, ρ x = some v → (st.getInfo x).dtype = some dt → L.hasDtype v dt
  shape : ∀ x v s dims, ρ x = some v → (st.getInfo x).shape = some s → s.mapM (Dim.denote σ) = some dims → L.hasShape v dims
  const : ∀ x c, st.constOf x = some c → ρ x = some (sem.tensor c.tok)
  symShape : ∀ x v s dims, ρ x = some v → st.getSym (some x) = some (.shape s) → s.mapM (Dim.denote σ) = some dims → L.isInts v dims

/-- Pointwise relation between two lists of equal length (core has no `List.Forall₂`). -/
inductive Forall2 {α β : Type} (R : α → β → Prop) : List α → List β → Prop
  | nil : Forall2 R [] []
  | cons {a b l1 l2} : R a b → Forall2 R l1 l2 → Forall2 R (a :: l1) (b :: l2)

end OV.C03
