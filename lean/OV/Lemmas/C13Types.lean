import OV.Model.C13Types
/-! Helper lemmas for the type-annotation round trip. -/
namespace OV.C13T


theorem itemDim_dimItem (d : Dim) : itemDim (dimItem d) = d := by cases d <;> rfl

theorem map_itemDim_dimItem (ds : List Dim) : (ds.map dimItem).map itemDim = ds := by
  induction ds with
  | nil => rfl
  | cons d ds ih => simp only [List.map_cons, itemDim_dimItem, ih]

theorem shape_of_classGetitem (ds : List Dim) (h : ds ≠ []) :
    toTypeProtoShape (classGetitem (ds.map dimItem)) = some ds := by
  match ds, h with
  | [d], _ => cases d <;> rfl
  | d1 :: d2 :: rest, _ =>
    simp only [List.map_cons, classGetitem, toTypeProtoShape, itemDim_dimItem, map_itemDim_dimItem]

theorem class_of_name : ∀ p ∈ dtypeTable, classTable.lookup p.2 = some p.1 := by decide

theorem lookup_mem : ∀ (l : List (Nat × String)) (d : Nat) (n : String), l.lookup d = some n → (d, n) ∈ l
  | [], _, _, h => by simp [List.lookup] at h
  | (a, b) :: l, d, n, h => by
    simp only [List.lookup_cons] at h
    by_cases hd : (d == a) = true
    · simp only [hd] at h
      have : d = a := by simpa using hd
      subst this
      simp only [Option.some.injEq] at h
      subst h; simp
    · have hd' : (d == a) = false := by simpa using hd
      simp only [hd'] at h
      exact List.mem_cons_of_mem _ (lookup_mem l d n h)


end OV.C13T
