import OV.Lemmas.C04Closed
/-!
# Totality of the node loop on fragment A

The model's `visitNodes` can stop with an error in four ways: the step fuel runs out, a partial
evaluator raises (`IndexError` …), `register_initializer` refuses a name that is already registered
under another value, `replace_node` is given lists of different lengths.  On fragment A, for graphs
in single-assignment form, none of them happens: the fuel argument is a rank (`wt`) that strictly
decreases whenever a node is replaced by a new one.
-/
namespace OV.C03

/-- what a state transformer leaves alone as far as names and errors are concerned -/
def SameD (st st' : St) : Prop := st'.dname = st.dname ∧ st'.initDisplay = st.initDisplay ∧ st'.err = st.err

theorem SameD.refl (st : St) : SameD st st := ⟨rfl, rfl, rfl⟩
theorem SameD.trans {a b c : St} (h1 : SameD a b) (h2 : SameD b c) : SameD a c :=
  ⟨h2.1.trans h1.1, h2.2.1.trans h1.2.1, h2.2.2.trans h1.2.2⟩
theorem SameD.display {st st' : St} (h : SameD st st') (x : Name) : st'.display x = st.display x := by
  simp only [St.display, h.1]

theorem sameD_substInputs (st : St) (n : Node) : SameD st (substInputs st n).2 := by
  unfold substInputs
  simp only []
  suffices h : ∀ (l : List (Option Name)) (acc : List (Option Name) × St), SameD acc.2 (l.foldl substStep acc).2 from h _ _
  intro l
  induction l with
  | nil => intro acc; exact SameD.refl _
  | cons x xs ih =>
    intro acc
    simp only [List.foldl_cons]
    refine SameD.trans ?_ (ih _)
    unfold substStep
    cases x with
    | none => exact SameD.refl _
    | some y =>
      simp only []
      split
      · exact ⟨rfl, rfl, rfl⟩
      · exact SameD.refl _

theorem sameD_processConstant (ctx : Ctx) (st : St) (n : Node) : SameD st (processConstant ctx st n) := by
  unfold processConstant
  split
  · exact SameD.refl st
  · split
    · exact SameD.refl st
    · split
      · rename_i o k a _ _
        have key : ∀ (c? : Option CInfo), SameD st (match c? with
            | none => st
            | some c => st.setInfo o { dtype := some c.dtype, shape := some (c.shape.map fun (d : Nat) => Dim.known (Int.ofNat d)), const := some c }) := by
          intro c?
          cases c? <;> exact ⟨rfl, rfl, rfl⟩
        exact key _
      · exact SameD.refl st

theorem evalPartial_initDisplay (n : Node) (v : Nat) (st0 : St) : (evalPartial n v st0).2.initDisplay = st0.initDisplay := by
  unfold evalPartial
  split <;> rfl

theorem sameD_gateProceed (ctx : Ctx) (st : St) (n : Node) : SameD st (gateProceed ctx st n).2 := by
  unfold gateProceed
  split
  · exact ⟨rfl, rfl, rfl⟩
  · exact ⟨rfl, rfl, rfl⟩
  · split
    · exact ⟨rfl, rfl, rfl⟩
    · simp only []
      split
      · split <;> exact ⟨rfl, rfl, rfl⟩
      · exact SameD.refl st

/-- without a clash `_make_initializer_name_unique` does nothing -/
theorem makeRoom_noclash (st : St) (o : Name) (h : st.initDisplay.contains (st.display o) = false) : makeRoom st o = st := by
  simp only [makeRoom, h, Bool.false_eq_true, if_false]

/-- `makeRoom` touches display names, the registry of registered names and the log only -/
theorem makeRoom_err (st : St) (o : Name) : (makeRoom st o).err = st.err := rfl

/-- after commit 6fc3d91 the fold step has no error exit at all -/
theorem emitFold_no_error (ctx : Ctx) (st : St) (n : Node) (c : CInfo) (m : String) : (emitFold ctx st n c).1 ≠ PRes.error m := by
  unfold emitFold
  simp only []
  split
  · simp
  · split
    · simp
    · split <;> simp

theorem emitFold_err (ctx : Ctx) (st : St) (n : Node) (c : CInfo) : (emitFold ctx st n c).2.err = st.err := by
  unfold emitFold
  simp only []
  split
  · rfl
  · split
    · rfl
    · split
      · split <;> rfl
      · split <;> rfl

/-- `emitFold` when the name of the single output is not registered yet: names are untouched except that a fold registers the
display name of the output; it never errs -/
theorem emitFold_disp (ctx : Ctx) (st : St) (n : Node) (c : CInfo)
    (hno : ∀ o, n.outputs = [o] → st.initDisplay.contains (st.display o) = false) :
    (emitFold ctx st n c).2.dname = st.dname ∧ (emitFold ctx st n c).2.err = st.err ∧
    ((emitFold ctx st n c).2.initDisplay = st.initDisplay ∨
      ((∃ r, (emitFold ctx st n c).1 = PRes.repl n r) ∧
        (emitFold ctx st n c).2.initDisplay = st.display (n.outputs.headD "") :: st.initDisplay)) ∧
    (∀ m, (emitFold ctx st n c).1 = PRes.error m → n.outputs.length = 1 ∧
      st.initDisplay.contains (st.display (n.outputs.headD "")) = true) := by
  have hne : ∀ m, (emitFold ctx st n c).1 = PRes.error m → n.outputs.length = 1 ∧
      st.initDisplay.contains (st.display (n.outputs.headD "")) = true :=
    fun m h => absurd h (emitFold_no_error ctx st n c m)
  refine ⟨?_, emitFold_err ctx st n c, ?_, hne⟩
  all_goals
    unfold emitFold
    simp only []
    split
    · first | rfl | exact Or.inl rfl
    · rename_i hlen
      have hlen1 : n.outputs.length = 1 := by
        cases hl : n.outputs.length == 1 with
        | true => exact beq_iff_eq.mp hl
        | false => exfalso; apply hlen; simp [bne, hl]
      obtain ⟨o, ho⟩ : ∃ o, n.outputs = [o] := by
        match hn : n.outputs, hlen1 with
        | [o], _ => exact ⟨o, rfl⟩
      have hhead : n.outputs.headD "" = o := by rw [ho]; rfl
      split
      · first | rfl | exact Or.inl rfl
      · have hs1 : SameD st (if c.size > ctx.outLimit then st.note "gate:outputsize_compensated" else st) := by
          split
          · exact ⟨rfl, rfl, rfl⟩
          · exact SameD.refl st
        generalize (if c.size > ctx.outLimit then st.note "gate:outputsize_compensated" else st) = s1 at hs1 ⊢
        have hdisp : s1.display o = st.display o := hs1.display _
        simp only [St.freshName]
        cases hf : ctx.isFunction with
        | true =>
          simp only [if_true]
          first | exact hs1.1 | exact Or.inl hs1.2.1
        | false =>
          simp only [Bool.false_eq_true, if_false, hhead]
          have hnc : s1.initDisplay.contains (s1.display o) = false := by
            rw [hdisp, hs1.2.1]
            exact hno o ho
          rw [makeRoom_noclash]
          · first
              | exact hs1.1
              | (refine Or.inr ⟨⟨_, rfl⟩, ?_⟩
                 show s1.display o :: s1.initDisplay = _
                 rw [hdisp, hs1.2.1])
          · exact hnc

theorem gateCascade_disp (ctx : Ctx) (st : St) (n : Node) (v : Nat)
    (hno : ∀ o, n.outputs = [o] → st.initDisplay.contains (st.display o) = false) :
    (gateCascade ctx st n v).2.dname = st.dname ∧ (gateCascade ctx st n v).2.err = st.err ∧
    ((gateCascade ctx st n v).2.initDisplay = st.initDisplay ∨
      ((∃ r, (gateCascade ctx st n v).1 = PRes.repl n r) ∧
        (gateCascade ctx st n v).2.initDisplay = st.display (n.outputs.headD "") :: st.initDisplay)) ∧
    (∀ m, (gateCascade ctx st n v).1 = PRes.error m → n.outputs.length = 1 ∧
      st.initDisplay.contains (st.display (n.outputs.headD "")) = true) := by
  have keep : ∀ (s : St), SameD st s →
      ((PRes.keep n, s) : PRes × St).2.dname = st.dname ∧ ((PRes.keep n, s) : PRes × St).2.err = st.err ∧
      (((PRes.keep n, s) : PRes × St).2.initDisplay = st.initDisplay ∨
        ((∃ r, ((PRes.keep n, s) : PRes × St).1 = PRes.repl n r) ∧
          ((PRes.keep n, s) : PRes × St).2.initDisplay = st.display (n.outputs.headD "") :: st.initDisplay)) ∧
      (∀ m, ((PRes.keep n, s) : PRes × St).1 = PRes.error m → n.outputs.length = 1 ∧
        st.initDisplay.contains (st.display (n.outputs.headD "")) = true) :=
    fun s hs => ⟨hs.1, hs.2.2, Or.inl hs.2.1, fun m h => by simp at h⟩
  unfold gateCascade
  split
  · exact keep _ ⟨rfl, rfl, rfl⟩
  · split
    · exact keep _ ⟨rfl, rfl, rfl⟩
    · split
      · exact keep _ ⟨rfl, rfl, rfl⟩
      · split
        · exact keep _ ⟨rfl, rfl, rfl⟩
        · split
          · exact keep _ ⟨rfl, rfl, rfl⟩
          · have hgp := sameD_gateProceed ctx st n
            split
            · rename_i st' heq
              rw [heq] at hgp
              exact keep _ hgp
            · rename_i st' heq
              rw [heq] at hgp
              split
              · exact keep _ (SameD.trans hgp ⟨rfl, rfl, rfl⟩)
              · exact keep _ (SameD.trans hgp ⟨rfl, rfl, rfl⟩)
              · rename_i c _
                obtain ⟨e1, e2, e3, e4⟩ := emitFold_disp ctx st' n c
                  (fun o ho => by rw [hgp.display, hgp.2.1]; exact hno o ho)
                have hd : st'.display (n.outputs.headD "") = st.display (n.outputs.headD "") := hgp.display _
                refine ⟨e1.trans hgp.1, e2.trans hgp.2.2, ?_, ?_⟩
                · rcases e3 with e3 | ⟨er, e3⟩
                  · exact Or.inl (e3.trans hgp.2.1)
                  · exact Or.inr ⟨er, by rw [e3, hd, hgp.2.1]⟩
                · intro m hm
                  obtain ⟨h1, h2⟩ := e4 m hm
                  rw [hd, hgp.2.1] at h2
                  exact ⟨h1, h2⟩

theorem clearUnused_disp (ins : List Name) : ∀ (st : St),
    (clearUnused st ins).dname = st.dname ∧ (clearUnused st ins).err = st.err ∧
    ∀ x, (clearUnused st ins).initDisplay.contains x = true → st.initDisplay.contains x = true := by
  induction ins with
  | nil => intro st; exact ⟨rfl, rfl, fun x h => h⟩
  | cons y ys ih =>
    intro st
    simp only [clearUnused, List.foldl_cons] at ih ⊢
    split
    · obtain ⟨h1, h2, h3⟩ := ih ({ st with removed := y :: st.removed, initDisplay := st.initDisplay.erase (st.display y) }.note "clear:initializer")
      refine ⟨h1, h2, fun x hx => ?_⟩
      have := h3 x hx
      simp only [St.note] at this
      have hm : x ∈ st.initDisplay.erase (st.display y) := by simpa using this
      simpa using List.mem_of_mem_erase hm
    · exact ih st

theorem decUses_disp (xs : List (Option Name)) : ∀ (st : St), SameD st (st.decUses xs) := by
  induction xs with
  | nil => intro st; exact SameD.refl st
  | cons x xs ih =>
    intro st
    simp only [St.decUses, List.foldl_cons] at ih ⊢
    cases x with
    | none => exact ih st
    | some y => exact SameD.trans (b := st.decUse y) ⟨rfl, rfl, rfl⟩ (ih _)

theorem incUses_disp (xs : List (Option Name)) : ∀ (st : St), SameD st (st.incUses xs) := by
  induction xs with
  | nil => intro st; exact SameD.refl st
  | cons x xs ih =>
    intro st
    simp only [St.incUses, List.foldl_cons] at ih ⊢
    cases x with
    | none => exact ih st
    | some y => exact SameD.trans (b := st.incUse y) ⟨rfl, rfl, rfl⟩ (ih _)

theorem inheritInfo_disp (st : St) (o fv : Name) : SameD st (inheritInfo st [(o, fv)]) := ⟨rfl, rfl, rfl⟩

theorem foldState_disp (st3 : St) (n : Node) (o fv : Name) (l : List Name) :
    (foldState st3 n o fv l).dname = st3.dname ∧ (foldState st3 n o fv l).err = st3.err ∧
    ∀ x, (foldState st3 n o fv l).initDisplay.contains x = true → st3.initDisplay.contains x = true := by
  obtain ⟨h1, h2, h3⟩ := clearUnused_disp (n.inputs.filterMap id)
    { ((inheritInfo st3 [(o, fv)]).decUses n.inputs) with initNames := l }
  have hd := decUses_disp n.inputs (inheritInfo st3 [(o, fv)])
  refine ⟨?_, ?_, ?_⟩
  · show (clearUnused _ _).dname = _
    rw [h1]; exact hd.1
  · show (clearUnused _ _).err = _
    rw [h2]; exact hd.2.2
  · intro x hx
    have := h3 x hx
    have e : ({ ((inheritInfo st3 [(o, fv)]).decUses n.inputs) with initNames := l } : St).initDisplay = st3.initDisplay := hd.2.1
    rw [e] at this
    exact this

theorem replState_disp (st3 : St) (n : Node) (o fv : Name) (m : Node) (l : List Name) :
    (replState st3 n o fv m l).dname = st3.dname ∧ (replState st3 n o fv m l).err = st3.err ∧
    ∀ x, (replState st3 n o fv m l).initDisplay.contains x = true → st3.initDisplay.contains x = true := by
  obtain ⟨h1, h2, h3⟩ := clearUnused_disp (n.inputs.filterMap id)
    { (countNewUses ((inheritInfo st3 [(o, fv)]).decUses n.inputs) [m]) with initNames := l }
  have hd : SameD st3 (countNewUses ((inheritInfo st3 [(o, fv)]).decUses n.inputs) [m]) := by
    simp only [countNewUses, List.foldl_cons, List.foldl_nil]
    exact SameD.trans (decUses_disp n.inputs (inheritInfo st3 [(o, fv)])) (incUses_disp _ _)
  refine ⟨?_, ?_, ?_⟩
  · show (clearUnused _ _).dname = _
    rw [h1]; exact hd.1
  · show (clearUnused _ _).err = _
    rw [h2]; exact hd.2.2
  · intro x hx
    have := h3 x hx
    have e : ({ (countNewUses ((inheritInfo st3 [(o, fv)]).decUses n.inputs) [m]) with initNames := l } : St).initDisplay =
        st3.initDisplay := hd.2.1
    rw [e] at this
    exact this

/-! ### the rank argument and the loop -/

/-- rank of a node: an `Identity` node is never replaced, a `Cast` only by an `Identity`, anything else by one of the two -/
def wt (n : Node) : Nat := if n.op = "Identity" then 1 else if n.op = "Cast" then 2 else 3

def W : List Node → Nat
  | [] => 0
  | n :: r => wt n + W r

theorem wt_pos (n : Node) : 0 < wt n := by
  unfold wt
  split
  · omega
  · split <;> omega

theorem wt_setInputs (n : Node) (ins : List (Option Name)) : wt (n.setInputs ins) = wt n := by
  unfold wt; rw [setInputs_op]

structure TotA (st : St) (todo : List Node) (f : Nat) : Prop where
  fuel : W todo < f
  err : st.err = none
  disp : ∀ m ∈ todo, ∀ o, o ∈ m.outputs → st.display o = o ∧ st.initDisplay.contains o = false
  nodup : (outsOf todo).Nodup

theorem applyRepl_one' (ctx : Ctx) (hnf : ctx.isFunction = false) (st2 : St) (n : Node) (o fv x : Name) (opn : String)
    (attrs : List (String × Attr)) (ho : n.outputs = [o]) :
    ∃ l x', applyRepl ctx st2 n { newNodes := [mkNode opn [some x] [fv] attrs], newOuts := [fv] } =
      .ok ([mkNode opn [some x'] [o] attrs], [], replState st2 n o fv (mkNode opn [some x'] [o] attrs) l) := by
  unfold applyRepl
  have hren : renNode maxDepth [(fv, o)] (mkNode opn [some x] [fv] attrs) =
      mkNode opn [some (renName [(fv, o)] x)] [o] attrs := by
    simp [maxDepth, renNode, mkNode, Node.op, Node.domain, Node.inputs, Node.outputs, Node.attrs, Node.subs,
      renName, lookupA, List.find?]
  simp only [ho, List.length_cons, List.length_nil, bne_self_eq_false, Bool.false_eq_true, if_false, List.zip_cons_cons,
    List.zip_nil_right, List.map_cons, List.map_nil, hnf, hren]
  exact ⟨_, _, rfl⟩

theorem evalPartial_identity_dname (st0 : St) (n : Node) (v : Nat) (x o : Name)
    (hop : n.op = "Identity") (hdom : n.domain = "") (hin : n.inputs = [some x]) (hout : n.outputs = [o]) :
    (evalPartial n v st0).2.dname = st0.dname := by
  have hl : lookupEvaluator n v = some evIdentity := by
    unfold lookupEvaluator
    simp [hdom, hop]
  unfold evalPartial
  rw [hl]
  simp only [runEvaluator, evIdentity, hin, hout]
  split <;> rfl

/-- **The node loop never errs on fragment A** when the outputs of the pending nodes are pairwise distinct, carry their own
names, and are not registered initializer names. -/
theorem visitNodes_total (ctx : Ctx) (hnf : ctx.isFunction = false) (vg : St → Graph → St × Graph) :
    ∀ (f : Nat) (todo : List Node) (st : St) (acc : List Node) (ai : List (Name × String)),
      (∀ n ∈ todo, FragBk n) → TotA st todo f → (visitNodes ctx vg f st todo acc ai).1.err = none := by
  intro f
  induction f with
  | zero =>
    intro todo st acc ai _ hb
    exact absurd hb.fuel (by omega)
  | succ f ih =>
    intro todo st acc ai hfr hb
    cases todo with
    | nil =>
      simp only [visitNodes]
      exact hb.err
    | cons n0 rest =>
      have hfr0 := hfr n0 List.mem_cons_self
      have hfrrest : ∀ m ∈ rest, FragBk m := fun m hm => hfr m (List.mem_cons_of_mem _ hm)
      obtain ⟨hspec1, hspec2⟩ := substInputs_spec st n0
      have hD0 := sameD_substInputs st n0
      generalize hnn : (substInputs st n0).1 = n at hspec1
      generalize hst0 : (substInputs st n0).2 = st0 at hspec2 hD0
      have hnsubs : n.subs = [] := by rw [hspec1, setInputs_subs]; exact hfr0.1
      have hnout : n.outputs = n0.outputs := by rw [hspec1, setInputs_outputs]
      have hwt : wt n = wt n0 := by rw [hspec1, wt_setInputs]
      have hfuel : W rest + wt n0 < f + 1 := by
        have := hb.fuel
        simp only [W] at this
        omega
      have hnodup : (n0.outputs ++ outsOf rest).Nodup := by
        have := hb.nodup
        rw [outsOf_cons] at this
        exact this
      have hdisp0 : ∀ m ∈ n0 :: rest, ∀ o, o ∈ m.outputs → st0.display o = o ∧ st0.initDisplay.contains o = false := by
        intro m hm o ho
        obtain ⟨h1, h2⟩ := hb.disp m hm o ho
        exact ⟨by rw [hD0.display]; exact h1, by rw [hD0.2.1]; exact h2⟩
      have herr0 : st0.err = none := by rw [hD0.2.2]; exact hb.err
      -- a state with the same names and no error, the head node gone
      have totRest : ∀ (st' : St), st'.dname = st0.dname → st'.err = none →
          (∀ x, st'.initDisplay.contains x = true → st0.initDisplay.contains x = true ∨ x ∈ n0.outputs) →
          TotA st' rest f := by
        intro st' hd he hi
        refine ⟨by have := wt_pos n0; omega, he, ?_, (List.nodup_append.mp hnodup).2.1⟩
        intro m hm o ho
        obtain ⟨h1, h2⟩ := hdisp0 m (List.mem_cons_of_mem _ hm) o ho
        refine ⟨by simp only [St.display, hd]; exact h1, ?_⟩
        cases hc : st'.initDisplay.contains o with
        | false => rfl
        | true =>
          exfalso
          rcases hi o hc with h | h
          · rw [h] at h2; exact absurd h2 (by decide)
          · have hmem : o ∈ outsOf rest := List.mem_flatMap.mpr ⟨m, hm, ho⟩
            exact (List.nodup_append.mp hnodup).2.2 o h o hmem rfl
      have keepCase : ∀ (st' : St), SameD st0 st' →
          (visitNodes ctx vg f st' rest (n :: acc) ai).1.err = none :=
        fun st' hs => ih rest st' (n :: acc) ai hfrrest
          (totRest st' hs.1 (by rw [hs.2.2]; exact herr0) (fun x hx => Or.inl (by rw [hs.2.1] at hx; exact hx)))
      have cascade : ∀ (stG : St) (v : Nat), SameD st0 stG →
          (match gateCascade ctx stG n v with
              | (PRes.error m, st) => ({ st with err := some m }, acc.reverse ++ n0 :: rest, ai)
              | (PRes.keep n', st) => visitNodes ctx vg f (visitSubs vg st n'.subs).1 rest (n'.setSubs (visitSubs vg st n'.subs).2 :: acc) ai
              | (PRes.repl n' r, st) =>
                match applyRepl ctx st n' r with
                | .error m => ({ st with err := some m }, acc.reverse ++ n0 :: rest, ai)
                | .ok (newNodes, inits, st) => visitNodes ctx vg f st (newNodes ++ rest) acc (ai ++ inits)).1.err = none := by
        intro stG v hG
        obtain ⟨g1, g2, g3, g4⟩ := gateCascade_disp ctx stG n v (fun o ho => by
          have ho0 : o ∈ n0.outputs := by rw [← hnout, ho]; simp
          rw [hG.display, (hdisp0 n0 List.mem_cons_self o ho0).1, hG.2.1]
          exact (hdisp0 n0 List.mem_cons_self o ho0).2)
        rcases gateCascade_cases ctx hnf stG n v with ⟨st', hg, hs'⟩ | ⟨m, st', hg⟩ | ⟨c, st2, st3, o, hs2, hora, ho, hsubs, hnc, hins, hg, hsym3, hinfo3⟩
        · rw [hg] at g1 g2 g3 ⊢
          simp only [hnsubs, visitSubs, setSubs_nil n hnsubs]
          have hid : st'.initDisplay = stG.initDisplay := by
            rcases g3 with h | ⟨⟨r, hr⟩, _⟩
            · exact h
            · simp at hr
          exact keepCase st' (SameD.trans hG ⟨g1, hid, g2⟩)
        · exfalso
          rw [hg] at g4
          obtain ⟨hlen, hcon⟩ := g4 m rfl
          -- the single output of the node is registered already: impossible
          cases hout : n.outputs with
          | nil => simp [hout] at hlen
          | cons o r =>
            have ho : o ∈ n0.outputs := by rw [← hnout, hout]; simp
            obtain ⟨h1, h2⟩ := hdisp0 n0 List.mem_cons_self o ho
            rw [hout] at hcon
            simp only [List.headD_cons] at hcon
            rw [hG.display, h1, hG.2.1, h2] at hcon
            exact absurd hcon (by decide)
        · rw [hg] at g1 g2 g3 ⊢
          obtain ⟨st4, happ, hs4, l, hst4⟩ := applyRepl_fold ctx hnf st3 n o (freshOf st2) c.tok ho
          simp only [happ, List.nil_append]
          obtain ⟨f1, f2, f3⟩ := foldState_disp st3 n o (freshOf st2) l
          rw [← hst4] at f1 f2 f3
          apply ih rest st4 acc _ hfrrest
          apply totRest st4 (by rw [f1, g1, hG.1]) (by rw [f2, g2, hG.2.2]; exact herr0)
          intro x hx
          have h3 := f3 x hx
          have ho0 : o ∈ n0.outputs := by rw [← hnout, ho]; simp
          rcases g3 with h | ⟨_, h⟩
          · rw [h, hG.2.1] at h3; exact Or.inl h3
          · rw [h, ho] at h3
            simp only [List.headD_cons, List.contains_cons, Bool.or_eq_true, beq_iff_eq] at h3
            rcases h3 with h3 | h3
            · right
              rw [hG.display, (hdisp0 n0 List.mem_cons_self o ho0).1] at h3
              rw [h3]; exact ho0
            · rw [hG.2.1] at h3; exact Or.inl h3
      simp only [visitNodes]
      split
      · rename_i herr
        rw [hb.err] at herr
        exact absurd herr (by decide)
      · rw [processNode_noref ctx st n0 hfr0.2.1, hnn, hst0]
        have hdom : n.domain = n0.domain := by rw [hspec1, setInputs_domain]
        rcases hfr0.2.2 with hP | hK | hIcls | hR
        · have hev : ∀ v, lookupEvaluator n v = none := fun v => by rw [hspec1, lookupEvaluator_setInputs]; exact hP.2 v
          simp only [hP.1, Bool.false_eq_true, if_false]
          cases himp : lookupA ctx.imports n0.domain with
          | none =>
            simp only [hnsubs, visitSubs, setSubs_nil n hnsubs]
            exact keepCase _ ⟨rfl, rfl, rfl⟩
          | some v =>
            simp only [evalPartial, hev, finishNode]
            exact cascade st0 v (SameD.refl st0)
        · have hev : ∀ v, lookupEvaluator n v = none := by
            intro v
            rw [hspec1, lookupEvaluator_setInputs]
            have hk := hK.1
            simp only [Node.isOp, Bool.and_eq_true, beq_iff_eq] at hk
            unfold lookupEvaluator
            split
            · rfl
            · simp [hk.1]
          have hisop : n.isOp "Constant" = true := by rw [hspec1, isOp_setInputs]; exact hK.1
          have hpc := sameD_processConstant ctx st0 n
          simp only [hK.1, if_true]
          cases himp : lookupA ctx.imports n0.domain with
          | none =>
            simp only [hnsubs, visitSubs, setSubs_nil n hnsubs]
            exact keepCase _ (SameD.trans hpc ⟨rfl, rfl, rfl⟩)
          | some v =>
            simp only [evalPartial, hev, finishNode, gateCascade, hisop, if_true]
            simp only [hnsubs, visitSubs, setSubs_nil n hnsubs]
            exact keepCase _ (SameD.trans hpc ⟨rfl, rfl, rfl⟩)
        · obtain ⟨hiop, hidom, x0, o, hin0, hout0⟩ := hIcls
          have hnc : n0.isOp "Constant" = false := by simp [Node.isOp, hiop]
          simp only [hnc, Bool.false_eq_true, if_false]
          cases himp : lookupA ctx.imports n0.domain with
          | none =>
            simp only [hnsubs, visitSubs, setSubs_nil n hnsubs]
            exact keepCase _ ⟨rfl, rfl, rfl⟩
          | some v =>
            have hxin : ∃ x, n.inputs = [some x] := by
              rw [hspec1, setInputs_inputs, hin0]
              simp only [List.map_cons, List.map_nil, substOne]
              split
              · exact ⟨_, rfl⟩
              · exact ⟨_, rfl⟩
            obtain ⟨x, hxin⟩ := hxin
            have hno : n.outputs = [o] := by rw [hnout, hout0]
            have hnop : n.op = "Identity" := by rw [hspec1, setInputs_op]; exact hiop
            have hndom : n.domain = "" := by rw [hdom]; exact hidom
            obtain ⟨st2, hep, _, _, _, _, _⟩ := evalPartial_identity st0 n v x o hnop hndom hxin hno
            have hdn := evalPartial_identity_dname st0 n v x o hnop hndom hxin hno
            have hid := evalPartial_initDisplay n v st0
            have her := err_evalPartial n v st0
            rw [hep] at hdn hid her
            simp only [hep, finishNode]
            exact cascade st2 v ⟨hdn, hid, her⟩
        · obtain ⟨hnc, ⟨o, hout0⟩, hshape⟩ := hR
          simp only [hnc, Bool.false_eq_true, if_false]
          cases himp : lookupA ctx.imports n0.domain with
          | none =>
            simp only [hnsubs, visitSubs, setSubs_nil n hnsubs]
            exact keepCase _ ⟨rfl, rfl, rfl⟩
          | some v =>
            have hno : n.outputs = [o] := by rw [hnout, hout0]
            have hes : EvShape n := by
              rw [hspec1]; exact hshape _ (substOne_shape st n0.inputs)
            have hid := evalPartial_initDisplay n v st0
            have her := err_evalPartial n v st0
            obtain ⟨hdn, hcases⟩ := hes st0 v
            simp only []
            generalize hE : evalPartial n v st0 = e at hid her hdn hcases ⊢
            obtain ⟨r1, st2⟩ := e
            simp only [] at hid her hdn hcases
            rcases hcases with ⟨hr, _⟩ | ⟨x, opn, attrs, hr, hxin, _, hkind⟩
            · subst hr
              simp only [finishNode]
              exact cascade st2 v ⟨hdn, hid, her⟩
            · subst hr
              simp only [finishNode]
              obtain ⟨l, x', happ⟩ := applyRepl_one' ctx hnf st2 n o (freshOf st0) x opn attrs hno
              have happ' : applyRepl ctx st2 n (oneRepl st0 opn x attrs) = .ok ([mkNode opn [some x'] [o] attrs], [],
                  replState st2 n o (freshOf st0) (mkNode opn [some x'] [o] attrs) l) := happ
              simp only [happ', List.cons_append, List.nil_append, List.append_nil]
              have hfr' : ∀ k ∈ mkNode opn [some x'] [o] attrs :: rest, FragBk k := by
                intro k hk
                rcases List.mem_cons.mp hk with rfl | hk'
                · rcases hkind with ⟨rfl, rfl, _⟩ | ⟨rfl, ⟨t, rfl⟩, _, _⟩
                  · exact ⟨rfl, rfl, Or.inr (Or.inr (Or.inl ⟨rfl, rfl, x', o, rfl, rfl⟩))⟩
                  · exact ⟨rfl, rfl, Or.inr (Or.inr (Or.inr (clsX_cast _ x' o rfl rfl rfl)))⟩
                · exact hfrrest k hk'
              obtain ⟨f1, f2, f3⟩ := replState_disp st2 n o (freshOf st0) (mkNode opn [some x'] [o] attrs) l
              apply ih (mkNode opn [some x'] [o] attrs :: rest) _ acc ai hfr'
              have hwm : wt (mkNode opn [some x'] [o] attrs) < wt n0 := by
                rw [← hwt]
                rcases hkind with ⟨rfl, rfl, hne⟩ | ⟨rfl, ⟨t, rfl⟩, hne1, hne2⟩
                · have h1 : wt (mkNode "Identity" [some x'] [o] []) = 1 := by simp [wt, mkNode, Node.op]
                  have h2 : 2 ≤ wt n := by
                    unfold wt
                    rw [if_neg hne]
                    split <;> omega
                  omega
                · have h1 : wt (mkNode "Cast" [some x'] [o] [("to", Attr.int t)]) = 2 := by
                    simp [wt, mkNode, Node.op]
                  have h2 : wt n = 3 := by
                    unfold wt
                    rw [if_neg hne2, if_neg hne1]
                  omega
              refine ⟨?_, by rw [f2, her]; exact herr0, ?_, ?_⟩
              · simp only [W]; omega
              · intro m hm o' ho'
                have hmo : ∃ m0 ∈ n0 :: rest, o' ∈ m0.outputs := by
                  rcases List.mem_cons.mp hm with rfl | hm'
                  · exact ⟨n0, List.mem_cons_self, by
                      have : o' = o := by simpa [mkNode, Node.outputs] using ho'
                      rw [this, hout0]; simp⟩
                  · exact ⟨m, List.mem_cons_of_mem _ hm', ho'⟩
                obtain ⟨m0, hm0, hmo0⟩ := hmo
                obtain ⟨h1, h2⟩ := hdisp0 m0 hm0 o' hmo0
                refine ⟨by simp only [St.display, f1, hdn]; exact h1, ?_⟩
                cases hc : (replState st2 n o (freshOf st0) (mkNode opn [some x'] [o] attrs) l).initDisplay.contains o' with
                | false => rfl
                | true =>
                  have := f3 o' hc
                  rw [hid, h2] at this
                  exact absurd this (by decide)
              · rw [outsOf_cons]
                have : (mkNode opn [some x'] [o] attrs).outputs = n0.outputs := by rw [hout0]; rfl
                rw [this]
                exact hnodup

/-! ### graph level -/

theorem err_replaceOutputs (nodes : List Node) : ∀ (outs : List Name) (st : St),
    (replaceOutputs st nodes outs).1.err = st.err
  | [], _ => rfl
  | o :: rest, st => by
    simp only [replaceOutputs]
    split
    · split
      · exact (err_replaceOutputs nodes rest _).trans rfl
      · split
        · exact (err_replaceOutputs nodes rest _).trans rfl
        · exact (err_replaceOutputs nodes rest _).trans rfl
    · exact err_replaceOutputs nodes rest st

theorem W_le : ∀ (l : List Node), W l ≤ 3 * l.length
  | [] => by simp [W]
  | n :: r => by
    have := W_le r
    have h : wt n ≤ 3 := by
      unfold wt
      split
      · omega
      · split <;> omega
    simp only [W, List.length_cons]
    omega

theorem collect_plain (f : Graph → List Name) (k : Nat) (g : Graph) (hp : ∀ n ∈ g.nodes, n.subs = []) :
    collect f (k + 1) g = f g := by
  simp only [collect]
  have : (g.nodes.flatMap fun n => n.subs.flatMap fun (p : String × Graph) => collect f k p.2) = [] := by
    apply List.flatMap_eq_nil_iff.mpr
    intro n hn
    rw [hp n hn]
    rfl
  rw [this, List.append_nil]

theorem initialState_disp (g : Graph) (info : List (Name × VInfo)) :
    (initialState g info).dname = [] ∧ (initialState g info).err = none ∧
    (initialState g info).initDisplay = collect (fun g => g.inits.map (·.1)) maxDepth g := by
  unfold initialState
  simp only []
  suffices h : ∀ (l : List Name) (st : St), (l.foldl (fun st x => st.incUse x) st).dname = st.dname ∧
      (l.foldl (fun st x => st.incUse x) st).err = st.err ∧
      (l.foldl (fun st x => st.incUse x) st).initDisplay = st.initDisplay from h _ _
  intro l
  induction l with
  | nil => intro st; exact ⟨rfl, rfl, rfl⟩
  | cons x xs ih => intro st; simp only [List.foldl_cons]; exact ⟨(ih _).1, (ih _).2.1, (ih _).2.2⟩

theorem totalA_aux (k : Nat) (ctx : Ctx) (hnf : ctx.isFunction = false) (info : List (Name × VInfo)) (g : Graph)
    (hfr : ∀ n ∈ g.nodes, FragBk n) (hssa : SSA g) :
    (visitGraph ctx (k + 1) (initialState g info) g).1.err = none := by
  obtain ⟨d1, d2, d3⟩ := initialState_disp g info
  have hplain : ∀ n ∈ g.nodes, n.subs = [] := fun n hn => (hfr n hn).1
  have hmd : maxDepth = 7 + 1 := rfl
  rw [hmd, collect_plain _ 7 g hplain] at d3
  have hnd := List.nodup_append.mp hssa.1
  have hinit : TotA (initialState g info) g.nodes (stepFuel g + 16 * (initialState g info).uses.length) := by
    refine ⟨?_, d2, ?_, hnd.2.1⟩
    · have := W_le g.nodes
      unfold stepFuel
      omega
    · intro m hm o ho
      refine ⟨by simp [St.display, d1, lookupA], ?_⟩
      rw [d3]
      cases hc : (g.inits.map (·.1)).contains o with
      | false => rfl
      | true =>
        exfalso
        have h1 : o ∈ g.inits.map (·.1) := by simpa using hc
        have h2 : o ∈ outsOf g.nodes := List.mem_flatMap.mpr ⟨m, hm, ho⟩
        exact hnd.2.2 o h1 o h2 rfl
  have hfin := visitNodes_total ctx hnf (visitGraph ctx k) (stepFuel g + 16 * (initialState g info).uses.length)
    g.nodes (initialState g info) [] [] hfr hinit
  simp only [visitGraph]
  generalize visitNodes ctx (visitGraph ctx k) (stepFuel g + 16 * (initialState g info).uses.length)
    (initialState g info) g.nodes [] [] = r at hfin
  obtain ⟨stN, L, added⟩ := r
  simp only [] at hfin ⊢
  split
  · exact hfin
  · rw [err_replaceOutputs, hfin]

/-- **`FoldConstantsPass` is total on fragment A**: for a graph in single-assignment form all of whose nodes are in the
fragment, the model never reaches an error state — no partial evaluator raises, `register_initializer` never meets a name
clash, `replace_node` is never given mismatched lists, and the step fuel of the model is never exhausted. -/
theorem foldGraph_totalA (ctx : Ctx) (hnf : ctx.isFunction = false) (info : List (Name × VInfo)) (g : Graph)
    (hfr : ∀ n ∈ g.nodes, FragBk n) (hssa : SSA g) : (foldGraph ctx info g).1.err = none :=
  totalA_aux 7 ctx hnf info g hfr hssa

end OV.C03
