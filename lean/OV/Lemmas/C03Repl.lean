import OV.Lemmas.C03Uses
/-!
# One-node replacements: a node replaced by `Identity(first input)`

`Concat` with a single operand and inference-mode `Dropout` with one declared output are replaced
by an `Identity` node recorded on a fresh tape; `replace_node` renames the tape's output to the old
output and the new node is visited next.  This file characterises that step (evaluator result,
`applyRepl`, the state afterwards) for the end-to-end theorem on fragment A.
-/
namespace OV.C03

variable {V : Type}

/-- a name that is not one of the fresh names `%k` the pass generates -/
def NF (x : Name) : Prop := ∀ k : Nat, x ≠ "%" ++ toString k

/-- the identity replacement recorded by an evaluator in state `st` -/
def idRepl (st : St) (x : Name) : Repl :=
  { newNodes := [mkNode "Identity" [some x] [freshOf st]], newOuts := [freshOf st] }

/-- a node (after alias substitution) that the partial evaluators always replace by `Identity(x)` at opset `v` -/
def ReplId (n : Node) (v : Nat) (x : Name) : Prop :=
  n.domain = "" ∧ ((n.op = "Concat" ∧ n.inputs = [some x]) ∨
    (n.op = "Dropout" ∧ 12 ≤ v ∧ n.outputs.length = 1 ∧ ∃ tl, n.inputs = some x :: tl ∧ tl.length ≤ 1))

theorem evalPartial_replId (st0 : St) (n : Node) (v : Nat) (x : Name) (h : ReplId n v x) :
    ∃ st2, evalPartial n v st0 = (EvRes.repl (idRepl st0 x), st2) ∧ SameIS st0 st2 ∧ SameBk st0 st2 ∧ st2.err = st0.err := by
  obtain ⟨hdom, hc | ⟨hop, hv, hlen, tl, hin, htl⟩⟩ := h
  · obtain ⟨hop, hin⟩ := hc
    have hl : lookupEvaluator n v = some evConcat := by
      unfold lookupEvaluator
      simp [hdom, hop]
    unfold evalPartial
    rw [hl]
    simp only [runEvaluator, evConcat, hin, replIdentity, St.freshName, St.note, idRepl, freshOf]
    exact ⟨_, rfl, ⟨rfl, rfl⟩, ⟨rfl, rfl, rfl, rfl⟩, rfl⟩
  · have hl : lookupEvaluator n v = some evDropout := by
      unfold lookupEvaluator
      simp [hdom, hop, hv]
    have hcond : (n.inputs.length ≤ 2 || (n.inputs[2]?).join == none) = true := by
      rw [hin]; simp; omega
    have h1 : (n.outputs.length == 1) = true := by simp [hlen]
    unfold evalPartial
    rw [hl]
    simp only [runEvaluator, evDropout]
    rw [if_pos hcond]
    simp only [hin, St.freshName, h1, if_true, St.note, idRepl, freshOf]
    exact ⟨_, rfl, ⟨rfl, rfl⟩, ⟨rfl, rfl, rfl, rfl⟩, rfl⟩

/-- the state after `replace_node` put one new node `m` in place of `n` -/
def replState (st3 : St) (n : Node) (o fv : Name) (m : Node) (l : List Name) : St :=
  { (clearUnused { (countNewUses ((inheritInfo st3 [(o, fv)]).decUses n.inputs) [m]) with initNames := l }
      (n.inputs.filterMap id)) with modified := true }

theorem applyRepl_idRepl (ctx : Ctx) (hnf : ctx.isFunction = false) (st2 : St) (n : Node) (o fv x : Name)
    (ho : n.outputs = [o]) (hx : x ≠ fv) :
    ∃ l, applyRepl ctx st2 n { newNodes := [mkNode "Identity" [some x] [fv]], newOuts := [fv] } =
      .ok ([mkNode "Identity" [some x] [o]], [], replState st2 n o fv (mkNode "Identity" [some x] [o]) l) := by
  unfold applyRepl
  have hren : renNode maxDepth [(fv, o)] (mkNode "Identity" [some x] [fv]) = mkNode "Identity" [some x] [o] := by
    have h1 : (fv == x) = false := by simp; exact fun e => hx e.symm
    simp [maxDepth, renNode, mkNode, Node.op, Node.domain, Node.inputs, Node.outputs, Node.attrs, Node.subs,
      renName, lookupA, List.find?, h1]
  simp only [ho, List.length_cons, List.length_nil, bne_self_eq_false, Bool.false_eq_true, if_false, List.zip_cons_cons,
    List.zip_nil_right, List.map_cons, List.map_nil, hnf, hren]
  exact ⟨_, rfl⟩

theorem sameIS_incUses (xs : List (Option Name)) : ∀ (st : St), SameIS st (st.incUses xs) := by
  induction xs with
  | nil => intro st; exact SameIS.refl st
  | cons x xs ih =>
    intro st
    simp only [St.incUses, List.foldl_cons] at ih ⊢
    cases x with
    | none => exact ih st
    | some y => exact SameIS.trans (b := st.incUse y) ⟨rfl, rfl⟩ (ih _)

theorem sameIS_replState (st3 : St) (n : Node) (o fv : Name) (m : Node) (l : List Name) :
    SameIS (inheritInfo st3 [(o, fv)]) (replState st3 n o fv m l) := by
  have key : ∀ (A : St) (l : List Name) (ins : List Name),
      SameIS A { (clearUnused { A with initNames := l } ins) with modified := true } := fun A l ins =>
    SameIS.trans (b := { A with initNames := l }) ⟨rfl, rfl⟩
      (SameIS.trans (b := clearUnused { A with initNames := l } ins) (sameIS_clearUnused ins _) ⟨rfl, rfl⟩)
  refine SameIS.trans (sameIS_decUses n.inputs _) (SameIS.trans ?_ (key _ _ _))
  simp only [countNewUses, List.foldl_cons, List.foldl_nil]
  exact sameIS_incUses _ _

theorem inheritInfo_sym (st2 : St) (o fv : Name) : (inheritInfo st2 [(o, fv)]).sym = eraseA st2.sym o := rfl

/-- what `inheritInfo` does to the facts of the state when the new value has no constant of its own -/
theorem inheritInfo_plain (st2 : St) (o fv : Name) (hfv : st2.constOf fv = none) :
    (inheritInfo st2 [(o, fv)]).sym = eraseA st2.sym o ∧
    ∀ x c', (inheritInfo st2 [(o, fv)]).constOf x = some c' → st2.constOf x = some c' := by
  constructor
  · rfl
  · intro x c' h
    simp only [inheritInfo, List.foldl_cons, List.foldl_nil, St.constOf, St.getInfo, St.setInfo, St.clearSym,
      lookupA_erase, lookupA_insert] at h
    by_cases hxfv : x = fv
    · simp [hxfv] at h
    · simp only [hxfv, if_false] at h
      by_cases hxo : x = o
      · subst hxo
        simp only [if_true, Option.getD_some, orElse] at h
        simp only [St.constOf, St.getInfo] at hfv ⊢
        cases hold : ((lookupA st2.info x).getD {}).const with
        | none => rw [hold, hfv] at h; exact absurd h (by simp)
        | some c0 => rw [hold] at h; exact h
      · simp only [hxo, if_false] at h
        simpa only [St.constOf, St.getInfo] using h

/-! ### semantics: a node whose first output is its first input -/

theorem lookupAll_length {ρ : Env V} : ∀ (xs : List (Option Name)) (args : List (Option V)),
    lookupAll ρ xs = some args → args.length = xs.length
  | [], args, h => by simp [lookupAll] at h; subst h; rfl
  | x :: xs, args, h => by
    simp only [lookupAll] at h
    cases h1 : lookupIn ρ x with
    | none => simp [h1] at h
    | some a =>
      cases h2 : lookupAll ρ xs with
      | none => simp [h1, h2] at h
      | some r =>
        simp [h1, h2] at h
        subst h
        simp [lookupAll_length xs r h2]

theorem evalNode_first_input (sem : Sem V) (sub) (ρ ρ1 : Env V) (n : Node) (x o : Name) (tl : List (Option Name))
    (hsubs : n.subs = []) (hnc : n.isOp "Constant" = false) (hin : n.inputs = some x :: tl) (hout : n.outputs = [o])
    (hlaw : ∀ v args vs, ρ x = some v → lookupAll ρ tl = some args →
      sem.op n.op n.domain n.attrs (some v :: args) = some vs → vs.head? = some v)
    (hid : ∀ v, sem.op "Identity" "" [] [some v] = some [v])
    (he : evalNode sem sub ρ n = some ρ1) :
    evalNode sem sub ρ (mkNode "Identity" [some x] [o]) = some ρ1 := by
  simp only [evalNode, hin, lookupAll, lookupIn] at he
  cases hx : ρ x with
  | none => simp [hx] at he
  | some v =>
    cases htl : lookupAll ρ tl with
    | none => simp [hx, htl] at he
    | some args =>
      simp only [hx, htl, Option.map, Option.bind, nodeOutputs, hsubs, List.isEmpty_nil, if_true,
        constDenote_not_constant sem n hnc, hout] at he
      cases hop : sem.op n.op n.domain n.attrs (some v :: args) with
      | none => simp [hop] at he
      | some vs =>
        have hhd := hlaw v args vs hx htl hop
        cases vs with
        | nil => simp at hhd
        | cons w ws =>
          have hw : w = v := by simpa using hhd
          subst hw
          simp only [hop, bindOuts, Option.some.injEq] at he
          have hc : ("Identity" == "Constant") = false := by decide
          simp only [evalNode, mkNode, Node.inputs, lookupAll, lookupIn, hx, Option.map, Option.bind, nodeOutputs, Node.subs,
            List.isEmpty_nil, if_true, constDenote, Node.isOp, Node.op, Node.domain, Node.attrs, hc, Bool.false_and,
            Bool.false_eq_true, if_false, hid w, Node.outputs, bindOuts]
          rw [he]

/-! ### bookkeeping of the replacement state -/

theorem usesOf_incUses (x : Name) : ∀ (xs : List (Option Name)) (st : St),
    (st.incUses xs).usesOf x = st.usesOf x + xs.count (some x) := by
  intro xs
  induction xs with
  | nil => intro st; simp [St.incUses]
  | cons y ys ih =>
    intro st
    simp only [St.incUses, List.foldl_cons] at ih ⊢
    cases y with
    | none =>
      rw [ih st]
      simp
    | some z =>
      rw [ih (st.incUse z), usesOf_incUse, List.count_cons]
      by_cases h : x = z
      · subst h; simp; omega
      · have : (some z == some x) = false := by simp; exact fun e => h e.symm
        simp [h, this]

theorem replState_parts (st3 : St) (n : Node) (o fv : Name) (m : Node) (l : List Name) :
    (replState st3 n o fv m l).gins = st3.gins ∧ (replState st3 n o fv m l).gouts = st3.gouts ∧
    (∀ x, (replState st3 n o fv m l).usesOf x =
      (inheritInfo st3 [(o, fv)]).usesOf x - n.inputs.count (some x) + m.inputs.count (some x)) ∧
    (∀ x, x ∈ (replState st3 n o fv m l).removed → x ∈ st3.removed ∨
      ((replState st3 n o fv m l).usesOf x = 0 ∧ st3.gouts.contains x = false ∧ st3.gins.contains x = false)) := by
  obtain ⟨h1, h2, h3, h4⟩ := clearUnused_spec (n.inputs.filterMap id)
    { (countNewUses ((inheritInfo st3 [(o, fv)]).decUses n.inputs) [m]) with initNames := l }
  have hd := sameFrame_decUses n.inputs (inheritInfo st3 [(o, fv)])
  have hgouts_dec : ∀ (xs : List (Option Name)) (s : St), (s.decUses xs).gouts = s.gouts := by
    intro xs
    induction xs with
    | nil => intro s; rfl
    | cons y ys ih =>
      intro s
      simp only [St.decUses, List.foldl_cons] at ih ⊢
      cases y with
      | none => exact ih s
      | some z => exact ih (s.decUse z)
  have hinc : ∀ (xs : List (Option Name)) (s : St), (s.incUses xs).gouts = s.gouts ∧ (s.incUses xs).gins = s.gins ∧
      (s.incUses xs).removed = s.removed := by
    intro xs
    induction xs with
    | nil => intro s; exact ⟨rfl, rfl, rfl⟩
    | cons y ys ih =>
      intro s
      simp only [St.incUses, List.foldl_cons] at ih ⊢
      cases y with
      | none => exact ih s
      | some z => exact ih (s.incUse z)
  have hcn : countNewUses ((inheritInfo st3 [(o, fv)]).decUses n.inputs) [m] =
      ((inheritInfo st3 [(o, fv)]).decUses n.inputs).incUses m.inputs := by
    simp [countNewUses]
  have huses0 : ∀ x, (replState st3 n o fv m l).usesOf x =
      (countNewUses ((inheritInfo st3 [(o, fv)]).decUses n.inputs) [m]).usesOf x := by
    intro x
    simp only [replState, St.usesOf, h1]
  have huses : ∀ x, (replState st3 n o fv m l).usesOf x =
      (inheritInfo st3 [(o, fv)]).usesOf x - n.inputs.count (some x) + m.inputs.count (some x) := by
    intro x
    rw [huses0, hcn, usesOf_incUses, usesOf_decUses]
  obtain ⟨i1, i2, i3⟩ := hinc m.inputs ((inheritInfo st3 [(o, fv)]).decUses n.inputs)
  refine ⟨?_, ?_, huses, ?_⟩
  · show (clearUnused _ _).gins = st3.gins
    rw [h2, hcn]
    show ((St.decUses _ _).incUses _).gins = _
    rw [i2]
    exact hd.1
  · show (clearUnused _ _).gouts = st3.gouts
    rw [h3, hcn]
    show ((St.decUses _ _).incUses _).gouts = _
    rw [i1]
    exact hgouts_dec n.inputs _
  · intro x hx
    have hx' : x ∈ (clearUnused { (countNewUses ((inheritInfo st3 [(o, fv)]).decUses n.inputs) [m]) with initNames := l }
        (n.inputs.filterMap id)).removed := hx
    rcases h4 x hx' with h | ⟨hu, hg, hi⟩
    · left
      have : ({ (countNewUses ((inheritInfo st3 [(o, fv)]).decUses n.inputs) [m]) with initNames := l } : St).removed =
          st3.removed := by
        show (countNewUses _ _).removed = _
        rw [hcn, i3]
        exact hd.2
      rw [this] at h
      exact h
    · right
      refine ⟨?_, ?_, ?_⟩
      · rw [huses0]
        exact hu
      · have : ({ (countNewUses ((inheritInfo st3 [(o, fv)]).decUses n.inputs) [m]) with initNames := l } : St).gouts =
            st3.gouts := by
          show (countNewUses _ _).gouts = _
          rw [hcn, i1]
          exact hgouts_dec n.inputs _
        rw [this] at hg
        exact hg
      · have : ({ (countNewUses ((inheritInfo st3 [(o, fv)]).decUses n.inputs) [m]) with initNames := l } : St).gins =
            st3.gins := by
          show (countNewUses _ _).gins = _
          rw [hcn, i2]
          exact hd.1
        have hi' : st3.gins.contains x = false := by
          rw [← this]
          simpa [St.isGraphInput] using hi
        exact hi'

/-! ### evaluators that answer "nothing" or "one new node reading one of the inputs" -/

theorem sameBk_evalPartial (n : Node) (v : Nat) (st0 : St) : SameBk st0 (evalPartial n v st0).2 := by
  unfold evalPartial
  split
  · exact ⟨rfl, rfl, rfl, rfl⟩
  · exact ⟨rfl, rfl, rfl, rfl⟩

theorem err_evalPartial (n : Node) (v : Nat) (st0 : St) : (evalPartial n v st0).2.err = st0.err := by
  unfold evalPartial
  split <;> rfl

/-- a one-node replacement recorded on a fresh tape -/
def oneRepl (st : St) (opn : String) (x : Name) (attrs : List (String × Attr)) : Repl :=
  { newNodes := [mkNode opn [some x] [freshOf st] attrs], newOuts := [freshOf st] }

theorem idRepl_eq (st : St) (x : Name) : idRepl st x = oneRepl st "Identity" x [] := rfl

/-- the shape of what the partial evaluators answer on a node: nothing (symbolic values untouched), or one
new `Identity`/`Cast` node reading one of the node's inputs -/
def EvShape (n : Node) : Prop :=
  ∀ (st0 : St) (v : Nat),
    (evalPartial n v st0).2.dname = st0.dname ∧
    (((evalPartial n v st0).1 = EvRes.none ∧ (evalPartial n v st0).2.sym = st0.sym) ∨
    (∃ x opn attrs, (evalPartial n v st0).1 = EvRes.repl (oneRepl st0 opn x attrs) ∧ some x ∈ n.inputs ∧
      (evalPartial n v st0).2.sym = st0.sym ∧
      ((opn = "Identity" ∧ attrs = [] ∧ n.op ≠ "Identity") ∨
       (opn = "Cast" ∧ (∃ t : Nat, attrs = [("to", Attr.int t)]) ∧ n.op ≠ "Cast" ∧ n.op ≠ "Identity"))))

theorem applyRepl_one (ctx : Ctx) (hnf : ctx.isFunction = false) (st2 : St) (n : Node) (o fv x : Name) (opn : String)
    (attrs : List (String × Attr)) (ho : n.outputs = [o]) (hx : x ≠ fv) :
    ∃ l, applyRepl ctx st2 n { newNodes := [mkNode opn [some x] [fv] attrs], newOuts := [fv] } =
      .ok ([mkNode opn [some x] [o] attrs], [], replState st2 n o fv (mkNode opn [some x] [o] attrs) l) := by
  unfold applyRepl
  have hren : renNode maxDepth [(fv, o)] (mkNode opn [some x] [fv] attrs) = mkNode opn [some x] [o] attrs := by
    have h1 : (fv == x) = false := by simp; exact fun e => hx e.symm
    simp [maxDepth, renNode, mkNode, Node.op, Node.domain, Node.inputs, Node.outputs, Node.attrs, Node.subs,
      renName, lookupA, List.find?, h1]
  simp only [ho, List.length_cons, List.length_nil, bne_self_eq_false, Bool.false_eq_true, if_false, List.zip_cons_cons,
    List.zip_nil_right, List.map_cons, List.map_nil, hnf, hren]
  exact ⟨_, rfl⟩

theorem evShape_of_none (n : Node) (h : ∀ v, lookupEvaluator n v = none) : EvShape n := by
  intro st0 v
  unfold evalPartial
  rw [h v]
  exact ⟨rfl, Or.inl ⟨rfl, rfl⟩⟩

theorem evShape_concat1 (n : Node) (x : Name) (hop : n.op = "Concat") (hin : n.inputs = [some x]) : EvShape n := by
  intro st0 v
  by_cases hdom : n.domain = ""
  · have hl : lookupEvaluator n v = some evConcat := by
      unfold lookupEvaluator
      simp [hdom, hop]
    refine ⟨?_, Or.inr ⟨x, "Identity", [], ?_, by rw [hin]; simp, ?_, Or.inl ⟨rfl, rfl, by rw [hop]; decide⟩⟩⟩
    · unfold evalPartial
      rw [hl]
      simp only [runEvaluator, evConcat, hin, replIdentity, St.freshName, St.note]
    · unfold evalPartial
      rw [hl]
      simp only [runEvaluator, evConcat, hin, replIdentity, St.freshName, St.note, oneRepl, freshOf]
    · unfold evalPartial
      rw [hl]
      simp only [runEvaluator, evConcat, hin, replIdentity, St.freshName, St.note]
  · apply evShape_of_none n
    intro v
    unfold lookupEvaluator
    simp [hdom]

theorem evShape_dropout (n : Node) (x : Name) (tl : List (Option Name)) (hop : n.op = "Dropout") (hin : n.inputs = some x :: tl)
    (htl : tl.length ≤ 1) (hout : n.outputs.length = 1) : EvShape n := by
  intro st0 v
  by_cases hreg : n.domain = "" ∧ 12 ≤ v
  · have hl : lookupEvaluator n v = some evDropout := by
      unfold lookupEvaluator
      simp [hreg.1, hop, hreg.2]
    have hcond : (n.inputs.length ≤ 2 || (n.inputs[2]?).join == none) = true := by
      rw [hin]; simp; omega
    have h1 : (n.outputs.length == 1) = true := by simp [hout]
    refine ⟨?_, Or.inr ⟨x, "Identity", [], ?_, by rw [hin]; simp, ?_, Or.inl ⟨rfl, rfl, by rw [hop]; decide⟩⟩⟩
    · unfold evalPartial
      rw [hl]
      simp only [runEvaluator, evDropout]
      rw [if_pos hcond]
      simp only [hin, St.freshName, h1, if_true, St.note]
    · unfold evalPartial
      rw [hl]
      simp only [runEvaluator, evDropout]
      rw [if_pos hcond]
      simp only [hin, St.freshName, h1, if_true, St.note, oneRepl, freshOf]
    · unfold evalPartial
      rw [hl]
      simp only [runEvaluator, evDropout]
      rw [if_pos hcond]
      simp only [hin, St.freshName, h1, if_true, St.note]
  · have hl : lookupEvaluator n v = none := by
      unfold lookupEvaluator
      by_cases hdom : n.domain = ""
      · have : ¬ 12 ≤ v := fun h => hreg ⟨hdom, h⟩
        simp [hdom, hop, this]
      · simp [hdom]
    unfold evalPartial
    rw [hl]
    exact ⟨rfl, Or.inl ⟨rfl, rfl⟩⟩

theorem evShape_cast (n : Node) (x : Name) (hop : n.op = "Cast") (hin : n.inputs = [some x]) : EvShape n := by
  intro st0 v
  by_cases hdom : n.domain = ""
  · have hl : lookupEvaluator n v = some evCast := by
      unfold lookupEvaluator
      simp [hdom, hop]
    have hgi : getInput n 0 = some x := by simp [getInput, hin]
    unfold evalPartial
    rw [hl]
    simp only [runEvaluator, evCast, hgi]
    cases hgo : getOutput n 0 with
    | none => exact ⟨rfl, Or.inl ⟨rfl, rfl⟩⟩
    | some o =>
      simp only []
      cases hto : intAttr n "to" none with
      | none => exact ⟨rfl, Or.inl ⟨rfl, rfl⟩⟩
      | some to =>
        simp only []
        by_cases hsame : ((elemType st0 n 0 : Int) == to) = true
        · rw [if_pos hsame]
          exact ⟨rfl, Or.inr ⟨x, "Identity", [], rfl, by rw [hin]; simp, rfl, Or.inl ⟨rfl, rfl, by rw [hop]; decide⟩⟩⟩
        · rw [if_neg hsame]
          exact ⟨rfl, Or.inl ⟨rfl, rfl⟩⟩
  · exact evShape_of_none n (fun v => by unfold lookupEvaluator; simp [hdom]) st0 v

theorem evShape_castlike (n : Node) (x : Name) (tl : List (Option Name)) (hop : n.op = "CastLike") (hin : n.inputs = some x :: tl) :
    EvShape n := by
  intro st0 v
  by_cases hdom : n.domain = ""
  · have hl : lookupEvaluator n v = some evCastLike := by
      unfold lookupEvaluator
      simp [hdom, hop]
    unfold evalPartial
    rw [hl]
    simp only [runEvaluator, evCastLike, hin]
    by_cases h0 : (elemType st0 n 1 == 0) = true
    · rw [if_pos h0]
      exact ⟨rfl, Or.inl ⟨rfl, rfl⟩⟩
    · rw [if_neg h0]
      by_cases hs : (elemType st0 n 0 == elemType st0 n 1) = true
      · rw [if_pos hs]
        exact ⟨rfl, Or.inr ⟨x, "Identity", [], rfl, by simp, rfl, Or.inl ⟨rfl, rfl, by rw [hop]; decide⟩⟩⟩
      · rw [if_neg hs]
        exact ⟨rfl, Or.inr ⟨x, "Cast", [("to", .int (elemType st0 n 1))], rfl, by simp, rfl,
          Or.inr ⟨rfl, ⟨_, rfl⟩, by rw [hop]; decide, by rw [hop]; decide⟩⟩⟩
  · exact evShape_of_none n (fun v => by unfold lookupEvaluator; simp [hdom]) st0 v

/-- a node with one output whose evaluator answers in that shape whatever alias substitution did to its inputs -/
def ClsX (n0 : Node) : Prop :=
  n0.isOp "Constant" = false ∧ (∃ o, n0.outputs = [o]) ∧
  ∀ ins : List (Option Name), ins.map Option.isSome = n0.inputs.map Option.isSome → EvShape (n0.setInputs ins)

theorem shape_one {ins : List (Option Name)} {x : Name} (h : ins.map Option.isSome = [some x].map Option.isSome) :
    ∃ x', ins = [some x'] := by
  cases ins with
  | nil => simp at h
  | cons a r =>
    cases r with
    | nil =>
      cases a with
      | none => simp at h
      | some x' => exact ⟨x', rfl⟩
    | cons b r' => simp at h

theorem shape_cons {ins : List (Option Name)} {x : Name} {tl : List (Option Name)}
    (h : ins.map Option.isSome = (some x :: tl).map Option.isSome) :
    ∃ x' tl', ins = some x' :: tl' ∧ tl'.length = tl.length := by
  cases ins with
  | nil => simp at h
  | cons a r =>
    cases a with
    | none => simp at h
    | some x' =>
      refine ⟨x', r, rfl, ?_⟩
      have : r.map Option.isSome = tl.map Option.isSome := by simpa using h
      have := congrArg List.length this
      simpa using this

theorem clsX_concat1 (n : Node) (x o : Name) (hop : n.op = "Concat") (hin : n.inputs = [some x]) (hout : n.outputs = [o]) : ClsX n := by
  refine ⟨by simp [Node.isOp, hop], ⟨o, hout⟩, ?_⟩
  intro ins hs
  rw [hin] at hs
  obtain ⟨x', rfl⟩ := shape_one hs
  exact evShape_concat1 _ x' (by cases n; exact hop) (by cases n; rfl)

theorem clsX_dropout (n : Node) (x o : Name) (tl : List (Option Name)) (hop : n.op = "Dropout") (hin : n.inputs = some x :: tl)
    (htl : tl.length ≤ 1) (hout : n.outputs = [o]) : ClsX n := by
  refine ⟨by simp [Node.isOp, hop], ⟨o, hout⟩, ?_⟩
  intro ins hs
  rw [hin] at hs
  obtain ⟨x', tl', rfl, hl⟩ := shape_cons hs
  exact evShape_dropout _ x' tl' (by cases n; exact hop) (by cases n; rfl) (by omega) (by cases n; simp only [Node.setInputs, Node.outputs] at hout ⊢; rw [hout]; rfl)

theorem clsX_cast (n : Node) (x o : Name) (hop : n.op = "Cast") (hin : n.inputs = [some x]) (hout : n.outputs = [o]) : ClsX n := by
  refine ⟨by simp [Node.isOp, hop], ⟨o, hout⟩, ?_⟩
  intro ins hs
  rw [hin] at hs
  obtain ⟨x', rfl⟩ := shape_one hs
  exact evShape_cast _ x' (by cases n; exact hop) (by cases n; rfl)

theorem clsX_castlike (n : Node) (x o : Name) (tl : List (Option Name)) (hop : n.op = "CastLike") (hin : n.inputs = some x :: tl)
    (hout : n.outputs = [o]) : ClsX n := by
  refine ⟨by simp [Node.isOp, hop], ⟨o, hout⟩, ?_⟩
  intro ins hs
  rw [hin] at hs
  obtain ⟨x', tl', rfl, _⟩ := shape_cons hs
  exact evShape_castlike _ x' tl' (by cases n; exact hop) (by cases n; rfl)

end OV.C03
