import OV.Model.C03Pass
/-!
# C04 — the pass order of `optimize_ir` as data

`optimizeIr` (OV.Model.C03Pass) restates the pipeline as a function.  Here the same pipeline is a *list* of pass
identifiers interpreted by `runSeq` / `runLoop` (onnx_ir's `Sequential` and `PassManager(steps, early_stop)`), and
`optimizeSpec_eq` proves the two are the same function.  The list is what `harness/c04_extract.py` compares with the
source of `onnxscript/optimizer/_optimizer.py` on every run (OV.Gen.C04Pipeline + `pipeline_order_matches_source`).
-/
namespace OV.C03

inductive PassId where
  | inline | fold | rewrite | dce | dropFunctions | dropOpsets
  | liftConstants | liftSubgraphInits | dedup | cse | outputFix | nameFix
  deriving DecidableEq, Repr

/-- the class name in the source -/
def PassId.srcName : PassId → String
  | .inline => "InlinePass"
  | .fold => "FoldConstantsPass"
  | .rewrite => "RewritePass"
  | .dce => "RemoveUnusedNodesPass"
  | .dropFunctions => "RemoveUnusedFunctionsPass"
  | .dropOpsets => "RemoveUnusedOpsetsPass"
  | .liftConstants => "LiftConstantsToInitializersPass"
  | .liftSubgraphInits => "LiftSubgraphInitializersToMainGraphPass"
  | .dedup => "DeduplicateInitializersPass"
  | .cse => "CommonSubexpressionEliminationPass"
  | .outputFix => "OutputFixPass"
  | .nameFix => "NameFixPass"

/-- the passes of the iterated `PassManager`, in order -/
def loopSpec : List PassId := [.fold, .rewrite, .dce, .dropFunctions, .dropOpsets]

/-- the passes after the loop, in order -/
def tailSpec : List PassId := [.dce, .liftConstants, .liftSubgraphInits, .dedup, .cse, .outputFix, .nameFix]

/-- what is put in front when `inline` is set -/
def inlineSpec : List PassId := [.inline]

/-- one pass on the main graph: result and `modified`.  `FoldConstantsPass.call` runs `NameFixPass` itself when it modified
the model; the function / opset-import clean-ups do not touch a graph (they act on the model's function table and
import table); the `modified` flag of the passes outside the loop is never read. -/
def runPass (P : IrPasses) (fold : Graph → Graph × Bool) : PassId → Graph → Graph × Bool
  | .inline, g => (P.inline g, false)
  | .fold, g => (if (fold g).2 then P.nameFix (fold g).1 else (fold g).1, (fold g).2)
  | .rewrite, g => P.rewrite g
  | .dce, g => P.dce g
  | .dropFunctions, g => (g, false)
  | .dropOpsets, g => (g, false)
  | .liftConstants, g => (P.liftConstants g, false)
  | .liftSubgraphInits, g => (P.liftSubgraphInits g, false)
  | .dedup, g => (P.dedup g, false)
  | .cse, g => (P.cse g, false)
  | .outputFix, g => (P.outputFix g, false)
  | .nameFix, g => (P.nameFix g, false)

/-- `Sequential(*passes)` / one step of a `PassManager`: thread the graph, or the flags -/
def runSeq (P : IrPasses) (fold : Graph → Graph × Bool) : List PassId → Graph → Graph × Bool
  | [], g => (g, false)
  | p :: rest, g =>
    let r := runPass P fold p g
    let r2 := runSeq P fold rest r.1
    (r2.1, r.2 || r2.2)

/-- `PassManager(passes, steps, early_stop)` -/
def runLoop (P : IrPasses) (fold : Graph → Graph × Bool) (spec : List PassId) (earlyStop : Bool) : Nat → Graph → Graph
  | 0, g => g
  | k + 1, g =>
    let r := runSeq P fold spec g
    if earlyStop && !r.2 then r.1 else runLoop P fold spec earlyStop k r.1

/-- the pipeline read off the three lists -/
def optimizeSpec (P : IrPasses) (fold : Graph → Graph × Bool) (o : OptOpts) (g : Graph) : Graph :=
  let g := if o.inline then (runSeq P fold inlineSpec g).1 else g
  let g := runLoop P fold loopSpec o.stopIfNoChange o.numIterations g
  (runSeq P fold tailSpec g).1

theorem runSeq_loopSpec (P : IrPasses) (fold : Graph → Graph × Bool) (g : Graph) :
    runSeq P fold loopSpec g = iterStep P fold g := by
  simp only [loopSpec, runSeq, runPass, iterStep, Bool.or_false]
  cases (fold g).2 <;> simp only [Bool.false_or, Bool.true_or, if_true, if_false, Bool.false_eq_true]

theorem runLoop_loopSpec (P : IrPasses) (fold : Graph → Graph × Bool) (early : Bool) :
    ∀ (k : Nat) (g : Graph), runLoop P fold loopSpec early k g = iterate P fold early k g
  | 0, _ => rfl
  | k + 1, g => by
    simp only [runLoop, iterate, runSeq_loopSpec, runLoop_loopSpec P fold early k]

/-- **The list-driven pipeline is the modelled pipeline**: interpreting `inlineSpec`, `loopSpec`, `tailSpec` gives exactly
`optimizeIr`, for all passes, folding functions, option tuples and graphs. -/
theorem optimizeSpec_eq (P : IrPasses) (fold : Graph → Graph × Bool) (o : OptOpts) (g : Graph) :
    optimizeSpec P fold o g = optimizeIr P fold o g := by
  simp only [optimizeSpec, optimizeIr, runLoop_loopSpec, tailSpec, inlineSpec, runSeq, runPass]

end OV.C03
