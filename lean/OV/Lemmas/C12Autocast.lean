import OV.Model.C12Autocast
import OV.Model.C12Cache
/-! Helper lemmas for C12 (core Lean only). -/
deriving instance DecidableEq for Except

namespace OV.Autocast

theorem mapE_ok_map {α β ε : Type} (f : α → Except ε β) (g : α → β) (l : List α)
    (h : ∀ x ∈ l, f x = .ok (g x)) : mapE f l = .ok (l.map g) := by
  induction l with
  | nil => rfl
  | cons x xs ih =>
    have hx := h x (List.mem_cons_self)
    have hxs := ih (fun y hy => h y (List.mem_cons_of_mem _ hy))
    simp only [mapE, hx, hxs, List.map]

/-! ### bindings -/
section
variable {κ : Type} [DecidableEq κ]

theorem firstBinding_eq_none (tc : κ) (sa : List (Slot κ × Arg)) :
    firstBinding tc sa = none ↔ ∀ x ∈ sa, boundTo tc x = none := by
  induction sa with
  | nil => simp [firstBinding]
  | cons x xs ih =>
    unfold firstBinding
    cases hx : boundTo tc x with
    | none => simp [ih, hx]
    | some r => simp [hx]

theorem lastBinding_eq_none (tc : κ) (sa : List (Slot κ × Arg)) :
    lastBinding tc sa = none ↔ ∀ x ∈ sa, boundTo tc x = none := by
  induction sa with
  | nil => simp [lastBinding]
  | cons x xs ih =>
    unfold lastBinding
    cases hl : lastBinding tc xs with
    | none =>
      have := ih.mp hl
      simp only [List.mem_cons, forall_eq_or_imp]
      exact ⟨fun h => ⟨h, this⟩, fun h => h.1⟩
    | some r =>
      simp only [List.mem_cons, forall_eq_or_imp]
      constructor
      · intro h; cases h
      · intro h
        have := ih.mpr h.2
        rw [hl] at this; cases this

theorem firstBinding_mem (tc : κ) (sa : List (Slot κ × Arg)) (r : DType × Bool)
    (h : firstBinding tc sa = some r) : ∃ x ∈ sa, boundTo tc x = some r := by
  induction sa with
  | nil => simp [firstBinding] at h
  | cons x xs ih =>
    unfold firstBinding at h
    cases hx : boundTo tc x with
    | none =>
      rw [hx] at h
      obtain ⟨y, hy, hb⟩ := ih h
      exact ⟨y, List.mem_cons_of_mem _ hy, hb⟩
    | some r' =>
      rw [hx] at h
      cases h
      exact ⟨x, List.mem_cons_self, hx⟩

theorem lastBinding_mem (tc : κ) (sa : List (Slot κ × Arg)) (r : DType × Bool)
    (h : lastBinding tc sa = some r) : ∃ x ∈ sa, boundTo tc x = some r := by
  induction sa with
  | nil => simp [lastBinding] at h
  | cons x xs ih =>
    unfold lastBinding at h
    cases hl : lastBinding tc xs with
    | none =>
      rw [hl] at h
      exact ⟨x, List.mem_cons_self, h⟩
    | some r' =>
      rw [hl] at h
      cases h
      obtain ⟨y, hy, hb⟩ := ih hl
      exact ⟨y, List.mem_cons_of_mem _ hy, hb⟩

/-- Tensor operands bound to one type variable have one dtype (on an assigned argument list). -/
def WTsa (sa : List (Slot κ × Arg)) : Prop :=
  ∀ (tc : κ) (x y : Slot κ × Arg) (r1 r2 : DType × Bool), x ∈ sa → y ∈ sa →
    boundTo tc x = some r1 → boundTo tc y = some r2 → r1.1 = r2.1

theorem first_last_dtype (sa : List (Slot κ × Arg)) (hwt : WTsa sa) (tc : κ) :
    (firstBinding tc sa).map (·.1) = (lastBinding tc sa).map (·.1) := by
  cases hf : firstBinding tc sa with
  | none =>
    have := (lastBinding_eq_none tc sa).mpr ((firstBinding_eq_none tc sa).mp hf)
    simp [this]
  | some r1 =>
    obtain ⟨x, hx, hbx⟩ := firstBinding_mem tc sa r1 hf
    cases hl : lastBinding tc sa with
    | none =>
      have := (lastBinding_eq_none tc sa).mp hl x hx
      rw [hbx] at this; cases this
    | some r2 =>
      obtain ⟨y, hy, hby⟩ := lastBinding_mem tc sa r2 hl
      simp [hwt tc x y r1 r2 hx hy hbx hby]

theorem target_first_last (sa : List (Slot κ × Arg)) (hwt : WTsa sa) (s : Slot κ) :
    (targetFirst sa s).map (·.1) = (targetLast sa s).map (·.1) := by
  cases s with
  | untyped => rfl
  | tv n v => exact first_last_dtype sa hwt n

end

/-! ### values -/

theorem inRange_iff (dt : DType) (v : Int) :
    dt.inRange v = true ↔ dt.lo ≤ v ∧ v < dt.lo + dt.card := by
  unfold DType.inRange
  rw [Bool.and_eq_true]
  constructor
  · intro h; exact ⟨of_decide_eq_true h.1, of_decide_eq_true h.2⟩
  · intro h; exact ⟨decide_eq_true h.1, decide_eq_true h.2⟩

theorem wrap_of_inRange (dt : DType) (v : Int) (h : dt.inRange v = true) : wrap dt v = v := by
  have h' := (inRange_iff dt v).mp h
  cases dt <;> simp only [DType.lo, DType.card] at h' <;>
    simp only [wrap, DType.lo, DType.card] <;> omega

theorem npCast_of_repr (e : Scalar) (dt : DType) (h : representable e dt = true) :
    npCast e dt = .ok (specCast e dt) := by
  cases e <;> cases hc : dt.cls <;>
    simp only [representable, npCast, specCast, hc, Bool.and_eq_true, decide_eq_true_eq] at * <;>
    simp_all

theorem static_of_repr (e : Scalar) (dt : DType) (h : representable e dt = true) :
    ∃ v0, npCast e (kindDType e.kind) = .ok v0 ∧ onnxCast (kindDType e.kind) dt v0 = specCast e dt := by
  cases e with
  | b v =>
    refine ⟨.b v, rfl, ?_⟩
    cases hc : dt.cls <;> simp [onnxCast, specCast, hc]
  | i v =>
    have h64 : DType.int64.inRange v = true := by
      cases hc : dt.cls <;> simp_all [representable]
    refine ⟨.i v, ?_, ?_⟩
    · simp [npCast, Scalar.kind, kindDType, DType.cls, h64]
    · cases hc : dt.cls <;> simp_all [onnxCast, specCast, representable, wrap_of_inRange]
  | f neg n d =>
    refine ⟨.f neg n d false, rfl, ?_⟩
    cases hc : dt.cls <;> simp_all [onnxCast, specCast, representable, Scalar.kind, kindDType, DType.beq, DType.code] <;>
      (try (intro hn; exact h.resolve_left hn))

/-! ### literals -/

theorem Kind.eq_of_beq {a b : Kind} (h : a.beq b = true) : a = b := by
  cases a <;> cases b <;> first | rfl | (simp [Kind.beq] at h)

theorem head_mem_elems (l : Lit) : l.head ∈ l.elems := by
  cases l <;> simp [Lit.head, Lit.elems]

theorem hom_kind (l : Lit) (h : l.homogeneous = true) : ∀ e ∈ l.elems, e.kind = l.head.kind := by
  intro e he
  unfold Lit.homogeneous at h
  rw [List.all_eq_true] at h
  exact Kind.eq_of_beq (h e he)

theorem all_of_kind (l : Lit) (h : l.homogeneous = true) (P : Scalar → Bool)
    (hk : ∀ e : Scalar, e.kind = l.head.kind → P e = true) : l.elems.all P = true := by
  rw [List.all_eq_true]
  intro e he
  exact hk e (hom_kind l h e he)

theorem not_all_of_kind (l : Lit) (P : Scalar → Bool) (hk : P l.head = false) : l.elems.all P = false := by
  cases hall : l.elems.all P with
  | false => rfl
  | true =>
    rw [List.all_eq_true] at hall
    have := hall l.head (head_mem_elems l)
    rw [hk] at this; cases this

theorem irDefault_of_hom (l : Lit) (h : l.homogeneous = true) : irDefault l = pyDefault l := by
  unfold irDefault pyDefault
  cases hk : l.head.kind with
  | i =>
    have : l.elems.all Scalar.isI = true :=
      all_of_kind l h _ (fun e he => by cases e <;> simp_all [Scalar.kind, Scalar.isI])
    simp [this, kindDType]
  | f =>
    have h1 : l.elems.all Scalar.isI = false :=
      not_all_of_kind l _ (by cases hh : l.head <;> simp_all [Scalar.kind, Scalar.isI])
    have h2 : l.elems.all Scalar.isF = true :=
      all_of_kind l h _ (fun e he => by cases e <;> simp_all [Scalar.kind, Scalar.isF])
    simp [h1, h2, kindDType]
  | b =>
    have h1 : l.elems.all Scalar.isI = false :=
      not_all_of_kind l _ (by cases hh : l.head <;> simp_all [Scalar.kind, Scalar.isI])
    have h2 : l.elems.all Scalar.isF = false :=
      not_all_of_kind l _ (by cases hh : l.head <;> simp_all [Scalar.kind, Scalar.isF])
    have h3 : l.elems.all Scalar.isB = true :=
      all_of_kind l h _ (fun e he => by cases e <;> simp_all [Scalar.kind, Scalar.isB])
    simp [h1, h2, h3, kindDType]

theorem sameType_of_hom (l : Lit) (h : l.homogeneous = true) : sameTypeAsHead l = true := by
  cases l with
  | s x => rfl
  | l x xs =>
    have hk := hom_kind _ h
    simp only [Lit.elems, Lit.head, List.mem_cons, forall_eq_or_imp] at hk
    unfold sameTypeAsHead
    cases hx : x.kind <;> simp only [hx, List.all_eq_true] <;> intro e he <;>
      have := hk.2 e he <;> rw [hx] at this <;> cases e <;>
      simp_all [Scalar.kind, Scalar.isB, Scalar.isI, Scalar.isF]

theorem accepts_of_hom (l : Lit) (_h : l.homogeneous = true) : builderAccepts l = true := rfl

theorem builderDefault_of_hom (l : Lit) (h : l.homogeneous = true) : builderDefault l = pyDefault l := by
  unfold builderDefault builderKeyDType pyDefault
  rw [sameType_of_hom l h]
  simp only [if_true]
  cases hk : l.head.kind with
  | i => rfl
  | f => rfl
  | b =>
    have := irDefault_of_hom l h
    simp only [pyDefault, hk] at this
    simp [this, kindDType]

theorem ruleDefault_of_hom (l : Lit) (h : l.homogeneous = true) : ruleDefault l = pyDefault l :=
  irDefault_of_hom l h

theorem dynDefault_of_hom (l : Lit) (h : l.homogeneous = true) : dynDefault l = pyDefault l := by
  simp [dynDefault, h, pyDefault]

/-! ### the three default dtypes coincide on every literal (since fa769b8) -/

theorem Kind.beq_refl (k : Kind) : k.beq k = true := by cases k <;> rfl

theorem hom_of_all_kind (l : Lit) (k : Kind) (h : ∀ e ∈ l.elems, e.kind = k) : l.homogeneous = true := by
  unfold Lit.homogeneous
  rw [List.all_eq_true]
  intro e he
  rw [h e he, h l.head (head_mem_elems l)]
  exact Kind.beq_refl k

theorem not_allI_of_not_hom (l : Lit) (h : l.homogeneous = false) : l.elems.all Scalar.isI = false := by
  cases ha : l.elems.all Scalar.isI with
  | false => rfl
  | true =>
    rw [List.all_eq_true] at ha
    have := hom_of_all_kind l .i (fun e he => by have := ha e he; cases e <;> simp_all [Scalar.isI, Scalar.kind])
    rw [h] at this; cases this

theorem not_allF_of_not_hom (l : Lit) (h : l.homogeneous = false) : l.elems.all Scalar.isF = false := by
  cases ha : l.elems.all Scalar.isF with
  | false => rfl
  | true =>
    rw [List.all_eq_true] at ha
    have := hom_of_all_kind l .f (fun e he => by have := ha e he; cases e <;> simp_all [Scalar.isF, Scalar.kind])
    rw [h] at this; cases this

/-- Eager mode's default dtype is `ir.tensor`'s (the converter's) on every literal. -/
theorem dynDefault_eq (l : Lit) : dynDefault l = irDefault l := by
  unfold dynDefault
  cases hh : l.homogeneous with
  | true => simp only [if_true]; exact (irDefault_of_hom l hh).symm
  | false =>
    simp only [Bool.false_eq_true, if_false]
    unfold irDefault numpyInfer
    simp only [not_allI_of_not_hom l hh, not_allF_of_not_hom l hh, Bool.false_eq_true, if_false]

theorem sameType_elems (l : Lit) (hs : sameTypeAsHead l = true) (P : Scalar → Bool)
    (hhead : P l.head = true)
    (hrest : ∀ x xs, l = .l x xs → ∀ e ∈ xs, P e = true) : ∀ e ∈ l.elems, P e = true := by
  cases l with
  | s x => intro e he; simp only [Lit.elems, List.mem_singleton] at he; subst he; exact hhead
  | l x xs =>
    intro e he
    simp only [Lit.elems, List.mem_cons] at he
    rcases he with rfl | he
    · exact hhead
    · exact hrest x xs rfl e he

/-- The builder's default dtype is `ir.tensor`'s on every literal. -/
theorem builderDefault_eq (l : Lit) : builderDefault l = irDefault l := by
  unfold builderDefault builderKeyDType
  cases hs : sameTypeAsHead l with
  | false => rfl
  | true =>
    simp only [if_true]
    cases hk : l.head.kind with
    | b => rfl
    | i =>
      simp only [Option.getD_some]
      have hhead : l.head.isI = true := by cases hx : l.head <;> simp_all [Scalar.kind, Scalar.isI]
      have hel : ∀ e ∈ l.elems, (e.isI || e.isB) = true :=
        sameType_elems l hs _ (by simp [hhead]) (fun x xs hl e he => by
          subst hl
          simp only [Lit.head] at hk
          simp only [sameTypeAsHead, hk, List.all_eq_true] at hs
          exact hs e he)
      unfold irDefault
      by_cases h1 : l.elems.all Scalar.isI = true
      · simp [h1]
      · have h2 : l.elems.all Scalar.isF = false :=
          not_all_of_kind l _ (by cases hx : l.head <;> simp_all [Scalar.kind, Scalar.isF, Scalar.isI])
        have h3 : l.elems.all Scalar.isB = false :=
          not_all_of_kind l _ (by cases hx : l.head <;> simp_all [Scalar.kind, Scalar.isB, Scalar.isI])
        have h4 : l.elems.all (fun e => !e.isF) = true := by
          rw [List.all_eq_true]
          intro e he
          have := hel e he
          cases e <;> simp_all [Scalar.isI, Scalar.isB, Scalar.isF]
        simp [h1, h2, h3, h4]
    | f =>
      simp only [Option.getD_some]
      have hhead : l.head.isF = true := by cases hx : l.head <;> simp_all [Scalar.kind, Scalar.isF]
      have hel : ∀ e ∈ l.elems, e.isF = true :=
        sameType_elems l hs _ hhead (fun x xs hl e he => by
          subst hl
          simp only [Lit.head] at hk
          simp only [sameTypeAsHead, hk, List.all_eq_true] at hs
          exact hs e he)
      have h1 : l.elems.all Scalar.isI = false :=
        not_all_of_kind l _ (by cases hx : l.head <;> simp_all [Scalar.kind, Scalar.isI, Scalar.isF])
      have h2 : l.elems.all Scalar.isF = true := List.all_eq_true.mpr hel
      unfold irDefault
      simp [h1, h2]

/-! ### values: default dtype, then CastLike — for every literal, lists mixing Python types included -/

/-- The default dtype `d0` a list gets can hold element `e`: it is the dtype of `e`'s own Python type, or INT64 for a
bool (bool/int mix), or DOUBLE (any mix with a float). -/
def Adm (e : Scalar) (d0 : DType) : Prop :=
  d0 = kindDType e.kind ∨ (d0 = .int64 ∧ e.kind = .b) ∨ d0 = .double

theorem adm_irDefault (l : Lit) : ∀ e ∈ l.elems, Adm e (irDefault l) := by
  intro e he
  unfold irDefault
  dsimp only
  by_cases h1 : l.elems.all Scalar.isI = true
  · rw [if_pos h1]
    left
    have := List.all_eq_true.mp h1 e he
    cases e <;> simp [Scalar.isI] at this <;> rfl
  · rw [if_neg h1]
    by_cases h2 : l.elems.all Scalar.isF = true
    · rw [if_pos h2]
      left
      have := List.all_eq_true.mp h2 e he
      cases e <;> simp [Scalar.isF] at this <;> rfl
    · rw [if_neg h2]
      by_cases h3 : l.elems.all Scalar.isB = true
      · rw [if_pos h3]
        left
        have := List.all_eq_true.mp h3 e he
        cases e <;> simp [Scalar.isB] at this <;> rfl
      · rw [if_neg h3]
        by_cases h4 : l.elems.all (fun e => !e.isF) = true
        · rw [if_pos h4]
          have := List.all_eq_true.mp h4 e he
          cases e with
          | b v => right; left; exact ⟨rfl, rfl⟩
          | i v => left; rfl
          | f s n d => simp [Scalar.isF] at this
        · rw [if_neg h4]; right; right; rfl

theorem inRange_boolInt (dt : DType) (hc : dt.cls = .int) (v : Bool) : dt.inRange (boolInt v) = true := by
  cases dt <;> simp [DType.cls] at hc <;> cases v <;> decide

theorem exactBound_pos (dt : DType) (hc : dt.cls = .flt) : 1 ≤ dt.exactBound := by
  cases dt <;> simp [DType.cls] at hc <;> decide

/-- Default-dtype constant followed by `CastLike`, for any admissible default dtype. -/
theorem static_of_repr_gen (e : Scalar) (d0 dt : DType) (ha : Adm e d0) (h : representable e dt = true)
    (hv : viaOk d0 e = true) :
    ∃ v0, npCast e d0 = .ok v0 ∧ onnxCast d0 dt v0 = specCast e dt := by
  rcases ha with rfl | ⟨rfl, hk⟩ | rfl
  · exact static_of_repr e dt h
  · -- a bool materialised as INT64
    cases e with
    | b v =>
      refine ⟨.i (boolInt v), by simp [npCast, DType.cls], ?_⟩
      cases hc : dt.cls
      · have := exactBound_pos dt hc
        cases v <;> simp [onnxCast, specCast, hc, boolInt, boolNat] <;> omega
      · simp [onnxCast, specCast, hc, wrap_of_inRange dt _ (inRange_boolInt dt hc v)]
      · cases v <;> simp [onnxCast, specCast, hc, boolInt]
    | i v => simp [Scalar.kind] at hk
    | f s n d => simp [Scalar.kind] at hk
  · -- anything materialised as DOUBLE
    cases e with
    | b v =>
      refine ⟨.f false (boolNat v) 1 false, by simp [npCast, DType.cls], ?_⟩
      cases hc : dt.cls
      · simp [onnxCast, specCast, hc, DType.beq, DType.code]
      · have := inRange_boolInt dt hc v
        cases v <;> simp_all [onnxCast, specCast, hc, DType.beq, DType.code, signed, boolNat, boolInt]
      · cases v <;> simp [onnxCast, specCast, hc, DType.beq, DType.code, boolNat]
    | i v =>
      have hb : v.natAbs ≤ 9007199254740992 := by simpa [viaOk, DType.beq, DType.code] using hv
      have hs : signed (decide (v < 0)) v.natAbs = v := by
        simp only [signed]; by_cases h0 : v < 0 <;> simp [h0] <;> omega
      refine ⟨.f (decide (v < 0)) v.natAbs 1 false, by simp [npCast, DType.cls, DType.exactBound, hb], ?_⟩
      cases hc : dt.cls
      · simp [onnxCast, specCast, hc, DType.beq, DType.code]
      · have hr : dt.inRange v = true := by simp_all [representable]
        simp [onnxCast, specCast, hc, DType.beq, DType.code, hs, hr]
      · by_cases h0 : v = 0
        · simp [onnxCast, specCast, hc, DType.beq, DType.code, h0]
        · have : v.natAbs ≠ 0 := by omega
          have e1 : (v != 0) = true := bne_iff_ne.mpr h0
          have e2 : (v.natAbs != 0) = true := bne_iff_ne.mpr this
          simp [onnxCast, specCast, hc, DType.beq, DType.code, e1, e2]
    | f s n d =>
      refine ⟨.f s n d false, by simp [npCast, DType.cls], ?_⟩
      cases hc : dt.cls
      · simp [onnxCast, specCast, hc, DType.beq, DType.code]
      · have hr : dt.inRange (signed s (n / d)) = true := by simp_all [representable]
        simp [onnxCast, specCast, hc, DType.beq, DType.code, hr]
      · simp [onnxCast, specCast, hc, DType.beq, DType.code]

theorem litRepr_elems (l : Lit) (dt : DType) (h : litRepresentable l dt = true) :
    ∀ e ∈ l.elems, representable e dt = true ∧ viaOk (irDefault l) e = true := by
  unfold litRepresentable at h
  rw [List.all_eq_true] at h
  intro e he
  simpa [Bool.and_eq_true] using h e he

/-- `np.array(literal, dtype)` yields the rule's tensor on representable literals. -/
theorem npConst_of_repr (l : Lit) (dt : DType) (h : litRepresentable l dt = true) :
    npConst l dt = .ok (.const dt l.isList (l.elems.map (fun e => specCast e dt))) := by
  unfold npConst
  rw [mapE_ok_map (fun e => npCast e dt) (fun e => specCast e dt) l.elems
    (fun e he => npCast_of_repr e dt (litRepr_elems l dt h e he).1)]

/-- value of `npCast e d0` when it succeeds (proof device). -/
def npVal (d0 : DType) (e : Scalar) : SVal :=
  match npCast e d0 with
  | .ok v => v
  | .error _ => .unmodelled

/-- Default-dtype constant followed by `CastLike` to `dt` yields the rule's tensor. -/
theorem castLike_of_repr (l : Lit) (dt : DType) (h : litRepresentable l dt = true) :
    ∃ vs, mapE (fun e => npCast e (irDefault l)) l.elems = .ok vs ∧
      vs.map (onnxCast (irDefault l) dt) = l.elems.map (fun e => specCast e dt) := by
  have hstat : ∀ e ∈ l.elems, npCast e (irDefault l) = .ok (npVal (irDefault l) e) ∧
      onnxCast (irDefault l) dt (npVal (irDefault l) e) = specCast e dt := by
    intro e he
    obtain ⟨hr, hv⟩ := litRepr_elems l dt h e he
    obtain ⟨v0, hv0, hc⟩ := static_of_repr_gen e (irDefault l) dt (adm_irDefault l e he) hr hv
    exact ⟨by simp [npVal, hv0], by simp [npVal, hv0, hc]⟩
  refine ⟨l.elems.map (npVal (irDefault l)), mapE_ok_map _ _ _ (fun e he => (hstat e he).1), ?_⟩
  rw [List.map_map]
  apply List.map_congr_left
  intro e he
  exact (hstat e he).2

theorem staticConst_some_of_repr (l : Lit) (dt : DType) (h : litRepresentable l dt = true) :
    staticConst l (some dt) = .ok (.const dt l.isList (l.elems.map (fun e => specCast e dt))) := by
  obtain ⟨vs, hvs, hmap⟩ := castLike_of_repr l dt h
  unfold staticConst
  simp only [hvs, hmap]

theorem staticConst_none_of_repr (l : Lit) (h : litRepresentable l (irDefault l) = true) :
    staticConst l none = .ok (.const (irDefault l) l.isList (l.elems.map (fun e => specCast e (irDefault l)))) := by
  have := npConst_of_repr l (irDefault l) h
  unfold npConst at this
  unfold staticConst
  dsimp only
  cases hm : mapE (fun e => npCast e (irDefault l)) l.elems with
  | error e => rw [hm] at this; cases this
  | ok vs => rw [hm] at this; simpa using this

theorem builderConst_of_repr (l : Lit) (dt : DType) (h : litRepresentable l dt = true) :
    builderConst l (some dt) = .ok (.const dt l.isList (l.elems.map (fun e => specCast e dt))) := by
  simp [builderConst, builderAccepts, npConst_of_repr l dt h]

theorem builderConst_none_of_repr (l : Lit) (h : litRepresentable l (irDefault l) = true) :
    builderConst l none = .ok (.const (irDefault l) l.isList (l.elems.map (fun e => specCast e (irDefault l)))) := by
  simp [builderConst, builderAccepts, builderDefault_eq, npConst_of_repr l _ h]

theorem builderCastLike_of_repr (l : Lit) (dt : DType) (h : litRepresentable l dt = true) :
    builderCastLike l dt = .ok (.const dt l.isList (l.elems.map (fun e => specCast e dt))) := by
  obtain ⟨vs, hvs, hmap⟩ := castLike_of_repr l dt h
  have hb : builderConst l none = .ok (.const (irDefault l) l.isList vs) := by
    simp [builderConst, builderAccepts, builderDefault_eq, npConst, hvs]
  unfold builderCastLike
  rw [hb]
  simp only [hmap]

/-! ### one argument position -/
section
variable {κ : Type} [DecidableEq κ]

/-- The literal at this position (if it is one) is representable in the rule's dtype. -/
def ReprAt (sa : List (Slot κ × Arg)) (p : Slot κ × Arg) : Prop :=
  ∀ l, p.2 = .lit l → litRepresentable l (ruleDType sa p.1 l) = true

theorem emitStatic_eq (sa : List (Slot κ × Arg)) (hwt : WTsa sa) (p : Slot κ × Arg) (hr : ReprAt sa p) :
    emitStatic sa p = .ok (emitExpected sa p) := by
  obtain ⟨s, a⟩ := p
  cases a with
  | none => rfl
  | tensor dt k => rfl
  | lit l =>
    have hr := hr l rfl
    have ht := target_first_last sa hwt s
    simp only [emitStatic, emitExpected, ruleDType, ruleDefault] at *
    rw [← ht]
    cases hf : targetFirst sa s with
    | none =>
      rw [hf] at hr
      simpa using staticConst_none_of_repr l hr
    | some r =>
      rw [hf] at hr
      simpa using staticConst_some_of_repr l r.1 hr

theorem emitDynamic_eq (sa : List (Slot κ × Arg)) (hwt : WTsa sa) (p : Slot κ × Arg) (hr : ReprAt sa p) :
    emitDynamic sa p = .ok (emitExpected sa p) := by
  obtain ⟨s, a⟩ := p
  cases a with
  | none => rfl
  | tensor dt k => rfl
  | lit l =>
    have hr := hr l rfl
    have ht := target_first_last sa hwt s
    simp only [emitDynamic, emitExpected, ruleDType, ruleDefault, dynDefault_eq] at *
    cases hl : targetLast sa s with
    | none =>
      rw [hl] at ht
      simp only [Option.map_none, Option.map_eq_none_iff] at ht
      rw [ht] at hr ⊢
      simpa using npConst_of_repr l (irDefault l) hr
    | some r =>
      rw [hl] at ht
      obtain ⟨dt, k⟩ := r
      simp only [Option.map_some] at ht
      rw [ht] at hr ⊢
      simpa using npConst_of_repr l dt hr

theorem emitBuilder_eq (sa : List (Slot κ × Arg)) (p : Slot κ × Arg) (hr : ReprAt sa p) :
    emitBuilder sa p = .ok (emitExpected sa p) := by
  obtain ⟨s, a⟩ := p
  cases a with
  | none => rfl
  | tensor dt k => rfl
  | lit l =>
    have hr := hr l rfl
    simp only [emitBuilder, emitExpected, ruleDType, ruleDefault] at *
    cases hf : targetFirst sa s with
    | none =>
      rw [hf] at hr
      simpa using builderConst_none_of_repr l hr
    | some r =>
      rw [hf] at hr
      obtain ⟨dt, k⟩ := r
      cases k with
      | true => simpa using builderConst_of_repr l dt hr
      | false => simpa using builderCastLike_of_repr l dt hr

/-- `allRepresentable` unpacked. -/
theorem reprAt_of_all (fs : List (Formal κ)) (args : List Arg) (sa : List (Slot κ × Arg))
    (ha : assign fs args = .ok sa) (h : allRepresentable fs args = true) : ∀ p ∈ sa, ReprAt sa p := by
  intro p hp l hl
  unfold allRepresentable at h
  rw [ha] at h
  simp only [List.all_eq_true] at h
  have := h p hp
  rw [hl] at this
  exact this

end

/-! ### the constant cache -/

theorem cross_div (n1 d1 n2 d2 : Nat) (h1 : 0 < d1) (h2 : 0 < d2) (h : n1 * d2 = n2 * d1) :
    n1 / d1 = n2 / d2 := by
  have a : n1 * d2 / (d1 * d2) = n1 / d1 := Nat.mul_div_mul_right n1 d1 h2
  have b : n2 * d1 / (d2 * d1) = n2 / d2 := Nat.mul_div_mul_right n2 d2 h1
  rw [← a, ← b, h, Nat.mul_comm d1 d2]

theorem cross_zero (n1 d1 n2 d2 : Nat) (h1 : 0 < d1) (h2 : 0 < d2) (h : n1 * d2 = n2 * d1) :
    n1 = 0 ↔ n2 = 0 := by
  constructor
  · intro hz; subst hz
    have : n2 * d1 = 0 := by omega
    rcases Nat.mul_eq_zero.mp this with h | h <;> omega
  · intro hz; subst hz
    have : n1 * d2 = 0 := by omega
    rcases Nat.mul_eq_zero.mp this with h | h <;> omega

/-- sign-insensitive: a zero carries no negative sign -/
def SIn (s : Bool) (n : Nat) : Prop := n = 0 → s = false

theorem signed_cross (s1 s2 : Bool) (n1 d1 n2 d2 : Nat) (h1 : 0 < d1) (h2 : 0 < d2)
    (h : signed s1 n1 * (d2 : Int) = signed s2 n2 * (d1 : Int)) (i1 : SIn s1 n1) (i2 : SIn s2 n2) :
    s1 = s2 ∧ n1 * d2 = n2 * d1 := by
  cases s1 <;> cases s2 <;> simp only [signed, Bool.false_eq_true, if_false, if_true] at h
  · exact ⟨rfl, by exact_mod_cast h⟩
  · rw [Int.neg_mul] at h
    have e : ((n1 * d2 : Nat) : Int) = -((n2 * d1 : Nat) : Int) := by push_cast; exact h
    have z : n2 * d1 = 0 := by omega
    rcases Nat.mul_eq_zero.mp z with hz | hz
    · exact absurd (i2 hz) (by decide)
    · omega
  · rw [Int.neg_mul] at h
    have e : -((n1 * d2 : Nat) : Int) = ((n2 * d1 : Nat) : Int) := by push_cast; exact h
    have z : n1 * d2 = 0 := by omega
    rcases Nat.mul_eq_zero.mp z with hz | hz
    · exact absurd (i1 hz) (by decide)
    · omega
  · rw [Int.neg_mul, Int.neg_mul] at h
    have e : ((n1 * d2 : Nat) : Int) = ((n2 * d1 : Nat) : Int) := by push_cast; omega
    exact ⟨rfl, by exact_mod_cast e⟩


/-- Two materialised elements denote the same number (floats: same sign — also of zero —, same
rounding path, same rational). -/
def SVal.eqv : SVal → SVal → Prop
  | .b x, .b y => x = y
  | .i x, .i y => x = y
  | .f s n d v, .f s' n' d' v' => s = s' ∧ v = v' ∧ n * d' = n' * d
  | .unmodelled, .unmodelled => True
  | _, _ => False

def resEqvS : Except Err SVal → Except Err SVal → Prop
  | .ok a, .ok b => a.eqv b
  | .error a, .error b => a = b
  | _, _ => False

/-- A Python number as sign / numerator / denominator. -/
def Scalar.norm : Scalar → Bool × Nat × Nat
  | .b v => (false, boolNat v, 1)
  | .i v => (decide (v < 0), v.natAbs, 1)
  | .f s n d => (s, n, d)

def Scalar.WF (x : Scalar) : Prop := 0 < x.norm.2.2
/-- No negative zero. -/
def Scalar.SI (x : Scalar) : Prop := SIn x.norm.1 x.norm.2.1
/-- `np.array(x, dt)` is determined by the model. -/
def Modelled (x : Scalar) (dt : DType) : Prop := npCast x dt ≠ .ok .unmodelled

theorem frac_norm (x : Scalar) : x.frac = (signed x.norm.1 x.norm.2.1, x.norm.2.2) := by
  cases x with
  | b v => cases v <;> rfl
  | i v =>
    simp only [Scalar.frac, Scalar.norm, signed]
    by_cases h : v < 0 <;> simp [h] <;> omega
  | f s n d => rfl

theorem npCast_norm (x : Scalar) (dt : DType) (hm : Modelled x dt) :
    npCast x dt = npCast (.f x.norm.1 x.norm.2.1 x.norm.2.2) dt := by
  cases x with
  | f s n d => rfl
  | b v =>
    cases dt <;> cases v <;> simp [npCast, DType.cls, Scalar.norm, boolNat, boolInt, signed, DType.inRange, DType.lo, DType.card]
  | i v =>
    have hs : signed (decide (v < 0)) v.natAbs = v := by
      simp only [signed]; by_cases h : v < 0 <;> simp [h] <;> omega
    unfold Modelled at hm
    cases hc : dt.cls <;> simp only [npCast, hc, Scalar.norm, Nat.div_one, hs] at hm ⊢
    · split at hm
      · rename_i h; simp [h]
      · exact absurd rfl hm
    · by_cases h : v = 0
      · simp [h]
      · have : v.natAbs ≠ 0 := by omega
        have e1 : (v != 0) = true := bne_iff_ne.mpr h
        have e2 : (v.natAbs != 0) = true := bne_iff_ne.mpr this
        rw [e1, e2]


theorem SVal.eqv_refl (v : SVal) : v.eqv v := by
  cases v <;> simp [SVal.eqv]

theorem npCastF_eqv (s : Bool) (n1 d1 n2 d2 : Nat) (h1 : 0 < d1) (h2 : 0 < d2)
    (hc : n1 * d2 = n2 * d1) (dt : DType) :
    resEqvS (npCast (.f s n1 d1) dt) (npCast (.f s n2 d2) dt) := by
  cases hcls : dt.cls <;> simp only [npCast, hcls]
  · exact ⟨rfl, rfl, hc⟩
  · rw [cross_div n1 d1 n2 d2 h1 h2 hc]
    split
    · simp [resEqvS, SVal.eqv]
    · simp [resEqvS]
  · have := cross_zero n1 d1 n2 d2 h1 h2 hc
    by_cases hz : n1 = 0
    · have hz2 := this.mp hz
      simp [resEqvS, SVal.eqv, hz, hz2]
    · have hz2 : n2 ≠ 0 := fun h => hz (this.mpr h)
      have e1 : (n1 != 0) = true := bne_iff_ne.mpr hz
      have e2 : (n2 != 0) = true := bne_iff_ne.mpr hz2
      simp [resEqvS, SVal.eqv, e1, e2]

/-- **Key lemma of cache soundness.**  Two Python numbers that are `==` become the same tensor element
under every dtype, provided neither is a negative zero (and both conversions are determined by the model). -/
theorem pyEqS_cast_same (x y : Scalar) (dt : DType) (hx : x.WF) (hy : y.WF) (sx : x.SI) (sy : y.SI)
    (mx : Modelled x dt) (my : Modelled y dt) (h : pyEqS x y = true) :
    resEqvS (npCast x dt) (npCast y dt) := by
  unfold pyEqS at h
  rw [frac_norm x, frac_norm y] at h
  simp only [beq_iff_eq] at h
  obtain ⟨hs, hc⟩ := signed_cross _ _ _ _ _ _ hx hy h sx sy
  rw [npCast_norm x dt mx, npCast_norm y dt my, hs]
  exact npCastF_eqv _ _ _ _ _ hx hy hc dt


/-! lists and literals -/

def Lit.WF (l : Lit) : Prop := ∀ e ∈ l.elems, e.WF
/-- No element is a negative zero. -/
def Lit.SI (l : Lit) : Prop := ∀ e ∈ l.elems, e.SI
def LitModelled (l : Lit) (dt : DType) : Prop := ∀ e ∈ l.elems, Modelled e dt

/-- Element-wise `SVal.eqv` on lists of equal length. -/
def listEqv : List SVal → List SVal → Prop
  | [], [] => True
  | a :: as, b :: bs => a.eqv b ∧ listEqv as bs
  | _, _ => False

/-- Two materialisation results denote the same tensor (or both fail). -/
def valsEqv : Except Err (List SVal) → Except Err (List SVal) → Prop
  | .ok a, .ok b => listEqv a b
  | .error _, .error _ => True
  | _, _ => False

theorem valsEqv_refl (vs : List SVal) : valsEqv (.ok vs) (.ok vs) := by
  induction vs with
  | nil => exact True.intro
  | cons v vs ih => exact ⟨SVal.eqv_refl v, ih⟩

theorem pyEqList_cast_same (dt : DType) : ∀ (xs ys : List Scalar),
    (∀ e ∈ xs, e.WF ∧ e.SI ∧ Modelled e dt) → (∀ e ∈ ys, e.WF ∧ e.SI ∧ Modelled e dt) →
    pyEqList xs ys = true →
    valsEqv (mapE (fun e => npCast e dt) xs) (mapE (fun e => npCast e dt) ys)
  | [], [], _, _, _ => True.intro
  | [], _ :: _, _, _, h => by simp [pyEqList] at h
  | _ :: _, [], _, _, h => by simp [pyEqList] at h
  | x :: xs, y :: ys, hx, hy, h => by
    simp only [pyEqList, Bool.and_eq_true] at h
    have hx0 := hx x List.mem_cons_self
    have hy0 := hy y List.mem_cons_self
    have h0 := pyEqS_cast_same x y dt hx0.1 hy0.1 hx0.2.1 hy0.2.1 hx0.2.2 hy0.2.2 h.1
    have ih := pyEqList_cast_same dt xs ys (fun e he => hx e (List.mem_cons_of_mem _ he))
      (fun e he => hy e (List.mem_cons_of_mem _ he)) h.2
    simp only [mapE]
    cases hcx : npCast x dt <;> cases hcy : npCast y dt <;> rw [hcx, hcy] at h0 <;>
      simp only [resEqvS] at h0
    · trivial
    · cases hmx : mapE (fun e => npCast e dt) xs <;> cases hmy : mapE (fun e => npCast e dt) ys <;>
        rw [hmx, hmy] at ih <;> simp only [valsEqv] at ih ⊢
      exact ⟨h0, ih⟩

theorem pyEq_cast_same (k l : Lit) (dt : DType) (hk : k.WF ∧ k.SI ∧ LitModelled k dt)
    (hl : l.WF ∧ l.SI ∧ LitModelled l dt) (h : pyEq k l = true) :
    valsEqv (mapE (fun e => npCast e dt) k.elems) (mapE (fun e => npCast e dt) l.elems) := by
  have hk' : ∀ e ∈ k.elems, e.WF ∧ e.SI ∧ Modelled e dt := fun e he => ⟨hk.1 e he, hk.2.1 e he, hk.2.2 e he⟩
  have hl' : ∀ e ∈ l.elems, e.WF ∧ e.SI ∧ Modelled e dt := fun e he => ⟨hl.1 e he, hl.2.1 e he, hl.2.2 e he⟩
  cases k with
  | s x =>
    cases l with
    | s y =>
      apply pyEqList_cast_same dt [x] [y] hk' hl'
      simpa [pyEqList, pyEq] using h
    | l y ys => simp [pyEq] at h
  | l x xs =>
    cases l with
    | s y => simp [pyEq] at h
    | l y ys => exact pyEqList_cast_same dt (x :: xs) (y :: ys) hk' hl' (by simpa [pyEq] using h)

theorem pyEqS_refl (x : Scalar) : pyEqS x x = true := by
  unfold pyEqS
  simp

/-- PRE-FIX invariant: every cache entry holds the tensor of its own key, and keys are well formed, without
negative zero and within the model. -/
def CacheOkPre (c : Cache) : Prop :=
  ∀ e ∈ c, mapE (fun s => npCast s e.dtype) e.key.elems = .ok e.vals ∧ e.dtype = e.keyDt.getD (irDefault e.key)
    ∧ e.key.WF ∧ e.key.SI ∧ LitModelled e.key e.dtype

/-- Invariant behind `cache_names_unique`. -/
def NamesOk (c : Cache) : Prop :=
  (c.map (·.name)).Nodup ∧ (∀ e ∈ c, ∀ n, e.name = .list n → n < c.length) ∧
    (∀ e ∈ c, ∀ x kd, e.name = .scalar x kd → e.key = .s x ∧ e.keyDt = kd)

/-! repr-keyed cache (the code since fix F8) -/

theorem resEqvS_refl (r : Except Err SVal) : resEqvS r r := by
  cases r with
  | ok v => exact SVal.eqv_refl v
  | error e => rfl

/-- `repr` equality of scalars is equality of their (canonical) encodings. -/
theorem reprEqS_iff_eq (x y : Scalar) : reprEqS x y = true ↔ x = y := by
  cases x <;> cases y <;> simp [reprEqS]
  exact ⟨fun h => ⟨h.1.1, h.1.2, h.2⟩, fun h => ⟨⟨h.1, h.2.1⟩, h.2.2⟩⟩

theorem reprEqList_iff_eq : ∀ (xs ys : List Scalar), reprEqList xs ys = true ↔ xs = ys
  | [], [] => by simp [reprEqList]
  | [], _ :: _ => by simp [reprEqList]
  | _ :: _, [] => by simp [reprEqList]
  | x :: xs, y :: ys => by
    simp only [reprEqList, Bool.and_eq_true, reprEqS_iff_eq, reprEqList_iff_eq xs ys, List.cons.injEq]

/-- Key equality of the cache since fix F8 is equality of literals. -/
theorem reprEq_iff_eq (k l : Lit) : reprEq k l = true ↔ k = l := by
  cases k <;> cases l <;> simp [reprEq, reprEqS_iff_eq, reprEqList_iff_eq]

theorem reprEqS_refl (x : Scalar) : reprEqS x x = true := by
  cases x <;> simp [reprEqS]

theorem reprEq_refl_s (x : Scalar) : reprEq (.s x) (.s x) = true := reprEqS_refl x

theorem pyEq_refl_s (x : Scalar) : pyEq (.s x) (.s x) = true := pyEqS_refl x

/-- Every cache entry holds the tensor of its own key, in the dtype of its key. -/
def CacheOk (c : Cache) : Prop :=
  ∀ e ∈ c, mapE (fun s => npCast s e.dtype) e.key.elems = .ok e.vals ∧ e.dtype = e.keyDt.getD (irDefault e.key)

theorem namesOk_promoteBy (eq : Lit → Lit → Bool) (hrefl : ∀ x, eq (.s x) (.s x) = true)
    (c : Cache) (hn : NamesOk c) (l : Lit) (dt : Option DType) (c' : Cache) (e : Entry)
    (h : promoteBy eq c l dt = .ok (c', e)) : NamesOk c' := by
  unfold promoteBy at h
  by_cases ha : builderAccepts l
  · simp only [ha, Bool.not_true, Bool.false_eq_true, if_false] at h
    cases hf : c.findBy eq l (keyDType l dt) with
    | some e0 =>
      rw [hf] at h
      simp only [Except.ok.injEq, Prod.mk.injEq] at h
      obtain ⟨rfl, rfl⟩ := h
      exact hn
    | none =>
      rw [hf] at h
      cases hm : mapE (fun e => npCast e ((keyDType l dt).getD (irDefault l))) l.elems with
      | error err => simp [hm] at h
      | ok vs =>
        simp only [hm, Except.ok.injEq, Prod.mk.injEq] at h
        obtain ⟨rfl, rfl⟩ := h
        obtain ⟨h1, h2, h3⟩ := hn
        unfold Cache.findBy at hf
        rw [List.find?_eq_none] at hf
        refine ⟨?_, ?_, ?_⟩
        · rw [List.map_append, List.nodup_append]
          refine ⟨h1, by simp, ?_⟩
          intro a ha' b hb
          simp only [List.map_cons, List.map_nil, List.mem_singleton] at hb
          subst hb
          obtain ⟨e', he', rfl⟩ := List.mem_map.mp ha'
          intro heq
          cases l with
          | s x =>
            simp only [cname] at heq
            obtain ⟨hk, hd⟩ := h3 e' he' x _ heq
            apply hf e' he'
            simp [hk, hd, hrefl]
          | l x xs =>
            simp only [cname] at heq
            exact absurd (h2 e' he' _ heq) (Nat.lt_irrefl _)
        · intro e' he' n hn'
          rw [List.length_append, List.length_singleton]
          rcases List.mem_append.mp he' with he' | he'
          · exact Nat.lt_succ_of_lt (h2 e' he' n hn')
          · simp only [List.mem_singleton] at he'
            subst he'
            cases l <;> simp only [cname] at hn'
            · cases hn'
            · cases hn'; exact Nat.lt_succ_self _
        · intro e' he' x kd hs
          rcases List.mem_append.mp he' with he' | he'
          · exact h3 e' he' x kd hs
          · simp only [List.mem_singleton] at he'
            subst he'
            cases l <;> simp only [cname] at hs
            · cases hs; exact ⟨rfl, rfl⟩
            · cases hs
  · simp [ha] at h

theorem namesOk_promoteAllBy (eq : Lit → Lit → Bool) (hrefl : ∀ x, eq (.s x) (.s x) = true)
    (reqs : List (Lit × Option DType)) : ∀ c, NamesOk c → NamesOk (promoteAllBy eq c reqs) := by
  induction reqs with
  | nil => intro c h; exact h
  | cons r rs ih =>
    intro c h
    obtain ⟨l, dt⟩ := r
    unfold promoteAllBy
    cases hp : promoteBy eq c l dt with
    | error e => exact ih c h
    | ok r' =>
      obtain ⟨c', e⟩ := r'
      exact ih c' (namesOk_promoteBy eq hrefl c h l dt c' e hp)


/-- A call with a single tensor operand is well typed (used for the concrete witnesses). -/
theorem wtsa_one_tensor {κ : Type} [DecidableEq κ] (s1 s2 : Slot κ) (d : DType) (k : Bool) (a : Arg)
    (ha : ∀ d' k', a ≠ .tensor d' k') : WTsa [(s1, .tensor d k), (s2, a)] := by
  intro tc x y r1 r2 hx hy h1 h2
  simp only [List.mem_cons, List.not_mem_nil, or_false] at hx hy
  rcases hx with rfl | rfl <;> rcases hy with rfl | rfl
  · rw [h1] at h2; cases h2; rfl
  · cases a <;> cases s2 <;> simp_all [boundTo]
  · cases a <;> cases s2 <;> simp_all [boundTo]
  · cases a <;> cases s2 <;> simp_all [boundTo]

/-! ### `_cast_inputs` through the cache, histories -/

theorem keyDType_none_default (l : Lit) : (keyDType l none).getD (irDefault l) = builderDefault l := by
  unfold keyDType builderDefault
  cases l.head.kind <;> rfl

theorem promote_refused (c : Cache) (l : Lit) (dt : Option DType) (h : builderAccepts l = false) :
    promote c l dt = .error .refused := by
  simp [promote, promoteBy, h]

theorem promote_error (c : Cache) (hc : CacheOk c) (l : Lit) (dt : Option DType) (ha : builderAccepts l = true)
    (e : Err) (hm : mapE (fun s => npCast s ((keyDType l dt).getD (irDefault l))) l.elems = .error e) :
    promote c l dt = .error e := by
  unfold promote promoteBy
  simp only [ha, Bool.not_true, Bool.false_eq_true, if_false]
  cases hf : c.findBy reprEq l (keyDType l dt) with
  | some e0 =>
    unfold Cache.findBy at hf
    have hmem := List.mem_of_find?_eq_some hf
    have hp := List.find?_some hf
    simp only [Bool.and_eq_true, beq_iff_eq, reprEq_iff_eq] at hp
    obtain ⟨h1, h2⟩ := hc e0 hmem
    rw [hp.1] at h1 h2
    rw [h2, hp.2, hm] at h1
    cases h1
  | none => simp [hm]

theorem promote_ok (c : Cache) (hc : CacheOk c) (l : Lit) (dt : Option DType) (ha : builderAccepts l = true)
    (vs : List SVal) (hm : mapE (fun s => npCast s ((keyDType l dt).getD (irDefault l))) l.elems = .ok vs) :
    ∃ c' e, promote c l dt = .ok (c', e) ∧ e.vals = vs ∧ e.dtype = (keyDType l dt).getD (irDefault l) ∧ CacheOk c' := by
  unfold promote promoteBy
  simp only [ha, Bool.not_true, Bool.false_eq_true, if_false]
  cases hf : c.findBy reprEq l (keyDType l dt) with
  | some e0 =>
    unfold Cache.findBy at hf
    have hmem := List.mem_of_find?_eq_some hf
    have hp := List.find?_some hf
    simp only [Bool.and_eq_true, beq_iff_eq, reprEq_iff_eq] at hp
    obtain ⟨h1, h2⟩ := hc e0 hmem
    rw [hp.1] at h1 h2
    have hd : e0.dtype = (keyDType l dt).getD (irDefault l) := by rw [h2, hp.2]
    rw [hd, hm] at h1
    refine ⟨c, e0, rfl, ?_, hd, hc⟩
    cases h1; rfl
  | none =>
    simp only [hm]
    refine ⟨_, _, rfl, rfl, rfl, ?_⟩
    intro e he
    rcases List.mem_append.mp he with he | he
    · exact hc e he
    · simp only [List.mem_singleton] at he
      subst he
      exact ⟨hm, rfl⟩


/-- Cache-free result of promoting `l` with requested dtype `dt`, as an `Out`. -/
theorem builderConst_eq (l : Lit) (dt : Option DType) :
    builderConst l dt = if builderAccepts l then
      (match mapE (fun s => npCast s ((keyDType l dt).getD (irDefault l))) l.elems with
       | .error e => .error e
       | .ok vs => .ok (.const ((keyDType l dt).getD (irDefault l)) l.isList vs)) else .error .refused := by
  unfold builderConst npConst
  cases dt with
  | none => rw [keyDType_none_default]; rfl
  | some d => rfl

section
variable {κ : Type} [DecidableEq κ]

theorem emitBuilderC_spec (sa : List (Slot κ × Arg)) (c : Cache) (hc : CacheOk c) (p : Slot κ × Arg) :
    (match emitBuilderC sa c p with
      | .error e => Except.error e
      | .ok r => Except.ok r.2.out) = emitBuilder sa p ∧
    ∀ c' o, emitBuilderC sa c p = .ok (c', o) → CacheOk c' := by
  obtain ⟨s, a⟩ := p
  cases a with
  | none => exact ⟨rfl, fun c' o h => by cases h; exact hc⟩
  | tensor dt k => exact ⟨rfl, fun c' o h => by cases h; exact hc⟩
  | lit l =>
    simp only [emitBuilderC, emitBuilder]
    -- the three promotion shapes share one argument
    have key : ∀ (dt : Option DType),
        (∀ e, promote c l dt = .error e → builderConst l dt = .error e) ∧
        (∀ c' e, promote c l dt = .ok (c', e) →
          builderConst l dt = .ok (.const e.dtype l.isList e.vals) ∧ CacheOk c') := by
      intro dt
      rw [builderConst_eq]
      cases ha : builderAccepts l with
      | false =>
        rw [promote_refused c l dt ha]
        exact ⟨fun e h => by cases h; rfl, fun c' e h => by cases h⟩
      | true =>
        simp only [if_true]
        cases hm : mapE (fun s => npCast s ((keyDType l dt).getD (irDefault l))) l.elems with
        | error e0 =>
          rw [promote_error c hc l dt ha e0 hm]
          exact ⟨fun e h => by cases h; rfl, fun c' e h => by cases h⟩
        | ok vs =>
          obtain ⟨c1, e1, hp, hv, hd, hok⟩ := promote_ok c hc l dt ha vs hm
          rw [hp]
          refine ⟨fun e h => (by cases h), fun c' e h => ?_⟩
          simp only [Except.ok.injEq, Prod.mk.injEq] at h
          obtain ⟨rfl, rfl⟩ := h
          exact ⟨(by rw [hv, hd]), hok⟩
    cases ht : targetFirst sa s with
    | none =>
      simp only []
      obtain ⟨ke, ko⟩ := key none
      cases hp : promote c l none with
      | error e => exact ⟨(ke e hp).symm, fun c' o h => by cases h⟩
      | ok r =>
        obtain ⟨c1, e1⟩ := r
        obtain ⟨hb, hok⟩ := ko c1 e1 hp
        exact ⟨hb.symm, fun c' o h => by cases h; exact hok⟩
    | some r =>
      obtain ⟨dt, k⟩ := r
      cases k with
      | true =>
        simp only []
        obtain ⟨ke, ko⟩ := key (some dt)
        cases hp : promote c l (some dt) with
        | error e => exact ⟨(ke e hp).symm, fun c' o h => by cases h⟩
        | ok r =>
          obtain ⟨c1, e1⟩ := r
          obtain ⟨hb, hok⟩ := ko c1 e1 hp
          exact ⟨hb.symm, fun c' o h => by cases h; exact hok⟩
      | false =>
        simp only [builderCastLike]
        obtain ⟨ke, ko⟩ := key none
        cases hp : promote c l none with
        | error e => rw [ke e hp]; exact ⟨rfl, fun c' o h => by cases h⟩
        | ok r =>
          obtain ⟨c1, e1⟩ := r
          obtain ⟨hb, hok⟩ := ko c1 e1 hp
          rw [hb]
          exact ⟨rfl, fun c' o h => by cases h; exact hok⟩

theorem mapBuilderC_spec (sa : List (Slot κ × Arg)) : ∀ (ps : List (Slot κ × Arg)) (c : Cache), CacheOk c →
    outsOf (mapBuilderC sa c ps).2 = mapE (emitBuilder sa) ps ∧ CacheOk (mapBuilderC sa c ps).1
  | [], c, hc => ⟨rfl, hc⟩
  | p :: ps, c, hc => by
    obtain ⟨h1, h2⟩ := emitBuilderC_spec sa c hc p
    simp only [mapBuilderC, mapE]
    cases he : emitBuilderC sa c p with
    | error e =>
      rw [he] at h1
      simp only [] at h1
      rw [← h1]
      exact ⟨rfl, hc⟩
    | ok r =>
      obtain ⟨c1, o⟩ := r
      rw [he] at h1
      simp only [] at h1
      rw [← h1]
      obtain ⟨ih1, ih2⟩ := mapBuilderC_spec sa ps c1 (h2 c1 o he)
      simp only []
      cases hm : mapBuilderC sa c1 ps with
      | mk c2 r2 =>
        rw [hm] at ih1 ih2
        cases r2 with
        | error e => simp only [outsOf] at ih1 ⊢; rw [← ih1]; exact ⟨rfl, ih2⟩
        | ok os => simp only [outsOf] at ih1 ⊢; rw [← ih1]; exact ⟨rfl, ih2⟩

theorem castBuilderC_spec (c : Cache) (hc : CacheOk c) (fs : List (Formal κ)) (args : List Arg) :
    outsOf (castBuilderC c fs args).2 = castBuilder fs args ∧ CacheOk (castBuilderC c fs args).1 := by
  unfold castBuilderC castBuilder
  cases assign fs args with
  | error e => exact ⟨rfl, hc⟩
  | ok sa => exact mapBuilderC_spec sa sa c hc

theorem runCalls_spec : ∀ (calls : List (List (Formal κ) × List Arg)) (c : Cache), CacheOk c →
    (runCalls c calls).1.map outsOf = calls.map (fun q => castBuilder q.1 q.2) ∧ CacheOk (runCalls c calls).2
  | [], c, hc => ⟨rfl, hc⟩
  | (fs, args) :: rest, c, hc => by
    obtain ⟨h1, h2⟩ := castBuilderC_spec c hc fs args
    obtain ⟨ih1, ih2⟩ := runCalls_spec rest (castBuilderC c fs args).1 h2
    simp only [runCalls, List.map]
    exact ⟨(by rw [h1, ih1]), ih2⟩

end


/-! ### dtype-level agreement without representability -/

theorem npCast_error (e : Scalar) (dt : DType) (err : Err) (h : npCast e dt = .error err) : err = .overflow := by
  cases e <;> cases hc : dt.cls <;> simp only [npCast, hc] at h <;> (try cases h) <;>
    (split at h <;> first | (cases h; rfl) | cases h | (injection h with h; exact h.symm))

theorem mapE_npCast_error (dt : DType) : ∀ (es : List Scalar) (err : Err),
    mapE (fun e => npCast e dt) es = .error err → err = .overflow
  | [], err, h => by cases h
  | e :: es, err, h => by
    simp only [mapE] at h
    cases hc : npCast e dt with
    | error e0 =>
      rw [hc] at h
      cases h
      exact npCast_error e dt _ hc
    | ok v =>
      rw [hc] at h
      cases hm : mapE (fun e => npCast e dt) es with
      | error e1 => rw [hm] at h; cases h; exact mapE_npCast_error dt es _ hm
      | ok vs => rw [hm] at h; cases h

/-- A front-end result for one operand: it raised OverflowError, or it has this dtype. -/
def OvOrDt (r : Except Err Out) (d : Option DType) : Prop :=
  r = .error .overflow ∨ ∃ o, r = .ok o ∧ o.dtype? = d

theorem npConst_dt (l : Lit) (dt : DType) : OvOrDt (npConst l dt) (some dt) := by
  unfold npConst
  cases hm : mapE (fun e => npCast e dt) l.elems with
  | error e => left; rw [mapE_npCast_error dt _ e hm]
  | ok vs => right; exact ⟨_, rfl, rfl⟩

theorem staticConst_dt (l : Lit) (t : Option DType) :
    OvOrDt (staticConst l t) (some (t.getD (ruleDefault l))) := by
  unfold staticConst ruleDefault
  dsimp only
  cases hm : mapE (fun e => npCast e (irDefault l)) l.elems with
  | error e => left; rw [mapE_npCast_error _ _ e hm]
  | ok vs => right; cases t <;> exact ⟨_, rfl, rfl⟩

theorem builderConst_dt (l : Lit) (t : Option DType) :
    OvOrDt (builderConst l t) (some (t.getD (ruleDefault l))) := by
  unfold builderConst
  simp only [builderAccepts, if_true, builderDefault_eq, ruleDefault]
  exact npConst_dt l _

theorem builderCastLike_dt (l : Lit) (dt : DType) :
    OvOrDt (builderCastLike l dt) (some dt) := by
  unfold builderCastLike builderConst npConst
  simp only [builderAccepts, if_true]
  cases hm : mapE (fun e => npCast e ((none : Option DType).getD (builderDefault l))) l.elems with
  | error e => left; rw [mapE_npCast_error _ _ e hm]
  | ok vs => right; exact ⟨_, rfl, rfl⟩

theorem mapE_dt {α : Type} (f : α → Except Err Out) (g : α → Out) : ∀ (l : List α),
    (∀ x ∈ l, OvOrDt (f x) (g x).dtype?) →
    mapE f l = .error .overflow ∨ ∃ os, mapE f l = .ok os ∧ os.map Out.dtype? = (l.map g).map Out.dtype?
  | [], _ => Or.inr ⟨[], rfl, rfl⟩
  | x :: xs, h => by
    simp only [mapE]
    rcases h x List.mem_cons_self with hx | ⟨o, ho, hd⟩
    · left; rw [hx]
    · rw [ho]
      rcases mapE_dt f g xs (fun y hy => h y (List.mem_cons_of_mem _ hy)) with hr | ⟨os, hos, hds⟩
      · left; rw [hr]
      · right; rw [hos]; exact ⟨o :: os, rfl, by simp [hd, hds]⟩

section
variable {κ : Type} [DecidableEq κ]

theorem assignFrom_args (fs : List (Formal κ)) : ∀ (args : List Arg) (i : Nat) (sa : List (Slot κ × Arg)),
    assignFrom fs i args = .ok sa → sa.map (·.2) = args
  | [], _, sa, h => by simp only [assignFrom, Except.ok.injEq] at h; subst h; rfl
  | a :: as, i, sa, h => by
    simp only [assignFrom] at h
    cases hs : slotAt fs i with
    | error e => rw [hs] at h; cases h
    | ok s =>
      rw [hs] at h
      cases hr : assignFrom fs (i + 1) as with
      | error e => rw [hr] at h; cases h
      | ok rest =>
        rw [hr] at h
        simp only [Except.ok.injEq] at h
        subst h
        simp [assignFrom_args fs as (i + 1) rest hr]

theorem emit_dt (sa : List (Slot κ × Arg)) (hwt : WTsa sa) (p : Slot κ × Arg) :
    OvOrDt (emitStatic sa p) (emitExpected sa p).dtype? ∧ OvOrDt (emitDynamic sa p) (emitExpected sa p).dtype? ∧
    OvOrDt (emitBuilder sa p) (emitExpected sa p).dtype? := by
  obtain ⟨s, a⟩ := p
  cases a with
  | none => exact ⟨Or.inr ⟨_, rfl, rfl⟩, Or.inr ⟨_, rfl, rfl⟩, Or.inr ⟨_, rfl, rfl⟩⟩
  | tensor dt k => exact ⟨Or.inr ⟨_, rfl, rfl⟩, Or.inr ⟨_, rfl, rfl⟩, Or.inr ⟨_, rfl, rfl⟩⟩
  | lit l =>
    have ht := target_first_last sa hwt s
    simp only [emitStatic, emitDynamic, emitBuilder, emitExpected, ruleDType, Out.dtype?]
    refine ⟨?_, ?_, ?_⟩
    · rw [ht]; exact staticConst_dt l _
    · rw [ht]
      cases hl2 : targetLast sa s with
      | none => simpa [dynDefault_eq, ruleDefault] using npConst_dt l (irDefault l)
      | some r => obtain ⟨dt, k⟩ := r; simpa using npConst_dt l dt
    · cases hf : targetFirst sa s with
      | none => simpa using builderConst_dt l none
      | some r =>
        obtain ⟨dt, k⟩ := r
        cases k with
        | true => simpa using builderConst_dt l (some dt)
        | false => simpa using builderCastLike_dt l dt

end


end OV.Autocast
