import OV.Model.C08Norm
import OV.Lemmas.C08
/-! Helper lemmas for the round-5 family of `OV.Props.C08` (layer_norm, sort, addmm, baddbmm, glu). -/
namespace OV.Lemmas.C08
open OV.C08

theorem expandableRev_bcast_left (c t : List Nat) (h : expandableRev c t = true) : bcastRev c t = some t := by
  induction c generalizing t with
  | nil => simp [bcastRev]
  | cons x xs ih =>
    cases t with
    | nil => simp [expandableRev] at h
    | cons y ys =>
      simp only [expandableRev, Bool.and_eq_true, Bool.or_eq_true, beq_iff_eq] at h
      obtain ⟨hxy, hr⟩ := h
      have := ih ys hr
      unfold bcastRev
      by_cases e : x = y
      · subst e; simp [this]
      · have h1 : x = 1 := by rcases hxy with h | h; exact absurd h e; exact h
        simp [h1, this]

theorem expandableRev_bcast_right (c t : List Nat) (h : expandableRev c t = true) : bcastRev t c = some t := by
  induction c generalizing t with
  | nil => cases t <;> simp [bcastRev]
  | cons x xs ih =>
    cases t with
    | nil => simp [expandableRev] at h
    | cons y ys =>
      simp only [expandableRev, Bool.and_eq_true, Bool.or_eq_true, beq_iff_eq] at h
      obtain ⟨hxy, hr⟩ := h
      have := ih ys hr
      unfold bcastRev
      by_cases e : y = x
      · subst e; simp [this]
      · have h1 : x = 1 := by rcases hxy with h | h; exact absurd h.symm e; exact h
        have h2 : ¬ y = 1 := by omega
        simp [h1, h2, this]

theorem bcastRev_self (l : List Nat) : bcastRev l l = some l := by
  induction l with
  | nil => simp [bcastRev]
  | cons x xs ih => simp [bcastRev, ih]

theorem normAxis_neg (r k : Nat) (h1 : 1 ≤ k) (h2 : k ≤ r) : normAxis r (-(k : Int)) = some (r - k) := by
  unfold normAxis
  have a : ¬ (0 ≤ -(k : Int) ∧ -(k : Int) < (r : Int)) := by omega
  have b : (-(k : Int) < 0 ∧ -(r : Int) ≤ -(k : Int)) := by omega
  rw [if_neg a, if_pos b]
  congr 1; omega

theorem layer_norm_agrees (native : Bool) (s ns : Shape) (w b : Option Shape) (out : List Shape)
    (hne : numel ns ≠ 0) (h : layer_norm.spec native s ns w b = some out) :
    layer_norm.model native s ns.length w b = some out := by
  unfold layer_norm.spec at h
  simp only at h
  split at h; · exact absurd h (by simp)
  next hk =>
  split at h; · exact absurd h (by simp)
  next hd =>
  split at h; · exact absurd h (by simp)
  next hw =>
  split at h; · exact absurd h (by simp)
  next hb =>
  have hk1 : 1 ≤ ns.length := by omega
  have hk2 : ns.length ≤ s.length := by omega
  have hd' : s.drop (s.length - ns.length) = ns := by simpa using hd
  have hw' : w = none ∨ w = some ns := by
    by_cases h1 : w = none
    · exact Or.inl h1
    · by_cases h2 : w = some ns
      · exact Or.inr h2
      · exact absurd ⟨h1, h2⟩ hw
  have hb' : b = none ∨ b = some ns := by
    by_cases h1 : b = none
    · exact Or.inl h1
    · by_cases h2 : b = some ns
      · exact Or.inr h2
      · exact absurd ⟨h1, h2⟩ hb
  have hr : s.length - (s.length - ns.length) = ns.length := by omega
  have hna := normAxis_neg s.length ns.length hk1 hk2
  rcases hw' with e | e <;> rcases hb' with e2 | e2 <;> subst e <;> subst e2 <;>
    cases native <;>
    simp [layer_norm.model, layer_norm.lnOp, hna, hd', hne, hr] at h ⊢ <;> exact h

theorem sort_agrees (s : Shape) (dim : Int) (out : List Shape) (h : sort.spec s dim = some out) :
    sort.model s dim = some out := by
  unfold sort.spec torchDim at h
  unfold sort.model
  by_cases h0 : s.length = 0
  · have : s = [] := List.eq_nil_of_length_eq_zero h0
    subst this
    cases hn : normAxis 1 dim with
    | none => simp [hn] at h
    | some a => simp [hn] at h; simp [h]
  · simp only [h0, if_false] at h ⊢
    cases hn : normAxis s.length dim with
    | none => simp [hn] at h
    | some a =>
      simp only [hn, Option.map_some] at h
      show some [setAt s a (s.getD a 0), setAt s a (s.getD a 0)] = some out
      rw [setAt_getD_self]; exact h

theorem addmm_agrees (c a b out : Shape) (h : addmm.spec c a b = some out) : addmm.model c a b = some out := by
  unfold addmm.spec at h
  split at h
  · next m k k' n =>
    split at h
    · next hc =>
      obtain ⟨hk, he⟩ := hc
      injection h with h; subst h
      unfold torchExpandable at he
      have this : bcastRev c.reverse [n, m] = some [n, m] := by simpa using expandableRev_bcast_left _ _ he
      simp [addmm.model, hk, expandOp, this]
    · exact absurd h (by simp)
  · exact absurd h (by simp)

theorem baddbmm_agrees (c a b out : Shape) (h : baddbmm.spec c a b = some out) : baddbmm.model c a b = some out := by
  unfold baddbmm.spec at h
  split at h
  · next b1 m k b2 k' n =>
    split at h
    · next hc =>
      obtain ⟨hb, hk, he⟩ := hc
      injection h with h; subst h; subst hb; subst hk
      unfold torchExpandable at he
      have this : bcastRev [n, m, b1] c.reverse = some [n, m, b1] := by simpa using expandableRev_bcast_right _ _ he
      have hm : matmulOp [b1, m, k] [b1, k, n] = some [b1, m, n] := by
        simp [matmulOp, bcast2, bcastRev]
      simp only [baddbmm.model, hm, bcast2]
      simp [this]
    · exact absurd h (by simp)
  · exact absurd h (by simp)

theorem glu_agrees_partial (s : Shape) (dim : Int) (out : Shape)
    (hd : ∀ a, normAxis s.length dim = some a → s.getD a 0 ≠ 0)
    (h : glu.spec s dim = some out) : glu.model s dim = some out := by
  unfold glu.spec at h
  split at h; · exact absurd h (by simp)
  cases hn : normAxis s.length dim with
  | none => simp [hn] at h
  | some a =>
    simp only [hn] at h
    have hd0 := hd a hn
    split at h; · exact absurd h (by simp)
    next hev =>
    injection h with h; subst h
    have hsp : splitNumOutputs (s.getD a 0) 2 = some [s.getD a 0 / 2, s.getD a 0 / 2] := by
      unfold splitNumOutputs
      have h1 : ¬ ((2 : Nat) = 0 ∨ 2 > s.getD a 0) := by omega
      have h2 : (2 - 1) * ((s.getD a 0 + 2 - 1) / 2) < s.getD a 0 := by omega
      rw [if_neg h1]
      simp only [h2, if_true]
      have h3 : (s.getD a 0 + 2 - 1) / 2 = s.getD a 0 / 2 := by omega
      have h4 : s.getD a 0 - (2 - 1) * (s.getD a 0 / 2) = s.getD a 0 / 2 := by omega
      rw [h3, h4]; rfl
    simp only [glu.model, hn, hsp, bcast2, bcastRev_self]
    simp

theorem bcast_left_expandableRev (c t : List Nat) (h : bcastRev c t = some t) : expandableRev c t = true := by
  induction c generalizing t with
  | nil => simp [expandableRev]
  | cons x xs ih =>
    cases t with
    | nil => simp [bcastRev] at h
    | cons y ys =>
      unfold bcastRev at h
      simp only [expandableRev, Bool.and_eq_true, Bool.or_eq_true, beq_iff_eq]
      by_cases e : x = y
      · subst e
        simp only [beq_self_eq_true, if_true] at h
        cases hb : bcastRev xs ys with
        | none => simp [hb] at h
        | some o =>
          simp only [hb, Option.map_some, Option.some.injEq, List.cons.injEq, true_and] at h
          subst h; exact ⟨Or.inl rfl, ih _ hb⟩
      · have e' : (x == y) = false := by simpa using e
        simp only [e', Bool.false_eq_true, if_false] at h
        by_cases h1 : x = 1
        · subst h1
          simp only [beq_self_eq_true, if_true] at h
          cases hb : bcastRev xs ys with
          | none => simp [hb] at h
          | some o =>
            simp only [hb, Option.map_some, Option.some.injEq, List.cons.injEq, true_and] at h
            subst h; exact ⟨Or.inr rfl, ih _ hb⟩
        · have h1' : (x == 1) = false := by simpa using h1
          simp only [h1', Bool.false_eq_true, if_false] at h
          split at h
          · cases hb : bcastRev xs ys with
            | none => simp [hb] at h
            | some o =>
              simp only [hb, Option.map_some, Option.some.injEq, List.cons.injEq] at h
              exact absurd h.1 e
          · exact absurd h (by simp)

/-- `aten_addmm`: the graph accepts exactly the operands `torch.addmm` accepts, with the same result. -/
theorem addmm_exact (c a b : Shape) : addmm.model c a b = addmm.spec c a b := by
  unfold addmm.model addmm.spec
  split
  · next m k k' n =>
    by_cases hk : k = k'
    · subst hk
      simp only [ne_eq, not_true_eq_false, if_false, true_and]
      by_cases he : torchExpandable c [m, n] = true
      · have this : bcastRev c.reverse [n, m] = some [n, m] := by
          simpa [torchExpandable] using expandableRev_bcast_left _ _ he
        simp [he, expandOp, this]
      · have : ¬ expandOp c [m, n] = some [m, n] := by
          intro hx
          apply he
          unfold torchExpandable
          apply bcast_left_expandableRev
          have hx' : bcastRev c.reverse [n, m] = some [n, m] := by simpa [expandOp] using hx
          simpa using hx'
        simp [he, this]
    · simp [hk]
  · rfl

end OV.Lemmas.C08
