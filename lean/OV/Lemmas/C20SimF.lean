import OV.Model.C20Save
import OV.Lemmas.C20Save
import OV.Lemmas.C20Sim
/-!
# C20 — two-sided simulation: the verbose/tqdm branch against the plain branch

`SimF f g`: from the state with the callback log erased, `g` produces **the same outcome as `f` — normal value or
exception alike —** and ends in the erased end state of `f`.  Unlike `Sim` this also relates the failing runs, so it is
only available for the erasure of the callback log (a fault plan changes which runs fail).
-/
namespace OV.C20
set_option linter.unusedSectionVars false
set_option linter.unusedVariables false
set_option linter.unusedSimpArgs false

/-- Erase the progress-callback log. -/
abbrev erc (s : St) : St := er false true s

def SimF (f g : M α) : Prop := ∀ s, g (erc s) = ((f s).1, erc (f s).2)

theorem simF_pure (a : α) : SimF (pure a : M α) (pure a) := fun _ => rfl
theorem simF_throw (e : Err) : SimF (throw e : M α) (throw e) := fun _ => rfl

theorem simF_bind {f1 f2 : M α} {g1 g2 : α → M β} (hf : SimF f1 f2) (hg : ∀ a, SimF (g1 a) (g2 a)) :
    SimF (f1 >>= g1) (f2 >>= g2) := by
  intro s
  show M.bind f2 g2 (erc s) = ((M.bind f1 g1 s).1, erc (M.bind f1 g1 s).2)
  unfold M.bind
  rw [hf s]
  cases hfs : f1 s with
  | mk r s1 =>
    cases r with
    | ok a => exact hg a s1
    | error e => rfl

theorem simF_get_bind {g1 g2 : St → M β} (hg : ∀ s0, SimF (g1 s0) (g2 (erc s0))) :
    SimF (get >>= g1) (get >>= g2) := by
  intro s
  show M.bind get g2 (erc s) = ((M.bind get g1 s).1, erc (M.bind get g1 s).2)
  simp only [M.bind, get]
  exact hg s s

theorem simF_modify {g1 g2 : St → St} (h : ∀ s, g2 (erc s) = erc (g1 s)) : SimF (modify g1) (modify g2) := by
  intro s
  show (Except.ok (), g2 (erc s)) = _
  rw [h]
  rfl

theorem simF_tick (op : Op) : SimF (tick op) (tick op) := by
  intro s
  unfold tick
  have h1 : (erc s).k = s.k := rfl
  have h2 : (erc s).calls = s.calls := rfl
  rw [h1, h2]
  by_cases hk : s.k = some s.calls
  · simp only [hk, if_true]; rfl
  · simp only [hk, if_false]; rfl

theorem simF_tryFinally {b1 b2 : M α} {fin1 fin2 : St → St} (hb : SimF b1 b2)
    (hf : ∀ s, fin2 (erc s) = erc (fin1 s)) : SimF (tryFinally b1 fin1) (tryFinally b2 fin2) := by
  intro s
  unfold tryFinally
  rw [hb s]
  cases hbs : b1 s with
  | mk r s1 => simp only [hf]

theorem simF_withClose {b1 b2 : M α} (f : String) (hb : SimF b1 b2) : SimF (withClose f b1) (withClose f b2) := by
  intro s
  unfold withClose
  rw [hb s]
  cases hbs : b1 s with
  | mk r s1 =>
    cases r with
    | ok a =>
      simp only []
      rw [simF_tick (.close f) s1]
      cases ht : tick (.close f) s1 with
      | mk r2 s2 => cases r2 <;> rfl
    | error e =>
      simp only []
      rw [simF_tick (.close f) s1]
      cases ht : tick (.close f) s1 with
      | mk r2 s2 => cases r2 <;> rfl

theorem simF_mapM' {f1 f2 : α → M β} (hf : ∀ a, SimF (f1 a) (f2 a)) : ∀ l, SimF (mapM' f1 l) (mapM' f2 l)
  | [] => simF_pure _
  | a :: as => by
    unfold mapM'
    exact simF_bind (hf a) (fun _ => simF_bind (simF_mapM' hf as) (fun _ => simF_pure _))

theorem simF_forM' {f1 f2 : α → M Unit} (hf : ∀ a, SimF (f1 a) (f2 a)) : ∀ l, SimF (forM' f1 l) (forM' f2 l)
  | [] => simF_pure _
  | a :: as => by
    unfold forM'
    exact simF_bind (hf a) (fun _ => simF_forM' hf as)

theorem simF_needHandle (f : String) : SimF (needHandle f) (needHandle f) := by
  intro s
  unfold needHandle
  have : (erc s).wopened = s.wopened := rfl
  rw [this]
  by_cases hc : s.wopened.contains f = true
  · simp only [hc, if_true]
  · have hf : s.wopened.contains f = false := by simpa using hc
    simp only [hf, Bool.false_eq_true, if_false]

theorem simF_newObj (t : TRef) : SimF (newObj t) (newObj t) := fun _ => rfl

/-- A callback-log update on the left only. -/
theorem simF_skip_left {g1 : St → St} {r1 r2 : M β} (h : ∀ s, erc (g1 s) = erc s) (hr : SimF r1 r2) :
    SimF (modify g1 >>= fun _ => r1) r2 := by
  intro s
  show r2 (erc s) = ((M.bind (modify g1) (fun _ => r1) s).1, erc (M.bind (modify g1) (fun _ => r1) s).2)
  simp only [M.bind, modify]
  rw [← h s]
  exact hr (g1 s)

theorem simF_fsOpenW (f : String) : SimF (fsOpenW f) (fsOpenW f) := by
  unfold fsOpenW
  exact simF_bind (simF_tick _) (fun _ => simF_modify (fun _ => rfl))

theorem simF_fsWrite (f : String) (b : Bytes) : SimF (fsWrite f b) (fsWrite f b) := by
  unfold fsWrite
  exact simF_bind (simF_needHandle f) (fun _ => simF_bind (simF_tick _) (fun _ => simF_modify (fun _ => rfl)))

theorem simF_fsCWrite (f : String) (b : Bytes) : SimF (fsCWrite f b) (fsCWrite f b) := by
  unfold fsCWrite
  exact simF_bind (simF_needHandle f) (fun _ => simF_modify (fun _ => rfl))

theorem simF_fsWriteProto (f : String) (p : Proto) : SimF (fsWriteProto f p) (fsWriteProto f p) := by
  unfold fsWriteProto
  exact simF_bind (simF_needHandle f) (fun _ => simF_bind (simF_tick _) (fun _ => simF_modify (fun _ => rfl)))

theorem simF_fsOpenR (f : String) : SimF (fsOpenR f) (fsOpenR f) := by
  unfold fsOpenR
  refine simF_bind (simF_tick _) (fun _ => simF_get_bind (fun s0 => ?_))
  show SimF _ (match s0.fs.get? f with
    | some (.data b) => pure b
    | some (.proto _) => throw .valueError
    | none => throw .osError)
  generalize s0.fs.get? f = x
  rcases x with _ | (b | p)
  · exact simF_throw _
  · exact simF_pure _
  · exact simF_throw _

theorem simF_fileLen (f : String) : SimF (fileLen f) (fileLen f) := by
  unfold fileLen
  refine simF_get_bind (fun s0 => ?_)
  show SimF _ (match s0.fs.get? f with
    | some (.data b) => pure b.length
    | _ => pure 0)
  generalize s0.fs.get? f = x
  rcases x with _ | (b | p) <;> exact simF_pure _

theorem simF_getObj (id : Nat) : SimF (getObj id) (getObj id) := by
  unfold getObj
  refine simF_get_bind (fun s0 => ?_)
  show SimF _ (match s0.heap[id]? with
    | some t => pure t
    | none => throw .typeError)
  generalize s0.heap[id]? = x
  rcases x with _ | t
  · exact simF_throw _
  · exact simF_pure _

theorem simF_extToMem (id : Nat) : SimF (extToMem id) (extToMem id) := by
  unfold extToMem
  refine simF_bind (simF_getObj id) (fun t => ?_)
  cases t with
  | mem b np => exact simF_throw _
  | ext f off len valid =>
    simp only []
    cases valid with
    | false => exact simF_throw _
    | true =>
      simp only [Bool.not_true, Bool.false_eq_true, if_false]
      by_cases h0 : len = 0
      · simp only [h0, if_true]; exact simF_newObj _
      · simp only [h0, if_false]
        refine simF_bind (simF_fsOpenR f) (fun whole => ?_)
        refine simF_bind (simF_withClose f ?_) (fun _ => ?_)
        · by_cases hw : whole.length = 0
          · simp only [hw, if_true]; exact simF_throw _
          · simp only [hw, if_false]; exact simF_pure _
        · by_cases hin : off + len ≤ whole.length
          · simp only [hin, if_true]; exact simF_newObj _
          · simp only [hin, if_false]; exact simF_throw _

theorem simF_materializeOne (dest : String) (e : Bool) (p : String × Nat) :
    SimF (materializeOne dest e p) (materializeOne dest e p) := by
  unfold materializeOne
  cases e with
  | false => exact simF_pure _
  | true =>
    simp only [Bool.not_true, Bool.false_eq_true, if_false]
    refine simF_bind (simF_getObj _) (fun t => ?_)
    cases t with
    | mem b np => exact simF_pure _
    | ext f o l v =>
      simp only []
      by_cases hf : f = dest
      · simp only [hf, if_true]
        refine simF_bind (simF_extToMem _) (fun nid => ?_)
        refine simF_bind ?_ (fun _ => simF_pure _)
        unfold invalidate
        exact simF_modify (fun _ => rfl)
      · simp only [hf, if_false]; exact simF_pure _

theorem simF_tofile (dest : String) (id : Nat) : SimF (tofile dest id) (tofile dest id) := by
  unfold tofile
  refine simF_bind (simF_getObj id) (fun t => ?_)
  cases t with
  | mem b np =>
    cases np with
    | true =>
      simp only []
      refine simF_bind (simF_tick _) (fun _ => ?_)
      refine simF_bind (simF_fsCWrite _ _) (fun _ => ?_)
      exact simF_bind (simF_fileLen _) (fun _ => simF_tick _)
    | false => exact simF_fsWrite _ _
  | ext f off len valid =>
    simp only []
    cases valid with
    | false => exact simF_throw _
    | true =>
      simp only [Bool.not_true, Bool.false_eq_true, if_false]
      refine simF_bind (simF_fsOpenR f) (fun whole => ?_)
      apply simF_withClose
      refine simF_bind (simF_tick _) (fun _ => ?_)
      refine simF_bind (simF_forM' (fun c => ?_) _) (fun _ => ?_)
      · exact simF_bind (simF_tick _) (fun _ => simF_fsWrite _ _)
      · by_cases hs : (slice whole off len).length < len
        · simp only [hs, if_true]; exact simF_bind (simF_tick _) (fun _ => simF_throw _)
        · simp only [hs, if_false]; exact simF_pure _

theorem simF_writeOne (dest : String) (v1 : Bool) (item : String × Nat × Nat) :
    SimF (writeOne dest v1 item) (writeOne dest false item) := by
  unfold writeOne
  obtain ⟨name, id, off⟩ := item
  simp only []
  have rest : SimF (do
      let size ← fileLen dest
      if off > size then do
          fsWrite dest (zeros (off - size))
          tofile dest id
        else tofile dest id) (do
      let size ← fileLen dest
      if off > size then do
          fsWrite dest (zeros (off - size))
          tofile dest id
        else tofile dest id) := by
    refine simF_bind (simF_fileLen _) (fun size => ?_)
    by_cases hp : off > size
    · simp only [hp, if_true]; exact simF_bind (simF_fsWrite _ _) (fun _ => simF_tofile dest id)
    · simp only [hp, if_false]; exact simF_tofile dest id
  cases v1 with
  | false => simpa using rest
  | true =>
    simp only [if_true, Bool.false_eq_true, if_false]
    exact simF_skip_left (fun _ => rfl) rest

theorem simF_writeExternalData (dest : String) (v1 : Bool) (items : List (String × Nat × Nat)) :
    SimF (writeExternalData dest v1 items) (writeExternalData dest false items) := by
  unfold writeExternalData
  refine simF_bind (simF_fsOpenW _) (fun _ => ?_)
  apply simF_withClose
  have loop := simF_forM' (fun it => simF_writeOne dest v1 it) items
  simp only [Bool.false_and, Bool.false_eq_true, if_false]
  by_cases hc : (v1 && !items.isEmpty) = true
  · simp only [hc, if_true]
    exact simF_skip_left (fun _ => rfl) loop
  · simp only [hc, if_false]; exact loop

theorem simF_placeAndWrite (dest : String) (v1 : Bool) (names : List String) (ids : List Nat) :
    SimF (placeAndWrite dest v1 names ids) (placeAndWrite dest false names ids) := by
  unfold placeAndWrite
  refine simF_bind (simF_mapM' (fun id => ?_) _) (fun sizes => ?_)
  · unfold sizeOf
    exact simF_bind (simF_getObj id) (fun _ => simF_pure _)
  · simp only []
    refine simF_bind (simF_writeExternalData dest v1 _) (fun _ => ?_)
    refine simF_bind (simF_mapM' (fun p => ?_) _) (fun made => ?_)
    · unfold makeExternal
      exact simF_bind (simF_newObj _) (fun _ => simF_pure _)
    · generalize gather made 0 names.length = x
      rcases x with _ | out
      · exact simF_throw _
      · exact simF_pure _

theorem simF_convertToExternal (dest : String) (v1 : Bool) (inp : List (String × Nat)) :
    SimF (convertToExternal dest v1 inp) (convertToExternal dest false inp) := by
  unfold convertToExternal
  refine simF_get_bind (fun s0 => ?_)
  simp only [er_fs]
  exact simF_bind (simF_mapM' (fun p => simF_materializeOne dest _ p) _) (fun ids => simF_placeAndWrite dest v1 _ ids)

theorem simF_unload {thr : Nat} (tnames : List String) (dest : String) (v1 : Bool) :
    SimF (unload thr tnames dest v1) (unload thr tnames dest false) := by
  unfold unload
  refine simF_get_bind (fun s0 => ?_)
  simp only [er_heap, er_cv]
  refine simF_bind (simF_mapM' (fun i => simF_extToMem _) _) (fun memIds => ?_)
  refine simF_bind (simF_convertToExternal dest v1 _) (fun extIds => ?_)
  exact simF_modify (fun _ => rfl)

theorem simF_irSave {thr : Nat} (sig : List (String × Bool)) (tnames : List String) (dir name rel : String) (v1 : Bool) : SimF (irSave thr sig tnames dir name rel v1) (irSave thr sig tnames dir name rel false) := by
  unfold irSave
  refine simF_get_bind (fun s0 => ?_)
  simp only [er_cv]
  apply simF_tryFinally
  · refine simF_bind (simF_unload tnames _ v1) (fun _ => ?_)
    refine simF_bind (simF_modify (fun _ => rfl)) (fun _ => ?_)
    refine simF_get_bind (fun s1 => ?_)
    have hser : serialize sig (erc s1) = serialize sig s1 := rfl
    rw [hser]
    generalize serialize sig s1 = x
    rcases x with e | p
    · exact simF_throw _
    · simp only []
      refine simF_bind (simF_fsOpenW _) (fun _ => ?_)
      exact simF_withClose _ (simF_fsWriteProto _ _)
  · intro s; rfl

theorem simF_save (cfg : Cfg) (sig : List (String × Bool)) (tnames : List String) (dir name : String) (v1 : Bool) : SimF (save cfg sig tnames dir name v1) (save cfg sig tnames dir name false) := by
  unfold save
  refine simF_get_bind (fun s0 => ?_)
  simp only [er_heap, er_cv, er_tn]
  by_cases h1 : (!(guardHits cfg.deep sig s0.cv).isEmpty) = true
  · simp only [h1, if_true]; exact simF_throw _
  · simp only [h1, Bool.false_eq_true, if_false]
    by_cases h2 : ((cfg.refuse && !(destHits (joinPath dir (name ++ ".data")) s0.heap s0.cv).isEmpty) ||
        (cfg.refuseModel && !(destHits (joinPath dir name) s0.heap s0.cv).isEmpty)) = true
    · simp only [h2, if_true]; exact simF_throw _
    · simp only [h2, Bool.false_eq_true, if_false]
      by_cases h3 : cfg.keepNames = true
      · simp only [h3, if_true]
        exact simF_tryFinally (simF_irSave sig tnames dir name _ v1) (fun _ => rfl)
      · simp only [h3, Bool.false_eq_true, if_false]
        exact simF_irSave sig tnames dir name _ v1

end OV.C20
