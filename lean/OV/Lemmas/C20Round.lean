import OV.Model.C20Save
import OV.Lemmas.C20Save
/-!
# C20 — the fault-free run, step by step (towards the end-to-end round trip)

Every lemma here has `s.k = none` (no fault planned) as a hypothesis and computes what the step returns and which
state it leaves: `Frame` (fault plan, `const_value`s, write handles untouched) plus explicit heap / file-system facts.
-/
namespace OV.C20
set_option linter.unusedSectionVars false
set_option linter.unusedSimpArgs false

theorem tick_ok (op : Op) (s : St) (hk : s.k = none) :
    tick op s = (.ok (), { s with calls := s.calls + 1, trace := s.trace ++ [op] }) := by
  unfold tick
  simp [hk]

theorem bind_apply (f : M α) (g : α → M β) (s : St) :
    (f >>= g) s = match f s with
      | (.ok a, s') => g a s'
      | (.error e, s') => (.error e, s') := rfl
theorem pure_apply (a : α) (s : St) : (pure a : M α) s = (.ok a, s) := rfl
theorem get_apply (s : St) : get s = (.ok s, s) := rfl
theorem modify_apply (g : St → St) (s : St) : modify g s = (.ok (), g s) := rfl
theorem throw_apply (e : Err) (s : St) : (throw e : M α) s = (.error e, s) := rfl

theorem needHandle_ok (f : String) (s : St) (h : f ∈ s.wopened) : needHandle f s = (.ok (), s) := by
  unfold needHandle
  have : s.wopened.contains f = true := by simpa using h
  simp only [this, if_true]

theorem get?_set_eq (fs : FS) (f : String) (c : Content) : FS.get? (FS.set fs f c) f = some c := by
  induction fs with
  | nil => simp [FS.set, FS.get?, List.lookup]
  | cons x rest ih =>
    obtain ⟨g, d⟩ := x
    simp only [FS.set]
    by_cases hg : g = f
    · subst hg; simp [FS.get?, List.lookup]
    · simp only [hg, if_false, FS.get?, List.lookup]
      have : (f == g) = false := by simpa using (fun h => hg h.symm)
      simp only [this]
      exact ih

theorem set_set (fs : FS) (f : String) (c d : Content) : FS.set (FS.set fs f c) f d = FS.set fs f d := by
  induction fs with
  | nil => simp [FS.set]
  | cons x rest ih =>
    obtain ⟨g, e⟩ := x
    simp only [FS.set]
    by_cases hg : g = f
    · subst hg; simp [FS.set]
    · simp only [hg, if_false, FS.set, ih]

theorem set_same (fs : FS) (f : String) (c : Content) (h : FS.get? fs f = some c) : FS.set fs f c = fs := by
  induction fs with
  | nil => simp [FS.get?] at h
  | cons x rest ih =>
    obtain ⟨g, d⟩ := x
    simp only [FS.get?, List.lookup] at h
    simp only [FS.set]
    by_cases hg : g = f
    · subst hg
      simp only [BEq.rfl, Option.some.injEq] at h
      subst h; simp
    · have : (f == g) = false := by simpa using (fun h => hg h.symm)
      simp only [this] at h
      simp only [hg, if_false, List.cons.injEq, true_and]
      exact ih h

theorem append_data (fs : FS) (f : String) (c b : Bytes) (h : FS.get? fs f = some (.data c)) :
    FS.append fs f b = FS.set fs f (.data (c ++ b)) := by
  unfold FS.append
  rw [h]

theorem read_set_ne (fs : FS) (f g : String) (c : Content) (off len : Nat) (h : g ≠ f) :
    FS.read (FS.set fs f c) g off len = FS.read fs g off len := by
  unfold FS.read
  rw [get?_set_ne _ _ _ _ h]

theorem read_len (fs : FS) (f : String) (off len : Nat) (b : Bytes) (h : FS.read fs f off len = some b) :
    b.length = len := by
  unfold FS.read at h
  by_cases h0 : len = 0
  · simp only [h0, if_true, Option.some.injEq] at h; subst h; simp [h0]
  · simp only [h0, if_false] at h
    split at h
    · split at h
      · simp only [Option.some.injEq] at h; subst h
        unfold slice; simp; omega
      · cases h
    · cases h

/-- Pointwise relation between two lists of equal length. -/
inductive All2 (R : α → β → Prop) : List α → List β → Prop
  | nil : All2 R [] []
  | cons {a b as bs} : R a b → All2 R as bs → All2 R (a :: as) (b :: bs)

theorem All2.imp {R S : α → β → Prop} (h : ∀ a b, R a b → S a b) : ∀ {l1 l2}, All2 R l1 l2 → All2 S l1 l2
  | _, _, .nil => .nil
  | _, _, .cons hr ht => .cons (h _ _ hr) (ht.imp h)

/-- What a fault-free step never touches. -/
structure Frame (s s' : St) : Prop where
  k : s'.k = s.k
  cv : s'.cv = s.cv
  wo : s'.wopened = s.wopened

theorem Frame.refl (s : St) : Frame s s := ⟨rfl, rfl, rfl⟩
theorem Frame.trans {a b c : St} (h1 : Frame a b) (h2 : Frame b c) : Frame a c :=
  ⟨h2.k.trans h1.k, h2.cv.trans h1.cv, h2.wo.trans h1.wo⟩

theorem fileLen_data (f : String) (c : Bytes) (s : St) (h : FS.get? s.fs f = some (.data c)) :
    fileLen f s = (.ok c.length, s) := by
  unfold fileLen
  simp only [bind_apply, get_apply, h, pure_apply]

theorem getObj_ok (id : Nat) (t : TRef) (s : St) (h : s.heap[id]? = some t) : getObj id s = (.ok t, s) := by
  rcases getObj_spec id s with ⟨t', ht, hg⟩ | ⟨hn, _⟩
  · rw [h] at ht; cases ht; exact hg
  · rw [h] at hn; cases hn

theorem getElem?_prefix {l l' : List α} (h : l <+: l') {i : Nat} {a : α} (hi : l[i]? = some a) : l'[i]? = some a := by
  obtain ⟨t, rfl⟩ := h
  have hlt : i < l.length := by
    rcases Nat.lt_or_ge i l.length with h' | h'
    · exact h'
    · rw [List.getElem?_eq_none h'] at hi; cases hi
  rw [List.getElem?_append_left hlt]; exact hi

/-! ## Tensor objects that can be read -/

/-- Tensor object `t` is usable by the save and denotes `b`: an in-memory tensor, or a valid external tensor that does
not live in the destination data file and whose bytes are readable. -/
def Holds (dest : String) (fs : FS) (t : TRef) (b : Bytes) : Prop :=
  match t with
  | .mem b' _ => b' = b
  | .ext f off len v => v = true ∧ f ≠ dest ∧ FS.read fs f off len = some b

theorem holds_bytesOf {dest : String} {fs : FS} {t : TRef} {b : Bytes} (h : Holds dest fs t b) : bytesOf fs t = some b := by
  cases t with
  | mem b' np => simp only [Holds] at h; simp [bytesOf, h]
  | ext f off len v => obtain ⟨rfl, _, h3⟩ := h; simp [bytesOf, h3]

theorem holds_nbytes {dest : String} {fs : FS} {t : TRef} {b : Bytes} (h : Holds dest fs t b) : t.nbytes = b.length := by
  cases t with
  | mem b' np => simp only [Holds] at h; simp [TRef.nbytes, h]
  | ext f off len v => obtain ⟨_, _, h3⟩ := h; simp [TRef.nbytes, read_len _ _ _ _ _ h3]

theorem holds_set_dest {dest : String} {fs : FS} {t : TRef} {b : Bytes} (c : Content) (h : Holds dest fs t b) :
    Holds dest (FS.set fs dest c) t b := by
  cases t with
  | mem b' np => exact h
  | ext f off len v =>
    obtain ⟨h1, h2, h3⟩ := h
    exact ⟨h1, h2, by rw [read_set_ne _ _ _ _ _ _ h2]; exact h3⟩

/-! ## `extToMem`, fault-free -/

theorem extToMem_ok (id : Nat) (f : String) (off len : Nat) (b : Bytes) (s : St) (hk : s.k = none)
    (hobj : s.heap[id]? = some (.ext f off len true)) (hread : FS.read s.fs f off len = some b) :
    ∃ s', extToMem id s = (.ok s.heap.length, s') ∧ Frame s s' ∧ s'.fs = s.fs ∧ s'.heap = s.heap ++ [.mem b true] := by
  unfold extToMem
  simp only [bind_apply, getObj_ok id _ s hobj]
  by_cases h0 : len = 0
  · have hb : b = [] := by
      unfold FS.read at hread; simp only [h0, if_true, Option.some.injEq] at hread; exact hread.symm
    subst hb
    simp only [h0, Bool.not_true, Bool.false_eq_true, if_false, if_true, newObj]
    exact ⟨_, rfl, ⟨rfl, rfl, rfl⟩, rfl, rfl⟩
  · simp only [h0, Bool.not_true, Bool.false_eq_true, if_false]
    unfold FS.read at hread
    simp only [h0, if_false] at hread
    cases hfile : FS.get? s.fs f with
    | none => rw [hfile] at hread; cases hread
    | some cont =>
      rw [hfile] at hread
      cases cont with
      | proto p => cases hread
      | data whole =>
        simp only [] at hread
        by_cases hin : off + len ≤ whole.length
        · simp only [hin, if_true, Option.some.injEq] at hread
          subst hread
          have hne : ¬ whole.length = 0 := by omega
          unfold fsOpenR withClose
          simp only [bind_apply, tick_ok _ s hk, get_apply, hfile, pure_apply, hne, if_false]
          rw [tick_ok _ _ (by exact hk)]
          simp only [hin, if_true, newObj]
          exact ⟨_, rfl, ⟨rfl, rfl, rfl⟩, rfl, rfl⟩
        · simp only [hin, if_false] at hread; cases hread

/-! ## `tofile`, fault-free -/

/-- Same handles/fault plan/pointers/heap; the file system is `fs'`. -/
structure Core (s s' : St) (fs' : FS) : Prop extends Frame s s' where
  heap : s'.heap = s.heap
  fs : s'.fs = fs'

theorem Core.trans {s s1 s2 : St} {fs1 fs2 : FS} (h1 : Core s s1 fs1) (h2 : Core s1 s2 fs2) : Core s s2 fs2 :=
  ⟨Frame.trans h1.toFrame h2.toFrame, h2.heap.trans h1.heap, h2.fs⟩

theorem chunks_flatten (c : Nat) (hc : 0 < c) : ∀ (fuel : Nat) (l : Bytes), l.length ≤ fuel → (chunks c fuel l).flatten = l
  | 0, l, h => by
    have : l = [] := List.eq_nil_of_length_eq_zero (by omega)
    subst this; simp [chunks]
  | fuel + 1, l, h => by
    unfold chunks
    cases l with
    | nil => simp
    | cons a as =>
      simp only [List.isEmpty_cons, Bool.false_eq_true, if_false, List.flatten_cons]
      rw [chunks_flatten c hc fuel _ (by simp only [List.length_drop, List.length_cons] at h ⊢; omega)]
      exact List.take_append_drop c (a :: as)

/-- The copy loop of `ExternalTensor.tofile`: every chunk is read from the source and written to the destination. -/
theorem copyLoop_ok (dest f : String) : ∀ (cs : List Bytes) (c : Bytes) (s : St), s.k = none → dest ∈ s.wopened →
    FS.get? s.fs dest = some (.data c) →
    ∃ s', forM' (fun ch => do tick (.read f); fsWrite dest ch) cs s = (.ok (), s') ∧
      Core s s' (FS.set s.fs dest (.data (c ++ cs.flatten))) := by
  intro cs
  induction cs with
  | nil =>
    intro c s _ _ hf
    refine ⟨s, rfl, ⟨Frame.refl s, rfl, ?_⟩⟩
    simp only [List.flatten_nil, List.append_nil]
    exact (set_same _ _ _ hf).symm
  | cons ch cs ih =>
    intro c s hk hw hf
    simp only [forM', bind_apply, tick_ok _ s hk, fsWrite]
    rw [needHandle_ok dest _ (by exact hw)]
    simp only []
    rw [tick_ok _ _ (by exact hk)]
    simp only [modify_apply, append_data _ _ _ _ hf]
    obtain ⟨s', h1, h2⟩ := ih (c ++ ch)
      { s with calls := s.calls + 1 + 1, trace := s.trace ++ [Op.read f] ++ [Op.write dest ch.length],
               fs := FS.set s.fs dest (.data (c ++ ch)) } hk hw (by simp only [get?_set_eq])
    refine ⟨s', h1, ⟨⟨h2.k, h2.cv, h2.wo⟩, h2.heap, ?_⟩⟩
    rw [h2.fs]
    simp only [set_set, List.flatten_cons, List.append_assoc]

/-- `tensor.tofile(file)`, no fault, for any readable tensor of positive size: its bytes are appended. -/
theorem tofile_ok (dest : String) (id : Nat) (t : TRef) (b c : Bytes) (s : St)
    (hk : s.k = none) (hw : dest ∈ s.wopened) (hobj : s.heap[id]? = some t) (hh : Holds dest s.fs t b) (hpos : 0 < b.length)
    (hfile : FS.get? s.fs dest = some (.data c)) :
    ∃ s', tofile dest id s = (.ok (), s') ∧ Core s s' (FS.set s.fs dest (.data (c ++ b))) := by
  unfold tofile
  simp only [bind_apply, getObj_ok id _ s hobj]
  cases t with
  | mem b' np =>
    simp only [Holds] at hh
    subst hh
    cases np with
    | true =>
      simp only [bind_apply, tick_ok _ s hk, fsCWrite]
      rw [needHandle_ok dest _ (by exact hw)]
      simp only [modify_apply, append_data _ _ _ _ hfile]
      rw [fileLen_data dest (c ++ b') _ (by simp only [get?_set_eq])]
      simp only []
      rw [tick_ok _ _ (by exact hk)]
      exact ⟨_, rfl, ⟨⟨rfl, rfl, rfl⟩, rfl, rfl⟩⟩
    | false =>
      simp only [fsWrite, bind_apply]
      rw [needHandle_ok dest _ hw]
      simp only [tick_ok _ s hk, modify_apply, append_data _ _ _ _ hfile]
      exact ⟨_, rfl, ⟨⟨rfl, rfl, rfl⟩, rfl, rfl⟩⟩
  | ext f off len v =>
    obtain ⟨hv, hne, hread⟩ := hh
    subst hv
    have hlen := read_len _ _ _ _ _ hread
    have h0 : ¬ len = 0 := by omega
    unfold FS.read at hread
    simp only [h0, if_false] at hread
    cases hsrc : FS.get? s.fs f with
    | none => rw [hsrc] at hread; cases hread
    | some cont =>
      rw [hsrc] at hread
      cases cont with
      | proto p => cases hread
      | data whole =>
        simp only [] at hread
        by_cases hin : off + len ≤ whole.length
        · simp only [hin, if_true, Option.some.injEq] at hread
          subst hread
          simp only [Bool.not_true, Bool.false_eq_true, if_false]
          unfold fsOpenR withClose
          simp only [bind_apply, tick_ok _ s hk, get_apply, hsrc, pure_apply]
          rw [tick_ok _ _ (by exact hk)]
          simp only []
          obtain ⟨s', h1, h2⟩ := copyLoop_ok dest f (chunks chunkSize (slice whole off len).length (slice whole off len)) c
            { s with calls := s.calls + 1 + 1, trace := s.trace ++ [Op.openR f] ++ [Op.seek f off] } hk hw hfile
          rw [h1]
          simp only []
          have hnot : ¬ (slice whole off len).length < len := by omega
          simp only [hnot, if_false, pure_apply]
          rw [tick_ok _ s' (by rw [h2.k]; exact hk)]
          refine ⟨_, rfl, ⟨⟨h2.k, h2.cv, h2.wo⟩, h2.heap, ?_⟩⟩
          show s'.fs = _
          rw [h2.fs, chunks_flatten chunkSize (by decide) _ _ (Nat.le_refl _)]
        · simp only [hin, if_false] at hread; cases hread

/-! ## The write loop and `_write_external_data`, fault-free -/

/-- Items handed to the write loop for tensors `(name, id, bytes)` laid out from `cur`. -/
def mkItems (cur : Nat) : List (String × Nat × Bytes) → List (String × Nat × Nat)
  | [] => []
  | (n, id, b) :: r => (n, id, newOffset cur b.length) :: mkItems (newOffset cur b.length + b.length) r

/-- Tensor object `id` of state `s` is readable, denotes `b`, and is not empty. -/
def Writable (dest : String) (s : St) (id : Nat) (b : Bytes) : Prop :=
  ∃ t, s.heap[id]? = some t ∧ Holds dest s.fs t b ∧ 0 < b.length

theorem Writable.step {dest : String} {s s' : St} {id : Nat} {b : Bytes} (c : Content)
    (h : Writable dest s id b) (hheap : s'.heap = s.heap) (hfs : s'.fs = FS.set s.fs dest c) : Writable dest s' id b := by
  obtain ⟨t, h1, h2, h3⟩ := h
  exact ⟨t, by rw [hheap]; exact h1, by rw [hfs]; exact holds_set_dest c h2, h3⟩

theorem writeRest_ok (dest : String) (id : Nat) (b c : Bytes) (s : St)
    (hk : s.k = none) (hw : dest ∈ s.wopened) (hobj : Writable dest s id b) (hfile : FS.get? s.fs dest = some (.data c)) :
    ∃ s', (do
        let size ← fileLen dest
        if newOffset c.length b.length > size then do
            fsWrite dest (zeros (newOffset c.length b.length - size))
            tofile dest id
          else tofile dest id) s = (.ok (), s') ∧
      Core s s' (FS.set s.fs dest (.data (c ++ zeros (newOffset c.length b.length - c.length) ++ b))) := by
  have hge := newOffset_ge c.length b.length
  obtain ⟨t, ht, hh, hpos⟩ := hobj
  simp only [bind_apply, fileLen_data dest c s hfile]
  by_cases hpad : newOffset c.length b.length > c.length
  · simp only [hpad, if_true, fsWrite, bind_apply]
    rw [needHandle_ok dest _ hw]
    simp only [tick_ok _ s hk, modify_apply, append_data _ _ _ _ hfile]
    obtain ⟨s', h1, h2⟩ := tofile_ok dest id t b (c ++ zeros (newOffset c.length b.length - c.length))
      { s with calls := s.calls + 1, trace := s.trace ++ [Op.write dest (zeros (newOffset c.length b.length - c.length)).length],
               fs := FS.set s.fs dest (.data (c ++ zeros (newOffset c.length b.length - c.length))) }
      hk hw ht (holds_set_dest _ hh) hpos (by simp only [get?_set_eq])
    refine ⟨s', h1, ?_⟩
    have h3 := h2.fs
    simp only [set_set] at h3
    exact ⟨⟨h2.k, h2.cv, h2.wo⟩, h2.heap, h3⟩
  · simp only [hpad, if_false]
    obtain ⟨s', h1, h2⟩ := tofile_ok dest id t b c s hk hw ht hh hpos hfile
    refine ⟨s', h1, ?_⟩
    have : newOffset c.length b.length - c.length = 0 := by omega
    rw [this]
    simpa [zeros] using h2

theorem writeOne_ok (dest : String) (verbose : Bool) (name : String) (id : Nat) (b c : Bytes) (s : St)
    (hk : s.k = none) (hw : dest ∈ s.wopened) (hobj : Writable dest s id b) (hfile : FS.get? s.fs dest = some (.data c)) :
    ∃ s', writeOne dest verbose (name, id, newOffset c.length b.length) s = (.ok (), s') ∧
      Core s s' (FS.set s.fs dest (.data (c ++ zeros (newOffset c.length b.length - c.length) ++ b))) := by
  unfold writeOne
  simp only []
  cases verbose with
  | false =>
    simp only [Bool.false_eq_true, if_false]
    exact writeRest_ok dest id b c s hk hw hobj hfile
  | true =>
    simp only [if_true, bind_apply, modify_apply]
    obtain ⟨s', h1, h2⟩ := writeRest_ok dest id b c
      { s with cb := s.cb ++ [(name, newOffset c.length b.length)] } hk hw hobj hfile
    exact ⟨s', h1, ⟨⟨h2.k, h2.cv, h2.wo⟩, h2.heap, h2.fs⟩⟩

/-- The whole loop, no fault: the file grows by exactly `image`. -/
theorem writeLoop_ok (dest : String) (verbose : Bool) :
    ∀ (ts : List (String × Nat × Bytes)) (c : Bytes) (s : St), s.k = none → dest ∈ s.wopened →
      (∀ x ∈ ts, Writable dest s x.2.1 x.2.2) →
      FS.get? s.fs dest = some (.data c) →
      ∃ s', forM' (writeOne dest verbose) (mkItems c.length ts) s = (.ok (), s') ∧
        Core s s' (FS.set s.fs dest (.data (c ++ image c.length (ts.map (·.2.2))))) := by
  intro ts
  induction ts with
  | nil =>
    intro c s hk _ _ hf
    refine ⟨s, rfl, ⟨Frame.refl s, rfl, ?_⟩⟩
    simp only [List.map_nil, image, List.append_nil]
    exact (set_same _ _ _ hf).symm
  | cons t ts ih =>
    intro c s hk hw hobjs hf
    obtain ⟨n, id, b⟩ := t
    have hnp := hobjs (n, id, b) (List.mem_cons_self)
    obtain ⟨s1, h1, c1⟩ := writeOne_ok dest verbose n id b c s hk hw hnp hf
    have hk1 : s1.k = none := by rw [c1.k]; exact hk
    have hw1 : dest ∈ s1.wopened := by rw [c1.wo]; exact hw
    have hlen : (c ++ zeros (newOffset c.length b.length - c.length) ++ b).length = newOffset c.length b.length + b.length := by
      have := newOffset_ge c.length b.length
      simp only [List.length_append, zeros, List.length_replicate]; omega
    obtain ⟨s2, h2, c2⟩ := ih (c ++ zeros (newOffset c.length b.length - c.length) ++ b) s1 hk1 hw1
      (fun x hx => (hobjs x (List.mem_cons_of_mem _ hx)).step _ c1.heap c1.fs)
      (by rw [c1.fs]; exact get?_set_eq _ _ _)
    refine ⟨s2, ?_, ?_⟩
    · simp only [mkItems, forM', bind_apply, h1]
      rw [hlen] at h2
      exact h2
    · have := Core.trans c1 c2
      refine ⟨this.toFrame, this.heap, ?_⟩
      have hfs := this.fs
      rw [c1.fs, set_set, hlen] at hfs
      rw [hfs]
      simp only [List.map_cons, image, List.append_assoc]

/-- `_write_external_data`, no fault: afterwards the data file is exactly `image 0 …` and `dest` has a handle. -/
theorem writeExternalData_ok (dest : String) (verbose : Bool) (ts : List (String × Nat × Bytes)) (s : St)
    (hk : s.k = none) (hobjs : ∀ x ∈ ts, Writable dest s x.2.1 x.2.2) :
    ∃ s', writeExternalData dest verbose (mkItems 0 ts) s = (.ok (), s') ∧
      s'.k = s.k ∧ s'.cv = s.cv ∧ s'.heap = s.heap ∧ s'.wopened = s.wopened ++ [dest] ∧
      s'.fs = FS.set s.fs dest (.data (image 0 (ts.map (·.2.2)))) := by
  unfold writeExternalData fsOpenW
  simp only [bind_apply, tick_ok _ s hk, modify_apply]
  generalize hs0 : ({ s with calls := s.calls + 1, trace := s.trace ++ [Op.openW dest],
                             fs := FS.set s.fs dest (.data []), wopened := s.wopened ++ [dest] } : St) = s0
  have hk0 : s0.k = none := by rw [← hs0]; exact hk
  have hh0 : s0.heap = s.heap := by rw [← hs0]
  have hc0 : s0.cv = s.cv := by rw [← hs0]
  have hw0 : s0.wopened = s.wopened ++ [dest] := by rw [← hs0]
  have hf0 : s0.fs = FS.set s.fs dest (.data []) := by rw [← hs0]
  have hbody : ∀ (st : St), st.k = none → st.heap = s.heap → st.wopened = s.wopened ++ [dest] →
      st.fs = FS.set s.fs dest (.data []) →
      ∃ st', forM' (writeOne dest verbose) (mkItems 0 ts) st = (.ok (), st') ∧
        Core st st' (FS.set s.fs dest (.data (image 0 (ts.map (·.2.2))))) := by
    intro st hkst hhst hwst hfst
    obtain ⟨st', h1, h2⟩ := writeLoop_ok dest verbose ts [] st hkst (by rw [hwst]; simp)
      (fun x hx => (hobjs x hx).step _ hhst hfst)
      (by rw [hfst]; exact get?_set_eq _ _ _)
    refine ⟨st', h1, ⟨h2.toFrame, h2.heap, ?_⟩⟩
    rw [h2.fs, hfst, set_set]
    simp
  unfold withClose
  by_cases hcb : (verbose && !(mkItems 0 ts).isEmpty) = true
  · simp only [hcb, if_true, bind_apply, modify_apply]
    obtain ⟨st', h1, h2⟩ := hbody { s0 with cbTotal := some (mkItems 0 ts).length } hk0 hh0 hw0 hf0
    rw [h1]
    simp only []
    rw [tick_ok _ st' (by rw [h2.k]; exact hk0)]
    refine ⟨_, rfl, ?_, ?_, ?_, ?_, h2.fs⟩
    · show st'.k = s.k; rw [h2.k]; show s0.k = s.k; rw [← hs0]
    · show st'.cv = s.cv; rw [h2.cv]; exact hc0
    · show st'.heap = s.heap; rw [h2.heap]; exact hh0
    · show st'.wopened = _; rw [h2.wo]; exact hw0
  · simp only [hcb]
    obtain ⟨st', h1, h2⟩ := hbody s0 hk0 hh0 hw0 hf0
    simp only [Bool.false_eq_true, if_false]
    rw [h1]
    simp only []
    rw [tick_ok _ st' (by rw [h2.k]; exact hk0)]
    refine ⟨_, rfl, ?_, ?_, ?_, ?_, h2.fs⟩
    · show st'.k = s.k; rw [h2.k]; rw [← hs0]
    · show st'.cv = s.cv; rw [h2.cv]; exact hc0
    · show st'.heap = s.heap; rw [h2.heap]; exact hh0
    · show st'.wopened = _; rw [h2.wo]; exact hw0

/-! ## Sorting, placing, entries -/

theorem mem_insBySize (size : α → Nat) (x y : α) : ∀ l, y ∈ insBySize size x l ↔ y = x ∨ y ∈ l
  | [] => by simp [insBySize]
  | z :: zs => by
    unfold insBySize
    split
    · simp
    · simp only [List.mem_cons, mem_insBySize size x y zs]
      constructor
      · rintro (h | h | h) <;> simp [h]
      · rintro (h | h | h) <;> simp [h]

theorem mem_sortBySize (size : α → Nat) (y : α) : ∀ l, y ∈ sortBySize size l ↔ y ∈ l
  | [] => by simp [sortBySize]
  | x :: xs => by
    have ih := mem_sortBySize size y xs
    unfold sortBySize at ih ⊢
    simp only [List.foldr_cons, mem_insBySize, ih, List.mem_cons]

theorem map_insBySize (f : α → β) (g : β → Nat) (x : α) : ∀ l,
    (insBySize (fun a => g (f a)) x l).map f = insBySize g (f x) (l.map f)
  | [] => rfl
  | y :: ys => by
    unfold insBySize
    simp only [List.map_cons]
    split
    · simp
    · simp only [List.map_cons, map_insBySize f g x ys]

theorem map_sortBySize (f : α → β) (g : β → Nat) : ∀ l,
    (sortBySize (fun a => g (f a)) l).map f = sortBySize g (l.map f)
  | [] => rfl
  | x :: xs => by
    have ih := map_sortBySize f g xs
    unfold sortBySize at ih ⊢
    simp only [List.foldr_cons, List.map_cons, map_insBySize, ih]

/-- Entries (with their bytes carried along) for inputs `(name, id, bytes)`, positions from `pos`. -/
def entsB (pos : Nat) : List (String × Nat × Bytes) → List (Ent × Bytes)
  | [] => []
  | (n, id, b) :: r => ({ pos := pos, name := n, id := id, size := b.length }, b) :: entsB (pos + 1) r

theorem mkEnts_entsB : ∀ (inp : List (String × Nat × Bytes)) (pos : Nat),
    mkEnts pos (inp.map (·.1)) (inp.map (·.2.1)) (inp.map (·.2.2.length)) = (entsB pos inp).map (·.1)
  | [], _ => rfl
  | (n, id, b) :: r, pos => by
    simp only [List.map_cons, mkEnts, entsB, mkEnts_entsB r (pos + 1)]

theorem mem_entsB : ∀ (inp : List (String × Nat × Bytes)) (pos : Nat) (x : Ent × Bytes), x ∈ entsB pos inp →
    ∃ j, inp[j]? = some (x.1.name, x.1.id, x.2) ∧ x.1.pos = pos + j ∧ x.1.size = x.2.length
  | [], _, x, h => by simp [entsB] at h
  | (n, id, b) :: r, pos, x, h => by
    simp only [entsB, List.mem_cons] at h
    rcases h with rfl | h
    · exact ⟨0, rfl, rfl, rfl⟩
    · obtain ⟨j, h1, h2, h3⟩ := mem_entsB r (pos + 1) x h
      exact ⟨j + 1, by simpa using h1, by omega, h3⟩

theorem entsB_covers : ∀ (inp : List (String × Nat × Bytes)) (pos j : Nat), j < inp.length →
    ∃ x ∈ entsB pos inp, x.1.pos = pos + j
  | [], _, j, h => by simp at h
  | (n, id, b) :: r, pos, 0, _ => ⟨_, List.mem_cons_self, rfl⟩
  | (n, id, b) :: r, pos, j + 1, h => by
    obtain ⟨x, hx, hp⟩ := entsB_covers r (pos + 1) j (by simpa using h)
    exact ⟨x, List.mem_cons_of_mem _ hx, by omega⟩

/-- `zipOffsets sorted (layout cur sizes)` written as one recursion. -/
def placeFrom (cur : Nat) : List Ent → List (Ent × Nat)
  | [] => []
  | e :: es => (e, newOffset cur e.size) :: placeFrom (newOffset cur e.size + e.size) es

theorem zipOffsets_layout : ∀ (es : List Ent) (cur : Nat),
    zipOffsets es (layout cur (es.map Ent.size)) = placeFrom cur es
  | [], _ => rfl
  | e :: es, cur => by
    simp only [List.map_cons, layout, zipOffsets, placeFrom, zipOffsets_layout es]

theorem placeFrom_items : ∀ (eb : List (Ent × Bytes)) (cur : Nat), (∀ x ∈ eb, x.1.size = x.2.length) →
    (placeFrom cur (eb.map (·.1))).map (fun (p : Ent × Nat) => (p.1.name, p.1.id, p.2)) =
      mkItems cur (eb.map fun x => (x.1.name, x.1.id, x.2))
  | [], _, _ => rfl
  | x :: r, cur, h => by
    have hx := h x List.mem_cons_self
    simp only [List.map_cons, placeFrom, mkItems, hx]
    rw [placeFrom_items r _ (fun y hy => h y (List.mem_cons_of_mem _ hy))]

theorem placeFrom_get : ∀ (es : List Ent) (cur j : Nat) (e : Ent), es[j]? = some e →
    ∃ o, (placeFrom cur es)[j]? = some (e, o) ∧ (layout cur (es.map Ent.size))[j]? = some (o, e.size)
  | [], _, j, e, h => by simp at h
  | e0 :: es, cur, 0, e, h => by
    simp only [List.getElem?_cons_zero, Option.some.injEq] at h
    subst h
    exact ⟨_, rfl, rfl⟩
  | e0 :: es, cur, j + 1, e, h => by
    simp only [List.getElem?_cons_succ] at h
    obtain ⟨o, h1, h2⟩ := placeFrom_get es (newOffset cur e0.size + e0.size) j e h
    exact ⟨o, by simpa [placeFrom] using h1, by simpa [layout] using h2⟩

theorem placeFrom_length : ∀ (es : List Ent) (cur : Nat), (placeFrom cur es).length = es.length
  | [], _ => rfl
  | e :: es, cur => by simp [placeFrom, placeFrom_length es]

theorem layout_within_aux (cur : Nat) (sizes : List Nat) :
    ∀ e ∈ layout cur sizes, e.1 + e.2 ≤ layoutEnd cur sizes := by
  induction sizes generalizing cur with
  | nil => intro e h; simp [layout] at h
  | cons n ns ih =>
    intro e h
    simp only [layout, List.mem_cons] at h
    simp only [layoutEnd]
    rcases h with rfl | h
    · exact layoutEnd_ge _ _
    · exact ih _ e h

/-- Reading the `j`-th placed tensor back from a data file that holds exactly `image 0 bytes`. -/
theorem placed_read (dest : String) (fs : FS) (eb : List (Ent × Bytes)) (hsz : ∀ x ∈ eb, x.1.size = x.2.length)
    (hfile : FS.get? fs dest = some (.data (image 0 (eb.map (·.2)))))
    (j : Nat) (x : Ent × Bytes) (hj : eb[j]? = some x) :
    ∃ o, (placeFrom 0 (eb.map (·.1)))[j]? = some (x.1, o) ∧ FS.read fs dest o x.1.size = some x.2 := by
  have hjl : j < eb.length := by
    rcases Nat.lt_or_ge j eb.length with h | h
    · exact h
    · rw [List.getElem?_eq_none h] at hj; cases hj
  obtain ⟨o, h1, h2⟩ := placeFrom_get (eb.map (·.1)) 0 j x.1 (by simp [hj])
  refine ⟨o, h1, ?_⟩
  have hsizes : (eb.map (·.1)).map Ent.size = (eb.map (·.2)).map List.length := by
    simp only [List.map_map]
    apply List.map_congr_left
    intro y hy
    exact hsz y hy
  rw [hsizes] at h2
  obtain ⟨e, he1, he2, he3⟩ := image_readback_aux (eb.map (·.2)) [] j (by simpa using hjl)
  simp only [List.length_nil, List.nil_append] at he1 he2 he3
  rw [h2] at he1
  cases he1
  have hbj : (eb.map (·.2))[j]?.getD [] = x.2 := by simp [hj]
  rw [hbj] at he2 he3
  simp only [] at he2 he3
  unfold FS.read
  by_cases h0 : x.1.size = 0
  · simp only [h0, if_true]
    rw [h0] at he2
    rw [List.eq_nil_of_length_eq_zero he2.symm]
  · simp only [h0, if_false, hfile]
    have hmem : (o, x.1.size) ∈ layout 0 ((eb.map (·.2)).map List.length) := List.mem_of_getElem? h2
    have hwithin := layout_within_aux 0 _ _ hmem
    have hlen := image_length 0 (eb.map (·.2))
    simp only [Nat.zero_add] at hlen
    rw [hlen]
    simp only [hwithin, if_true, he3]

/-! ## `placeAndWrite` and `convertToExternal`, fault-free -/

theorem sizes_ok (dest : String) (s : St) : ∀ (inp : List (String × Nat × Bytes)),
    (∀ x ∈ inp, Writable dest s x.2.1 x.2.2) →
    mapM' sizeOf (inp.map (·.2.1)) s = (.ok (inp.map (·.2.2.length)), s)
  | [], _ => rfl
  | x :: r, h => by
    obtain ⟨t, ht, hh, _⟩ := h x List.mem_cons_self
    simp only [List.map_cons, mapM', bind_apply, sizeOf, getObj_ok _ _ s ht, pure_apply, holds_nbytes hh,
      sizes_ok dest s r (fun y hy => h y (List.mem_cons_of_mem _ hy))]

theorem materialize_noop (dest : String) (e : Bool) (s : St) : ∀ (inp : List (String × Nat × Bytes)),
    (∀ x ∈ inp, Writable dest s x.2.1 x.2.2) →
    mapM' (materializeOne dest e) (inp.map fun x => (x.1, x.2.1)) s = (.ok (inp.map (·.2.1)), s)
  | [], _ => rfl
  | x :: r, h => by
    obtain ⟨t, ht, hh, _⟩ := h x List.mem_cons_self
    have hone : materializeOne dest e (x.1, x.2.1) s = (.ok x.2.1, s) := by
      unfold materializeOne
      cases e with
      | false => rfl
      | true =>
        simp only [Bool.not_true, Bool.false_eq_true, if_false, bind_apply, getObj_ok _ _ s ht]
        cases t with
        | mem b np => rfl
        | ext f o l v =>
          have hne : f ≠ dest := hh.2.1
          simp only [hne, if_false, pure_apply]
    simp only [List.map_cons, mapM', bind_apply, hone, pure_apply,
      materialize_noop dest e s r (fun y hy => h y (List.mem_cons_of_mem _ hy))]

/-- Keys and new object ids produced by the `makeExternal` loop when the heap has `h` objects. -/
def madeOf (h : Nat) : List (Ent × Nat) → List (Nat × Nat)
  | [] => []
  | p :: r => (p.1.pos, h) :: madeOf (h + 1) r

theorem makeLoop_ok (dest : String) : ∀ (pl : List (Ent × Nat)) (s : St),
    ∃ s', mapM' (makeExternal dest) pl s = (.ok (madeOf s.heap.length pl), s') ∧ Frame s s' ∧ s'.fs = s.fs ∧
      s'.heap = s.heap ++ pl.map (fun p => TRef.ext dest p.2 p.1.size true)
  | [], s => ⟨s, rfl, Frame.refl s, rfl, by simp⟩
  | p :: r, s => by
    obtain ⟨s', h1, h2, h3, h4⟩ := makeLoop_ok dest r { s with heap := s.heap ++ [TRef.ext dest p.2 p.1.size true] }
    refine ⟨s', ?_, ⟨h2.k, h2.cv, h2.wo⟩, h3, ?_⟩
    · simp only [mapM', bind_apply, makeExternal, newObj, pure_apply, madeOf]
      rw [h1]
      simp
    · rw [h4]; simp

theorem mem_madeOf : ∀ (pl : List (Ent × Nat)) (h : Nat) (x : Nat × Nat), x ∈ madeOf h pl →
    ∃ j p, pl[j]? = some p ∧ x = (p.1.pos, h + j)
  | [], _, x, hx => by simp [madeOf] at hx
  | p :: r, h, x, hx => by
    simp only [madeOf, List.mem_cons] at hx
    rcases hx with rfl | hx
    · exact ⟨0, p, rfl, rfl⟩
    · obtain ⟨j, q, h1, h2⟩ := mem_madeOf r (h + 1) x hx
      exact ⟨j + 1, q, by simpa using h1, by rw [h2]; congr 1; omega⟩

theorem madeOf_keys : ∀ (pl : List (Ent × Nat)) (h : Nat), (madeOf h pl).map (·.1) = pl.map (·.1.pos)
  | [], _ => rfl
  | p :: r, h => by simp [madeOf, madeOf_keys r]

theorem lookup_of_key (l : List (Nat × Nat)) (k : Nat) (h : k ∈ l.map (·.1)) : ∃ v, l.lookup k = some v ∧ (k, v) ∈ l := by
  induction l with
  | nil => simp at h
  | cons x r ih =>
    obtain ⟨a, b⟩ := x
    by_cases hk : k = a
    · subst hk
      exact ⟨b, by simp [List.lookup], List.mem_cons_self⟩
    · have hne : (k == a) = false := by simpa using hk
      simp only [List.map_cons, List.mem_cons] at h
      rcases h with h | h
      · exact absurd h hk
      · obtain ⟨v, h1, h2⟩ := ih h
        exact ⟨v, by simp [List.lookup, hne, h1], List.mem_cons_of_mem _ h2⟩

/-- `gather` returns, for inputs `xs` at positions `i, i+1, …`, values related to them by `R`, provided every such
position is a key of `made` and every entry of `made` is good for its key. -/
theorem gather_spec (made : List (Nat × Nat)) (R : X → Nat → Prop) : ∀ (xs : List X) (i : Nat),
    (∀ j (hj : j < xs.length), (i + j) ∈ made.map (·.1)) →
    (∀ j (hj : j < xs.length) v, (i + j, v) ∈ made → R xs[j] v) →
    ∃ out, gather made i xs.length = some out ∧ All2 R xs out
  | [], i, _, _ => ⟨[], rfl, All2.nil⟩
  | x :: xs, i, hk, hr => by
    obtain ⟨v, hv1, hv2⟩ := lookup_of_key made i (by simpa using hk 0 (by simp))
    obtain ⟨out, ho1, ho2⟩ := gather_spec made R xs (i + 1)
      (fun j hj => by have := hk (j + 1) (by simpa using hj); rwa [show i + 1 + j = i + (j + 1) by omega])
      (fun j hj v hv => by
        have := hr (j + 1) (by simpa using hj) v (by rwa [show i + (j + 1) = i + 1 + j by omega])
        simpa using this)
    refine ⟨v :: out, ?_, All2.cons ?_ ho2⟩
    · simp only [List.length_cons, gather, hv1, ho1]
    · have := hr 0 (by simp) v (by simpa using hv2)
      simpa using this

theorem placeFrom_fst : ∀ (es : List Ent) (cur : Nat), (placeFrom cur es).map (·.1) = es
  | [], _ => rfl
  | e :: es, cur => by simp [placeFrom, placeFrom_fst es]

/-- A new external tensor good for input `x`: lives in `dest`, has `x`'s length, reads back `x`'s bytes. -/
def NewExt (dest : String) (s' : St) (x : String × Nat × Bytes) (nid : Nat) : Prop :=
  ∃ o, s'.heap[nid]? = some (.ext dest o x.2.2.length true) ∧ FS.read s'.fs dest o x.2.2.length = some x.2.2

theorem placeAndWrite_ok (dest : String) (verbose : Bool) (inp : List (String × Nat × Bytes)) (s : St)
    (hk : s.k = none) (hobjs : ∀ x ∈ inp, Writable dest s x.2.1 x.2.2) :
    ∃ out s' img, placeAndWrite dest verbose (inp.map (·.1)) (inp.map (·.2.1)) s = (.ok out, s') ∧
      s'.k = s.k ∧ s'.cv = s.cv ∧ s.heap <+: s'.heap ∧ s'.wopened = s.wopened ++ [dest] ∧
      s'.fs = FS.set s.fs dest (.data img) ∧ All2 (NewExt dest s') inp out := by
  unfold placeAndWrite
  simp only [bind_apply, sizes_ok dest s inp hobjs, mkEnts_entsB, List.length_map]
  rw [← map_sortBySize (fun (a : Ent × Bytes) => a.1) Ent.size (entsB 0 inp)]
  generalize hsb : sortBySize (fun (a : Ent × Bytes) => a.1.size) (entsB 0 inp) = sb
  have hmem : ∀ x, x ∈ sb ↔ x ∈ entsB 0 inp := by
    intro x; rw [← hsb]; exact mem_sortBySize _ x _
  have hsz : ∀ x ∈ sb, x.1.size = x.2.length := by
    intro x hx
    obtain ⟨j, _, _, h3⟩ := mem_entsB inp 0 x ((hmem x).1 hx)
    exact h3
  rw [zipOffsets_layout, placeFrom_items sb 0 hsz]
  -- write the data file
  obtain ⟨s2, hw1, hk2, hcv2, hheap2, hwo2, hfs2⟩ := writeExternalData_ok dest verbose
    (sb.map fun x => (x.1.name, x.1.id, x.2)) s hk (by
      intro y hy
      simp only [List.mem_map] at hy
      obtain ⟨x, hx, rfl⟩ := hy
      obtain ⟨j, h1, _, _⟩ := mem_entsB inp 0 x ((hmem x).1 hx)
      exact hobjs _ (List.mem_of_getElem? h1))
  rw [hw1]
  simp only []
  have himg : (sb.map fun x => (x.1.name, x.1.id, x.2)).map (·.2.2) = sb.map (·.2) := by simp [List.map_map]
  rw [himg] at hfs2
  -- create the new external tensors
  obtain ⟨s3, hm1, hfr3, hfs3, hheap3⟩ := makeLoop_ok dest (placeFrom 0 (sb.map (·.1))) s2
  rw [hm1]
  simp only []
  have hfile3 : FS.get? s3.fs dest = some (.data (image 0 (sb.map (·.2)))) := by
    rw [hfs3, hfs2]; exact get?_set_eq _ _ _
  -- back to the input order
  obtain ⟨out, hg, hall⟩ := gather_spec (madeOf s2.heap.length (placeFrom 0 (sb.map (·.1)))) (NewExt dest s3) inp 0
    (by
      intro j hj
      rw [madeOf_keys]
      obtain ⟨x, hx, hp⟩ := entsB_covers inp 0 j hj
      have : x.1 ∈ (placeFrom 0 (sb.map (·.1))).map (·.1) := by
        rw [placeFrom_fst]; exact List.mem_map_of_mem ((hmem x).2 hx)
      simp only [List.mem_map] at this ⊢
      obtain ⟨p, hp1, hp2⟩ := this
      exact ⟨p, hp1, by rw [hp2, hp]⟩)
    (by
      intro j hj v hv
      obtain ⟨i, p, hpi, hpe⟩ := mem_madeOf _ _ _ hv
      have hil : i < sb.length := by
        have : i < (placeFrom 0 (sb.map (·.1))).length := by
          rcases Nat.lt_or_ge i (placeFrom 0 (sb.map (·.1))).length with h | h
          · exact h
          · rw [List.getElem?_eq_none h] at hpi; cases hpi
        simpa [placeFrom_length] using this
      have hxi : sb[i]? = some sb[i] := List.getElem?_eq_getElem hil
      obtain ⟨o, ho1, ho2⟩ := placed_read dest s3.fs sb hsz hfile3 i sb[i] hxi
      rw [hpi] at ho1
      cases ho1
      simp only [Prod.mk.injEq] at hpe
      obtain ⟨hpos, hv'⟩ := hpe
      obtain ⟨j', h1, h2, h3⟩ := mem_entsB inp 0 sb[i] ((hmem _).1 (List.getElem_mem hil))
      have hjj : j' = j := by omega
      subst hjj
      have hinp : inp[j'] = (sb[i].1.name, sb[i].1.id, sb[i].2) := by
        have := List.getElem?_eq_getElem hj
        rw [this] at h1
        exact Option.some.inj h1
      refine ⟨o, ?_, ?_⟩
      · rw [hinp]
        simp only []
        rw [← h3, hv', hheap3, List.getElem?_append_right (Nat.le_add_right _ _)]
        simp only [Nat.add_sub_cancel_left, List.getElem?_map]
        rw [hpi]
        rfl
      · rw [hinp]
        simp only []
        rw [← h3]
        exact ho2)
  rw [hg]
  refine ⟨out, s3, image 0 (sb.map (·.2)), rfl, ?_, ?_, ?_, ?_, ?_, hall⟩
  · rw [hfr3.k, hk2]
  · rw [hfr3.cv, hcv2]
  · rw [hheap3, hheap2]; exact List.prefix_append _ _
  · rw [hfr3.wo, hwo2]
  · rw [hfs3, hfs2]

theorem convertToExternal_ok (dest : String) (verbose : Bool) (inp : List (String × Nat × Bytes)) (s : St)
    (hk : s.k = none) (hobjs : ∀ x ∈ inp, Writable dest s x.2.1 x.2.2) :
    ∃ out s' img, convertToExternal dest verbose (inp.map fun x => (x.1, x.2.1)) s = (.ok out, s') ∧
      s'.k = s.k ∧ s'.cv = s.cv ∧ s.heap <+: s'.heap ∧ s'.wopened = s.wopened ++ [dest] ∧
      s'.fs = FS.set s.fs dest (.data img) ∧ All2 (NewExt dest s') inp out := by
  unfold convertToExternal
  simp only [bind_apply, get_apply, materialize_noop dest _ s inp hobjs, List.map_map]
  have h1 : (inp.map ((fun (x : String × Nat) => x.1) ∘ fun x => (x.1, x.2.1))) = inp.map (·.1) := by
    apply List.map_congr_left; intro x _; rfl
  rw [h1]
  exact placeAndWrite_ok dest verbose inp s hk hobjs

/-! ## `unload`, fault-free -/

/-- Initializer with `const_value` `c` is initialized with a readable tensor denoting `b`. -/
def InitOK (dest : String) (fs : FS) (heap : List TRef) (c : Option Nat) (b : Bytes) : Prop :=
  ∃ id t, c = some id ∧ heap[id]? = some t ∧ Holds dest fs t b

/-- The `ext`-tagged initializers with their bytes (parallel to `extInputs`). -/
def extB (thr : Nat) (heap : List TRef) (tnames : List String) : List (Option Nat) → List Bytes → List (String × Nat × Bytes)
  | some id :: cv, b :: bs =>
    if classify thr heap (some id) = .ext then (tnames.getD id "", id, b) :: extB thr heap tnames cv bs
    else extB thr heap tnames cv bs
  | none :: cv, _ :: bs => extB thr heap tnames cv bs
  | _, _ => []

/-- The `mem`-tagged initializers with their bytes (parallel to `memInputs`). -/
def memB (thr : Nat) (heap : List TRef) : List (Option Nat) → List Bytes → List (Nat × Bytes)
  | some id :: cv, b :: bs =>
    if classify thr heap (some id) = .mem then (id, b) :: memB thr heap cv bs else memB thr heap cv bs
  | none :: cv, _ :: bs => memB thr heap cv bs
  | _, _ => []

theorem extB_inputs (thr : Nat) (dest : String) (fs : FS) (heap : List TRef) (tnames : List String) :
    ∀ {cv bs}, All2 (InitOK dest fs heap) cv bs →
      (extB thr heap tnames cv bs).map (fun x => (x.1, x.2.1)) = extInputs thr heap tnames cv
  | _, _, .nil => rfl
  | _, _, .cons (a := c) hr ht => by
    obtain ⟨id, t, rfl, _, _⟩ := hr
    simp only [extB, extInputs]
    split
    · simp [extB_inputs thr dest fs heap tnames ht]
    · exact extB_inputs thr dest fs heap tnames ht

theorem memB_inputs (thr : Nat) (dest : String) (fs : FS) (heap : List TRef) :
    ∀ {cv bs}, All2 (InitOK dest fs heap) cv bs → (memB thr heap cv bs).map (·.1) = memInputs thr heap cv
  | _, _, .nil => rfl
  | _, _, .cons (a := c) hr ht => by
    obtain ⟨id, t, rfl, _, _⟩ := hr
    simp only [memB, memInputs]
    split
    · simp [memB_inputs thr dest fs heap ht]
    · exact memB_inputs thr dest fs heap ht

theorem classify_some (thr : Nat) (heap : List TRef) (id : Nat) (t : TRef) (h : heap[id]? = some t) :
    classify thr heap (some id) =
      if t.nbytes > thr then Tag.ext else (match t with | .ext _ _ _ _ => Tag.mem | .mem _ _ => Tag.keep) := by
  unfold classify
  simp only [h]
  split
  · rfl
  · cases t <;> rfl

theorem extB_writable (thr : Nat) (dest : String) (s : St) (tnames : List String) :
    ∀ {cv bs}, All2 (InitOK dest s.fs s.heap) cv bs → ∀ x ∈ extB thr s.heap tnames cv bs, Writable dest s x.2.1 x.2.2
  | _, _, .nil => by intro x hx; simp [extB] at hx
  | _, _, .cons (a := c) (b := b) hr ht => by
    intro x hx
    obtain ⟨id, t, rfl, h1, h2⟩ := hr
    simp only [extB] at hx
    split at hx
    · rename_i hc
      simp only [List.mem_cons] at hx
      rcases hx with rfl | hx
      · refine ⟨t, h1, h2, ?_⟩
        rw [classify_some thr _ _ _ h1] at hc
        have hn := holds_nbytes h2
        by_cases hbig : t.nbytes > thr
        · simp only []; omega
        · simp only [hbig, if_false] at hc
          cases t <;> simp at hc
      · exact extB_writable thr dest s tnames ht x hx
    · exact extB_writable thr dest s tnames ht x hx

theorem memB_ext (thr : Nat) (dest : String) (fs : FS) (heap : List TRef) :
    ∀ {cv bs}, All2 (InitOK dest fs heap) cv bs → ∀ x ∈ memB thr heap cv bs,
      ∃ f off len, heap[x.1]? = some (.ext f off len true) ∧ FS.read fs f off len = some x.2
  | _, _, .nil => by intro x hx; simp [memB] at hx
  | _, _, .cons (a := c) (b := b) hr ht => by
    intro x hx
    obtain ⟨id, t, rfl, h1, h2⟩ := hr
    simp only [memB] at hx
    split at hx
    · rename_i hc
      simp only [List.mem_cons] at hx
      rcases hx with rfl | hx
      · rw [classify_some thr _ _ _ h1] at hc
        by_cases hbig : t.nbytes > thr
        · simp [hbig] at hc
        · simp only [hbig, if_false] at hc
          cases t with
          | mem b' np => simp at hc
          | ext f off len v =>
            obtain ⟨rfl, _, h3⟩ := h2
            exact ⟨f, off, len, h1, h3⟩
      · exact memB_ext thr dest fs heap ht x hx
    · exact memB_ext thr dest fs heap ht x hx

/-- `convert_tensors_from_external` on the small external tensors: fresh in-memory copies with the same bytes. -/
theorem memLoad_ok : ∀ (mb : List (Nat × Bytes)) (s : St), s.k = none →
    (∀ x ∈ mb, ∃ f off len, s.heap[x.1]? = some (.ext f off len true) ∧ FS.read s.fs f off len = some x.2) →
    ∃ out s', mapM' extToMem (mb.map (·.1)) s = (.ok out, s') ∧ Frame s s' ∧ s'.fs = s.fs ∧ s.heap <+: s'.heap ∧
      All2 (fun (x : Nat × Bytes) nid => s'.heap[nid]? = some (.mem x.2 true)) mb out
  | [], s, _, _ => ⟨[], s, rfl, Frame.refl s, rfl, List.prefix_refl _, .nil⟩
  | x :: r, s, hk, h => by
    obtain ⟨f, off, len, h1, h2⟩ := h x List.mem_cons_self
    obtain ⟨s1, e1, fr1, fs1, hp1⟩ := extToMem_ok x.1 f off len x.2 s hk h1 h2
    have hpre1 : s.heap <+: s1.heap := by rw [hp1]; exact List.prefix_append _ _
    obtain ⟨out, s2, e2, fr2, fs2, hp2, hall⟩ := memLoad_ok r s1 (by rw [fr1.k]; exact hk) (by
      intro y hy
      obtain ⟨f', o', l', g1, g2⟩ := h y (List.mem_cons_of_mem _ hy)
      exact ⟨f', o', l', getElem?_prefix hpre1 g1, by rw [fs1]; exact g2⟩)
    refine ⟨s.heap.length :: out, s2, ?_, Frame.trans fr1 fr2, by rw [fs2, fs1], List.IsPrefix.trans hpre1 hp2, .cons ?_ hall⟩
    · simp only [List.map_cons, mapM', bind_apply, e1, e2, pure_apply]
    · apply getElem?_prefix hp2
      rw [hp1]
      simp

/-- What an initializer's `const_value` is after the swap: an in-memory tensor with the right bytes, or a new external
tensor in the data file that reads back the right bytes. -/
def FinalOK (dest : String) (sF : St) (c : Option Nat) (b : Bytes) : Prop :=
  ∃ id, c = some id ∧
    ((∃ np, sF.heap[id]? = some (.mem b np)) ∨
     (∃ o, sF.heap[id]? = some (.ext dest o b.length true) ∧ FS.read sF.fs dest o b.length = some b))

theorem merge_ok (thr : Nat) (dest : String) (fs0 : FS) (heap0 : List TRef) (tnames : List String) (sF : St)
    (hpre : heap0 <+: sF.heap) :
    ∀ {cv bs}, All2 (InitOK dest fs0 heap0) cv bs → ∀ (es ms : List Nat),
      All2 (NewExt dest sF) (extB thr heap0 tnames cv bs) es →
      All2 (fun (x : Nat × Bytes) nid => sF.heap[nid]? = some (.mem x.2 true)) (memB thr heap0 cv bs) ms →
      All2 (FinalOK dest sF) (mergeCv thr heap0 cv es ms) bs
  | _, _, .nil => by intro es ms _ _; exact .nil
  | _, _, .cons (a := c) (b := b) (as := cv) (bs := bs) hr ht => by
    intro es ms he hm
    obtain ⟨id, t, rfl, h1, h2⟩ := hr
    have hcl := classify_some thr _ _ _ h1
    simp only [extB, memB] at he hm
    by_cases hbig : t.nbytes > thr
    · simp only [hbig, if_true] at hcl
      simp only [hcl, if_true] at he
      have hne : ¬ (Tag.ext = Tag.mem) := by decide
      simp only [hcl, hne, if_false] at hm
      cases he with
      | cons hx hrest =>
        rename_i e es'
        simp only [mergeCv, hcl]
        refine .cons ?_ (merge_ok thr dest fs0 heap0 tnames sF hpre ht es' ms hrest hm)
        obtain ⟨o, g1, g2⟩ := hx
        exact ⟨e, rfl, Or.inr ⟨o, g1, g2⟩⟩
    · simp only [hbig, if_false] at hcl
      cases t with
      | mem b' np =>
        simp only [] at hcl
        have hne1 : ¬ (Tag.keep = Tag.ext) := by decide
        have hne2 : ¬ (Tag.keep = Tag.mem) := by decide
        simp only [hcl, hne1, hne2, if_false] at he hm
        have hm' : mergeCv thr heap0 (some id :: cv) es ms = some id :: mergeCv thr heap0 cv es ms := by
          simp only [mergeCv, hcl]
        rw [hm']
        refine .cons ?_ (merge_ok thr dest fs0 heap0 tnames sF hpre ht es ms he hm)
        simp only [Holds] at h2
        subst h2
        exact ⟨id, rfl, Or.inl ⟨np, getElem?_prefix hpre h1⟩⟩
      | ext f off len v =>
        simp only [] at hcl
        have hne : ¬ (Tag.mem = Tag.ext) := by decide
        simp only [hcl, hne, if_false] at he
        simp only [hcl, if_true] at hm
        cases hm with
        | cons hx hrest =>
          rename_i m ms'
          have hm' : mergeCv thr heap0 (some id :: cv) es (m :: ms') = some m :: mergeCv thr heap0 cv es ms' := by
            cases es <;> simp only [mergeCv, hcl]
          rw [hm']
          refine .cons ?_ (merge_ok thr dest fs0 heap0 tnames sF hpre ht es ms' he hrest)
          exact ⟨m, rfl, Or.inl ⟨true, hx⟩⟩

theorem unload_ok (thr : Nat) (dest : String) (verbose : Bool) (tnames : List String) (s : St) (bs : List Bytes)
    (hk : s.k = none) (hinit : All2 (InitOK dest s.fs s.heap) s.cv bs) :
    ∃ s' img, unload thr tnames dest verbose s = (.ok (), s') ∧ s'.k = s.k ∧ s'.wopened = s.wopened ++ [dest] ∧
      s'.fs = FS.set s.fs dest (.data img) ∧ All2 (FinalOK dest s') s'.cv bs := by
  unfold unload
  simp only [bind_apply, get_apply]
  rw [← memB_inputs thr dest s.fs s.heap hinit]
  obtain ⟨memIds, s1, e1, fr1, fs1, hp1, hmem⟩ := memLoad_ok (memB thr s.heap s.cv bs) s hk (memB_ext thr dest s.fs s.heap hinit)
  rw [e1]
  simp only []
  rw [← extB_inputs thr dest s.fs s.heap tnames hinit]
  obtain ⟨extIds, s3, img, e3, k3, cv3, hp3, wo3, fs3, hext⟩ := convertToExternal_ok dest verbose
    (extB thr s.heap tnames s.cv bs) s1 (by rw [fr1.k]; exact hk) (by
      intro x hx
      obtain ⟨t, g1, g2, g3⟩ := extB_writable thr dest s tnames hinit x hx
      exact ⟨t, getElem?_prefix hp1 g1, by rw [fs1]; exact g2, g3⟩)
  rw [e3]
  simp only [modify_apply]
  refine ⟨_, img, rfl, ?_, ?_, ?_, ?_⟩
  · show s3.k = s.k; rw [k3, fr1.k]
  · show s3.wopened = _; rw [wo3, fr1.wo]
  · show s3.fs = _; rw [fs3, fs1]
  · show All2 (FinalOK dest { s3 with cv := mergeCv thr s.heap s.cv extIds memIds }) (mergeCv thr s.heap s.cv extIds memIds) bs
    apply merge_ok thr dest s.fs s.heap tnames _ (List.IsPrefix.trans hp1 hp3) hinit extIds memIds
    · exact hext.imp (fun x nid h => h)
    · exact hmem.imp (fun x nid h => getElem?_prefix hp3 h)

/-! ## serialize + load -/

def zip3 : List (String × Bool) → List Bytes → List (String × Bool × Bytes)
  | (n, sub) :: sig, b :: bs => (n, sub, b) :: zip3 sig bs
  | _, _ => []

/-- Reading one proto entry back (the body of `load`). -/
def loadEntry (fs : FS) (x : String × Bool × PInit) : Option (String × Bool × Bytes) :=
  match x.2.2 with
  | .inline b => some (x.1, x.2.1, b)
  | .external f off len => (fs.read f off len).map fun b => (x.1, x.2.1, b)

theorem serialize_load (dest : String) (sF : St) :
    ∀ {cv bs}, All2 (FinalOK dest sF) cv bs → ∀ (sig : List (String × Bool)), sig.length = cv.length →
      ∃ p, serializeAux sF.heap sig cv = .ok p ∧
        ∀ fs', (∀ o len, FS.read fs' dest o len = FS.read sF.fs dest o len) →
          p.mapM (loadEntry fs') = some (zip3 sig bs)
  | _, _, .nil => by
    intro sig hl
    cases sig with
    | nil => exact ⟨[], rfl, fun _ _ => rfl⟩
    | cons x r => simp at hl
  | _, _, .cons (a := c) (b := b) hr ht => by
    intro sig hl
    cases sig with
    | nil => simp at hl
    | cons x sig' =>
      obtain ⟨n, sub⟩ := x
      obtain ⟨p, hp1, hp2⟩ := serialize_load dest sF ht sig' (by simpa using hl)
      obtain ⟨id, rfl, hobj⟩ := hr
      rcases hobj with ⟨np, hm⟩ | ⟨o, he, hrd⟩
      · refine ⟨(n, sub, PInit.inline b) :: p, ?_, ?_⟩
        · simp only [serializeAux, hp1, hm]
        · intro fs' hread
          simp only [List.mapM_cons, loadEntry, hp2 fs' hread, zip3]
          rfl
      · refine ⟨(n, sub, PInit.external dest o b.length) :: p, ?_, ?_⟩
        · simp only [serializeAux, hp1, he]
        · intro fs' hread
          simp only [List.mapM_cons, loadEntry, hread, hrd, hp2 fs' hread, zip3]
          rfl

theorem guardHits_nil (deep : Bool) : ∀ (sig : List (String × Bool)) (cv : List (Option Nat)),
    (∀ c ∈ cv, c ≠ none) → guardHits deep sig cv = []
  | [], _, _ => by simp [guardHits]
  | _ :: _, [], _ => by simp [guardHits]
  | x :: sig, c :: cv, h => by
    have ih := guardHits_nil deep sig cv (fun d hd => h d (List.mem_cons_of_mem _ hd))
    have hc : c ≠ none := h c List.mem_cons_self
    unfold guardHits at ih ⊢
    simp only [List.zip_cons_cons, List.filter_cons]
    cases c with
    | none => exact absurd rfl hc
    | some id => simpa using ih

theorem all2_mem_left {R : α → β → Prop} : ∀ {l1 l2}, All2 R l1 l2 → ∀ a ∈ l1, ∃ b, R a b
  | _, _, .nil, a, h => by simp at h
  | _, _, .cons hr ht, a, h => by
    simp only [List.mem_cons] at h
    rcases h with rfl | h
    · exact ⟨_, hr⟩
    · exact all2_mem_left ht a h

theorem all2_length {R : α → β → Prop} : ∀ {l1 : List α} {l2 : List β}, All2 R l1 l2 → l1.length = l2.length
  | _, _, .nil => rfl
  | _, _, .cons _ ht => by simp [all2_length ht]

theorem joinPath_ne (dir name : String) : joinPath dir (name ++ ".data") ≠ joinPath dir name := by
  intro h
  have := congrArg String.length h
  unfold joinPath at this
  split at this <;> simp [String.length_append] at this

theorem destHits_nil (dest : String) (fs : FS) (heap : List TRef) :
    ∀ {cv bs}, All2 (InitOK dest fs heap) cv bs → destHits dest heap cv = []
  | _, _, .nil => rfl
  | _, _, .cons hr ht => by
    obtain ⟨id, t, rfl, h1, h2⟩ := hr
    have ih := destHits_nil dest fs heap ht
    unfold destHits at ih ⊢
    simp only [List.filterMap_cons, h1]
    cases t with
    | mem b np => simpa using ih
    | ext f o l v =>
      have hne : f ≠ dest := h2.2.1
      simp only [hne, if_false]
      exact ih

theorem read_congr (fs fs' : FS) (f : String) (o l : Nat) (h : FS.get? fs' f = FS.get? fs f) :
    FS.read fs' f o l = FS.read fs f o l := by
  unfold FS.read
  rw [h]

/-- `ir.save`, fault-free, then `load` — from the resulting file system or from any file system that agrees with it on
the two files written. -/
theorem irSave_load_ok (thr : Nat) (sig : List (String × Bool)) (tnames : List String) (dir name : String) (verbose : Bool)
    (s : St) (bs : List Bytes) (hk : s.k = none) (hsig : sig.length = s.cv.length)
    (hinit : All2 (InitOK (joinPath dir (name ++ ".data")) s.fs s.heap) s.cv bs) :
    ∃ s', irSave thr sig tnames dir name (name ++ ".data") verbose s = (.ok (), s') ∧
      ∀ fs', FS.get? fs' (joinPath dir name) = FS.get? s'.fs (joinPath dir name) →
        FS.get? fs' (joinPath dir (name ++ ".data")) = FS.get? s'.fs (joinPath dir (name ++ ".data")) →
        load fs' dir name = some (zip3 sig bs) := by
  unfold irSave tryFinally
  simp only [bind_apply, get_apply]
  obtain ⟨s4, img, e4, k4, wo4, fs4, hfin⟩ := unload_ok thr (joinPath dir (name ++ ".data")) verbose tnames s bs hk hinit
  rw [e4]
  simp only [modify_apply]
  have hlen : sig.length = s4.cv.length := by
    rw [all2_length hfin, ← all2_length hinit]; exact hsig
  have hne := joinPath_ne dir name
  obtain ⟨p, hp1, hp2⟩ := serialize_load (joinPath dir (name ++ ".data")) s4 hfin sig hlen
  simp only [serialize, hp1]
  unfold fsOpenW withClose fsWriteProto
  simp only [bind_apply, modify_apply]
  rw [tick_ok _ _ (by show s4.k = none; rw [k4]; exact hk)]
  simp only [modify_apply]
  rw [needHandle_ok (joinPath dir name) _ (by simp)]
  simp only []
  rw [tick_ok _ _ (by show s4.k = none; rw [k4]; exact hk)]
  simp only [modify_apply]
  rw [tick_ok _ _ (by show s4.k = none; rw [k4]; exact hk)]
  refine ⟨_, rfl, ?_⟩
  simp only [set_set]
  intro fs' hmp hdest
  unfold load
  rw [hmp]
  simp only [get?_set_eq]
  apply hp2 fs'
  intro o len
  rw [read_congr _ _ _ _ _ hdest]
  exact read_set_ne _ _ _ _ _ _ hne

/-- **The whole save, fault-free, then `load`.** -/
theorem save_load_ok (cfg : Cfg) (sig : List (String × Bool)) (tnames : List String) (dir name : String) (verbose : Bool)
    (s : St) (bs : List Bytes) (hk : s.k = none) (hsig : sig.length = s.cv.length)
    (hinit : All2 (InitOK (joinPath dir (name ++ ".data")) s.fs s.heap) s.cv bs)
    (hmpf : cfg.refuseModel = false ∨ destHits (joinPath dir name) s.heap s.cv = []) :
    ∃ s', save cfg sig tnames dir name verbose s = (.ok (), s') ∧
      ∀ fs', FS.get? fs' (joinPath dir name) = FS.get? s'.fs (joinPath dir name) →
        FS.get? fs' (joinPath dir (name ++ ".data")) = FS.get? s'.fs (joinPath dir (name ++ ".data")) →
        load fs' dir name = some (zip3 sig bs) := by
  have hnone : ∀ c ∈ s.cv, c ≠ none := by
    intro c hc
    obtain ⟨b, id, t, rfl, _, _⟩ := all2_mem_left hinit c hc
    simp
  obtain ⟨s', h1, h2⟩ := irSave_load_ok cfg.thr sig tnames dir name verbose s bs hk hsig hinit
  have hm : (cfg.refuseModel && !(destHits (joinPath dir name) s.heap s.cv).isEmpty) = false := by
    rcases hmpf with h | h
    · simp [h]
    · simp [h]
  unfold save
  simp only [bind_apply, get_apply, guardHits_nil cfg.deep sig s.cv hnone, destHits_nil _ _ _ hinit, List.isEmpty_nil,
    Bool.not_true, Bool.false_eq_true, Bool.and_false, hm, Bool.or_false, if_false]
  by_cases hkn : cfg.keepNames = true
  · simp only [hkn, if_true, tryFinally, h1]
    exact ⟨_, rfl, h2⟩
  · have hf : cfg.keepNames = false := by simpa using hkn
    simp only [hf, Bool.false_eq_true, if_false]
    exact ⟨s', h1, h2⟩

/-! ## Path arithmetic -/

theorem append_right_cancel (a b c : String) (h : a ++ c = b ++ c) : a = b := by
  have := congrArg String.toList h
  simp only [String.toList_append] at this
  exact String.toList_inj.mp (List.append_cancel_right this)

theorem append_left_cancel (a b c : String) (h : c ++ a = c ++ b) : a = b := by
  have := congrArg String.toList h
  simp only [String.toList_append] at this
  exact String.toList_inj.mp (List.append_cancel_left this)

theorem joinPath_inj (dir a b : String) (h : joinPath dir a = joinPath dir b) : a = b := by
  unfold joinPath at h
  split at h
  · exact h
  · exact append_left_cancel _ _ _ h

/-! ## Readable initializers, with no condition on where external tensors live -/

/-- Tensor object `t` denotes `b` on `fs`: in memory, or a valid external tensor whose bytes are readable (wherever its
file is). -/
def Readable (fs : FS) (t : TRef) (b : Bytes) : Prop :=
  match t with
  | .mem b' _ => b' = b
  | .ext f off len v => v = true ∧ FS.read fs f off len = some b

/-- Initializer with `const_value` `c` is initialized with a readable tensor denoting `b`. -/
def InitR (fs : FS) (heap : List TRef) (c : Option Nat) (b : Bytes) : Prop :=
  ∃ id t, c = some id ∧ heap[id]? = some t ∧ Readable fs t b

/-- When the second guard has nothing to refuse, readable initializers are usable ones. -/
theorem initOK_of_readable (dest : String) (fs : FS) (heap : List TRef) :
    ∀ {cv bs}, All2 (InitR fs heap) cv bs → destHits dest heap cv = [] → All2 (InitOK dest fs heap) cv bs
  | _, _, .nil, _ => .nil
  | _, _, .cons (as := cv) hr ht, hd => by
    obtain ⟨id, t, rfl, h1, h2⟩ := hr
    unfold destHits at hd
    simp only [List.filterMap_cons, h1] at hd
    cases t with
    | mem b' np =>
      refine .cons ⟨id, _, rfl, h1, h2⟩ (initOK_of_readable dest fs heap ht ?_)
      simpa [destHits] using hd
    | ext f o l v =>
      by_cases hf : f = dest
      · simp [hf] at hd
      · simp only [hf, if_false] at hd
        refine .cons ⟨id, _, rfl, h1, ⟨h2.1, hf, h2.2⟩⟩ (initOK_of_readable dest fs heap ht ?_)
        simpa [destHits] using hd

theorem initR_none (fs : FS) (heap : List TRef) : ∀ {cv bs}, All2 (InitR fs heap) cv bs → ∀ c ∈ cv, c ≠ none := by
  intro cv bs h c hc
  obtain ⟨b, id, t, rfl, _, _⟩ := all2_mem_left h c hc
  simp

end OV.C20
