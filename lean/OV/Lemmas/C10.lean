import OV.Model.C10VersionConv
/-! Helper lemmas for C10 (core Lean only). -/
namespace OV.C10

theorem pmOps_append {β} (μ : Op → Nat → β) (v : Nat) (a b : List Op) :
    pmOps μ v (a ++ b) = pmOps μ v a ++ pmOps μ v b := by
  induction a with
  | nil => rfl
  | cons o os ih =>
    simp only [List.cons_append, pmOps]
    split <;> simp [ih]

theorem gn_replaced {n : GN} {news : List Op} (h : groupnormalization_20_21 (.groupNorm n) = .replaced news) :
    ∃ g, n.groups = some g ∧ news = gnReplacement n g ∧ n.hasX = true ∧ n.hasScale = true ∧ n.hasBias = true
      ∧ n.xVis = .known ∧ g ≠ n.c ∧ g = n.sLen ∧ g = n.bLen := by
  unfold groupnormalization_20_21 at h
  by_cases h1 : (!(n.hasX && n.hasScale && n.hasBias)) = true
  · simp [h1] at h
  · simp only [h1] at h
    by_cases h2 : n.xVis = .missing
    · simp [h2] at h
    · by_cases h3 : n.xVis = .symbolic
      · simp [h3] at h
      · by_cases h4 : (n.sVis = .missing || n.bVis = .missing) = true
        · simp [h2, h3, h4] at h
        · by_cases h5 : (n.sVis = .symbolic || n.bVis = .symbolic) = true
          · simp [h2, h3, h4, h5] at h
          · simp only [h2, h3, h4, h5] at h
            cases hg : n.groups with
            | none => simp [hg] at h
            | some g =>
              simp only [hg] at h
              by_cases h6 : (g ≠ n.c && g = n.sLen && g = n.bLen) = true
              · simp only [h6, if_true] at h
                injection h with h
                refine ⟨g, rfl, h.symm, ?_⟩
                have hx : n.xVis = .known := by cases hxv : n.xVis <;> simp_all
                simp at h1 h6
                exact ⟨h1.1.1, h1.1.2, h1.2, hx, h6.1.1, h6.1.2, h6.2⟩
              · exfalso
                simp at h6
                have hc : ¬ ((¬g = n.c ∧ g = n.sLen) ∧ g = n.bLen) := fun hh => (h6 hh.1.1 hh.1.2) hh.2
                simp [hc] at h

theorem gn_ne_noAdapter (n : GN) : groupnormalization_20_21 (.groupNorm n) ≠ .noAdapter := by
  intro h
  unfold groupnormalization_20_21 at h
  by_cases h1 : (!(n.hasX && n.hasScale && n.hasBias)) = true
  · simp [h1] at h
  · simp only [h1] at h
    by_cases h2 : n.xVis = .missing
    · simp [h2] at h
    · by_cases h3 : n.xVis = .symbolic
      · simp [h3] at h
      · by_cases h4 : (n.sVis = .missing || n.bVis = .missing) = true
        · simp [h2, h3, h4] at h
        · by_cases h5 : (n.sVis = .symbolic || n.bVis = .symbolic) = true
          · simp [h2, h3, h4, h5] at h
          · simp only [h2, h3, h4, h5] at h
            cases hg : n.groups with
            | none => simp [hg] at h
            | some g =>
              simp only [hg] at h
              simp at h
              split at h <;> cases h

/-- Every replacement keeps exactly one non-auxiliary node (the rewritten operator). -/
theorem replaced_one_principal {op : Op} {v : Nat} {news : List Op} (h : adapt op v = .replaced news) :
    pmOps (fun _ _ => ()) (v + 1) news = pmOps (fun _ _ => ()) v [op] := by
  cases op with
  | plain n => simp [adapt] at h
  | const s is => simp [adapt] at h
  | call f => simp [adapt] at h
  | gridSample mode align pad =>
    simp only [adapt] at h
    split at h
    · simp only [gridsample_19_20] at h
      split at h
      · injection h with h; subst h; simp [pmOps, Op.isAux]
      · split at h
        · injection h with h; subst h; simp [pmOps, Op.isAux]
        · cases h
    · cases h
  | dft axis inv one hasLen axisIn rank =>
    simp only [adapt] at h
    split at h
    · simp only [dft_19_20] at h
      injection h with h; subst h; simp [pmOps, Op.isAux]
    · cases h
  | groupNorm n =>
    simp only [adapt] at h
    split at h
    · obtain ⟨g, _, hn, _⟩ := gn_replaced h
      subst hn
      simp [gnReplacement, pmOps, Op.isAux]
    · cases h

/-- After a replacement at `v`, no adapter fires on the new nodes at any later version. -/
theorem children_quiet {op : Op} {v : Nat} {news : List Op} (h : adapt op v = .replaced news) :
    ∀ o ∈ news, ∀ v', v < v' → adapt o v' = .noAdapter := by
  intro o ho v' hv
  cases op with
  | plain n => simp [adapt] at h
  | const s is => simp [adapt] at h
  | call f => simp [adapt] at h
  | gridSample mode align pad =>
    simp only [adapt] at h
    split at h
    · subst_vars
      simp only [gridsample_19_20] at h
      split at h
      · injection h with h; subst h; simp at ho; subst ho; simp [adapt]; omega
      · split at h
        · injection h with h; subst h; simp at ho; subst ho; simp [adapt]; omega
        · cases h
    · cases h
  | dft axis inv one hasLen axisIn rank =>
    simp only [adapt] at h
    split at h
    · subst_vars
      simp only [dft_19_20] at h
      injection h with h; subst h
      simp at ho
      rcases ho with ho | ho <;> subst ho <;> simp [adapt]; omega
    · cases h
  | groupNorm n =>
    simp only [adapt] at h
    split at h
    · subst_vars
      obtain ⟨g, _, hn, _⟩ := gn_replaced h
      subst hn
      simp only [gnReplacement, List.mem_cons, List.mem_nil_iff, or_false] at ho
      rcases ho with ho | ho | ho | ho | ho | ho | ho | ho | ho | ho <;> subst ho <;> simp [adapt]; omega
    · cases h

theorem pmOps_cons {β} (μ : Op → Nat → β) (v : Nat) (o : Op) (os : List Op) :
    pmOps μ v (o :: os) = pmOps μ v [o] ++ pmOps μ v os := by
  simp only [pmOps]; split <;> simp

theorem pmOps_flatMap {β} (μ : Op → Nat → β) (w w' : Nat) (f : Op → List Leaf) (news : List Op)
    (h : ∀ o ∈ news, pmOps μ w ((f o).map (·.op)) = pmOps μ w' [o]) :
    pmOps μ w ((news.flatMap f).map (·.op)) = pmOps μ w' news := by
  induction news with
  | nil => rfl
  | cons o os ih =>
    rw [List.flatMap_cons, List.map_append, pmOps_append, pmOps_cons μ w' o os,
      h o (List.mem_cons_self ..), ih (fun o' ho' => h o' (List.mem_cons_of_mem _ ho'))]

theorem good_of_quiet {β} (μ : Op → Nat → β) {o : Op} {v : Nat} (h : adapt o v = .noAdapter) : Good μ o v := by
  unfold Good; rw [h]; trivial

/-- The step loop on a node without subgraphs: every resulting node carries the stamp `v+k`, and the
non-auxiliary nodes read at `v+k` as the node read at `v`, provided every step taken is good. -/
theorem leafSteps_spec {β} (μ : Op → Nat → β) (hμ : Mono μ) :
    ∀ (k v : Nat) (l : Leaf), (∀ v', v ≤ v' → v' < v + k → Good μ l.op v') →
      (∀ l' ∈ leafSteps k v l, (k = 0 → l' = l) ∧ (0 < k → l'.version = some (v + k)) ∧
          (l.dflt = true → l'.dflt = true) ∧ (l.refAttr = false → l'.refAttr = false)) ∧
      pmOps μ (v + k) ((leafSteps k v l).map (·.op)) = pmOps μ v [l.op] := by
  intro k
  induction k with
  | zero =>
    intro v l _
    simp [leafSteps]
  | succ k ih =>
    intro v l hgood
    have hg : Good μ l.op v := hgood v (Nat.le_refl _) (by omega)
    have hv : v + (k + 1) = v + 1 + k := by omega
    unfold Good at hg
    unfold leafSteps
    cases hA : adapt l.op v with
    | raised => rw [hA] at hg; exact hg.elim
    | noAdapter =>
      simp only []
      have := ih (v + 1) { l with version := some (v + 1) } (fun v' h1 h2 => hgood v' (by omega) (by omega))
      obtain ⟨hm, hp⟩ := this
      refine ⟨?_, ?_⟩
      · intro l' hl'
        obtain ⟨a, b, c, d⟩ := hm l' hl'
        refine ⟨by omega, fun _ => ?_, c, d⟩
        by_cases hk : k = 0
        · rw [a hk]; simp [hk]
        · rw [b (by omega)]; congr 1; omega
      · rw [hv, hp]; simp only [pmOps]; split <;> simp [hμ _ _ hA]
    | retNone =>
      rw [hA] at hg
      simp only []
      have := ih (v + 1) { l with version := some (v + 1) } (fun v' h1 h2 => hgood v' (by omega) (by omega))
      obtain ⟨hm, hp⟩ := this
      refine ⟨?_, ?_⟩
      · intro l' hl'
        obtain ⟨a, b, c, d⟩ := hm l' hl'
        refine ⟨by omega, fun _ => ?_, c, d⟩
        by_cases hk : k = 0
        · rw [a hk]; simp [hk]
        · rw [b (by omega)]; congr 1; omega
      · rw [hv, hp]; simp only [pmOps]; split <;> simp [hg]
    | replaced news =>
      rw [hA] at hg
      simp only []
      have hq := children_quiet hA
      have hchild : ∀ o ∈ news, _ := fun o ho =>
        ih (v + 1) (newLeaf o (v + 1)) (fun v' h1 _ => good_of_quiet μ (hq o ho v' (by omega)))
      refine ⟨?_, ?_⟩
      · intro l' hl'
        rw [List.mem_flatMap] at hl'
        obtain ⟨o, ho, hl'⟩ := hl'
        obtain ⟨a, b, c, d⟩ := (hchild o ho).1 l' hl'
        refine ⟨by omega, fun _ => ?_, fun _ => ?_, fun _ => ?_⟩
        · by_cases hk : k = 0
          · rw [a hk]; simp [hk, newLeaf]
          · rw [b (by omega)]; congr 1; omega
        · exact c (by simp [newLeaf])
        · exact d (by simp [newLeaf])
      · rw [hv, pmOps_flatMap μ (v + 1 + k) (v + 1) _ news (fun o ho => (hchild o ho).2), hg]

/-- Steps for which no adapter is registered never change what a node means (the operator forms of
GridSample change only at 19→20, of DFT at 19→20, of GroupNormalization at 20→21). -/
theorem meaning_mono_lemma : Mono Op.meaning := by
  intro op v h
  cases op with
  | plain n => rfl
  | const s is => rfl
  | call f => rfl
  | gridSample mode align pad =>
    have hv : v ≠ 19 := by
      intro hv; subst hv
      simp only [adapt, if_true, gridsample_19_20] at h
      split at h <;> (try split at h) <;> cases h
    by_cases hle : v ≤ 19
    · have hle' : v + 1 ≤ 19 := by omega
      simp [Op.meaning, gsInterp, hle, hle']
    · have hle' : ¬ v + 1 ≤ 19 := by omega
      simp [Op.meaning, gsInterp, hle, hle']
  | dft axis inv one hasLen axisIn rank =>
    have hv : v ≠ 19 := by
      intro hv; subst hv
      simp only [adapt, if_true, dft_19_20] at h
      cases h
    by_cases hle : v ≤ 19
    · have hle' : v + 1 ≤ 19 := by omega
      simp [Op.meaning, hle, hle']
    · have hle' : ¬ v + 1 ≤ 19 := by omega
      simp [Op.meaning, hle, hle']
  | groupNorm n =>
    have hv : v ≠ 20 := by
      intro hv; subst hv
      simp only [adapt, if_true] at h
      exact gn_ne_noAdapter n h
    by_cases hle : v ≤ 20
    · have hle' : v + 1 ≤ 20 := by omega
      simp [Op.meaning, hle, hle']
    · have hle' : ¬ v + 1 ≤ 20 := by omega
      simp [Op.meaning, hle, hle']

theorem pmLeaves_append {β} (μ : Op → Nat → β) (d : Nat) (a b : List Leaf) :
    pmLeaves μ d (a ++ b) = pmLeaves μ d a ++ pmLeaves μ d b := by
  induction a with
  | nil => rfl
  | cons o os ih => simp only [List.cons_append, pmLeaves]; split <;> simp [ih]

theorem pmLeaves_eq_pmOps {β} (μ : Op → Nat → β) (d w : Nat) (ls : List Leaf)
    (h : ∀ l ∈ ls, l.dflt = true ∧ l.eff d = w) :
    pmLeaves μ d ls = pmOps μ w (ls.map (·.op)) := by
  induction ls with
  | nil => rfl
  | cons l ls ih =>
    have := h l (List.mem_cons_self ..)
    simp only [pmLeaves, List.map_cons, pmOps, Leaf.readAt, this.1, this.2, if_true,
      ih (fun l' hl' => h l' (List.mem_cons_of_mem _ hl'))]

/-- What holds of every node after its graph has been visited with default `s` and target `t`. -/
structure LeafPost (s t : Nat) (l : Leaf) : Prop where
  effOld : l.dflt = true → l.eff s = t
  effNew : l.dflt = true → l.eff t = t

theorem eff_of_version {l : Leaf} {d w : Nat} (h : l.version = some w) : l.eff d = w := by
  simp [Leaf.eff, h]

theorem eff_new_of_old {l : Leaf} {s t : Nat} (h : l.eff s = t) : l.eff t = t := by
  unfold Leaf.eff at *
  cases hv : l.version with
  | none => rfl
  | some w => rw [hv] at h; exact h

theorem visitLeaf_spec {β} (μ : Op → Nat → β) (hμ : Mono μ) (s t : Nat) (l : Leaf) (hp : LeafPre μ s t l) :
    (visitLeaf (some s) t l).2 = none ∧
    (∀ l' ∈ (visitLeaf (some s) t l).1, LeafPre μ s t l' ∧ LeafPost s t l') ∧
    pmLeaves μ t (visitLeaf (some s) t l).1 = pmLeaves μ s [l] := by
  unfold visitLeaf
  by_cases hd : l.dflt = true
  · have hver : l.version.or (some s) = some (l.eff s) := by
      unfold Leaf.eff; cases l.version <;> rfl
    have hr := hp.noRef hd
    have hle := hp.le hd
    simp only [hd, hver, hr, Bool.not_true, Bool.false_eq_true, if_false, Nat.not_lt.mpr hle]
    have hk : l.eff s + (t - l.eff s) = t := by omega
    obtain ⟨hm, hpm⟩ := leafSteps_spec μ hμ (t - l.eff s) (l.eff s) l
      (fun v' h1 h2 => hp.good hd v' h1 (by omega))
    have hall : ∀ l' ∈ leafSteps (t - l.eff s) (l.eff s) l, l'.eff s = t := by
      intro l' hl'
      obtain ⟨a, b, _, _⟩ := hm l' hl'
      by_cases hk0 : t - l.eff s = 0
      · rw [a hk0]; omega
      · have hv := b (by omega); rw [hk] at hv; exact eff_of_version hv
    refine ⟨trivial, ?_, ?_⟩
    · intro l' hl'
      obtain ⟨a, b, c, d⟩ := hm l' hl'
      have he := hall l' hl'
      refine ⟨⟨fun _ => d hr, fun _ => by omega, fun _ v' h1 h2 => ?_⟩,
          ⟨fun _ => he, fun _ => eff_new_of_old he⟩⟩
      omega
    · rw [pmLeaves_eq_pmOps μ t t _ (fun l' hl' => ⟨(hm l' hl').2.2.1 hd, eff_new_of_old (hall l' hl')⟩),
        pmLeaves_eq_pmOps μ s (l.eff s) [l] (by simp [hd])]
      rw [← hk] at hpm ⊢
      simpa using hpm
  · have hd' : l.dflt = false := by cases h : l.dflt <;> simp_all
    simp only [hd', Bool.not_false, if_true]
    refine ⟨trivial, ?_, ?_⟩
    · intro l' hl'
      have hl : l' = l := by simpa using hl'
      rw [hl]
      exact ⟨hp, ⟨fun h => (by rw [hd'] at h; cases h), fun h => (by rw [hd'] at h; cases h)⟩⟩
    · simp only [pmLeaves, Leaf.readAt, hd']; rfl

theorem visitLeaves_spec {β} (μ : Op → Nat → β) (hμ : Mono μ) (s t : Nat) :
    ∀ (ls : List Leaf), (∀ l ∈ ls, LeafPre μ s t l) →
    (visitLeaves (some s) t ls).2 = none ∧
    (∀ l' ∈ (visitLeaves (some s) t ls).1, LeafPre μ s t l' ∧ LeafPost s t l') ∧
    pmLeaves μ t (visitLeaves (some s) t ls).1 = pmLeaves μ s ls := by
  intro ls
  induction ls with
  | nil => intro _; simp [visitLeaves, pmLeaves]
  | cons l ls ih =>
    intro hp
    obtain ⟨h1, h2, h3⟩ := visitLeaf_spec μ hμ s t l (hp l (List.mem_cons_self ..))
    obtain ⟨i1, i2, i3⟩ := ih (fun l' hl' => hp l' (List.mem_cons_of_mem _ hl'))
    unfold visitLeaves
    rcases hv : visitLeaf (some s) t l with ⟨out, e⟩
    rw [hv] at h1 h2 h3
    simp only at h1 h2 h3
    subst h1
    rcases hw : visitLeaves (some s) t ls with ⟨out', e'⟩
    rw [hw] at i1 i2 i3
    simp only at i1 i2 i3
    subst i1
    simp only []
    refine ⟨trivial, ?_, ?_⟩
    · intro l' hl'
      rcases List.mem_append.mp hl' with h | h
      · exact h2 l' h
      · exact i2 l' h
    · rw [pmLeaves_append, h3, i3, ← pmLeaves_append]; rfl

theorem visitBodies_spec {β} (μ : Op → Nat → β) (hμ : Mono μ) (s t : Nat) :
    ∀ (bs : List (List Leaf)), (∀ b ∈ bs, ∀ l ∈ b, LeafPre μ s t l) →
    (visitBodies (some s) t bs).2 = none ∧
    (∀ b ∈ (visitBodies (some s) t bs).1, ∀ l' ∈ b, LeafPre μ s t l' ∧ LeafPost s t l') ∧
    pmLeaves μ t (visitBodies (some s) t bs).1.flatten = pmLeaves μ s bs.flatten ∧
    ((visitBodies (some s) t bs).1 = [] ↔ bs = []) := by
  intro bs
  induction bs with
  | nil => intro _; simp [visitBodies, pmLeaves]
  | cons b bs ih =>
    intro hp
    obtain ⟨h1, h2, h3⟩ := visitLeaves_spec μ hμ s t b (hp b (List.mem_cons_self ..))
    obtain ⟨i1, i2, i3, _⟩ := ih (fun b' hb' => hp b' (List.mem_cons_of_mem _ hb'))
    unfold visitBodies
    rcases hv : visitLeaves (some s) t b with ⟨out, e⟩
    rw [hv] at h1 h2 h3
    simp only at h1 h2 h3
    subst h1
    rcases hw : visitBodies (some s) t bs with ⟨out', e'⟩
    rw [hw] at i1 i2 i3
    simp only at i1 i2 i3
    subst i1
    simp only []
    refine ⟨trivial, ?_, ?_, by simp⟩
    · intro b' hb'
      rcases List.mem_cons.mp hb' with h | h
      · subst h; exact h2
      · exact i2 b' h
    · rw [List.flatten_cons, List.flatten_cons, pmLeaves_append, pmLeaves_append, h3, i3]

theorem pmLeaves_post {β} (μ : Op → Nat → β) (s t : Nat) (ls : List Leaf)
    (h : ∀ l ∈ ls, LeafPre μ s t l ∧ LeafPost s t l) : pmLeaves μ s ls = pmLeaves μ t ls := by
  induction ls with
  | nil => rfl
  | cons l ls ih =>
    have ih' := ih (fun l' hl' => h l' (List.mem_cons_of_mem _ hl'))
    obtain ⟨hp, hq⟩ := h l (List.mem_cons_self ..)
    simp only [pmLeaves, ih']
    split
    · rfl
    · by_cases hd : l.dflt = true
      · simp only [Leaf.readAt, hd, if_true, hq.effOld hd, hq.effNew hd]
      · have hd' : l.dflt = false := by cases h : l.dflt <;> simp_all
        simp only [Leaf.readAt, hd']; rfl

def leafNode (l : Leaf) : Node := { leaf := l, bodies := [] }

theorem nodeSteps_nobodies (d : Option Nat) (t : Nat) :
    ∀ (k v : Nat) (l : Leaf), nodeSteps d t k v (leafNode l) = (leafSteps k v l).map leafNode := by
  intro k
  induction k with
  | zero => intro v l; rfl
  | succ k ih =>
    intro v l
    unfold nodeSteps leafSteps
    simp only [leafNode]
    cases hA : adapt l.op v with
    | raised => simpa [leafNode] using ih (v + 1) l
    | replaced news =>
      simp only [List.map_flatMap]
      congr 1
      funext o
      simpa [leafNode, newNode] using ih (v + 1) (newLeaf o (v + 1))
    | noAdapter => simpa [leafNode, visitBodies] using ih (v + 1) { l with version := some (v + 1) }
    | retNone => simpa [leafNode, visitBodies] using ih (v + 1) { l with version := some (v + 1) }

/-- The step loop on a control-flow node (`k+1` steps): the node is stamped, its subgraphs are converted by
the first step and left alone by the later ones. -/
theorem nodeSteps_ctrl {β} (μ : Op → Nat → β) (hμ : Mono μ) (s t : Nat) :
    ∀ (k v : Nat) (n : Node) (name : String), n.leaf.op = .plain name →
      (∀ b ∈ n.bodies, ∀ l ∈ b, LeafPre μ s t l) →
      ∃ bs', nodeSteps (some s) t (k + 1) v n = [{ leaf := { n.leaf with version := some (v + k + 1) }, bodies := bs' }] ∧
        (∀ b ∈ bs', ∀ l ∈ b, LeafPre μ s t l ∧ LeafPost s t l) ∧
        pmLeaves μ t bs'.flatten = pmLeaves μ s n.bodies.flatten := by
  intro k
  induction k with
  | zero =>
    intro v n name hop hb
    obtain ⟨h1, h2, h3, _⟩ := visitBodies_spec μ hμ s t n.bodies hb
    unfold nodeSteps
    have hA : adapt n.leaf.op v = .noAdapter := by rw [hop]; rfl
    rw [hA]
    rcases hv : visitBodies (some s) t n.bodies with ⟨bs, e⟩
    rw [hv] at h1 h2 h3
    simp only at h1 h2 h3
    subst h1
    exact ⟨bs, by simp [nodeSteps], h2, h3⟩
  | succ k ih =>
    intro v n name hop hb
    obtain ⟨h1, h2, h3, _⟩ := visitBodies_spec μ hμ s t n.bodies hb
    unfold nodeSteps
    have hA : adapt n.leaf.op v = .noAdapter := by rw [hop]; rfl
    rw [hA]
    rcases hv : visitBodies (some s) t n.bodies with ⟨bs, e⟩
    rw [hv] at h1 h2 h3
    simp only at h1 h2 h3
    subst h1
    simp only []
    obtain ⟨bs', j1, j2, j3⟩ := ih (v + 1) { leaf := { n.leaf with version := some (v + 1) }, bodies := bs } name
      hop (fun b hb' l hl => (h2 b hb' l hl).1)
    refine ⟨bs', ?_, j2, ?_⟩
    · rw [j1]; simp only [List.cons.injEq, and_true]; congr 2; congr 1; omega
    · rw [j3]; simp only []
      rw [pmLeaves_post μ s t bs.flatten (fun l hl => by
        obtain ⟨b, hb', hl'⟩ := List.mem_flatten.mp hl
        exact h2 b hb' l hl'), h3]

structure NodePost (s t : Nat) (n : Node) : Prop where
  leaf : LeafPost s t n.leaf
  bodies : ∀ b ∈ n.bodies, ∀ l ∈ b, LeafPost s t l

theorem mono_plain {β} (μ : Op → Nat → β) (hμ : Mono μ) (name : String) (a j : Nat) :
    μ (.plain name) (a + j) = μ (.plain name) a := by
  induction j with
  | zero => rfl
  | succ j ih => rw [← ih, ← Nat.add_assoc]; exact hμ _ _ rfl

theorem visitNode_leafNode (d : Option Nat) (t : Nat) (l : Leaf) :
    visitNode d t (leafNode l) = ((visitLeaf d t l).1.map leafNode, (visitLeaf d t l).2) := by
  rcases l with ⟨dflt, op, version, refAttr⟩
  unfold visitNode visitLeaf
  simp only [leafNode]
  cases dflt with
  | false => simp [leafNode]
  | true =>
    simp only [Bool.not_true, Bool.false_eq_true, if_false]
    cases version.or d with
    | none => simp [leafNode]
    | some nv =>
      simp only []
      cases refAttr with
      | true => simp [leafNode]
      | false =>
        simp only [Bool.false_eq_true, if_false]
        by_cases h : t < nv
        · simp [h, leafNode]
        · simp only [h, if_false, Prod.mk.injEq, and_true]
          exact nodeSteps_nobodies d t _ _ _

theorem leaves_map_leafNode (ls : List Leaf) : (ls.map leafNode).flatMap Node.leaves = ls := by
  induction ls with
  | nil => rfl
  | cons l ls ih => simp [List.flatMap_cons, Node.leaves, leafNode, ih]

theorem visitNode_spec {β} (μ : Op → Nat → β) (hμ : Mono μ) (s t : Nat) (n : Node) (hp : NodePre μ s t n) :
    (visitNode (some s) t n).2 = none ∧
    (∀ n' ∈ (visitNode (some s) t n).1, NodePost s t n') ∧
    pmNodes μ t (visitNode (some s) t n).1 = pmNodes μ s [n] := by
  by_cases hb : n.bodies = []
  · -- a node without subgraphs
    have hn : n = leafNode n.leaf := by cases n; simp_all [leafNode]
    rw [hn, visitNode_leafNode]
    obtain ⟨h1, h2, h3⟩ := visitLeaf_spec μ hμ s t n.leaf hp.leaf
    refine ⟨h1, ?_, ?_⟩
    · intro n' hn'
      obtain ⟨l', hl', rfl⟩ := List.mem_map.mp hn'
      exact ⟨(h2 l' hl').2, by simp [leafNode]⟩
    · simp only [pmNodes, leaves_map_leafNode, h3]
      simp [Node.leaves, leafNode]
  · obtain ⟨name, hop⟩ := hp.ctrl hb
    have hd : n.leaf.dflt = true := by
      cases h : n.leaf.dflt with
      | true => rfl
      | false => exact absurd (hp.customFlat h) hb
    have hver : n.leaf.version.or (some s) = some (n.leaf.eff s) := by
      unfold Leaf.eff; cases n.leaf.version <;> rfl
    have hr := hp.leaf.noRef hd
    have hle := hp.leaf.le hd
    unfold visitNode
    simp only [hd, hver, hr, Bool.not_true, Bool.false_eq_true, if_false, Nat.not_lt.mpr hle]
    have hall : ∀ l ∈ n.bodies.flatten, LeafPre μ s t l := fun l hl => by
      obtain ⟨b, hb', hl'⟩ := List.mem_flatten.mp hl
      exact hp.bodies b hb' l hl'
    cases hk : t - n.leaf.eff s with
    | zero =>
      have het : n.leaf.eff s = t := by omega
      have hpost : ∀ l ∈ n.leaf :: n.bodies.flatten, LeafPre μ s t l ∧ LeafPost s t l := by
        intro l hl
        rcases List.mem_cons.mp hl with h | h
        · subst h; exact ⟨hp.leaf, ⟨fun _ => het, fun _ => eff_new_of_old het⟩⟩
        · obtain ⟨b, hb', hl'⟩ := List.mem_flatten.mp h
          have he : l.dflt = true → l.eff s = t := fun hdl => by rw [hp.sameEff hd b hb' l hl' hdl, het]
          exact ⟨hp.bodies b hb' l hl', ⟨he, fun hdl => eff_new_of_old (he hdl)⟩⟩
      refine ⟨trivial, ?_, ?_⟩
      · intro n' hn'
        have : n' = n := by simpa [nodeSteps] using hn'
        subst this
        exact ⟨(hpost _ (List.mem_cons_self ..)).2, fun b hb' l hl =>
          (hpost l (List.mem_cons_of_mem _ (List.mem_flatten.mpr ⟨b, hb', hl⟩))).2⟩
      · simp only [nodeSteps, pmNodes, List.flatMap_cons, List.flatMap_nil, List.append_nil, Node.leaves]
        exact (pmLeaves_post μ s t _ hpost).symm
    | succ k =>
      obtain ⟨bs', j1, j2, j3⟩ := nodeSteps_ctrl μ hμ s t k (n.leaf.eff s) n name hop hp.bodies
      have hst : n.leaf.eff s + k + 1 = t := by omega
      rw [j1, hst]
      refine ⟨trivial, ?_, ?_⟩
      · intro n' hn'
        rw [List.mem_singleton] at hn'
        subst hn'
        exact ⟨⟨fun _ => eff_of_version rfl, fun _ => eff_of_version rfl⟩, fun b hb' l hl => (j2 b hb' l hl).2⟩
      · simp only [pmNodes, List.flatMap_cons, List.flatMap_nil, List.append_nil, Node.leaves, pmLeaves, hop, j3]
        split
        · rfl
        · congr 1
          have := mono_plain μ hμ name (n.leaf.eff s) (k + 1)
          rw [show n.leaf.eff s + (k + 1) = t by omega] at this
          simpa [Leaf.eff, Leaf.readAt, hd] using this

theorem visitGraph_spec {β} (μ : Op → Nat → β) (hμ : Mono μ) (s t : Nat) :
    ∀ (ns : List Node), (∀ n ∈ ns, NodePre μ s t n) →
    (visitGraph (some s) t ns).2 = none ∧
    (∀ n' ∈ (visitGraph (some s) t ns).1, NodePost s t n') ∧
    pmNodes μ t (visitGraph (some s) t ns).1 = pmNodes μ s ns := by
  intro ns
  induction ns with
  | nil => intro _; simp [visitGraph, pmNodes, pmLeaves]
  | cons n ns ih =>
    intro hp
    obtain ⟨h1, h2, h3⟩ := visitNode_spec μ hμ s t n (hp n (List.mem_cons_self ..))
    obtain ⟨i1, i2, i3⟩ := ih (fun n' hn' => hp n' (List.mem_cons_of_mem _ hn'))
    unfold visitGraph
    rcases hv : visitNode (some s) t n with ⟨out, e⟩
    rw [hv] at h1 h2 h3
    simp only at h1 h2 h3
    subst h1
    rcases hw : visitGraph (some s) t ns with ⟨out', e'⟩
    rw [hw] at i1 i2 i3
    simp only at i1 i2 i3
    subst i1
    simp only []
    refine ⟨trivial, ?_, ?_⟩
    · intro n' hn'
      rcases List.mem_append.mp hn' with h | h
      · exact h2 n' h
      · exact i2 n' h
    · simp only [pmNodes] at h3 i3 ⊢
      rw [List.flatMap_append, pmLeaves_append, h3, i3, ← pmLeaves_append]
      simp [List.flatMap_cons]

theorem SrcLeaf.toPre {β} {μ : Op → Nat → β} {s t : Nat} {l : Leaf} (h : SrcLeaf μ s l) (hst : s ≤ t) :
    LeafPre μ s t l :=
  ⟨h.noRef, fun hd => by rw [h.ver hd]; exact hst, fun hd v' h1 _ => h.good hd v' (by rw [h.ver hd] at h1; exact h1)⟩

theorem SrcNode.toPre {β} {μ : Op → Nat → β} {s t : Nat} {n : Node} (h : SrcNode μ s n) (hst : s ≤ t) :
    NodePre μ s t n :=
  ⟨h.leaf.toPre hst, h.ctrl, fun b hb l hl => (h.bodies b hb l hl).toPre hst, h.customFlat,
    fun hd b hb l hl hdl => by rw [(h.bodies b hb l hl).ver hdl, h.leaf.ver hd]⟩

/-- A downgrade is refused at the first default-domain node, before anything was touched. -/
theorem visitGraph_downgrade {β} (μ : Op → Nat → β) (s t : Nat) (hts : t < s) :
    ∀ (ns : List Node), (∀ n ∈ ns, SrcNode μ s n) →
      (visitGraph (some s) t ns).1 = ns ∧
      ((visitGraph (some s) t ns).2 = none → ∀ n ∈ ns, n.leaf.dflt = false) := by
  intro ns
  induction ns with
  | nil => intro _; simp [visitGraph]
  | cons n ns ih =>
    intro hp
    obtain ⟨i1, i2⟩ := ih (fun n' hn' => hp n' (List.mem_cons_of_mem _ hn'))
    have hn := hp n (List.mem_cons_self ..)
    unfold visitGraph visitNode
    cases hd : n.leaf.dflt with
    | false =>
      simp only [Bool.not_false, if_true]
      rcases hw : visitGraph (some s) t ns with ⟨out', e'⟩
      rw [hw] at i1 i2
      simp only at i1 i2 ⊢
      subst i1
      refine ⟨rfl, fun he n' hn' => ?_⟩
      rcases List.mem_cons.mp hn' with h | h
      · rw [h]; exact hd
      · exact i2 he n' h
    | true =>
      have hver : n.leaf.version.or (some s) = some (n.leaf.eff s) := by
        unfold Leaf.eff; cases n.leaf.version <;> rfl
      simp only [Bool.not_true, Bool.false_eq_true, if_false, hver, hn.leaf.noRef hd, hn.leaf.ver hd, hts, if_true]
      exact ⟨rfl, fun h => by cases h⟩

theorem setNodes_self (m : Model) : { m with nodes := m.nodes } = m := by cases m; rfl

theorem allAt_of_post {s t : Nat} {ns : List Node} (h : ∀ n ∈ ns, NodePost s t n) : AllAt t ns := by
  intro n hn l hl hd
  rcases List.mem_cons.mp hl with h' | h'
  · subst h'; exact (h n hn).leaf.effNew hd
  · obtain ⟨b, hb, hl'⟩ := List.mem_flatten.mp h'
    exact ((h n hn).bodies b hb l hl').effNew hd

theorem pmNodes_custom {β} (μ : Op → Nat → β) (s t : Nat) (ns : List Node)
    (h : ∀ n ∈ ns, n.leaf.dflt = false ∧ n.bodies = []) : pmNodes μ t ns = pmNodes μ s ns := by
  induction ns with
  | nil => rfl
  | cons n ns ih =>
    have ih' := ih (fun n' hn' => h n' (List.mem_cons_of_mem _ hn'))
    obtain ⟨h1, h2⟩ := h n (List.mem_cons_self ..)
    simp only [pmNodes, List.flatMap_cons, Node.leaves, h2, List.flatten_nil, List.cons_append, List.nil_append,
      pmLeaves, Leaf.readAt, h1, Bool.false_eq_true, if_false] at ih' ⊢
    rw [ih']

/-- `_version_converter.convert_version` on a self-consistent model (functions already inlined). -/
theorem nativeConvert_spec {β} (μ : Op → Nat → β) (hμ : Mono μ) (s t : Nat) (m : Model) (h : SelfConsistent μ s m) :
      ((nativeConvert t m).2 = none ∧ (nativeConvert t m).1.declared = some t ∧ (nativeConvert t m).1.aionnx = none ∧
        (nativeConvert t m).1.funcs = [] ∧ AllAt t (nativeConvert t m).1.nodes ∧
        pmNodes μ t (nativeConvert t m).1.nodes = pmNodes μ s m.nodes ∧
        (nativeConvert t m).1.inputs = m.inputs ∧ (nativeConvert t m).1.inits = m.inits)
      ∨ (nativeConvert t m).1 = m := by
  unfold nativeConvert
  split
  · exact Or.inr rfl
  · unfold visitModel
    have hget : getOnnxOpsetVersion m.declared m.aionnx = .ok (some s) := by
      rw [h.declared, h.noAi]; rfl
    rw [hget]
    simp only []
    by_cases hst : s ≤ t
    · obtain ⟨g1, g2, g3⟩ := visitGraph_spec μ hμ s t m.nodes (fun n hn => (h.nodes n hn).toPre hst)
      rcases hv : visitGraph (some s) t m.nodes with ⟨ns, e⟩
      rw [hv] at g1 g2 g3
      simp only at g1 g2 g3
      subst g1
      rw [h.inlined]
      simp only [visitFuncs, Model.setOpset]
      exact Or.inl ⟨(by first | trivial | rfl), (by first | trivial | rfl), (by first | trivial | rfl), (by first | trivial | rfl), allAt_of_post g2, g3, (by first | trivial | rfl), (by first | trivial | rfl)⟩
    · obtain ⟨g1, g2⟩ := visitGraph_downgrade μ s t (by omega) m.nodes h.nodes
      rcases hv : visitGraph (some s) t m.nodes with ⟨ns, e⟩
      rw [hv] at g1 g2
      simp only at g1 g2
      subst g1
      cases e with
      | some e => simp only []; exact Or.inr (by first | trivial | exact setNodes_self m)
      | none =>
        have hc := g2 rfl
        rw [h.inlined]
        simp only [visitFuncs, Model.setOpset]
        refine Or.inl ⟨(by first | trivial | rfl), (by first | trivial | rfl), (by first | trivial | rfl), (by first | trivial | rfl), ?_, ?_, (by first | trivial | rfl), (by first | trivial | rfl)⟩
        · intro n hn l hl hd
          have hflat := (h.nodes n hn).customFlat (hc n hn)
          simp only [Node.leaves, hflat, List.flatten_nil, List.mem_singleton] at hl
          rw [hl, hc n hn] at hd; cases hd
        · exact pmNodes_custom μ s t m.nodes (fun n hn => ⟨hc n hn, (h.nodes n hn).customFlat (hc n hn)⟩)

/-- `_ConvertVersionPassRequiresInline.call` on a self-consistent model. -/
theorem requiresInline_spec {β} (μ : Op → Nat → β) (hμ : Mono μ) (s t : Nat) (fb : Fallback) (capi : CApi)
    (m : Model) (h : SelfConsistent μ s m) :
    ((requiresInlineCall fb t capi m).2 = none ∧
      (requiresInlineCall fb t capi m).1.declared = some t ∧
      (requiresInlineCall fb t capi m).1.aionnx = none ∧
      (requiresInlineCall fb t capi m).1.funcs = [] ∧
      AllAt t (requiresInlineCall fb t capi m).1.nodes ∧
      ((pmNodes μ t (requiresInlineCall fb t capi m).1.nodes = pmNodes μ s m.nodes ∧
        (requiresInlineCall fb t capi m).1.inputs = m.inputs ∧ (requiresInlineCall fb t capi m).1.inits = m.inits) ∨
       (∃ ns, capi m t = some ns ∧ (requiresInlineCall fb t capi m).1 = recoverFallback m t ns)))
    ∨ (requiresInlineCall fb t capi m).1 = m := by
  have hnative := nativeConvert_spec μ hμ s t m h
  unfold requiresInlineCall
  split
  · exact Or.inr rfl
  · split
    · rcases hnative with ⟨a, b, c, d, e, f, g, i⟩ | hn
      · exact Or.inl ⟨a, b, c, d, e, Or.inl ⟨f, g, i⟩⟩
      · exact Or.inr hn
    · split
      · exact Or.inr rfl
      · cases hc : capi m t with
        | none => exact Or.inr rfl
        | some ns =>
          refine Or.inl ⟨rfl, rfl, rfl, ?_, ?_, Or.inr ⟨ns, rfl, rfl⟩⟩
          · simp [recoverFallback, h.inlined]
          · intro n hn l hl hd
            simp only [recoverFallback, List.mem_map] at hn
            obtain ⟨n0, _, rfl⟩ := hn
            have : l.version = none := by
              simp only [Node.leaves, eraseNode, List.mem_cons, List.mem_flatten, List.mem_map] at hl
              rcases hl with h' | ⟨b, ⟨b0, _, rfl⟩, hl'⟩
              · rw [h']; rfl
              · obtain ⟨l0, _, rfl⟩ := List.mem_map.mp hl'; rfl
            simp [Leaf.eff, this]

end OV.C10
