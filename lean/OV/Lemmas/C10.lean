import OV.Model.C10VersionConv
/-! Helper lemmas for C10 (core Lean only). -/
namespace OV.C10

theorem pmOps_append {β} (μ : Op → Nat → β) (v : Nat) (a b : List Op) :
    pmOps μ v (a ++ b) = pmOps μ v a ++ pmOps μ v b := by
  induction a with
  | nil => rfl
  | cons o os ih =>
    simp only [List.cons_append, pmOps]
    split <;> simp [ih]

/-- The vis test of the adapter as a proposition. -/
def GN.static (n : GN) : Prop := n.xVis = .known ∧ n.sVis = .known ∧ n.bVis = .known

theorem gn_static_iff (n : GN) : (n.xVis = .known && n.sVis = .known && n.bVis = .known) = true ↔ n.static := by
  unfold GN.static; cases n.xVis <;> cases n.sVis <;> cases n.bVis <;> simp

theorem gn_replaced {n : GN} {news : List Op} (h : groupnormalization_20_21 (.groupNorm n) = .replaced news) :
    n.hasX = true ∧ n.hasScale = true ∧ n.hasBias = true ∧ ∃ g, n.groups = some g ∧
      ((¬ n.static ∧ news = gnDynReplacement n) ∨
       (n.static ∧ news = gnReplacement n g ∧ g ≠ n.c ∧ g = n.sLen ∧ g = n.bLen)) := by
  unfold groupnormalization_20_21 at h
  by_cases h1 : (!(n.hasX && n.hasScale && n.hasBias)) = true
  · simp [h1] at h
  · simp only [h1] at h
    have hin : n.hasX = true ∧ n.hasScale = true ∧ n.hasBias = true := by
      simp at h1; exact ⟨h1.1.1, h1.1.2, h1.2⟩
    cases hg : n.groups with
    | none => simp [hg] at h
    | some g =>
      simp only [hg] at h
      refine ⟨hin.1, hin.2.1, hin.2.2, g, rfl, ?_⟩
      by_cases hs : (n.xVis = .known && n.sVis = .known && n.bVis = .known) = true
      · simp only [hs, Bool.not_true, Bool.false_eq_true, if_false] at h
        by_cases h6 : (g ≠ n.c && g = n.sLen && g = n.bLen) = true
        · simp only [h6, if_true] at h
          injection h with h
          simp at h6
          exact Or.inr ⟨(gn_static_iff n).mp hs, h.symm, h6.1.1, h6.1.2, h6.2⟩
        · exfalso
          simp at h6
          have hc : ¬ ((¬g = n.c ∧ g = n.sLen) ∧ g = n.bLen) := fun hh => (h6 hh.1.1 hh.1.2) hh.2
          simp [hc] at h
      · have hns : ¬ n.static := fun hh => hs ((gn_static_iff n).mpr hh)
        have hs' : (n.xVis = .known && n.sVis = .known && n.bVis = .known) = false := by
          cases hq : (n.xVis = .known && n.sVis = .known && n.bVis = .known) <;> simp_all
        simp only [hs', Bool.not_false, if_true] at h
        injection h with h
        exact Or.inl ⟨hns, h.symm⟩

theorem gn_ne_noAdapter (n : GN) : groupnormalization_20_21 (.groupNorm n) ≠ .noAdapter := by
  intro h
  unfold groupnormalization_20_21 at h
  by_cases h1 : (!(n.hasX && n.hasScale && n.hasBias)) = true
  · simp [h1] at h
  · simp only [h1] at h
    cases hg : n.groups with
    | none => simp [hg] at h
    | some g =>
      simp only [hg] at h
      by_cases hs : (!(n.xVis = .known && n.sVis = .known && n.bVis = .known)) = true
      · simp [hs] at h
      · simp only [hs] at h
        simp at h
        split at h <;> cases h

/-- Every replacement keeps exactly one non-auxiliary node (the rewritten operator). -/
theorem replaced_one_principal {op : Op} {v : Nat} {news : List Op} (h : adapt op v = .replaced news) :
    pmOps (fun _ _ => ()) (v + 1) news = pmOps (fun _ _ => ()) v [op] := by
  cases op with
  | plain n => simp [adapt] at h
  | const s is => simp [adapt] at h
  | call f => simp [adapt] at h
  | gridSample mode align pad =>
    simp only [adapt] at h
    split at h
    · simp only [gridsample_19_20] at h
      split at h
      · injection h with h; subst h; simp [pmOps, Op.isAux]
      · split at h
        · injection h with h; subst h; simp [pmOps, Op.isAux]
        · cases h
    · cases h
  | dft axis inv one hasLen axisIn rank =>
    simp only [adapt] at h
    split at h
    · simp only [dft_19_20] at h
      injection h with h; subst h; simp [pmOps, Op.isAux]
    · cases h
  | groupNorm n =>
    simp only [adapt] at h
    split at h
    · obtain ⟨_, _, _, g, _, hc⟩ := gn_replaced h
      rcases hc with ⟨_, hn⟩ | ⟨_, hn, _⟩
      · subst hn; simp [gnDynReplacement, pmOps, Op.isAux]
      · subst hn; simp [gnReplacement, pmOps, Op.isAux]
    · cases h

/-- After a replacement at `v`, no adapter fires on the new nodes at any later version. -/
theorem children_quiet {op : Op} {v : Nat} {news : List Op} (h : adapt op v = .replaced news) :
    ∀ o ∈ news, ∀ v', v < v' → adapt o v' = .noAdapter := by
  intro o ho v' hv
  cases op with
  | plain n => simp [adapt] at h
  | const s is => simp [adapt] at h
  | call f => simp [adapt] at h
  | gridSample mode align pad =>
    simp only [adapt] at h
    split at h
    · subst_vars
      simp only [gridsample_19_20] at h
      split at h
      · injection h with h; subst h; simp at ho; subst ho; simp [adapt]; omega
      · split at h
        · injection h with h; subst h; simp at ho; subst ho; simp [adapt]; omega
        · cases h
    · cases h
  | dft axis inv one hasLen axisIn rank =>
    simp only [adapt] at h
    split at h
    · subst_vars
      simp only [dft_19_20] at h
      injection h with h; subst h
      simp at ho
      rcases ho with ho | ho <;> subst ho <;> simp [adapt]; omega
    · cases h
  | groupNorm n =>
    simp only [adapt] at h
    split at h
    · subst_vars
      obtain ⟨_, _, _, g, _, hc⟩ := gn_replaced h
      rcases hc with ⟨_, hn⟩ | ⟨_, hn, _⟩
      · subst hn
        simp only [gnDynReplacement, List.mem_cons, List.mem_nil_iff, or_false] at ho
        rcases ho with ho | ho | ho | ho | ho | ho | ho | ho | ho | ho | ho | ho | ho | ho | ho | ho | ho <;>
          subst ho <;> simp [adapt]; omega
      · subst hn
        simp only [gnReplacement, List.mem_cons, List.mem_nil_iff, or_false] at ho
        rcases ho with ho | ho | ho | ho | ho | ho | ho | ho | ho | ho <;> subst ho <;> simp [adapt]; omega
    · cases h

theorem pmOps_cons {β} (μ : Op → Nat → β) (v : Nat) (o : Op) (os : List Op) :
    pmOps μ v (o :: os) = pmOps μ v [o] ++ pmOps μ v os := by
  simp only [pmOps]; split <;> simp

theorem pmOps_flatMap {β} (μ : Op → Nat → β) (w w' : Nat) (f : Op → List Leaf) (news : List Op)
    (h : ∀ o ∈ news, pmOps μ w ((f o).map (·.op)) = pmOps μ w' [o]) :
    pmOps μ w ((news.flatMap f).map (·.op)) = pmOps μ w' news := by
  induction news with
  | nil => rfl
  | cons o os ih =>
    rw [List.flatMap_cons, List.map_append, pmOps_append, pmOps_cons μ w' o os,
      h o (List.mem_cons_self ..), ih (fun o' ho' => h o' (List.mem_cons_of_mem _ ho'))]

theorem good_of_quiet {β} (μ : Op → Nat → β) {o : Op} {v : Nat} (h : adapt o v = .noAdapter) : Good μ o v := by
  unfold Good; rw [h]; trivial

/-- The step loop on a node without subgraphs: every resulting node carries the stamp `v+k`, and the
non-auxiliary nodes read at `v+k` as the node read at `v`, provided every step taken is good. -/
theorem leafSteps_spec {β} (μ : Op → Nat → β) (hμ : Mono μ) :
    ∀ (k v : Nat) (l : Leaf), (∀ v', v ≤ v' → v' < v + k → Good μ l.op v') →
      (∀ l' ∈ leafSteps k v l, (k = 0 → l' = l) ∧ (0 < k → l'.version = some (v + k)) ∧
          (l.dflt = true → l'.dflt = true) ∧ (l.refAttr = false → l'.refAttr = false)) ∧
      pmOps μ (v + k) ((leafSteps k v l).map (·.op)) = pmOps μ v [l.op] := by
  intro k
  induction k with
  | zero =>
    intro v l _
    simp [leafSteps]
  | succ k ih =>
    intro v l hgood
    have hg : Good μ l.op v := hgood v (Nat.le_refl _) (by omega)
    have hv : v + (k + 1) = v + 1 + k := by omega
    unfold Good at hg
    unfold leafSteps
    cases hA : adapt l.op v with
    | raised => rw [hA] at hg; exact hg.elim
    | noAdapter =>
      simp only []
      have := ih (v + 1) { l with version := some (v + 1) } (fun v' h1 h2 => hgood v' (by omega) (by omega))
      obtain ⟨hm, hp⟩ := this
      refine ⟨?_, ?_⟩
      · intro l' hl'
        obtain ⟨a, b, c, d⟩ := hm l' hl'
        refine ⟨by omega, fun _ => ?_, c, d⟩
        by_cases hk : k = 0
        · rw [a hk]; simp [hk]
        · rw [b (by omega)]; congr 1; omega
      · rw [hv, hp]; simp only [pmOps]; split <;> simp [hμ _ _ hA]
    | retNone =>
      rw [hA] at hg
      simp only []
      have := ih (v + 1) { l with version := some (v + 1) } (fun v' h1 h2 => hgood v' (by omega) (by omega))
      obtain ⟨hm, hp⟩ := this
      refine ⟨?_, ?_⟩
      · intro l' hl'
        obtain ⟨a, b, c, d⟩ := hm l' hl'
        refine ⟨by omega, fun _ => ?_, c, d⟩
        by_cases hk : k = 0
        · rw [a hk]; simp [hk]
        · rw [b (by omega)]; congr 1; omega
      · rw [hv, hp]; simp only [pmOps]; split <;> simp [hg]
    | replaced news =>
      rw [hA] at hg
      simp only []
      have hq := children_quiet hA
      have hchild : ∀ o ∈ news, _ := fun o ho =>
        ih (v + 1) (newLeaf o (v + 1)) (fun v' h1 _ => good_of_quiet μ (hq o ho v' (by omega)))
      refine ⟨?_, ?_⟩
      · intro l' hl'
        rw [List.mem_flatMap] at hl'
        obtain ⟨o, ho, hl'⟩ := hl'
        obtain ⟨a, b, c, d⟩ := (hchild o ho).1 l' hl'
        refine ⟨by omega, fun _ => ?_, fun _ => ?_, fun _ => ?_⟩
        · by_cases hk : k = 0
          · rw [a hk]; simp [hk, newLeaf]
          · rw [b (by omega)]; congr 1; omega
        · exact c (by simp [newLeaf])
        · exact d (by simp [newLeaf])
      · rw [hv, pmOps_flatMap μ (v + 1 + k) (v + 1) _ news (fun o ho => (hchild o ho).2), hg]

/-- Steps for which no adapter is registered never change what a node means (the operator forms of
GridSample change only at 19→20, of DFT at 19→20, of GroupNormalization at 20→21). -/
theorem meaning_mono_lemma : Mono Op.meaning := by
  intro op v h
  cases op with
  | plain n => rfl
  | const s is => rfl
  | call f => rfl
  | gridSample mode align pad =>
    have hv : v ≠ 19 := by
      intro hv; subst hv
      simp only [adapt, if_true, gridsample_19_20] at h
      split at h <;> (try split at h) <;> cases h
    by_cases hle : v ≤ 19
    · have hle' : v + 1 ≤ 19 := by omega
      simp [Op.meaning, gsInterp, hle, hle']
    · have hle' : ¬ v + 1 ≤ 19 := by omega
      simp [Op.meaning, gsInterp, hle, hle']
  | dft axis inv one hasLen axisIn rank =>
    have hv : v ≠ 19 := by
      intro hv; subst hv
      simp only [adapt, if_true, dft_19_20] at h
      cases h
    by_cases hle : v ≤ 19
    · have hle' : v + 1 ≤ 19 := by omega
      simp [Op.meaning, hle, hle']
    · have hle' : ¬ v + 1 ≤ 19 := by omega
      simp [Op.meaning, hle, hle']
  | groupNorm n =>
    have hv : v ≠ 20 := by
      intro hv; subst hv
      simp only [adapt, if_true] at h
      exact gn_ne_noAdapter n h
    by_cases hle : v ≤ 20
    · have hle' : v + 1 ≤ 20 := by omega
      simp [Op.meaning, hle, hle']
    · have hle' : ¬ v + 1 ≤ 20 := by omega
      simp [Op.meaning, hle, hle']

theorem pmLeaves_append {β} (μ : Op → Nat → β) (d : Nat) (a b : List Leaf) :
    pmLeaves μ d (a ++ b) = pmLeaves μ d a ++ pmLeaves μ d b := by
  induction a with
  | nil => rfl
  | cons o os ih => simp only [List.cons_append, pmLeaves]; split <;> simp [ih]

theorem pmLeaves_eq_pmOps {β} (μ : Op → Nat → β) (d w : Nat) (ls : List Leaf)
    (h : ∀ l ∈ ls, l.dflt = true ∧ l.eff d = w) :
    pmLeaves μ d ls = pmOps μ w (ls.map (·.op)) := by
  induction ls with
  | nil => rfl
  | cons l ls ih =>
    have := h l (List.mem_cons_self ..)
    simp only [pmLeaves, List.map_cons, pmOps, Leaf.readAt, this.1, this.2, if_true,
      ih (fun l' hl' => h l' (List.mem_cons_of_mem _ hl'))]

/-- What holds of every node after its graph has been visited with default `s` and target `t`. -/
structure LeafPost (s t : Nat) (l : Leaf) : Prop where
  effOld : l.dflt = true → l.eff s = t
  effNew : l.dflt = true → l.eff t = t

theorem eff_of_version {l : Leaf} {d w : Nat} (h : l.version = some w) : l.eff d = w := by
  simp [Leaf.eff, h]

theorem eff_new_of_old {l : Leaf} {s t : Nat} (h : l.eff s = t) : l.eff t = t := by
  unfold Leaf.eff at *
  cases hv : l.version with
  | none => rfl
  | some w => rw [hv] at h; exact h

theorem visitLeaf_spec {β} (μ : Op → Nat → β) (hμ : Mono μ) (s t : Nat) (l : Leaf) (hp : LeafPre μ s t l) :
    (visitLeaf (some s) t l).2 = none ∧
    (∀ l' ∈ (visitLeaf (some s) t l).1, LeafPre μ s t l' ∧ LeafPost s t l') ∧
    pmLeaves μ t (visitLeaf (some s) t l).1 = pmLeaves μ s [l] := by
  unfold visitLeaf
  by_cases hd : l.dflt = true
  · have hver : l.version.or (some s) = some (l.eff s) := by
      unfold Leaf.eff; cases l.version <;> rfl
    have hr := hp.noRef hd
    have hle := hp.le hd
    simp only [hd, hver, hr, Bool.not_true, Bool.false_eq_true, if_false, Nat.not_lt.mpr hle]
    have hk : l.eff s + (t - l.eff s) = t := by omega
    obtain ⟨hm, hpm⟩ := leafSteps_spec μ hμ (t - l.eff s) (l.eff s) l
      (fun v' h1 h2 => hp.good hd v' h1 (by omega))
    have hall : ∀ l' ∈ leafSteps (t - l.eff s) (l.eff s) l, l'.eff s = t := by
      intro l' hl'
      obtain ⟨a, b, _, _⟩ := hm l' hl'
      by_cases hk0 : t - l.eff s = 0
      · rw [a hk0]; omega
      · have hv := b (by omega); rw [hk] at hv; exact eff_of_version hv
    refine ⟨trivial, ?_, ?_⟩
    · intro l' hl'
      obtain ⟨a, b, c, d⟩ := hm l' hl'
      have he := hall l' hl'
      refine ⟨⟨fun _ => d hr, fun _ => by omega, fun _ v' h1 h2 => ?_⟩,
          ⟨fun _ => he, fun _ => eff_new_of_old he⟩⟩
      omega
    · rw [pmLeaves_eq_pmOps μ t t _ (fun l' hl' => ⟨(hm l' hl').2.2.1 hd, eff_new_of_old (hall l' hl')⟩),
        pmLeaves_eq_pmOps μ s (l.eff s) [l] (by simp [hd])]
      rw [← hk] at hpm ⊢
      simpa using hpm
  · have hd' : l.dflt = false := by cases h : l.dflt <;> simp_all
    simp only [hd', Bool.not_false, if_true]
    refine ⟨trivial, ?_, ?_⟩
    · intro l' hl'
      have hl : l' = l := by simpa using hl'
      rw [hl]
      exact ⟨hp, ⟨fun h => (by rw [hd'] at h; cases h), fun h => (by rw [hd'] at h; cases h)⟩⟩
    · simp only [pmLeaves, Leaf.readAt, hd']; rfl

theorem visitLeaves_spec {β} (μ : Op → Nat → β) (hμ : Mono μ) (s t : Nat) :
    ∀ (ls : List Leaf), (∀ l ∈ ls, LeafPre μ s t l) →
    (visitLeaves (some s) t ls).2 = none ∧
    (∀ l' ∈ (visitLeaves (some s) t ls).1, LeafPre μ s t l' ∧ LeafPost s t l') ∧
    pmLeaves μ t (visitLeaves (some s) t ls).1 = pmLeaves μ s ls := by
  intro ls
  induction ls with
  | nil => intro _; simp [visitLeaves, pmLeaves]
  | cons l ls ih =>
    intro hp
    obtain ⟨h1, h2, h3⟩ := visitLeaf_spec μ hμ s t l (hp l (List.mem_cons_self ..))
    obtain ⟨i1, i2, i3⟩ := ih (fun l' hl' => hp l' (List.mem_cons_of_mem _ hl'))
    unfold visitLeaves
    rcases hv : visitLeaf (some s) t l with ⟨out, e⟩
    rw [hv] at h1 h2 h3
    simp only at h1 h2 h3
    subst h1
    rcases hw : visitLeaves (some s) t ls with ⟨out', e'⟩
    rw [hw] at i1 i2 i3
    simp only at i1 i2 i3
    subst i1
    simp only []
    refine ⟨trivial, ?_, ?_⟩
    · intro l' hl'
      rcases List.mem_append.mp hl' with h | h
      · exact h2 l' h
      · exact i2 l' h
    · rw [pmLeaves_append, h3, i3, ← pmLeaves_append]; rfl

theorem pmLeaves_post {β} (μ : Op → Nat → β) (s t : Nat) (ls : List Leaf)
    (h : ∀ l ∈ ls, LeafPost s t l) : pmLeaves μ s ls = pmLeaves μ t ls := by
  induction ls with
  | nil => rfl
  | cons l ls ih =>
    have ih' := ih (fun l' hl' => h l' (List.mem_cons_of_mem _ hl'))
    have hq := h l (List.mem_cons_self ..)
    simp only [pmLeaves, ih']
    split
    · rfl
    · by_cases hd : l.dflt = true
      · simp only [Leaf.readAt, hd, if_true, hq.effOld hd, hq.effNew hd]
      · have hd' : l.dflt = false := by cases h : l.dflt <;> simp_all
        simp only [Leaf.readAt, hd']; rfl

/-- What the generic invariant needs to know about the nodes of subgraphs (`Pre`: their precondition):
visiting a list of them raises nothing, re-establishes `Pre`, leaves every contained node written for `t`
(`LeafPost`), and preserves the readings. -/
structure InnerSpec {β} (μ : Op → Nat → β) (s t : Nat) (α : Type) [Inner α] (Pre : α → Prop) : Prop where
  visOk : ∀ ls : List α, (∀ l ∈ ls, Pre l) →
    (Inner.vis (some s) t ls).2 = none ∧
    (∀ l' ∈ (Inner.vis (some s) t ls).1, Pre l' ∧ ∀ x ∈ Inner.leaves l', LeafPost s t x) ∧
    pmLeaves μ t ((Inner.vis (some s) t ls).1.flatMap Inner.leaves) = pmLeaves μ s (ls.flatMap Inner.leaves)

theorem flatMap_single (ls : List Leaf) : ls.flatMap (fun l => [l]) = ls := by
  induction ls with
  | nil => rfl
  | cons l ls ih => simp [List.flatMap_cons, ih]

theorem leafSpec {β} (μ : Op → Nat → β) (hμ : Mono μ) (s t : Nat) : InnerSpec μ s t Leaf (LeafPre μ s t) := by
  refine ⟨fun ls hp => ?_⟩
  obtain ⟨h1, h2, h3⟩ := visitLeaves_spec μ hμ s t ls hp
  refine ⟨h1, fun l' hl' => ⟨(h2 l' hl').1, fun x hx => ?_⟩, ?_⟩
  · have : x = l' := by simpa [Inner.leaves] using hx
    rw [this]; exact (h2 l' hl').2
  · show pmLeaves μ t ((visitLeaves (some s) t ls).1.flatMap (fun l => [l])) = pmLeaves μ s (ls.flatMap (fun l => [l]))
    rw [flatMap_single, flatMap_single]; exact h3

section generic
variable {α : Type} [Inner α] {Pre : α → Prop}

theorem visitBodies_spec {β} (μ : Op → Nat → β) (s t : Nat) (S : InnerSpec μ s t α Pre) :
    ∀ (bs : List (List α)), (∀ b ∈ bs, ∀ a ∈ b, Pre a) →
    (visitBodies (some s) t bs).2 = none ∧
    (∀ b ∈ (visitBodies (some s) t bs).1, ∀ a ∈ b, Pre a ∧ ∀ x ∈ Inner.leaves a, LeafPost s t x) ∧
    pmLeaves μ t ((visitBodies (some s) t bs).1.flatten.flatMap Inner.leaves)
      = pmLeaves μ s (bs.flatten.flatMap Inner.leaves) ∧
    ((visitBodies (some s) t bs).1 = [] ↔ bs = []) := by
  intro bs
  induction bs with
  | nil => intro _; simp [visitBodies, pmLeaves]
  | cons b bs ih =>
    intro hp
    obtain ⟨h1, h2, h3⟩ := S.visOk b (hp b (List.mem_cons_self ..))
    obtain ⟨i1, i2, i3, _⟩ := ih (fun b' hb' => hp b' (List.mem_cons_of_mem _ hb'))
    unfold visitBodies
    rcases hv : Inner.vis (some s) t b with ⟨out, e⟩
    rw [hv] at h1 h2 h3
    simp only at h1 h2 h3
    subst h1
    rcases hw : visitBodies (some s) t bs with ⟨out', e'⟩
    rw [hw] at i1 i2 i3
    simp only at i1 i2 i3
    subst i1
    simp only []
    refine ⟨trivial, ?_, ?_, by simp⟩
    · intro b' hb'
      rcases List.mem_cons.mp hb' with h | h
      · subst h; exact h2
      · exact i2 b' h
    · rw [List.flatten_cons, List.flatten_cons, List.flatMap_append, List.flatMap_append,
        pmLeaves_append, pmLeaves_append, h3, i3]

def leafNode (l : Leaf) : Node α := { leaf := l, bodies := [] }

theorem nodeSteps_nobodies (d : Option Nat) (t : Nat) :
    ∀ (k v : Nat) (l : Leaf), nodeSteps d t k v (leafNode l : Node α) = (leafSteps k v l).map leafNode := by
  intro k
  induction k with
  | zero => intro v l; rfl
  | succ k ih =>
    intro v l
    unfold nodeSteps leafSteps
    simp only [leafNode]
    cases hA : adapt l.op v with
    | raised => simpa [leafNode] using ih (v + 1) l
    | replaced news =>
      simp only [List.map_flatMap]
      congr 1
      funext o
      simpa [leafNode, newNode] using ih (v + 1) (newLeaf o (v + 1))
    | noAdapter => simpa [leafNode, visitBodies] using ih (v + 1) { l with version := some (v + 1) }
    | retNone => simpa [leafNode, visitBodies] using ih (v + 1) { l with version := some (v + 1) }

/-- The step loop on a control-flow node (`k+1` steps): the node is stamped, its subgraphs are converted by
the first step and left alone by the later ones. -/
theorem nodeSteps_ctrl {β} (μ : Op → Nat → β) (s t : Nat) (S : InnerSpec μ s t α Pre) :
    ∀ (k v : Nat) (n : Node α) (name : String), n.leaf.op = .plain name →
      (∀ b ∈ n.bodies, ∀ a ∈ b, Pre a) →
      ∃ bs', nodeSteps (some s) t (k + 1) v n = [{ leaf := { n.leaf with version := some (v + k + 1) }, bodies := bs' }] ∧
        (∀ b ∈ bs', ∀ a ∈ b, Pre a ∧ ∀ x ∈ Inner.leaves a, LeafPost s t x) ∧
        pmLeaves μ t (bs'.flatten.flatMap Inner.leaves) = pmLeaves μ s (n.bodies.flatten.flatMap Inner.leaves) := by
  intro k
  induction k with
  | zero =>
    intro v n name hop hb
    obtain ⟨h1, h2, h3, _⟩ := visitBodies_spec μ s t S n.bodies hb
    unfold nodeSteps
    have hA : adapt n.leaf.op v = .noAdapter := by rw [hop]; rfl
    rw [hA]
    rcases hv : visitBodies (some s) t n.bodies with ⟨bs, e⟩
    rw [hv] at h1 h2 h3
    simp only at h1 h2 h3
    subst h1
    exact ⟨bs, by simp [nodeSteps], h2, h3⟩
  | succ k ih =>
    intro v n name hop hb
    obtain ⟨h1, h2, h3, _⟩ := visitBodies_spec μ s t S n.bodies hb
    unfold nodeSteps
    have hA : adapt n.leaf.op v = .noAdapter := by rw [hop]; rfl
    rw [hA]
    rcases hv : visitBodies (some s) t n.bodies with ⟨bs, e⟩
    rw [hv] at h1 h2 h3
    simp only at h1 h2 h3
    subst h1
    simp only []
    obtain ⟨bs', j1, j2, j3⟩ := ih (v + 1) { leaf := { n.leaf with version := some (v + 1) }, bodies := bs } name
      hop (fun b hb' a ha => (h2 b hb' a ha).1)
    refine ⟨bs', ?_, j2, ?_⟩
    · rw [j1]; simp only [List.cons.injEq, and_true]; congr 2; congr 1; omega
    · rw [j3]; simp only []
      rw [pmLeaves_post μ s t _ (fun x hx => by
        obtain ⟨a, ha, hx'⟩ := List.mem_flatMap.mp hx
        obtain ⟨b, hb', ha'⟩ := List.mem_flatten.mp ha
        exact (h2 b hb' a ha').2 x hx'), h3]

theorem mono_plain {β} (μ : Op → Nat → β) (hμ : Mono μ) (name : String) (a j : Nat) :
    μ (.plain name) (a + j) = μ (.plain name) a := by
  induction j with
  | zero => rfl
  | succ j ih => rw [← ih, ← Nat.add_assoc]; exact hμ _ _ rfl

theorem visitNode_leafNode (d : Option Nat) (t : Nat) (l : Leaf) :
    visitNode d t (leafNode l : Node α) = ((visitLeaf d t l).1.map leafNode, (visitLeaf d t l).2) := by
  rcases l with ⟨dflt, op, version, refAttr⟩
  unfold visitNode visitLeaf
  simp only [leafNode]
  cases dflt with
  | false => simp [leafNode]
  | true =>
    simp only [Bool.not_true, Bool.false_eq_true, if_false]
    cases version.or d with
    | none => simp [leafNode]
    | some nv =>
      simp only []
      cases refAttr with
      | true => simp [leafNode]
      | false =>
        simp only [Bool.false_eq_true, if_false]
        by_cases h : t < nv
        · simp [h, leafNode]
        · simp only [h, if_false, Prod.mk.injEq, and_true]
          exact nodeSteps_nobodies d t _ _ _

theorem leaves_map_leafNode (ls : List Leaf) : (ls.map (leafNode (α := α))).flatMap Node.leaves = ls := by
  induction ls with
  | nil => rfl
  | cons l ls ih => simp [List.flatMap_cons, Node.leaves, leafNode, ih]

theorem leafNode_pre {β} {μ : Op → Nat → β} {s t : Nat} {l : Leaf} (h : LeafPre μ s t l) :
    NodePre μ s t Pre (leafNode l : Node α) :=
  ⟨h, fun hb => absurd rfl hb, by intro b hb; simp [leafNode] at hb, fun _ => rfl, by intro _ b hb; simp [leafNode] at hb⟩

theorem visitNode_spec {β} (μ : Op → Nat → β) (hμ : Mono μ) (s t : Nat) (S : InnerSpec μ s t α Pre)
    (n : Node α) (hp : NodePre μ s t Pre n) :
    (visitNode (some s) t n).2 = none ∧
    (∀ n' ∈ (visitNode (some s) t n).1, NodePre μ s t Pre n' ∧ ∀ x ∈ n'.leaves, LeafPost s t x) ∧
    pmNodes μ t (visitNode (some s) t n).1 = pmNodes μ s [n] := by
  by_cases hb : n.bodies = []
  · -- a node without subgraphs
    have hn : n = leafNode n.leaf := by cases n; simp_all [leafNode]
    rw [hn, visitNode_leafNode]
    obtain ⟨h1, h2, h3⟩ := visitLeaf_spec μ hμ s t n.leaf hp.leaf
    refine ⟨h1, ?_, ?_⟩
    · intro n' hn'
      obtain ⟨l', hl', rfl⟩ := List.mem_map.mp hn'
      refine ⟨leafNode_pre (h2 l' hl').1, fun x hx => ?_⟩
      have : x = l' := by simpa [Node.leaves, leafNode] using hx
      rw [this]; exact (h2 l' hl').2
    · simp only [pmNodes, leaves_map_leafNode, h3]
      simp [Node.leaves, leafNode]
  · obtain ⟨name, hop⟩ := hp.ctrl hb
    have hd : n.leaf.dflt = true := by
      cases h : n.leaf.dflt with
      | true => rfl
      | false => exact absurd (hp.customFlat h) hb
    have hver : n.leaf.version.or (some s) = some (n.leaf.eff s) := by
      unfold Leaf.eff; cases n.leaf.version <;> rfl
    have hr := hp.leaf.noRef hd
    have hle := hp.leaf.le hd
    unfold visitNode
    simp only [hd, hver, hr, Bool.not_true, Bool.false_eq_true, if_false, Nat.not_lt.mpr hle]
    cases hk : t - n.leaf.eff s with
    | zero =>
      have het : n.leaf.eff s = t := by omega
      have hpost : ∀ l ∈ n.leaves, LeafPost s t l := by
        intro l hl
        rcases List.mem_cons.mp hl with h | h
        · subst h; exact ⟨fun _ => het, fun _ => eff_new_of_old het⟩
        · obtain ⟨a, ha, hx⟩ := List.mem_flatMap.mp h
          obtain ⟨b, hb', ha'⟩ := List.mem_flatten.mp ha
          have he : l.dflt = true → l.eff s = t := fun hdl => by rw [hp.sameEff hd b hb' a ha' l hx hdl, het]
          exact ⟨he, fun hdl => eff_new_of_old (he hdl)⟩
      refine ⟨trivial, ?_, ?_⟩
      · intro n' hn'
        have : n' = n := by simpa [nodeSteps] using hn'
        subst this
        exact ⟨hp, hpost⟩
      · simp only [nodeSteps, pmNodes, List.flatMap_cons, List.flatMap_nil, List.append_nil]
        exact (pmLeaves_post μ s t _ hpost).symm
    | succ k =>
      obtain ⟨bs', j1, j2, j3⟩ := nodeSteps_ctrl μ s t S k (n.leaf.eff s) n name hop hp.bodies
      have hst : n.leaf.eff s + k + 1 = t := by omega
      rw [j1, hst]
      refine ⟨trivial, ?_, ?_⟩
      · intro n' hn'
        rw [List.mem_singleton] at hn'
        subst hn'
        have hleaves : ∀ x ∈ (bs'.flatten.flatMap Inner.leaves), LeafPost s t x := by
          intro x hx
          obtain ⟨a, ha, hx'⟩ := List.mem_flatMap.mp hx
          obtain ⟨b, hb', ha'⟩ := List.mem_flatten.mp ha
          exact (j2 b hb' a ha').2 x hx'
        refine ⟨⟨⟨fun _ => hr, fun _ => by rw [eff_of_version rfl]; exact Nat.le_refl _,
            fun _ v' h1 h2 => by rw [eff_of_version rfl] at h1; omega⟩,
          fun _ => ⟨name, hop⟩, fun b hb' a ha => (j2 b hb' a ha).1, fun h => (by rw [hd] at h; cases h),
          fun _ b hb' a ha l hl hdl => (by
            rw [eff_of_version (l := { n.leaf with version := some t }) rfl]
            exact ((j2 b hb' a ha).2 l hl).effOld hdl)⟩, ?_⟩
        intro x hx
        rcases List.mem_cons.mp hx with h | h
        · subst h; exact ⟨fun _ => eff_of_version rfl, fun _ => eff_of_version rfl⟩
        · exact hleaves x h
      · simp only [pmNodes, List.flatMap_cons, List.flatMap_nil, List.append_nil, Node.leaves, pmLeaves, hop, j3]
        split
        · rfl
        · congr 1
          have := mono_plain μ hμ name (n.leaf.eff s) (k + 1)
          rw [show n.leaf.eff s + (k + 1) = t by omega] at this
          simpa [Leaf.eff, Leaf.readAt, hd] using this

theorem visitGraph_spec {β} (μ : Op → Nat → β) (hμ : Mono μ) (s t : Nat) (S : InnerSpec μ s t α Pre) :
    ∀ (ns : List (Node α)), (∀ n ∈ ns, NodePre μ s t Pre n) →
    (visitGraph (some s) t ns).2 = none ∧
    (∀ n' ∈ (visitGraph (some s) t ns).1, NodePre μ s t Pre n' ∧ ∀ x ∈ n'.leaves, LeafPost s t x) ∧
    pmNodes μ t (visitGraph (some s) t ns).1 = pmNodes μ s ns := by
  intro ns
  induction ns with
  | nil => intro _; simp [visitGraph, pmNodes, pmLeaves]
  | cons n ns ih =>
    intro hp
    obtain ⟨h1, h2, h3⟩ := visitNode_spec μ hμ s t S n (hp n (List.mem_cons_self ..))
    obtain ⟨i1, i2, i3⟩ := ih (fun n' hn' => hp n' (List.mem_cons_of_mem _ hn'))
    unfold visitGraph
    rcases hv : visitNode (some s) t n with ⟨out, e⟩
    rw [hv] at h1 h2 h3
    simp only at h1 h2 h3
    subst h1
    rcases hw : visitGraph (some s) t ns with ⟨out', e'⟩
    rw [hw] at i1 i2 i3
    simp only at i1 i2 i3
    subst i1
    simp only []
    refine ⟨trivial, ?_, ?_⟩
    · intro n' hn'
      rcases List.mem_append.mp hn' with h | h
      · exact h2 n' h
      · exact i2 n' h
    · simp only [pmNodes] at h3 i3 ⊢
      rw [List.flatMap_append, pmLeaves_append, h3, i3, ← pmLeaves_append]
      simp [List.flatMap_cons]

/-- The invariant one nesting level up. -/
theorem nodeSpec {β} (μ : Op → Nat → β) (hμ : Mono μ) (s t : Nat) (S : InnerSpec μ s t α Pre) :
    InnerSpec μ s t (Node α) (NodePre μ s t Pre) :=
  ⟨fun ns hp => visitGraph_spec μ hμ s t S ns hp⟩

end generic

/-- The invariant at every nesting depth. -/
theorem specD {β} (μ : Op → Nat → β) (hμ : Mono μ) (s t : Nat) : (d : Nat) → InnerSpec μ s t (NodeD d) (PreD μ s t d)
  | 0 => leafSpec μ hμ s t
  | d + 1 => nodeSpec μ hμ s t (specD μ hμ s t d)

theorem SrcLeaf.toPre {β} {μ : Op → Nat → β} {s t : Nat} {l : Leaf} (h : SrcLeaf μ s l) (hst : s ≤ t) :
    LeafPre μ s t l :=
  ⟨h.noRef, fun hd => by rw [h.ver hd]; exact hst, fun hd v' h1 _ => h.good hd v' (by rw [h.ver hd] at h1; exact h1)⟩

theorem SrcD.leaves_eff {β} {μ : Op → Nat → β} {s : Nat} : (d : Nat) → (a : NodeD d) → SrcD μ s d a →
    ∀ x ∈ Inner.leaves a, x.dflt = true → x.eff s = s
  | 0, l, h => by
    intro x hx hd
    have hx' : x ∈ [l] := hx
    have : x = l := List.mem_singleton.mp hx'
    rw [this]; exact h.ver (this ▸ hd)
  | d + 1, n, h => by
    intro x hx hd
    have hx' : x ∈ Node.leaves n := hx
    rcases List.mem_cons.mp hx' with h' | h'
    · subst h'; exact h.leaf.ver hd
    · obtain ⟨a, ha, hxa⟩ := List.mem_flatMap.mp h'
      obtain ⟨b, hb, ha'⟩ := List.mem_flatten.mp ha
      exact SrcD.leaves_eff d a (h.bodies b hb a ha') x hxa hd

theorem SrcD.toPre {β} {μ : Op → Nat → β} {s t : Nat} (hst : s ≤ t) : (d : Nat) → (a : NodeD d) → SrcD μ s d a →
    PreD μ s t d a
  | 0, _, h => SrcLeaf.toPre h hst
  | d + 1, n, h =>
    ⟨h.leaf.toPre hst, h.ctrl, fun b hb a ha => SrcD.toPre hst d a (h.bodies b hb a ha), h.customFlat,
      fun hd b hb a ha l hl hdl => by
        rw [SrcD.leaves_eff d a (h.bodies b hb a ha) l hl hdl, h.leaf.ver hd]⟩

section generic2
variable {α : Type} [Inner α]

/-- A downgrade is refused at the first default-domain node, before anything was touched. -/
theorem visitGraph_downgrade {β} (μ : Op → Nat → β) (s t : Nat) (hts : t < s) :
    ∀ (ns : List (Node α)), (∀ n ∈ ns, SrcLeaf μ s n.leaf) →
      (visitGraph (some s) t ns).1 = ns ∧
      ((visitGraph (some s) t ns).2 = none → ∀ n ∈ ns, n.leaf.dflt = false) := by
  intro ns
  induction ns with
  | nil => intro _; simp [visitGraph]
  | cons n ns ih =>
    intro hp
    obtain ⟨i1, i2⟩ := ih (fun n' hn' => hp n' (List.mem_cons_of_mem _ hn'))
    have hn := hp n (List.mem_cons_self ..)
    unfold visitGraph visitNode
    cases hd : n.leaf.dflt with
    | false =>
      simp only [Bool.not_false, if_true]
      rcases hw : visitGraph (some s) t ns with ⟨out', e'⟩
      rw [hw] at i1 i2
      simp only at i1 i2 ⊢
      subst i1
      refine ⟨rfl, fun he n' hn' => ?_⟩
      rcases List.mem_cons.mp hn' with h | h
      · rw [h]; exact hd
      · exact i2 he n' h
    | true =>
      have hver : n.leaf.version.or (some s) = some (n.leaf.eff s) := by
        unfold Leaf.eff; cases n.leaf.version <;> rfl
      simp only [Bool.not_true, Bool.false_eq_true, if_false, hver, hn.noRef hd, hn.ver hd, hts, if_true]
      exact ⟨rfl, fun h => by cases h⟩

omit [Inner α] in
theorem setNodes_self (m : Model α) : { m with nodes := m.nodes } = m := by cases m; rfl

theorem allAt_of_post {s t : Nat} {ns : List (Node α)} (h : ∀ n ∈ ns, ∀ x ∈ n.leaves, LeafPost s t x) :
    AllAt t ns := fun n hn l hl hd => (h n hn l hl).effNew hd

theorem pmNodes_custom {β} (μ : Op → Nat → β) (s t : Nat) (ns : List (Node α))
    (h : ∀ n ∈ ns, n.leaf.dflt = false ∧ n.bodies = []) : pmNodes μ t ns = pmNodes μ s ns := by
  induction ns with
  | nil => rfl
  | cons n ns ih =>
    have ih' := ih (fun n' hn' => h n' (List.mem_cons_of_mem _ hn'))
    obtain ⟨h1, h2⟩ := h n (List.mem_cons_self ..)
    simp only [pmNodes, List.flatMap_cons, Node.leaves, h2, List.flatten_nil, List.flatMap_nil, List.cons_append,
      List.nil_append, pmLeaves, Leaf.readAt, h1, Bool.false_eq_true, if_false] at ih' ⊢
    rw [ih']

end generic2
theorem erase_leaves_none : (d : Nat) → (a : NodeD d) → ∀ x ∈ Inner.leaves (Inner.erase a), x.version = none
  | 0, l => by
    intro x hx
    have hx' : x ∈ [eraseLeaf l] := hx
    rw [List.mem_singleton.mp hx']; rfl
  | d + 1, n => by
    intro x hx
    have hx' : x ∈ Node.leaves (eraseNode n) := hx
    rcases List.mem_cons.mp hx' with h | h
    · rw [h]; rfl
    · obtain ⟨a, ha, hxa⟩ := List.mem_flatMap.mp h
      obtain ⟨b, hb, ha'⟩ := List.mem_flatten.mp ha
      simp only [eraseNode, List.mem_map] at hb
      obtain ⟨b0, _, rfl⟩ := hb
      obtain ⟨a0, _, rfl⟩ := List.mem_map.mp ha'
      exact erase_leaves_none d a0 x hxa

/-- `_version_converter.convert_version` on a self-consistent model (functions already inlined),
subgraphs of any nesting depth. -/
theorem nativeConvert_spec {β} (μ : Op → Nat → β) (hμ : Mono μ) (s t : Nat) {d : Nat} (m : Model (NodeD d))
    (h : SelfConsistent μ s m) :
      ((nativeConvert t m).2 = none ∧ (nativeConvert t m).1.declared = some t ∧ (nativeConvert t m).1.aionnx = none ∧
        (nativeConvert t m).1.funcs = [] ∧ AllAt t (nativeConvert t m).1.nodes ∧
        pmNodes μ t (nativeConvert t m).1.nodes = pmNodes μ s m.nodes ∧
        (nativeConvert t m).1.inputs = m.inputs ∧ (nativeConvert t m).1.inits = m.inits)
      ∨ (nativeConvert t m).1 = m := by
  have hsrc : ∀ n ∈ m.nodes, SrcNode (α := NodeD d) μ s (SrcD μ s d) n := fun n hn => h.nodes n hn
  unfold nativeConvert
  split
  · exact Or.inr rfl
  · unfold visitModel
    have hget : getOnnxOpsetVersion m.declared m.aionnx = .ok (some s) := by
      rw [h.declared, h.noAi]; rfl
    rw [hget]
    simp only []
    by_cases hst : s ≤ t
    · obtain ⟨g1, g2, g3⟩ := visitGraph_spec μ hμ s t (specD μ hμ s t d) m.nodes
        (fun n hn => SrcD.toPre hst (d + 1) n (h.nodes n hn))
      rcases hv : visitGraph (some s) t m.nodes with ⟨ns, e⟩
      rw [hv] at g1 g2 g3
      simp only at g1 g2 g3
      subst g1
      rw [h.inlined]
      simp only [visitFuncs, Model.setOpset]
      exact Or.inl ⟨(by first | trivial | rfl), (by first | trivial | rfl), (by first | trivial | rfl),
        (by first | trivial | rfl), allAt_of_post (fun n hn => (g2 n hn).2), g3, (by first | trivial | rfl),
        (by first | trivial | rfl)⟩
    · obtain ⟨g1, g2⟩ := visitGraph_downgrade μ s t (by omega) m.nodes (fun n hn => (hsrc n hn).leaf)
      rcases hv : visitGraph (some s) t m.nodes with ⟨ns, e⟩
      rw [hv] at g1 g2
      simp only at g1 g2
      subst g1
      cases e with
      | some e => simp only []; exact Or.inr (by first | trivial | exact setNodes_self m)
      | none =>
        have hc := g2 rfl
        rw [h.inlined]
        simp only [visitFuncs, Model.setOpset]
        refine Or.inl ⟨(by first | trivial | rfl), (by first | trivial | rfl), (by first | trivial | rfl),
          (by first | trivial | rfl), ?_, ?_, (by first | trivial | rfl), (by first | trivial | rfl)⟩
        · intro n hn l hl hd
          have hflat := (hsrc n hn).customFlat (hc n hn)
          simp only [Node.leaves, hflat, List.flatten_nil, List.flatMap_nil, List.mem_singleton] at hl
          rw [hl, hc n hn] at hd; cases hd
        · exact pmNodes_custom μ s t m.nodes (fun n hn => ⟨hc n hn, (hsrc n hn).customFlat (hc n hn)⟩)

/-- `_ConvertVersionPassRequiresInline.call` on a self-consistent model. -/
theorem requiresInline_spec {β} (μ : Op → Nat → β) (hμ : Mono μ) (s t : Nat) (fb : Fallback) {d : Nat}
    (capi : CApi (NodeD d)) (m : Model (NodeD d)) (h : SelfConsistent μ s m) :
    ((requiresInlineCall fb t capi m).2 = none ∧
      (requiresInlineCall fb t capi m).1.declared = some t ∧
      (requiresInlineCall fb t capi m).1.aionnx = none ∧
      (requiresInlineCall fb t capi m).1.funcs = [] ∧
      AllAt t (requiresInlineCall fb t capi m).1.nodes ∧
      ((pmNodes μ t (requiresInlineCall fb t capi m).1.nodes = pmNodes μ s m.nodes ∧
        (requiresInlineCall fb t capi m).1.inputs = m.inputs ∧ (requiresInlineCall fb t capi m).1.inits = m.inits) ∨
       (∃ ns, capi m t = some ns ∧ (requiresInlineCall fb t capi m).1 = recoverFallback m t ns)))
    ∨ (requiresInlineCall fb t capi m).1 = m := by
  have hnative := nativeConvert_spec μ hμ s t m h
  unfold requiresInlineCall
  split
  · exact Or.inr rfl
  · split
    · rcases hnative with ⟨a, b, c, d', e, f, g, i⟩ | hn
      · exact Or.inl ⟨a, b, c, d', e, Or.inl ⟨f, g, i⟩⟩
      · exact Or.inr hn
    · split
      · exact Or.inr rfl
      · cases hc : capi m t with
        | none => exact Or.inr rfl
        | some ns =>
          refine Or.inl ⟨rfl, rfl, rfl, ?_, ?_, Or.inr ⟨ns, rfl, rfl⟩⟩
          · simp [recoverFallback, h.inlined]
          · intro n hn l hl hd
            simp only [recoverFallback, List.mem_map] at hn
            obtain ⟨n0, _, rfl⟩ := hn
            have : l.version = none := erase_leaves_none (d + 1) n0 l hl
            simp [Leaf.eff, this]

/-! ### Validity of the source implies that every step is good (no hypothesis on the adapters) -/

theorem good_gs (mode : Option String) (align : Option Int) (pad : Option String)
    (hvalid : (Op.meaning (.gridSample mode align pad) 19).isSome) :
    Good Op.meaning (.gridSample mode align pad) 19 := by
  unfold Good
  simp only [adapt, if_true, gridsample_19_20]
  cases mode with
  | none => simp [Op.meaning, gsInterp, Option.getD]
  | some m =>
    simp only [Option.getD]
    by_cases h1 : m = "bilinear"
    · subst h1; simp [Op.meaning, gsInterp, pmOps, Op.isAux, Option.getD]
    · by_cases h2 : m = "bicubic"
      · subst h2; simp [Op.meaning, gsInterp, pmOps, Op.isAux, Option.getD]
      · simp only [beq_iff_eq, h1, h2, if_false]
        simp only [Op.meaning, gsInterp, beq_iff_eq, h1, h2, if_false, Nat.le_refl, if_true] at hvalid ⊢
        by_cases h3 : m = "nearest"
        · simp [h3]
        · simp [h3] at hvalid

theorem good_dft (axis inv one : Option Int) (hasLen : Bool) (rank : Nat) :
    Good Op.meaning (.dft axis inv one hasLen none rank) 19 := by
  unfold Good
  cases axis <;> simp [adapt, dft_19_20, pmOps, Op.isAux, Op.meaning]

/-- A GroupNormalization that is a valid opset-20 form: the step 20→21 preserves its meaning — whatever the
shape annotations show (static rewrite, run-time-ratio rewrite, or nothing to do when `num_groups = C`). -/
theorem good_gn (n : GN) (hvalid : (Op.meaning (.groupNorm n) 20).isSome) : Good Op.meaning (.groupNorm n) 20 := by
  simp only [Op.meaning] at hvalid
  cases hg : n.groups with
  | none => simp [hg] at hvalid
  | some g =>
    simp only [hg] at hvalid
    by_cases h1 : (!(n.hasX && n.hasScale && n.hasBias)) = true
    · simp [h1] at hvalid
    · simp only [h1] at hvalid
      by_cases hdiv : g * (n.c / g) ≠ n.c
      · simp [hdiv] at hvalid
      · simp only [hdiv, if_false, Nat.le_refl, if_true] at hvalid
        have hdiv' : g * (n.c / g) = n.c := by omega
        by_cases hl : n.sLen = g ∧ n.bLen = g
        · obtain ⟨ls, lb⟩ := hl
          unfold Good
          simp only [adapt, if_true, groupnormalization_20_21, h1, hg]
          by_cases hs : (!(n.xVis = .known && n.sVis = .known && n.bVis = .known)) = true
          · simp only [hs, if_true]
            simp [gnDynReplacement, pmOps, Op.isAux, Op.meaning, hg, h1, ls, lb, hdiv']
          · simp only [hs]
            by_cases hgc : g = n.c
            · simp [hgc, ls, lb, Op.meaning, hg, h1] at *
            · simp [hgc, ls, lb, gnReplacement, pmOps, Op.isAux, Op.meaning, hg, h1, hdiv']
        · simp [hl] at hvalid

/-- **Validity implies goodness**: an operator form that is valid at `s` makes every later conversion step good. -/
theorem good_of_valid (op : Op) (s v' : Nat) (hv : (op.meaning s).isSome) (hle : s ≤ v') : Good Op.meaning op v' := by
  cases op with
  | plain n => exact good_of_quiet _ rfl
  | const a b => exact good_of_quiet _ rfl
  | call f => exact good_of_quiet _ rfl
  | gridSample m a p =>
    by_cases h : v' = 19
    · subst h
      refine good_gs m a p ?_
      have hs : s ≤ 19 := hle
      simpa [Op.meaning, gsInterp, hs] using hv
    · exact good_of_quiet _ (by simp [adapt, h])
  | dft ax inv one hasLen axisIn rank =>
    by_cases h : v' = 19
    · subst h
      have hs : s ≤ 19 := hle
      cases axisIn with
      | none => exact good_dft ax inv one hasLen rank
      | some q => simp [Op.meaning, hs] at hv
    · exact good_of_quiet _ (by simp [adapt, h])
  | groupNorm n =>
    by_cases h : v' = 20
    · subst h
      refine good_gn n ?_
      have hs : s ≤ 20 := hle
      simpa [Op.meaning, hs] using hv
    · exact good_of_quiet _ (by simp [adapt, h])

theorem ValidLeaf.toSrc {s : Nat} {l : Leaf} (h : ValidLeaf s l) : SrcLeaf Op.meaning s l :=
  ⟨h.ver, h.noRef, fun hd v' hv' => by
    have hv := h.valid
    simp only [Leaf.readAt, hd, if_true, h.ver hd] at hv
    exact good_of_valid l.op s v' hv hv'⟩

theorem ValidD.toSrc {s : Nat} : (d : Nat) → (a : NodeD d) → ValidD s d a → SrcD Op.meaning s d a
  | 0, _, h => ValidLeaf.toSrc h
  | d + 1, n, h => ⟨h.leaf.toSrc, h.ctrl, fun b hb a ha => ValidD.toSrc d a (h.bodies b hb a ha), h.customFlat⟩

theorem ValidD.leaves_valid {s : Nat} : (d : Nat) → (a : NodeD d) → ValidD s d a →
    ∀ x ∈ Inner.leaves a, (x.op.meaning (x.readAt s)).isSome
  | 0, l, h => by
    intro x hx
    have hx' : x ∈ [l] := hx
    rw [List.mem_singleton.mp hx']; exact h.valid
  | d + 1, n, h => by
    intro x hx
    have hx' : x ∈ Node.leaves n := hx
    rcases List.mem_cons.mp hx' with h' | h'
    · rw [h']; exact h.leaf.valid
    · obtain ⟨a, ha, hxa⟩ := List.mem_flatMap.mp h'
      obtain ⟨b, hb, ha'⟩ := List.mem_flatten.mp ha
      exact ValidD.leaves_valid d a (h.bodies b hb a ha') x hxa

theorem pmLeaves_valid (s : Nat) (ls : List Leaf) (h : ∀ l ∈ ls, (l.op.meaning (l.readAt s)).isSome) :
    ∀ x ∈ pmLeaves Op.meaning s ls, x.isSome := by
  induction ls with
  | nil => intro x hx; simp [pmLeaves] at hx
  | cons l ls ih =>
    intro x hx
    simp only [pmLeaves] at hx
    split at hx
    · exact ih (fun l' hl' => h l' (List.mem_cons_of_mem _ hl')) x hx
    · rcases List.mem_cons.mp hx with h' | h'
      · rw [h']; exact h l (List.mem_cons_self ..)
      · exact ih (fun l' hl' => h l' (List.mem_cons_of_mem _ hl')) x h'

theorem ValidModel.selfConsistent {s d : Nat} {m : Model (NodeD d)} (h : ValidModel s m) :
    SelfConsistent Op.meaning s m :=
  ⟨h.declared, h.noAi, h.inlined, fun n hn => ValidD.toSrc (d + 1) n (h.nodes n hn)⟩

theorem ValidModel.readings_valid {s d : Nat} {m : Model (NodeD d)} (h : ValidModel s m) :
    ∀ x ∈ pmNodes Op.meaning s m.nodes, x.isSome := by
  refine pmLeaves_valid s _ (fun l hl => ?_)
  obtain ⟨n, hn, hl'⟩ := List.mem_flatMap.mp hl
  exact ValidD.leaves_valid (d + 1) n (h.nodes n hn) l hl'

/-- An adapter raises only for a GroupNormalization at step 20→21 that lacks an input or `num_groups`. -/
theorem adapt_raised_iff (op : Op) (v : Nat) :
    adapt op v = .raised ↔
      ∃ n, op = .groupNorm n ∧ v = 20 ∧ ((n.hasX && n.hasScale && n.hasBias) = false ∨ n.groups = none) := by
  cases op with
  | plain n => simp [adapt]
  | const a b => simp [adapt]
  | call f => simp [adapt]
  | gridSample m a p =>
    simp only [adapt]
    constructor
    · intro h
      split at h
      · simp only [gridsample_19_20] at h
        split at h <;> (try split at h) <;> cases h
      · cases h
    · rintro ⟨n, h, _⟩; cases h
  | dft a i o l ai r =>
    simp only [adapt]
    constructor
    · intro h
      split at h
      · simp [dft_19_20] at h
      · cases h
    · rintro ⟨n, h, _⟩; cases h
  | groupNorm n =>
    simp only [adapt]
    constructor
    · intro h
      split at h
      · rename_i hv
        refine ⟨n, rfl, hv, ?_⟩
        unfold groupnormalization_20_21 at h
        by_cases h1 : (!(n.hasX && n.hasScale && n.hasBias)) = true
        · left
          cases hq : (n.hasX && n.hasScale && n.hasBias) with
          | false => rfl
          | true => rw [hq] at h1; cases h1
        · simp only [h1] at h
          cases hg : n.groups with
          | none => right; rfl
          | some g =>
            simp only [hg] at h
            simp at h
            split at h
            · cases h
            · split at h <;> cases h
      · cases h
    · rintro ⟨n', h, hv, hc⟩
      injection h with h; subst h; subst hv
      simp only [if_true, groupnormalization_20_21]
      rcases hc with hc | hc
      · simp [hc]
      · by_cases h1 : (!(n.hasX && n.hasScale && n.hasBias)) = true
        · simp [h1]
        · simp [h1, hc]

theorem good_unit_of_wellformed {op : Op} (h : WellFormedGN op) (v : Nat) : Good (fun _ _ => ()) op v := by
  unfold Good
  cases hA : adapt op v with
  | raised =>
    obtain ⟨n, hop, _, hc⟩ := (adapt_raised_iff op v).mp hA
    obtain ⟨⟨hx, hs, hb⟩, hg⟩ := h n hop
    rcases hc with hc | hc
    · simp [hx, hs, hb] at hc
    · exact absurd hc hg
  | noAdapter => trivial
  | retNone => rfl
  | replaced news => exact replaced_one_principal hA

theorem ShapeD.toSrc {β} {μ : Op → Nat → β} {P : Op → Prop} {s : Nat}
    (hP : ∀ op, P op → ∀ v', s ≤ v' → Good μ op v') : (d : Nat) → (a : NodeD d) → ShapeD P s d a → SrcD μ s d a
  | 0, _, h => ⟨h.ver, h.noRef, fun hd v' hv' => hP _ (h.op hd) v' hv'⟩
  | d + 1, n, h =>
    ⟨⟨h.leaf.ver, h.leaf.noRef, fun hd v' hv' => hP _ (h.leaf.op hd) v' hv'⟩, h.ctrl,
      fun b hb a ha => ShapeD.toSrc hP d a (h.bodies b hb a ha), h.customFlat⟩

theorem ShapeModel.selfConsistent {s d : Nat} {m : Model (NodeD d)} (h : ShapeModel WellFormedGN s m) :
    SelfConsistent (fun _ _ => ()) s m :=
  ⟨h.declared, h.noAi, h.inlined, fun n hn =>
    ShapeD.toSrc (fun _ hw v' _ => good_unit_of_wellformed hw v') (d + 1) n (h.nodes n hn)⟩

end OV.C10
