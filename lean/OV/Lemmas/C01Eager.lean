import OV.Model.C01Eager
/-! Lemmas for the eager calling convention (`OV/Model/C01Eager.lean`). -/
namespace OV.C01.Eager
open OV.C01

variable {V : Type}

theorem bindPos_nil {A} (kw : List (Name × A)) (ps : List (PyParam A)) : bindPos kw ps [] = bindRest kw ps := by
  cases ps <;> rfl

theorem sigMatch_any {A} : ∀ (ps : List SigParam) (qs : List (PyParam A)) (n : Name), sigMatch ps qs = true →
    qs.any (fun q => q.name = n) = ps.any (fun p => p.name = n)
  | [], [], _, _ => rfl
  | [], _ :: _, _, h => by simp [sigMatch] at h
  | _ :: _, [], _, h => by simp [sigMatch] at h
  | p :: ps, q :: qs, n, h => by
    simp only [sigMatch, Bool.and_eq_true, decide_eq_true_eq] at h
    simp only [List.any_cons, sigMatch_any ps qs n h.2, h.1.1.1.1]

theorem sigMatch_length {A} : ∀ (ps : List SigParam) (qs : List (PyParam A)), sigMatch ps qs = true → qs.length = ps.length
  | [], [], _ => rfl
  | [], _ :: _, h => by simp [sigMatch] at h
  | _ :: _, [], h => by simp [sigMatch] at h
  | p :: ps, q :: qs, h => by
    simp only [sigMatch, Bool.and_eq_true] at h
    simp [sigMatch_length ps qs h.2]

/-- the tagging loop on a call CPython accepts -/
theorem tagLoop_spec {A} (d : SigParam → A) (kw : List (Name × A)) :
    ∀ (ps : List SigParam) (qs : List (PyParam A)) (as0 as : List A) (i : Nat) (env : List (Name × A)),
      sigMatch ps qs = true → as0.drop i = as → bindPos kw qs as = .ok env →
      (∀ p ∈ ps.take as.length, lk p.name kw = none) →
      tagLoop false d kw i as0 ps = .ok (tagSpec kw as ps)
  | [], [], as0, as, i, env, _, _, hb, _ => by
    cases as with
    | nil => simp [tagLoop, tagSpec, kwTag]
    | cons a as => simp [bindPos] at hb
  | [], _ :: _, _, _, _, _, h, _, _, _ => by simp [sigMatch] at h
  | _ :: _, [], _, _, _, _, h, _, _, _ => by simp [sigMatch] at h
  | p :: ps, q :: qs, as0, as, i, env, h, hd, hb, hpos => by
    simp only [sigMatch, Bool.and_eq_true, decide_eq_true_eq, Bool.not_eq_true', Bool.or_eq_true] at h
    obtain ⟨⟨⟨⟨hn, hv⟩, hin⟩, hdf⟩, hrest⟩ := h
    cases as with
    | cons a as' =>
      have hi : as0[i]? = some a := by
        have := congrArg List.head? hd
        simpa [List.head?_drop] using this
      have hd' : as0.drop (i + 1) = as' := by
        have := congrArg List.tail hd
        simpa [List.tail_drop] using this
      simp only [bindPos] at hb
      cases hr : bindPos kw qs as' with
      | error e => simp [hr] at hb
      | ok r =>
        have hk0 : lk p.name kw = none := hpos p (by simp)
        have ih := tagLoop_spec d kw ps qs as0 as' (i + 1) r hrest hd' hr
          (fun p' hp' => hpos p' (by simp only [List.length_cons, List.take_succ_cons]; exact List.mem_cons_of_mem _ hp'))
        simp [tagLoop, hv, hi, ih, tagSpec, hk0]
    | nil =>
      have hi : as0[i]? = none := by
        have : as0.length ≤ i := by simpa [List.drop_eq_nil_iff] using hd
        simp [this]
      have hd' : as0.drop (i + 1) = [] := by
        have : as0.length ≤ i := by simpa [List.drop_eq_nil_iff] using hd
        simp [List.drop_eq_nil_iff]; omega
      simp only [bindPos_nil, bindRest, ← hn] at hb
      cases hk : lk p.name kw with
      | some v =>
        simp only [hk] at hb
        cases hr : bindRest kw qs with
        | error e => simp [hr] at hb
        | ok r =>
          have ih := tagLoop_spec d kw ps qs as0 [] (i + 1) r hrest hd' (by simpa [bindPos_nil] using hr) (by simp)
          simp [tagLoop, hv, hi, hk, ih, tagSpec, kwTag]
      | none =>
        simp only [hk] at hb
        cases hq : q.dflt with
        | none => simp [hq] at hb
        | some dv =>
          simp only [hq] at hb
          cases hr : bindRest kw qs with
          | error e => simp [hr] at hb
          | ok r =>
            have ih := tagLoop_spec d kw ps qs as0 [] (i + 1) r hrest hd' (by simpa [bindPos_nil] using hr) (by simp)
            have hdf' : p.hasDefault = true ∨ p.required = false := by
              rcases hdf with (hdf | hdf) | hdf
              · simp [hq] at hdf
              · exact Or.inl hdf
              · exact Or.inr hdf
            rcases hdf' with h1 | h1
            · simp [tagLoop, hv, hi, hk, ih, tagSpec, kwTag, h1]
            · cases h2 : p.hasDefault <;> simp [tagLoop, hv, hi, hk, ih, tagSpec, kwTag, h1, h2]


theorem lk_none_of_keys {A B} (qs : List (PyParam B)) (n : Name) :
    ∀ (K : List (Name × A)), K.any (fun e => !(qs.any (fun q => q.name = e.1))) = false →
      qs.any (fun q => q.name = n) = false → lk n K = none
  | [], _, _ => rfl
  | (k, v) :: K, h, hn => by
    simp only [List.any_cons, Bool.or_eq_false_iff, Bool.not_eq_false'] at h
    have hk : k ≠ n := by
      intro hkn; subst hkn; rw [hn] at h; exact Bool.noConfusion h.1
    simp only [lk, hk, if_false]
    exact lk_none_of_keys qs n K h.2 hn

theorem bindRest_cons_notin {A} (n : Name) (y : A) (K : List (Name × A)) :
    ∀ (qs : List (PyParam A)), qs.any (fun q => q.name = n) = false → bindRest ((n, y) :: K) qs = bindRest K qs
  | [], _ => rfl
  | q :: qs, h => by
    simp only [List.any_cons, Bool.or_eq_false_iff, decide_eq_false_iff_not] at h
    have hne : ¬ n = q.name := fun hh => h.1 hh.symm
    simp only [bindRest, lk, hne, if_false, bindRest_cons_notin n y K qs h.2]

theorem keys_mono {A B} (q : PyParam B) (qs : List (PyParam B)) :
    ∀ (K : List (Name × A)), K.any (fun e => !(qs.any (fun q => q.name = e.1))) = false →
      K.any (fun e => !((q :: qs).any (fun q => q.name = e.1))) = false
  | [], _ => rfl
  | (k, v) :: K, h => by
    simp only [List.any_cons, Bool.or_eq_false_iff, Bool.not_eq_false'] at h ⊢
    exact ⟨by simp [h.1], keys_mono q qs K h.2⟩

theorem rest_sim (mk : Mk V) (kw : List (Name × Arg V)) :
    ∀ (ps : List SigParam) (qs : List (PyParam (Arg V))) (env : List (Name × Arg V)),
      sigMatch ps qs = true → nodupP ps = true → bindRest kw qs = .ok env →
      (∀ e, adaptKw mk (kwTag kw ps) = .error e → adaptEnv mk ps env = .error e) ∧
      (∀ K, adaptKw mk (kwTag kw ps) = .ok K → ∃ env', adaptEnv mk ps env = .ok env' ∧ bindRest K qs = .ok env' ∧
          K.any (fun e => !(qs.any (fun q => q.name = e.1))) = false) ∧
      flagKw (kwTag kw ps) = flagEnv ps env
  | [], [], env, _, _, hb => by
    simp only [bindRest, Except.ok.injEq] at hb
    subst hb
    simp [kwTag, adaptKw, adaptEnv, bindRest, flagKw, flagEnv]
  | [], _ :: _, _, h, _, _ => by simp [sigMatch] at h
  | _ :: _, [], _, h, _, _ => by simp [sigMatch] at h
  | p :: ps, q :: qs, env, h, hnd, hb => by
    simp only [sigMatch, Bool.and_eq_true, decide_eq_true_eq, Bool.not_eq_true', Bool.or_eq_true] at h
    obtain ⟨⟨⟨⟨hn, hv⟩, hin⟩, hdf⟩, hrest⟩ := h
    simp only [nodupP, Bool.and_eq_true, Bool.not_eq_true'] at hnd
    have hq : qs.any (fun q' => q'.name = q.name) = false := by
      rw [sigMatch_any ps qs q.name hrest, ← hn]; exact hnd.1
    simp only [bindRest, ← hn] at hb
    cases hk : lk p.name kw with
    | some v =>
      simp only [hk] at hb
      cases hr : bindRest kw qs with
      | error e => simp [hr] at hb
      | ok r =>
        simp only [hr, Except.ok.injEq] at hb
        subst hb
        obtain ⟨ih1, ih2, ih3⟩ := rest_sim mk kw ps qs r hrest hnd.2 hr
        simp only [kwTag, hk, adaptKw, adaptEnv, flagKw, flagEnv, ih3]
        cases ha : adaptTagged mk p v with
        | error e0 => simp
        | ok y =>
          cases hK : adaptKw mk (kwTag kw ps) with
          | error e1 => simp [ih1 e1 hK]
          | ok K' =>
            obtain ⟨env', he1, he2, he3⟩ := ih2 K' hK
            refine ⟨by simp, ?_, trivial⟩
            intro K hKK
            simp only [Except.ok.injEq] at hKK
            subst hKK
            refine ⟨(p.name, y) :: env', by simp [he1], ?_, ?_⟩
            · rw [bindRest]
              simp only [← hn, lk, if_true]
              rw [hn, bindRest_cons_notin q.name y K' qs hq, he2]
            · simp only [List.any_cons, hn, decide_true, Bool.true_or, Bool.not_true, Bool.false_or]
              exact keys_mono q qs K' he3
    | none =>
      simp only [hk] at hb
      cases hqd : q.dflt with
      | none => simp [hqd] at hb
      | some dv =>
        simp only [hqd] at hb
        cases hr : bindRest kw qs with
        | error e => simp [hr] at hb
        | ok r =>
          simp only [hr, Except.ok.injEq] at hb
          subst hb
          obtain ⟨ih1, ih2, ih3⟩ := rest_sim mk kw ps qs r hrest hnd.2 hr
          have hpi : p.isInput = false := by
            rcases hin with h1 | h1
            · exact h1
            · simp [hqd] at h1
          simp only [kwTag, hk, adaptEnv, flagEnv, ih3, adaptTagged, hpi, Bool.false_and, Bool.false_or]
          refine ⟨?_, ?_, trivial⟩
          · intro e he; simp [ih1 e he]
          · intro K hK
            obtain ⟨env', he1, he2, he3⟩ := ih2 K hK
            refine ⟨(p.name, dv) :: env', by simp [he1], ?_, keys_mono q qs K he3⟩
            rw [bindRest, lk_none_of_keys qs q.name K he3 hq, hqd]
            simp [he2, hn]

theorem bindPos_len {A} (kw : List (Name × A)) : ∀ (qs : List (PyParam A)) (as : List A) (env : List (Name × A)),
    bindPos kw qs as = .ok env → as.length ≤ qs.length
  | _, [], _, _ => by simp
  | [], _ :: _, _, h => by simp [bindPos] at h
  | q :: qs, a :: as, env, h => by
    simp only [bindPos] at h
    cases hr : bindPos kw qs as with
    | error e => simp [hr] at h
    | ok r => simpa using bindPos_len kw qs as r hr

theorem pos_sim (mk : Mk V) (kw : List (Name × Arg V)) :
    ∀ (as : List (Arg V)) (ps : List SigParam) (qs : List (PyParam (Arg V))) (env : List (Name × Arg V)),
      sigMatch ps qs = true → nodupP ps = true → bindPos kw qs as = .ok env →
      (∀ e, adaptArgs mk (tagSpec kw as ps).1 = .error e → adaptEnv mk ps env = .error e) ∧
      (∀ pos, adaptArgs mk (tagSpec kw as ps).1 = .ok pos → pos.length = as.length ∧
        (∀ e, adaptKw mk (tagSpec kw as ps).2 = .error e → adaptEnv mk ps env = .error e) ∧
        (∀ K, adaptKw mk (tagSpec kw as ps).2 = .ok K → ∃ env', adaptEnv mk ps env = .ok env' ∧
          bindPos K qs pos = .ok env' ∧
          K.any (fun e => !((qs.drop as.length).any (fun q => q.name = e.1))) = false)) ∧
      (flagArgs (tagSpec kw as ps).1 || flagKw (tagSpec kw as ps).2) = flagEnv ps env
  | [], ps, qs, env, h, hnd, hb => by
    rw [bindPos_nil] at hb
    obtain ⟨r1, r2, r3⟩ := rest_sim mk kw ps qs env h hnd hb
    simp only [tagSpec, adaptArgs, flagArgs, Bool.false_or, r3]
    refine ⟨by simp, ?_, trivial⟩
    intro pos hpos
    simp only [Except.ok.injEq] at hpos
    subst hpos
    refine ⟨rfl, r1, ?_⟩
    intro K hK
    obtain ⟨env', he1, he2, he3⟩ := r2 K hK
    exact ⟨env', he1, by rw [bindPos_nil]; exact he2, by simpa using he3⟩
  | _ :: _, [], [], _, _, _, hb => by simp [bindPos] at hb
  | _ :: _, [], _ :: _, _, h, _, _ => by simp [sigMatch] at h
  | _ :: _, _ :: _, [], _, h, _, _ => by simp [sigMatch] at h
  | a :: as, p :: ps, q :: qs, env, h, hnd, hb => by
    simp only [sigMatch, Bool.and_eq_true, decide_eq_true_eq, Bool.not_eq_true', Bool.or_eq_true] at h
    obtain ⟨⟨⟨⟨hn, hv⟩, hin⟩, hdf⟩, hrest⟩ := h
    simp only [nodupP, Bool.and_eq_true, Bool.not_eq_true'] at hnd
    simp only [bindPos] at hb
    cases hr : bindPos kw qs as with
    | error e => simp [hr] at hb
    | ok r =>
      simp only [hr, Except.ok.injEq] at hb
      subst hb
      obtain ⟨ih1, ih2, ih3⟩ := pos_sim mk kw as ps qs r hrest hnd.2 hr
      simp only [tagSpec, adaptArgs, adaptEnv, flagArgs, flagEnv, ← ih3, Bool.or_assoc]
      cases ha : adaptTagged mk p a with
      | error e0 => simp
      | ok y =>
        cases hA : adaptArgs mk (tagSpec kw as ps).1 with
        | error e1 => simp [ih1 e1 hA]
        | ok pos' =>
          obtain ⟨hl, ik1, ik2⟩ := ih2 pos' hA
          refine ⟨by simp, ?_, trivial⟩
          intro pos hpos
          simp only [Except.ok.injEq] at hpos
          subst hpos
          refine ⟨by simp [hl], ?_, ?_⟩
          · intro e he; simp [ik1 e he]
          · intro K hK
            obtain ⟨env', he1, he2, he3⟩ := ik2 K hK
            refine ⟨(q.name, y) :: env', by simp [he1], ?_, by simpa using he3⟩
            simp [bindPos, he2]


theorem keys_weaken {A B} (ps : List SigParam) (qs : List (PyParam B)) (n : Nat) (h : sigMatch ps qs = true) :
    ∀ (K : List (Name × A)), K.any (fun e => !((qs.drop n).any (fun q => q.name = e.1))) = false →
      K.any (fun e => !(ps.any (fun p => p.name = e.1))) = false
  | [], _ => rfl
  | (k, v) :: K, hK => by
    simp only [List.any_cons, Bool.or_eq_false_iff, Bool.not_eq_false'] at hK ⊢
    refine ⟨?_, keys_weaken ps qs n h K hK.2⟩
    rw [← sigMatch_any ps qs k h]
    obtain ⟨q, hq, hqn⟩ := List.any_eq_true.mp hK.1
    exact List.any_eq_true.mpr ⟨q, List.mem_of_mem_drop hq, hqn⟩

theorem sigMatch_drop {A} : ∀ (n : Nat) (ps : List SigParam) (qs : List (PyParam A)), sigMatch ps qs = true →
    sigMatch (ps.drop n) (qs.drop n) = true
  | 0, _, _, h => h
  | _ + 1, [], [], _ => rfl
  | _ + 1, [], _ :: _, h => by simp [sigMatch] at h
  | _ + 1, _ :: _, [], h => by simp [sigMatch] at h
  | n + 1, p :: ps, q :: qs, h => by
    simp only [sigMatch, Bool.and_eq_true] at h
    simpa using sigMatch_drop n ps qs h.2

theorem sigMatch_noVar {A} : ∀ (ps : List SigParam) (qs : List (PyParam A)), sigMatch ps qs = true →
    ps.any (fun p => p.isInput && p.variadic) = false
  | [], _, _ => rfl
  | _ :: _, [], h => by simp [sigMatch] at h
  | p :: ps, q :: qs, h => by
    simp only [sigMatch, Bool.and_eq_true, decide_eq_true_eq, Bool.not_eq_true'] at h
    simp only [List.any_cons, h.1.1.1.2, Bool.and_false, Bool.false_or]
    exact sigMatch_noVar ps qs h.2

theorem nodup_take_drop : ∀ (ps : List SigParam) (n : Nat) (p : SigParam), nodupP ps = true → p ∈ ps.take n →
    (ps.drop n).any (fun q => q.name = p.name) = false
  | [], _, _, _, hp => by simp at hp
  | _ :: _, 0, _, _, hp => by simp at hp
  | x :: xs, n + 1, p, hnd, hp => by
    simp only [nodupP, Bool.and_eq_true, Bool.not_eq_true'] at hnd
    simp only [List.take_succ_cons, List.mem_cons] at hp
    simp only [List.drop_succ_cons]
    rcases hp with rfl | hp
    · rw [List.any_eq_false] at hnd ⊢
      intro q hq
      exact hnd.1 q (List.mem_of_mem_drop hq)
    · exact nodup_take_drop xs n p hnd.2 hp

/-- `tag_arguments_with_signature` on a call CPython accepts -/
theorem tagArguments_spec {A} (ae : Bool) (d : SigParam → A) (ps : List SigParam) (qs : List (PyParam A))
    (args : List A) (kw env : List (Name × A)) (h : sigMatch ps qs = true) (hnd : nodupP ps = true)
    (hpy : pyBind qs args kw = .ok env) :
    tagArguments false ae d ps args kw = .ok (tagSpec kw args ps) := by
  unfold pyBind at hpy
  split at hpy
  · simp at hpy
  · split at hpy
    · simp at hpy
    · rename_i h1 h2
      have hk := keys_weaken ps qs args.length h kw (by simpa using h2)
      have hlen : ¬ args.length > ps.length := by rw [← sigMatch_length ps qs h]; exact h1
      simp only [tagArguments, hk, Bool.false_and, Bool.false_eq_true, if_false, sigMatch_noVar ps qs h, Bool.not_false,
        Bool.true_and, decide_eq_true_eq, hlen]
      refine tagLoop_spec d kw ps qs args args 0 env h rfl hpy ?_
      intro p hp
      have hd := nodup_take_drop ps args.length p hnd hp
      rw [← sigMatch_any (ps.drop args.length) (qs.drop args.length) p.name (sigMatch_drop args.length ps qs h)] at hd
      exact lk_none_of_keys (qs.drop args.length) p.name kw (by simpa using h2) hd

theorem eagerCall_python (mk : Mk V) (ae : Bool) (ps : List SigParam) (qs : List (PyParam (Arg V)))
    (args : List (Arg V)) (kw env : List (Name × Arg V))
    (h : sigMatch ps qs = true) (hnd : nodupP ps = true) (hpy : pyBind qs args kw = .ok env) :
    eagerCall mk ae ps qs args kw =
      match adaptEnv mk ps env with
      | .error e => .error e
      | .ok env' => .ok (env', flagEnv ps env) := by
  have ht := tagArguments_spec ae (fun _ => Arg.none) ps qs args kw env h hnd hpy
  unfold pyBind at hpy
  split at hpy
  · simp at hpy
  · split at hpy
    · simp at hpy
    · rename_i h1 h2
      obtain ⟨r1, r2, r3⟩ := pos_sim mk kw args ps qs env h hnd hpy
      simp only [eagerCall, ht]
      cases hA : adaptArgs mk (tagSpec kw args ps).1 with
      | error e => simp [r1 e hA]
      | ok pos =>
        obtain ⟨hl, k1, k2⟩ := r2 pos hA
        cases hK : adaptKw mk (tagSpec kw args ps).2 with
        | error e => simp [k1 e hK]
        | ok K =>
          obtain ⟨env', he1, he2, he3⟩ := k2 K hK
          simp only [he1, pyBind, hl, if_neg h1, he3, Bool.false_eq_true, if_false, he2, r3]

mutual
theorem toUser_adapt (mk : Mk V) : ∀ x : Arg V, userVal x = true →
    ∃ y, adapt mk x = .ok y ∧ toUser y = .ok x
  | .arr v, _ => ⟨.ten v, rfl, rfl⟩
  | .none, _ => ⟨.none, rfl, rfl⟩
  | .list xs, h => by
    obtain ⟨ys, h1, h2⟩ := toUser_adaptL mk xs (by simpa [userVal] using h)
    exact ⟨.list ys, by simp [adapt, h1], by simp [toUser, h2]⟩
  | .tuple xs, h => by
    obtain ⟨ys, h1, h2⟩ := toUser_adaptL mk xs (by simpa [userVal] using h)
    exact ⟨.tuple ys, by simp [adapt, h1], by simp [toUser, h2]⟩
  | .ten _, h => by simp [userVal] at h
  | .bool _, h => by simp [userVal] at h
  | .flt _, h => by simp [userVal] at h
  | .int _, h => by simp [userVal] at h
  | .other _, h => by simp [userVal] at h
theorem toUser_adaptL (mk : Mk V) : ∀ xs : List (Arg V), userValL xs = true →
    ∃ ys, adaptL mk xs = .ok ys ∧ toUserL ys = .ok xs
  | [], _ => ⟨[], rfl, rfl⟩
  | x :: xs, h => by
    simp only [userValL, Bool.and_eq_true] at h
    obtain ⟨y, h1, h2⟩ := toUser_adapt mk x h.1
    obtain ⟨ys, h3, h4⟩ := toUser_adaptL mk xs h.2
    exact ⟨y :: ys, by simp [adaptL, h1, h3], by simp [toUserL, h2, h4]⟩
end

end OV.C01.Eager
