import OV.Model.C10Imports
/-! Helper lemmas for the opset-import theorems (core Lean only). -/
namespace OV.C10.Imports

theorem has_append_left {d e : Dict} {k : String} (h : d.has k = true) : Dict.has (d ++ e) k = true := by
  simp only [Dict.has, List.any_append, Bool.or_eq_true] at *; exact Or.inl h

theorem has_append_single (d : Dict) (k : String) (v : Nat) : Dict.has (d ++ [(k, v)]) k = true := by
  simp [Dict.has, List.any_append]

theorem addMissing_step_mono (a : Dict) (e : String × Nat) {k : String} (h : a.has k = true) :
    Dict.has (if a.has e.1 then a else a ++ [e]) k = true := by
  split
  · exact h
  · exact has_append_left h

theorem addMissing_mono (f : Dict) : ∀ (d : Dict) {k : String}, d.has k = true → (d.addMissing f).has k = true := by
  induction f with
  | nil => intro d k h; exact h
  | cons e f ih =>
    intro d k h
    simp only [Dict.addMissing, List.foldl_cons]
    exact ih _ (addMissing_step_mono d e h)

theorem addMissing_adds (f : Dict) : ∀ (d : Dict) {k : String}, f.has k = true → (d.addMissing f).has k = true := by
  induction f with
  | nil => intro d k h; simp [Dict.has] at h
  | cons e f ih =>
    intro d k h
    simp only [Dict.addMissing, List.foldl_cons]
    simp only [Dict.has, List.any_cons, Bool.or_eq_true] at h
    rcases h with h | h
    · have hk : e.1 = k := by simpa using h
      refine addMissing_mono f _ ?_
      split
      · rename_i hc; rw [← hk]; exact hc
      · rw [← hk]; cases e; exact has_append_single _ _ _
    · exact ih _ h

theorem foldl_addMissing_mono : ∀ (fs : List Dict) (d : Dict) {k : String}, d.has k = true →
    (fs.foldl Dict.addMissing d).has k = true := by
  intro fs
  induction fs with
  | nil => intro d k h; exact h
  | cons f fs ih => intro d k h; exact ih _ (addMissing_mono f d h)

theorem foldl_addMissing_adds : ∀ (fs : List Dict) (d : Dict) {k : String} (f : Dict), f ∈ fs → f.has k = true →
    (fs.foldl Dict.addMissing d).has k = true := by
  intro fs
  induction fs with
  | nil => intro d k f hf; simp at hf
  | cons g fs ih =>
    intro d k f hf hk
    rcases List.mem_cons.mp hf with h | h
    · subst h; exact foldl_addMissing_mono fs _ (addMissing_adds f d hk)
    · exact ih _ f h hk

theorem removeUnused_keeps {d : Dict} {used : List String} {k : String} (h : d.has k = true) (hu : k ∈ used) :
    (removeUnused d used).has k = true := by
  simp only [Dict.has, removeUnused, List.any_eq_true, List.mem_filter] at *
  obtain ⟨e, he, hk⟩ := h
  have hk' : e.1 = k := by simpa using hk
  exact ⟨e, ⟨he, by rw [hk']; simp [hu]⟩, hk⟩

theorem set_keeps {d : Dict} {k k' : String} {v : Nat} (h : d.has k = true) : (d.set k' v).has k = true := by
  unfold Dict.set
  split
  · simp only [Dict.has, List.any_eq_true, List.mem_map] at *
    obtain ⟨e, he, hk⟩ := h
    by_cases hq : (e.1 == k') = true
    · refine ⟨(k', v), ⟨e, he, by simp [hq]⟩, ?_⟩
      have h1 : e.1 = k' := by simpa using hq
      have h2 : e.1 = k := by simpa using hk
      simp [← h1, h2]
    · exact ⟨e, ⟨e, he, by simp [hq]⟩, hk⟩
  · exact has_append_left h

theorem get_set (d : Dict) (k : String) (v : Nat) : (d.set k v).get k = some v := by
  unfold Dict.set
  split
  · rename_i hc
    induction d with
    | nil => simp [Dict.has] at hc
    | cons e d ih =>
      simp only [Dict.get, List.map_cons, List.find?_cons]
      by_cases hq : (e.1 == k) = true
      · simp [hq]
      · simp only [hq]
        have hq' : (e.1 == k) = false := by simpa using hq
        simp only [hq', Bool.false_eq_true, if_false]
        have : Dict.has d k = true := by simpa [Dict.has, hq'] using hc
        exact ih this
  · rename_i hc
    have hn : d.find? (fun e => e.1 == k) = none := by
      rw [List.find?_eq_none]
      intro e he hk
      exact hc (by simp only [Dict.has, List.any_eq_true]; exact ⟨e, he, hk⟩)
    simp [Dict.get, List.find?_append, hn]

end OV.C10.Imports
