import OV.Lemmas.C06Top
import OV.Lemmas.C06CompleteOr
/-!
  C06 — the semantic half of `commute`: for patterns whose value patterns are `ANY`, node outputs and
  *named* `Var`s (object identity immaterial), every variant built by `GraphPattern.commute` **is** the
  pattern with the operands of the masked nodes exchanged (`swapPat`), so the variants are exactly the
  swap variants of the pattern.
-/
namespace OV.C06

/-- value patterns whose object identity is immaterial: `ANY`, node outputs, named `Var`s -/
def VPat.namedLeaf : VPat → Bool
  | .any => true
  | .out .. => true
  | .var _ name isVar _ _ => isVar && name.isSome
  | _ => false

def NPat.namedLeaves (n : NPat) : Bool :=
  n.inputs.all (fun i => match i with | some v => v.namedLeaf | none => true)

/-- every input of every node pattern, and every pattern output, is `ANY`, a node output or a named `Var` -/
def GPat.namedLeaves (p : GPat) : Bool := p.nodes.all NPat.namedLeaves && p.outputs.all VPat.namedLeaf

/-- node pattern `n` with its operands exchanged iff `b`; a copy carries no `str`-op flag (its operator
identifier is recomputed from the exact op pattern after repair C06-F5b, `NPat.opIdF`) -/
def swapNode (n : NPat) (b : Bool) : NPat :=
  { n with inputs := if b then n.inputs.reverse else n.inputs, opIsStr := false }

/-- the pattern with the operands of the masked nodes exchanged -/
def swapPat (p : GPat) (m : List Bool) : GPat := { p with nodes := List.zipWith swapNode p.nodes m }

/-- the variant `commute` is meant to produce for mask `m`: the pattern itself when nothing is swapped -/
def variantOf (p : GPat) (m : List Bool) : GPat := if m.any id then swapPat p m else p

theorem cloneV_namedLeaf : ∀ (vp : VPat) (k : Nat), vp.namedLeaf = true → cloneV vp k = (vp, k)
  | .any, _, _ => by simp [cloneV]
  | .out _ _, _, _ => by simp [cloneV]
  | .var id name true canNone check, k, h => by
    simp only [VPat.namedLeaf, Bool.true_and] at h
    simp [cloneV, h]
  | .var _ _ false _ _, _, h => by simp [VPat.namedLeaf] at h
  | .const .., _, h => by simp [VPat.namedLeaf] at h
  | .orD .., _, h => by simp [VPat.namedLeaf] at h
  | .orB .., _, h => by simp [VPat.namedLeaf] at h

theorem cloneInputs_named : ∀ (ins : List (Option VPat)) (k : Nat),
    (ins.all (fun i => match i with | some v => v.namedLeaf | none => true)) = true →
    cloneInputs ins k = (ins, k)
  | [], _, _ => by simp [cloneInputs]
  | none :: rest, k, h => by
    simp only [List.all_cons, Bool.true_and] at h
    simp [cloneInputs, cloneInputs_named rest k h]
  | some v :: rest, k, h => by
    simp only [List.all_cons, Bool.and_eq_true] at h
    simp [cloneInputs, cloneV_namedLeaf v k h.1, cloneInputs_named rest k h.2]

theorem cloneRaises_named : ∀ (vp : VPat), vp.namedLeaf = true → cloneRaises vp = false
  | .any, _ => by simp [cloneRaises]
  | .out _ _, _ => by simp [cloneRaises]
  | .var .., _ => by simp [cloneRaises]
  | .const .., _ => by simp [cloneRaises]
  | .orD .., _ => by simp [cloneRaises]
  | .orB .., h => by simp [VPat.namedLeaf] at h

theorem cloneRaisesL_named : ∀ (l : List VPat), l.all VPat.namedLeaf = true → cloneRaisesL l = false
  | [], _ => by simp [cloneRaisesL]
  | a :: rest, h => by
    simp only [List.all_cons, Bool.and_eq_true] at h
    simp [cloneRaisesL, cloneRaises_named a h.1, cloneRaisesL_named rest h.2]

theorem cloneNode_named (fix7a : Bool) (np np' : NPat) (b : Bool) (k k' : Nat) (hn : np.namedLeaves = true)
    (h : cloneNode fix7a np b k = .ok (np', k')) : np' = swapNode np b ∧ k' = k := by
  unfold cloneNode at h
  rw [cloneInputs_named np.inputs k hn] at h
  dsimp only at h
  split at h
  · cases h
  · split at h
    · next hb =>
      split at h
      · next x y hxy =>
        cases h
        refine ⟨?_, rfl⟩
        unfold swapNode
        simp [hb, hxy]
      · cases h
    · next hb =>
      cases h
      have : b = false := by simpa using hb
      subst this
      exact ⟨by simp [swapNode], rfl⟩

theorem cloneNodes_named (fix7a : Bool) : ∀ (ns : List NPat) (bs : List Bool) (k : Nat) (l : List NPat) (k' : Nat),
    ns.all NPat.namedLeaves = true → cloneNodes fix7a ns bs k = .ok (l, k') →
    l = List.zipWith swapNode ns bs ∧ k' = k
  | [], bs, k, l, k', _, h => by
    unfold cloneNodes at h
    cases h
    simp
  | np :: rest, [], k, l, k', _, h => by
    unfold cloneNodes at h
    cases h
    simp
  | np :: rest, b :: bs, k, l, k', hn, h => by
    simp only [List.all_cons, Bool.and_eq_true] at hn
    unfold cloneNodes at h
    split at h
    · cases h
    · next np1 k1 h1 =>
      obtain ⟨e1, ek1⟩ := cloneNode_named fix7a np np1 b k k1 hn.1 h1
      split at h
      · cases h
      · next l2 k2 h2 =>
        cases h
        subst ek1
        obtain ⟨e2, ek2⟩ := cloneNodes_named fix7a rest bs _ l2 _ hn.2 h2
        subst e1 e2
        exact ⟨by simp, ek2⟩

theorem cloneOutputs_named (fix7c : Bool) (p : GPat) (newNodes : List NPat) (swaps : List Bool) :
    ∀ (outs : List VPat) (k : Nat), outs.all VPat.namedLeaf = true →
    cloneOutputs fix7c p newNodes swaps outs k = (outs, k)
  | [], _, _ => by simp [cloneOutputs]
  | a :: rest, k, h => by
    simp only [List.all_cons, Bool.and_eq_true] at h
    have ha : cloneOutput fix7c p newNodes swaps a k = (a, k) := by
      unfold cloneOutput
      have hor : orId a = none := by
        cases a <;> simp_all [orId, VPat.namedLeaf]
      cases fix7c <;> simp [hor, cloneV_namedLeaf a k h.1]
    simp [cloneOutputs, ha, cloneOutputs_named fix7c p newNodes swaps rest k h.2]

/-- **every swapped variant is the pattern with the masked operands exchanged** -/
theorem copyGraph_named (fix7a fix7c : Bool) (p q : GPat) (m : List Bool) (hn : p.namedLeaves = true)
    (h : copyGraph fix7a p m fix7c = .ok q) : q = variantOf p m := by
  unfold GPat.namedLeaves at hn
  simp only [Bool.and_eq_true] at hn
  unfold copyGraph at h
  unfold variantOf
  split at h
  · next hx =>
    cases h
    have : m.any id = false := by simpa using hx
    simp [this]
  · next hx =>
    have hany : m.any id = true := by simpa using hx
    simp only [hany, if_true]
    split at h
    · cases h
    · next nodes k hk =>
      obtain ⟨e1, _⟩ := cloneNodes_named fix7a p.nodes m _ nodes k hn.1 hk
      rw [cloneRaisesL_named p.outputs hn.2] at h
      simp only [Bool.and_false, Bool.false_eq_true, if_false] at h
      rw [cloneOutputs_named fix7c p nodes m p.outputs k hn.2] at h
      dsimp only at h
      split at h
      · cases h
        unfold swapPat
        rw [e1]
      · cases h

theorem exceptMapM_eq_map {α β ε} (f : α → Except ε β) (g : α → β) : ∀ (l : List α) (out : List β),
    l.mapM f = .ok out → (∀ a ∈ l, ∀ b, f a = .ok b → b = g a) → out = l.map g := by
  intro l
  induction l with
  | nil =>
    intro out h _
    simp [List.mapM_nil, pure, Except.pure] at h
    simp [← h]
  | cons a l ih =>
    intro out h hg
    rw [List.mapM_cons] at h
    cases hfa : f a with
    | error e =>
      rw [hfa] at h
      have h' : (Except.error e : Except ε (List β)) = .ok out := h
      cases h'
    | ok b0 =>
      cases hbs : List.mapM f l with
      | error e =>
        rw [hfa, hbs] at h
        have h' : (Except.error e : Except ε (List β)) = .ok out := h
        cases h'
      | ok bs =>
        rw [hfa, hbs] at h
        have h' : (Except.ok (b0 :: bs) : Except ε (List β)) = .ok out := h
        cases h'
        rw [hg a (List.mem_cons_self ..) b0 hfa, ih bs hbs (fun a' ha' => hg a' (List.mem_cons_of_mem _ ha'))]
        simp

/-- **`commute p` is the list of all swap variants of `p`**, in mask order -/
theorem commute_named (fix7a fix7b fix7c : Bool) (p : GPat) (l : List GPat) (hn : p.namedLeaves = true)
    (h : commute fix7a p fix7b fix7c = .ok l) : l = (masks fix7b p.nodes).map (variantOf p) := by
  unfold commute at h
  exact exceptMapM_eq_map _ _ _ _ h (fun m _ q hq => copyGraph_named fix7a fix7c p q m hn hq)

/-- the hypotheses under which "a match is reported iff the subgraph is an instance" holds for pattern `q` -/
structure IffHyps (E : Env) (q : GPat) (np0 : NPId) : Prop where
  f3 : E.fixF3 = true
  bk : q.backOk = true
  ex : GPat.exclOk { E with p := q }
  topo : q.topoDeep
  ar : E.fixF1 = true ∨ OutputArityOk q E.g
  single : q.outputNodes = [np0]
  root : OutputsOfRoot q np0

/-- with `commute=True`, some variant reports a match iff the subgraph is an instance of the pattern under
some swap of the operands of its commutative nodes -/
theorem commute_semantic (E : Env) (root : NodeId) (np0 : NPId) (fix7a fix7b fix7c : Bool) (l : List GPat)
    (hn : E.p.namedLeaves = true) (h : commute fix7a E.p fix7b fix7c = .ok l)
    (hH : ∀ m ∈ masks fix7b E.p.nodes, IffHyps E (variantOf E.p m) np0) :
    (∃ q ∈ l, (patternMatch { E with p := q } root false).isSome = true) ↔
      ∃ m ∈ masks fix7b E.p.nodes, ∃ A, Instance { E with p := variantOf E.p m } root A ∧
        ChecksPass (variantOf E.p m) A := by
  rw [commute_named fix7a fix7b fix7c E.p l hn h]
  constructor
  · rintro ⟨q, hq, hs⟩
    obtain ⟨m, hm, rfl⟩ := List.mem_map.1 hq
    have H := hH m hm
    have := (patternMatch_iff_instance { E with p := variantOf E.p m } root np0 H.f3 H.bk H.ex H.topo H.ar
      H.single H.root).1.1 hs
    exact ⟨m, hm, this⟩
  · rintro ⟨m, hm, A, hi, hc⟩
    have H := hH m hm
    refine ⟨variantOf E.p m, List.mem_map.2 ⟨m, hm, rfl⟩, ?_⟩
    exact (patternMatch_iff_instance { E with p := variantOf E.p m } root np0 H.f3 H.bk H.ex H.topo H.ar
      H.single H.root).1.2 ⟨A, hi, hc⟩

/-! ## `Instance` never reads the `str`-op flag -/

def clrStr (n : NPat) : NPat := { n with opIsStr := false }

/-- the two patterns differ at most in the `opIsStr` flags of their node patterns -/
structure SameUpToStr (p1 p2 : GPat) : Prop where
  inputs : p1.inputs = p2.inputs
  outputs : p1.outputs = p2.outputs
  cond : p1.cond = p2.cond
  nodes : p1.nodes.map clrStr = p2.nodes.map clrStr

theorem SameUpToStr.symm {p1 p2 : GPat} (h : SameUpToStr p1 p2) : SameUpToStr p2 p1 :=
  ⟨h.inputs.symm, h.outputs.symm, h.cond.symm, h.nodes.symm⟩

theorem SameUpToStr.get {p1 p2 : GPat} (h : SameUpToStr p1 p2) {i : Nat} {P1 : NPat}
    (h1 : p1.nodes[i]? = some P1) : ∃ P2, p2.nodes[i]? = some P2 ∧ clrStr P1 = clrStr P2 := by
  have := congrArg (fun l => l[i]?) h.nodes
  simp only [List.getElem?_map, h1, Option.map_some] at this
  cases h2 : p2.nodes[i]? with
  | none => simp [h2] at this
  | some P2 => simp [h2] at this; exact ⟨P2, rfl, this⟩

theorem clrStr_fields {P1 P2 : NPat} (h : clrStr P1 = clrStr P2) :
    P1.domain = P2.domain ∧ P1.op = P2.op ∧ P1.inputs = P2.inputs ∧ P1.attrs = P2.attrs ∧
    P1.allowOtherAttrs = P2.allowOtherAttrs ∧ P1.allowOtherInputs = P2.allowOtherInputs ∧
    P1.outputs = P2.outputs ∧ P1.check = P2.check := by
  unfold clrStr at h
  simp only [NPat.mk.injEq] at h
  exact ⟨h.1, h.2.1, h.2.2.2.1, h.2.2.2.2.1, h.2.2.2.2.2.1, h.2.2.2.2.2.2.1, h.2.2.2.2.2.2.2.1, h.2.2.2.2.2.2.2.2⟩

theorem SameUpToStr.outName {p1 p2 : GPat} (h : SameUpToStr p1 p2) (np idx : Nat) :
    p1.outName np idx = p2.outName np idx := by
  unfold GPat.outName
  cases h1 : p1.nodes[np]? with
  | none =>
    cases h2 : p2.nodes[np]? with
    | none => rfl
    | some P2 => obtain ⟨P1, hP1, _⟩ := h.symm.get h2; rw [h1] at hP1; cases hP1
  | some P1 =>
    obtain ⟨P2, hP2, he⟩ := h.get h1
    simp [hP2, (clrStr_fields he).2.2.2.2.2.2.1]

theorem SameUpToStr.vname {p1 p2 : GPat} (h : SameUpToStr p1 p2) (vp : VPat) : p1.vname vp = p2.vname vp := by
  cases vp <;> simp [GPat.vname, h.outName]

theorem SameUpToStr.boundTo {p1 p2 : GPat} (h : SameUpToStr p1 p2) (A : Assign) (vp : VPat)
    (v : Option ValueId) : A.boundTo p1 vp v → A.boundTo p2 vp v := by
  unfold Assign.boundTo
  rw [h.vname vp]
  exact id

theorem envEq (E : Env) (q : GPat) : ({ E with p := q } : Env).g = E.g ∧ ({ E with p := q } : Env).close = E.close ∧
    ({ E with p := q } : Env).p = q := ⟨rfl, rfl, rfl⟩

mutual
theorem satV_str {E : Env} {p1 p2 : GPat} (h : SameUpToStr p1 p2) {A : Assign} :
    ∀ {vp : VPat} {v : Option ValueId}, SatV { E with p := p1 } A vp v → SatV { E with p := p2 } A vp v
  | _, _, .any v => .any v
  | _, _, .var id name isVar canNone check v hb h1 h2 =>
    .var id name isVar canNone check v (h.boundTo A _ _ hb) h1 h2
  | _, _, .const id c x cv hb h1 h2 => .const id c x cv (h.boundTo A _ _ hb) h1 h2
  | _, _, .out np idx x n hb hf hp hi hn => .out np idx x n (h.boundTo A _ _ hb) hf hp hi (satN_str h hn)
  | _, _, .orD id name tagVar alts x a hb hf hd hs ht =>
    .orD id name tagVar alts x a (h.boundTo A _ _ hb) hf hd (satV_str h hs) ht
  | _, _, .orB id name tagVar tags alts v i alt hb hf ha hs ht =>
    .orB id name tagVar tags alts v i alt (h.boundTo A _ _ hb) hf ha (satV_str h hs) ht
theorem satN_str {E : Env} {p1 p2 : GPat} (h : SameUpToStr p1 p2) {A : Assign} :
    ∀ {np : NPId} {n : NodeId}, SatN { E with p := p1 } A np n → SatN { E with p := p2 } A np n
  | _, _, .mk np n P N h1 h2 h3 h4 h5 h6 h7 h8 h9 h10 => by
    obtain ⟨P2, hP2, he⟩ := h.get (show p1.nodes[np]? = some P from h1)
    obtain ⟨fd, fo, fi, fa, faa, fai, fout, _⟩ := clrStr_fields he
    refine .mk np n P2 N hP2 h2 h3 (fo ▸ h4) (fd ▸ h5) ?_ (by rw [← fi, ← fai]; exact h7)
      (fun i hi => h8 i (fi ▸ hi)) (fun i vp hi => satV_str h (h9 i vp (fi ▸ hi)))
      (fun i hi => by
        obtain ⟨x, e1, e2⟩ := h10 i (fout ▸ hi)
        exact ⟨x, e1, h.boundTo A _ _ e2⟩)
    unfold attrsSat at h6 ⊢
    rw [← fa, ← faa]
    exact h6
end

theorem addSlice_str {p1 p2 : GPat} (h : SameUpToStr p1 p2) : ∀ (f : Nat) (np : NPId) (cov : List NPId),
    addSlice p1 f np cov = addSlice p2 f np cov
  | 0, _, _ => rfl
  | f + 1, np, cov => by
    unfold addSlice
    split
    · rfl
    · cases h1 : p1.nodes[np]? with
      | none =>
        cases h2 : p2.nodes[np]? with
        | none => rfl
        | some P2 => obtain ⟨P1, hP1, _⟩ := h.symm.get h2; rw [h1] at hP1; cases hP1
      | some P1 =>
        obtain ⟨P2, hP2, he⟩ := h.get h1
        simp only [hP2, (clrStr_fields he).2.2.1]
        congr
        funext cov' i
        cases i with
        | none => rfl
        | some vp =>
          cases vp <;> try rfl
          exact addSlice_str h f _ _

theorem outputNodes_str {p1 p2 : GPat} (h : SameUpToStr p1 p2) : p1.outputNodes = p2.outputNodes := by
  unfold GPat.outputNodes GPat.outputNodesCov
  rw [h.outputs]
  have hl : p1.nodes.length = p2.nodes.length := by
    have := congrArg List.length h.nodes
    simpa using this
  congr
  funext acc vp
  cases vp <;> try rfl
  simp only [hl, addSlice_str h]

/-- **`Instance` does not depend on the `opIsStr` flags** -/
theorem instance_str (E : Env) {p1 p2 : GPat} (h : SameUpToStr p1 p2) (root : NodeId) (A : Assign) :
    Instance { E with p := p1 } root A → Instance { E with p := p2 } root A := by
  intro hi
  refine ⟨?_, ?_, ?_⟩
  · intro np hnp
    exact hi.rootNode np (by show p1.outputNodes.head? = some np; rw [outputNodes_str h]; exact hnp)
  · intro np hnp
    obtain ⟨n, hn, hs⟩ := hi.outNodes np (by show np ∈ p1.outputNodes; rw [outputNodes_str h]; exact hnp)
    exact ⟨n, hn, satN_str h hs⟩
  · show p2.cond = true
    rw [← h.cond]; exact hi.cond

/-- the pattern with the operands of the masked nodes exchanged, all flags kept -/
def pureSwap (p : GPat) (m : List Bool) : GPat :=
  { p with nodes := List.zipWith (fun n b => { n with inputs := if b then n.inputs.reverse else n.inputs }) p.nodes m }

theorem swapPat_pureSwap (p : GPat) (m : List Bool) : SameUpToStr (swapPat p m) (pureSwap p m) := by
  refine ⟨rfl, rfl, rfl, ?_⟩
  unfold swapPat pureSwap
  simp only
  induction p.nodes generalizing m with
  | nil => simp
  | cons n ns ih =>
    cases m with
    | nil => simp
    | cons b bs => simp [List.zipWith, swapNode, clrStr, ih]

end OV.C06
