import OV.Model.C18Builder
/-! Helper lemmas for C18: the well-formedness invariant of `build` (every value is defined at a site;
every node input was created before the node's outputs or is a root initializer), for every item except
`call_inline`, subgraphs included. -/
namespace OV.C18

/-- all graphs of the builder tree: current, enclosing, finished. -/
def St.frames (st : St) : List Frame := st.cur :: (st.stack ++ st.done)

abbrev St.L (st : St) : Nat := st.vnames.length

/-- `i` is defined at a site: a root initializer, an input of some graph, or an output of some node. -/
def Defined (st : St) (i : Nat) : Prop :=
  i ∈ st.inits ∨ ∃ f ∈ st.frames, i ∈ f.inputs ∨ ∃ n ∈ f.nodes, i ∈ n.outs

/-- a node is well-formed: its outputs exist, every input exists and is a root initializer or was created
    before every output of the node. -/
def NodeOK (L : Nat) (inits : List Nat) (n : Node) : Prop :=
  (∀ o ∈ n.outs, o < L) ∧ ∀ i, some i ∈ n.ins → i < L ∧ (i ∈ inits ∨ ∀ o ∈ n.outs, i < o)

/-- the invariant, with a list `P` of *pending* values (created, not yet placed at their site). -/
structure BndP (st : St) (P : List Nat) : Prop where
  handles : ∀ i, some i ∈ st.handles → i < st.L
  cache : ∀ e ∈ st.cache, e.2 ∈ st.inits
  inits : ∀ i ∈ st.inits, i < st.L
  finputs : ∀ f ∈ st.frames, ∀ i ∈ f.inputs, i < st.L
  nodes : ∀ f ∈ st.frames, ∀ n ∈ f.nodes, NodeOK st.L st.inits n
  defined : ∀ i, i < st.L → i ∉ P → Defined st i

abbrev Bnd (st : St) : Prop := BndP st []

theorem NodeOK.mono {L L' : Nat} {a b : List Nat} {n : Node} (h : NodeOK L a n) (hL : L ≤ L')
    (hs : ∀ i ∈ a, i ∈ b) : NodeOK L' b n := by
  refine ⟨fun o ho => Nat.lt_of_lt_of_le (h.1 o ho) hL, fun i hi => ?_⟩
  obtain ⟨h1, h2⟩ := h.2 i hi
  exact ⟨Nat.lt_of_lt_of_le h1 hL, h2.elim (fun x => Or.inl (hs i x)) Or.inr⟩

theorem Bnd.init : Bnd St.init := by
  refine ⟨?_, ?_, ?_, ?_, ?_, ?_⟩ <;> simp [St.init, St.frames, St.L]

/-- changes that keep the value table's length, the handles, cache, initializers, and every graph's
    inputs and nodes (scope pushes, renames, declaring outputs, errors). -/
theorem BndP.same {st st' : St} {P : List Nat} (h : BndP st P) (hL : st'.L = st.L) (hh : st'.handles = st.handles)
    (hc : st'.cache = st.cache) (hi : st'.inits = st.inits)
    (hf : ∀ f' ∈ st'.frames, ∃ f ∈ st.frames, f'.inputs = f.inputs ∧ f'.nodes = f.nodes)
    (hf' : ∀ f ∈ st.frames, ∃ f' ∈ st'.frames, f'.inputs = f.inputs ∧ f'.nodes = f.nodes) : BndP st' P := by
  refine ⟨?_, ?_, ?_, ?_, ?_, ?_⟩
  · intro i hi'; rw [hL]; exact h.handles i (hh ▸ hi')
  · intro e he; rw [hi]; exact h.cache e (hc ▸ he)
  · intro i hi'; rw [hL]; exact h.inits i (hi ▸ hi')
  · intro f' hf1 i hi'
    obtain ⟨f, hfm, e1, _⟩ := hf f' hf1
    rw [hL]; exact h.finputs f hfm i (e1 ▸ hi')
  · intro f' hf1 n hn
    obtain ⟨f, hfm, _, e2⟩ := hf f' hf1
    rw [hL, hi]; exact h.nodes f hfm n (e2 ▸ hn)
  · intro i hi' hp
    rcases h.defined i (hL ▸ hi') hp with hd | ⟨f, hfm, hd⟩
    · exact Or.inl (hi ▸ hd)
    · obtain ⟨f', hf1, e1, e2⟩ := hf' f hfm
      exact Or.inr ⟨f', hf1, by rw [e1, e2]; exact hd⟩

/-- `st'` differs from `st` only by a longer value table (and whatever is not in the invariant). -/
theorem BndP.grow {st st' : St} {P : List Nat} (h : BndP st P) (hL : st.L ≤ st'.L)
    (hh : st'.handles = st.handles) (hc : st'.cache = st.cache) (hi : st'.inits = st.inits)
    (hf : st'.frames = st.frames) (hP : ∀ i, st.L ≤ i → i < st'.L → i ∈ P) : BndP st' P := by
  refine ⟨?_, ?_, ?_, ?_, ?_, ?_⟩
  · intro i hi'; exact Nat.lt_of_lt_of_le (h.handles i (hh ▸ hi')) hL
  · intro e he; rw [hi]; exact h.cache e (hc ▸ he)
  · intro i hi'; exact Nat.lt_of_lt_of_le (h.inits i (hi ▸ hi')) hL
  · intro f hf1 i hi'; exact Nat.lt_of_lt_of_le (h.finputs f (hf ▸ hf1) i hi') hL
  · intro f hf1 n hn
    exact (h.nodes f (hf ▸ hf1) n hn).mono hL (fun i x => hi ▸ x)
  · intro i hi' hp
    by_cases hlt : i < st.L
    · rcases h.defined i hlt hp with hd | hd
      · exact Or.inl (hi ▸ hd)
      · exact Or.inr (hf ▸ hd)
    · exact absurd (hP i (Nat.le_of_not_lt hlt) hi') hp

theorem BndP.weaken {st : St} {P Q : List Nat} (h : BndP st P) (hs : ∀ i ∈ P, i ∈ Q) : BndP st Q :=
  ⟨h.handles, h.cache, h.inits, h.finputs, h.nodes, fun i hi hq => h.defined i hi (fun hp => hq (hs i hp))⟩

theorem newValueK_spec (st : St) (k : VKey) :
    (newValueK st k).2 = st.L ∧ (newValueK st k).1.L = st.L + 1 ∧
    (newValueK st k).1.handles = st.handles ∧ (newValueK st k).1.cache = st.cache ∧
    (newValueK st k).1.inits = st.inits ∧ (newValueK st k).1.frames = st.frames := by
  simp [newValueK, St.L, St.frames]

/-- creating values: the new ids are `L, L+1, …` and become pending. -/
theorem newValuesK_spec : ∀ (ks : List VKey) (st : St),
    (newValuesK st ks).2 = (List.range ks.length).map (· + st.L) ∧
    (newValuesK st ks).1.L = st.L + ks.length ∧
    (newValuesK st ks).1.handles = st.handles ∧ (newValuesK st ks).1.cache = st.cache ∧
    (newValuesK st ks).1.inits = st.inits ∧ (newValuesK st ks).1.frames = st.frames
  | [], st => by simp [newValuesK]
  | k :: r, st => by
    obtain ⟨a1, a2, a3, a4, a5, a6⟩ := newValueK_spec st k
    obtain ⟨b1, b2, b3, b4, b5, b6⟩ := newValuesK_spec r (newValueK st k).1
    simp only [newValuesK, List.length_cons]
    refine ⟨?_, ?_, b3.trans a3, b4.trans a4, b5.trans a5, b6.trans a6⟩
    · rw [b1, a1, a2, List.range_succ_eq_map]
      simp only [List.map_cons, List.map_map, Nat.zero_add, List.cons.injEq, true_and]
      apply List.map_congr_left
      intro x _
      simp only [Function.comp]
      omega
    · rw [b2, a2]; omega

theorem BndP.created {st : St} {P : List Nat} (ks : List VKey) (h : BndP st P) :
    BndP (newValuesK st ks).1 (P ++ (newValuesK st ks).2) := by
  obtain ⟨a1, a2, a3, a4, a5, a6⟩ := newValuesK_spec ks st
  refine (h.weaken (Q := P ++ (newValuesK st ks).2) (fun i hi => List.mem_append_left _ hi)).grow
    (by rw [a2]; omega) a3 a4 a5 a6 ?_
  intro i h1 h2
  apply List.mem_append_right
  rw [a1]
  simp only [List.mem_map, List.mem_range]
  exact ⟨i - st.L, by rw [a2] at h2; omega, by omega⟩

theorem cacheFind_mem {c : List (CKey × Nat)} {k : CKey} {i : Nat} (h : cacheFind c k = some i) :
    ∃ e ∈ c, e.2 = i := by
  unfold cacheFind at h
  cases hf : c.find? (fun e => e.1 = k) with
  | none => simp [hf] at h
  | some e =>
    simp only [hf, Option.map_some, Option.some.injEq] at h
    exact ⟨e, List.mem_of_find?_eq_some hf, h⟩

theorem promote_spec (st : St) (l : Lit) {P : List Nat} (h : BndP st P) :
    BndP (promote st l).1 P ∧ (promote st l).1.handles = st.handles ∧
    (promote st l).1.frames = st.frames ∧ st.L ≤ (promote st l).1.L ∧
    (∀ i ∈ st.inits, i ∈ (promote st l).1.inits) ∧ (promote st l).2 ∈ (promote st l).1.inits := by
  unfold promote
  split
  · rename_i id hc
    obtain ⟨e, he, rfl⟩ := cacheFind_mem hc
    exact ⟨h, by simp, by simp, Nat.le_refl _, fun i hi => hi, h.cache e he⟩
  · simp only [newValue, newValueK]
    refine ⟨⟨?_, ?_, ?_, ?_, ?_, ?_⟩, by simp, by simp [St.frames], by simp [St.L], fun i hi => by simp [hi], by simp [St.L]⟩
    · intro i hi; have := h.handles i hi; simp only [St.L, List.length_append, List.length_singleton] at *; omega
    · intro e he
      simp only [List.mem_append, List.mem_singleton] at he ⊢
      rcases he with he | rfl
      · exact Or.inl (h.cache e he)
      · exact Or.inr rfl
    · intro i hi
      simp only [List.mem_append, List.mem_singleton] at hi
      simp only [St.L, List.length_append, List.length_singleton]
      rcases hi with hi | rfl
      · have := h.inits i hi; simp only [St.L] at this; omega
      · omega
    · intro f hf i hi
      have := h.finputs f hf i hi
      simp only [St.L, List.length_append, List.length_singleton] at *; omega
    · intro f hf n hn
      exact (h.nodes f hf n hn).mono (by simp [St.L]) (fun i x => by simp [x])
    · intro i hi hp
      simp only [St.L, List.length_append, List.length_singleton] at hi
      by_cases hlt : i < st.L
      · rcases h.defined i hlt hp with hd | hd
        · exact Or.inl (by simp [hd])
        · exact Or.inr hd
      · have : i = st.vnames.length := by simp only [St.L] at hlt; omega
        exact Or.inl (by simp [this])

theorem getD_mem {l : List (Option Nat)} {h i : Nat} (e : l.getD h none = some i) : some i ∈ l := by
  rw [List.getD_eq_getElem?_getD] at e
  cases hg : l[h]? with
  | none => simp [hg] at e
  | some v =>
    simp only [hg, Option.getD_some] at e
    exact e ▸ List.mem_of_getElem? hg

theorem resolveArgs_spec : ∀ (args : List Arg) (st : St) {P : List Nat}, BndP st P →
    BndP (resolveArgs st args).1 P ∧ (resolveArgs st args).1.handles = st.handles ∧
    (resolveArgs st args).1.frames = st.frames ∧ st.L ≤ (resolveArgs st args).1.L ∧
    (∀ i ∈ st.inits, i ∈ (resolveArgs st args).1.inits) ∧
    ∀ i, some i ∈ (resolveArgs st args).2 → (i ∈ (resolveArgs st args).1.inits ∨ some i ∈ st.handles)
  | [], st, _, h => by simp [resolveArgs, h]
  | .ref hd :: r, st, _, h => by
    obtain ⟨a1, a2, a3, a4, a5, a6⟩ := resolveArgs_spec r st h
    simp only [resolveArgs]
    refine ⟨a1, a2, a3, a4, a5, ?_⟩
    intro i hi
    simp only [List.mem_cons] at hi
    rcases hi with hi | hi
    · exact Or.inr (getD_mem hi.symm)
    · exact a6 i hi
  | .none :: r, st, _, h => by
    obtain ⟨a1, a2, a3, a4, a5, a6⟩ := resolveArgs_spec r st h
    simp only [resolveArgs]
    refine ⟨a1, a2, a3, a4, a5, ?_⟩
    intro i hi
    simp only [List.mem_cons, reduceCtorEq, false_or] at hi
    exact a6 i hi
  | .lit l :: r, st, _, h => by
    obtain ⟨p1, p2, p3, p4, p5, p6⟩ := promote_spec st l h
    obtain ⟨a1, a2, a3, a4, a5, a6⟩ := resolveArgs_spec r (promote st l).1 p1
    simp only [resolveArgs]
    refine ⟨a1, a2.trans p2, a3.trans p3, Nat.le_trans p4 a4, fun i hi => a5 i (p5 i hi), ?_⟩
    intro i hi
    simp only [List.mem_cons, Option.some.injEq] at hi
    rcases hi with rfl | hi
    · exact Or.inl (a5 _ p6)
    · rcases a6 i hi with x | x
      · exact Or.inl x
      · exact Or.inr (p2 ▸ x)

/-- appending a node whose outputs are exactly the pending values, and publishing handles. -/
theorem BndP.place {st : St} {ids : List Nat} (h : BndP st ids) (node : Node) (ho : node.outs = ids)
    (hn : NodeOK st.L st.inits node) (hs : List (Option Nat)) (hhs : ∀ i, some i ∈ hs → i < st.L)
    (st' : St) (e1 : st'.vnames = st.vnames) (e2 : st'.handles = st.handles ++ hs)
    (e3 : st'.cache = st.cache) (e4 : st'.inits = st.inits)
    (e5 : st'.cur = { st.cur with nodes := st.cur.nodes ++ [node] }) (e6 : st'.stack = st.stack)
    (e7 : st'.done = st.done) : Bnd st' := by
  have hL : st'.L = st.L := by simp [St.L, e1]
  have hfr : ∀ f' ∈ st'.frames, (f' = { st.cur with nodes := st.cur.nodes ++ [node] }) ∨ f' ∈ st.frames := by
    intro f' hf'
    simp only [St.frames, e5, e6, e7, List.mem_cons] at hf' ⊢
    rcases hf' with x | x
    · exact Or.inl x
    · exact Or.inr (Or.inr x)
  refine ⟨?_, ?_, ?_, ?_, ?_, ?_⟩
  · intro i hi
    rw [e2, List.mem_append] at hi
    rw [hL]
    exact hi.elim (h.handles i) (hhs i)
  · intro e he; rw [e4]; exact h.cache e (e3 ▸ he)
  · intro i hi; rw [hL]; exact h.inits i (e4 ▸ hi)
  · intro f' hf' i hi
    rw [hL]
    rcases hfr f' hf' with rfl | x
    · exact h.finputs st.cur (by simp [St.frames]) i hi
    · exact h.finputs f' x i hi
  · intro f' hf' n hnm
    rw [hL, e4]
    rcases hfr f' hf' with rfl | x
    · simp only [List.mem_append, List.mem_singleton] at hnm
      rcases hnm with y | rfl
      · exact h.nodes st.cur (by simp [St.frames]) n y
      · exact hn
    · exact h.nodes f' x n hnm
  · intro i hi _
    rw [hL] at hi
    by_cases hp : i ∈ ids
    · refine Or.inr ⟨st'.cur, by simp [St.frames], Or.inr ⟨node, ?_, ho ▸ hp⟩⟩
      rw [e5]; simp
    · rcases h.defined i hi hp with hd | ⟨f, hf, hd⟩
      · exact Or.inl (e4 ▸ hd)
      · simp only [St.frames, List.mem_cons] at hf
        rcases hf with rfl | hf
        · refine Or.inr ⟨st'.cur, by simp [St.frames], ?_⟩
          rw [e5]
          rcases hd with hd | ⟨n, hn1, hn2⟩
          · exact Or.inl hd
          · exact Or.inr ⟨n, by simp [hn1], hn2⟩
        · exact Or.inr ⟨f, by simp only [St.frames, e6, e7, List.mem_cons]; exact Or.inr hf, hd⟩

theorem Bnd.doOp (total : Bool) (st : St) (t : String) (a : List Arg) (o : Outs) (nn : Option String)
    (g : List Nat) (as : List (String × AVal)) (h : Bnd st) : Bnd (doOp total st t a o nn g as) := by
  unfold OV.C18.doOp
  obtain ⟨a1, a2, a3, a4, a5, a6⟩ := resolveArgs_spec a st h
  split
  rename_i st1 ins hr
  rw [hr] at a1 a2 a3 a4 a5 a6
  simp only [] at a1 a2 a3 a4 a5 a6 ⊢
  generalize hk : outKeys st1.cur (nodeCount total st1) t o = keys
  obtain ⟨b1, b2, b3, b4, b5, b6⟩ := newValuesK_spec keys st1
  have hb := BndP.created keys a1
  simp only [List.nil_append] at hb
  refine BndP.place hb _ rfl ?_ _ ?_ _ rfl rfl rfl rfl rfl rfl rfl
  · refine ⟨?_, ?_⟩
    · intro x hx
      simp only [b1, List.mem_map, List.mem_range] at hx
      obtain ⟨j, hj, rfl⟩ := hx
      rw [b2]; omega
    · intro i hi
      have hlt : i < st1.L := by
        rcases a6 i hi with x | x
        · exact a1.inits i x
        · exact Nat.lt_of_lt_of_le (h.handles i x) a4
      refine ⟨by rw [b2]; omega, ?_⟩
      rcases a6 i hi with x | x
      · exact Or.inl (b5 ▸ x)
      · refine Or.inr ?_
        intro x' hx'
        simp only [b1, List.mem_map, List.mem_range] at hx'
        obtain ⟨j, _, rfl⟩ := hx'
        omega
  · intro i hi
    simp only [List.mem_map, Option.some.injEq] at hi
    obtain ⟨x, hx, rfl⟩ := hi
    simp only [b1, List.mem_map, List.mem_range] at hx
    obtain ⟨j, hj, rfl⟩ := hx
    rw [b2]; omega

theorem Bnd.fail (st : St) (e : String) (h : Bnd st) : Bnd (fail st e) := by
  unfold OV.C18.fail
  split
  · exact h.same rfl rfl rfl rfl (fun f hf => ⟨f, hf, rfl, rfl⟩) (fun f hf => ⟨f, hf, rfl, rfl⟩)
  · exact h.same rfl rfl rfl rfl (fun f hf => ⟨f, hf, rfl, rfl⟩) (fun f hf => ⟨f, hf, rfl, rfl⟩)

theorem Bnd.doCall (total : Bool) (fns : List Fn) (st : St) (fi : Nat) (a : List Arg) (o : Option Outs)
    (as : List (String × AVal)) (h : Bnd st) : Bnd (doCall total fns st fi a o as) := by
  unfold OV.C18.doCall
  split
  · exact Bnd.fail st _ h
  · rename_i f _
    generalize hk : outKeys st.cur (nodeCount total st) f.name (o.getD (.auto f.outputs.length)) = keys
    obtain ⟨b1, b2, b3, b4, b5, b6⟩ := newValuesK_spec keys st
    have hb := BndP.created keys h
    simp only [List.nil_append] at hb
    obtain ⟨a1, a2, a3, a4, a5, a6⟩ := resolveArgs_spec a (newValuesK st keys).1 hb
    simp only []
    have hfr : (resolveArgs (newValuesK st keys).1 a).1.frames = st.frames := a3.trans b6
    refine BndP.place a1 _ rfl ?_ ((newValuesK st keys).2.map some) ?_ _ rfl rfl rfl rfl rfl rfl rfl
    · refine ⟨?_, ?_⟩
      · intro x hx
        simp only [b1, List.mem_map, List.mem_range] at hx
        obtain ⟨j, hj, rfl⟩ := hx
        have := b2 ▸ a4
        omega
      · intro i hi
        rcases a6 i hi with x | x
        · exact ⟨a1.inits i x, Or.inl x⟩
        · rw [b3] at x
          have hlt := h.handles i x
          refine ⟨Nat.lt_of_lt_of_le hlt (Nat.le_trans (by rw [b2]; omega) a4), Or.inr ?_⟩
          intro x' hx'
          simp only [b1, List.mem_map, List.mem_range] at hx'
          obtain ⟨j, _, rfl⟩ := hx'
          omega
    · intro i hi
      simp only [List.mem_map, Option.some.injEq] at hi
      obtain ⟨x, hx, rfl⟩ := hi
      simp only [b1, List.mem_map, List.mem_range] at hx
      obtain ⟨j, hj, rfl⟩ := hx
      have := b2 ▸ a4
      omega

/-- graphs are re-arranged (a subgraph opened or closed) and the pending values become graph inputs. -/
theorem BndP.reframe {st st' : St} {P : List Nat} (h : BndP st P) (hL : st'.L = st.L)
    (hh : ∀ i, some i ∈ st'.handles → some i ∈ st.handles ∨ i ∈ P)
    (hc : st'.cache = st.cache) (hi : st'.inits = st.inits)
    (hin : ∀ f' ∈ st'.frames, ∀ i ∈ f'.inputs, i ∈ P ∨ ∃ f ∈ st.frames, i ∈ f.inputs)
    (hnd : ∀ f' ∈ st'.frames, ∀ n ∈ f'.nodes, ∃ f ∈ st.frames, n ∈ f.nodes)
    (hcov : ∀ f ∈ st.frames, ∃ f' ∈ st'.frames, (∀ i ∈ f.inputs, i ∈ f'.inputs) ∧ (∀ n ∈ f.nodes, n ∈ f'.nodes))
    (hP : ∀ i ∈ P, i < st.L ∧ ∃ f' ∈ st'.frames, i ∈ f'.inputs) : Bnd st' := by
  refine ⟨?_, ?_, ?_, ?_, ?_, ?_⟩
  · intro i hi'
    rw [hL]
    rcases hh i hi' with x | x
    · exact h.handles i x
    · exact (hP i x).1
  · intro e he; rw [hi]; exact h.cache e (hc ▸ he)
  · intro i hi'; rw [hL]; exact h.inits i (hi ▸ hi')
  · intro f' hf' i hi'
    rw [hL]
    rcases hin f' hf' i hi' with x | ⟨f, hf, x⟩
    · exact (hP i x).1
    · exact h.finputs f hf i x
  · intro f' hf' n hn
    obtain ⟨f, hf, x⟩ := hnd f' hf' n hn
    rw [hL, hi]; exact h.nodes f hf n x
  · intro i hi' _
    rw [hL] at hi'
    by_cases hp : i ∈ P
    · obtain ⟨f', hf', x⟩ := (hP i hp).2
      exact Or.inr ⟨f', hf', Or.inl x⟩
    · rcases h.defined i hi' hp with hd | ⟨f, hf, hd⟩
      · exact Or.inl (hi ▸ hd)
      · obtain ⟨f', hf', c1, c2⟩ := hcov f hf
        refine Or.inr ⟨f', hf', ?_⟩
        rcases hd with hd | ⟨n, hn1, hn2⟩
        · exact Or.inl (c1 i hd)
        · exact Or.inr ⟨n, c2 n hn1, hn2⟩

theorem Bnd.doInput (st : St) (n : String) (h : Bnd st) : Bnd (doInput st n) := by
  have hb := BndP.created [VKey.raw n] h
  obtain ⟨b1, b2, b3, b4, b5, b6⟩ := newValuesK_spec [VKey.raw n] st
  simp only [List.nil_append] at hb
  have hids : (newValuesK st [VKey.raw n]).2 = [st.L] := by simp [b1]
  rw [hids] at hb
  have hst : (newValuesK st [VKey.raw n]).1 = (newValue st n).1 := by simp [newValuesK, newValue]
  rw [hst] at hb b2 b3 b4 b5 b6
  unfold OV.C18.doInput
  have hid : (newValue st n).2 = st.L := by simp [newValue, newValueK]
  refine hb.reframe (by simp [St.L]) ?_ rfl rfl ?_ ?_ ?_ ?_
  · intro i hi
    simp only [List.mem_append, List.mem_singleton, Option.some.injEq] at hi
    rcases hi with x | x
    · exact Or.inl x
    · exact Or.inr (by simp [x, hid])
  · intro f' hf' i hi
    simp only [St.frames, List.mem_cons] at hf'
    rcases hf' with rfl | x
    · simp only [List.mem_append, List.mem_singleton] at hi
      rcases hi with y | y
      · exact Or.inr ⟨(newValue st n).1.cur, by simp [St.frames], y⟩
      · exact Or.inl (by simp [y, hid])
    · exact Or.inr ⟨f', by simp only [St.frames, List.mem_cons]; exact Or.inr x, hi⟩
  · intro f' hf' nd hn
    simp only [St.frames, List.mem_cons] at hf'
    rcases hf' with rfl | x
    · exact ⟨(newValue st n).1.cur, by simp [St.frames], hn⟩
    · exact ⟨f', by simp only [St.frames, List.mem_cons]; exact Or.inr x, hn⟩
  · intro f hf
    simp only [St.frames, List.mem_cons] at hf
    rcases hf with rfl | x
    · exact ⟨{ (newValue st n).1.cur with inputs := (newValue st n).1.cur.inputs ++ [(newValue st n).2] },
        by simp [St.frames], fun i hi => by simp [hi], fun n hn => hn⟩
    · exact ⟨f, by simp only [St.frames, List.mem_cons]; exact Or.inr x, fun i hi => hi, fun n hn => hn⟩
  · intro i hi
    simp only [List.mem_singleton] at hi
    subst hi
    exact ⟨by rw [b2]; simp,
      { (newValue st n).1.cur with inputs := (newValue st n).1.cur.inputs ++ [(newValue st n).2] },
      by simp [St.frames], by simp [hid]⟩

theorem newValuesK_csd : ∀ (ks : List VKey) (st : St),
    (newValuesK st ks).1.cur = st.cur ∧ (newValuesK st ks).1.stack = st.stack ∧ (newValuesK st ks).1.done = st.done
  | [], st => by simp [newValuesK]
  | k :: r, st => by
    simp only [newValuesK]
    have := newValuesK_csd r (newValueK st k).1
    simp only [newValueK] at this ⊢
    exact this

theorem Bnd.doBeginSub (st : St) (g : String) (ins : List String) (h : Bnd st) :
    Bnd (doBeginSub st g ins) := by
  unfold OV.C18.doBeginSub newValues
  have hb := BndP.created (ins.map VKey.raw) h
  obtain ⟨b1, b2, b3, b4, b5, b6⟩ := newValuesK_spec (ins.map VKey.raw) st
  obtain ⟨c1, c2, c3⟩ := newValuesK_csd (ins.map VKey.raw) st
  simp only [List.nil_append] at hb
  have hfr : ∀ f, f ∈ (newValuesK st (ins.map VKey.raw)).1.frames ↔
      (f = st.cur ∨ f ∈ st.stack ∨ f ∈ (newValuesK st (ins.map VKey.raw)).1.done) := by
    intro f; simp [St.frames, c1, c2]
  refine hb.reframe (by simp [St.L]) ?_ rfl rfl ?_ ?_ ?_ ?_
  · intro i hi
    simp only [List.mem_append, List.mem_map, Option.some.injEq] at hi
    rcases hi with x | ⟨y, hy, rfl⟩
    · exact Or.inl x
    · exact Or.inr hy
  · intro f' hf' i hi
    simp only [St.frames, List.mem_cons, List.mem_append] at hf'
    rcases hf' with rfl | x
    · exact Or.inl hi
    · refine Or.inr ⟨f', (hfr f').2 ?_, hi⟩
      rcases x with (x | x) | x
      · exact Or.inl x
      · exact Or.inr (Or.inl x)
      · exact Or.inr (Or.inr x)
  · intro f' hf' nd hn
    simp only [St.frames, List.mem_cons, List.mem_append] at hf'
    rcases hf' with rfl | x
    · simp at hn
    · refine ⟨f', (hfr f').2 ?_, hn⟩
      rcases x with (x | x) | x
      · exact Or.inl x
      · exact Or.inr (Or.inl x)
      · exact Or.inr (Or.inr x)
  · intro f hf
    refine ⟨f, ?_, fun i hi => hi, fun n hn => hn⟩
    have := (hfr f).1 hf
    simp only [St.frames, List.mem_cons, List.mem_append]
    rcases this with x | x | x
    · exact Or.inr (Or.inl (Or.inl x))
    · exact Or.inr (Or.inl (Or.inr x))
    · exact Or.inr (Or.inr x)
  · intro i hi
    refine ⟨?_, ⟨g, (newValuesK st (ins.map VKey.raw)).2, [], st.cur.scope, []⟩, by simp [St.frames], hi⟩
    simp only [b1, List.mem_map, List.mem_range] at hi
    obtain ⟨j, hj, rfl⟩ := hi
    rw [b2]; omega

/-- what renames keep. -/
def SameCore (st st' : St) : Prop :=
  st'.L = st.L ∧ st'.handles = st.handles ∧ st'.cache = st.cache ∧ st'.inits = st.inits ∧
  st'.cur = st.cur ∧ st'.stack = st.stack ∧ st'.done = st.done

theorem SameCore.rename (st : St) (id : Nat) (f : String → String) : SameCore st (renameValue st id f) := by
  simp [SameCore, renameValue, St.L]

theorem SameCore.foldl {β : Type} (l : List β) (g : St → β → St) (hg : ∀ s x, SameCore s (g s x)) :
    ∀ st : St, SameCore st (l.foldl g st) := by
  induction l with
  | nil => intro st; simp [SameCore]
  | cons x r ih =>
    intro st
    simp only [List.foldl_cons]
    obtain ⟨a1, a2, a3, a4, a5, a6, a7⟩ := ih (g st x)
    obtain ⟨b1, b2, b3, b4, b5, b6, b7⟩ := hg st x
    exact ⟨a1.trans b1, a2.trans b2, a3.trans b3, a4.trans b4, a5.trans b5, a6.trans b6, a7.trans b7⟩

/-- dropping the sub-builder only moves graphs between "current / enclosing / finished". -/
theorem Bnd.abandon (st : St) (h : Bnd st) : Bnd (abandon st) := by
  unfold OV.C18.abandon
  split
  · exact h
  · rename_i parent rest hs
    refine h.same rfl rfl rfl rfl ?_ ?_
    · intro f' hf'
      simp only [St.frames, List.mem_cons, List.mem_append, List.not_mem_nil, or_false] at hf'
      rcases hf' with rfl | x | x | rfl
      · exact ⟨f', by simp [St.frames, hs], rfl, rfl⟩
      · exact ⟨f', by simp [St.frames, hs, x], rfl, rfl⟩
      · exact ⟨f', by simp [St.frames, x], rfl, rfl⟩
      · exact ⟨st.cur, by simp [St.frames], rfl, rfl⟩
    · intro f hf
      simp only [St.frames, List.mem_cons, List.mem_append, hs] at hf
      rcases hf with rfl | (rfl | x) | x
      · exact ⟨st.cur, by simp [St.frames], rfl, rfl⟩
      · exact ⟨f, by simp [St.frames], rfl, rfl⟩
      · exact ⟨f, by simp [St.frames, x], rfl, rfl⟩
      · exact ⟨f, by simp [St.frames, x], rfl, rfl⟩

theorem Bnd.doAbortSub (st : St) (h : Bnd st) : Bnd (doAbortSub st) := by
  unfold OV.C18.doAbortSub
  split
  · exact Bnd.fail st _ h
  · exact Bnd.abandon st h

theorem Bnd.doEndSub (st : St) (rets : List Nat) (declared : List String) (h : Bnd st) :
    Bnd (doEndSub st rets declared) := by
  unfold OV.C18.doEndSub
  split
  · exact Bnd.fail st _ h
  · rename_i parent rest hs
    split
    · exact Bnd.fail _ _ (Bnd.abandon st h)
    · simp only []
      generalize hfold : List.foldl _ st _ = st1
      have hc : SameCore st st1 := by
        rw [← hfold]
        apply SameCore.foldl
        intro s x
        obtain ⟨id, d⟩ := x
        by_cases hx : d = ""
        · simp [hx, SameCore]
        · simp only [hx, if_false]; exact SameCore.rename s id _
      obtain ⟨c1, c2, c3, c4, c5, c6, c7⟩ := hc
      refine h.same (by simpa [St.L] using c1) c2 c3 c4 ?_ ?_
      · intro f' hf'
        simp only [St.frames, List.mem_cons, List.mem_append, List.not_mem_nil, or_false] at hf'
        rcases hf' with rfl | x | x | rfl
        · exact ⟨f', by simp [St.frames, hs], rfl, rfl⟩
        · exact ⟨f', by simp [St.frames, hs, x], rfl, rfl⟩
        · exact ⟨f', by simp [St.frames, c7 ▸ x], rfl, rfl⟩
        · exact ⟨st.cur, by simp [St.frames], by simp [c5], by simp [c5]⟩
      · intro f hf
        simp only [St.frames, List.mem_cons, List.mem_append, hs] at hf
        rcases hf with rfl | (rfl | x) | x
        · exact ⟨{ st1.cur with outputs := List.filterMap (fun h => st.handles.getD h none) rets },
            by simp [St.frames], by simp [c5], by simp [c5]⟩
        · exact ⟨f, by simp [St.frames], rfl, rfl⟩
        · exact ⟨f, by simp [St.frames, x], rfl, rfl⟩
        · exact ⟨f, by simp [St.frames, c7, x], rfl, rfl⟩

theorem Bnd.sameCore {st st' : St} (h : Bnd st) (c : SameCore st st') : Bnd st' := by
  obtain ⟨c1, c2, c3, c4, c5, c6, c7⟩ := c
  exact h.same c1 c2 c3 c4 (fun f hf => ⟨f, by simpa [St.frames, c5, c6, c7] using hf, rfl, rfl⟩)
    (fun f hf => ⟨f, by simpa [St.frames, c5, c6, c7] using hf, rfl, rfl⟩)

/-- only the scope / declared outputs of the current graph change. -/
theorem Bnd.curMeta {st st' : St} (h : Bnd st) (hL : st'.L = st.L) (hh : st'.handles = st.handles)
    (hc : st'.cache = st.cache) (hi : st'.inits = st.inits) (h1 : st'.cur.inputs = st.cur.inputs)
    (h2 : st'.cur.nodes = st.cur.nodes) (hs : st'.stack = st.stack) (hd : st'.done = st.done) : Bnd st' := by
  refine h.same hL hh hc hi ?_ ?_
  · intro f' hf'
    simp only [St.frames, List.mem_cons, hs, hd] at hf'
    rcases hf' with rfl | x
    · exact ⟨st.cur, by simp [St.frames], h1, h2⟩
    · exact ⟨f', by simp only [St.frames, List.mem_cons]; exact Or.inr x, rfl, rfl⟩
  · intro f hf
    simp only [St.frames, List.mem_cons] at hf
    rcases hf with rfl | x
    · exact ⟨st'.cur, by simp [St.frames], h1, h2⟩
    · exact ⟨f, by simp only [St.frames, List.mem_cons, hs, hd]; exact Or.inr x, rfl, rfl⟩

/-- items covered: everything but `call_inline`. -/
def wfItem : Item → Bool
  | .inline _ _ _ _ _ => false
  | _ => true

theorem Bnd.step (total : Bool) (fns : List Fn) (st : St) (it : Item) (hs : wfItem it = true) (h : Bnd st) :
    Bnd (OV.C18.step total fns st it) := by
  cases it with
  | input n => exact Bnd.doInput st n h
  | op t a o nn g as => exact Bnd.doOp total st t a o nn g as h
  | push n => exact h.curMeta rfl rfl rfl rfl rfl rfl rfl rfl
  | pop =>
    simp only [OV.C18.step, popScope]
    split
    · exact Bnd.fail st _ h
    · exact h.curMeta rfl rfl rfl rfl rfl rfl rfl rfl
  | call f a o as => exact Bnd.doCall total fns st f a o as h
  | inline f a o p as => simp [wfItem] at hs
  | beginSub g i => exact Bnd.doBeginSub st g i h
  | endSub r d => exact Bnd.doEndSub st r d h
  | abortSub => exact Bnd.doAbortSub st h
  | output hd n =>
    simp only [OV.C18.step, doOutput]
    split
    · exact Bnd.fail st _ h
    · split
      · split
        · exact h.curMeta rfl rfl rfl rfl rfl rfl rfl rfl
        · exact (h.sameCore (SameCore.rename st _ _)).curMeta rfl rfl rfl rfl rfl rfl rfl rfl
      · exact h.curMeta rfl rfl rfl rfl rfl rfl rfl rfl

theorem Bnd.foldl (total : Bool) (fns : List Fn) : ∀ (tr : List Item) (st : St),
    (∀ it ∈ tr, wfItem it = true) → Bnd st → Bnd (tr.foldl (OV.C18.step total fns) st)
  | [], st, _, h => h
  | it :: r, st, hs, h => by
    simp only [List.foldl_cons]
    exact Bnd.foldl total fns r _ (fun x hx => hs x (by simp [hx]))
      (Bnd.step total fns st it (hs it (by simp)) h)

end OV.C18
