import OV.Model.C03Frag
import OV.Lemmas.C03Steps
import OV.Lemmas.C03State
/-!
# Helper lemmas for the end-to-end theorem on the generic-folding fragment

Fragment: nodes without bodies, for whose operator no partial evaluator is registered, and which are
not `Constant` nodes (constants are initializers).  On this fragment `process_node` is: gate cascade →
reference evaluation → `new_initializer` → `replace_node`.
-/
namespace OV.C03

variable {V : Type}

/-! ### `substInputs` is the identity while the symbolic map is empty -/

theorem getSym_nil (st : St) (h : st.sym = []) (x : Option Name) : st.getSym x = none := by
  cases x with
  | none => rfl
  | some y => simp [St.getSym, h, lookupA]

theorem substInputs_nil (st : St) (n : Node) (h : st.sym = []) : substInputs st n = (n, st) := by
  unfold substInputs
  have key : ∀ (l : List (Option Name)) (l0 : List (Option Name)),
      l.foldl substStep (l0, st) = (l0 ++ l, st) := by
    intro l
    induction l with
    | nil => intro l0; simp
    | cons x xs ih =>
      intro l0
      simp only [List.foldl_cons]
      cases x with
      | none => simp only [substStep]; rw [ih]; simp
      | some y => simp only [substStep, getSym_nil st h]; rw [ih]; simp
  simp only [key n.inputs [], List.nil_append]
  cases n
  rfl

/-! ### states that differ only in bookkeeping -/

/-- same annotations and symbolic map -/
def SameIS (st st' : St) : Prop := st'.info = st.info ∧ st'.sym = st.sym

theorem SameIS.refl (st : St) : SameIS st st := ⟨rfl, rfl⟩
theorem SameIS.trans {a b c : St} (h1 : SameIS a b) (h2 : SameIS b c) : SameIS a c :=
  ⟨h2.1.trans h1.1, h2.2.trans h1.2⟩
theorem SameIS.constOf {st st' : St} (h : SameIS st st') (x : Name) : st'.constOf x = st.constOf x := by
  simp only [St.constOf, St.getInfo, h.1]

theorem sameIS_gateProceed (ctx : Ctx) (st : St) (n : Node) : SameIS st (gateProceed ctx st n).2 := by
  unfold gateProceed
  split
  · exact ⟨rfl, rfl⟩
  · exact ⟨rfl, rfl⟩
  · split
    · exact ⟨rfl, rfl⟩
    · simp only []
      split
      · split
        · exact ⟨rfl, rfl⟩
        · exact ⟨rfl, rfl⟩
      · exact SameIS.refl st

theorem sameIS_decUses (xs : List (Option Name)) : ∀ (st : St), SameIS st (st.decUses xs) := by
  induction xs with
  | nil => intro st; exact SameIS.refl st
  | cons x xs ih =>
    intro st
    simp only [St.decUses, List.foldl_cons] at ih ⊢
    cases x with
    | none => exact ih st
    | some y => exact SameIS.trans ⟨rfl, rfl⟩ (ih (st.decUse y))

theorem sameIS_clearUnused (ins : List Name) : ∀ (st : St), SameIS st (clearUnused st ins) := by
  induction ins with
  | nil => intro st; exact SameIS.refl st
  | cons x xs ih =>
    intro st
    simp only [clearUnused, List.foldl_cons] at ih ⊢
    split
    · exact SameIS.trans ⟨rfl, rfl⟩ (ih _)
    · exact ih st

/-! ### what the gate cascade can answer (main graph, `is_function = False`) -/

def foldInfo (c : CInfo) : VInfo :=
  { dtype := some c.dtype, shape := some (c.shape.map fun (d : Nat) => Dim.known (Int.ofNat d)), const := some c }

theorem emitFold_cases (ctx : Ctx) (hnf : ctx.isFunction = false) (st : St) (n : Node) (c : CInfo) :
    (∃ st', emitFold ctx st n c = (.keep n, st') ∧ SameIS st st') ∨
    (∃ m st', emitFold ctx st n c = (.error m, st')) ∨
    (∃ st3 o, n.outputs = [o] ∧
      emitFold ctx st n c = (.repl n { newNodes := [], newOuts := ["%" ++ toString st.fresh],
                                       inits := [("%" ++ toString st.fresh, c.tok)] }, st3) ∧
      st3.sym = st.sym ∧ st3.info = insertA st.info ("%" ++ toString st.fresh) (foldInfo c)) := by
  unfold emitFold
  simp only []
  split
  · exact Or.inl ⟨_, rfl, ⟨rfl, rfl⟩⟩
  · rename_i hlen
    have hlen1 : n.outputs.length = 1 := by simpa using hlen
    obtain ⟨o, ho⟩ : ∃ o, n.outputs = [o] := by
      match hn : n.outputs, hlen1 with
      | [o], _ => exact ⟨o, rfl⟩
    split
    · exact Or.inl ⟨_, rfl, ⟨rfl, rfl⟩⟩
    · split
      · rename_i hf
        rw [hnf] at hf
        exact absurd hf (by decide)
      · by_cases hcomp : c.size > ctx.outLimit
        · simp only [hcomp, if_true]
          exact Or.inr (Or.inr ⟨_, o, ho, rfl, rfl, rfl⟩)
        · simp only [hcomp, if_false]
          exact Or.inr (Or.inr ⟨_, o, ho, rfl, rfl, rfl⟩)

def freshOf (st : St) : Name := "%" ++ toString st.fresh

theorem gateCascade_cases (ctx : Ctx) (hnf : ctx.isFunction = false) (st : St) (n : Node) (v : Nat) :
    (∃ st', gateCascade ctx st n v = (.keep n, st') ∧ SameIS st st') ∨
    (∃ m st', gateCascade ctx st n v = (.error m, st')) ∨
    (∃ c st2 st3 o, SameIS st st2 ∧ lookupA ctx.oracle (oracleKey st2 n v) = some (.single c) ∧
      n.outputs = [o] ∧ n.subs = [] ∧ n.isOp "Constant" = false ∧
      (∀ x, some x ∈ n.inputs → (st.constOf x).isSome = true) ∧
      gateCascade ctx st n v = (.repl n { newNodes := [], newOuts := [freshOf st2], inits := [(freshOf st2, c.tok)] }, st3) ∧
      st3.sym = st2.sym ∧ st3.info = insertA st2.info (freshOf st2) (foldInfo c)) := by
  unfold gateCascade
  split
  · exact Or.inl ⟨_, rfl, ⟨rfl, rfl⟩⟩
  · rename_i hconst
    split
    · exact Or.inl ⟨_, rfl, ⟨rfl, rfl⟩⟩
    · rename_i hcf
      split
      · exact Or.inl ⟨_, rfl, ⟨rfl, rfl⟩⟩
      · split
        · exact Or.inl ⟨_, rfl, ⟨rfl, rfl⟩⟩
        · split
          · exact Or.inl ⟨_, rfl, ⟨rfl, rfl⟩⟩
          · rename_i hnc
            have hins : ∀ x, some x ∈ n.inputs → (st.constOf x).isSome = true := by
              intro x hx
              have hm : x ∈ n.inputs.filterMap id := List.mem_filterMap.mpr ⟨some x, hx, rfl⟩
              have := List.any_eq_false.mp (by simpa using hnc) x hm
              simpa [Option.isNone_iff_eq_none, Option.isSome_iff_ne_none] using this
            have hsubs : n.subs = [] := by
              simp only [isControlFlow, Bool.not_eq_eq_eq_not] at hcf
              simpa using hcf
            have hp := sameIS_gateProceed ctx st n
            split
            · rename_i st2 heq
              rw [heq] at hp
              exact Or.inl ⟨_, rfl, hp⟩
            · rename_i st2 heq
              rw [heq] at hp
              split
              · exact Or.inl ⟨_, rfl, SameIS.trans hp ⟨rfl, rfl⟩⟩
              · exact Or.inl ⟨_, rfl, SameIS.trans hp ⟨rfl, rfl⟩⟩
              · rename_i c hor0
                have hor : lookupA ctx.oracle (oracleKey st2 n v) = some (.single c) := by
                  unfold oracleAnswer at hor0
                  split at hor0
                  · simp at hor0
                  · exact hor0
                rcases emitFold_cases ctx hnf st2 n c with ⟨st', he, hs⟩ | ⟨m, st', he⟩ | ⟨st3, o, ho, he, hs1, hs2⟩
                · exact Or.inl ⟨st', he, SameIS.trans hp hs⟩
                · exact Or.inr (Or.inl ⟨m, st', he⟩)
                · exact Or.inr (Or.inr ⟨c, st2, st3, o, hp, hor, ho, hsubs, by simpa using hconst, hins, he, hs1, hs2⟩)

/-! ### assoc lists -/

theorem lookupA_cons {α} (l : List (Name × α)) (y : Name) (a : α) (x : Name) :
    lookupA ((y, a) :: l) x = if y = x then some a else lookupA l x := by
  simp only [lookupA, List.find?]
  by_cases h : y = x
  · simp [h]
  · have : (y == x) = false := by simpa using h
    simp [this, h]

theorem lookupA_erase {α} (l : List (Name × α)) (y x : Name) :
    lookupA (eraseA l y) x = if x = y then none else lookupA l x := by
  induction l with
  | nil => simp [eraseA, lookupA]
  | cons p ps ih =>
    obtain ⟨k, a⟩ := p
    simp only [eraseA, List.filter] at ih ⊢
    by_cases hk : k = y
    · subst hk
      simp only [bne_self_eq_false]
      rw [ih, lookupA_cons]
      by_cases hx : x = k
      · simp [hx]
      · have : ¬ k = x := fun e => hx e.symm
        simp [hx, this]
    · have : (k != y) = true := by simpa using hk
      simp only [this]
      rw [lookupA_cons, lookupA_cons, ih]
      by_cases hx : x = y
      · subst hx
        simp [hk]
      · simp [hx]

theorem lookupA_insert {α} (l : List (Name × α)) (y : Name) (a : α) (x : Name) :
    lookupA (insertA l y a) x = if x = y then some a else lookupA l x := by
  simp only [insertA]
  rw [lookupA_cons, lookupA_erase]
  by_cases h : x = y
  · simp [h]
  · have : ¬ y = x := fun e => h e.symm
    simp [h, this]

/-! ### `replace_node` for a generic fold -/

/-- the state after `replace_node` for a generic fold -/
def foldState (st3 : St) (n : Node) (o fv : Name) (l : List Name) : St :=
  { (clearUnused { ((inheritInfo st3 [(o, fv)]).decUses n.inputs) with initNames := l } (n.inputs.filterMap id)) with modified := true }

theorem applyRepl_fold_eq (ctx : Ctx) (hnf : ctx.isFunction = false) (st3 : St) (n : Node) (o fv : Name) (tok : String)
    (ho : n.outputs = [o]) :
    ∃ l, applyRepl ctx st3 n { newNodes := [], newOuts := [fv], inits := [(fv, tok)] } = .ok ([], [(o, tok)], foldState st3 n o fv l) := by
  unfold applyRepl
  simp only [ho, List.length_cons, List.length_nil, bne_self_eq_false, Bool.false_eq_true, if_false, List.zip_cons_cons,
    List.zip_nil_right, List.map_cons, List.map_nil, hnf, countNewUses, List.foldl_nil, renName, lookupA_cons, if_true,
    Option.getD_some]
  exact ⟨_, rfl⟩

theorem sameIS_foldState (st3 : St) (n : Node) (o fv : Name) (l : List Name) :
    SameIS (inheritInfo st3 [(o, fv)]) (foldState st3 n o fv l) := by
  have key : ∀ (A : St) (l : List Name) (ins : List Name),
      SameIS A { (clearUnused { A with initNames := l } ins) with modified := true } := fun A l ins =>
    SameIS.trans (b := { A with initNames := l }) ⟨rfl, rfl⟩
      (SameIS.trans (b := clearUnused { A with initNames := l } ins) (sameIS_clearUnused ins _) ⟨rfl, rfl⟩)
  exact SameIS.trans (sameIS_decUses n.inputs _) (key _ _ _)

theorem applyRepl_fold (ctx : Ctx) (hnf : ctx.isFunction = false) (st3 : St) (n : Node) (o fv : Name) (tok : String)
    (ho : n.outputs = [o]) :
    ∃ st4, applyRepl ctx st3 n { newNodes := [], newOuts := [fv], inits := [(fv, tok)] } = .ok ([], [(o, tok)], st4) ∧
      SameIS (inheritInfo st3 [(o, fv)]) st4 ∧ ∃ l, st4 = foldState st3 n o fv l := by
  obtain ⟨l, h⟩ := applyRepl_fold_eq ctx hnf st3 n o fv tok ho
  exact ⟨_, h, sameIS_foldState st3 n o fv l, l, rfl⟩

theorem inheritInfo_fold (st2 st3 : St) (o fv : Name) (c : CInfo)
    (hinfo : st3.info = insertA st2.info fv (foldInfo c)) :
    (inheritInfo st3 [(o, fv)]).sym = eraseA st3.sym o ∧
    ∀ x c', (inheritInfo st3 [(o, fv)]).constOf x = some c' → (x = o ∧ c' = c) ∨ st2.constOf x = some c' := by
  constructor
  · rfl
  · intro x c' h
    simp only [inheritInfo, List.foldl_cons, List.foldl_nil, St.constOf, St.getInfo, St.setInfo, St.clearSym,
      lookupA_erase, lookupA_insert, hinfo] at h
    by_cases hxfv : x = fv
    · simp [hxfv] at h
    · simp only [hxfv, if_false] at h
      by_cases hxo : x = o
      · subst hxo
        simp only [if_true, Option.getD_some, if_pos rfl] at h
        by_cases hofv : x = fv
        · exact absurd hofv hxfv
        · simp only [hofv, if_false, orElse] at h
          cases hold : ((lookupA st2.info x).getD {}).const with
          | none =>
            simp only [hold, foldInfo, Option.getD_some, Option.some.injEq] at h
            exact Or.inl ⟨rfl, h.symm⟩
          | some c0 =>
            simp only [hold, Option.some.injEq] at h
            right
            simp only [St.constOf, St.getInfo, hold, h]
      · simp only [hxo, if_false] at h
        right
        simpa only [St.constOf, St.getInfo] using h

/-! ### the fragment, its invariant, the oracle hypothesis -/

/-- A node of the generic-folding fragment: no bodies, not a `Constant` node, no partial evaluator, no reference attribute. -/
def Plain (n : Node) : Prop :=
  n.subs = [] ∧ n.isOp "Constant" = false ∧ (∀ v, lookupEvaluator n v = none) ∧ hasRefAttr n = false

/-- The arguments the state attributes to a node whose inputs are all known constants. -/
def constArgs (sem : Sem V) (st : St) : List (Option Name) → List (Option V)
  | [] => []
  | none :: r => none :: constArgs sem st r
  | some x :: r => ((st.constOf x).map fun c => sem.tensor c.tok) :: constArgs sem st r

/-- A-ref, stated on the model's own query: whenever the table answers `c` for the key computed from
`(st, n)`, the operator applied to the constants `st` attributes to `n`'s inputs yields `c`. -/
def OracleSound (sem : Sem V) (ctx : Ctx) : Prop :=
  ∀ (st : St) (n : Node) (v : Nat) (c : CInfo), lookupA ctx.oracle (oracleKey st n v) = some (.single c) →
    (∀ x, some x ∈ n.inputs → (st.constOf x).isSome = true) →
    sem.op n.op n.domain n.attrs (constArgs sem st n.inputs) = some [sem.tensor c.tok]

structure Inv (sem : Sem V) (st : St) (ρ : Env V) (todo : List Node) : Prop where
  sym : st.sym = []
  const : ∀ x c, st.constOf x = some c → ρ x = some (sem.tensor c.tok)
  fut : ∀ x c, st.constOf x = some c → ∀ m ∈ todo, m.outputs.contains x = false

theorem constArgs_congr (sem : Sem V) {st st' : St} (h : ∀ x, st'.constOf x = st.constOf x) :
    ∀ l, constArgs sem st' l = constArgs sem st l
  | [] => rfl
  | none :: r => by simp only [constArgs, constArgs_congr sem h r]
  | some x :: r => by simp only [constArgs, constArgs_congr sem h r, h x]

theorem lookupAll_const (sem : Sem V) (st : St) (ρ : Env V)
    (hc : ∀ x c, st.constOf x = some c → ρ x = some (sem.tensor c.tok)) :
    ∀ (l : List (Option Name)), (∀ x, some x ∈ l → (st.constOf x).isSome = true) →
      lookupAll ρ l = some (constArgs sem st l)
  | [], _ => rfl
  | none :: r, h => by
    simp only [lookupAll, lookupIn, constArgs]
    rw [lookupAll_const sem st ρ hc r (fun x hx => h x (List.mem_cons_of_mem _ hx))]
    rfl
  | some x :: r, h => by
    have hx := h x List.mem_cons_self
    cases hcx : st.constOf x with
    | none => simp [hcx] at hx
    | some c =>
      simp only [lookupAll, lookupIn, constArgs, hc x c hcx, hcx]
      rw [lookupAll_const sem st ρ hc r (fun y hy => h y (List.mem_cons_of_mem _ hy))]
      rfl

theorem constDenote_not_constant (sem : Sem V) (n : Node) (h : n.isOp "Constant" = false) : constDenote sem n = none := by
  unfold constDenote
  simp [h]

theorem evalNode_bindInits (sem : Sem V) {sub} {n : Node} (hs : n.subs = []) :
    ∀ (added : List (Name × String)) (ρ : Env V),
      (∀ p ∈ added, mentionsTop n p.1 = false) →
      evalNode sem sub (bindInits sem ρ added) n = (evalNode sem sub ρ n).map (bindInits sem · added)
  | [], ρ, _ => by
    simp only [bindInits]
    cases h : evalNode sem sub ρ n <;> rfl
  | (x, t) :: r, ρ, h => by
    have hx := h (x, t) List.mem_cons_self
    simp only [mentionsTop, Bool.or_eq_false_iff] at hx
    have hsf : SubFrame sub x n := by
      intro ρ' v s hsm
      rw [hs] at hsm
      simp at hsm
    simp only [bindInits]
    rw [evalNode_bindInits sem hs r _ (fun p hp => h p (List.mem_cons_of_mem _ hp)), evalNode_set sem hx.1 hx.2 hsf]
    cases h2 : evalNode sem sub ρ n <;> rfl

theorem processNode_plain (ctx : Ctx) (st : St) (n : Node) (hp : Plain n) (hsym : st.sym = []) :
    processNode ctx st n = (match lookupA ctx.imports n.domain with
      | none => (.keep n, st.note "gate:noimport")
      | some v => gateCascade ctx st n v) := by
  unfold processNode
  simp only [substInputs_nil st n hsym, hp.2.2.2, hp.2.1, Bool.false_eq_true, if_false, evalPartial, hp.2.2.1, finishNode]
  cases lookupA ctx.imports n.domain <;> rfl

theorem evalNodes_cons_some {f : Env V → Node → Option (Env V)} {ρ ρf : Env V} {n : Node} {rest : List Node}
    (h : evalNodes f ρ (n :: rest) = some ρf) : ∃ ρ1, f ρ n = some ρ1 ∧ evalNodes f ρ1 rest = some ρf := by
  simp only [evalNodes] at h
  cases h1 : f ρ n with
  | none => simp [h1] at h
  | some ρ1 => exact ⟨ρ1, rfl, by simpa [h1] using h⟩

theorem orderOK_tail {n : Node} {rest : List Node} (h : orderOK (n :: rest) = true) : orderOK rest = true := by
  simp only [orderOK, Bool.and_eq_true] at h
  exact h.2

theorem orderOK_head {n : Node} {rest : List Node} (h : orderOK (n :: rest) = true) {m : Node} (hm : m ∈ rest)
    {o : Name} (ho : m.outputs.contains o = true) : mentionsTop n o = false := by
  simp only [orderOK, Bool.and_eq_true, List.all_eq_true] at h
  have := h.1 m hm o (by simpa using ho)
  simpa using this

theorem setSubs_nil (n : Node) (h : n.subs = []) : n.setSubs [] = n := by
  cases n
  simp only [Node.subs] at h
  simp [Node.setSubs, Node.op, Node.domain, Node.inputs, Node.outputs, Node.attrs, h]

/-- the step "node kept" preserves the invariant -/
theorem Inv.keep {sem : Sem V} {sub} {st st' : St} {ρ ρ1 : Env V} {n : Node} {rest : List Node}
    (hI : Inv sem st ρ (n :: rest)) (hs : SameIS st st') (he : evalNode sem sub ρ n = some ρ1) :
    Inv sem st' ρ1 rest := by
  refine ⟨hs.2.trans hI.sym, ?_, ?_⟩
  · intro x c hx
    rw [hs.constOf] at hx
    rw [evalNode_get_other sem he (hI.fut x c hx n List.mem_cons_self)]
    exact hI.const x c hx
  · intro x c hx m hm
    rw [hs.constOf] at hx
    exact hI.fut x c hx m (List.mem_cons_of_mem _ hm)

/-- **Simulation through the node loop** on the generic-folding fragment. -/
theorem visitNodes_sim (sem : Sem V) (ctx : Ctx) (hnf : ctx.isFunction = false) (hor : OracleSound sem ctx)
    (sub : Env V → Graph → List (Option V) → Option (List V)) (vg : St → Graph → St × Graph) :
    ∀ (f : Nat) (todo : List Node) (st : St) (acc : List Node) (ai : List (Name × String)) (ρ ρf : Env V),
      (∀ n ∈ todo, Plain n) → orderOK todo = true → Inv sem st ρ todo →
      evalNodes (evalNode sem sub) ρ todo = some ρf →
      ∃ new added, (visitNodes ctx vg f st todo acc ai).2.1 = acc.reverse ++ new ∧
        (visitNodes ctx vg f st todo acc ai).2.2 = ai ++ added ∧
        (∀ p ∈ added, ∃ m ∈ todo, m.outputs.contains p.1 = true) ∧
        evalNodes (evalNode sem sub) (bindInits sem ρ added) new = some ρf ∧
        ((visitNodes ctx vg f st todo acc ai).1.err.isSome = true ∨ (visitNodes ctx vg f st todo acc ai).1.sym = []) ∧
        (∀ m ∈ new, m ∈ todo) := by
  intro f
  induction f with
  | zero =>
    intro todo st acc ai ρ ρf _ _ _ he
    exact ⟨todo, [], by simp [visitNodes], by simp [visitNodes], by simp, he, Or.inl (by simp [visitNodes]), fun m hm => hm⟩
  | succ f ih =>
    intro todo st acc ai ρ ρf hplain hord hI he
    cases todo with
    | nil =>
      exact ⟨[], [], by simp [visitNodes], by simp [visitNodes], by simp, he, Or.inr (by simp [visitNodes, hI.sym]), fun m hm => hm⟩
    | cons n rest =>
      have stuck : ∀ (s : St), s.err.isSome = true → ∃ new added, ((s, acc.reverse ++ n :: rest, ai) : St × List Node × List (Name × String)).2.1 = acc.reverse ++ new ∧
          ((s, acc.reverse ++ n :: rest, ai) : St × List Node × List (Name × String)).2.2 = ai ++ added ∧
          (∀ p ∈ added, ∃ m ∈ n :: rest, m.outputs.contains p.1 = true) ∧
          evalNodes (evalNode sem sub) (bindInits sem ρ added) new = some ρf ∧
          (((s, acc.reverse ++ n :: rest, ai) : St × List Node × List (Name × String)).1.err.isSome = true ∨
            ((s, acc.reverse ++ n :: rest, ai) : St × List Node × List (Name × String)).1.sym = []) ∧
          (∀ m ∈ new, m ∈ n :: rest) :=
        fun s hs => ⟨n :: rest, [], rfl, by simp, by simp, he, Or.inl hs, fun m hm => hm⟩
      obtain ⟨ρ1, he1, he2⟩ := evalNodes_cons_some he
      have hpn := hplain n List.mem_cons_self
      have hprest : ∀ m ∈ rest, Plain m := fun m hm => hplain m (List.mem_cons_of_mem _ hm)
      have hordr := orderOK_tail hord
      -- a kept node
      have keepCase : ∀ (st' : St), SameIS st st' →
          ∃ new added, (visitNodes ctx vg f st' rest (n :: acc) ai).2.1 = acc.reverse ++ new ∧
            (visitNodes ctx vg f st' rest (n :: acc) ai).2.2 = ai ++ added ∧
            (∀ p ∈ added, ∃ m ∈ n :: rest, m.outputs.contains p.1 = true) ∧
            evalNodes (evalNode sem sub) (bindInits sem ρ added) new = some ρf ∧
            ((visitNodes ctx vg f st' rest (n :: acc) ai).1.err.isSome = true ∨ (visitNodes ctx vg f st' rest (n :: acc) ai).1.sym = []) ∧
            (∀ m ∈ new, m ∈ n :: rest) := by
        intro st' hs
        obtain ⟨newr, addedr, h1, h2, h3, h4, h5, h6⟩ := ih rest st' (n :: acc) ai ρ1 ρf hprest hordr (hI.keep hs he1) he2
        refine ⟨n :: newr, addedr, by rw [h1]; simp, h2, ?_, ?_, h5, ?_⟩
        rotate_left 2
        · intro m hm
          rcases List.mem_cons.mp hm with rfl | hm
          · exact List.mem_cons_self
          · exact List.mem_cons_of_mem _ (h6 m hm)
        · intro p hp
          obtain ⟨m, hm, hmo⟩ := h3 p hp
          exact ⟨m, List.mem_cons_of_mem _ hm, hmo⟩
        · simp only [evalNodes]
          rw [evalNode_bindInits sem hpn.1 addedr ρ (fun p hp => by
            obtain ⟨m, hm, hmo⟩ := h3 p hp
            exact orderOK_head hord hm hmo), he1]
          exact h4
      simp only [visitNodes]
      split
      · rename_i herr
        exact stuck st herr
      · rw [processNode_plain ctx st n hpn hI.sym]
        cases himp : lookupA ctx.imports n.domain with
        | none =>
          simp only [hpn.1, visitSubs, setSubs_nil n hpn.1]
          exact keepCase _ ⟨rfl, rfl⟩
        | some v =>
          simp only []
          rcases gateCascade_cases ctx hnf st n v with ⟨st', hg, hs⟩ | ⟨m, st', hg⟩ | ⟨c, st2, st3, o, hs2, hora, ho, hsubs, hnc, hins, hg, hsym3, hinfo3⟩
          · rw [hg]
            simp only [hpn.1, visitSubs, setSubs_nil n hpn.1]
            exact keepCase st' hs
          · rw [hg]
            exact stuck _ rfl
          · rw [hg]
            obtain ⟨st4, happ, hs4, _⟩ := applyRepl_fold ctx hnf st3 n o (freshOf st2) c.tok ho
            simp only [happ, List.nil_append]
            -- the node computes the folded constant
            have hcong : ∀ x, st2.constOf x = st.constOf x := fun x => hs2.constOf x
            have hins2 : ∀ x, some x ∈ n.inputs → (st2.constOf x).isSome = true := fun x hx => by
              rw [hcong]; exact hins x hx
            have hop := hor st2 n v c hora hins2
            rw [constArgs_congr sem hcong] at hop
            have hρ1 : ρ1 = ρ.set o (sem.tensor c.tok) := by
              have : evalNode sem sub ρ n = some (ρ.set o (sem.tensor c.tok)) := by
                simp only [evalNode, lookupAll_const sem st ρ hI.const n.inputs hins, Option.bind, nodeOutputs, hsubs,
                  List.isEmpty_nil, if_true, constDenote_not_constant sem n hnc, hop, ho, bindOuts]
              rw [this] at he1
              exact (Option.some.inj he1).symm
            have ho_rest : ∀ m ∈ rest, m.outputs.contains o = false := by
              intro m hm
              cases hc : m.outputs.contains o with
              | false => rfl
              | true =>
                have := orderOK_head hord hm hc
                simp [mentionsTop, ho] at this
            have hfold := inheritInfo_fold st2 st3 o (freshOf st2) c hinfo3
            have hI4 : Inv sem st4 ρ1 rest := by
              refine ⟨?_, ?_, ?_⟩
              · rw [hs4.2, hfold.1, hsym3, hs2.2, hI.sym]; rfl
              · intro x c' hx
                rw [hs4.constOf] at hx
                rcases hfold.2 x c' hx with ⟨hxo, hcc⟩ | hx2
                · subst hxo; subst hcc
                  rw [hρ1, Env.set_get_same]
                · rw [hcong] at hx2
                  have hxo : x ≠ o := by
                    intro e
                    have := hI.fut x c' hx2 n List.mem_cons_self
                    simp [ho, e] at this
                  rw [hρ1, Env.set_get_ne ρ _ hxo]
                  exact hI.const x c' hx2
              · intro x c' hx m hm
                rw [hs4.constOf] at hx
                rcases hfold.2 x c' hx with ⟨hxo, _⟩ | hx2
                · subst hxo; exact ho_rest m hm
                · rw [hcong] at hx2
                  exact hI.fut x c' hx2 m (List.mem_cons_of_mem _ hm)
            obtain ⟨newr, addedr, h1, h2, h3, h4, h5, h6⟩ := ih rest st4 acc (ai ++ [(o, c.tok)]) ρ1 ρf hprest hordr hI4 he2
            refine ⟨newr, (o, c.tok) :: addedr, h1, by rw [h2]; simp, ?_, ?_, h5, fun m hm => List.mem_cons_of_mem _ (h6 m hm)⟩
            · intro p hp
              rcases List.mem_cons.mp hp with rfl | hp
              · exact ⟨n, List.mem_cons_self, by simp [ho]⟩
              · obtain ⟨m, hm, hmo⟩ := h3 p hp
                exact ⟨m, List.mem_cons_of_mem _ hm, hmo⟩
            · simp only [bindInits]
              rw [← hρ1]
              exact h4

/-! ### graph level -/

theorem replaceOutputs_nil (nodes : List Node) : ∀ (outs : List Name) (st : St), st.sym = [] →
    (replaceOutputs st nodes outs).2 = outs
  | [], _, _ => rfl
  | o :: rest, st, h => by
    simp only [replaceOutputs, getSym_nil st h]
    rw [replaceOutputs_nil nodes rest st h]

theorem bindInputs_congr_hd (hd hd' : Name → Bool) : ∀ (xs : List Name) (as : List (Option V)) (ρ : Env V),
    (∀ x ∈ xs, hd' x = hd x) → bindInputs hd' ρ xs as = bindInputs hd ρ xs as
  | [], [], _, _ => rfl
  | [], _ :: _, _, _ => rfl
  | _ :: _, [], _, _ => rfl
  | x :: xs, some w :: as, ρ, h => by
    simp only [bindInputs]
    exact bindInputs_congr_hd hd hd' xs as _ (fun y hy => h y (List.mem_cons_of_mem _ hy))
  | x :: xs, none :: as, ρ, h => by
    simp only [bindInputs, h x List.mem_cons_self]
    split
    · exact bindInputs_congr_hd hd hd' xs as _ (fun y hy => h y (List.mem_cons_of_mem _ hy))
    · rfl

theorem bindInputs_bindInits (sem : Sem V) (hd : Name → Bool) (xs : List Name) (as : List (Option V)) :
    ∀ (added : List (Name × String)) (ρ : Env V), (∀ p ∈ added, xs.contains p.1 = false) →
      bindInputs hd (bindInits sem ρ added) xs as = (bindInputs hd ρ xs as).map (bindInits sem · added)
  | [], ρ, _ => by simp only [bindInits]; cases bindInputs hd ρ xs as <;> rfl
  | (x, t) :: r, ρ, h => by
    simp only [bindInits]
    rw [bindInputs_bindInits sem hd xs as r _ (fun p hp => h p (List.mem_cons_of_mem _ hp)),
      bindInputs_set hd (h (x, t) List.mem_cons_self)]
    cases bindInputs hd ρ xs as <;> rfl

theorem find_append_notin {inits added : List (Name × String)} {x : Name}
    (hx : ∀ p ∈ added, p.1 ≠ x) :
    ((inits ++ added).find? (fun p => p.1 == x)).map (·.2) = (inits.find? (fun p => p.1 == x)).map (·.2) := by
  induction inits with
  | nil =>
    simp only [List.nil_append, List.find?]
    have : added.find? (fun p => p.1 == x) = none := by
      apply List.find?_eq_none.mpr
      intro p hp
      simpa using hx p hp
    rw [this]
  | cons p r ih =>
    simp only [List.cons_append, List.find?]
    cases p.1 == x
    · exact ih
    · rfl

/-- Well-formedness of the fragment's graphs (one level): nodes are plain, ordered, and no node
output is a formal input or an initializer of the graph. -/
structure FragWF (g : Graph) : Prop where
  plain : ∀ n ∈ g.nodes, Plain n
  order : orderOK g.nodes = true
  outs_fresh : ∀ n ∈ g.nodes, ∀ o, n.outputs.contains o = true → g.inputs.contains o = false

/-- The annotation table is truthful about constants for the start environment (A-shape), and no
annotated constant is redefined by a node. -/
structure ConstInfoSound (sem : Sem V) (outer : Env V) (g : Graph) (args : List (Option V)) (info : List (Name × VInfo)) : Prop where
  start : ∀ ρ0, startEnv sem outer g args = some ρ0 → ∀ x c, ((lookupA info x).getD {}).const = some c →
    ρ0 x = some (sem.tensor c.tok)
  notOutput : ∀ x c, ((lookupA info x).getD {}).const = some c → ∀ m ∈ g.nodes, m.outputs.contains x = false

theorem initialState_sym (g : Graph) (info : List (Name × VInfo)) : (initialState g info).sym = [] ∧
    (initialState g info).info = info := by
  unfold initialState
  simp only []
  suffices h : ∀ (l : List Name) (st : St), (l.foldl (fun st x => st.incUse x) st).sym = st.sym ∧
      (l.foldl (fun st x => st.incUse x) st).info = st.info from h _ _
  intro l
  induction l with
  | nil => intro st; exact ⟨rfl, rfl⟩
  | cons x xs ih => intro st; simp only [List.foldl_cons]; exact ⟨(ih _).1, (ih _).2⟩

theorem startEnv_added (sem : Sem V) (outer : Env V) (ins : List Name) (inits added : List (Name × String))
    (nodes nodes' : List Node) (outs outs' : List Name) (args : List (Option V)) (ρ0 : Env V)
    (hs : startEnv sem outer (Graph.mk ins inits nodes outs) args = some ρ0)
    (hadd_in : ∀ p ∈ added, ins.contains p.1 = false) :
    startEnv sem outer (Graph.mk ins (inits ++ added) nodes' outs') args = some (bindInits sem ρ0 added) := by
  simp only [startEnv, Graph.inits, Graph.inputs, Graph.initTok] at hs ⊢
  rw [bindInits_append]
  rw [bindInputs_congr_hd (fun x => ((inits.find? (fun p => p.1 == x)).map (·.2)).isSome) _ ins args _
    (fun x hx => by
      have : ∀ p ∈ added, p.1 ≠ x := by
        intro p hp e
        have := hadd_in p hp
        rw [e] at this
        simp [hx] at this
      simp only [find_append_notin this])]
  rw [bindInputs_bindInits sem _ ins args added _ hadd_in, hs]
  rfl

/-- **End-to-end on the fragment, before `_clear_unused_initializers` is applied.** -/
theorem visitGraph_fragment (sem : Sem V) (ctx : Ctx) (hnf : ctx.isFunction = false) (hor : OracleSound sem ctx)
    (info : List (Name × VInfo)) (g : Graph) (hwf : FragWF g) (d k : Nat) (outer : Env V) (args : List (Option V))
    (hinfo : ConstInfoSound sem outer g args info) (vs : List V)
    (he : evalGraph sem (d + 1) outer g args = some vs) :
    evalGraph sem (d + 1) outer (visitGraph ctx (k + 1) (initialState g info) g).2 args = some vs := by
  obtain ⟨hsym0, hinfo0⟩ := initialState_sym g info
  simp only [evalGraph] at he
  cases hs : startEnv sem outer g args with
  | none => simp [hs] at he
  | some ρ0 =>
    simp only [hs, Option.bind] at he
    cases hn : evalNodes (evalNode sem (evalGraph sem d)) ρ0 g.nodes with
    | none => simp [hn] at he
    | some ρf =>
      simp only [hn] at he
      have hI : Inv sem (initialState g info) ρ0 g.nodes := by
        refine ⟨hsym0, ?_, ?_⟩
        · intro x c hx
          simp only [St.constOf, St.getInfo, hinfo0] at hx
          exact hinfo.start ρ0 hs x c hx
        · intro x c hx m hm
          simp only [St.constOf, St.getInfo, hinfo0] at hx
          exact hinfo.notOutput x c hx m hm
      obtain ⟨new, added, h1, h2, h3, h4, h5, _⟩ := visitNodes_sim sem ctx hnf hor (evalGraph sem d) (visitGraph ctx k)
        (stepFuel g + 16 * (initialState g info).uses.length) g.nodes (initialState g info) [] [] ρ0 ρf
        hwf.plain hwf.order hI hn
      simp only [List.reverse_nil, List.nil_append] at h1 h2
      -- the result graph
      have hres : ∃ outs, (visitGraph ctx (k + 1) (initialState g info) g).2 = Graph.mk g.inputs (g.inits ++ added) new outs ∧
          outs = g.outputs := by
        simp only [visitGraph]
        split
        · exact ⟨_, by rw [h1, h2], rfl⟩
        · rename_i herr
          have hsymf : (visitNodes ctx (visitGraph ctx k) (stepFuel g + 16 * (initialState g info).uses.length)
              (initialState g info) g.nodes [] []).1.sym = [] := by
            rcases h5 with h | h
            · exact absurd h herr
            · exact h
          refine ⟨_, by rw [h1, h2], ?_⟩
          exact replaceOutputs_nil _ _ _ hsymf
      obtain ⟨outs, hg', houts⟩ := hres
      subst houts
      rw [hg']
      -- start environment of the result
      have hadd_in : ∀ p ∈ added, g.inputs.contains p.1 = false := by
        intro p hp
        obtain ⟨m, hm, hmo⟩ := h3 p hp
        exact hwf.outs_fresh m hm p.1 hmo
      have hgeq : g = Graph.mk g.inputs g.inits g.nodes g.outputs := by cases g; rfl
      have hstart : startEnv sem outer (Graph.mk g.inputs (g.inits ++ added) new g.outputs) args =
          some (bindInits sem ρ0 added) := by
        rw [hgeq] at hs
        exact startEnv_added sem outer g.inputs g.inits added g.nodes new g.outputs g.outputs args ρ0 hs hadd_in
      show ((startEnv sem outer (Graph.mk g.inputs (g.inits ++ added) new g.outputs) args).bind fun ρ0 =>
        (evalNodes (evalNode sem (evalGraph sem d)) ρ0 (Graph.mk g.inputs (g.inits ++ added) new g.outputs).nodes).bind fun ρ =>
          lookupOuts ρ (Graph.mk g.inputs (g.inits ++ added) new g.outputs).outputs) = some vs
      rw [hstart]
      show ((evalNodes (evalNode sem (evalGraph sem d)) (bindInits sem ρ0 added) new).bind fun ρ => lookupOuts ρ g.outputs) = some vs
      rw [h4]
      exact he

end OV.C03
