import OV.Lemmas.C06CompleteOr

/-!
# C06 — completeness for *leftmost* instances (what BacktrackingOr does find)

`BacktrackingOr` commits to the first alternative that succeeds and never revisits the choice
(finding C06-D11), so an instance that needs a later alternative although an earlier one is
satisfiable at the same value can be missed.  The instances it cannot miss are the *leftmost* ones:
at every `BacktrackingOr` occurrence the instance takes alternative `i`, and no earlier alternative
describes the value under any assignment.  `SatVL`/`SatNL` are `SatV`/`SatN` with that extra premise
at the `orB` rule.  With mutually exclusive alternatives every instance is leftmost (`satV_leftmost`),
so this generalises `patternMatch_complete_or`.
-/

namespace OV.C06

mutual
/-- `SatV` whose `BacktrackingOr` choices are leftmost: no earlier alternative is satisfiable at the value -/
inductive SatVL (E : Env) (A : Assign) : VPat → Option ValueId → Prop
  | any (v : Option ValueId) : SatVL E A .any v
  | var (id : Nat) (name : Option String) (isVar canNone : Bool) (check : Option Bool) (v : Option ValueId) :
      A.boundTo E.p (.var id name isVar canNone check) v →
      (v = none → canNone = true) →
      (∀ x, v = some x → E.g.isForeign x = true → isVar = true) →
      SatVL E A (.var id name isVar canNone check) v
  | const (id : Nat) (c : ConstPat) (x : ValueId) (cv : ConstVal) :
      A.boundTo E.p (.const id c) (some x) →
      E.g.constOf x = some cv → constOk E.close c cv = true →
      SatVL E A (.const id c) (some x)
  | out (np : NPId) (idx : Nat) (x : ValueId) (n : NodeId) :
      A.boundTo E.p (.out np idx) (some x) →
      E.g.isForeign x = false →
      E.g.producer x = some n → E.g.index x = some idx →
      SatNL E A np n →
      SatVL E A (.out np idx) (some x)
  | orD (id : Nat) (name tagVar : Option String) (alts : List DAlt) (x : ValueId) (a : DAlt) :
      A.boundTo E.p (.orD id name tagVar alts) (some x) →
      E.g.isForeign x = false →
      getDispatch E.g alts x = some a →
      SatVL E A (.out a.np a.idx) (some x) →
      (∀ t, tagVar = some t → A.names t = some (.tag a.tag)) →
      SatVL E A (.orD id name tagVar alts) (some x)
  | orB (id : Nat) (name tagVar : Option String) (tags : List Int) (alts : List VPat) (v : Option ValueId)
      (i : Nat) (alt : VPat) :
      A.boundTo E.p (.orB id name tagVar tags alts) v →
      (∀ x, v = some x → E.g.isForeign x = false) →
      alts[i]? = some alt →
      SatVL E A alt v →
      (∀ t, tagVar = some t → A.names t = some (.tag (tags.getD i 0))) →
      -- leftmost: no earlier alternative describes `v`, under any assignment
      (∀ j, j < i → ∀ aj, alts[j]? = some aj → Unsat E aj v) →
      SatVL E A (.orB id name tagVar tags alts) v
inductive SatNL (E : Env) (A : Assign) : NPId → NodeId → Prop
  | mk (np : NPId) (n : NodeId) (P : NPat) (N : GNode) :
      E.p.nodes[np]? = some P → E.g.nodes[n]? = some N →
      A.node np = some n →
      P.op.matches N.op = true → P.domain.matches N.domain = true →
      attrsSat A P N →
      (N.inputs.length ≤ P.inputs.length ∨ P.allowOtherInputs = true) →
      (∀ i : Nat, P.inputs[i]? = some none → inputAt N i = none) →
      (∀ (i : Nat) (vp : VPat), P.inputs[i]? = some (some vp) → SatVL E A vp (inputAt N i)) →
      (∀ i, i < P.outputs.length → ∃ x, N.outputs[i]? = some x ∧ A.boundTo E.p (.out np i) (some x)) →
      SatNL E A np n
end

mutual
/-- a leftmost instance is an instance -/
theorem SatVL.toSatV {E : Env} {A : Assign} : ∀ {vp : VPat} {v : Option ValueId}, SatVL E A vp v → SatV E A vp v
  | _, _, .any v => .any v
  | _, _, .var id name isVar canNone check v hb h1 h2 => .var id name isVar canNone check v hb h1 h2
  | _, _, .const id c x cv hb h1 h2 => .const id c x cv hb h1 h2
  | _, _, .out np idx x n hb hf hp hi hn => .out np idx x n hb hf hp hi hn.toSatN
  | _, _, .orD id name tagVar alts x a hb hf hd hs ht => .orD id name tagVar alts x a hb hf hd hs.toSatV ht
  | _, _, .orB id name tagVar tags alts v i alt hb hf ha hs ht _ =>
    .orB id name tagVar tags alts v i alt hb hf ha hs.toSatV ht
theorem SatNL.toSatN {E : Env} {A : Assign} : ∀ {np : NPId} {n : NodeId}, SatNL E A np n → SatN E A np n
  | _, _, .mk np n P N h1 h2 h3 h4 h5 h6 h7 h8 h9 h10 =>
    .mk np n P N h1 h2 h3 h4 h5 h6 h7 h8 (fun i vp e => (h9 i vp e).toSatV) h10
end

/-- no *named* variable among the inputs of the node patterns carries a checker (as `NamedVarsUnchecked`) -/
def GPat.nuOk (p : GPat) : Prop := ∀ P ∈ p.nodes, ∀ vp, some vp ∈ P.inputs → vp.nu = true

/-- completeness of the recursive node matcher below `f`, from any state that agrees with `A` -/
def NodeCL (E : Env) (A : Assign) (rec : NPId → NodeId → Stack → R) (f : Nat) : Prop :=
  ∀ np n rest c P, np < f → SatNL E A np n → c.ok = true → SubS (c :: rest) A → InvS E rest c P →
    FreshP rest c → (∀ x ∈ P, np < x) →
    ∃ c', rec np n (c :: rest) = (true, c' :: rest) ∧ c'.ok = true ∧ SubS (c' :: rest) A

/-- `A` is an instance whose BacktrackingOr choices are all leftmost -/
def InstanceL (E : Env) (root : NodeId) (A : Assign) : Prop :=
  Instance E root A ∧ ∀ np ∈ E.p.outputNodes, ∀ n, A.node np = some n → SatNL E A np n

mutual
theorem matchValue_completeL (E : Env) (A : Assign) (rec : NPId → NodeId → Stack → R) (f : Nat)
    (hrecS : NodeSpecS E rec) (hrecC : NodeCL E A rec f) (hf3 : E.fixF3 = true) :
    ∀ (vp : VPat) (v : Option ValueId) (rest : Stack) (c : Partial) (P : List NPId),
      SatVL E A vp v → c.ok = true → SubS (c :: rest) A → InvS E rest c P → FreshP rest c →
      vp.backOk = true → vp.nu = true →
      (∀ q ∈ vp.refs, ∀ x ∈ P, q < x) → (∀ q ∈ vp.refs, q < f) →
      ∃ c', matchValue E rec vp v (c :: rest) = (true, c' :: rest) ∧ c'.ok = true ∧ SubS (c' :: rest) A
  | .any, v, rest, c, P, _, hok, h, _, _, _, _, _, _ => by
    unfold matchValue
    have : crossGraphBad E.g .any v = false := by
      unfold crossGraphBad; cases v <;> simp [VPat.crossGraphOk]
    simp only [this, Bool.false_eq_true, if_false]
    exact ⟨c, rfl, hok, h⟩
  | .var id name isVar canNone check, v, rest, c, P, hs, hok, h, _, _, _, hnu, _, _ => by
    cases hs with
    | var _ _ _ _ _ _ hb h1 h2 =>
      unfold matchValue
      have hcg : crossGraphBad E.g (.var id name isVar canNone check) v = false := by
        unfold crossGraphBad
        cases v with
        | none => rfl
        | some x =>
          cases hfo : E.g.isForeign x with
          | false => simp [hfo]
          | true => simp [VPat.crossGraphOk, h2 x rfl hfo]
      simp only [hcg, Bool.false_eq_true, if_false]
      have hnc : NamedUnchecked E.p (.var id name isVar canNone check) := by
        intro hn
        simp only [GPat.vname] at hn
        simp only [VPat.nu, Bool.or_eq_true] at hnu
        rcases hnu with h' | h'
        · cases name <;> simp_all
        · simpa [VPat.check] using h'
      obtain ⟨c1, e1, o1, s1⟩ := bindValue2_completeS E.fixF2 E.p rest c A _ v hok h hb hnc
      simp only [e1, Bool.not_true, Bool.false_eq_true, if_false]
      have : (v.isNone && !canNone) = false := by
        cases v with
        | none => simp [h1 rfl]
        | some x => simp
      simp only [this, Bool.false_eq_true, if_false]
      exact ⟨c1, rfl, o1, s1⟩
  | .const id k, v, rest, c, P, hs, hok, h, _, _, _, _, _, _ => by
    cases hs with
    | const _ _ x cv hb h1 h2 =>
      unfold matchValue
      have hcg : crossGraphBad E.g (.const id k) (some x) = false := by
        simp [crossGraphBad, VPat.crossGraphOk]
      simp only [hcg, Bool.false_eq_true, if_false]
      obtain ⟨c1, e1, o1, s1⟩ := bindValue_completeS E.p rest c A _ _ hok h hb
      simp only [e1, Bool.not_true, Bool.false_eq_true, if_false]
      unfold matchConstant
      simp only [h1, h2, if_true]
      exact ⟨c1, rfl, o1, s1⟩
  | .out np idx, v, rest, c, P, hs, hok, h, hinv, hfr, _, _, hqP, hqf => by
    cases hs with
    | out _ _ x n hb hfo hp hi hn =>
      unfold matchValue
      have hcg : crossGraphBad E.g (.out np idx) (some x) = false := by
        simp [crossGraphBad, hfo]
      simp only [hcg, Bool.false_eq_true, if_false]
      obtain ⟨c1, e1, o1, s1⟩ := bindValue_completeS E.p rest c A _ _ hok h hb
      obtain ⟨c1', r1, x1, f1, _⟩ := bindValue_specS E.p rest c (.out np idx) (some x) hfr
      have hcc : c1' = c1 := by
        have := r1.st
        rw [e1] at this
        simp at this
        exact this.symm
      subst hcc
      simp only [e1, Bool.not_true, Bool.false_eq_true, if_false]
      unfold matchNodeOutput
      simp only [hp, hi, bne_self_eq_false, Bool.false_eq_true, if_false]
      exact hrecC np n rest c1' P (hqf np (by simp [VPat.refs])) hn o1 s1 (hinv.ext x1) f1
        (hqP np (by simp [VPat.refs]))
  | .orD id name tagVar alts, v, rest, c, P, hs, hok, h, hinv, hfr, hbk, _, hqP, hqf => by
    have htv : tagVar = none := by
      cases tagVar with
      | none => rfl
      | some t => simp [VPat.backOk] at hbk
    subst htv
    cases hs with
    | orD _ _ _ _ x d hb hfo hd hso _ =>
      cases hso with
      | out _ _ _ n hbo _ hp hi hn =>
        unfold matchValue
        have hcg : crossGraphBad E.g (.orD id name none alts) (some x) = false := by
          simp [crossGraphBad, hfo]
        simp only [hcg, Bool.false_eq_true, if_false, hd]
        obtain ⟨c1, e1, o1, s1⟩ := bindValue_completeS E.p rest c A _ _ hok h hb
        obtain ⟨c1', r1, x1, f1, _⟩ := bindValue_specS E.p rest c (.orD id name none alts) (some x) hfr
        have hcc : c1' = c1 := by
          have := r1.st
          rw [e1] at this
          simp at this
          exact this.symm
        subst hcc
        simp only [e1, Bool.not_true, Bool.false_eq_true, if_false]
        obtain ⟨c2, e2, o2, s2⟩ := bindValue_completeS E.p rest c1' A _ _ o1 s1 hbo
        obtain ⟨c2', r2, x2, f2, _⟩ := bindValue_specS E.p rest c1' (.out d.np d.idx) (some x) f1
        have hcc2 : c2' = c2 := by
          have := r2.st
          rw [e2] at this
          simp at this
          exact this.symm
        subst hcc2
        have hdm : d ∈ alts := by
          unfold getDispatch at hd
          split at hd
          · cases hd
          · split at hd
            · cases hd
            · exact List.mem_of_find?_eq_some hd
        have hmem : d.np ∈ (VPat.orD id name none alts).refs := by
          simp only [VPat.refs, List.mem_map]; exact ⟨d, hdm, rfl⟩
        obtain ⟨c3, e3, o3, s3⟩ := hrecC d.np n rest c2' P (hqf d.np hmem) hn o2 s2
          ((hinv.ext x1).ext x2) f2 (hqP d.np hmem)
        refine ⟨c3, ?_, o3, s3⟩
        simp only [e2, Bool.not_true, Bool.false_eq_true, if_false]
        unfold matchNodeOutput
        simp only [hp, hi, bne_self_eq_false, Bool.false_eq_true, if_false, e3, if_true]
  | .orB id name tagVar tags alts, v, rest, c, P, hs, hok, h, hinv, hfr, hbk, hnu, hqP, hqf => by
    cases hs with
    | orB _ _ _ _ _ _ i alt hb hfo hi hsa ht hun =>
      unfold matchValue
      have hcg : crossGraphBad E.g (.orB id name tagVar tags alts) v = false := by
        unfold crossGraphBad
        cases v with
        | none => rfl
        | some x => simp [hfo x rfl]
      simp only [hcg, Bool.false_eq_true, if_false]
      obtain ⟨c1, e1, o1, s1⟩ := bindValue_completeS E.p rest c A _ _ hok h hb
      obtain ⟨c1', r1, x1, f1, _⟩ := bindValue_specS E.p rest c (.orB id name tagVar tags alts) v hfr
      have hcc : c1' = c1 := by
        have := r1.st
        rw [e1] at this
        simp at this
        exact this.symm
      subst hcc
      simp only [e1, Bool.not_true, Bool.false_eq_true, if_false]
      exact matchAlts_completeL E A rec f hrecS hrecC hf3 alts tags tagVar v rest c1' P i alt hi hsa ht
        hun
        o1 s1 (hinv.ext x1) f1 (by simpa [VPat.backOk] using hbk) (by simpa [VPat.nu] using hnu)
        (fun q hq' => hqP q (by simpa [VPat.refs] using hq')) (fun q hq' => hqf q (by simpa [VPat.refs] using hq'))
theorem matchAlts_completeL (E : Env) (A : Assign) (rec : NPId → NodeId → Stack → R) (f : Nat)
    (hrecS : NodeSpecS E rec) (hrecC : NodeCL E A rec f) (hf3 : E.fixF3 = true) :
    ∀ (alts : List VPat) (tags : List Int) (tagVar : Option String) (v : Option ValueId) (rest : Stack)
      (c : Partial) (P : List NPId) (i : Nat) (ai : VPat),
      alts[i]? = some ai → SatVL E A ai v →
      (∀ t, tagVar = some t → A.names t = some (.tag (tags.getD i 0))) →
      (∀ j, j < i → ∀ aj, alts[j]? = some aj → Unsat E aj v) →
      c.ok = true → SubS (c :: rest) A → InvS E rest c P → FreshP rest c →
      backOkL alts = true → nuL alts = true →
      (∀ q ∈ refsL alts, ∀ x ∈ P, q < x) → (∀ q ∈ refsL alts, q < f) →
      ∃ c', matchAlts E rec alts tags tagVar v (c :: rest) = (true, c' :: rest) ∧ c'.ok = true ∧
        SubS (c' :: rest) A
  | [], _, _, _, _, _, _, i, _, hi, _, _, _, _, _, _, _, _, _, _, _ => by simp at hi
  | alt :: more, tags, tagVar, v, rest, c, P, i, ai, hi, hsa, ht, hun, hok, h, hinv, hfr, hbk, hnu, hqP, hqf => by
    simp only [backOkL, Bool.and_eq_true] at hbk
    simp only [nuL, Bool.and_eq_true] at hnu
    have hpush := assignStack_push E rest c
    have inv0 : InvS E (c :: rest) ({} : Partial) P := by
      intro q m hq'
      rw [hpush.2.2 q] at hq'
      rcases hinv q m hq' with h' | h'
      · exact .inl h'
      · exact .inr (satN_mono hpush.1 h')
    have hrefsA : ∀ q ∈ alt.refs, ∀ x ∈ P, q < x := fun q hq' => hqP q (by simp [refsL, hq'])
    obtain ⟨cur1, ra, _, fa, sa⟩ := matchValue_specS E rec hrecS hf3 alt v (c :: rest) {} P _ rfl hbk.1 inv0
      (FreshP.empty _) hrefsA
    have enter_eq : enter (c :: rest) = ({} : Partial) :: c :: rest := rfl
    unfold matchAlts
    rw [enter_eq]
    dsimp only
    cases i with
    | zero =>
      simp at hi
      subst hi
      obtain ⟨cur, ec, oc, sc⟩ := matchValue_completeL E A rec f hrecS hrecC hf3 alt v (c :: rest) {} P hsa rfl
        h.push inv0 (FreshP.empty _) hbk.1 hnu.1 hrefsA (fun q hq' => hqf q (by simp [refsL, hq']))
      have hcc : cur1 = cur := by
        have := ra.st
        rw [ec] at this
        simp at this
        exact this.symm
      subst hcc
      obtain ⟨cur2, et, o2, s2, f2⟩ := tagBind_completeS tagVar (tags.headD 0) (c :: rest) cur1 A oc sc fa
        (fun tv e => by have := ht tv e; cases tags <;> simpa using this)
      simp only [ec, if_true, et, topOk, o2, mergeTop, hf3]
      obtain ⟨eb, ev, en, eok, _⟩ := mergeAll_spec rest c cur2 hfr f2
      refine ⟨c.mergeAll cur2, rfl, by rw [eok]; exact hok, ?_⟩
      obtain ⟨tb, tv', tn⟩ := h.top
      obtain ⟨ub, uv, un⟩ := s2.top
      refine h.setTop (fun k x hm => ?_) (fun k x hm => ?_) (fun k x hm => ?_)
      · rw [eb] at hm
        rcases List.mem_append.1 hm with h' | h'
        · exact tb _ _ h'
        · exact ub _ _ h'
      · rw [ev] at hm
        rcases List.mem_append.1 hm with h' | h'
        · exact tv' _ _ h'
        · exact uv _ _ h'
      · rw [en] at hm
        rcases List.mem_append.1 hm with h' | h'
        · exact tn _ _ h'
        · exact un _ _ h'
    | succ j =>
      have hfalse : (matchValue E rec alt v (({} : Partial) :: c :: rest)).1 = false := by
        cases hb1 : (matchValue E rec alt v (({} : Partial) :: c :: rest)).1 with
        | false => rfl
        | true => exact absurd (sa hb1).2 (hun 0 (Nat.succ_pos j) alt rfl _)
      simp only [hfalse, Bool.false_eq_true, if_false]
      rw [ra.st]
      have : abandon (cur1 :: c :: rest) = c :: rest := rfl
      rw [this]
      exact matchAlts_completeL E A rec f hrecS hrecC hf3 more tags.tail tagVar v rest c P j ai
        (by simpa using hi) hsa
        (fun t e => by
          have hgt : tags.tail.getD j 0 = tags.getD (j + 1) 0 := by cases tags <;> simp
          rw [hgt]; exact ht t e)
        (fun k hk ak hak => hun (k + 1) (Nat.succ_lt_succ hk) ak (by simpa using hak))
        hok h hinv hfr hbk.2 hnu.2
        (fun q hq' => hqP q (by simp [refsL, hq'])) (fun q hq' => hqf q (by simp [refsL, hq']))
end

theorem matchInputs_completeL (E : Env) (A : Assign) (rec : NPId → NodeId → Stack → R) (f : Nat)
    (hrecS : NodeSpecS E rec) (hrecC : NodeCL E A rec f) (hf3 : E.fixF3 = true) (P : List NPId)
    (rest : Stack) :
    ∀ (pairs : List (Option ValueId × Option VPat)) (c : Partial), c.ok = true → SubS (c :: rest) A →
      InvS E rest c P → FreshP rest c →
      (∀ v, (v, none) ∈ pairs → v = none) →
      (∀ v vp, (v, some vp) ∈ pairs → SatVL E A vp v ∧ vp.backOk = true ∧ vp.nu = true ∧
        (∀ q ∈ vp.refs, ∀ x ∈ P, q < x) ∧ (∀ q ∈ vp.refs, q < f)) →
      ∃ c', matchInputs (matchValue E rec) pairs (c :: rest) = (true, c' :: rest) ∧ c'.ok = true ∧
        SubS (c' :: rest) A := by
  intro pairs
  induction pairs with
  | nil => intro c hok h _ _ _ _; exact ⟨c, rfl, hok, h⟩
  | cons hd tl ih =>
    intro c hok h hinv hfr hnone hsome
    obtain ⟨v, ovp⟩ := hd
    cases ovp with
    | none =>
      unfold matchInputs
      have : v = none := hnone v (List.mem_cons_self ..)
      subst this
      simp only [Option.isNone_none, if_true]
      exact ih c hok h hinv hfr (fun v hm => hnone v (List.mem_cons_of_mem _ hm))
        (fun v vp hm => hsome v vp (List.mem_cons_of_mem _ hm))
    | some vp =>
      unfold matchInputs
      obtain ⟨hs, hbk, hnu, hqP, hqf⟩ := hsome v vp (List.mem_cons_self ..)
      obtain ⟨c1, e1, o1, s1⟩ := matchValue_completeL E A rec f hrecS hrecC hf3 vp v rest c P hs hok h hinv hfr
        hbk hnu hqP hqf
      obtain ⟨c1', r1, _, f1, i1⟩ := matchValue_specS E rec hrecS hf3 vp v rest c P _ rfl hbk hinv hfr hqP
      have hcc : c1' = c1 := by
        have := r1.st
        rw [e1] at this
        simp at this
        exact this.symm
      subst hcc
      simp only [e1, Bool.not_true, Bool.false_eq_true, if_false]
      exact ih c1' o1 s1 (i1 (by rw [e1])).1 f1 (fun v hm => hnone v (List.mem_cons_of_mem _ hm))
        (fun v vp hm => hsome v vp (List.mem_cons_of_mem _ hm))

theorem nodeStep_completeL (E : Env) (A : Assign) (rec : NPId → NodeId → Stack → R) (f : Nat)
    (hrecS : NodeSpecS E rec) (hrecC : NodeCL E A rec f) (hf3 : E.fixF3 = true)
    (hbk : E.p.backOk = true) (hnu : E.p.nuOk) (htopo : E.p.topoDeep) :
    ∀ np n rest c P, np ≤ f → SatNL E A np n → c.ok = true → SubS (c :: rest) A → InvS E rest c P →
      FreshP rest c → (∀ x ∈ P, np < x) →
      ∃ c', nodeStep E (matchValue E rec) np n (c :: rest) = (true, c' :: rest) ∧ c'.ok = true ∧
        SubS (c' :: rest) A := by
  intro np n rest c P hnf hs hok h hinv hfr hlt
  cases hs with
  | mk _ _ Pn N hP hN hnode hop hdom hattrs hlen hnone hsome houts =>
    unfold nodeStep
    cases hl : lookupNode (c :: rest) np with
    | some m =>
      obtain ⟨p', hp', hm'⟩ := lookupNode_mem _ _ _ hl
      have : m = n := by
        have := h.n p' hp' np m hm'
        rw [hnode] at this
        exact (Option.some.inj this).symm
      subst this
      simp only [BEq.rfl, if_true]
      exact ⟨c, rfl, hok, h⟩
    | none =>
      simp only [hP, hN]
      obtain ⟨c1, e1, o1, s1⟩ := nodeMatches_completeS A Pn N rest c hok h hop hdom hattrs
      obtain ⟨c1', r1, x1, f1, _⟩ := nodeMatches_specS Pn N rest c _ rfl hfr
      have hcc : c1' = c1 := by
        have := r1.st
        rw [e1] at this
        simp at this
        exact this.symm
      subst hcc
      simp only [e1, Bool.not_true, Bool.false_eq_true, if_false]
      let c2 : Partial := { c1' with nodes := c1'.nodes ++ [n], nb := c1'.nb ++ [(np, n)] }
      have hc2 : bindNode (c1' :: rest) np n = c2 :: rest := rfl
      rw [hc2]
      obtain ⟨tb, tv, tn⟩ := s1.top
      have s2 : SubS (c2 :: rest) A := s1.setTop tb tv (fun k x hx => by
        rcases mem_snoc _ _ _ hx with h1 | he
        · exact tn _ _ h1
        · cases he; exact hnode)
      have hm' : lookupNode (c1' :: rest) np = none := by
        rw [lookupNode_cons, x1.nb, ← lookupNode_cons]; exact hl
      rw [lookupNode_cons] at hm'
      obtain ⟨hmr, hm1⟩ := or_none_both hm'
      have l12 : Le c1' c2 :=
        ⟨fun _ _ h => h, fun _ _ h => h, fun k x h => lookup_snoc_of_some _ _ _ _ _ h, id⟩
      have f2 : FreshP rest c2 :=
        ⟨f1.b, f1.v, fun k x hmem => by
            rcases List.mem_append.1 hmem with h1 | h1
            · exact f1.n _ _ h1
            · simp at h1; obtain ⟨rfl, rfl⟩ := h1; exact hmr,
         f1.bd, f1.vd, nodup_snoc _ _ _ f1.nd hm1, by simp [c2, f1.nbn]⟩
      have inv2 : InvS E rest c2 (np :: P) := by
        intro q m hq
        by_cases hqn : q = np
        · exact .inl (by simp [hqn])
        · have hq1 : lookupNode (c1' :: rest) q = some m := by
            rw [lookupNode_cons] at hq ⊢
            cases hr' : lookupNode rest q with
            | some y => simpa [hr'] using hq
            | none =>
              simp only [hr', Option.none_or] at hq ⊢
              have : (c1'.nb ++ [(np, n)]).lookup q = some m := hq
              simp only [List.lookup_append, List.lookup] at this
              cases h1 : c1'.nb.lookup q with
              | some m' => simp [h1] at this; exact this ▸ rfl
              | none =>
                simp [h1] at this
                have hne : (q == np) = false := by simpa using hqn
                simp [hne] at this
          rcases (hinv.ext x1) q m hq1 with h' | h'
          · exact .inl (List.mem_cons_of_mem _ h')
          · exact .inr (satN_mono (l12.toALeS rest) h')
      have hlen' : (decide (N.inputs.length > Pn.inputs.length) && !Pn.allowOtherInputs) = false := by
        rcases hlen with hl' | hl'
        · have : ¬ N.inputs.length > Pn.inputs.length := by omega
          simp [this]
        · simp [hl']
      simp only [hlen', Bool.false_eq_true, if_false]
      have hpairs_none : ∀ v, (v, none) ∈ zipPad N.inputs Pn.inputs → v = none := by
        intro v hm
        obtain ⟨i, h1, h2⟩ := zipPad_mem _ _ _ _ hm
        rw [h2]
        exact hnone i h1
      have hpairs_some : ∀ v vp, (v, some vp) ∈ zipPad N.inputs Pn.inputs →
          SatVL E A vp v ∧ vp.backOk = true ∧ vp.nu = true ∧
            (∀ q ∈ vp.refs, ∀ x ∈ np :: P, q < x) ∧ (∀ q ∈ vp.refs, q < f) := by
        intro v vp hm
        obtain ⟨i, h1, h2⟩ := zipPad_mem _ _ _ _ hm
        have hin : some vp ∈ Pn.inputs := List.mem_of_getElem? h1
        refine ⟨by rw [h2]; exact hsome i vp h1, backOk_input hbk hP hin,
          hnu Pn (List.mem_of_getElem? hP) vp hin, ?_, ?_⟩
        · intro q hqr x hx
          have hqnp := htopo np Pn hP vp hin q hqr
          rcases List.mem_cons.1 hx with h' | h'
          · exact h' ▸ hqnp
          · exact Nat.lt_trans hqnp (hlt x h')
        · intro q hqr
          exact Nat.lt_of_lt_of_le (htopo np Pn hP vp hin q hqr) hnf
      obtain ⟨c3, e3, o3, s3⟩ := matchInputs_completeL E A rec f hrecS hrecC hf3 (np :: P) rest _ c2 o1 s2 inv2 f2
        hpairs_none hpairs_some
      simp only [e3, Bool.not_true, Bool.false_eq_true, if_false]
      exact bindOutputs_completeS E.fixF1 E.p A np N.outputs rest Pn.outputs 0 c3 o3 s3
        (fun j _ hj => houts j (by omega))

theorem matchNode_completeL (E : Env) (A : Assign) (hf3 : E.fixF3 = true) (hbk : E.p.backOk = true)
    (hnu : E.p.nuOk) (htopo : E.p.topoDeep) (har : E.fixF1 = true ∨ OutputArityOk E.p E.g) :
    ∀ f, NodeCL E A (matchNode E f) f
  | 0 => fun _ _ _ _ _ h => absurd h (Nat.not_lt_zero _)
  | f + 1 => by
    intro np n rest c P hlt hs hok h hinv hfr hP
    have ih := matchNode_completeL E A hf3 hbk hnu htopo har f
    have ihS := matchNode_specS E hf3 hbk htopo har f
    unfold matchNode
    exact nodeStep_completeL E A (matchNode E f) f ihS ih hf3 hbk hnu htopo np n rest c P (by omega) hs hok h hinv hfr hP

theorem root_run_completeL (E : Env) (A : Assign) (root : NodeId) (np0 : NPId) (hf3 : E.fixF3 = true)
    (hbk : E.p.backOk = true) (hnu : E.p.nuOk) (htopo : E.p.topoDeep)
    (har : E.fixF1 = true ∨ OutputArityOk E.p E.g) (hsingle : E.p.outputNodes = [np0])
    (hroot : OutputsOfRoot E.p np0) (hinstL : InstanceL E root A) :
    ∃ c outs, matchNode E E.p.fuel np0 root [{}] = (true, [c]) ∧ SLe c A ∧
      outputValues E.p c = some outs := by
  obtain ⟨hinst, hleft⟩ := hinstL
  obtain ⟨n, hn, hs⟩ := hinst.outNodes np0 (by simp [hsingle])
  have hr := hinst.rootNode np0 (by simp [hsingle])
  rw [hr] at hn
  cases hn
  have hsL : SatNL E A np0 root := hleft np0 (by simp [hsingle]) root hr
  have hlt : np0 < E.p.nodes.length := (satN_bounds hs).1
  have s0 : SubS [({} : Partial)] A :=
    ⟨fun p hp => by simp at hp; subst hp; intro k x h; simp at h,
     fun p hp => by simp at hp; subst hp; intro k x h; simp at h,
     fun p hp => by simp at hp; subst hp; intro k x h; simp at h⟩
  have inv0 : InvS E [] ({} : Partial) [] := by
    intro q m hq
    simp [lookupNode] at hq
  obtain ⟨c, e, ok, s⟩ := matchNode_completeL E A hf3 hbk hnu htopo har E.p.fuel np0 root [] {} []
    (Nat.lt_succ_of_lt hlt) hsL rfl s0 inv0 (FreshP.empty []) (fun _ h => by simp at h)
  obtain ⟨c', r1, _, _, s1⟩ := matchNode_specS E hf3 hbk htopo har E.p.fuel np0 root [] {} [] _ e inv0
    (fun _ h => by simp at h) (FreshP.empty [])
  have hcc : c' = c := by
    have := r1.st
    simp at this
    exact this.symm
  subst hcc
  have hsat := satN_mono (assignStack_single c') (s1 rfl).2
  have hbound : ∀ vp ∈ E.p.outputs, ∃ y, (assignOf c').outputOf E.p vp = some y := by
    intro vp hvp
    obtain ⟨idx, P, rfl, hP, hidx⟩ := hroot vp hvp
    cases hsat with
    | mk _ _ P' N hP' hN _ _ _ _ _ _ _ hout =>
      rw [hP] at hP'
      cases hP'
      obtain ⟨x, _, hx⟩ := hout idx hidx
      exact ⟨_, boundTo_outputOf _ _ _ _ _ hx⟩
  obtain ⟨outs, ho⟩ := mapM_some _ _ hbound
  obtain ⟨tb, tv, tn⟩ := s.top
  exact ⟨c', outs, e, ⟨ok, tb, tv, tn⟩, by rw [outputValues_eq]; exact ho⟩


theorem patternMatch_complete_leftmost (E : Env) (A : Assign) (root : NodeId) (np0 : NPId) (hf3 : E.fixF3 = true)
    (hbk : E.p.backOk = true) (hnu : E.p.nuOk) (htopo : E.p.topoDeep)
    (har : E.fixF1 = true ∨ OutputArityOk E.p E.g) (hsingle : E.p.outputNodes = [np0])
    (hroot : OutputsOfRoot E.p np0) (hinstL : InstanceL E root A) (hchk : ChecksPass E.p A) :
    ∃ r, patternMatch E root false = some r ∧
      ((patternMatch E root true).isSome = true ↔ Removable E.g r.nodes r.outputs) := by
  have hinst := hinstL.1
  obtain ⟨hok, hn, hv, htrue, hsame⟩ := matcher_complete_of_run E A root np0 hsingle
    (root_run_completeL E A root np0 hf3 hbk hnu htopo har hsingle hroot hinstL)
  obtain ⟨r, hr, hrn, hro⟩ := patternMatch_of_ok E A root false hok hn hv hchk hinst.cond
  refine ⟨r, hr, ?_⟩
  rw [hrn, hro]
  constructor
  · intro hs
    have hokT : (matcherMatch E root true).ok = true := by
      cases hc : (matcherMatch E root true).ok with
      | true => rfl
      | false => rw [patternMatch_none_of_not_ok E root true hc] at hs; simp at hs
    rw [htrue] at hokT
    exact validToReplace_removable _ _ _ hokT
  · intro hrem
    have hv' := removable_validToReplace _ _ _ hrem
    have hokT : (matcherMatch E root true).ok = true := by rw [htrue]; exact hv'
    have heq := hsame hokT
    obtain ⟨r', hr', _, _⟩ := patternMatch_of_ok E A root true hokT
      (by rw [heq]; exact hn) (by rw [heq]; exact hv) hchk hinst.cond
    simp [hr']

/-! ## With exclusive alternatives every instance is leftmost -/

theorem exclL_get {E : Env} : ∀ {alts : List VPat} {i : Nat} {a : VPat}, exclL E alts → alts[i]? = some a → a.excl E
  | [], _, _, _, h => by simp at h
  | b :: rest, 0, a, hex, h => by
    simp at h; subst h
    simp only [exclL] at hex
    exact hex.1
  | b :: rest, i + 1, a, hex, h => by
    simp only [exclL] at hex
    exact exclL_get hex.2 (by simpa using h)

mutual
theorem satV_leftmost {E : Env} {A : Assign} (hex : GPat.exclOk E) :
    ∀ {vp : VPat} {v : Option ValueId}, SatV E A vp v → vp.excl E → SatVL E A vp v
  | _, _, .any v, _ => .any v
  | _, _, .var id name isVar canNone check v hb h1 h2, _ => .var id name isVar canNone check v hb h1 h2
  | _, _, .const id c x cv hb h1 h2, _ => .const id c x cv hb h1 h2
  | _, _, .out np idx x n hb hf hp hi hn, _ => .out np idx x n hb hf hp hi (satN_leftmost hex hn)
  | _, _, .orD id name tagVar alts x a hb hf hd hs ht, _ =>
    .orD id name tagVar alts x a hb hf hd (satV_leftmost hex hs (by simp [VPat.excl])) ht
  | _, _, .orB id name tagVar tags alts v i alt hb hf ha hs ht, he => by
    simp only [VPat.excl] at he
    exact .orB id name tagVar tags alts v i alt hb hf ha (satV_leftmost hex hs (exclL_get he.2 ha)) ht
      (fun j hj aj haj => he.1 v j i aj alt hj haj ha ⟨A, hs⟩)
theorem satN_leftmost {E : Env} {A : Assign} (hex : GPat.exclOk E) :
    ∀ {np : NPId} {n : NodeId}, SatN E A np n → SatNL E A np n
  | _, _, .mk np n P N h1 h2 h3 h4 h5 h6 h7 h8 h9 h10 =>
    .mk np n P N h1 h2 h3 h4 h5 h6 h7 h8
      (fun i vp e => satV_leftmost hex (h9 i vp e)
        (hex P (List.mem_of_getElem? h1) vp (List.mem_of_getElem? e)).1) h10
end

theorem instance_leftmost_of_excl {E : Env} {root : NodeId} {A : Assign} (hex : GPat.exclOk E)
    (h : Instance E root A) : InstanceL E root A := by
  refine ⟨h, fun np hnp n hn => ?_⟩
  obtain ⟨n', hn', hs⟩ := h.outNodes np hnp
  rw [hn] at hn'
  cases hn'
  exact satN_leftmost hex hs

theorem exclOk_nuOk {E : Env} (hex : GPat.exclOk E) : E.p.nuOk :=
  fun P hP vp hin => (hex P hP vp hin).2

end OV.C06
