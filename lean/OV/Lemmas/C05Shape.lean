import OV.Model.C05Shape
/-!
# C05 — lemmas about the shape / index rule model (`OV/Model/C05Shape.lean`)

All statements are universally quantified over every list length / rank.  Core Lean only.
Sections: A transpose composition, B unsqueeze∘unsqueeze, H slices, I scatter, F expand, C squeeze→reshape,
reshape infrastructure (`prodNat`, `zs`, `finishR`, `specReshape_eq`), G materialize, D flatten, E reshape∘reshape.
-/
namespace OV.Lemmas.C05Shape
open OV.C05.Shape

/-! ## A. Transpose composition -/

/-- A valid permutation of `n` has length `n`. -/
theorem validPerm_length {p : List Nat} {n : Nat} (h : validPerm p n = true) : p.length = n := by
  simp [validPerm] at h; exact h.1

/-- Entries of a valid permutation of `n` (read with `getD`) are `< n`. -/
theorem validPerm_lt {p : List Nat} {n : Nat} (h : validPerm p n = true) (i : Nat) (hi : i < n) :
    p.getD i 0 < n := by
  simp [validPerm] at h
  obtain ⟨hl, ha⟩ := h
  have : i < p.length := by omega
  rw [List.getD_eq_getElem?_getD, List.getElem?_eq_getElem this]
  exact ha _ (List.getElem_mem _)

/-- `getD` through `map` at an in-range index. -/
theorem getD_map_lt {α β : Type} (f : α → β) (l : List α) (i : Nat) (a : α) (b : β) (h : i < l.length) :
    (l.map f).getD i b = f (l.getD i a) := by
  simp [List.getD_eq_getElem?_getD, List.getElem?_eq_getElem h]

/-- `range n` is the identity at in-range indices. -/
theorem getD_range_lt (n i : Nat) (h : i < n) : (List.range n).getD i 0 = i := by
  simp [List.getD_eq_getElem?_getD, h]

/-- A1: for valid permutations of `n`, `composePerms p1 p2` is pointwise `i ↦ p1[p2[i]]`. -/
theorem compose_getD (p1 p2 : List Nat) (n : Nat) (h1 : validPerm p1 n = true) (h2 : validPerm p2 n = true)
    (i : Nat) (hi : i < n) : (composePerms p1 p2).getD i 0 = p1.getD (p2.getD i 0) 0 := by
  have l1 := validPerm_length h1
  have l2 := validPerm_length h2
  have b2 := validPerm_lt h2 i hi
  have b1 := validPerm_lt h1 _ b2
  unfold composePerms applyTranspose
  rw [getD_map_lt _ _ _ 0 0 (by omega)]
  rw [getD_map_lt _ _ _ 0 0 (by omega)]
  rw [l1]; exact getD_range_lt _ _ b1


/-- Members of a valid permutation of `n` are `< n`. -/
theorem validPerm_mem_lt {p : List Nat} {n : Nat} (h : validPerm p n = true) {x : Nat} (hx : x ∈ p) : x < n := by
  simp [validPerm] at h
  exact h.2 x hx

/-- A2: `Transpose(perm2) ∘ Transpose(perm1) = Transpose(composePerms perm1 perm2)` on any list `s`
(a shape or a multi-index).  The length hypothesis is not needed by the proof (kept for the intended reading). -/
theorem transpose_transpose (p1 p2 s : List Nat) (n : Nat) (_hs : s.length = n)
    (h1 : validPerm p1 n = true) (h2 : validPerm p2 n = true) :
    specTransposeShape p2 (specTransposeShape p1 s) = specTransposeShape (composePerms p1 p2) s := by
  have l1 := validPerm_length h1
  unfold specTransposeShape composePerms applyTranspose
  rw [List.map_map]
  apply List.map_congr_left
  intro p hp
  have hp' := validPerm_mem_lt h2 hp
  have b1 := validPerm_lt h1 p hp'
  simp only [Function.comp]
  rw [getD_map_lt _ _ _ 0 0 (by omega), getD_map_lt _ _ _ 0 0 (by omega), l1, getD_range_lt _ _ b1]

/-- The identity permutation leaves a list unchanged. -/
theorem transpose_range (s : List Nat) : specTransposeShape (List.range s.length) s = s := by
  unfold specTransposeShape
  apply List.ext_getElem
  · simp
  · intro i h1 h2
    simp [List.getD_eq_getElem?_getD, h2]

/-- A3: when the composed permutation is the identity, the two transposes cancel. -/
theorem transpose_transpose_identity (p1 p2 s : List Nat) (n : Nat) (hs : s.length = n)
    (h1 : validPerm p1 n = true) (h2 : validPerm p2 n = true) (hid : composePerms p1 p2 = List.range n) :
    specTransposeShape p2 (specTransposeShape p1 s) = s := by
  rw [transpose_transpose p1 p2 s n hs h1 h2, hid, ← hs]
  exact transpose_range s

/-- A4: `TransposeIdentity.check` implies the transpose leaves a shape of matching rank unchanged. -/
theorem noop_transpose (perm : List Int) (s : List Nat) (h : noOpTransposeCheck perm = true)
    (hs : s.length = perm.length) : specTransposeShape (perm.map Int.toNat) s = s := by
  unfold noOpTransposeCheck at h
  have h' : perm = (List.range perm.length).map Int.ofNat := by simpa using h
  have : perm.map Int.toNat = List.range s.length := by
    rw [hs]
    generalize perm.length = m at h'
    subst h'
    rw [List.map_map]
    have : (Int.toNat ∘ Int.ofNat) = id := by funext x; simp
    rw [this, List.map_id]
  rw [this]; exact transpose_range s

/-! ## B. Unsqueeze ∘ Unsqueeze -/

/-- `take` of an append at the split point. -/
theorem take_app {α : Type} (a r : List α) (n : Nat) (h : n = a.length) : (a ++ r).take n = a := by
  subst h; simp
/-- `drop` of an append at the split point. -/
theorem drop_app {α : Type} (a r : List α) (n : Nat) (h : n = a.length) : (a ++ r).drop n = r := by
  subst h; simp

/-- Unsqueezing at the split point of an append inserts `1` there. -/
theorem unsq1_split (a c : List Nat) (n : Nat) (h : n = a.length) :
    specUnsqueeze1 (a ++ c) n = a ++ [1] ++ c := by
  unfold specUnsqueeze1; rw [take_app _ _ _ h, drop_app _ _ _ h]

/-- B: two successive single-axis `Unsqueeze`s equal one `Unsqueeze` with the axes the rule computes. -/
theorem unsqueeze_unsqueeze (s : List Nat) (v1 v2 : Nat) (h1 : v1 ≤ s.length) (h2 : v2 ≤ s.length + 1) :
    specUnsqueeze1 (specUnsqueeze1 s v1) v2
      = specUnsqueezeSorted s (if v1 < v2 then [v1, v2] else [v2, v1 + 1]) := by
  by_cases h : v1 < v2
  · simp [h, specUnsqueezeSorted]
  · simp only [h, if_false, specUnsqueezeSorted]
    have h' : v2 ≤ v1 := by omega
    obtain ⟨a, b, c, rfl, ha, hb⟩ : ∃ a b c : List Nat, s = a ++ (b ++ c) ∧ a.length = v2 ∧ b.length = v1 - v2 := by
      refine ⟨s.take v2, (s.drop v2).take (v1 - v2), (s.drop v2).drop (v1 - v2), ?_, ?_, ?_⟩
      · rw [List.take_append_drop, List.take_append_drop]
      · simp; omega
      · simp; omega
    have e1 : specUnsqueeze1 (a ++ (b ++ c)) v1 = a ++ (b ++ [1] ++ c) := by
      have := unsq1_split (a ++ b) c v1 (by simp; omega)
      simpa [List.append_assoc] using this
    have e2 : specUnsqueeze1 (a ++ (b ++ c)) v2 = a ++ [1] ++ (b ++ c) := unsq1_split a (b ++ c) v2 ha.symm
    rw [e1, e2, unsq1_split a _ v2 ha.symm]
    have := unsq1_split (a ++ [1] ++ b) c (v1 + 1) (by simp; omega)
    simpa [List.append_assoc] using this.symm

/-! ## H. Slices -/

/-- H1: `Slice(start=0, end=en, step=1)` on an axis of length `d ≤ en` keeps the whole axis. -/
theorem slice_full_len (d : Nat) (en : Int) (h : (d : Int) ≤ en) : specSliceLen01 d en = d := by
  unfold specSliceLen01
  have h0 : ¬ en < 0 := by omega
  simp only [h0, if_false]
  by_cases h1 : en > (d : Int)
  · simp only [h1, if_true]; omega
  · have : en = d := by omega
    subst this
    simp only [if_false, h1]; omega

/-- H2: the `end = INT64_MAX` instance. -/
theorem slice_full_len_max (d : Nat) (h : (d : Int) ≤ int64Max) : specSliceLen01 d int64Max = d :=
  slice_full_len d int64Max h

/-- H3: whenever `_check_if_redundant_slice` fires on a known dim `d`, the slice keeps the whole axis
(the `en = INT64_MAX` branch does not look at the shape, hence the side hypothesis `d ≤ INT64_MAX`). -/
theorem collapse_slice_sound (xs : Shape) (en ax : Int) (d : Nat)
    (hfire : collapseSliceRun (some xs) (.one 0) (.one en) (.one ax) (.one 1) = .fire ())
    (hidx : pyIndex xs ax = some (.known d))
    (hmax : en = int64Max → (d : Int) ≤ int64Max) : specSliceLen01 d en = d := by
  by_cases he : en = int64Max
  · subst he; exact slice_full_len_max d (hmax rfl)
  · apply slice_full_len
    have he' : (en == int64Max) = false := by simpa using he
    simp only [collapseSliceRun, hidx, he'] at hfire
    simp at hfire
    omega

/-! ## I. ScatterND -/

/-- Invariant of the scatter loop: after the prefix `pre` has been overwritten, the rest follows. -/
theorem scatter_aux {ρ : Type} (upd : List ρ) : ∀ (data pre : List ρ) (k : Nat), k = pre.length →
    data.length = upd.length →
    specScatterRows (fun _ u => u) (pre ++ data) (List.range' k upd.length) upd = pre ++ upd := by
  unfold specScatterRows
  induction upd with
  | nil => intro data pre k _ h; cases data <;> simp_all
  | cons u us ih =>
    intro data pre k hk h
    cases data with
    | nil => simp at h
    | cons d ds =>
      simp only [List.length_cons, List.range'_succ, List.zip_cons_cons, List.foldl_cons]
      have e1 : (pre ++ d :: ds)[k]? = some d := by subst hk; simp
      have e2 : (pre ++ d :: ds).set k u = (pre ++ [u]) ++ ds := by subst hk; simp
      simp only [e1, e2]
      have := ih ds (pre ++ [u]) (k + 1) (by simp [hk]) (by simpa using h)
      rw [this]; simp

/-- I1: `ScatterND(reduction=none)` with indices `[[0],…,[n-1]]` and equally long `updates` returns `updates`. -/
theorem scatter_full_range {ρ : Type} (data upd : List ρ) (h : data.length = upd.length) :
    specScatterRows (fun _ u => u) data (List.range upd.length) upd = upd := by
  rw [List.range_eq_range']
  have := scatter_aux upd data [] 0 rfl h
  simpa using this

/-- I2 (refutation): with `reduction=add` the same rewrite is wrong. -/
theorem scatter_add_refuted :
    specScatterRows (fun (a b : Int) => a + b) [1,1,1] [0,1,2] [5,5,5] ≠ [5,5,5] := by decide

/-! ## F. Expand identity -/

/-- The zip check of `ExpandIdentity` forces `shape = s` (as naturals). -/
theorem expand_check_toNat (s : List Nat) : ∀ (sh : List Int), (s.map Dim.known).length = sh.length →
    (List.zip (s.map Dim.known) sh).all
      (fun (d, v) => match d with | .known n => Int.ofNat n == v | _ => false) = true →
    sh.map Int.toNat = s := by
  induction s with
  | nil => intro sh hl _; cases sh <;> simp_all
  | cons a s ih =>
    intro sh hl h
    cases sh with
    | nil => simp at hl
    | cons v sh =>
      simp only [List.map_cons, List.zip_cons_cons, List.all_cons, Bool.and_eq_true, beq_iff_eq] at h
      obtain ⟨hv, hrest⟩ := h
      simp only [List.map_cons]
      rw [ih sh (by simpa using hl) hrest, ← hv]
      simp

/-- Broadcasting a shape against itself, element-wise. -/
theorem broadcast_zip_self (s : List Nat) :
    (List.zip s s).mapM (fun ((x, y) : Nat × Nat) =>
      if x == y then some x else if x == 1 then some y else if y == 1 then some x else none) = some s := by
  induction s with
  | nil => rfl
  | cons a s ih =>
    rw [List.zip_cons_cons, List.mapM_cons, ih]
    simp

/-- `specBroadcast s s = some s`. -/
theorem broadcast_self (s : List Nat) : specBroadcast s s = some s := by
  unfold specBroadcast
  simp only [Nat.max_self, Nat.sub_self, List.replicate_zero, List.nil_append]
  exact broadcast_zip_self s

/-- F: `ExpandIdentity.check` on a static shape implies `Expand` does not change the shape. -/
theorem expand_identity (xs : Shape) (sh : List Int) (s : List Nat)
    (h : noOpExpandCheck (some xs) (some sh) = true) (hc : xs = s.map Dim.known) :
    specBroadcast s (sh.map Int.toNat) = some s := by
  subst hc
  simp only [noOpExpandCheck, Bool.and_eq_true, beq_iff_eq] at h
  rw [expand_check_toNat s sh h.1 h.2]
  exact broadcast_self s

/-! ## C. Squeeze → Reshape([-1]) -/

/-- C: on a rank-1 tensor `Reshape(Squeeze(x), [-1])` yields the original shape `[n]` (also for `n = 1`). -/
theorem squeeze_reshape_1d (n : Nat) : specReshape (specSqueezeAll [n]) [-1] false = some [n] := by
  by_cases h : n = 1
  · subst h; decide
  · have : specSqueezeAll [n] = [n] := by simp [specSqueezeAll, h]
    rw [this]
    simp [specReshape, prodNat, List.range_succ, Nat.mod_one]

/-! ## Reshape infrastructure -/

/-- Pull the accumulator out of a multiplicative `foldl`. -/
theorem foldl_mul_init (l : List Nat) : ∀ c : Nat, l.foldl (· * ·) c = c * l.foldl (· * ·) 1 := by
  induction l with
  | nil => intro c; simp
  | cons a l ih =>
    intro c
    simp only [List.foldl_cons]
    rw [ih (c * a), ih (1 * a), Nat.one_mul, Nat.mul_assoc]

/-- Empty product. -/
@[simp] theorem prodNat_nil : prodNat [] = 1 := rfl

/-- `prodNat` of a cons. -/
theorem prodNat_cons (a : Nat) (l : List Nat) : prodNat (a :: l) = a * prodNat l := by
  unfold prodNat
  simp only [List.foldl_cons]
  rw [foldl_mul_init l (1 * a), Nat.one_mul]

/-- `prodNat` is multiplicative over append. -/
theorem prodNat_append (a b : List Nat) : prodNat (a ++ b) = prodNat a * prodNat b := by
  induction a with
  | nil => simp
  | cons x a ih => rw [List.cons_append, prodNat_cons, prodNat_cons, ih, Nat.mul_assoc]

/-- A product of positive dims is positive. -/
theorem prodNat_pos (l : List Nat) (h : ∀ d ∈ l, 0 < d) : 0 < prodNat l := by
  induction l with
  | nil => simp
  | cons a l ih =>
    rw [prodNat_cons]
    exact Nat.mul_pos (h a (by simp)) (ih (fun d hd => h d (by simp [hd])))

/-- The zero-resolution step of `specReshape`, as a structural recursion with a running index. -/
def zs (inShape : List Nat) (az : Bool) : Nat → List Int → Option (List Int)
  | _, [] => some []
  | k, t :: ts =>
    (if t == 0 && !az then (if k < inShape.length then some (Int.ofNat (inShape.getD k 0)) else none) else some t).bind
      fun x => (zs inShape az (k + 1) ts).bind fun r => some (x :: r)

/-- The final (size / `-1` inference) step of `specReshape`. -/
def finishR (total : Nat) (ts : List Int) : Option (List Nat) :=
  let knownProd := prodNat ((ts.filter (· != -1)).map Int.toNat)
  if ts.any (· == -1) then
    if knownProd == 0 then none
    else if total % knownProd != 0 then none
    else some (ts.map (fun t => if t == -1 then total / knownProd else t.toNat))
  else if knownProd == total then some (ts.map Int.toNat) else none

/-- The index-based `mapM` in `specReshape` equals the structural recursion `zs`. -/
theorem mapM_range'_eq_zs (inShape : List Nat) (az : Bool) (l : List Int) :
    ∀ (pre : List Int) (k : Nat), k = pre.length →
    (List.range' k l.length).mapM (fun i =>
      let t := (pre ++ l).getD i 0
      if t == 0 && !az then
        (if i < inShape.length then some (Int.ofNat (inShape.getD i 0)) else none)
      else some t) = zs inShape az k l := by
  induction l with
  | nil => intro pre k _; simp [zs]
  | cons t ts ih =>
    intro pre k hk
    simp only [List.length_cons, List.range'_succ, List.mapM_cons, zs]
    have e : (pre ++ t :: ts).getD k 0 = t := by subst hk; simp
    have ih' := ih (pre ++ [t]) (k + 1) (by simp [hk])
    simp only [List.append_assoc, List.cons_append, List.nil_append] at ih'
    rw [ih']
    simp only [e]
    rfl

/-- `specReshape` = guards, then `zs`, then `finishR`. -/
theorem specReshape_eq (inShape : List Nat) (target : List Int) (az : Bool) :
    specReshape inShape target az =
      if target.any (· < -1) then none
      else if (target.filter (· == -1)).length > 1 then none
      else if az && target.any (· == 0) && target.any (· == -1) then none
      else match zs inShape az 0 target with
        | none => none
        | some ts => finishR (prodNat inShape) ts := by
  have := mapM_range'_eq_zs inShape az target [] 0 rfl
  simp only [List.nil_append] at this
  unfold specReshape
  rw [List.range_eq_range', this]
  rfl


/-- With `allowzero = true` nothing is copied. -/
theorem zs_true (inShape : List Nat) (ts : List Int) : ∀ k, zs inShape true k ts = some ts := by
  induction ts with
  | nil => intro k; rfl
  | cons t ts ih => intro k; simp [zs, ih]

/-- Without zeros in the target nothing is copied. -/
theorem zs_no_zero (inShape : List Nat) (az : Bool) (ts : List Int) (h : ∀ t ∈ ts, t ≠ 0) :
    ∀ k, zs inShape az k ts = some ts := by
  induction ts with
  | nil => intro k; rfl
  | cons t ts ih =>
    intro k
    have ht : t ≠ 0 := h t (by simp)
    have := ih (fun x hx => h x (by simp [hx])) (k + 1)
    simp [zs, this, ht]

/-- With `allowzero = true` the result of `specReshape` depends on the input only through its size. -/
theorem specReshape_true (sIn : List Nat) (target : List Int)
    (h1 : target.any (· < -1) = false) (h2 : (target.filter (· == -1)).length ≤ 1)
    (h3 : (target.any (· == 0) && target.any (· == -1)) = false) :
    specReshape sIn target true = finishR (prodNat sIn) target := by
  rw [specReshape_eq, zs_true]
  have h2' : ¬ (target.filter (· == -1)).length > 1 := by omega
  simp only [h1, h2', Bool.true_and, h3]
  simp

/-- Without zeros in the target the result depends on the input only through its size (any `allowzero`). -/
theorem specReshape_no_zero (sIn : List Nat) (target : List Int) (az : Bool)
    (h1 : target.any (· < -1) = false) (h2 : (target.filter (· == -1)).length ≤ 1)
    (h0 : ∀ t ∈ target, t ≠ 0) :
    specReshape sIn target az = finishR (prodNat sIn) target := by
  rw [specReshape_eq, zs_no_zero _ _ _ h0]
  have h2' : ¬ (target.filter (· == -1)).length > 1 := by omega
  have h3 : target.any (· == 0) = false := by
    simp only [List.any_eq_false, beq_iff_eq]; exact h0
  simp only [h1, h2', h3]
  simp

/-- `toNat ∘ ofNat = id` on lists. -/
theorem map_toNat_ofNat (s : List Nat) : (s.map Int.ofNat).map Int.toNat = s := by
  induction s with
  | nil => rfl
  | cons a s ih => simp_all

/-- No natural equals `-1` (filter `≠ -1` keeps all). -/
theorem filter_ne_neg1_ofNat (s : List Nat) : (s.map Int.ofNat).filter (· != -1) = s.map Int.ofNat := by
  induction s with
  | nil => rfl
  | cons a s ih =>
    have : (Int.ofNat a != -1) = true := by simp
    simp only [List.map_cons, List.filter_cons, this, if_true, ih]

/-- No natural equals `-1` (`any`). -/
theorem any_neg1_ofNat (s : List Nat) : (s.map Int.ofNat).any (· == -1) = false := by
  simp only [List.any_eq_false, beq_iff_eq, List.mem_map]
  rintro x ⟨a, _, rfl⟩; simp

/-- No natural equals `-1` (filter `= -1` keeps none). -/
theorem filter_eq_neg1_ofNat (s : List Nat) : (s.map Int.ofNat).filter (· == -1) = [] := by
  induction s with
  | nil => rfl
  | cons a s ih =>
    simp [ih]

/-- No natural is `< -1`. -/
theorem any_lt_neg1_ofNat (s : List Nat) : (s.map Int.ofNat).any (· < -1) = false := by
  simp only [List.any_eq_false, List.mem_map, decide_eq_true_eq]
  rintro x ⟨a, _, rfl⟩; simp

/-- `finishR` on an all-natural target. -/
theorem finishR_ofNat (total : Nat) (s : List Nat) (h : prodNat s = total) :
    finishR total (s.map Int.ofNat) = some s := by
  unfold finishR
  simp only [any_neg1_ofNat, filter_ne_neg1_ofNat, map_toNat_ofNat, h]
  simp

/-- `finishR` on a target with exactly one `-1`. -/
theorem finishR_one_neg (total : Nat) (sa sb : List Nat) (x : Nat)
    (hpos : 0 < prodNat sa * prodNat sb) (h : prodNat sa * x * prodNat sb = total) :
    finishR total (sa.map Int.ofNat ++ (-1) :: sb.map Int.ofNat) = some (sa ++ x :: sb) := by
  unfold finishR
  have hany : (sa.map Int.ofNat ++ (-1) :: sb.map Int.ofNat).any (· == -1) = true := by simp
  have hfil : (sa.map Int.ofNat ++ (-1) :: sb.map Int.ofNat).filter (· != -1)
      = (sa ++ sb).map Int.ofNat := by
    rw [List.filter_append, List.filter_cons, filter_ne_neg1_ofNat, filter_ne_neg1_ofNat]
    simp
  have hkp : prodNat (sa ++ sb) = prodNat sa * prodNat sb := prodNat_append _ _
  have htot : total = prodNat sa * prodNat sb * x := by
    rw [← h, Nat.mul_assoc, Nat.mul_assoc, Nat.mul_comm x]
  have hmod : total % (prodNat sa * prodNat sb) = 0 := by rw [htot]; exact Nat.mul_mod_right _ _
  have hdiv : total / (prodNat sa * prodNat sb) = x := by rw [htot]; exact Nat.mul_div_cancel_left _ hpos
  have hne : ¬ (prodNat sa * prodNat sb = 0) := by omega
  simp only [hany, hfil, map_toNat_ofNat, hkp, if_true, hmod, hdiv]
  simp [hne]
  have hf : ((fun t : Int => if t = -1 then x else t.toNat) ∘ Int.ofNat) = id := by
    funext a
    have : ¬ ((a : Int) = -1) := by omega
    simp [this]
  rw [hf, List.map_id, List.map_id]

/-! ## G. MaterializeReshapeShape -/

/-- Dimension-to-target translation used by `MaterializeReshapeShape.rewrite`. -/
def matDim (d : Dim) : Int := match d with | .known n => Int.ofNat n | _ => -1

/-- Structural form of "the annotation `os` is consistent with the concrete shape `s`". -/
def compat : Shape → List Nat → Prop
  | [], [] => True
  | d :: os, x :: s => (∀ k, d = .known k → x = k) ∧ compat os s
  | _, _ => False

/-- The index-based consistency hypothesis implies the structural one. -/
theorem compat_of_index : ∀ (os : Shape) (s : List Nat), os.length = s.length →
    (∀ i (h : i < os.length), ∀ k, os[i] = Dim.known k → s[i]! = k) → compat os s := by
  intro os
  induction os with
  | nil => intro s hl _; cases s with
    | nil => trivial
    | cons _ _ => simp at hl
  | cons d os ih =>
    intro s hl h
    cases s with
    | nil => simp at hl
    | cons x s =>
      refine ⟨?_, ih s (by simpa using hl) ?_⟩
      · intro k hk
        have := h 0 (by simp) k (by simpa using hk)
        simpa using this
      · intro i hi k hk
        have := h (i + 1) (by simp; omega) k (by simpa using hk)
        simpa using this

/-- Materialized entries are `≥ -1`. -/
theorem matDim_ge (d : Dim) : ¬ (matDim d < -1) := by
  cases d <;> simp [matDim] <;> omega

/-- A materialized entry is `-1` exactly for non-int dims. -/
theorem matDim_neg1 (d : Dim) : (matDim d == -1) = !d.isInt := by
  cases d <;> simp [matDim, Dim.isInt] <;> omega

/-- The number of `-1`s equals the number of non-int dims. -/
theorem filter_neg1_matDim (os : Shape) :
    ((os.map matDim).filter (· == -1)).length = (os.filter (fun d => !d.isInt)).length := by
  induction os with
  | nil => rfl
  | cons d os ih =>
    simp only [List.map_cons, List.filter_cons, matDim_neg1]
    split <;> simp [ih]

/-- All dims int and consistent: the materialized target is the true shape. -/
theorem compat_all_known : ∀ (os : Shape) (s : List Nat), compat os s →
    (os.filter (fun d => !d.isInt)).length = 0 → os.map matDim = s.map Int.ofNat := by
  intro os
  induction os with
  | nil => intro s hc _; cases s with
    | nil => rfl
    | cons _ _ => exact hc.elim
  | cons d os ih =>
    intro s hc hz
    cases s with
    | nil => exact hc.elim
    | cons x s =>
      obtain ⟨hd, hc'⟩ := hc
      cases d with
      | known k =>
        have := hd k rfl
        subst this
        have e : (Dim.known x).isInt = true := rfl
        simp only [List.filter_cons, e] at hz
        simp only [List.map_cons, matDim]
        rw [ih s hc' (by simpa using hz)]
      | sym _ => simp [Dim.isInt] at hz
      | unknown => simp [Dim.isInt] at hz

/-- At most one non-int dim: the target is the true shape, or the true shape with one entry replaced by `-1`. -/
theorem compat_decomp : ∀ (os : Shape) (s : List Nat), compat os s →
    (os.filter (fun d => !d.isInt)).length ≤ 1 →
    os.map matDim = s.map Int.ofNat ∨
    ∃ sa x sb, os.map matDim = sa.map Int.ofNat ++ (-1) :: sb.map Int.ofNat ∧ s = sa ++ x :: sb := by
  intro os
  induction os with
  | nil => intro s hc _; cases s with
    | nil => exact Or.inl rfl
    | cons _ _ => exact hc.elim
  | cons d os ih =>
    intro s hc hz
    cases s with
    | nil => exact hc.elim
    | cons x s =>
      obtain ⟨hd, hc'⟩ := hc
      have hnon : ∀ d' : Dim, d'.isInt = false → d = d' →
          (d :: os).map matDim = (x :: s).map Int.ofNat ∨
          ∃ sa y sb, (d :: os).map matDim = sa.map Int.ofNat ++ (-1) :: sb.map Int.ofNat ∧ x :: s = sa ++ y :: sb := by
        intro d' hd' e
        subst e
        have hz' : (os.filter (fun d => !d.isInt)).length = 0 := by
          simp only [List.filter_cons, hd'] at hz
          simp at hz; simpa using hz
        refine Or.inr ⟨[], x, s, ?_, rfl⟩
        have hm : matDim d = -1 := by cases d <;> simp_all [matDim, Dim.isInt]
        simp only [List.map_cons, hm, List.map_nil, List.nil_append]
        rw [compat_all_known os s hc' hz']
      cases d with
      | known k =>
        have := hd k rfl
        subst this
        have hz' : (os.filter (fun d => !d.isInt)).length ≤ 1 := by
          simpa [List.filter_cons, Dim.isInt] using hz
        rcases ih s hc' hz' with h | ⟨sa, y, sb, h1, h2⟩
        · left; simp only [List.map_cons, matDim, h]
        · right
          refine ⟨x :: sa, y, sb, ?_, ?_⟩
          · simp only [List.map_cons, matDim, h1, List.cons_append]
          · simp [h2]
      | sym n => exact hnon _ rfl rfl
      | unknown => exact hnon _ rfl rfl

/-- What firing of `MaterializeReshapeShape` tells us: the zero guard did not trigger, at most one non-int dim,
and the new shape is the dim-wise translation. -/
theorem materialize_fire_inv (os : Shape) (r : RRRepl)
    (hfire : materializeReshapeRun false (some os) = .fire r) :
    ((os.filter (fun d => !d.isInt)).length == 1 && os.any (fun d => d == .known 0)) = false ∧
    (os.filter (fun d => !d.isInt)).length ≤ 1 ∧ r.shape = os.map matDim := by
  simp only [materializeReshapeRun, Bool.false_eq_true, if_false] at hfire
  split at hfire
  · cases hfire
  · rename_i hg
    split at hfire
    · rename_i hcount
      refine ⟨(Bool.not_eq_true _).mp hg, hcount, ?_⟩
      cases hfire; rfl
    · cases hfire

/-- The materialized target has a `0` exactly when the annotation has a static zero dim. -/
theorem any_zero_matDim (os : Shape) :
    (os.map matDim).any (· == 0) = os.any (fun d => d == .known 0) := by
  induction os with
  | nil => rfl
  | cons d os ih =>
    simp only [List.map_cons, List.any_cons, ih]
    congr 1
    cases d with
    | known n =>
      by_cases hn : n = 0
      · subst hn; rfl
      · have e1 : (matDim (.known n) == 0) = false := by simp [matDim]; omega
        have e2 : (Dim.known n == Dim.known 0) = false := by simp [hn]
        rw [e1, e2]
    | sym _ => simp [matDim]
    | unknown => simp [matDim]

/-- A `-1` in the materialized target means at least one non-int dim. -/
theorem any_neg1_matDim (os : Shape) (h : (os.map matDim).any (· == -1) = true) :
    1 ≤ (os.filter (fun d => !d.isInt)).length := by
  rw [← filter_neg1_matDim]
  obtain ⟨t, ht, he⟩ := List.any_eq_true.mp h
  exact List.length_pos_of_mem (List.mem_filter.mpr ⟨ht, he⟩)

/-- G (guard): after the upstream fix, firing implies the materialized target never mixes `0` and `-1`. -/
theorem materialize_fire_no_zero_neg (os : Shape) (r : RRRepl)
    (hfire : materializeReshapeRun false (some os) = .fire r) :
    ¬ (r.shape.any (· == 0) && r.shape.any (· == -1)) = true := by
  obtain ⟨hg, hcount, hr⟩ := materialize_fire_inv os r hfire
  rw [hr, any_zero_matDim]
  intro h
  simp only [Bool.and_eq_true] at h
  have h1 := any_neg1_matDim os h.2
  have : (os.filter (fun d => !d.isInt)).length = 1 := by omega
  rw [this, h.1] at hg
  exact absurd hg (by decide)

/-- G (sound part): when the output annotation is consistent with the true output shape `s`, the input has
as many elements as `s`, and the materialized target does not mix `0` and `-1`, the new
`Reshape(allowzero=1)` produces `s`. -/
theorem materialize_sound_partial (os : Shape) (r : RRRepl) (sIn s : List Nat)
    (hfire : materializeReshapeRun false (some os) = .fire r)
    (hcons : os.length = s.length ∧ ∀ i (h : i < os.length), ∀ k, os[i] = Dim.known k → s[i]! = k)
    (hsize : prodNat sIn = prodNat s)
    (hno0 : ¬ (r.shape.any (· == 0) && r.shape.any (· == -1)) = true) :
    specReshape sIn r.shape true = some s := by
  have hc := compat_of_index os s hcons.1 hcons.2
  obtain ⟨_, hcount, hr⟩ := materialize_fire_inv os r hfire
  rw [hr] at hno0 ⊢
  have h1 : (os.map matDim).any (· < -1) = false := by
    simp only [List.any_eq_false, List.mem_map, decide_eq_true_eq]
    rintro t ⟨d, _, rfl⟩; exact matDim_ge d
  have h2 : ((os.map matDim).filter (· == -1)).length ≤ 1 := by
    rw [filter_neg1_matDim]; exact hcount
  have h3 : ((os.map matDim).any (· == 0) && (os.map matDim).any (· == -1)) = false := by
    simpa using hno0
  rw [specReshape_true sIn _ h1 h2 h3, hsize]
  rcases compat_decomp os s hc hcount with h | ⟨sa, x, sb, he, hs⟩
  · rw [h]; exact finishR_ofNat _ s rfl
  · rw [he] at h3 ⊢
    subst hs
    have hany : (sa.map Int.ofNat ++ (-1) :: sb.map Int.ofNat).any (· == -1) = true := by simp
    rw [hany, Bool.and_true] at h3
    have h0 : (∀ x ∈ sa, ¬ x = 0) ∧ ∀ x ∈ sb, ¬ x = 0 := by
      simpa [List.any_eq_false] using h3
    have pa := prodNat_pos sa (fun d hd => Nat.pos_of_ne_zero (h0.1 d hd))
    have pb := prodNat_pos sb (fun d hd => Nat.pos_of_ne_zero (h0.2 d hd))
    apply finishR_one_neg _ sa sb x (Nat.mul_pos pa pb)
    rw [prodNat_append, prodNat_cons, Nat.mul_assoc]

/-- G (full soundness, after the upstream zero guard): whenever `MaterializeReshapeShape` fires on an annotation
consistent with the true output shape `s`, the new `Reshape(allowzero=1)` on a same-sized input produces `s`. -/
theorem materialize_sound (os : Shape) (r : RRRepl) (sIn s : List Nat)
    (hfire : materializeReshapeRun false (some os) = .fire r)
    (hcons : os.length = s.length ∧ ∀ i (h : i < os.length), ∀ k, os[i] = Dim.known k → s[i]! = k)
    (hsize : prodNat sIn = prodNat s) :
    specReshape sIn r.shape true = some s :=
  materialize_sound_partial os r sIn s hfire hcons hsize (materialize_fire_no_zero_neg os r hfire)

/-- G (witness now refused): the former counterexample annotation `[N, 0]` no longer fires. -/
theorem materialize_zero_witness_refused :
    materializeReshapeRun false (some [.sym "N", .known 0]) = .nofire := by decide

/-- G (refutation): a symbolic dim beside a zero dim materializes to `[-1, 0]` with `allowzero=1`, which is a
runtime error. -/
theorem materialize_refuted : specReshape [3,0] [-1,0] true = none := by decide

/-! ## D. Flatten → Reshape -/

/-- A fully static annotation is all-known. -/
theorem allKnown_map_known (l : List Nat) : allKnown (l.map Dim.known) = some l := by
  unfold allKnown
  induction l with
  | nil => rfl
  | cons a l ih => rw [List.map_cons, List.mapM_cons, ih]; rfl

/-- A static annotation has a `known 0` dim exactly when the shape contains `0`. -/
theorem any_known_zero_map (s : List Nat) :
    (s.map Dim.known).any (· == .known 0) = true ↔ 0 ∈ s := by
  induction s with
  | nil => simp
  | cons a s ih =>
    rw [List.map_cons, List.any_cons, Bool.or_eq_true, ih, List.mem_cons]
    have : (Dim.known a == Dim.known 0) = true ↔ 0 = a := by
      rw [beq_iff_eq, Dim.known.injEq]; exact eq_comm
    rw [this]

/-- The zero guard of `Flatten2Reshape.check` (fix for D6): a static zero dim refuses, whatever the target. -/
theorem flatten_finish_zero (s : List Nat) (axis : Int) (ns : List Int) (h0 : 0 ∈ s) :
    flattenToReshapeRun.finish (some (s.map Dim.known)) axis ns = .nofire := by
  have h := (any_known_zero_map s).mpr h0
  simp only [flattenToReshapeRun.finish, Option.map_some, Option.getD_some, h, if_true]

/-- `Flatten2Reshape.check`'s final step on a static positive shape, from any two-element starting target. -/
theorem flatten_finish (s : List Nat) (axis : Nat) (ns : List Int) (hns : ns.length = 2)
    (hpos : ∀ d ∈ s, 0 < d) :
    flattenToReshapeRun.finish (some (s.map Dim.known)) (axis : Int) ns
      = .fire [ (prodNat (s.take axis) : Int), (prodNat (s.drop axis) : Int) ] := by
  match ns, hns with
  | [a, b], _ =>
    have hneg : ¬ ((axis : Int) < 0) := by omega
    have hz : (s.map Dim.known).any (· == .known 0) = false := by
      rw [Bool.eq_false_iff]
      intro h
      have := hpos 0 ((any_known_zero_map s).mp h)
      omega
    simp only [flattenToReshapeRun.finish, Option.map_some, Option.getD_some, hz, Bool.false_eq_true,
      hneg, if_false, Int.toNat_natCast, ← List.map_take,
      ← List.map_drop, allKnown_map_known, setAt, List.set_cons_zero, List.set_cons_succ]
    have h1 : ¬ ((prodNat (s.take axis) : Int) = -1) := by omega
    have h2 : ¬ ((prodNat (s.drop axis) : Int) = -1) := by omega
    simp [h1, h2]

/-- D1: on a fully static positive input shape `Flatten2Reshape` fires with target `[∏ s[:axis], ∏ s[axis:]]`. -/
theorem flatten_fires (s : List Nat) (axis : Nat) (_hax : axis ≤ s.length) (hpos : ∀ d ∈ s, 0 < d) :
    flattenToReshapeRun (some (s.map Dim.known)) (axis : Int) none
      = .fire [ (prodNat (s.take axis) : Int), (prodNat (s.drop axis) : Int) ] := by
  have hneg : ¬ ((axis : Int) < 0) := by omega
  simp only [flattenToReshapeRun, Option.map_some, hneg, if_false]
  apply flatten_finish _ _ _ _ hpos
  split
  · rfl
  · split
    · rfl
    · split <;> rfl

/-- D (zero guard): a static input shape containing `0` never fires (any axis; any output annotation of rank
`≤ 2`, i.e. one that cannot raise `IndexError`). -/
theorem flatten_zero_refused (s : List Nat) (axis : Int) (os : Option Shape) (h0 : 0 ∈ s)
    (hos : os = none ∨ ∃ l, os = some l ∧ l.length ≤ 2) :
    flattenToReshapeRun (some (s.map Dim.known)) axis os = .nofire := by
  rcases hos with rfl | ⟨l, rfl, hl⟩
  · simp only [flattenToReshapeRun]
    exact flatten_finish_zero s _ _ h0
  · have hl' : ¬ (l.length > 2) := by omega
    simp only [flattenToReshapeRun, hl', decide_false, Bool.false_and, Bool.false_eq_true, if_false]
    exact flatten_finish_zero s _ _ h0

/-- D (converse): if `Flatten2Reshape` fires on a static shape (no output annotation), all dims are positive. -/
theorem flatten_fire_pos (s : List Nat) (axis : Int) (ns : List Int)
    (h : flattenToReshapeRun (some (s.map Dim.known)) axis none = .fire ns) : ∀ d ∈ s, 0 < d := by
  intro d hd
  cases d with
  | zero =>
    rw [flatten_zero_refused s axis none hd (Or.inl rfl)] at h
    cases h
  | succ d => omega

/-- D2: for positive dims, the `Reshape(allowzero=0)` with that target computes the `Flatten` shape. -/
theorem flatten_reshape_sound (s : List Nat) (hpos : ∀ d ∈ s, 0 < d) (axis : Nat) (_hax : axis ≤ s.length) :
    specReshape s [ (prodNat (s.take axis) : Int), (prodNat (s.drop axis) : Int) ] false
      = some (specFlatten s axis) := by
  have pa : 0 < prodNat (s.take axis) := prodNat_pos _ (fun d hd => hpos d (List.mem_of_mem_take hd))
  have pb : 0 < prodNat (s.drop axis) := prodNat_pos _ (fun d hd => hpos d (List.mem_of_mem_drop hd))
  have htot : prodNat (s.take axis) * prodNat (s.drop axis) = prodNat s := by
    rw [← prodNat_append, List.take_append_drop]
  have := finishR_ofNat (prodNat s) [prodNat (s.take axis), prodNat (s.drop axis)]
    (by rw [prodNat_cons, prodNat_cons, prodNat_nil, Nat.mul_one, htot])
  have e : [ (prodNat (s.take axis) : Int), (prodNat (s.drop axis) : Int) ]
      = [prodNat (s.take axis), prodNat (s.drop axis)].map Int.ofNat := rfl
  rw [e, specReshape_no_zero s _ false (any_lt_neg1_ofNat _) (by rw [filter_eq_neg1_ofNat]; simp) ?_, this]
  · rfl
  · intro t ht
    simp only [List.map_cons, List.map_nil, List.mem_cons, List.not_mem_nil, or_false] at ht
    rcases ht with rfl | rfl <;> (simp; omega)

/-- D3 (former witness, now refused): `Flatten(axis=2)` of `[2,0,3]` is `[0,3]`, but `Reshape([0,3])` copies dim 0
and needs `2*3 = 0` elements (runtime error); with the zero guard the rule no longer fires on this input. -/
theorem flatten_refuted :
    flattenToReshapeRun (some [.known 2, .known 0, .known 3]) 2 none = .nofire ∧
    specReshape [2,0,3] [0,3] false ≠ some (specFlatten [2,0,3] 2) := by decide

/-! ## E. Reshape ∘ Reshape -/

/-- `zs` distributes over append (with the running index advanced). -/
theorem zs_append (inShape : List Nat) (az : Bool) (a b : List Int) : ∀ k,
    zs inShape az k (a ++ b) =
      (zs inShape az k a).bind fun x => (zs inShape az (k + a.length) b).bind fun y => some (x ++ y) := by
  induction a with
  | nil => intro k; simp [zs]
  | cons t a ih =>
    intro k
    simp only [List.cons_append, zs, ih (k + 1), List.length_cons]
    have : k + 1 + a.length = k + (a.length + 1) := by omega
    rw [this]
    cases (if (t == 0 && !az) = true then
        if k < inShape.length then some (Int.ofNat (inShape.getD k 0)) else none else some t) with
    | none => rfl
    | some x =>
      simp only [Option.bind_some]
      cases zs inShape az (k + 1) a with
      | none => rfl
      | some r =>
        simp only [Option.bind_some]
        cases zs inShape az (k + (a.length + 1)) b <;> rfl

/-- `finishR` on an all-natural target (both directions). -/
theorem finishR_ofNat_eq (total : Nat) (s : List Nat) :
    finishR total (s.map Int.ofNat) = if prodNat s = total then some s else none := by
  unfold finishR
  simp only [any_neg1_ofNat, filter_ne_neg1_ofNat, map_toNat_ofNat]
  simp

/-- With `allowzero = true` only the input size matters. -/
theorem specReshape_true_congr (s0 s1 : List Nat) (sh : List Int) (h : prodNat s0 = prodNat s1) :
    specReshape s0 sh true = specReshape s1 sh true := by
  rw [specReshape_eq, specReshape_eq, zs_true, zs_true, h]

/-- Without zeros in the target only the input size matters (any `allowzero` on either side). -/
theorem specReshape_no_zero_congr (s0 s1 : List Nat) (sh : List Int) (az az' : Bool)
    (h0 : ∀ t ∈ sh, t ≠ 0) (h : prodNat s0 = prodNat s1) :
    specReshape s0 sh az = specReshape s1 sh az' := by
  have h3 : sh.any (· == 0) = false := by
    simp only [List.any_eq_false, beq_iff_eq]; exact h0
  rw [specReshape_eq, specReshape_eq, zs_no_zero _ _ _ h0, zs_no_zero _ _ _ h0, h]
  simp only [h3, Bool.and_false, Bool.false_and]

/-- The rule's `0 ↦ -1` map is the identity on zero-free targets. -/
theorem map_zero_to_neg1_no_zero (sh : List Int) (h0 : ∀ t ∈ sh, t ≠ 0) :
    sh.map (fun v => if v == 0 then -1 else v) = sh := by
  induction sh with
  | nil => rfl
  | cons t sh ih =>
    have ht : t ≠ 0 := h0 t (by simp)
    rw [List.map_cons, ih (fun x hx => h0 x (by simp [hx]))]
    simp [ht]

/-- Zero count `0` means no entry is `0`. -/
theorem filter_zero_length_zero (sh : List Int) (h : (sh.filter (· == 0)).length = 0) : ∀ t ∈ sh, t ≠ 0 := by
  intro t ht e
  subst e
  have : (0 : Int) ∈ sh.filter (· == 0) := by simp [List.mem_filter, ht]
  have := List.length_pos_of_mem this
  omega

/-- A non-negative zero-free target is a list of positive naturals. -/
theorem nonneg_nonzero_ofNat (sh : List Int) (hneg : sh.any (· < 0) = false) (h0 : ∀ t ∈ sh, t ≠ 0) :
    ∃ A : List Nat, sh = A.map Int.ofNat ∧ ∀ d ∈ A, 0 < d := by
  induction sh with
  | nil => exact ⟨[], rfl, by simp⟩
  | cons t sh ih =>
    simp only [List.any_cons, Bool.or_eq_false_iff, decide_eq_false_iff_not] at hneg
    obtain ⟨A, hA, hpos⟩ := ih hneg.2 (fun x hx => h0 x (by simp [hx]))
    have ht : t ≠ 0 := h0 t (by simp)
    refine ⟨t.toNat :: A, ?_, ?_⟩
    · rw [List.map_cons, ← hA]
      have : Int.ofNat t.toNat = t := by simp; omega
      rw [this]
    · intro d hd
      rcases List.mem_cons.mp hd with rfl | hd
      · omega
      · exact hpos d hd

/-- A non-negative target with exactly one `0` splits around it into positive naturals. -/
theorem one_zero_decomp (sh : List Int) (hneg : sh.any (· < 0) = false)
    (h1 : (sh.filter (· == 0)).length = 1) :
    ∃ A B : List Nat, sh = A.map Int.ofNat ++ 0 :: B.map Int.ofNat ∧ (∀ d ∈ A, 0 < d) ∧ (∀ d ∈ B, 0 < d) := by
  induction sh with
  | nil => simp at h1
  | cons t sh ih =>
    have hneg' := hneg
    simp only [List.any_cons, Bool.or_eq_false_iff, decide_eq_false_iff_not] at hneg'
    by_cases ht : t = 0
    · subst ht
      have hz : (sh.filter (· == 0)).length = 0 := by simpa [List.filter_cons] using h1
      obtain ⟨B, hB, hpos⟩ := nonneg_nonzero_ofNat sh hneg'.2 (filter_zero_length_zero sh hz)
      exact ⟨[], B, by simp [hB], by simp, hpos⟩
    · have hz : (sh.filter (· == 0)).length = 1 := by simpa [List.filter_cons, ht] using h1
      obtain ⟨A, B, hAB, pA, pB⟩ := ih hneg'.2 hz
      refine ⟨t.toNat :: A, B, ?_, ?_, pB⟩
      · have : Int.ofNat t.toNat = t := by simp; omega
        rw [List.map_cons, this, hAB]; rfl
      · intro d hd
        rcases List.mem_cons.mp hd with rfl | hd
        · omega
        · exact pA d hd

/-- Positive naturals are non-zero integers. -/
theorem pos_ofNat_ne_zero (A : List Nat) (h : ∀ d ∈ A, 0 < d) : ∀ t ∈ A.map Int.ofNat, t ≠ 0 := by
  intro t ht
  obtain ⟨d, hd, rfl⟩ := List.mem_map.mp ht
  have := h d hd
  simp; omega

/-- The rule's `0 ↦ -1` map on a target with exactly one zero. -/
theorem map_zero_to_neg1_one_zero (A B : List Nat) (pA : ∀ d ∈ A, 0 < d) (pB : ∀ d ∈ B, 0 < d) :
    (A.map Int.ofNat ++ 0 :: B.map Int.ofNat).map (fun v => if v == 0 then -1 else v)
      = A.map Int.ofNat ++ (-1) :: B.map Int.ofNat := by
  rw [List.map_append, List.map_cons, map_zero_to_neg1_no_zero _ (pos_ofNat_ne_zero A pA),
    map_zero_to_neg1_no_zero _ (pos_ofNat_ne_zero B pB)]
  rfl

/-- Zero-copy step (`allowzero = 0`) on a target with exactly one zero. -/
theorem zs_one_zero (inShape A B : List Nat) (pA : ∀ d ∈ A, 0 < d) (pB : ∀ d ∈ B, 0 < d) :
    zs inShape false 0 (A.map Int.ofNat ++ 0 :: B.map Int.ofNat) =
      if A.length < inShape.length then some ((A ++ inShape.getD A.length 0 :: B).map Int.ofNat) else none := by
  rw [zs_append, zs_no_zero _ _ _ (pos_ofNat_ne_zero A pA)]
  have e : ((0 : Int) == 0 && !false) = true := rfl
  simp only [Option.bind_some, zs, zs_no_zero _ _ _ (pos_ofNat_ne_zero B pB), List.length_map, Nat.zero_add,
    e, if_true]
  by_cases h : A.length < inShape.length <;> simp [h]

/-- The first two `specReshape` guards pass on naturals with one entry `c ≥ -1` in the middle. -/
theorem guards_ofNat_mid (A B : List Nat) (c : Int) (hc : -1 ≤ c) :
    (A.map Int.ofNat ++ c :: B.map Int.ofNat).any (· < -1) = false ∧
    ((A.map Int.ofNat ++ c :: B.map Int.ofNat).filter (· == -1)).length ≤ 1 := by
  constructor
  · rw [List.any_append, List.any_cons, any_lt_neg1_ofNat, any_lt_neg1_ofNat]
    simp; omega
  · rw [List.filter_append, List.filter_cons, filter_eq_neg1_ofNat, filter_eq_neg1_ofNat]
    split <;> simp

/-- E: `ReshapeReshape` (no output annotation) — the fused Reshape, applied to any input with as many elements
as the intermediate tensor, gives what the second Reshape gave on the intermediate tensor. -/
theorem reshape_reshape_sound (s0 s1 : List Nat) (sh : List Int) (az : Int) (t : List Nat) (r : RRRepl)
    (h1 : specReshape s1 sh (az == 1) = some t) (hsz : prodNat s0 = prodNat s1)
    (hf : reshapeReshapeRun (some sh) none az = .fire r) :
    specReshape s0 r.shape (r.allowzero == some 1) = some t := by
  simp only [reshapeReshapeRun, Bool.false_eq_true, if_false] at hf
  split at hf
  · -- allowzero = 1 kept, zeros present
    rename_i hc
    cases hf
    have haz : (az == 1) = true := by simp only [Bool.and_eq_true] at hc; exact hc.1
    have : (some az == some (1 : Int)) = true := by simpa using haz
    simp only [this]
    rw [haz] at h1
    rw [specReshape_true_congr s0 s1 sh hsz]; exact h1
  · rename_i hc
    split at hf
    · cases hf
    · rename_i hc2
      split at hf
      · cases hf
      · rename_i hc3
        cases hf
        have e : ((none : Option Int) == some 1) = false := rfl
        simp only [e]
        by_cases hz : (sh.filter (· == 0)).length = 0
        · have h0 := filter_zero_length_zero sh hz
          rw [map_zero_to_neg1_no_zero sh h0, specReshape_no_zero_congr s0 s1 sh false (az == 1) h0 hsz]
          exact h1
        · have hz1 : (sh.filter (· == 0)).length = 1 := by omega
          have hzpos : (sh.filter (· == 0)).length > 0 := by omega
          have hneg : sh.any (· < 0) = false := by
            simpa [hzpos] using hc2
          have haz : (az == 1) = false := by
            simpa [hzpos] using hc
          rw [haz] at h1
          obtain ⟨A, B, rfl, pA, pB⟩ := one_zero_decomp sh hneg hz1
          rw [map_zero_to_neg1_one_zero A B pA pB]
          have g0 := guards_ofNat_mid A B 0 (by omega)
          have g1 := guards_ofNat_mid A B (-1) (by omega)
          have g0' : ¬ ((A.map Int.ofNat ++ 0 :: B.map Int.ofNat).filter (· == -1)).length > 1 := by omega
          rw [specReshape_eq, zs_one_zero s1 A B pA pB] at h1
          simp only [g0.1, g0', Bool.false_and, Bool.false_eq_true, if_false] at h1
          by_cases hlen : A.length < s1.length
          · simp only [hlen, if_true, finishR_ofNat_eq] at h1
            split at h1
            · rename_i hprod
              cases h1
              have hno0 : ∀ t ∈ A.map Int.ofNat ++ (-1) :: B.map Int.ofNat, t ≠ 0 := by
                intro t ht
                rcases List.mem_append.mp ht with h | h
                · exact pos_ofNat_ne_zero A pA t h
                · rcases List.mem_cons.mp h with rfl | h
                  · omega
                  · exact pos_ofNat_ne_zero B pB t h
              rw [specReshape_no_zero s0 _ false g1.1 g1.2 hno0]
              apply finishR_one_neg _ A B _ (Nat.mul_pos (prodNat_pos A pA) (prodNat_pos B pB))
              rw [hsz, ← hprod, prodNat_append, prodNat_cons, Nat.mul_assoc]
            · cases h1
          · simp only [hlen, if_false] at h1
            cases h1

end OV.Lemmas.C05Shape
