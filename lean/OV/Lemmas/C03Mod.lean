import OV.Lemmas.C04Total
/-!
# The `modified` flag is truthful on fragment A

If `FoldConstantsPass` reports "not modified", the graph it returns is the graph it was given.
-/
namespace OV.C03

theorem setInputs_self (n : Node) : n.setInputs n.inputs = n := by cases n; rfl

theorem substFold_mod : ∀ (l : List (Option Name)) (acc : List (Option Name) × St),
    (acc.2.modified = true → (l.foldl substStep acc).2.modified = true) ∧
    ((l.foldl substStep acc).2.modified = false → acc.2.modified = false ∧ (l.foldl substStep acc).1 = acc.1 ++ l)
  | [], acc => ⟨fun h => h, fun h => ⟨h, by simp⟩⟩
  | x :: xs, acc => by
    simp only [List.foldl_cons]
    obtain ⟨ih1, ih2⟩ := substFold_mod xs (substStep acc x)
    have hstep : (acc.2.modified = true → (substStep acc x).2.modified = true) ∧
        ((substStep acc x).2.modified = false → acc.2.modified = false ∧ (substStep acc x).1 = acc.1 ++ [x]) := by
      unfold substStep
      cases x with
      | none => exact ⟨fun h => h, fun h => ⟨h, rfl⟩⟩
      | some y =>
        simp only []
        split
        · exact ⟨fun _ => rfl, fun h => by simp [St.note] at h⟩
        · exact ⟨fun h => h, fun h => ⟨h, rfl⟩⟩
    refine ⟨fun h => ih1 (hstep.1 h), fun h => ?_⟩
    obtain ⟨h1, h2⟩ := ih2 h
    obtain ⟨h3, h4⟩ := hstep.2 h1
    exact ⟨h3, by rw [h2, h4]; simp⟩

theorem substInputs_mod (st : St) (n : Node) :
    (st.modified = true → (substInputs st n).2.modified = true) ∧
    ((substInputs st n).2.modified = false → st.modified = false ∧ (substInputs st n).1 = n) := by
  unfold substInputs
  simp only []
  obtain ⟨h1, h2⟩ := substFold_mod n.inputs ([], st)
  refine ⟨h1, fun h => ?_⟩
  obtain ⟨h3, h4⟩ := h2 h
  refine ⟨h3, ?_⟩
  rw [h4]
  simp only [List.nil_append]
  exact setInputs_self n

theorem processConstant_mod (ctx : Ctx) (st : St) (n : Node) : (processConstant ctx st n).modified = st.modified := by
  unfold processConstant
  split
  · rfl
  · split
    · rfl
    · split
      · rename_i o k a _ _
        have key : ∀ (c? : Option CInfo), (match c? with
            | none => st
            | some c => st.setInfo o { dtype := some c.dtype, shape := some (c.shape.map fun (d : Nat) => Dim.known (Int.ofNat d)), const := some c }).modified = st.modified := by
          intro c?
          cases c? <;> rfl
        exact key _
      · rfl

theorem evalPartial_mod (n : Node) (v : Nat) (st0 : St) : (evalPartial n v st0).2.modified = st0.modified := by
  unfold evalPartial
  split <;> rfl

theorem evalPartial_removed (n : Node) (v : Nat) (st0 : St) : (evalPartial n v st0).2.removed = st0.removed := by
  unfold evalPartial
  split <;> rfl

theorem gateProceed_mod (ctx : Ctx) (st : St) (n : Node) : (gateProceed ctx st n).2.modified = st.modified := by
  unfold gateProceed
  split
  · rfl
  · rfl
  · split
    · rfl
    · simp only []
      split
      · split <;> rfl
      · rfl

theorem emitFold_mod (ctx : Ctx) (st : St) (n : Node) (c : CInfo) : (emitFold ctx st n c).2.modified = st.modified := by
  unfold emitFold
  simp only []
  split
  · rfl
  · split
    · rfl
    · have hs1 : (if c.size > ctx.outLimit then st.note "gate:outputsize_compensated" else st).modified = st.modified := by
        split <;> rfl
      generalize (if c.size > ctx.outLimit then st.note "gate:outputsize_compensated" else st) = s1 at hs1 ⊢
      simp only [St.freshName]
      cases hf : ctx.isFunction with
      | true =>
        simp only [if_true]
        exact hs1
      | false =>
        simp only [Bool.false_eq_true, if_false]
        exact hs1

theorem gateCascade_mod (ctx : Ctx) (st : St) (n : Node) (v : Nat) : (gateCascade ctx st n v).2.modified = st.modified := by
  unfold gateCascade
  split
  · rfl
  · split
    · rfl
    · split
      · rfl
      · split
        · rfl
        · split
          · rfl
          · have hgp := gateProceed_mod ctx st n
            split
            · rename_i st' heq
              rw [heq] at hgp
              exact hgp
            · rename_i st' heq
              rw [heq] at hgp
              split
              · exact hgp
              · exact hgp
              · rw [emitFold_mod]; exact hgp

/-- **Through the node loop on fragment A the flag only goes up, and while it is down nothing has changed.** -/
theorem visitNodes_mod (ctx : Ctx) (hnf : ctx.isFunction = false) (vg : St → Graph → St × Graph) :
    ∀ (f : Nat) (todo : List Node) (st : St) (acc : List Node) (ai : List (Name × String)),
      (∀ n ∈ todo, FragBk n) →
      (st.modified = true → (visitNodes ctx vg f st todo acc ai).1.modified = true) ∧
      ((visitNodes ctx vg f st todo acc ai).1.modified = false →
        (visitNodes ctx vg f st todo acc ai).2.1 = acc.reverse ++ todo ∧ (visitNodes ctx vg f st todo acc ai).2.2 = ai ∧
        (visitNodes ctx vg f st todo acc ai).1.removed = st.removed) := by
  intro f
  induction f with
  | zero =>
    intro todo st acc ai _
    simp only [visitNodes]
    refine ⟨fun h => h, fun _ => ?_⟩
    simp
  | succ f ih =>
    intro todo st acc ai hfr
    cases todo with
    | nil =>
      simp only [visitNodes]
      refine ⟨fun h => h, fun _ => ?_⟩
      simp
    | cons n0 rest =>
      have hfr0 := hfr n0 List.mem_cons_self
      have hfrrest : ∀ m ∈ rest, FragBk m := fun m hm => hfr m (List.mem_cons_of_mem _ hm)
      obtain ⟨hspec1, hspec2⟩ := substInputs_spec st n0
      obtain ⟨hsm1, hsm2⟩ := substInputs_mod st n0
      have hfr00 := sameFrame_substInputs st n0
      generalize hnn : (substInputs st n0).1 = n at hspec1 hsm2
      generalize hst0 : (substInputs st n0).2 = st0 at hspec2 hsm1 hsm2 hfr00
      have hnsubs : n.subs = [] := by rw [hspec1, setInputs_subs]; exact hfr0.1
      have hnout : n.outputs = n0.outputs := by rw [hspec1, setInputs_outputs]
      -- the three ways a step can end
      have stuck : ∀ (s : St), s.modified = st0.modified → s.removed = st0.removed →
          (st.modified = true → ((s, acc.reverse ++ n0 :: rest, ai) : St × List Node × List (Name × String)).1.modified = true) ∧
          (((s, acc.reverse ++ n0 :: rest, ai) : St × List Node × List (Name × String)).1.modified = false →
            ((s, acc.reverse ++ n0 :: rest, ai) : St × List Node × List (Name × String)).2.1 = acc.reverse ++ n0 :: rest ∧
            ((s, acc.reverse ++ n0 :: rest, ai) : St × List Node × List (Name × String)).2.2 = ai ∧
            ((s, acc.reverse ++ n0 :: rest, ai) : St × List Node × List (Name × String)).1.removed = st.removed) :=
        fun s hm hr => ⟨fun h => by show s.modified = true; rw [hm]; exact hsm1 h,
          fun _ => ⟨rfl, rfl, by show s.removed = _; rw [hr]; exact hfr00.2⟩⟩
      have keepCase : ∀ (st' : St), st'.modified = st0.modified → st'.removed = st0.removed →
          (st.modified = true → (visitNodes ctx vg f st' rest (n :: acc) ai).1.modified = true) ∧
          ((visitNodes ctx vg f st' rest (n :: acc) ai).1.modified = false →
            (visitNodes ctx vg f st' rest (n :: acc) ai).2.1 = acc.reverse ++ n0 :: rest ∧
            (visitNodes ctx vg f st' rest (n :: acc) ai).2.2 = ai ∧
            (visitNodes ctx vg f st' rest (n :: acc) ai).1.removed = st.removed) := by
        intro st' hm hr
        obtain ⟨i1, i2⟩ := ih rest st' (n :: acc) ai hfrrest
        refine ⟨fun h => i1 (by rw [hm]; exact hsm1 h), fun h => ?_⟩
        obtain ⟨j1, j2, j3⟩ := i2 h
        have hst' : st'.modified = false := by
          cases hc : st'.modified with
          | false => rfl
          | true => rw [i1 hc] at h; exact absurd h (by decide)
        obtain ⟨_, hn⟩ := hsm2 (by rw [← hm]; exact hst')
        refine ⟨by rw [j1, ← hn]; simp, j2, by rw [j3, hr]; exact hfr00.2⟩
      have replCase : ∀ (st' : St) (todo' : List Node) (ai' : List (Name × String)), st'.modified = true →
          (∀ m ∈ todo', FragBk m) →
          (st.modified = true → (visitNodes ctx vg f st' todo' acc ai').1.modified = true) ∧
          ((visitNodes ctx vg f st' todo' acc ai').1.modified = false →
            (visitNodes ctx vg f st' todo' acc ai').2.1 = acc.reverse ++ n0 :: rest ∧
            (visitNodes ctx vg f st' todo' acc ai').2.2 = ai ∧
            (visitNodes ctx vg f st' todo' acc ai').1.removed = st.removed) := by
        intro st' todo' ai' hm hfr'
        obtain ⟨i1, _⟩ := ih todo' st' acc ai' hfr'
        exact ⟨fun _ => i1 hm, fun h => by rw [i1 hm] at h; exact absurd h (by decide)⟩
      have cascade : ∀ (stG : St) (v : Nat), stG.modified = st0.modified → stG.removed = st0.removed →
          (st.modified = true →
            (match gateCascade ctx stG n v with
              | (PRes.error m, st) => ({ st with err := some m }, acc.reverse ++ n0 :: rest, ai)
              | (PRes.keep n', st) => visitNodes ctx vg f (visitSubs vg st n'.subs).1 rest (n'.setSubs (visitSubs vg st n'.subs).2 :: acc) ai
              | (PRes.repl n' r, st) =>
                match applyRepl ctx st n' r with
                | .error m => ({ st with err := some m }, acc.reverse ++ n0 :: rest, ai)
                | .ok (newNodes, inits, st) => visitNodes ctx vg f st (newNodes ++ rest) acc (ai ++ inits)).1.modified = true) ∧
          ((match gateCascade ctx stG n v with
              | (PRes.error m, st) => ({ st with err := some m }, acc.reverse ++ n0 :: rest, ai)
              | (PRes.keep n', st) => visitNodes ctx vg f (visitSubs vg st n'.subs).1 rest (n'.setSubs (visitSubs vg st n'.subs).2 :: acc) ai
              | (PRes.repl n' r, st) =>
                match applyRepl ctx st n' r with
                | .error m => ({ st with err := some m }, acc.reverse ++ n0 :: rest, ai)
                | .ok (newNodes, inits, st) => visitNodes ctx vg f st (newNodes ++ rest) acc (ai ++ inits)).1.modified = false →
            (match gateCascade ctx stG n v with
              | (PRes.error m, st) => ({ st with err := some m }, acc.reverse ++ n0 :: rest, ai)
              | (PRes.keep n', st) => visitNodes ctx vg f (visitSubs vg st n'.subs).1 rest (n'.setSubs (visitSubs vg st n'.subs).2 :: acc) ai
              | (PRes.repl n' r, st) =>
                match applyRepl ctx st n' r with
                | .error m => ({ st with err := some m }, acc.reverse ++ n0 :: rest, ai)
                | .ok (newNodes, inits, st) => visitNodes ctx vg f st (newNodes ++ rest) acc (ai ++ inits)).2.1 = acc.reverse ++ n0 :: rest ∧
            (match gateCascade ctx stG n v with
              | (PRes.error m, st) => ({ st with err := some m }, acc.reverse ++ n0 :: rest, ai)
              | (PRes.keep n', st) => visitNodes ctx vg f (visitSubs vg st n'.subs).1 rest (n'.setSubs (visitSubs vg st n'.subs).2 :: acc) ai
              | (PRes.repl n' r, st) =>
                match applyRepl ctx st n' r with
                | .error m => ({ st with err := some m }, acc.reverse ++ n0 :: rest, ai)
                | .ok (newNodes, inits, st) => visitNodes ctx vg f st (newNodes ++ rest) acc (ai ++ inits)).2.2 = ai ∧
            (match gateCascade ctx stG n v with
              | (PRes.error m, st) => ({ st with err := some m }, acc.reverse ++ n0 :: rest, ai)
              | (PRes.keep n', st) => visitNodes ctx vg f (visitSubs vg st n'.subs).1 rest (n'.setSubs (visitSubs vg st n'.subs).2 :: acc) ai
              | (PRes.repl n' r, st) =>
                match applyRepl ctx st n' r with
                | .error m => ({ st with err := some m }, acc.reverse ++ n0 :: rest, ai)
                | .ok (newNodes, inits, st) => visitNodes ctx vg f st (newNodes ++ rest) acc (ai ++ inits)).1.removed = st.removed) := by
        intro stG v hGm hGr
        have hm := gateCascade_mod ctx stG n v
        have hbk := sameBk_gateCascade ctx stG n v
        rcases gateCascade_cases ctx hnf stG n v with ⟨st', hg, hs'⟩ | ⟨m, st', hg⟩ | ⟨c, st2, st3, o, hs2, hora, ho, hsubs, hnc, hins, hg, hsym3, hinfo3⟩
        · rw [hg] at hm hbk ⊢
          simp only [hnsubs, visitSubs, setSubs_nil n hnsubs]
          exact keepCase st' (hm.trans hGm) (hbk.2.2.2.trans hGr)
        · rw [hg] at hm hbk ⊢
          exact stuck { st' with err := some m } (hm.trans hGm) (hbk.2.2.2.trans hGr)
        · rw [hg]
          obtain ⟨st4, happ, hs4, l, hst4⟩ := applyRepl_fold ctx hnf st3 n o (freshOf st2) c.tok ho
          simp only [happ, List.nil_append]
          exact replCase st4 rest _ (by rw [hst4]; rfl) hfrrest
      simp only [visitNodes]
      split
      · exact ⟨fun h => h, fun _ => ⟨rfl, rfl, rfl⟩⟩
      · rw [processNode_noref ctx st n0 hfr0.2.1, hnn, hst0]
        have hdom : n.domain = n0.domain := by rw [hspec1, setInputs_domain]
        rcases hfr0.2.2 with hP | hK | hIcls | hR
        · have hev : ∀ v, lookupEvaluator n v = none := fun v => by rw [hspec1, lookupEvaluator_setInputs]; exact hP.2 v
          simp only [hP.1, Bool.false_eq_true, if_false]
          cases himp : lookupA ctx.imports n0.domain with
          | none =>
            simp only [hnsubs, visitSubs, setSubs_nil n hnsubs]
            exact keepCase _ rfl rfl
          | some v =>
            simp only [evalPartial, hev, finishNode]
            exact cascade st0 v rfl rfl
        · have hev : ∀ v, lookupEvaluator n v = none := by
            intro v
            rw [hspec1, lookupEvaluator_setInputs]
            have hk := hK.1
            simp only [Node.isOp, Bool.and_eq_true, beq_iff_eq] at hk
            unfold lookupEvaluator
            split
            · rfl
            · simp [hk.1]
          have hisop : n.isOp "Constant" = true := by rw [hspec1, isOp_setInputs]; exact hK.1
          have hpm := processConstant_mod ctx st0 n
          have hpb := sameBk_processConstant ctx st0 n
          simp only [hK.1, if_true]
          cases himp : lookupA ctx.imports n0.domain with
          | none =>
            simp only [hnsubs, visitSubs, setSubs_nil n hnsubs]
            exact keepCase _ hpm hpb.2.2.2
          | some v =>
            simp only [evalPartial, hev, finishNode, gateCascade, hisop, if_true]
            simp only [hnsubs, visitSubs, setSubs_nil n hnsubs]
            exact keepCase _ hpm hpb.2.2.2
        · obtain ⟨hiop, hidom, x0, o, hin0, hout0⟩ := hIcls
          have hnc : n0.isOp "Constant" = false := by simp [Node.isOp, hiop]
          simp only [hnc, Bool.false_eq_true, if_false]
          cases himp : lookupA ctx.imports n0.domain with
          | none =>
            simp only [hnsubs, visitSubs, setSubs_nil n hnsubs]
            exact keepCase _ rfl rfl
          | some v =>
            have hxin : ∃ x, n.inputs = [some x] := by
              rw [hspec1, setInputs_inputs, hin0]
              simp only [List.map_cons, List.map_nil, substOne]
              split
              · exact ⟨_, rfl⟩
              · exact ⟨_, rfl⟩
            obtain ⟨x, hxin⟩ := hxin
            have hno : n.outputs = [o] := by rw [hnout, hout0]
            have hnop : n.op = "Identity" := by rw [hspec1, setInputs_op]; exact hiop
            have hndom : n.domain = "" := by rw [hdom]; exact hidom
            obtain ⟨st2, hep, _, _, _, _, _⟩ := evalPartial_identity st0 n v x o hnop hndom hxin hno
            have hm2 := evalPartial_mod n v st0
            have hr2 := evalPartial_removed n v st0
            rw [hep] at hm2 hr2
            simp only [hep, finishNode]
            exact cascade st2 v hm2 hr2
        · obtain ⟨hnc, ⟨o, hout0⟩, hshape⟩ := hR
          simp only [hnc, Bool.false_eq_true, if_false]
          cases himp : lookupA ctx.imports n0.domain with
          | none =>
            simp only [hnsubs, visitSubs, setSubs_nil n hnsubs]
            exact keepCase _ rfl rfl
          | some v =>
            have hno : n.outputs = [o] := by rw [hnout, hout0]
            have hes : EvShape n := by
              rw [hspec1]; exact hshape _ (substOne_shape st n0.inputs)
            have hm2 := evalPartial_mod n v st0
            have hr2 := evalPartial_removed n v st0
            obtain ⟨_, hcases⟩ := hes st0 v
            simp only []
            generalize evalPartial n v st0 = e at hm2 hr2 hcases ⊢
            obtain ⟨r1, st2⟩ := e
            simp only [] at hm2 hr2 hcases
            rcases hcases with ⟨hr, _⟩ | ⟨x, opn, attrs, hr, hxin, _, hkind⟩
            · subst hr
              simp only [finishNode]
              exact cascade st2 v hm2 hr2
            · subst hr
              simp only [finishNode]
              obtain ⟨l, x', happ⟩ := applyRepl_one' ctx hnf st2 n o (freshOf st0) x opn attrs hno
              have happ' : applyRepl ctx st2 n (oneRepl st0 opn x attrs) = .ok ([mkNode opn [some x'] [o] attrs], [],
                  replState st2 n o (freshOf st0) (mkNode opn [some x'] [o] attrs) l) := happ
              simp only [happ', List.cons_append, List.nil_append, List.append_nil]
              apply replCase _ _ _ rfl
              intro k hk
              rcases List.mem_cons.mp hk with rfl | hk'
              · rcases hkind with ⟨rfl, rfl, _⟩ | ⟨rfl, ⟨t, rfl⟩, _, _⟩
                · exact ⟨rfl, rfl, Or.inr (Or.inr (Or.inl ⟨rfl, rfl, x', o, rfl, rfl⟩))⟩
                · exact ⟨rfl, rfl, Or.inr (Or.inr (Or.inr (clsX_cast _ x' o rfl rfl rfl)))⟩
              · exact hfrrest k hk'

/-! ### graph level -/

theorem replaceOutputs_mod (nodes : List Node) : ∀ (outs : List Name) (st : St),
    (st.modified = true → (replaceOutputs st nodes outs).1.modified = true) ∧
    ((replaceOutputs st nodes outs).1.modified = false → (replaceOutputs st nodes outs).2 = outs)
  | [], st => ⟨fun h => h, fun _ => rfl⟩
  | o :: rest, st => by
    simp only [replaceOutputs]
    split
    · split
      · obtain ⟨i1, i2⟩ := replaceOutputs_mod nodes rest (st.note "out:noproducer")
        exact ⟨fun h => i1 h, fun h => by rw [i2 h]⟩
      · split
        · obtain ⟨i1, i2⟩ := replaceOutputs_mod nodes rest (st.note "out:alreadyoutput")
          exact ⟨fun h => i1 h, fun h => by rw [i2 h]⟩
        · rename_i y _ _ _
          obtain ⟨i1, _⟩ := replaceOutputs_mod nodes rest
            ({ st with gouts := y :: st.gouts.erase o, modified := true }.note "out:replaced")
          exact ⟨fun _ => i1 rfl, fun h => by rw [i1 rfl] at h; exact absurd h (by decide)⟩
    · obtain ⟨i1, i2⟩ := replaceOutputs_mod nodes rest st
      exact ⟨fun h => i1 h, fun h => by rw [i2 h]⟩

theorem initialState_mod (g : Graph) (info : List (Name × VInfo)) :
    (initialState g info).modified = false ∧ (initialState g info).removed = [] := by
  unfold initialState
  simp only []
  suffices h : ∀ (l : List Name) (st : St), (l.foldl (fun st x => st.incUse x) st).modified = st.modified ∧
      (l.foldl (fun st x => st.incUse x) st).removed = st.removed from h _ _
  intro l
  induction l with
  | nil => intro st; exact ⟨rfl, rfl⟩
  | cons x xs ih => intro st; simp only [List.foldl_cons]; exact ⟨(ih _).1, (ih _).2⟩

theorem pruneInits_nil (k : Nat) (g : Graph) (hp : ∀ n ∈ g.nodes, n.subs = []) : pruneInits [] (k + 1) g = g := by
  have hg : g = Graph.mk g.inputs g.inits g.nodes g.outputs := by cases g; rfl
  rw [hg, pruneInits_plain [] k g.inputs g.inits g.nodes g.outputs hp]
  simp

theorem unmodified_aux (k : Nat) (ctx : Ctx) (hnf : ctx.isFunction = false) (info : List (Name × VInfo)) (g : Graph)
    (hfr : ∀ n ∈ g.nodes, FragBk n)
    (hm : (visitGraph ctx (k + 1) (initialState g info) g).1.modified = false) :
    (visitGraph ctx (k + 1) (initialState g info) g).2 = g ∧
    (visitGraph ctx (k + 1) (initialState g info) g).1.removed = [] := by
  obtain ⟨m0, r0⟩ := initialState_mod g info
  obtain ⟨v1, v2⟩ := visitNodes_mod ctx hnf (visitGraph ctx k) (stepFuel g + 16 * (initialState g info).uses.length)
    g.nodes (initialState g info) [] [] hfr
  have hg : g = Graph.mk g.inputs g.inits g.nodes g.outputs := by cases g; rfl
  simp only [visitGraph] at hm ⊢
  generalize visitNodes ctx (visitGraph ctx k) (stepFuel g + 16 * (initialState g info).uses.length)
    (initialState g info) g.nodes [] [] = r at v1 v2 hm ⊢
  obtain ⟨stN, L, added⟩ := r
  simp only [] at v1 v2 hm ⊢
  split at hm
  · rename_i herr
    simp only [herr, ↓reduceIte]
    obtain ⟨a1, a2, a3⟩ := v2 hm
    simp only [List.reverse_nil, List.nil_append] at a1
    refine ⟨?_, by rw [a3, r0]⟩
    rw [a1, a2, List.append_nil]
    exact hg.symm
  · rename_i herr
    simp only [herr, Bool.false_eq_true, ↓reduceIte]
    obtain ⟨p1, p2⟩ := replaceOutputs_mod L g.outputs stN
    have hstN : stN.modified = false := by
      cases hc : stN.modified with
      | false => rfl
      | true => rw [p1 hc] at hm; exact absurd hm (by decide)
    obtain ⟨a1, a2, a3⟩ := v2 hstN
    simp only [List.reverse_nil, List.nil_append] at a1
    refine ⟨?_, by rw [(sameFrame_replaceOutputs L g.outputs stN).2, a3, r0]⟩
    rw [p2 hm, a1, a2, List.append_nil]
    exact hg.symm

/-- **The `modified` flag is truthful on fragment A**: if the model of `FoldConstantsPass` reports "not modified", the graph
it returns is the graph it was given. -/
theorem foldGraph_unmodified (ctx : Ctx) (hnf : ctx.isFunction = false) (info : List (Name × VInfo)) (g : Graph)
    (hfr : ∀ n ∈ g.nodes, FragBk n) (hm : (foldGraph ctx info g).1.modified = false) :
    (foldGraph ctx info g).2 = g := by
  have hmd : maxDepth = 7 + 1 := rfl
  simp only [foldGraph, hmd] at hm ⊢
  obtain ⟨h1, h2⟩ := unmodified_aux 7 ctx hnf info g hfr hm
  rw [h1, h2]
  exact pruneInits_nil 7 g (fun n hn => (hfr n hn).1)

end OV.C03
