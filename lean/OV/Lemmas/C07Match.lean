import OV.Model.C07Apply
/-! Helper lemmas for C07: what a successful `matchAt` (the model's rendering of
`SimplePatternMatcher.match` + `_valid_to_replace`) guarantees about the match it returns.
Core Lean only. -/
namespace OV.C07

/-- interior values of a match: outputs of the matched nodes that are not pattern outputs
(the expression `matchCombo` tests against the ghost uses) -/
def interiorOf (g : Graph) (matched : List Nat) (outs : List Name) : List Name :=
  ((g.nodes.filter fun n => matched.contains n.id).flatMap (·.outputs)).filter fun v => !(outs.contains v)

theorem mem_interiorOf {g : Graph} {matched : List Nat} {outs : List Name} {x : Name} :
    x ∈ interiorOf g matched outs ↔
      (∃ n ∈ g.nodes, matched.contains n.id = true ∧ x ∈ n.outputs) ∧ x ∉ outs := by
  unfold interiorOf
  simp only [List.mem_filter, List.mem_flatMap, Bool.not_eq_true', List.contains_eq_mem,
    decide_eq_false_iff_not, decide_eq_true_eq]
  constructor
  · rintro ⟨⟨n, ⟨hn, hm⟩, hx⟩, ho⟩
    exact ⟨⟨n, hn, hm, hx⟩, ho⟩
  · rintro ⟨⟨n, hn, hm, hx⟩, ho⟩
    exact ⟨⟨n, ⟨hn, hm⟩, hx⟩, ho⟩

/-- `_valid_to_replace` in logical form: an interior value of the match is not a graph output and
no node outside the match reads it — directly or from inside one of its bodies (`reads` includes
the captures). -/
theorem validToReplace_spec (g : Graph) (matched : List Nat) (outs : List Name)
    (h : validToReplace g matched outs = true) :
    ∀ x ∈ interiorOf g matched outs,
      x ∉ g.outputs ∧ ∀ b ∈ g.nodes, matched.contains b.id = false → x ∉ b.reads := by
  intro x hx
  obtain ⟨⟨n, hn, hm, hxo⟩, hno⟩ := mem_interiorOf.mp hx
  unfold validToReplace at h
  have h1 := List.all_eq_true.mp h n (List.mem_filter.mpr ⟨hn, hm⟩)
  have h2 := List.all_eq_true.mp h1 x hxo
  have hno' : outs.contains x = false := by simpa using hno
  rw [hno', Bool.false_or, Bool.and_eq_true] at h2
  obtain ⟨hgo, hcons⟩ := h2
  refine ⟨by simpa using hgo, ?_⟩
  intro b hb hbm hr
  have hbc : b.id ∈ consumers g x := by
    unfold consumers
    exact List.mem_map.mpr ⟨b, List.mem_filter.mpr ⟨hb, by simpa using hr⟩, rfl⟩
  have := List.all_eq_true.mp hcons b.id hbc
  rw [hbm] at this
  exact absurd this (by simp)

/-- a candidate combination accepted for a node-removing rule passed `_valid_to_replace`, and none
of its interior values is held by a discarded replacement (ghost use) -/
theorem matchCombo_spec (g : Graph) (r : Rule) (ghost : List Name) (combo : List (Nat × Node))
    (st : MSt) (outs : List Name) (h : matchCombo g r ghost combo = some (st, outs))
    (hrm : r.removeNodes = true) :
    validToReplace g st.nodes outs = true ∧ ∀ x ∈ interiorOf g st.nodes outs, x ∉ ghost := by
  unfold matchCombo at h
  split at h
  · exact absurd h (by simp)
  · rename_i st0 _
    split at h
    · exact absurd h (by simp)
    · rename_i outs0 _
      dsimp only at h
      split at h
      · exact absurd h (by simp)
      · rename_i hc
        simp only [Option.some.injEq, Prod.mk.injEq] at h
        obtain ⟨hs, ho⟩ := h
        subst hs; subst ho
        rw [hrm, Bool.true_and, Bool.or_eq_true, not_or] at hc
        obtain ⟨hv, hgst⟩ := hc
        refine ⟨by simpa using hv, ?_⟩
        intro x hx hgh
        apply hgst
        exact List.any_eq_true.mpr ⟨x, hx, by simpa using hgh⟩

/-- `matchAt` returns the root it was offered, and for a node-removing rule a match that passed
`_valid_to_replace` with no interior value held by a ghost use. -/
theorem matchAt_spec (g : Graph) (r : Rule) (node : Node) (ghost : List Name) (m : Match)
    (h : matchAt g r node ghost = some m) :
    m.root = node.id ∧
    (r.removeNodes = true →
      validToReplace g m.nodes m.outputs = true ∧ ∀ x ∈ interiorOf g m.nodes m.outputs, x ∉ ghost) := by
  unfold matchAt at h
  split at h
  · exact absurd h (by simp)
  · rename_i first others _
    dsimp only at h
    generalize hfs : List.findSome? (matchCombo g r ghost) _ = fs at h
    cases fs with
    | none => exact absurd h (by simp)
    | some so =>
      obtain ⟨st, outs⟩ := so
      have hf := hfs
      obtain ⟨combo, _, hc⟩ := List.exists_of_findSome?_eq_some hf
      dsimp only at h
      split at h <;> split at h <;>
        first
        | (have h' := Option.some.inj h
           subst h'
           exact ⟨rfl, fun hrm => matchCombo_spec g r ghost combo st outs hc hrm⟩)
        | cases h


/-! ### the root is among the matched nodes (the set of matched nodes only grows) -/

theorem bindValue_nodes (st st' : MSt) (p : PRef) (v : Option Name) (h : bindValue st p v = some st') :
    st'.nodes = st.nodes := by
  unfold bindValue at h
  split at h
  · split at h
    · cases h; rfl
    · cases h
  · cases h; rfl

theorem foldlM_bindValue_nodes (outs : List Name) (pi : Nat) :
    ∀ (js : List Nat) (st st' : MSt),
      js.foldlM (fun st j => bindValue st (.out pi j) (outs[j]?)) st = some st' → st'.nodes = st.nodes := by
  intro js
  induction js with
  | nil => intro st st' h; simp only [List.foldlM_nil] at h; cases h; rfl
  | cons j js ih =>
    intro st st' h
    simp only [List.foldlM_cons] at h
    cases hb : bindValue st (.out pi j) (outs[j]?) with
    | none => rw [hb] at h; cases h
    | some st1 =>
      rw [hb] at h
      rw [ih st1 st' h, bindValue_nodes st st1 _ _ hb]

theorem match_nodes_mono (g : Graph) (p : Pat) : ∀ f : Nat,
    (∀ st pi node st', matchNode g p f st pi node = some st' → ∀ i ∈ st.nodes, i ∈ st'.nodes) ∧
    (∀ st l st', matchInputs g p f st l = some st' → ∀ i ∈ st.nodes, i ∈ st'.nodes) ∧
    (∀ st v pr st', matchValue g p f st v pr = some st' → ∀ i ∈ st.nodes, i ∈ st'.nodes) := by
  intro f
  induction f with
  | zero =>
    refine ⟨?_, ?_, ?_⟩
    · intro st pi node st' h; simp [matchNode] at h
    · intro st l st' h; simp [matchInputs] at h
    · intro st v pr st' h; simp [matchValue] at h
  | succ f ih =>
    obtain ⟨ihN, ihI, ihV⟩ := ih
    refine ⟨?_, ?_, ?_⟩
    · intro st pi node st' h i hi
      rw [matchNode] at h
      split at h
      · split at h
        · cases h; exact hi
        · cases h
      · split at h
        · cases h
        · split at h
          · cases h
          · dsimp only at h
            split at h
            · cases h
            · split at h
              · cases h
              · rename_i st2 hin
                have h2 := ihI _ _ _ hin i (by simp [hi])
                split at h
                · cases h
                · rw [foldlM_bindValue_nodes _ _ _ _ _ h]; exact h2
    · intro st l st' h i hi
      cases l with
      | nil => rw [matchInputs] at h; cases h; exact hi
      | cons a rest =>
        obtain ⟨v, pr⟩ := a
        rw [matchInputs] at h
        split at h
        · cases h
        · rename_i st1 hv
          exact ihI _ _ _ h i (ihV _ _ _ _ hv i hi)
    · intro st v pr st' h i hi
      cases pr with
      | none =>
        rw [matchValue] at h
        split at h
        · cases h; exact hi
        · cases h
      | var k =>
        rw [matchValue] at h
        split at h
        · cases h
        · rename_i st1 hb
          split at h
          · cases h
          · cases h; rw [bindValue_nodes _ _ _ _ hb]; exact hi
      | out pj j =>
        cases v with
        | none => rw [matchValue] at h; cases h
        | some x =>
          rw [matchValue] at h
          split at h
          · cases h
          · split at h
            · cases h
            · rename_i st1 hb
              split at h
              · cases h
              · split at h
                · cases h
                · have := ihN _ _ _ _ h i
                  rw [bindValue_nodes _ _ _ _ hb] at this
                  exact this hi

/-- a pattern node not yet assigned is recorded as matched when `matchNode` succeeds on it -/
theorem matchNode_adds (g : Graph) (p : Pat) (f : Nat) (st st' : MSt) (pi : Nat) (node : Node)
    (hnb : st.nb.lookup pi = none) (h : matchNode g p f st pi node = some st') : node.id ∈ st'.nodes := by
  cases f with
  | zero => simp [matchNode] at h
  | succ f =>
    rw [matchNode] at h
    split at h
    · rename_i nid hl
      rw [hnb] at hl
      cases hl
    · split at h
      · cases h
      · split at h
        · cases h
        · dsimp only at h
          split at h
          · cases h
          · split at h
            · cases h
            · rename_i st2 hin
              have h2 := (match_nodes_mono g p f).2.1 _ _ _ hin node.id (by simp)
              split at h
              · cases h
              · rw [foldlM_bindValue_nodes _ _ _ _ _ h]; exact h2

theorem foldlM_matchNode_mono (g : Graph) (p : Pat) (f : Nat) (F : MSt → Nat × Node → Option MSt)
    (hF : ∀ st x, F st x = matchNode g p f st x.1 x.2) :
    ∀ (combo : List (Nat × Node)) (st st' : MSt),
      combo.foldlM F st = some st' → ∀ i ∈ st.nodes, i ∈ st'.nodes := by
  intro combo
  induction combo with
  | nil => intro st st' h i hi; simp only [List.foldlM_nil] at h; cases h; exact hi
  | cons a rest ih =>
    intro st st' h i hi
    simp only [List.foldlM_cons] at h
    cases hb : F st a with
    | none => rw [hb] at h; cases h
    | some st1 =>
      rw [hb] at h
      rw [hF] at hb
      exact ih st1 st' h i ((match_nodes_mono g p f).1 _ _ _ _ hb i hi)

theorem mem_product_cons {α} (l : List α) (rest : List (List α)) (c : List α)
    (h : c ∈ product (l :: rest)) : ∃ x ∈ l, ∃ t, c = x :: t := by
  unfold product at h
  obtain ⟨x, hx, hc⟩ := List.mem_flatMap.mp h
  obtain ⟨t, _, ht⟩ := List.mem_map.mp hc
  exact ⟨x, hx, t, ht.symm⟩

/-- the node offered to the pattern's first output node is among the matched nodes -/
theorem matchCombo_root (g : Graph) (r : Rule) (ghost : List Name) (first : Nat) (node : Node)
    (rest : List (Nat × Node)) (st : MSt) (outs : List Name)
    (h : matchCombo g r ghost ((first, node) :: rest) = some (st, outs)) : node.id ∈ st.nodes := by
  unfold matchCombo at h
  split at h
  · cases h
  · rename_i st0 hfold
    have hst : st = st0 := by
      split at h
      · cases h
      · dsimp only at h
        split at h
        · cases h
        · cases h; rfl
    subst hst
    simp only [List.foldlM_cons] at hfold
    cases hb : matchNode g r.pat 1000 ({} : MSt) first node with
    | none => rw [hb] at hfold; cases hfold
    | some st1 =>
      rw [hb] at hfold
      have h1 := matchNode_adds g r.pat 1000 {} st1 first node rfl hb
      exact foldlM_matchNode_mono g r.pat 1000 _ (fun st x => by cases x; rfl) rest st1 st hfold _ h1

theorem matchAt_root_matched (g : Graph) (r : Rule) (node : Node) (ghost : List Name) (m : Match)
    (h : matchAt g r node ghost = some m) : m.nodes.contains node.id = true := by
  unfold matchAt at h
  split at h
  · cases h
  · rename_i first others _
    dsimp only at h
    generalize hfs : List.findSome? (matchCombo g r ghost) _ = fs at h
    cases fs with
    | none => cases h
    | some so =>
      obtain ⟨st, outs⟩ := so
      obtain ⟨combo, hmem, hc⟩ := List.exists_of_findSome?_eq_some hfs
      obtain ⟨x, hx, t, hct⟩ := mem_product_cons _ _ _ hmem
      have hx' : x = (first, node) := by simpa using hx
      subst hct; subst hx'
      have hroot := matchCombo_root g r ghost first node t st outs hc
      dsimp only at h
      split at h <;> split at h <;>
        first
        | (have h' := Option.some.inj h
           subst h'
           simpa using hroot)
        | cases h


/-! ### OutputsAtRoot for patterns whose outputs all come from one node: every pattern output is
bound to an output of the node the pattern's output node was matched with -/

/-- invariant of the matcher state once the pattern's output node `r0` is assigned to `node`:
the assignment stays, and every binding of an output of `r0` is an output of `node` -/
def RootInv (r0 : Nat) (node : Node) (st : MSt) : Prop :=
  st.nb.lookup r0 = some node.id ∧
  ∀ j v, st.vb.lookup (PRef.out r0 j) = some v → ∃ x, v = some x ∧ x ∈ node.outputs

theorem bindValue_cases (st st' : MSt) (p : PRef) (v : Option Name) (h : bindValue st p v = some st') :
    st' = st ∨ (st.vb.lookup p = none ∧ st' = { st with vb := st.vb ++ [(p, v)] }) := by
  unfold bindValue at h
  split at h
  · split at h
    · cases h; exact Or.inl rfl
    · cases h
  · rename_i hl; cases h; exact Or.inr ⟨hl, rfl⟩

theorem bindValue_inv (r0 : Nat) (node : Node) (st st' : MSt) (p : PRef) (v : Option Name)
    (h : bindValue st p v = some st') (hJ : RootInv r0 node st)
    (hp : ∀ j, p = .out r0 j → ∃ x, v = some x ∧ x ∈ node.outputs) : RootInv r0 node st' := by
  rcases bindValue_cases st st' p v h with rfl | ⟨_, rfl⟩
  · exact hJ
  · refine ⟨hJ.1, ?_⟩
    intro j w hw
    simp only [List.lookup_append] at hw
    cases hl : st.vb.lookup (PRef.out r0 j) with
    | some w' =>
      rw [hl] at hw
      simp only [Option.some_or, Option.some.injEq] at hw
      subst hw
      exact hJ.2 j w' hl
    | none =>
      rw [hl] at hw
      simp only [Option.none_or, List.lookup_cons, List.lookup_nil] at hw
      split at hw
      · rename_i heq
        have hpe : PRef.out r0 j = p := by simpa using heq
        cases hw
        exact hp j hpe.symm
      · cases hw

theorem producer_spec (g : Graph) (x : Name) (n : Node) (i : Nat) (h : producer g x = some (n, i)) :
    n ∈ g.nodes ∧ x ∈ n.outputs := by
  unfold producer at h
  obtain ⟨n', hn', he⟩ := List.exists_of_findSome?_eq_some h
  cases hi : n'.outputs.idxOf? x with
  | none => rw [hi] at he; cases he
  | some i' =>
    rw [hi] at he
    simp only [Option.map_some, Option.some.injEq, Prod.mk.injEq] at he
    obtain ⟨rfl, rfl⟩ := he
    refine ⟨hn', ?_⟩
    by_cases hc : x ∈ n'.outputs
    · exact hc
    exfalso
    have : n'.outputs.idxOf? x = none := by
      simp only [List.idxOf?, List.findIdx?_eq_none_iff]
      intro y hy
      apply Bool.eq_false_iff.mpr
      intro hyx
      have : y = x := by simpa using hyx
      exact hc (this ▸ hy)
    rw [this] at hi
    cases hi


theorem bindValue_nb (st st' : MSt) (p : PRef) (v : Option Name) (h : bindValue st p v = some st') :
    st'.nb = st.nb := by
  rcases bindValue_cases st st' p v h with rfl | ⟨_, rfl⟩ <;> rfl

theorem foldlM_bindValue_inv (r0 : Nat) (node : Node) (outs : List Name) (pi : Nat) :
    ∀ (js : List Nat) (st st' : MSt),
      (∀ j ∈ js, pi = r0 → ∃ x, outs[j]? = some x ∧ x ∈ node.outputs) →
      js.foldlM (fun st j => bindValue st (.out pi j) (outs[j]?)) st = some st' →
      RootInv r0 node st → RootInv r0 node st' := by
  intro js
  induction js with
  | nil => intro st st' _ h hJ; simp only [List.foldlM_nil] at h; cases h; exact hJ
  | cons j js ih =>
    intro st st' hjs h hJ
    simp only [List.foldlM_cons] at h
    cases hb : bindValue st (.out pi j) (outs[j]?) with
    | none => rw [hb] at h; cases h
    | some st1 =>
      rw [hb] at h
      refine ih st1 st' (fun j' hj' => hjs j' (List.mem_cons_of_mem _ hj')) h ?_
      refine bindValue_inv r0 node st st1 _ _ hb hJ ?_
      intro j' hpe
      have h1 : pi = r0 ∧ j = j' := by simpa using hpe
      exact hjs j (List.mem_cons_self ..) h1.1

theorem match_rootInv (g : Graph) (p : Pat) (r0 : Nat) (node : Node)
    (huid : ∀ n ∈ g.nodes, n.id = node.id → n.outputs = node.outputs) : ∀ f : Nat,
    (∀ st pi n st', matchNode g p f st pi n = some st' → RootInv r0 node st → RootInv r0 node st') ∧
    (∀ st l st', matchInputs g p f st l = some st' → RootInv r0 node st → RootInv r0 node st') ∧
    (∀ st v pr st', matchValue g p f st v pr = some st' → RootInv r0 node st → RootInv r0 node st') := by
  intro f
  induction f with
  | zero =>
    refine ⟨?_, ?_, ?_⟩
    · intro st pi n st' h; simp [matchNode] at h
    · intro st l st' h; simp [matchInputs] at h
    · intro st v pr st' h; simp [matchValue] at h
  | succ f ih =>
    obtain ⟨ihN, ihI, ihV⟩ := ih
    refine ⟨?_, ?_, ?_⟩
    · intro st pi n st' h hJ
      rw [matchNode] at h
      split at h
      · split at h
        · cases h; exact hJ
        · cases h
      · rename_i hl
        have hne : pi ≠ r0 := by
          intro he
          rw [he, hJ.1] at hl
          cases hl
        split at h
        · cases h
        · split at h
          · cases h
          · dsimp only at h
            split at h
            · cases h
            · split at h
              · cases h
              · rename_i st2 hin
                have hJ0 : RootInv r0 node
                    { st with nb := st.nb ++ [(pi, n.id)], nodes := st.nodes ++ [n.id] } := by
                  refine ⟨?_, hJ.2⟩
                  show (st.nb ++ [(pi, n.id)]).lookup r0 = some node.id
                  rw [List.lookup_append, hJ.1]
                  rfl
                have h2 := ihI _ _ _ hin hJ0
                split at h
                · cases h
                · exact foldlM_bindValue_inv r0 node _ pi _ _ _ (fun j _ he => absurd he hne) h h2
    · intro st l st' h hJ
      cases l with
      | nil => rw [matchInputs] at h; cases h; exact hJ
      | cons a rest =>
        obtain ⟨v, pr⟩ := a
        rw [matchInputs] at h
        split at h
        · cases h
        · rename_i st1 hv
          exact ihI _ _ _ h (ihV _ _ _ _ hv hJ)
    · intro st v pr st' h hJ
      cases pr with
      | none =>
        rw [matchValue] at h
        split at h
        · cases h; exact hJ
        · cases h
      | var k =>
        rw [matchValue] at h
        split at h
        · cases h
        · rename_i st1 hb
          split at h
          · cases h
          · cases h
            exact bindValue_inv r0 node st _ _ _ hb hJ (fun j he => by cases he)
      | out pj j =>
        cases v with
        | none => rw [matchValue] at h; cases h
        | some x =>
          rw [matchValue] at h
          split at h
          · cases h
          · split at h
            · cases h
            · rename_i st1 hb
              split at h
              · cases h
              · rename_i n i hprod
                split at h
                · cases h
                · by_cases hpj : pj = r0
                  · subst hpj
                    cases f with
                    | zero => simp [matchNode] at h
                    | succ f' =>
                      rw [matchNode] at h
                      have hnb : st1.nb.lookup pj = some node.id := by
                        rw [bindValue_nb _ _ _ _ hb]; exact hJ.1
                      rw [hnb] at h
                      dsimp only at h
                      split at h
                      · rename_i hid
                        cases h
                        have hid' : n.id = node.id := by
                          have : node.id = n.id := by simpa using hid
                          exact this.symm
                        obtain ⟨hng, hxn⟩ := producer_spec g x n i hprod
                        have hx : x ∈ node.outputs := huid n hng hid' ▸ hxn
                        exact bindValue_inv pj node st _ _ _ hb hJ (fun _ _ => ⟨x, rfl, hx⟩)
                      · cases h
                  · have hJ1 : RootInv r0 node st1 :=
                      bindValue_inv r0 node st _ _ _ hb hJ (fun j' he => by
                        have : pj = r0 ∧ j = j' := by simpa using he
                        exact absurd this.1 hpj)
                    exact ihN _ _ _ _ h hJ1


theorem matchNode_root_inv (g : Graph) (p : Pat) (r0 : Nat) (node : Node)
    (huid : ∀ n ∈ g.nodes, n.id = node.id → n.outputs = node.outputs) (f : Nat) (st1 : MSt)
    (h : matchNode g p f ({} : MSt) r0 node = some st1) : RootInv r0 node st1 := by
  cases f with
  | zero => simp [matchNode] at h
  | succ f =>
    rw [matchNode] at h
    split at h
    · rename_i nid hl
      cases hl
    · split at h
      · cases h
      · split at h
        · cases h
        · dsimp only at h
          split at h
          · cases h
          · split at h
            · cases h
            · rename_i pn _ _ _ _ st2 hin
              have hJ0 : RootInv r0 node
                  { ({} : MSt) with nb := ({} : MSt).nb ++ [(r0, node.id)], nodes := ({} : MSt).nodes ++ [node.id] } := by
                refine ⟨?_, ?_⟩
                · show ([] ++ [(r0, node.id)]).lookup r0 = some node.id
                  simp
                · intro j v hv
                  cases hv
              have h2 := (match_rootInv g p r0 node huid f).2.1 _ _ _ hin hJ0
              split at h
              · cases h
              · rename_i hlen
                refine foldlM_bindValue_inv r0 node _ r0 _ _ _ ?_ h h2
                intro j hj _
                have hj' : j < pn.nOut := List.mem_range.mp hj
                have hlt : j < node.outputs.length := by omega
                exact ⟨node.outputs[j], List.getElem?_eq_getElem hlt, List.getElem_mem hlt⟩

theorem foldlM_matchNode_rootInv (g : Graph) (p : Pat) (r0 : Nat) (node : Node)
    (huid : ∀ n ∈ g.nodes, n.id = node.id → n.outputs = node.outputs) (f : Nat)
    (F : MSt → Nat × Node → Option MSt) (hF : ∀ st x, F st x = matchNode g p f st x.1 x.2) :
    ∀ (combo : List (Nat × Node)) (st st' : MSt),
      combo.foldlM F st = some st' → RootInv r0 node st → RootInv r0 node st' := by
  intro combo
  induction combo with
  | nil => intro st st' h hJ; simp only [List.foldlM_nil] at h; cases h; exact hJ
  | cons a rest ih =>
    intro st st' h hJ
    simp only [List.foldlM_cons] at h
    cases hb : F st a with
    | none => rw [hb] at h; cases h
    | some st1 =>
      rw [hb] at h
      rw [hF] at hb
      exact ih st1 st' h ((match_rootInv g p r0 node huid f).1 _ _ _ _ hb hJ)

theorem mapM_option_mem {α β} (f : α → Option β) : ∀ (l : List α) (r : List β),
    l.mapM f = some r → ∀ y ∈ r, ∃ a ∈ l, f a = some y := by
  intro l
  induction l with
  | nil => intro r h y hy; simp only [List.mapM_nil] at h; cases h; cases hy
  | cons a l ih =>
    intro r h y hy
    simp only [List.mapM_cons] at h
    cases hfa : f a with
    | none => rw [hfa] at h; cases h
    | some b =>
      rw [hfa] at h
      cases hl : l.mapM f with
      | none => rw [hl] at h; cases h
      | some bs =>
        rw [hl] at h
        cases h
        rcases List.mem_cons.mp hy with rfl | hy'
        · exact ⟨a, List.mem_cons_self .., hfa⟩
        · obtain ⟨a', ha', hfa'⟩ := ih bs hl y hy'
          exact ⟨a', List.mem_cons_of_mem _ ha', hfa'⟩

/-- all pattern outputs come from the pattern's first output node ⇒ every value the match reports
as an output is an output of the graph node offered to it -/
theorem matchCombo_outs_at_root (g : Graph) (r : Rule) (ghost : List Name) (first : Nat) (node : Node)
    (rest : List (Nat × Node)) (st : MSt) (outs : List Name)
    (huid : ∀ n ∈ g.nodes, n.id = node.id → n.outputs = node.outputs)
    (hsingle : ∀ o ∈ r.pat.outputs, ∃ j, o = PRef.out first j)
    (h : matchCombo g r ghost ((first, node) :: rest) = some (st, outs)) : ∀ x ∈ outs, x ∈ node.outputs := by
  unfold matchCombo at h
  split at h
  · cases h
  · rename_i st0 hfold
    split at h
    · cases h
    · rename_i outs0 hmap
      have hso : st = st0 ∧ outs = outs0 := by
        dsimp only at h
        split at h
        · cases h
        · cases h; exact ⟨rfl, rfl⟩
      obtain ⟨rfl, rfl⟩ := hso
      simp only [List.foldlM_cons] at hfold
      cases hb : matchNode g r.pat 1000 ({} : MSt) first node with
      | none => rw [hb] at hfold; cases hfold
      | some st1 =>
        rw [hb] at hfold
        have h1 := matchNode_root_inv g r.pat first node huid 1000 st1 hb
        have hJ := foldlM_matchNode_rootInv g r.pat first node huid 1000 _ (fun st x => by cases x; rfl)
          rest st1 st hfold h1
        intro x hx
        obtain ⟨o, ho, hlo⟩ := mapM_option_mem _ _ _ hmap x hx
        obtain ⟨j, rfl⟩ := hsingle o ho
        cases hl : st.vb.lookup (PRef.out first j) with
        | none => rw [hl] at hlo; cases hlo
        | some v =>
          rw [hl] at hlo
          obtain ⟨x', rfl, hx'⟩ := hJ.2 j v hl
          simp only [Option.bind_some, id, Option.some.injEq] at hlo
          exact hlo ▸ hx'

/-- **OutputsAtRoot from the matcher**: for a pattern all of whose outputs are outputs of its first
output node (single-output-node patterns), on a graph where the id of `node` identifies its outputs,
every output of the match is an output of `node`. -/
theorem matchAt_outputs_at_root (g : Graph) (r : Rule) (node : Node) (ghost : List Name) (m : Match)
    (huid : ∀ n ∈ g.nodes, n.id = node.id → n.outputs = node.outputs)
    (hsingle : ∀ first, (outputNodes r.pat).head? = some first → ∀ o ∈ r.pat.outputs, ∃ j, o = PRef.out first j)
    (h : matchAt g r node ghost = some m) : ∀ x ∈ m.outputs, x ∈ node.outputs := by
  unfold matchAt at h
  split at h
  · cases h
  · rename_i first others hon
    dsimp only at h
    generalize hfs : List.findSome? (matchCombo g r ghost) _ = fs at h
    cases fs with
    | none => cases h
    | some so =>
      obtain ⟨st, outs⟩ := so
      obtain ⟨combo, hmem, hc⟩ := List.exists_of_findSome?_eq_some hfs
      obtain ⟨x, hx, t, hct⟩ := mem_product_cons _ _ _ hmem
      have hx' : x = (first, node) := by simpa using hx
      subst hct; subst hx'
      have hroot := matchCombo_outs_at_root g r ghost first node t st outs huid
        (hsingle first (by rw [hon]; rfl)) hc
      dsimp only at h
      split at h <;> split at h <;>
        first
        | (have h' := Option.some.inj h
           subst h'
           exact hroot)
        | cases h

end OV.C07
