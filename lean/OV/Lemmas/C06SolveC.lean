import OV.Lemmas.C06Solve
import OV.Lemmas.C06Complete
/-!
  C06 — the exhaustive search `solve` is complete: whenever some assignment makes the subgraph an
  instance (OR patterns included, any number of output nodes), `solve` returns a solution.
-/
namespace OV.C06

mutual
/-- no value-level checker inside the value pattern rejects -/
def VPat.checksOk : VPat → Bool
  | .var _ _ _ _ check => check != some false
  | .orB _ _ _ _ alts => checksOkL alts
  | _ => true
def checksOkL : List VPat → Bool
  | [] => true
  | a :: rest => a.checksOk && checksOkL rest
end

/-- no checker attached to the pattern rejects (checkers are opaque booleans) -/
def GPat.checksOk (p : GPat) : Bool :=
  p.nodes.all (fun n => n.check != some false &&
    n.inputs.all (fun i => match i with | some v => v.checksOk | none => true))

/-- the search state agrees with `A` -/
structure SAsub (a : SA) (A : Assign) : Prop where
  b : ∀ k x, (k, x) ∈ a.names → A.names k = some x
  v : ∀ k x, (k, x) ∈ a.leaf → A.leaf k = some x
  n : ∀ k x, (k, x) ∈ a.node → A.node k = some x

theorem bindName_complete (a : SA) (A : Assign) (k : String) (b : Bound) (h : SAsub a A)
    (hA : A.names k = some b) : ∃ a', a.bindName k b = some a' ∧ SAsub a' A := by
  unfold SA.bindName
  cases hl : a.names.lookup k with
  | some b' =>
    have : b' = b := by
      have := h.b k b' (lookup_mem_c _ _ _ hl)
      rw [hA] at this
      exact (Option.some.inj this).symm
    subst this
    exact ⟨a, by simp, h⟩
  | none =>
    refine ⟨_, rfl, ⟨fun k' x hx => ?_, h.v, h.n⟩⟩
    rcases mem_snoc _ _ _ hx with h1 | he
    · exact h.b _ _ h1
    · cases he; exact hA

theorem bindV_complete (p : GPat) (a : SA) (A : Assign) (vp : VPat) (v : Option ValueId)
    (h : SAsub a A) (hA : A.boundTo p vp v) : ∃ a', a.bindV p vp v = some a' ∧ SAsub a' A := by
  unfold SA.bindV
  unfold Assign.boundTo at hA
  rcases hn : p.vname vp with _ | nm <;> simp only [hn] at hA ⊢
  · rcases hk : vp.key with _ | k <;> simp only [hk] at hA ⊢
    · exact ⟨a, rfl, h⟩
    · cases hl : a.leaf.lookup k with
      | some v' =>
        have : v' = v := by
          have := h.v k v' (lookup_mem_c _ _ _ hl)
          rw [hA] at this
          exact (Option.some.inj this).symm
        subst this
        exact ⟨a, by simp, h⟩
      | none =>
        refine ⟨_, rfl, ⟨h.b, fun k' x hx => ?_, h.n⟩⟩
        rcases mem_snoc _ _ _ hx with h1 | he
        · exact h.v _ _ h1
        · cases he; exact hA
  · exact bindName_complete a A nm _ h hA

theorem bindTag_complete (tagVar : Option String) (t : Int) (a : SA) (A : Assign) (h : SAsub a A)
    (hA : ∀ tv, tagVar = some tv → A.names tv = some (.tag t)) :
    ∃ a', bindTag tagVar t a = some a' ∧ SAsub a' A := by
  unfold bindTag
  cases tagVar with
  | none => exact ⟨a, rfl, h⟩
  | some tv => exact bindName_complete a A tv _ h (hA tv rfl)

theorem solveAttrs_complete (n : GNode) (A : Assign) : ∀ (l : List (String × APat)) (a : SA),
    SAsub a A →
    (∀ name ap, (name, ap) ∈ l → attrOk n name ap ∧
      ∀ nm, ap.name = some nm → A.names nm = some (Bound.ofAttr (n.attr name))) →
    ∃ a', solveAttrs n l a = some a' ∧ SAsub a' A ∧ a'.node = a.node := by
  intro l
  induction l with
  | nil => intro a h _; exact ⟨a, rfl, h, rfl⟩
  | cons hd rest ih =>
    intro a h hall
    obtain ⟨name, ap⟩ := hd
    have h0 := hall name ap (List.mem_cons_self ..)
    have hrest : ∀ name ap, (name, ap) ∈ rest → attrOk n name ap ∧
        ∀ nm, ap.name = some nm → A.names nm = some (Bound.ofAttr (n.attr name)) :=
      fun name ap hm => hall name ap (List.mem_cons_of_mem _ hm)
    unfold solveAttrs
    have hbad : attrBad n name ap = false := by
      have := h0.1
      unfold attrOk at this
      unfold attrBad
      cases hx : n.attr name <;> simp_all
    simp only [hbad, Bool.false_eq_true, if_false]
    rcases hnm : ap.name with _ | nm <;> dsimp only
    · exact ih a h hrest
    · obtain ⟨a1, e1, s1⟩ := bindName_complete a A nm _ h (h0.2 nm hnm)
      have n1 := (bindName_spec a a1 nm _ e1).2.1
      simp only [e1]
      obtain ⟨a', e2, s2, n2⟩ := ih a1 s1 hrest
      exact ⟨a', e2, s2, n2.trans n1⟩

theorem solveOutputs_complete (p : GPat) (A : Assign) (np : NPId) (gouts : List ValueId) :
    ∀ (rest : List (Option String)) (i : Nat) (a : SA), SAsub a A →
      (∀ j, i ≤ j → j < i + rest.length → ∃ x, gouts[j]? = some x ∧ A.boundTo p (.out np j) (some x)) →
      ∃ a', solveOutputs p np gouts rest i a = some a' ∧ SAsub a' A := by
  intro rest
  induction rest with
  | nil => intro i a h _; exact ⟨a, rfl, h⟩
  | cons hd rest ih =>
    intro i a h hall
    unfold solveOutputs
    obtain ⟨x, hx, hb⟩ := hall i (Nat.le_refl _) (by simp)
    simp only [hx]
    obtain ⟨a1, e1, s1⟩ := bindV_complete p a A _ _ h hb
    simp only [e1]
    exact ih (i + 1) a1 s1 (fun j h1 h2 => hall j (by omega) (by simp only [List.length_cons]; omega))

/-- the recursive node solver finds an extension agreeing with `A` for every node pattern below `f`
that `A` satisfies -/
def NodeCS (E : Env) (A : Assign) (rec : NPId → NodeId → SA → List SA) (f : Nat) : Prop :=
  ∀ np n a, np < f → SatN E A np n → SAsub a A → ∃ a', a' ∈ rec np n a ∧ SAsub a' A

theorem solveOut_complete (E : Env) (A : Assign) (rec : NPId → NodeId → SA → List SA) (f : Nat)
    (hrec : NodeCS E A rec f) (np : NPId) (idx : Nat) (x : ValueId) (a : SA)
    (hs : SatV E A (.out np idx) (some x)) (h : SAsub a A) (hq : np < f) :
    ∃ a', a' ∈ solveOut E rec np idx x a ∧ SAsub a' A := by
  cases hs with
  | out _ _ _ n hb hf hp hi hn =>
    unfold solveOut
    simp only [hp, hi, bne_self_eq_false, Bool.false_eq_true, if_false]
    obtain ⟨a1, e1, s1⟩ := bindV_complete E.p a A _ _ h hb
    simp only [e1]
    exact hrec np n a1 hq hn s1

mutual
theorem solveV_complete (E : Env) (A : Assign) (rec : NPId → NodeId → SA → List SA) (f : Nat)
    (hrec : NodeCS E A rec f) : ∀ (vp : VPat) (v : Option ValueId) (a : SA),
      SatV E A vp v → SAsub a A → vp.checksOk = true → (∀ q ∈ vp.refs, q < f) →
      ∃ a', a' ∈ solveV E rec vp v a ∧ SAsub a' A
  | .any, v, a, _, h, _, _ => by
    unfold solveV
    have : crossGraphBad E.g .any v = false := by
      unfold crossGraphBad; cases v <;> simp [VPat.crossGraphOk]
    simp only [this, Bool.false_eq_true, if_false]
    exact ⟨a, by simp, h⟩
  | .var id name isVar canNone check, v, a, hs, h, hc, _ => by
    cases hs with
    | var _ _ _ _ _ _ hb h1 h2 =>
      unfold solveV
      have hcg : crossGraphBad E.g (.var id name isVar canNone check) v = false := by
        unfold crossGraphBad
        cases v with
        | none => rfl
        | some x =>
          cases hf : E.g.isForeign x with
          | false => simp [hf]
          | true => simp [VPat.crossGraphOk, h2 x rfl hf]
      have hck : (check == some false) = false := by
        simp only [VPat.checksOk] at hc
        simpa using hc
      have hnn : (v.isNone && !canNone) = false := by
        cases v with
        | none => simp [h1 rfl]
        | some x => simp
      simp only [hcg, hck, hnn, Bool.false_eq_true, if_false]
      obtain ⟨a1, e1, s1⟩ := bindV_complete E.p a A _ v h hb
      exact ⟨a1, by simp [e1], s1⟩
  | .const id c, v, a, hs, h, _, _ => by
    cases hs with
    | const _ _ x cv hb h1 h2 =>
      unfold solveV
      have hcg : crossGraphBad E.g (.const id c) (some x) = false := by
        simp [crossGraphBad, VPat.crossGraphOk]
      simp only [hcg, Bool.false_eq_true, if_false, h1, h2, if_true]
      obtain ⟨a1, e1, s1⟩ := bindV_complete E.p a A _ _ h hb
      exact ⟨a1, by simp [e1], s1⟩
  | .out np idx, v, a, hs, h, _, hq => by
    cases hs with
    | out _ _ x n hb hf hp hi hn =>
      unfold solveV
      have hcg : crossGraphBad E.g (.out np idx) (some x) = false := by
        simp [crossGraphBad, hf]
      simp only [hcg, Bool.false_eq_true, if_false]
      exact solveOut_complete E A rec f hrec np idx x a (.out np idx x n hb hf hp hi hn) h
        (hq np (by simp [VPat.refs]))
  | .orD id name tagVar alts, v, a, hs, h, _, hq => by
    cases hs with
    | orD _ _ _ _ x d hb hf hd hso ht =>
      unfold solveV
      have hcg : crossGraphBad E.g (.orD id name tagVar alts) (some x) = false := by
        simp [crossGraphBad, hf]
      simp only [hcg, Bool.false_eq_true, if_false, hd]
      obtain ⟨a1, e1, s1⟩ := bindV_complete E.p a A _ _ h hb
      simp only [e1]
      have hdm : d ∈ alts := by
        unfold getDispatch at hd
        split at hd
        · cases hd
        · split at hd
          · cases hd
          · exact List.mem_of_find?_eq_some hd
      obtain ⟨a2, m2, s2⟩ := solveOut_complete E A rec f hrec d.np d.idx x a1 hso s1
        (hq d.np (by simp only [VPat.refs, List.mem_map]; exact ⟨d, hdm, rfl⟩))
      obtain ⟨a3, e3, s3⟩ := bindTag_complete tagVar d.tag a2 A s2 ht
      exact ⟨a3, List.mem_filterMap.2 ⟨a2, m2, e3⟩, s3⟩
  | .orB id name tagVar tags alts, v, a, hs, h, hc, hq => by
    cases hs with
    | orB _ _ _ _ _ _ i alt hb hf hi hsa ht =>
      unfold solveV
      have hcg : crossGraphBad E.g (.orB id name tagVar tags alts) v = false := by
        unfold crossGraphBad
        cases v with
        | none => rfl
        | some x => simp [hf x rfl]
      simp only [hcg, Bool.false_eq_true, if_false]
      obtain ⟨a1, e1, s1⟩ := bindV_complete E.p a A _ _ h hb
      simp only [e1]
      exact solveAlts_complete E A rec f hrec alts tags tagVar v a1 i alt hi hsa ht s1
        (by simpa [VPat.checksOk] using hc) (fun q hq' => hq q (by simpa [VPat.refs] using hq'))
theorem solveAlts_complete (E : Env) (A : Assign) (rec : NPId → NodeId → SA → List SA) (f : Nat)
    (hrec : NodeCS E A rec f) : ∀ (alts : List VPat) (tags : List Int) (tagVar : Option String)
      (v : Option ValueId) (a : SA) (i : Nat) (alt : VPat),
      alts[i]? = some alt → SatV E A alt v →
      (∀ t, tagVar = some t → A.names t = some (.tag (tags.getD i 0))) →
      SAsub a A → checksOkL alts = true → (∀ q ∈ refsL alts, q < f) →
      ∃ a', a' ∈ solveAlts E rec alts tags tagVar v a ∧ SAsub a' A
  | [], _, _, _, _, i, _, hi, _, _, _, _, _ => by simp at hi
  | first :: rest, tags, tagVar, v, a, 0, alt, hi, hs, ht, h, hc, hq => by
    simp at hi
    subst hi
    unfold solveAlts
    simp only [checksOkL, Bool.and_eq_true] at hc
    obtain ⟨a1, m1, s1⟩ := solveV_complete E A rec f hrec first v a hs h hc.1
      (fun q hq' => hq q (by simp [refsL, hq']))
    obtain ⟨a2, e2, s2⟩ := bindTag_complete tagVar (tags.headD 0) a1 A s1
      (fun t e => by have := ht t e; cases tags <;> simpa using this)
    exact ⟨a2, List.mem_append_left _ (List.mem_filterMap.2 ⟨a1, m1, e2⟩), s2⟩
  | first :: rest, tags, tagVar, v, a, i + 1, alt, hi, hs, ht, h, hc, hq => by
    unfold solveAlts
    simp only [checksOkL, Bool.and_eq_true] at hc
    obtain ⟨a', m, s⟩ := solveAlts_complete E A rec f hrec rest tags.tail tagVar v a i alt
      (by simpa using hi) hs (fun t e => by rw [getD_tail]; exact ht t e) h hc.2
      (fun q hq' => hq q (by simp [refsL, hq']))
    exact ⟨a', List.mem_append_right _ m, s⟩
end

theorem checksOk_input {p : GPat} (h : p.checksOk = true) {np : NPId} {Pn : NPat}
    (hP : p.nodes[np]? = some Pn) : Pn.check ≠ some false ∧
      ∀ vp, some vp ∈ Pn.inputs → vp.checksOk = true := by
  unfold GPat.checksOk at h
  simp only [List.all_eq_true, Bool.and_eq_true] at h
  have h1 := h Pn (List.mem_of_getElem? hP)
  exact ⟨by simpa using h1.1, fun vp hm => h1.2 (some vp) hm⟩

theorem solveInputs_complete (E : Env) (A : Assign) (rec : NPId → NodeId → SA → List SA) (f : Nat)
    (hrec : NodeCS E A rec f) (n : GNode) :
    ∀ (ins : List (Option VPat)) (i : Nat) (a : SA), SAsub a A →
      (∀ j, ins[j]? = some none → inputAt n (i + j) = none) →
      (∀ j vp, ins[j]? = some (some vp) → SatV E A vp (inputAt n (i + j))) →
      (∀ vp, some vp ∈ ins → vp.checksOk = true ∧ ∀ q ∈ vp.refs, q < f) →
      ∃ a', a' ∈ solveInputs (solveV E rec) ins i n a ∧ SAsub a' A := by
  intro ins
  induction ins with
  | nil => intro i a h _ _ _; exact ⟨a, by simp [solveInputs], h⟩
  | cons hd rest ih =>
    intro i a h hnone hsome hwf
    have hnone' : ∀ j, rest[j]? = some none → inputAt n (i + 1 + j) = none := by
      intro j hj
      have := hnone (j + 1) (by simpa using hj)
      rw [show i + 1 + j = i + (j + 1) by omega]; exact this
    have hsome' : ∀ j vp, rest[j]? = some (some vp) → SatV E A vp (inputAt n (i + 1 + j)) := by
      intro j vp hj
      have := hsome (j + 1) vp (by simpa using hj)
      rw [show i + 1 + j = i + (j + 1) by omega]; exact this
    have hwf' : ∀ vp, some vp ∈ rest → vp.checksOk = true ∧ ∀ q ∈ vp.refs, q < f :=
      fun vp hm => hwf vp (List.mem_cons_of_mem _ hm)
    cases hd with
    | none =>
      unfold solveInputs
      have := hnone 0 rfl
      simp only [Nat.add_zero] at this
      simp only [this, Option.isNone_none, if_true]
      exact ih (i + 1) a h hnone' hsome' hwf'
    | some vp =>
      unfold solveInputs
      have hs := hsome 0 vp rfl
      simp only [Nat.add_zero] at hs
      obtain ⟨hc, hq⟩ := hwf vp (List.mem_cons_self ..)
      obtain ⟨a1, m1, s1⟩ := solveV_complete E A rec f hrec vp _ a hs h hc hq
      obtain ⟨a2, m2, s2⟩ := ih (i + 1) a1 s1 hnone' hsome' hwf'
      exact ⟨a2, List.mem_flatMap.2 ⟨a1, m1, m2⟩, s2⟩

theorem solveNodeStep_complete (E : Env) (A : Assign) (rec : NPId → NodeId → SA → List SA) (f : Nat)
    (hrec : NodeCS E A rec f) (htopo : E.p.topoDeep) (hchk : E.p.checksOk = true) :
    ∀ np n a, np ≤ f → SatN E A np n → SAsub a A →
      ∃ a', a' ∈ solveNodeStep E (solveV E rec) np n a ∧ SAsub a' A := by
  intro np n a hnf hs h
  cases hs with
  | mk _ _ P N hP hN hnode hop hdom hattrs hlen hnone hsome houts =>
    unfold solveNodeStep
    cases hl : a.node.lookup np with
    | some m =>
      have : m = n := by
        have := h.n np m (lookup_mem_c _ _ _ hl)
        rw [hnode] at this
        exact (Option.some.inj this).symm
      subst this
      exact ⟨a, by simp, h⟩
    | none =>
      simp only [hP, hN]
      obtain ⟨hck, hin⟩ := checksOk_input hchk hP
      have h1 : (P.check == some false) = false := by simpa using hck
      have h2 : (!P.op.matches N.op || !P.domain.matches N.domain) = false := by simp [hop, hdom]
      have h3 : (!P.allowOtherAttrs && N.attrs.any fun x => !P.attrs.any fun kv => kv.1 == x.name) = false := by
        by_cases hao : P.allowOtherAttrs = true
        · simp [hao]
        · have hao' : P.allowOtherAttrs = false := by simpa using hao
          have : (N.attrs.any fun x => !P.attrs.any fun kv => kv.1 == x.name) = false := by
            simp only [List.any_eq_false, Bool.not_eq_true', Bool.not_eq_false]
            intro x hx
            obtain ⟨ap, hap⟩ := hattrs.2 hao' x hx
            intro hall
            exact hall (x.name, ap) hap (by simp)
          simp [hao', this]
      have h4 : (decide (N.inputs.length > P.inputs.length) && !P.allowOtherInputs) = false := by
        rcases hlen with hl' | hl'
        · have : ¬ N.inputs.length > P.inputs.length := by omega
          simp [this]
        · simp [hl']
      simp only [h1, h2, h3, h4, Bool.false_eq_true, if_false]
      obtain ⟨a1, e1, s1, n1⟩ := solveAttrs_complete N A P.attrs a h hattrs.1
      simp only [e1]
      have s2 : SAsub { a1 with node := a1.node ++ [(np, n)] } A :=
        ⟨s1.b, s1.v, fun k x hx => by
          rcases mem_snoc _ _ _ hx with h1 | he
          · exact s1.n _ _ h1
          · cases he; exact hnode⟩
      obtain ⟨a3, m3, s3⟩ := solveInputs_complete E A rec f hrec N P.inputs 0 _ s2
        (fun j hj => by simpa using hnone j hj)
        (fun j vp hj => by simpa using hsome j vp hj)
        (fun vp hm => ⟨hin vp hm, fun q hq => Nat.lt_of_lt_of_le (htopo np P hP vp hm q hq) hnf⟩)
      obtain ⟨a4, e4, s4⟩ := solveOutputs_complete E.p A np N.outputs P.outputs 0 a3 s3
        (fun j _ hj => houts j (by omega))
      exact ⟨a4, List.mem_filterMap.2 ⟨a3, m3, e4⟩, s4⟩

theorem solveN_complete (E : Env) (A : Assign) (htopo : E.p.topoDeep) (hchk : E.p.checksOk = true) :
    ∀ f, NodeCS E A (solveN E f) f
  | 0 => fun _ _ _ h => absurd h (Nat.not_lt_zero _)
  | f + 1 => by
    intro np n a hlt hs h
    have ih := solveN_complete E A htopo hchk f
    unfold solveN
    exact solveNodeStep_complete E A (solveN E f) f ih htopo hchk np n a (by omega) hs h

theorem satN_bounds {E : Env} {A : Assign} {np : NPId} {n : NodeId} (h : SatN E A np n) :
    np < E.p.nodes.length ∧ n < E.g.nodes.length := by
  cases h with
  | mk _ _ P N hP hN =>
    constructor
    · rcases Nat.lt_or_ge np E.p.nodes.length with h | h
      · exact h
      · simp [List.getElem?_eq_none h] at hP
    · rcases Nat.lt_or_ge n E.g.nodes.length with h | h
      · exact h
      · simp [List.getElem?_eq_none h] at hN

theorem solveOutNodes_complete (E : Env) (A : Assign) (htopo : E.p.topoDeep)
    (hchk : E.p.checksOk = true) : ∀ (l : List NPId) (a : SA), SAsub a A →
    (∀ np ∈ l, ∃ n, SatN E A np n) → ∃ a', a' ∈ solveOutNodes E l a ∧ SAsub a' A := by
  intro l
  induction l with
  | nil => intro a h _; exact ⟨a, by simp [solveOutNodes], h⟩
  | cons np rest ih =>
    intro a h hall
    obtain ⟨n, hn⟩ := hall np (List.mem_cons_self ..)
    obtain ⟨hb1, hb2⟩ := satN_bounds hn
    obtain ⟨a1, m1, s1⟩ := solveN_complete E A htopo hchk E.p.fuel np n a
      (Nat.lt_succ_of_lt hb1) hn h
    obtain ⟨a2, m2, s2⟩ := ih a1 s1 (fun np' hm => hall np' (List.mem_cons_of_mem _ hm))
    unfold solveOutNodes
    exact ⟨a2, List.mem_flatMap.2 ⟨n, List.mem_range.2 hb2, List.mem_flatMap.2 ⟨a1, m1, m2⟩⟩, s2⟩

/-- every pattern output is an output of one of the pattern's output nodes -/
def OutputsOfOutputNodes (p : GPat) : Prop :=
  ∀ vp ∈ p.outputs, ∃ q idx P, vp = .out q idx ∧ q ∈ p.outputNodes ∧ p.nodes[q]? = some P ∧
    idx < P.outputs.length

theorem solve_complete_core (E : Env) (root : NodeId) (A : Assign) (htopo : E.p.topoDeep)
    (hchk : E.p.checksOk = true) (houts : OutputsOfOutputNodes E.p) (hinst : Instance E root A) :
    ∃ s, s ∈ solve E root false ∧
      (Removable E.g s.nodes s.outputs → s ∈ solve E root true) := by
  have s0 : SAsub ({} : SA) A :=
    ⟨fun _ _ h => by simp at h, fun _ _ h => by simp at h, fun _ _ h => by simp at h⟩
  have hstart : ∃ a, a ∈ solveStarts E root ∧ SAsub a A := by
    unfold solveStarts
    cases hon : E.p.outputNodes with
    | nil => exact ⟨{}, by simp, s0⟩
    | cons np rest =>
      dsimp only
      obtain ⟨n, hn, hs⟩ := hinst.outNodes np (by simp [hon])
      have hr := hinst.rootNode np (by simp [hon])
      rw [hr] at hn
      cases hn
      obtain ⟨hb1, _⟩ := satN_bounds hs
      obtain ⟨a1, m1, s1⟩ := solveN_complete E A htopo hchk E.p.fuel np root {}
        (Nat.lt_succ_of_lt hb1) hs s0
      obtain ⟨a2, m2, s2⟩ := solveOutNodes_complete E A htopo hchk rest a1 s1
        (fun np' hm => by
          obtain ⟨n', _, hs'⟩ := hinst.outNodes np' (by simp [hon, hm])
          exact ⟨n', hs'⟩)
      exact ⟨a2, List.mem_flatMap.2 ⟨a1, m1, m2⟩, s2⟩
  obtain ⟨a, ha, _⟩ := hstart
  obtain ⟨r1, _⟩ := solveStarts_spec E root htopo a ha
  have hbound : ∀ vp ∈ E.p.outputs, ∃ y, a.assign.outputOf E.p vp = some y := by
    intro vp hvp
    obtain ⟨q, idx, P, rfl, hq, hP, hidx⟩ := houts vp hvp
    obtain ⟨n, _, hs⟩ := r1 q hq
    cases hs with
    | mk _ _ P' N hP' hN _ _ _ _ _ _ _ hout =>
      rw [hP] at hP'
      cases hP'
      obtain ⟨x, _, hx⟩ := hout idx hidx
      exact ⟨_, boundTo_outputOf _ _ _ _ _ hx⟩
  obtain ⟨outs, ho⟩ := mapM_some _ _ hbound
  have hcond : (!E.p.cond) = false := by simp [hinst.cond]
  refine ⟨{ names := bindInputs E.p.inputs a.names, outputs := outs, nodes := a.matched }, ?_, ?_⟩
  · unfold solve
    simp only [hcond, Bool.false_eq_true, if_false, List.mem_filterMap]
    exact ⟨a, ha, by unfold finishSol; simp [ho]⟩
  · intro hrem
    have hv := removable_validToReplace _ _ _ hrem
    unfold solve
    simp only [hcond, Bool.false_eq_true, if_false, List.mem_filterMap]
    refine ⟨a, ha, ?_⟩
    unfold finishSol
    simp only [ho]
    simp only [hv, Bool.not_true, Bool.and_false, Bool.false_eq_true, if_false]

end OV.C06
