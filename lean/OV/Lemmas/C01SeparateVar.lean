import OV.Lemmas.C01Separate
/-! `separate_input_attributes_from_arguments` on signatures with one variadic input (Sum, Max, Concat, …). -/
namespace OV.C01.Eager
open OV.C01

theorem countTrail_append_some {A} (v : A) : ∀ (l1 l2 : List (Option A)),
    countTrail (l1 ++ some v :: l2) = countTrail (some v :: l2)
  | [], _ => rfl
  | x :: xs, l2 => by
    have ih := countTrail_append_some v xs l2
    have hle := countTrail_le l2
    simp only [List.cons_append, countTrail, List.length_append, List.length_cons, Option.isNone_some,
      Bool.false_eq_true, and_false, if_false] at ih ⊢
    rw [ih]
    have : ¬ (countTrail l2 = xs.length + (l2.length + 1)) := by omega
    simp [this]

theorem trailAfter_append {A} : ∀ (l1 l2 : List (Option A)) (k : Nat),
    trailAfter (trailAfter k l1) l2 = trailAfter k (l1 ++ l2)
  | [], l2, k => by simp [trailAfter, countTrail]
  | none :: xs, l2, k => by
    rw [← trailAfter_cons_none, List.cons_append, ← trailAfter_cons_none, trailAfter_append xs l2 (k + 1)]
  | some v :: xs, l2, k => by
    rw [← trailAfter_cons_some k v, List.cons_append, ← trailAfter_cons_some k v, trailAfter_append xs l2 0]

theorem sepLoop_append {A} (d : SigParam → A) (kw : List (Name × A)) (args : List A) :
    ∀ (pre rest : List SigParam) (i : Nat) (st : Sep A), noVariadic pre = true → requiredGiven kw args i pre = true →
      sepLoop false d kw i args (pre ++ rest) st =
        sepLoop false d kw (i + pre.length) args rest
          { inputs := st.inputs ++ inputSlots kw args i pre,
            trailing := trailAfter st.trailing (inputSlots kw args i pre),
            attrs := st.attrs ++ attrSlots kw args i pre,
            hasVariadic := st.hasVariadic }
  | [], rest, i, st, _, _ => by
    simp [inputSlots, attrSlots, trailAfter, countTrail]
  | p :: ps, rest, i, st, hv, hr => by
    simp only [noVariadic, Bool.and_eq_true, Bool.not_eq_true'] at hv
    simp only [requiredGiven, Bool.and_eq_true, Bool.or_eq_true, Bool.not_eq_true'] at hr
    obtain ⟨hreq, hrest⟩ := hr
    rw [List.cons_append]
    conv => lhs; unfold sepLoop
    simp only [hv.1, Bool.false_eq_true, if_false]
    have hidx : i + 1 + ps.length = i + (p :: ps).length := by simp; omega
    cases hg : given kw args i p with
    | some v =>
      cases hin : p.isInput with
      | true =>
        simp only [if_true]
        rw [sepLoop_append d kw args ps rest (i + 1) _ hv.2 hrest, hidx]
        simp only [inputSlots, attrSlots, hin, if_true, hg, List.append_assoc, List.singleton_append,
          ← trailAfter_cons_some st.trailing v]
      | false =>
        simp only [Bool.false_eq_true, if_false]
        rw [sepLoop_append d kw args ps rest (i + 1) _ hv.2 hrest, hidx]
        simp only [inputSlots, attrSlots, hin, Bool.false_eq_true, if_false, hg, List.append_assoc, List.singleton_append]
    | none =>
      simp only [hg, Option.isSome_none, Bool.false_eq_true, false_or] at hreq
      cases hin : p.isInput with
      | true =>
        have hreq' : p.required = false := by simpa [hin] using hreq
        simp only [Bool.not_true, Bool.false_and, Bool.false_eq_true, if_false, hreq', if_true]
        rw [sepLoop_append d kw args ps rest (i + 1) _ hv.2 hrest, hidx]
        simp only [inputSlots, attrSlots, hin, if_true, hg, List.append_assoc, List.singleton_append,
          trailAfter_cons_none]
      | false =>
        cases hd : p.hasDefault with
        | true =>
          simp only [Bool.not_false, Bool.true_and, if_true, Bool.false_eq_true, if_false]
          rw [sepLoop_append d kw args ps rest (i + 1) _ hv.2 hrest, hidx]
          simp only [inputSlots, attrSlots, hin, Bool.false_eq_true, if_false, hg]
        | false =>
          have hreq' : p.required = false := by simpa [hin, hd] using hreq
          simp only [Bool.not_false, Bool.true_and, Bool.false_eq_true, if_false, hreq']
          rw [sepLoop_append d kw args ps rest (i + 1) _ hv.2 hrest, hidx]
          simp only [inputSlots, attrSlots, hin, Bool.false_eq_true, if_false, hg]

/-- closed form of the final counter: dropping `trailAfter 0 l` entries from the end is `trimNone` -/
theorem take_trailAfter {A} (l : List (Option A)) : l.take (l.length - trailAfter 0 l) = trimNone l := by
  simp only [trimNone, trailAfter]
  by_cases h : countTrail l = l.length <;> simp [h]

theorem trailAfter_var {A} (vs : List A) (l2 : List (Option A)) (hvs : vs ≠ []) (l1 : List (Option A)) :
    trailAfter 0 l2 = trailAfter 0 (l1 ++ vs.map some ++ l2) := by
  obtain ⟨ws, w, rfl⟩ : ∃ ws w, vs = ws ++ [w] := by
    rcases List.eq_nil_or_concat vs with h | ⟨ws, w, h⟩
    · exact absurd h hvs
    · exact ⟨ws, w, by simpa using h⟩
  have hle := countTrail_le l2
  have : l1 ++ (ws ++ [w]).map some ++ l2 = (l1 ++ ws.map some) ++ some w :: l2 := by simp
  rw [this]
  simp only [trailAfter, countTrail_append_some, countTrail, Option.isNone_some, Bool.false_eq_true, and_false,
    if_false, List.length_append, List.length_cons, List.length_map, Nat.zero_add]
  by_cases h : countTrail l2 = l2.length
  · simp [h]
  · have h2 : ¬ (countTrail l2 = l1.length + ws.length + (l2.length + 1)) := by omega
    simp [h, h2]

/-- one variadic input `p` between a non-variadic prefix and a non-variadic rest -/
theorem separate_variadic {A} (allowExtraKw allowExtraArgs : Bool) (d : SigParam → A) (pre post : List SigParam)
    (p : SigParam) (args : List A) (kw : List (Name × A)) (hp : (p.isInput && p.variadic) = true)
    (hpre : noVariadic pre = true) (hpost : noVariadic post = true)
    (hr1 : requiredGiven kw args 0 pre = true) (hr2 : requiredGiven kw [] (pre.length + 1) post = true)
    (hk : kw.any (fun e => !((pre ++ p :: post).any (fun q => q.name = e.1))) = false ∨ allowExtraKw = true) :
    separate false allowExtraKw allowExtraArgs d (pre ++ p :: post) args kw =
      .ok (trimNone (inputSlots kw args 0 pre ++ (args.drop pre.length).map some ++ inputSlots kw [] (pre.length + 1) post),
           attrSlots kw args 0 pre ++ attrSlots kw [] (pre.length + 1) post) := by
  have hc : (kw.any (fun e => !((pre ++ p :: post).any (fun q => q.name = e.1))) && !allowExtraKw) = false := by
    rcases hk with h | h
    · rw [h]; rfl
    · rw [h]; simp
  simp only [separate, hc, Bool.false_eq_true, if_false]
  rw [sepLoop_append d kw args pre (p :: post) 0 _ hpre hr1]
  unfold sepLoop
  simp only [hp, if_true, Nat.zero_add, List.nil_append]
  rw [sepLoop_spec d kw [] post (pre.length + 1) _ hpost hr2]
  simp only [Bool.not_true, Bool.and_false, Bool.false_and, Bool.false_eq_true, if_false, Except.ok.injEq, Prod.mk.injEq,
    and_true]
  by_cases he : (args.drop pre.length).isEmpty = true
  · have he' : args.drop pre.length = [] := List.isEmpty_iff.mp he
    simp only [he', List.map_nil, List.append_nil, List.isEmpty_nil, if_true, trailAfter_append]
    exact take_trailAfter _
  · have he' : args.drop pre.length ≠ [] := fun h => he (by simp [h])
    simp only [he, Bool.false_eq_true, if_false]
    rw [trailAfter_var (args.drop pre.length) _ he' (inputSlots kw args 0 pre)]
    exact take_trailAfter _

end OV.C01.Eager
