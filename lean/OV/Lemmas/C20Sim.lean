import OV.Model.C20Save
import OV.Lemmas.C20Save
/-!
# C20 — one-sided simulation between two runs of the save

`er ek ecb` erases the fault plan (`ek`) and/or the progress-callback log (`ecb`) of a state.  `Sim ek ecb f g`: whenever
`f` returns normally from `s`, `g` returns the same value from the erased state and ends in the erased end state.
Instances: (`ek`) a run that returns normally under a fault plan *is* the fault-free run; (`ecb`) the verbose/tqdm branch
and the plain branch differ only in the callback log.
-/
namespace OV.C20
set_option linter.unusedSectionVars false
set_option linter.unusedVariables false
set_option linter.unusedSimpArgs false

def er (ek ecb : Bool) (s : St) : St :=
  { s with k := if ek then none else s.k, cb := if ecb then [] else s.cb, cbTotal := if ecb then none else s.cbTotal }

def Sim (ek ecb : Bool) (f g : M α) : Prop := ∀ s a s', f s = (.ok a, s') → g (er ek ecb s) = (.ok a, er ek ecb s')

variable {ek ecb : Bool}

theorem sim_pure (a : α) : Sim ek ecb (pure a : M α) (pure a) := by
  intro s b s' h; cases h; rfl

theorem sim_throw (e : Err) (g : M α) : Sim ek ecb (throw e : M α) g := by
  intro s b s' h; cases h

theorem sim_bind {f1 f2 : M α} {g1 g2 : α → M β} (hf : Sim ek ecb f1 f2) (hg : ∀ a, Sim ek ecb (g1 a) (g2 a)) :
    Sim ek ecb (f1 >>= g1) (f2 >>= g2) := by
  intro s b s' h
  change M.bind f1 g1 s = _ at h
  show M.bind f2 g2 _ = _
  unfold M.bind at h ⊢
  cases hfs : f1 s with
  | mk r s1 =>
    rw [hfs] at h
    cases r with
    | ok a => rw [hf s a s1 hfs]; exact hg a s1 b s' h
    | error e => cases h

/-- `get >>= …`: the continuation may look at the state it is handed, erased on the right-hand side. -/
theorem sim_get_bind {g1 g2 : St → M β} (hg : ∀ s0, Sim ek ecb (g1 s0) (g2 (er ek ecb s0))) :
    Sim ek ecb (get >>= g1) (get >>= g2) := by
  intro s b s' h
  change M.bind get g1 s = _ at h
  show M.bind get g2 _ = _
  simp only [M.bind, get] at h ⊢
  exact hg s s b s' h

theorem sim_modify {g1 g2 : St → St} (h : ∀ s, g2 (er ek ecb s) = er ek ecb (g1 s)) : Sim ek ecb (modify g1) (modify g2) := by
  intro s b s' hh
  cases hh
  show (Except.ok (), g2 (er ek ecb s)) = _
  rw [h]

theorem sim_tick (op : Op) : Sim ek ecb (tick op) (tick op) := by
  intro s b s' h
  unfold tick at h ⊢
  by_cases hk : s.k = some s.calls
  · simp only [hk, if_true] at h; cases h
  · simp only [hk, if_false] at h
    cases h
    have : ¬ ((er ek ecb s).k = some (er ek ecb s).calls) := by
      unfold er
      cases ek <;> simp [hk]
    simp only [this, if_false]
    rfl

theorem sim_tryFinally {b1 b2 : M α} {fin1 fin2 : St → St} (hb : Sim ek ecb b1 b2)
    (hf : ∀ s, fin2 (er ek ecb s) = er ek ecb (fin1 s)) : Sim ek ecb (tryFinally b1 fin1) (tryFinally b2 fin2) := by
  intro s b s' h
  unfold tryFinally at h ⊢
  cases hbs : b1 s with
  | mk r s1 =>
    rw [hbs] at h
    simp only [Prod.mk.injEq] at h
    obtain ⟨rfl, rfl⟩ := h
    rw [hb s b s1 hbs]
    simp only [hf]

theorem sim_withClose {b1 b2 : M α} (f : String) (hb : Sim ek ecb b1 b2) :
    Sim ek ecb (withClose f b1) (withClose f b2) := by
  intro s b s' h
  unfold withClose at h ⊢
  cases hbs : b1 s with
  | mk r s1 =>
    rw [hbs] at h
    cases r with
    | ok a =>
      simp only [] at h
      rw [hb s a s1 hbs]
      simp only []
      cases ht : tick (.close f) s1 with
      | mk r2 s2 =>
        rw [ht] at h
        cases r2 with
        | ok u =>
          simp only [Prod.mk.injEq, Except.ok.injEq] at h
          obtain ⟨rfl, rfl⟩ := h
          rw [sim_tick _ s1 u s2 ht]
        | error e => cases h
    | error e =>
      simp only [] at h
      cases ht : tick (.close f) s1 with
      | mk r2 s2 => rw [ht] at h; cases r2 <;> cases h

theorem sim_mapM' {f1 f2 : α → M β} (hf : ∀ a, Sim ek ecb (f1 a) (f2 a)) : ∀ l, Sim ek ecb (mapM' f1 l) (mapM' f2 l)
  | [] => sim_pure _
  | a :: as => by
    unfold mapM'
    exact sim_bind (hf a) (fun _ => sim_bind (sim_mapM' hf as) (fun _ => sim_pure _))

theorem sim_forM' {f1 f2 : α → M Unit} (hf : ∀ a, Sim ek ecb (f1 a) (f2 a)) : ∀ l, Sim ek ecb (forM' f1 l) (forM' f2 l)
  | [] => sim_pure _
  | a :: as => by
    unfold forM'
    exact sim_bind (hf a) (fun _ => sim_forM' hf as)

theorem sim_needHandle (f : String) : Sim ek ecb (needHandle f) (needHandle f) := by
  intro s b s' h
  unfold needHandle at h ⊢
  show (if (er ek ecb s).wopened.contains f = true then _ else _) = _
  have : (er ek ecb s).wopened = s.wopened := rfl
  rw [this]
  split at h
  · rename_i hc
    cases h
    simp only [hc, if_true]
  · cases h

theorem sim_fsOpenW (f : String) : Sim ek ecb (fsOpenW f) (fsOpenW f) := by
  unfold fsOpenW
  exact sim_bind (sim_tick _) (fun _ => sim_modify (fun _ => rfl))

theorem sim_fsWrite (f : String) (b : Bytes) : Sim ek ecb (fsWrite f b) (fsWrite f b) := by
  unfold fsWrite
  exact sim_bind (sim_needHandle f) (fun _ => sim_bind (sim_tick _) (fun _ => sim_modify (fun _ => rfl)))

theorem sim_fsCWrite (f : String) (b : Bytes) : Sim ek ecb (fsCWrite f b) (fsCWrite f b) := by
  unfold fsCWrite
  exact sim_bind (sim_needHandle f) (fun _ => sim_modify (fun _ => rfl))

theorem sim_fsWriteProto (f : String) (p : Proto) : Sim ek ecb (fsWriteProto f p) (fsWriteProto f p) := by
  unfold fsWriteProto
  exact sim_bind (sim_needHandle f) (fun _ => sim_bind (sim_tick _) (fun _ => sim_modify (fun _ => rfl)))

theorem sim_fsOpenR (f : String) : Sim ek ecb (fsOpenR f) (fsOpenR f) := by
  unfold fsOpenR
  refine sim_bind (sim_tick _) (fun _ => sim_get_bind (fun s0 => ?_))
  show Sim ek ecb _ (match s0.fs.get? f with
    | some (.data b) => pure b
    | some (.proto _) => throw .valueError
    | none => throw .osError)
  generalize s0.fs.get? f = x
  rcases x with _ | (b | p)
  · exact sim_throw _ _
  · exact sim_pure _
  · exact sim_throw _ _

theorem sim_fileLen (f : String) : Sim ek ecb (fileLen f) (fileLen f) := by
  unfold fileLen
  refine sim_get_bind (fun s0 => ?_)
  show Sim ek ecb _ (match s0.fs.get? f with
    | some (.data b) => pure b.length
    | _ => pure 0)
  generalize s0.fs.get? f = x
  rcases x with _ | (b | p) <;> exact sim_pure _

theorem sim_newObj (t : TRef) : Sim ek ecb (newObj t) (newObj t) := by
  intro s b s' h
  unfold newObj at h ⊢
  cases h
  rfl

theorem sim_getObj (id : Nat) : Sim ek ecb (getObj id) (getObj id) := by
  unfold getObj
  refine sim_get_bind (fun s0 => ?_)
  show Sim ek ecb _ (match s0.heap[id]? with
    | some t => pure t
    | none => throw .typeError)
  generalize s0.heap[id]? = x
  rcases x with _ | t
  · exact sim_throw _ _
  · exact sim_pure _

theorem sim_skip_left {g1 : St → St} {r1 r2 : M β} (h : ∀ s, er ek ecb (g1 s) = er ek ecb s) (hr : Sim ek ecb r1 r2) :
    Sim ek ecb (modify g1 >>= fun _ => r1) r2 := by
  intro s b s' hh
  change M.bind (modify g1) _ s = _ at hh
  simp only [M.bind, modify] at hh
  have := hr (g1 s) b s' hh
  rw [h] at this
  exact this

theorem sim_extToMem (id : Nat) : Sim ek ecb (extToMem id) (extToMem id) := by
  unfold extToMem
  refine sim_bind (sim_getObj id) (fun t => ?_)
  cases t with
  | mem b np => exact sim_throw _ _
  | ext f off len valid =>
    simp only []
    cases valid with
    | false => exact sim_throw _ _
    | true =>
      simp only [Bool.not_true, Bool.false_eq_true, if_false]
      by_cases h0 : len = 0
      · simp only [h0, if_true]; exact sim_newObj _
      · simp only [h0, if_false]
        refine sim_bind (sim_fsOpenR f) (fun whole => ?_)
        refine sim_bind (sim_withClose f ?_) (fun _ => ?_)
        · by_cases hw : whole.length = 0
          · simp only [hw, if_true]; exact sim_throw _ _
          · simp only [hw, if_false]; exact sim_pure _
        · by_cases hin : off + len ≤ whole.length
          · simp only [hin, if_true]; exact sim_newObj _
          · simp only [hin, if_false]; exact sim_throw _ _

theorem sim_materializeOne (dest : String) (e : Bool) (p : String × Nat) :
    Sim ek ecb (materializeOne dest e p) (materializeOne dest e p) := by
  unfold materializeOne
  cases e with
  | false => exact sim_pure _
  | true =>
    simp only [Bool.not_true, Bool.false_eq_true, if_false]
    refine sim_bind (sim_getObj _) (fun t => ?_)
    cases t with
    | mem b np => exact sim_pure _
    | ext f o l v =>
      simp only []
      by_cases hf : f = dest
      · simp only [hf, if_true]
        refine sim_bind (sim_extToMem _) (fun nid => ?_)
        refine sim_bind ?_ (fun _ => sim_pure _)
        unfold invalidate
        exact sim_modify (fun _ => rfl)
      · simp only [hf, if_false]; exact sim_pure _

theorem sim_tofile (dest : String) (id : Nat) : Sim ek ecb (tofile dest id) (tofile dest id) := by
  unfold tofile
  refine sim_bind (sim_getObj id) (fun t => ?_)
  cases t with
  | mem b np =>
    cases np with
    | true =>
      simp only []
      refine sim_bind (sim_tick _) (fun _ => ?_)
      refine sim_bind (sim_fsCWrite _ _) (fun _ => ?_)
      exact sim_bind (sim_fileLen _) (fun _ => sim_tick _)
    | false => exact sim_fsWrite _ _
  | ext f off len valid =>
    simp only []
    cases valid with
    | false => exact sim_throw _ _
    | true =>
      simp only [Bool.not_true, Bool.false_eq_true, if_false]
      refine sim_bind (sim_fsOpenR f) (fun whole => ?_)
      apply sim_withClose
      refine sim_bind (sim_tick _) (fun _ => ?_)
      refine sim_bind (sim_forM' (fun c => ?_) _) (fun _ => ?_)
      · exact sim_bind (sim_tick _) (fun _ => sim_fsWrite _ _)
      · by_cases hs : (slice whole off len).length < len
        · simp only [hs, if_true]; exact sim_bind (sim_tick _) (fun _ => sim_throw _ _)
        · simp only [hs, if_false]; exact sim_pure _

/-- Admissible pairs of verbosity: the same on both sides when the callback log is kept, silent on the right when it is
erased. -/
def VP (ecb v1 v2 : Bool) : Prop := (ecb = false ∧ v2 = v1) ∨ (ecb = true ∧ v2 = false)

theorem sim_writeOne (dest : String) (v1 v2 : Bool) (hv : VP ecb v1 v2) (item : String × Nat × Nat) :
    Sim ek ecb (writeOne dest v1 item) (writeOne dest v2 item) := by
  unfold writeOne
  obtain ⟨name, id, off⟩ := item
  simp only []
  have rest : Sim ek ecb (do
      let size ← fileLen dest
      if off > size then do
          fsWrite dest (zeros (off - size))
          tofile dest id
        else tofile dest id) (do
      let size ← fileLen dest
      if off > size then do
          fsWrite dest (zeros (off - size))
          tofile dest id
        else tofile dest id) := by
    refine sim_bind (sim_fileLen _) (fun size => ?_)
    by_cases hp : off > size
    · simp only [hp, if_true]; exact sim_bind (sim_fsWrite _ _) (fun _ => sim_tofile dest id)
    · simp only [hp, if_false]; exact sim_tofile dest id
  rcases hv with ⟨he, rfl⟩ | ⟨he, rfl⟩
  · subst he
    cases v2 with
    | false => simpa using rest
    | true =>
      simp only [if_true]
      exact sim_bind (sim_modify (fun _ => rfl)) (fun _ => rest)
  · subst he
    cases v1 with
    | false => simpa using rest
    | true =>
      simp only [if_true, Bool.false_eq_true, if_false]
      exact sim_skip_left (fun _ => rfl) rest

theorem sim_writeExternalData (dest : String) (v1 v2 : Bool) (hv : VP ecb v1 v2) (items : List (String × Nat × Nat)) :
    Sim ek ecb (writeExternalData dest v1 items) (writeExternalData dest v2 items) := by
  unfold writeExternalData
  refine sim_bind (sim_fsOpenW _) (fun _ => ?_)
  apply sim_withClose
  have loop := sim_forM' (fun it => sim_writeOne (ek := ek) dest v1 v2 hv it) items
  rcases hv with ⟨he, rfl⟩ | ⟨he, rfl⟩
  · subst he
    by_cases hc : (v2 && !items.isEmpty) = true
    · simp only [hc, if_true]
      exact sim_bind (sim_modify (fun _ => rfl)) (fun _ => loop)
    · simp only [hc, if_false]; exact loop
  · subst he
    simp only [Bool.false_and, Bool.false_eq_true, if_false]
    by_cases hc : (v1 && !items.isEmpty) = true
    · simp only [hc, if_true]
      exact sim_skip_left (fun _ => rfl) loop
    · simp only [hc, if_false]; exact loop

theorem sim_placeAndWrite (dest : String) (v1 v2 : Bool) (hv : VP ecb v1 v2) (names : List String) (ids : List Nat) :
    Sim ek ecb (placeAndWrite dest v1 names ids) (placeAndWrite dest v2 names ids) := by
  unfold placeAndWrite
  refine sim_bind (sim_mapM' (fun id => ?_) _) (fun sizes => ?_)
  · unfold sizeOf
    exact sim_bind (sim_getObj id) (fun _ => sim_pure _)
  · simp only []
    refine sim_bind (sim_writeExternalData dest v1 v2 hv _) (fun _ => ?_)
    refine sim_bind (sim_mapM' (fun p => ?_) _) (fun made => ?_)
    · unfold makeExternal
      exact sim_bind (sim_newObj _) (fun _ => sim_pure _)
    · generalize gather made 0 names.length = x
      rcases x with _ | out
      · exact sim_throw _ _
      · exact sim_pure _

theorem er_heap (s : St) : (er ek ecb s).heap = s.heap := rfl
theorem er_cv (s : St) : (er ek ecb s).cv = s.cv := rfl
theorem er_fs (s : St) : (er ek ecb s).fs = s.fs := rfl
theorem er_tn (s : St) : (er ek ecb s).tn = s.tn := rfl

theorem sim_convertToExternal (dest : String) (v1 v2 : Bool) (hv : VP ecb v1 v2) (inp : List (String × Nat)) :
    Sim ek ecb (convertToExternal dest v1 inp) (convertToExternal dest v2 inp) := by
  unfold convertToExternal
  refine sim_get_bind (fun s0 => ?_)
  simp only [er_fs]
  exact sim_bind (sim_mapM' (fun p => sim_materializeOne dest _ p) _) (fun ids => sim_placeAndWrite dest v1 v2 hv _ ids)

theorem sim_unload {thr : Nat} (tnames : List String) (dest : String) (v1 v2 : Bool) (hv : VP ecb v1 v2) :
    Sim ek ecb (unload thr tnames dest v1) (unload thr tnames dest v2) := by
  unfold unload
  refine sim_get_bind (fun s0 => ?_)
  simp only [er_heap, er_cv]
  refine sim_bind (sim_mapM' (fun i => sim_extToMem _) _) (fun memIds => ?_)
  refine sim_bind (sim_convertToExternal dest v1 v2 hv _) (fun extIds => ?_)
  exact sim_modify (fun _ => rfl)

theorem sim_irSave {thr : Nat} (sig : List (String × Bool)) (tnames : List String) (dir name rel : String) (v1 v2 : Bool)
    (hv : VP ecb v1 v2) : Sim ek ecb (irSave thr sig tnames dir name rel v1) (irSave thr sig tnames dir name rel v2) := by
  unfold irSave
  refine sim_get_bind (fun s0 => ?_)
  simp only [er_cv]
  apply sim_tryFinally
  · refine sim_bind (sim_unload tnames _ v1 v2 hv) (fun _ => ?_)
    refine sim_bind (sim_modify (fun _ => rfl)) (fun _ => ?_)
    refine sim_get_bind (fun s1 => ?_)
    have hser : serialize sig (er ek ecb s1) = serialize sig s1 := rfl
    rw [hser]
    generalize serialize sig s1 = x
    rcases x with e | p
    · exact sim_throw _ _
    · simp only []
      refine sim_bind (sim_fsOpenW _) (fun _ => ?_)
      exact sim_withClose _ (sim_fsWriteProto _ _)
  · intro s; rfl

theorem sim_save (cfg : Cfg) (sig : List (String × Bool)) (tnames : List String) (dir name : String) (v1 v2 : Bool)
    (hv : VP ecb v1 v2) : Sim ek ecb (save cfg sig tnames dir name v1) (save cfg sig tnames dir name v2) := by
  unfold save
  refine sim_get_bind (fun s0 => ?_)
  simp only [er_heap, er_cv, er_tn]
  by_cases h1 : (!(guardHits cfg.deep sig s0.cv).isEmpty) = true
  · simp only [h1, if_true]; exact sim_throw _ _
  · simp only [h1, Bool.false_eq_true, if_false]
    by_cases h2 : ((cfg.refuse && !(destHits (joinPath dir (name ++ ".data")) s0.heap s0.cv).isEmpty) ||
        (cfg.refuseModel && !(destHits (joinPath dir name) s0.heap s0.cv).isEmpty)) = true
    · simp only [h2, if_true]; exact sim_throw _ _
    · simp only [h2, Bool.false_eq_true, if_false]
      by_cases h3 : cfg.keepNames = true
      · simp only [h3, if_true]
        exact sim_tryFinally (sim_irSave sig tnames dir name _ v1 v2 hv) (fun _ => rfl)
      · simp only [h3, Bool.false_eq_true, if_false]
        exact sim_irSave sig tnames dir name _ v1 v2 hv

end OV.C20
