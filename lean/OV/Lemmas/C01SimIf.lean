import OV.Lemmas.C01Sim
import OV.Lemmas.C01Attr
/-!
# Lemmas for C01: forward simulation for straight-line code with nested `if`/`else`

The invariant relates only the *live* Python variables to ONNX values (`Inv`): an `If` node exports exactly
the variables that are assigned in a branch and live afterwards, so a dead variable may hold a stale value in
the graph.  Soundness of the liveness equations is what makes this enough.
-/
namespace OV.C01

variable {V : Type}

/-! ## Source-level facts about the fragment -/

/-- Every variable holds a tensor, except those set aside as Python-scalar variables (`S.pyVars`). -/
def AllT (S : Sem V) (ρ : Store V) : Prop := ∀ x pv, ρ x = some pv → x ∉ S.pyVars → ∃ v, pv = PV.t v

theorem tensorRhs_result {S : Sem V} {ρ : Store V} (hρ : AllT S ρ) {e : Expr} (hb : TFree S (bareVar e))
    (ht : tensorRhs e = true)
    {pv : PV V} (he : evalExpr S ρ e = some pv) : ∃ v, pv = PV.t v := by
  cases e with
  | var x =>
    unfold evalExpr at he
    cases hρx : ρ x with
    | some pv0 => simp only [hρx] at he; cases he; exact hρ x pv hρx (hb x (by simp [bareVar])).2
    | none =>
      simp only [hρx, (hb x (by simp [bareVar])).1] at he
      cases he
  | lit l => simp [tensorRhs] at ht
  | call dom op sig args attrs =>
    unfold evalExpr at he
    cases ha : evalExprs S ρ args with
    | none => simp [ha] at he
    | some vs =>
      simp only [ha] at he
      obtain ⟨v, _, h⟩ := single_some he
      exact ⟨v, h⟩
  | binop o a b =>
    unfold evalExpr at he
    cases hp : primop o with
    | none => simp [hp] at he
    | some oname =>
      cases hea : evalExpr S ρ a with
      | none => simp [hp, hea] at he
      | some x =>
        cases heb : evalExpr S ρ b with
        | none => simp [hp, hea, heb] at he
        | some y =>
          simp only [hp, hea, heb] at he
          obtain ⟨v, _, h⟩ := single_some he
          exact ⟨v, h⟩
  | unop o a =>
    unfold evalExpr at he
    simp only [tensorRhs, Option.isNone_iff_eq_none] at ht
    cases hp : primop o with
    | none => simp [hp] at he
    | some oname =>
      simp only [hp, ht] at he
      cases hea : evalExpr S ρ a with
      | none => simp [hea] at he
      | some x =>
        simp only [hea] at he
        obtain ⟨v, _, h⟩ := single_some he
        exact ⟨v, h⟩
  | cmp o a b =>
    unfold evalExpr at he
    cases hp : primop o with
    | none => simp [hp] at he
    | some oname =>
      cases hea : evalExpr S ρ a with
      | none => simp [hp, hea] at he
      | some x =>
        cases heb : evalExpr S ρ b with
        | none => simp [hp, hea, heb] at he
        | some y =>
          simp only [hp, hea, heb] at he
          by_cases hne : oname = "NotEqual"
          · simp only [hne, if_true] at he
            cases hap : applyOp S "" "Equal" binSig [x, y] [] with
            | none => simp [hap] at he
            | some rs =>
              cases rs with
              | nil => simp [hap] at he
              | cons e0 rest =>
                cases rest with
                | cons _ _ => simp [hap] at he
                | nil =>
                  simp only [hap] at he
                  obtain ⟨v, _, h⟩ := single_some he
                  exact ⟨v, h⟩
          · simp only [hne, if_false] at he
            obtain ⟨v, _, h⟩ := single_some he
            exact ⟨v, h⟩
  | subscript base idx => unfold evalExpr at he; cases he
  | other us => unfold evalExpr at he; cases he

theorem tensorRhs_results {S : Sem V} {ρ : Store V} (hρ : AllT S ρ) : ∀ {es : List Expr} {pvs : List (PV V)},
    TFree S (bareVarL es) →
    es.all tensorRhs = true → evalExprs S ρ es = some pvs → ∀ pv, pv ∈ pvs → ∃ v, pv = PV.t v := by
  intro es
  induction es with
  | nil => intro pvs _ _ he pv hp; unfold evalExprs at he; cases he; cases hp
  | cons e es ih =>
    intro pvs hb ht he pv hp
    simp only [List.all_cons, Bool.and_eq_true] at ht
    unfold evalExprs at he
    cases hea : evalExpr S ρ e with
    | none => simp [hea] at he
    | some pa =>
      cases hes : evalExprs S ρ es with
      | none => simp [hea, hes] at he
      | some prest =>
        simp only [hea, hes] at he
        cases he
        rcases List.mem_cons.mp hp with rfl | hp
        · exact tensorRhs_result hρ (hb.sub (fun x hx => by simp [bareVarL, hx])) ht.1 hea
        · exact ih (hb.sub (fun x hx => by simp [bareVarL, hx])) ht.2 hes pv hp

theorem AllT.set {ρ : Store V} (h : AllT S ρ) (x : Name) (v : V) : AllT S (ρ.set x (.t v)) := by
  intro y pv hy
  unfold Store.set at hy
  by_cases hyx : y = x
  · simp only [hyx, if_true] at hy; cases hy; exact fun _ => ⟨v, rfl⟩
  · simp only [hyx, if_false] at hy; exact h y pv hy

theorem AllT.setMany : ∀ (xs : List Name) (pvs : List (PV V)) {ρ : Store V}, AllT S ρ →
    (∀ pv, pv ∈ pvs → ∃ v, pv = PV.t v) → AllT S (ρ.setMany xs pvs) := by
  intro xs
  induction xs with
  | nil => intro pvs ρ h _; cases pvs <;> exact h
  | cons x xs ih =>
    intro pvs ρ h hp
    cases pvs with
    | nil => exact h
    | cons pv pvs =>
      obtain ⟨v, rfl⟩ := hp pv List.mem_cons_self
      exact ih pvs (h.set x v) (fun q hq => hp q (List.mem_cons_of_mem _ hq))

theorem setMany_dom_mono : ∀ (xs : List Name) (pvs : List (PV V)) (ρ : Store V) (y : Name),
    ρ y ≠ none → (ρ.setMany xs pvs) y ≠ none := by
  intro xs
  induction xs with
  | nil => intro pvs ρ y h; cases pvs <;> exact h
  | cons x xs ih =>
    intro pvs ρ y h
    cases pvs with
    | nil => exact h
    | cons pv pvs =>
      apply ih
      unfold Store.set
      by_cases hyx : y = x
      · simp [hyx]
      · simp only [hyx, if_false]; exact h

theorem setMany_frame : ∀ (xs : List Name) (pvs : List (PV V)) (ρ : Store V) (y : Name),
    y ∉ xs → (ρ.setMany xs pvs) y = ρ y := by
  intro xs
  induction xs with
  | nil => intro pvs ρ y _; cases pvs <;> rfl
  | cons x xs ih =>
    intro pvs ρ y hy
    cases pvs with
    | nil => rfl
    | cons pv pvs =>
      simp only [Store.setMany]
      rw [ih pvs _ y (fun hm => hy (List.mem_cons_of_mem _ hm))]
      unfold Store.set
      simp [show y ≠ x from fun he => hy (he ▸ List.mem_cons_self)]

theorem assignedBlock_cons' {st : Stmt} {ss : List Stmt} {d : VSet} (h : assignedBlock (st :: ss) = some d) :
    ∃ a b, assignedStmt st = some a ∧ assignedBlock ss = some b ∧ d = vunion a b := by
  unfold assignedBlock at h
  cases ha : assignedStmt st with
  | none => simp only [ha] at h; cases h
  | some a =>
    cases hb : assignedBlock ss with
    | none => simp only [ha, hb] at h; cases h
    | some b =>
      simp only [ha, hb] at h
      cases h
      exact ⟨a, b, rfl, rfl, rfl⟩

/-- What running a statement of the fragment does to the store. -/
structure RunOK (S : Sem V) (ρ ρ' : Store V) (d : Option VSet) : Prop where
  allT : AllT S ρ'
  dom : ∀ x, ρ x ≠ none → ρ' x ≠ none
  frame : ∀ dd, d = some dd → ∀ x, x ∉ dd → ρ' x = ρ x

mutual
theorem ifStmt_run (S : Sem V) (fuel : Nat) : ∀ (st : Stmt) {ρ : Store V} {o : Outcome V},
    ifStmt st = true → TFree S (targetsStmt st) → AllT S ρ → evalStmt S fuel st ρ = some o →
    ∃ ρ', o = .normal ρ' ∧ RunOK S ρ ρ' (assignedStmt st)
  | .assign x e, ρ, o, hi, hF, hρ, h => by
    simp only [ifStmt] at hi
    unfold evalStmt at h
    cases he : evalExpr S ρ e with
    | none => simp [he] at h
    | some pv =>
      simp only [he] at h
      cases h
      obtain ⟨v, rfl⟩ := tensorRhs_result hρ (hF.sub (fun y hy => by simp [targetsStmt, hy])) hi he
      refine ⟨_, rfl, hρ.set x v, ?_, ?_⟩
      · intro y hy
        unfold Store.set
        by_cases hyx : y = x
        · simp [hyx]
        · simp only [hyx, if_false]; exact hy
      · intro dd hd y hy
        simp only [assignedStmt] at hd
        cases hd
        unfold Store.set
        simp [show y ≠ x from by simpa using hy]
  | .par xs es, ρ, o, hi, hF, hρ, h => by
    simp only [ifStmt] at hi
    unfold evalStmt at h
    cases he : evalExprs S ρ es with
    | none => simp [he] at h
    | some pvs =>
      simp only [he] at h
      by_cases hl : pvs.length = xs.length
      · simp only [hl, if_true] at h
        cases h
        refine ⟨_, rfl, AllT.setMany xs pvs hρ (tensorRhs_results hρ (hF.sub (fun y hy => by simp [targetsStmt, hy])) hi he), setMany_dom_mono xs pvs ρ, ?_⟩
        intro dd hd y hy
        simp only [assignedStmt] at hd
        cases hd
        exact setMany_frame xs pvs ρ y (fun hm => hy (mem_vofList.mpr hm))
      · simp [hl] at h
  | .skip, ρ, o, _, hF, hρ, h => by
    unfold evalStmt at h
    cases h
    exact ⟨ρ, rfl, hρ, fun _ hx => hx, fun _ _ _ _ => rfl⟩
  | .ite c t e, ρ, o, hi, hF, hρ, h => by
    simp only [ifStmt, Bool.and_eq_true] at hi
    unfold evalStmt at h
    cases hc : evalExpr S ρ c with
    | none => simp [hc] at h
    | some cv =>
      simp only [hc] at h
      cases ht : truthPV S cv with
      | none => simp [ht] at h
      | some b =>
        cases b with
        | true =>
          simp only [ht] at h
          obtain ⟨ρ', ho, r⟩ := ifBlock_run S fuel t hi.1.2 (hF.sub (fun y hy => by simp [targetsStmt, hy])) hρ h
          refine ⟨ρ', ho, r.allT, r.dom, ?_⟩
          intro dd hd y hy
          simp only [assignedStmt] at hd
          cases hta : assignedBlock t with
          | none => simp [hta] at hd
          | some a =>
            cases hea : assignedBlock e with
            | none => simp [hta, hea] at hd
            | some b' =>
              simp only [hta, hea] at hd
              cases hd
              exact r.frame a hta y (fun hm => hy (mem_vunion.mpr (Or.inl hm)))
        | false =>
          simp only [ht] at h
          obtain ⟨ρ', ho, r⟩ := ifBlock_run S fuel e hi.2 (hF.sub (fun y hy => by simp [targetsStmt, hy])) hρ h
          refine ⟨ρ', ho, r.allT, r.dom, ?_⟩
          intro dd hd y hy
          simp only [assignedStmt] at hd
          cases hta : assignedBlock t with
          | none => simp [hta] at hd
          | some a =>
            cases hea : assignedBlock e with
            | none => simp [hta, hea] at hd
            | some b' =>
              simp only [hta, hea] at hd
              cases hd
              exact r.frame b' hea y (fun hm => hy (mem_vunion.mpr (Or.inr hm)))
  | .tuple _ _, _, _, hi, _, _, _ => by simp [ifStmt] at hi
  | .badAssign _ _, _, _, hi, _, _, _ => by simp [ifStmt] at hi
  | .for_ _ _ _ _, _, _, hi, _, _, _ => by simp [ifStmt] at hi
  | .while_ _ _, _, _, hi, _, _, _ => by simp [ifStmt] at hi
  | .brk _, _, _, hi, _, _, _ => by simp [ifStmt] at hi
  | .ret _ _, _, _, hi, _, _, _ => by simp [ifStmt] at hi
  | .unsupported, _, _, hi, _, _, _ => by simp [ifStmt] at hi
theorem ifBlock_run (S : Sem V) (fuel : Nat) : ∀ (ss : List Stmt) {ρ : Store V} {o : Outcome V},
    ifBlock ss = true → TFree S (targetsBlock ss) → AllT S ρ → evalBlock S fuel ss ρ = some o →
    ∃ ρ', o = .normal ρ' ∧ RunOK S ρ ρ' (assignedBlock ss)
  | [], ρ, o, _, hF, hρ, h => by
    unfold evalBlock at h
    cases h
    exact ⟨ρ, rfl, hρ, fun _ hx => hx, fun _ _ _ _ => rfl⟩
  | st :: ss, ρ, o, hi, hF, hρ, h => by
    simp only [ifBlock, Bool.and_eq_true] at hi
    unfold evalBlock at h
    cases hs : evalStmt S fuel st ρ with
    | none => simp [hs] at h
    | some o1 =>
      obtain ⟨ρ1, rfl, r1⟩ := ifStmt_run S fuel st hi.1 hF.head.1 hρ hs
      simp only [hs] at h
      obtain ⟨ρ2, ho, r2⟩ := ifBlock_run S fuel ss hi.2 hF.head.2 r1.allT h
      refine ⟨ρ2, ho, r2.allT, fun x hx => r2.dom x (r1.dom x hx), ?_⟩
      intro dd hd y hy
      obtain ⟨a, b, ha, hb, rfl⟩ := assignedBlock_cons' hd
      rw [r2.frame b hb y (fun hm => hy (mem_vunion.mpr (Or.inr hm))),
          r1.frame a ha y (fun hm => hy (mem_vunion.mpr (Or.inl hm)))]
end

end OV.C01

namespace OV.C01

variable {V : Type}

/-! ## Liveness passes through statements that do not assign -/

mutual
theorem live_pass_stmt : ∀ (st : Stmt) (lo : VSet) {d : VSet} {x : Name}, ifStmt st = true →
    assignedStmt st = some d → x ∈ lo → x ∉ d → x ∈ liveInStmt st lo
  | .assign y e, lo, d, x, _, hd, hx, hn => by
    simp only [assignedStmt] at hd; cases hd
    unfold liveInStmt
    exact mem_vunion.mpr (Or.inl (mem_vdiff.mpr ⟨hx, hn⟩))
  | .par ys es, lo, d, x, _, hd, hx, hn => by
    simp only [assignedStmt] at hd; cases hd
    unfold liveInStmt
    exact mem_vunion.mpr (Or.inl (mem_vdiff.mpr ⟨hx, hn⟩))
  | .skip, lo, d, x, _, _, hx, _ => by unfold liveInStmt; exact hx
  | .ite c t e, lo, d, x, hi, hd, hx, hn => by
    simp only [ifStmt, Bool.and_eq_true] at hi
    simp only [assignedStmt] at hd
    cases hta : assignedBlock t with
    | none => simp [hta] at hd
    | some a =>
      cases hea : assignedBlock e with
      | none => simp [hta, hea] at hd
      | some b =>
        simp only [hta, hea] at hd
        cases hd
        unfold liveInStmt
        exact mem_vunion.mpr (Or.inl (mem_vunion.mpr (Or.inl
          (live_pass_block t lo hi.1.2 hta hx (fun hm => hn (mem_vunion.mpr (Or.inl hm)))))))
  | .tuple _ _, _, _, _, hi, _, _, _ => by simp [ifStmt] at hi
  | .badAssign _ _, _, _, _, hi, _, _, _ => by simp [ifStmt] at hi
  | .for_ _ _ _ _, _, _, _, hi, _, _, _ => by simp [ifStmt] at hi
  | .while_ _ _, _, _, _, hi, _, _, _ => by simp [ifStmt] at hi
  | .brk _, _, _, _, hi, _, _, _ => by simp [ifStmt] at hi
  | .ret _ _, _, _, _, hi, _, _, _ => by simp [ifStmt] at hi
  | .unsupported, _, _, _, hi, _, _, _ => by simp [ifStmt] at hi
theorem live_pass_block : ∀ (ss : List Stmt) (lo : VSet) {d : VSet} {x : Name}, ifBlock ss = true →
    assignedBlock ss = some d → x ∈ lo → x ∉ d → x ∈ liveInBlock ss lo
  | [], lo, d, x, _, _, hx, _ => by unfold liveInBlock; exact hx
  | st :: ss, lo, d, x, hi, hd, hx, hn => by
    simp only [ifBlock, Bool.and_eq_true] at hi
    obtain ⟨a, b, ha, hb, rfl⟩ := assignedBlock_cons' hd
    unfold liveInBlock
    exact live_pass_stmt st _ hi.1 ha
      (live_pass_block ss lo hi.2 hb hx (fun hm => hn (mem_vunion.mpr (Or.inr hm))))
      (fun hm => hn (mem_vunion.mpr (Or.inl hm)))
end

/-! ## The invariant -/

/-- The store seen through the live variables only. -/
def restrict (ρ : Store V) (Lv : VSet) : Store V := fun x => if Lv.contains x then ρ x else none

theorem restrict_some {ρ : Store V} {Lv : VSet} {x : Name} {pv : PV V} :
    restrict ρ Lv x = some pv ↔ x ∈ Lv ∧ ρ x = some pv := by
  unfold restrict
  by_cases h : Lv.contains x = true
  · simp [h, List.contains_iff_mem.mp h]
  · have : x ∉ Lv := fun hm => h (List.contains_iff_mem.mpr hm)
    simp [h, this]

theorem evalExpr_restrict (S : Sem V) (ρ : Store V) (Lv : VSet) (e : Expr)
    (h : ∀ x, x ∈ usedVars e → x ∈ Lv) : evalExpr S (restrict ρ Lv) e = evalExpr S ρ e := by
  apply evalExpr_agree
  intro x hx
  unfold restrict
  simp [h x hx]

theorem evalExprs_restrict (S : Sem V) (ρ : Store V) (Lv : VSet) (es : List Expr)
    (h : ∀ x, x ∈ usedVarsL es → x ∈ Lv) : evalExprs S (restrict ρ Lv) es = evalExprs S ρ es := by
  apply evalExprs_agree
  intro x hx
  unfold restrict
  simp [h x hx]

theorem StoreRel.of_le {S : Sem V} {ρa ρb : Store V} {L : Locals} {env : Env V} {cast : List Name}
    (h : StoreRel S ρb L env cast) (hle : ∀ y q, ρa y = some q → ρb y = some q) : StoreRel S ρa L env cast :=
  fun y q hy => h y q (hle y q hy)

/-- The simulation invariant at a program point whose live set is `Lv`. -/
structure Inv (S : Sem V) (Lv : VSet) (ρ : Store V) (L : Locals) (env : Env V) (s : St) : Prop where
  vis : VisOK s.used L
  noattr : NoAttrBind S L
  cast : CastSub s
  allT : AllT S ρ
  rel : StoreRel S (restrict ρ Lv) L env s.castable
  bound : ∀ x n, lookup L x = some (.val n) → ρ x ≠ none

theorem Inv.mono {S : Sem V} {Lv Lv' : VSet} {ρ : Store V} {L : Locals} {env : Env V} {s : St}
    (h : Inv S Lv ρ L env s) (hs : ∀ x, x ∈ Lv' → x ∈ Lv) : Inv S Lv' ρ L env s :=
  { h with rel := h.rel.of_le (fun y q hy => by
      obtain ⟨hm, hq⟩ := restrict_some.mp hy
      exact restrict_some.mpr ⟨hs y hm, hq⟩) }

theorem lookup_push (L : Locals) (x : Name) : lookup ([] :: L) x = lookup L x := by
  simp [lookup, Frame.find]

theorem Inv.push {S : Sem V} {Lv : VSet} {ρ : Store V} {L : Locals} {env : Env V} {s : St}
    (h : Inv S Lv ρ L env s) : Inv S Lv ρ ([] :: L) env s :=
  { vis := h.vis.push
    noattr := h.noattr.push
    cast := h.cast
    allT := h.allT
    rel := fun y q hy => by
      obtain ⟨n, hl, hr⟩ := h.rel y q hy
      exact ⟨n, by rw [lookup_push]; exact hl, hr⟩
    bound := fun x n hl => h.bound x n (by rw [← lookup_push]; exact hl) }

theorem setMany_defined : ∀ (xs : List Name) (pvs : List (PV V)) (ρ : Store V) (y : Name),
    xs.length = pvs.length → y ∈ xs → (ρ.setMany xs pvs) y ≠ none := by
  intro xs
  induction xs with
  | nil => intro pvs ρ y _ hy; cases hy
  | cons x xs ih =>
    intro pvs ρ y hl hy
    cases pvs with
    | nil => simp at hl
    | cons pv pvs =>
      simp only [Store.setMany]
      by_cases hm : y ∈ xs
      · exact ih pvs _ y (by simpa using hl) hm
      · rcases List.mem_cons.mp hy with rfl | hy'
        · rw [setMany_frame xs pvs _ y hm]
          simp [Store.set]
        · exact absurd hy' hm

theorem setMany_same : ∀ (xs : List Name) (pvs : List (PV V)) (ρa ρb : Store V) (y : Name),
    xs.length = pvs.length → y ∈ xs → (ρa.setMany xs pvs) y = (ρb.setMany xs pvs) y := by
  intro xs
  induction xs with
  | nil => intro pvs ρa ρb y _ hy; cases hy
  | cons x xs ih =>
    intro pvs ρa ρb y hl hy
    cases pvs with
    | nil => simp at hl
    | cons pv pvs =>
      simp only [Store.setMany]
      by_cases hm : y ∈ xs
      · exact ih pvs _ _ y (by simpa using hl) hm
      · rcases List.mem_cons.mp hy with rfl | hy'
        · rw [setMany_frame xs pvs _ y hm, setMany_frame xs pvs _ y hm]
          simp [Store.set]
        · exact absurd hy' hm

/-! ## Leaf statements -/

theorem assign_step (S : Sem V) (fuel : Nat) (hConst : ∀ l, ∃ c, constOf S l = some c) {x : Name} {e : Expr}
    {lo : VSet} {ρ ρ' : Store V} {L L' : Locals} {env : Env V} {s s' : St} {ns : List Node}
    (hi : tensorRhs e = true) (hF : TFree S (targetsStmt (.assign x e)))
    (hinv : Inv S (liveInStmt (.assign x e) lo) ρ L env s)
    (he : evalStmt S fuel (.assign x e) ρ = some (.normal ρ'))
    (h : convStmt L (.assign x e) lo s = .ok ((L', ns), s')) :
    ∃ env', evalNodes S fuel env ns = some env' ∧ Inv S lo ρ' L' env' s' ∧ Ext env env' s s' ∧ Mono s s' := by
  unfold evalStmt at he
  cases hee : evalExpr S ρ e with
  | none => simp [hee] at he
  | some pv =>
    simp only [hee] at he
    cases he
    obtain ⟨v, rfl⟩ := tensorRhs_result hinv.allT (hF.sub (fun y hy => by simp [targetsStmt, hy])) hi hee
    have hsub : ∀ y, y ∈ usedVars e → y ∈ liveInStmt (.assign x e) lo := by
      intro y hy; unfold liveInStmt; exact mem_vunion.mpr (Or.inr hy)
    have hee' : evalExpr S (restrict ρ (liveInStmt (.assign x e) lo)) e = some (.t v) := by
      rw [evalExpr_restrict S ρ _ e hsub]; exact hee
    obtain ⟨env1, ev1, hR1, x1, c1, hL1, hA1, m1⟩ :=
      assign_sim S fuel hConst hinv.noattr hinv.vis hinv.rel hinv.cast (hF x (by simp [targetsStmt])).1 hee' h
    refine ⟨env1, ev1, ⟨hL1, hA1, c1, hinv.allT.set x v, ?_, ?_⟩, x1, m1⟩
    · apply hR1.of_le
      intro y q hy
      obtain ⟨hm, hq⟩ := restrict_some.mp hy
      unfold Store.set at hq ⊢
      by_cases hyx : y = x
      · simpa [hyx] using hq
      · simp only [hyx, if_false] at hq ⊢
        apply restrict_some.mpr
        refine ⟨?_, hq⟩
        unfold liveInStmt
        exact mem_vunion.mpr (Or.inl (mem_vdiff.mpr ⟨hm, by simpa using hyx⟩))
    · intro y n hl
      unfold convStmt at h
      mbind h with p s1 h1
      obtain ⟨t, ns1⟩ := p
      try dsimp only at h
      obtain ⟨q1, q2⟩ := pure_ok h
      cases q1
      unfold Store.set
      by_cases hyx : y = x
      · simp [hyx]
      · simp only [hyx, if_false]
        rw [lookup_bindVar_ne hyx] at hl
        exact hinv.bound y n hl

theorem par_step (S : Sem V) (fuel : Nat) (hConst : ∀ l, ∃ c, constOf S l = some c) {xs : List Name}
    {es : List Expr} {lo : VSet} {ρ ρ' : Store V} {L L' : Locals} {env : Env V} {s s' : St} {ns : List Node}
    (hi : es.all tensorRhs = true) (hF : TFree S (targetsStmt (.par xs es)))
    (hinv : Inv S (liveInStmt (.par xs es) lo) ρ L env s)
    (he : evalStmt S fuel (.par xs es) ρ = some (.normal ρ'))
    (h : convStmt L (.par xs es) lo s = .ok ((L', ns), s')) :
    ∃ env', evalNodes S fuel env ns = some env' ∧ Inv S lo ρ' L' env' s' ∧ Ext env env' s s' ∧ Mono s s' := by
  unfold evalStmt at he
  cases hee : evalExprs S ρ es with
  | none => simp [hee] at he
  | some pvs =>
    simp only [hee] at he
    by_cases hlen : pvs.length = xs.length
    · simp only [hlen, if_true] at he
      cases he
      have hsub : ∀ y, y ∈ usedVarsL es → y ∈ liveInStmt (.par xs es) lo := by
        intro y hy; unfold liveInStmt; exact mem_vunion.mpr (Or.inr hy)
      have hee' : evalExprs S (restrict ρ (liveInStmt (.par xs es) lo)) es = some pvs := by
        rw [evalExprs_restrict S ρ _ es hsub]; exact hee
      obtain ⟨env1, ev1, hR1, x1, c1, hL1, hA1, m1⟩ :=
        par_sim S fuel hConst hinv.noattr hinv.vis hinv.rel hinv.cast (fun y hy => (hF y (by simp [targetsStmt, hy])).1) hee' h
      refine ⟨env1, ev1, ⟨hL1, hA1, c1,
        AllT.setMany xs pvs hinv.allT (tensorRhs_results hinv.allT (hF.sub (fun y hy => by simp [targetsStmt, hy])) hi hee), ?_, ?_⟩, x1, m1⟩
      · apply hR1.of_le
        intro y q hy
        obtain ⟨hm, hq⟩ := restrict_some.mp hy
        by_cases hyx : y ∈ xs
        · -- same update on both stores
          have : ∀ (ρa ρb : Store V), (ρa.setMany xs pvs) y = (ρb.setMany xs pvs) y := by
            intro ρa ρb
            exact setMany_same xs pvs ρa ρb y (by simpa using hlen.symm) hyx
          rw [this _ ρ]; exact hq
        · rw [setMany_frame xs pvs _ y hyx] at hq ⊢
          apply restrict_some.mpr
          refine ⟨?_, hq⟩
          unfold liveInStmt
          exact mem_vunion.mpr (Or.inl (mem_vdiff.mpr ⟨hm, fun hv => hyx (mem_vofList.mp hv)⟩))
      · intro y n hl
        unfold convStmt at h
        by_cases hl2 : xs.length ≠ es.length
        · rw [if_pos hl2] at h; exact (failM_ok h).elim
        · rw [if_neg hl2] at h
          unfold convPar at h
          mbind h with p s1 h1
          obtain ⟨ts, ns1⟩ := p
          try dsimp only at h
          obtain ⟨q1, q2⟩ := pure_ok h
          cases q1
          by_cases hyx : y ∈ xs
          · exact setMany_defined xs pvs ρ y (by simpa using hlen.symm) hyx
          · rw [lookup_bindVals_notin xs ts L hyx] at hl
            exact setMany_dom_mono xs pvs ρ y (hinv.bound y n hl)
    · simp [hlen] at he

end OV.C01

namespace OV.C01

variable {V : Type}

/-! ## Subgraph outputs -/

theorem current_lookup {L : Locals} {x : Name} {b : Bind} (h : currentScopeFind L x = some b) :
    lookup L x = some b := by
  cases L with
  | nil => simp [currentScopeFind] at h
  | cons f fs =>
    simp only [currentScopeFind] at h
    simp [lookup, h]

theorem toOnnxVar_val {n t : Name} {s s' : St} {x : Name} {ns : List Node}
    (h : toOnnxVar (.val n) t s = .ok ((x, ns), s')) : x = n ∧ ns = [] ∧ s' = s := by
  unfold toOnnxVar at h
  simp only at h
  obtain ⟨e1, e2⟩ := pure_ok h
  cases e1
  exact ⟨rfl, rfl, e2.symm⟩

theorem emitCopy_castable {o sug x : Name} {ns : List Node} {s s' : St}
    (h : emitCopy o sug s = .ok ((x, ns), s')) : s'.castable = s.castable := by
  unfold emitCopy at h
  mbind h with n sx hn
  obtain ⟨q1, q2⟩ := pure_ok h
  subst q2
  exact (genUnique_spec hn).2.2

theorem blockOutputs_sim (S : Sem V) (fuel : Nat) (hId : ∀ v, S.op "" "Identity" [some v] [] = some [v])
    {ρ' : Store V} (Lt : Locals) :
    ∀ (vs : List Name) (sofar : List Node) (outs : List Name) {env : Env V} {s s' : St} {os : List Name}
      {ns : List Node}, VisOK s.used Lt → FreeOf S Lt vs →
      (∀ pv, pv ∈ vs → ∀ n, lookup Lt pv = some (.val n) → ∃ v, env n = some v ∧ ρ' pv = some (.t v)) →
      blockOutputs Lt vs sofar outs s = .ok ((os, ns), s') →
      ∃ env', evalNodes S fuel env ns = some env' ∧ Ext env env' s s' ∧ s'.castable = s.castable ∧ Mono s s'
        ∧ All2 (fun o pv => ∃ v, env' o = some v ∧ ρ' pv = some (.t v)) os vs := by
  intro vs
  induction vs with
  | nil =>
    intro sofar outs env s s' os ns _ _ _ h
    unfold blockOutputs at h
    obtain ⟨e1, e2⟩ := pure_ok h
    cases e1; subst e2
    exact ⟨env, evalNodes_nil _ _ _, Ext.refl _ _, rfl, Mono.refl _, All2.nil⟩
  | cons pv rest ih =>
    intro sofar outs env s s' os ns hL hA hf h
    have hAr : FreeOf S Lt rest := hA.sub (fun x hx => List.mem_cons_of_mem _ hx)
    have hfr := blockOutputs_fresh Lt _ _ _ h
    unfold blockOutputs at h
    -- the binding the converter reads, whichever way it finds it
    have key : ∀ (b : Bind), lookup Lt pv = some b →
        ∃ n v, b = .val n ∧ env n = some v ∧ ρ' pv = some (.t v) ∧ n ∈ s.used := by
      intro b hb
      cases b with
      | attr p ty => exact absurd hb ((hA pv List.mem_cons_self).1 p ty)
      | val n =>
        obtain ⟨v, h1, h2⟩ := hf pv List.mem_cons_self n hb
        exact ⟨n, v, rfl, h1, h2, hL.lookup hb⟩
    have restf : ∀ {env1 : Env V} {s1 : St}, Ext env env1 s s1 → Mono s s1 →
        ∀ q, q ∈ rest → ∀ n, lookup Lt q = some (.val n) → ∃ v, env1 n = some v ∧ ρ' q = some (.t v) := by
      intro env1 s1 e1 _ q hq n hl
      obtain ⟨v, h1, h2⟩ := hf q (List.mem_cons_of_mem _ hq) n hl
      exact ⟨v, by rw [e1.envSame n (hL.lookup hl)]; exact h1, h2⟩
    -- the copy case, shared
    have copyCase : ∀ (n : Name) (v : V), env n = some v → ρ' pv = some (.t v) → n ∈ s.used →
        ∀ {sofar2 : Name → List Node → List Node} {outsf : Name → List Name},
        ((do
          let (o', nc) ← emitCopy n pv
          let (os, ns2) ← blockOutputs Lt rest (sofar2 o' nc) (outsf o')
          pure (o' :: os, [] ++ (nc ++ ns2))) : M _) s = .ok ((os, ns), s') →
        ∃ env', evalNodes S fuel env ns = some env' ∧ Ext env env' s s' ∧ s'.castable = s.castable
          ∧ Mono s s' ∧ All2 (fun o q => ∃ v, env' o = some v ∧ ρ' q = some (.t v)) os (pv :: rest) := by
      intro n v hn hρ hnu sofar2 outsf h
      mbind h with p s2 h2
      obtain ⟨o', nc⟩ := p
      try dsimp only at h
      mbind h with p s3 h3
      obtain ⟨os', ns2⟩ := p
      try dsimp only at h
      obtain ⟨e1, e2⟩ := pure_ok h
      cases e1; subst e2
      obtain ⟨ev2, x2, hu2, m2⟩ := emitCopy_sim S fuel hId hn h2
      have hc2 := emitCopy_castable h2
      obtain ⟨env3, ev3, x3, hc3, m3, a3⟩ := ih _ _ (hL.mono m2) hAr (restf x2 m2) h3
      refine ⟨env3, by simpa using evalNodes_seq ev2 ev3, x2.trans m2 x3, by rw [hc3, hc2], m2.trans m3, ?_⟩
      exact All2.cons _ _ _ _ ⟨v, by rw [x3.envSame _ hu2]; exact Env.set_same _ _ _, hρ⟩ a3
    cases hc : currentScopeFind Lt pv with
    | some b =>
      simp only [hc] at h
      obtain ⟨n, v, rfl, hn, hρ, hnu⟩ := key b (current_lookup hc)
      mbind h with p s1 h1
      obtain ⟨o, ns1⟩ := p
      try dsimp only at h
      obtain ⟨rfl, rfl, rfl⟩ := toOnnxVar_val h1
      by_cases hin : ((topDefs (sofar ++ [])).contains o && !outs.contains o) = true
      · rw [if_pos hin] at h
        mbind h with p s2 h2
        obtain ⟨os', ns2⟩ := p
        try dsimp only at h
        obtain ⟨e1, e2⟩ := pure_ok h
        cases e1; subst e2
        obtain ⟨env3, ev3, x3, hc3, m3, a3⟩ := ih _ _ hL hAr (restf (Ext.refl _ _) (Mono.refl _)) h2
        refine ⟨env3, by simpa using ev3, x3, hc3, m3, ?_⟩
        exact All2.cons _ _ _ _ ⟨v, by rw [x3.envSame _ hnu]; exact hn, hρ⟩ a3
      · rw [if_neg hin] at h
        exact copyCase o v hn hρ hnu (sofar2 := fun _ nc => sofar ++ ([] ++ nc)) (outsf := fun o' => outs ++ [o']) h
    | none =>
      simp only [hc] at h
      cases hl : lookup Lt pv with
      | none => simp only [hl] at h; exact (failM_ok h).elim
      | some b =>
        simp only [hl] at h
        obtain ⟨n, v, rfl, hn, hρ, hnu⟩ := key b hl
        mbind h with p s1 h1
        obtain ⟨o, ns1⟩ := p
        try dsimp only at h
        obtain ⟨rfl, rfl, rfl⟩ := toOnnxVar_val h1
        exact copyCase o v hn hρ hnu (sofar2 := fun _ nc => sofar ++ ([] ++ nc)) (outsf := fun o' => outs ++ [o']) h

end OV.C01

namespace OV.C01

variable {V : Type}

/-! ## Castable bookkeeping of arbitrary (also un-executed) translations -/

/-- A translation step only adds names, keeps `castable ⊆ used`, and does not change the castable status of
names that were already in use. -/
structure CastOK (s s' : St) : Prop where
  mono : Mono s s'
  sub : CastSub s → CastSub s'
  ext : ∀ n, n ∈ s.used → (n ∈ s'.castable ↔ n ∈ s.castable)

theorem CastOK.refl (s : St) : CastOK s s := ⟨Mono.refl s, id, fun _ _ => Iff.rfl⟩

theorem CastOK.trans {a b c : St} (h1 : CastOK a b) (h2 : CastOK b c) : CastOK a c :=
  ⟨h1.mono.trans h2.mono, fun h => h2.sub (h1.sub h),
   fun n hn => (h2.ext n (h1.mono n hn)).trans (h1.ext n hn)⟩

theorem genUnique_cast {cand r : Name} {s s' : St} (h : genUnique cand s = .ok (r, s')) : CastOK s s' := by
  obtain ⟨_, hu, hc⟩ := genUnique_spec h
  refine ⟨(genUnique_fresh h).1, ?_, fun n _ => by rw [hc]⟩
  intro hs n hn
  rw [hc] at hn
  rw [hu]
  exact List.mem_cons_of_mem _ (hs n hn)

theorem genUniques_cast : ∀ (cs : List Name) {rs : List Name} {s s' : St},
    genUniques cs s = .ok (rs, s') → CastOK s s' := by
  intro cs
  induction cs with
  | nil =>
    intro rs s s' h
    unfold genUniques at h
    obtain ⟨_, e2⟩ := pure_ok h
    subst e2
    exact CastOK.refl _
  | cons c cs ih =>
    intro rs s s' h
    unfold genUniques at h
    mbind h with r s1 h1
    mbind h with rs' s2 h2
    obtain ⟨_, e2⟩ := pure_ok h
    subst e2
    exact (genUnique_cast h1).trans (ih h2)

/-- Generate a name and mark it castable. -/
theorem gen_mark_cast {cand n : Name} {s s1 s2 : St} {u : Unit} (hn : genUnique cand s = .ok (n, s1))
    (hm : markCastable n s1 = .ok (u, s2)) : CastOK s s2 := by
  obtain ⟨hfresh, hu, hc⟩ := genUnique_spec hn
  unfold markCastable at hm
  cases hm
  refine ⟨fun x hx => by simp only; rw [hu]; exact List.mem_cons_of_mem _ hx, ?_, ?_⟩
  · intro hs x hx
    simp only [List.mem_cons] at hx
    simp only
    rw [hu]
    rcases hx with rfl | hx
    · exact List.mem_cons_self
    · rw [hc] at hx; exact List.mem_cons_of_mem _ (hs x hx)
  · intro x hx
    simp only [List.mem_cons, hc]
    constructor
    · rintro (rfl | h)
      · exact absurd hx hfresh
      · exact h
    · exact Or.inr

theorem emitConst_cast {l : Lit} {sug : Option Name} {x : Name} {ns : List Node} {s s' : St}
    (h : emitConst l sug s = .ok ((x, ns), s')) : CastOK s s' := by
  unfold emitConst at h
  mbind h with n s1 hn
  mbind h with u s2 hm
  obtain ⟨_, e2⟩ := pure_ok h
  subst e2
  exact gen_mark_cast hn hm

theorem emitCopy_cast {o sug x : Name} {ns : List Node} {s s' : St}
    (h : emitCopy o sug s = .ok ((x, ns), s')) : CastOK s s' := by
  unfold emitCopy at h
  mbind h with n s1 hn
  obtain ⟨_, e2⟩ := pure_ok h
  subst e2
  exact genUnique_cast hn

theorem toOnnxVar_cast {b : Bind} {t x : Name} {ns : List Node} {s s' : St}
    (h : toOnnxVar b t s = .ok ((x, ns), s')) : CastOK s s' := by
  cases b with
  | val n =>
    obtain ⟨_, _, rfl⟩ := toOnnxVar_val h
    exact CastOK.refl _
  | attr p ty =>
    unfold toOnnxVar at h
    simp only at h
    mbind h with r s1 hr
    cases hav : attrValueName ty with
    | none => simp only [hav] at h; exact (failM_ok h).elim
    | some an =>
      simp only [hav] at h
      by_cases hb : ty = AttrTy.bool
      · simp only [hb, if_true] at h
        mbind h with rb s2 hrb
        mbind h with u s3 hm
        obtain ⟨_, e2⟩ := pure_ok h
        subst e2
        exact (genUnique_cast hr).trans (gen_mark_cast hrb hm)
      · simp only [hb, if_false] at h
        mbind h with u s3 hm
        obtain ⟨_, e2⟩ := pure_ok h
        subst e2
        exact gen_mark_cast hr hm

theorem pyVar_cast {L : Locals} {v x : Name} {ns : List Node} {s s' : St}
    (h : pyVar L v s = .ok ((x, ns), s')) : CastOK s s' := by
  unfold pyVar at h
  cases hl : lookup L v with
  | none => simp only [hl] at h; exact (failM_ok h).elim
  | some b => simp only [hl] at h; exact toOnnxVar_cast h

theorem castOne_cast {a : Name} {tgt : Option Name} {x : Name} {ns : List Node} {s s' : St}
    (h : castOne a tgt s = .ok ((x, ns), s')) : CastOK s s' := by
  unfold castOne at h
  cases tgt with
  | none => simp only at h; cases h; exact CastOK.refl _
  | some y =>
    simp only at h
    by_cases hc : s.castable.contains a = true
    · simp only [hc, if_true] at h
      cases hg : genUnique (a ++ "_cast") s with
      | error e => simp only [hg] at h; cases h
      | ok p =>
        obtain ⟨xc, s1⟩ := p
        simp only [hg] at h
        cases h
        exact genUnique_cast hg
    · simp only [hc] at h
      cases h
      exact CastOK.refl _

theorem castArgs_cast {sig : Sig} {bs : List (String × Name)} :
    ∀ (as : List Name) (i : Nat) {xs : List Name} {ns : List Node} {s s' : St},
      castArgs sig bs as i s = .ok ((xs, ns), s') → CastOK s s' := by
  intro as
  induction as with
  | nil =>
    intro i xs ns s s' h
    unfold castArgs at h
    obtain ⟨_, e2⟩ := pure_ok h
    subst e2
    exact CastOK.refl _
  | cons a as ih =>
    intro i xs ns s s' h
    unfold castArgs at h
    mbind h with p s1 hc
    obtain ⟨x, n1⟩ := p
    try dsimp only at h
    mbind h with p s2 hr
    obtain ⟨rest, ns'⟩ := p
    try dsimp only at h
    obtain ⟨_, e2⟩ := pure_ok h
    subst e2
    exact (castOne_cast hc).trans (ih _ hr)

theorem castInputs_cast {sig : Sig} {as xs : List Name} {ns : List Node} {s s' : St}
    (h : castInputs sig as s = .ok ((xs, ns), s')) : CastOK s s' := by
  unfold castInputs at h
  by_cases hk : (!sig.known) = true
  · rw [if_pos hk] at h; cases h; exact CastOK.refl _
  · rw [if_neg hk] at h
    cases hbs : castBindings sig s.castable as 0 [] with
    | none => simp only [hbs] at h; cases h
    | some bs => simp only [hbs] at h; exact castArgs_cast _ _ h

theorem const1d_cast {c c' : IntCache} {v : Int} {x : Name} {ns : List Node} {s s' : St}
    (h : const1d c v s = .ok ((x, ns, c'), s')) : CastOK s s' := by
  unfold const1d at h
  cases hf : cacheFind c v with
  | some n =>
    simp only [hf] at h
    obtain ⟨_, e2⟩ := pure_ok h
    subst e2
    exact CastOK.refl _
  | none =>
    simp only [hf] at h
    mbind h with p s1 h1
    obtain ⟨n, ns'⟩ := p
    try dsimp only at h
    obtain ⟨_, e2⟩ := pure_ok h
    subst e2
    exact emitConst_cast h1

theorem convSlice_cast {c c' : IntCache} {lo up st : Option Int} {r : Name × Name × Name} {ns : List Node}
    {s s' : St} (h : convSlice c lo up st s = .ok ((r, ns, c'), s')) : CastOK s s' := by
  unfold convSlice at h
  mbind h with p s1 h1
  obtain ⟨sn, ns1, c1⟩ := p
  try dsimp only at h
  mbind h with p s2 h2
  obtain ⟨ln, ns2, c2⟩ := p
  try dsimp only at h
  mbind h with p s3 h3
  obtain ⟨un, ns3, c3⟩ := p
  try dsimp only at h
  obtain ⟨_, e2⟩ := pure_ok h
  subst e2
  exact (const1d_cast h1).trans ((const1d_cast h2).trans (const1d_cast h3))

theorem convSlices_cast : ∀ (els : List SliceEl) {c c' : IntCache}
    {r : List Name × List Name × List Name × List Name} {ns : List Node} {s s' : St},
    convSlices c els s = .ok ((r, ns, c'), s') → CastOK s s' := by
  intro els
  induction els with
  | nil =>
    intro c c' r ns s s' h
    unfold convSlices at h
    obtain ⟨_, e2⟩ := pure_ok h
    subst e2
    exact CastOK.refl _
  | cons el rest ih =>
    intro c c' r ns s s' h
    obtain ⟨ax, lo, up, st⟩ := el
    unfold convSlices at h
    mbind h with p s1 h1
    obtain ⟨an, ns0, c0⟩ := p
    try dsimp only at h
    mbind h with p s2 h2
    obtain ⟨⟨l, u, sn⟩, ns1, c1⟩ := p
    try dsimp only at h
    mbind h with p s3 h3
    obtain ⟨⟨ls, us, as, ss⟩, ns2, c2⟩ := p
    try dsimp only at h
    obtain ⟨_, e2⟩ := pure_ok h
    subst e2
    exact (const1d_cast h1).trans ((convSlice_cast h2).trans (ih h3))

theorem pickOrConcat_cast {cand : Name} {xs : List Name} {x : Name} {ns : List Node} {s s' : St}
    (h : pickOrConcat cand xs s = .ok ((x, ns), s')) : CastOK s s' := by
  have hc : ∀ {s s' : St} {x : Name} {ns : List Node},
      (do let r ← genUnique cand
          pure (r, [Node.op "" "Concat" (xs.map some) [r] [("axis", AttrV.const "i:0")]]) : M (Name × List Node)) s
        = .ok ((x, ns), s') → CastOK s s' := by
    intro s s' x ns h
    mbind h with r s1 h1
    obtain ⟨_, e2⟩ := pure_ok h
    subst e2
    exact genUnique_cast h1
  unfold pickOrConcat at h
  cases xs with
  | nil => exact hc h
  | cons a t =>
    cases t with
    | nil =>
      simp only at h
      obtain ⟨_, e2⟩ := pure_ok h
      subst e2
      exact CastOK.refl _
    | cons b t' => exact hc h

theorem convSubscript_cast {var : Name} {tgt : Option Name} {idx : List Idx} {x : Name} {ns : List Node}
    {s s' : St} (h : convSubscript var tgt idx s = .ok ((x, ns), s')) : CastOK s s' := by
  unfold convSubscript at h
  mbind h with target s0 h0
  have k0 := genUnique_cast h0
  try dsimp only at h
  by_cases hc : (!(slicedOf 0 idx).isEmpty || decide ((scalarsOf 0 idx).length > 1)) = true
  · rw [if_pos hc] at h
    mbind h with p s1 h1
    obtain ⟨⟨starts, ends, axes, steps⟩, ns1, cc⟩ := p
    try dsimp only at h
    mbind h with p s2 h2
    obtain ⟨sv, n1⟩ := p
    try dsimp only at h
    mbind h with p s3 h3
    obtain ⟨ev, n2⟩ := p
    try dsimp only at h
    mbind h with p s4 h4
    obtain ⟨av, n3⟩ := p
    try dsimp only at h
    mbind h with p s5 h5
    obtain ⟨tv, n4⟩ := p
    try dsimp only at h
    have k5 := k0.trans ((convSlices_cast _ h1).trans ((pickOrConcat_cast h2).trans ((pickOrConcat_cast h3).trans
      ((pickOrConcat_cast h4).trans (pickOrConcat_cast h5)))))
    by_cases hsc : (scalarsOf 0 idx).isEmpty = true
    · rw [if_pos hsc] at h
      obtain ⟨_, e2⟩ := pure_ok h
      subst e2
      exact k5
    · rw [if_neg hsc] at h
      mbind h with sliced s6 h6
      mbind h with p s7 h7
      obtain ⟨sq, n5⟩ := p
      try dsimp only at h
      obtain ⟨_, e2⟩ := pure_ok h
      subst e2
      exact k5.trans ((genUnique_cast h6).trans (emitConst_cast h7))
  · rw [if_neg hc] at h
    cases hsc : scalarsOf 0 idx with
    | nil =>
      simp only [hsc] at h
      obtain ⟨_, e2⟩ := pure_ok h
      subst e2
      exact k0
    | cons p rest =>
      obtain ⟨ax, k⟩ := p
      simp only [hsc] at h
      mbind h with q s1 h1
      obtain ⟨iv, n1⟩ := q
      try dsimp only at h
      obtain ⟨_, e2⟩ := pure_ok h
      subst e2
      exact k0.trans (emitConst_cast h1)

mutual
theorem convExpr_cast (L : Locals) : ∀ (e : Expr) (tgt : Option Name) {x : Name} {ns : List Node} {s s' : St},
    convExpr L e tgt s = .ok ((x, ns), s') → CastOK s s'
  | .var v, tgt, x, ns, s, s', h => by unfold convExpr at h; exact pyVar_cast h
  | .lit l, tgt, x, ns, s, s', h => by unfold convExpr at h; exact emitConst_cast h
  | .call dom op sig args attrs, tgt, x, ns, s, s', h => by
    unfold convExpr at h
    mbind h with p s1 h1
    obtain ⟨as, ns1⟩ := p
    try dsimp only at h
    mbind h with attrs' s2 h2
    have := liftE_state h2
    subst this
    mbind h with p s3 h3
    obtain ⟨as', ns2⟩ := p
    try dsimp only at h
    mbind h with r s4 h4
    obtain ⟨_, e2⟩ := pure_ok h
    subst e2
    exact (convArgs_cast L args h1).trans ((castInputs_cast h3).trans (genUnique_cast h4))
  | .binop o a b, tgt, x, ns, s, s', h => by
    unfold convExpr at h
    cases hp : primop o with
    | none => simp only [hp] at h; exact (failM_ok h).elim
    | some oname =>
      simp only [hp] at h
      mbind h with p s1 h1
      obtain ⟨l, ns1⟩ := p
      try dsimp only at h
      mbind h with p s2 h2
      obtain ⟨r, ns2⟩ := p
      try dsimp only at h
      mbind h with p s3 h3
      obtain ⟨as', ns3⟩ := p
      try dsimp only at h
      mbind h with res s4 h4
      obtain ⟨_, e2⟩ := pure_ok h
      subst e2
      exact (convExpr_cast L a none h1).trans ((convExpr_cast L b none h2).trans
        ((castInputs_cast h3).trans (genUnique_cast h4)))
  | .unop o a, tgt, x, ns, s, s', h => by
    unfold convExpr at h
    cases hp : primop o with
    | none => simp only [hp] at h; exact (failM_ok h).elim
    | some oname =>
      simp only [hp] at h
      cases hn : negatedLiteral o a with
      | some l => simp only [hn] at h; exact emitConst_cast h
      | none =>
        simp only [hn] at h
        mbind h with p s1 h1
        obtain ⟨y, ns1⟩ := p
        try dsimp only at h
        mbind h with res s4 h4
        obtain ⟨_, e2⟩ := pure_ok h
        subst e2
        exact (convExpr_cast L a none h1).trans (genUnique_cast h4)
  | .cmp o a b, tgt, x, ns, s, s', h => by
    unfold convExpr at h
    cases hp : primop o with
    | none => simp only [hp] at h; exact (failM_ok h).elim
    | some oname =>
      simp only [hp] at h
      mbind h with p s1 h1
      obtain ⟨l, ns1⟩ := p
      try dsimp only at h
      mbind h with p s2 h2
      obtain ⟨r, ns2⟩ := p
      try dsimp only at h
      mbind h with p s3 h3
      obtain ⟨as', ns3⟩ := p
      try dsimp only at h
      have c123 := (convExpr_cast L a none h1).trans ((convExpr_cast L b none h2).trans (castInputs_cast h3))
      by_cases hne : oname = "NotEqual"
      · simp only [hne, if_true] at h
        mbind h with tmp s4 h4
        mbind h with res s5 h5
        obtain ⟨_, e2⟩ := pure_ok h
        subst e2
        exact c123.trans ((genUnique_cast h4).trans (genUnique_cast h5))
      · simp only [hne, if_false] at h
        mbind h with res s4 h4
        obtain ⟨_, e2⟩ := pure_ok h
        subst e2
        exact c123.trans (genUnique_cast h4)
  | .subscript base idx, tgt, x, ns, s, s', h => by
    unfold convExpr at h
    mbind h with p s1 h1
    obtain ⟨v, ns1⟩ := p
    try dsimp only at h
    mbind h with p s2 h2
    obtain ⟨r, ns2⟩ := p
    try dsimp only at h
    obtain ⟨_, e2⟩ := pure_ok h
    subst e2
    exact (convExpr_cast L base none h1).trans (convSubscript_cast h2)
  | .other us, tgt, x, ns, s, s', h => by unfold convExpr at h; exact (failM_ok h).elim
theorem convArgs_cast (L : Locals) : ∀ (es : List Expr) {xs : List Name} {ns : List Node} {s s' : St},
    convArgs L es s = .ok ((xs, ns), s') → CastOK s s'
  | [], xs, ns, s, s', h => by
    unfold convArgs at h
    obtain ⟨_, e2⟩ := pure_ok h
    subst e2
    exact CastOK.refl _
  | e :: es, xs, ns, s, s', h => by
    unfold convArgs at h
    mbind h with p s1 h1
    obtain ⟨y, ns1⟩ := p
    try dsimp only at h
    mbind h with p s2 h2
    obtain ⟨ys, ns2⟩ := p
    try dsimp only at h
    obtain ⟨_, e2⟩ := pure_ok h
    subst e2
    exact (convExpr_cast L e none h1).trans (convArgs_cast L es h2)
end

theorem convParExprs_cast (L : Locals) : ∀ (xs : List Name) (es : List Expr) {ts : List Name}
    {ns : List Node} {s s' : St}, convParExprs L xs es s = .ok ((ts, ns), s') → CastOK s s' := by
  intro xs
  induction xs with
  | nil =>
    intro es ts ns s s' h
    unfold convParExprs at h
    obtain ⟨_, e2⟩ := pure_ok h
    subst e2
    exact CastOK.refl _
  | cons x xs ih =>
    intro es ts ns s s' h
    cases es with
    | nil =>
      unfold convParExprs at h
      obtain ⟨_, e2⟩ := pure_ok h
      subst e2
      exact CastOK.refl _
    | cons e es =>
      unfold convParExprs at h
      mbind h with p s1 h1
      obtain ⟨t, ns1⟩ := p
      try dsimp only at h
      mbind h with p s2 h2
      obtain ⟨ts', ns2⟩ := p
      try dsimp only at h
      obtain ⟨_, e2⟩ := pure_ok h
      subst e2
      exact (convExpr_cast L e _ h1).trans (ih _ h2)

theorem blockOutputs_cast (L : Locals) : ∀ (vs : List Name) (sofar : List Node) (outs : List Name)
    {os : List Name} {ns : List Node} {s s' : St},
    blockOutputs L vs sofar outs s = .ok ((os, ns), s') → CastOK s s' := by
  intro vs
  induction vs with
  | nil =>
    intro sofar outs os ns s s' h
    unfold blockOutputs at h
    obtain ⟨_, e2⟩ := pure_ok h
    subst e2
    exact CastOK.refl _
  | cons pv rest ih =>
    intro sofar outs os ns s s' h
    unfold blockOutputs at h
    cases hc : currentScopeFind L pv with
    | some b =>
      simp only [hc] at h
      mbind h with p s1 h1
      obtain ⟨o, ns1⟩ := p
      try dsimp only at h
      by_cases hin : ((topDefs (sofar ++ ns1)).contains o && !outs.contains o) = true
      · rw [if_pos hin] at h
        mbind h with p s2 h2
        obtain ⟨os', ns2⟩ := p
        try dsimp only at h
        obtain ⟨_, e2⟩ := pure_ok h
        subst e2
        exact (toOnnxVar_cast h1).trans (ih _ _ h2)
      · rw [if_neg hin] at h
        mbind h with p s2 h2
        obtain ⟨o', nc⟩ := p
        try dsimp only at h
        mbind h with p s3 h3
        obtain ⟨os', ns2⟩ := p
        try dsimp only at h
        obtain ⟨_, e2⟩ := pure_ok h
        subst e2
        exact (toOnnxVar_cast h1).trans ((emitCopy_cast h2).trans (ih _ _ h3))
    | none =>
      simp only [hc] at h
      cases hl : lookup L pv with
      | none => simp only [hl] at h; exact (failM_ok h).elim
      | some b =>
        simp only [hl] at h
        mbind h with p s1 h1
        obtain ⟨o, ns1⟩ := p
        try dsimp only at h
        mbind h with p s2 h2
        obtain ⟨o', nc⟩ := p
        try dsimp only at h
        mbind h with p s3 h3
        obtain ⟨os', ns2⟩ := p
        try dsimp only at h
        obtain ⟨_, e2⟩ := pure_ok h
        subst e2
        exact (toOnnxVar_cast h1).trans ((emitCopy_cast h2).trans (ih _ _ h3))

mutual
theorem ifStmt_cast (L : Locals) : ∀ (st : Stmt) (lo : VSet) {L' : Locals} {ns : List Node} {s s' : St},
    ifStmt st = true → convStmt L st lo s = .ok ((L', ns), s') → CastOK s s'
  | .assign x e, lo, L', ns, s, s', _, h => by
    unfold convStmt at h
    mbind h with p s1 h1
    obtain ⟨t, ns1⟩ := p
    try dsimp only at h
    obtain ⟨_, e2⟩ := pure_ok h
    subst e2
    exact convExpr_cast L e _ h1
  | .par xs es, lo, L', ns, s, s', _, h => by
    unfold convStmt at h
    by_cases hl : xs.length ≠ es.length
    · rw [if_pos hl] at h; exact (failM_ok h).elim
    · rw [if_neg hl] at h
      unfold convPar at h
      mbind h with p s1 h1
      obtain ⟨ts, ns1⟩ := p
      try dsimp only at h
      obtain ⟨_, e2⟩ := pure_ok h
      subst e2
      exact convParExprs_cast L xs es h1
  | .skip, lo, L', ns, s, s', _, h => by
    unfold convStmt at h
    obtain ⟨_, e2⟩ := pure_ok h
    subst e2
    exact CastOK.refl _
  | .ite c t e, lo, L', ns, s, s', hi, h => by
    simp only [ifStmt, Bool.and_eq_true] at hi
    unfold convStmt at h
    cases ha : assignedStmt (.ite c t e) with
    | none => simp only [ha] at h; exact (failM_ok h).elim
    | some defs =>
      simp only [ha] at h
      mbind h with p s1 h1
      obtain ⟨test, ns0⟩ := p
      try dsimp only at h
      mbind h with p s2 h2
      obtain ⟨Lt, tn⟩ := p
      try dsimp only at h
      mbind h with p s3 h3
      obtain ⟨to, tn2⟩ := p
      try dsimp only at h
      mbind h with p s4 h4
      obtain ⟨Le, en⟩ := p
      try dsimp only at h
      mbind h with p s5 h5
      obtain ⟨eo, en2⟩ := p
      try dsimp only at h
      mbind h with renamed s6 h6
      by_cases hre : renamed.isEmpty = true
      · rw [if_pos hre] at h; exact (failM_ok h).elim
      · rw [if_neg hre] at h
        by_cases hrt : (renamed == [test]) = true
        · rw [if_pos hrt] at h; exact (failM_ok h).elim
        · rw [if_neg hrt] at h
          obtain ⟨_, e2⟩ := pure_ok h
          subst e2
          exact (convExpr_cast L c _ h1).trans ((ifBlock_cast _ t lo hi.1.2 h2).trans
            ((blockOutputs_cast _ _ _ _ h3).trans ((ifBlock_cast _ e lo hi.2 h4).trans
              ((blockOutputs_cast _ _ _ _ h5).trans (genUniques_cast _ h6)))))
  | .tuple _ _, _, _, _, _, _, hi, _ => by simp [ifStmt] at hi
  | .badAssign _ _, _, _, _, _, _, hi, _ => by simp [ifStmt] at hi
  | .for_ _ _ _ _, _, _, _, _, _, hi, _ => by simp [ifStmt] at hi
  | .while_ _ _, _, _, _, _, _, hi, _ => by simp [ifStmt] at hi
  | .brk _, _, _, _, _, _, hi, _ => by simp [ifStmt] at hi
  | .ret _ _, _, _, _, _, _, hi, _ => by simp [ifStmt] at hi
  | .unsupported, _, _, _, _, _, hi, _ => by simp [ifStmt] at hi
theorem ifBlock_cast (L : Locals) : ∀ (ss : List Stmt) (lo : VSet) {L' : Locals} {ns : List Node} {s s' : St},
    ifBlock ss = true → convStmts L ss lo s = .ok ((L', ns), s') → CastOK s s'
  | [], lo, L', ns, s, s', _, h => by
    unfold convStmts at h
    obtain ⟨_, e2⟩ := pure_ok h
    subst e2
    exact CastOK.refl _
  | st :: ss, lo, L', ns, s, s', hi, h => by
    simp only [ifBlock, Bool.and_eq_true] at hi
    unfold convStmts at h
    mbind h with p s1 h1
    obtain ⟨L1, ns1⟩ := p
    try dsimp only at h
    mbind h with p s2 h2
    obtain ⟨L2, ns2⟩ := p
    try dsimp only at h
    obtain ⟨_, e2⟩ := pure_ok h
    subst e2
    exact (ifStmt_cast L st _ hi.1 h1).trans (ifBlock_cast L1 ss lo hi.2 h2)
end

end OV.C01

namespace OV.C01

variable {V : Type}

/-! ## The `If` node -/

theorem envSetMany_frame : ∀ (rn : List Name) (rs : List V) (env : Env V) (y : Name),
    y ∉ rn → (Env.setMany env rn rs) y = env y := by
  intro rn
  induction rn with
  | nil => intro rs env y _; cases rs <;> rfl
  | cons r rn ih =>
    intro rs env y hy
    cases rs with
    | nil => rfl
    | cons v rs =>
      simp only [Env.setMany]
      rw [ih rs _ y (fun hm => hy (List.mem_cons_of_mem _ hm))]
      exact Env.set_other env v (fun he => hy (he ▸ List.mem_cons_self))

theorem outs_values {env : Env V} {ρ' : Store V} : ∀ {os vs : List Name},
    All2 (fun o pv => ∃ v, env o = some v ∧ ρ' pv = some (PV.t v)) os vs →
    ∃ rs, os.mapM env = some rs ∧ All2 (fun r pv => ρ' pv = some (PV.t r)) rs vs := by
  intro os vs h
  induction h with
  | nil => exact ⟨[], by simp, All2.nil⟩
  | cons o pv os' vs' hr _ ih =>
    obtain ⟨v, hv, hp⟩ := hr
    obtain ⟨rs, hm, ha⟩ := ih
    exact ⟨v :: rs, by simp [List.mapM_cons, hv, hm], All2.cons _ _ _ _ hp ha⟩

/-- After `bindVals L xs rn` and `env.setMany rn rs`: every `x ∈ xs` is bound to a renamed value holding the
value of `x`. -/
theorem bind_set {ρ' : Store V} : ∀ (xs rn : List Name) (rs : List V) (L : Locals) (env : Env V),
    rn.Nodup → rn.length = xs.length → All2 (fun r pv => ρ' pv = some (PV.t r)) rs xs →
    ∀ x, x ∈ xs → ∃ r v, lookup (bindVals L xs rn) x = some (.val r) ∧ (Env.setMany env rn rs) r = some v
      ∧ ρ' x = some (PV.t v) ∧ r ∈ rn := by
  intro xs
  induction xs with
  | nil => intro rn rs L env _ _ _ x hx; cases hx
  | cons y ys ih =>
    intro rn rs L env hnd hlen hall x hx
    cases rn with
    | nil => simp at hlen
    | cons r rn' =>
      cases hall with
      | cons v _ rs' _ hv hrest =>
        simp only [List.nodup_cons] at hnd
        simp only [bindVals, Env.setMany]
        by_cases hm : x ∈ ys
        · obtain ⟨r2, v2, h1, h2, h3, h4⟩ := ih rn' rs' (bindVar L y (.val r)) (env.set r v) hnd.2
            (by simpa using hlen) hrest x hm
          exact ⟨r2, v2, h1, h2, h3, List.mem_cons_of_mem _ h4⟩
        · rcases List.mem_cons.mp hx with rfl | hx'
          · refine ⟨r, v, ?_, ?_, hv, List.mem_cons_self⟩
            · rw [lookup_bindVals_notin ys rn' _ hm]; exact lookup_bindVar_same _ _ _
            · rw [envSetMany_frame rn' rs' _ r hnd.1]; exact Env.set_same _ _ _
          · exact absurd hx' hm

theorem all2_len {α β : Type} {R : α → β → Prop} {as : List α} {bs : List β} (h : All2 R as bs) :
    as.length = bs.length := by
  induction h with
  | nil => rfl
  | cons _ _ _ _ _ _ ih => simp [ih]

theorem Inv.ext {S : Sem V} {Lv : VSet} {ρ : Store V} {L : Locals} {env env' : Env V} {s s' : St}
    (h : Inv S Lv ρ L env s) (e : Ext env env' s s') (m : Mono s s') (c : CastSub s') :
    Inv S Lv ρ L env' s' :=
  { vis := h.vis.mono m, noattr := h.noattr, cast := c, allT := h.allT,
    rel := h.rel.ext h.vis e, bound := h.bound }

/-- `Ext` from castable bookkeeping alone, when the environment is unchanged on old names. -/
theorem ext_of_cast {env env' : Env V} {s s' : St} (c : CastOK s s') (he : ∀ n, n ∈ s.used → env' n = env n) :
    Ext env env' s s' := ⟨he, c.ext⟩

end OV.C01

namespace OV.C01

variable {V : Type}

theorem genUniques_castable : ∀ (cs : List Name) {rs : List Name} {s s' : St},
    genUniques cs s = .ok (rs, s') → s'.castable = s.castable := by
  intro cs
  induction cs with
  | nil =>
    intro rs s s' h
    unfold genUniques at h
    obtain ⟨_, e2⟩ := pure_ok h
    subst e2; rfl
  | cons c cs ih =>
    intro rs s s' h
    unfold genUniques at h
    mbind h with r s1 h1
    mbind h with rs' s2 h2
    obtain ⟨_, e2⟩ := pure_ok h
    subst e2
    rw [ih h2, (genUnique_spec h1).2.2]

/-- One branch of an `if`, executed: its nodes evaluate (in the enclosing environment) and its outputs hold
the values the live definitions have in the store the branch ends with. -/
theorem branch_run (S : Sem V) (fuel : Nat) (hId : ∀ v, S.op "" "Identity" [some v] [] = some [v])
    {ss : List Stmt} {lo liveDefs : VSet} {ρ ρ' : Store V} {L Lb : Locals} {env1 : Env V} {sA sB sC : St}
    {bn bn2 : List Node} {bo : List Name}
    (IH : ∀ {ρ' : Store V} {L' : Locals} {env : Env V} {s s' : St} {ns : List Node},
      Inv S (liveInBlock ss lo) ρ ([] :: L) env s → evalBlock S fuel ss ρ = some (.normal ρ') →
      convStmts ([] :: L) ss lo s = .ok ((L', ns), s') →
      ∃ env', evalNodes S fuel env ns = some env' ∧ Inv S lo ρ' L' env' s' ∧ Ext env env' s s' ∧ Mono s s')
    (hinv : Inv S (liveInBlock ss lo) ρ L env1 sA) (hld : ∀ x, x ∈ liveDefs → x ∈ lo)
    (hfreeB : FreeOf S Lb liveDefs)
    (he : evalBlock S fuel ss ρ = some (.normal ρ'))
    (h2 : convStmts ([] :: L) ss lo sA = .ok ((Lb, bn), sB))
    (h3 : blockOutputs Lb liveDefs bn [] sB = .ok ((bo, bn2), sC)) :
    ∃ envB rs, evalNodes S fuel env1 (bn ++ bn2) = some envB ∧ bo.mapM envB = some rs
      ∧ All2 (fun r pv => ρ' pv = some (PV.t r)) rs liveDefs ∧ AllT S ρ' := by
  obtain ⟨envT, evT, invT, _, _⟩ := IH hinv.push he h2
  have hfT : ∀ pv, pv ∈ liveDefs → ∀ n, lookup Lb pv = some (.val n) →
      ∃ v, envT n = some v ∧ ρ' pv = some (.t v) := by
    intro pv hpv n hl
    cases hq : ρ' pv with
    | none => exact absurd hq (invT.bound pv n hl)
    | some q =>
      obtain ⟨v, rfl⟩ := invT.allT pv q hq (hfreeB pv hpv).2
      obtain ⟨n', hl', hr⟩ := invT.rel pv _ (restrict_some.mpr ⟨hld pv hpv, hq⟩)
      rw [hl] at hl'
      cases hl'
      exact ⟨v, hr.1, rfl⟩
  obtain ⟨envT2, evT2, _, _, _, aT2⟩ := blockOutputs_sim S fuel hId Lb liveDefs bn [] invT.vis hfreeB hfT h3
  obtain ⟨rs, hrs, hall⟩ := outs_values aT2
  exact ⟨envT2, rs, evalNodes_seq evT evT2, hrs, hall, invT.allT⟩

mutual
theorem stmt_step (S : Sem V) (fuel : Nat) (hConst : ∀ l, ∃ c, constOf S l = some c)
    (hId : ∀ v, S.op "" "Identity" [some v] [] = some [v])
    (hTL : ∀ l c b, constOf S l = some c → truthPV S (.py l) = some b → S.truth c = some b) :
    ∀ (st : Stmt) (lo : VSet) {ρ ρ' : Store V} {L L' : Locals} {env : Env V} {s s' : St} {ns : List Node},
    ifStmt st = true → FreeOf S L (targetsStmt st) → Inv S (liveInStmt st lo) ρ L env s →
    evalStmt S fuel st ρ = some (.normal ρ') → convStmt L st lo s = .ok ((L', ns), s') →
    ∃ env', evalNodes S fuel env ns = some env' ∧ Inv S lo ρ' L' env' s' ∧ Ext env env' s s' ∧ Mono s s'
  | .assign x e, lo, ρ, ρ', L, L', env, s, s', ns, hi, hfree, hinv, he, h => by
    simp only [ifStmt] at hi
    exact assign_step S fuel hConst hi (TFree.of_free hinv.noattr hfree) hinv he h
  | .par xs es, lo, ρ, ρ', L, L', env, s, s', ns, hi, hfree, hinv, he, h => by
    simp only [ifStmt] at hi
    exact par_step S fuel hConst hi (TFree.of_free hinv.noattr hfree) hinv he h
  | .skip, lo, ρ, ρ', L, L', env, s, s', ns, hi, _, hinv, he, h => by
    unfold evalStmt at he
    cases he
    unfold convStmt at h
    obtain ⟨q1, q2⟩ := pure_ok h
    cases q1; subst q2
    unfold liveInStmt at hinv
    exact ⟨env, evalNodes_nil _ _ _, hinv, Ext.refl _ _, Mono.refl _⟩
  | .ite c t e, lo, ρ, ρ', L, L', env, s, s', ns, hi0, hfree, hinv, he, h => by
    have hfr := convStmt_fresh L _ lo h
    have hsc := convStmt_scope L _ lo hinv.vis (fun x hx => hx) h
    have hcast := ifStmt_cast L _ lo hi0 h
    have hi := hi0
    simp only [ifStmt, Bool.and_eq_true] at hi
    unfold evalStmt at he
    cases hc : evalExpr S ρ c with
    | none => simp [hc] at he
    | some cv =>
      simp only [hc] at he
      cases hb : truthPV S cv with
      | none => simp [hb] at he
      | some b =>
        simp only [hb] at he
        unfold convStmt at h
        cases ha : assignedStmt (.ite c t e) with
        | none => simp only [ha] at h; exact (failM_ok h).elim
        | some defs =>
          simp only [ha] at h
          mbind h with p s1 h1
          obtain ⟨test, ns0⟩ := p
          try dsimp only at h
          mbind h with p s2 h2
          obtain ⟨Lt, tn⟩ := p
          try dsimp only at h
          mbind h with p s3 h3
          obtain ⟨to, tn2⟩ := p
          try dsimp only at h
          mbind h with p s4 h4
          obtain ⟨Le, en⟩ := p
          try dsimp only at h
          mbind h with p s5 h5
          obtain ⟨eo, en2⟩ := p
          try dsimp only at h
          mbind h with renamed s6 h6
          by_cases hre : renamed.isEmpty = true
          · rw [if_pos hre] at h; exact (failM_ok h).elim
          · rw [if_neg hre] at h
            by_cases hrt : (renamed == [test]) = true
            · rw [if_pos hrt] at h; exact (failM_ok h).elim
            · rw [if_neg hrt] at h
              obtain ⟨q1, q2⟩ := pure_ok h
              cases q1; subst q2
              -- the two branches' assigned sets
              obtain ⟨ta, ea, hta, hea, hdefs⟩ : ∃ ta ea, assignedBlock t = some ta ∧ assignedBlock e = some ea
                  ∧ defs = vunion ta ea := by
                simp only [assignedStmt] at ha
                cases hta : assignedBlock t with
                | none => simp [hta] at ha
                | some ta =>
                  cases hea : assignedBlock e with
                  | none => simp [hta, hea] at ha
                  | some ea =>
                    simp only [hta, hea] at ha
                    cases ha
                    exact ⟨ta, ea, rfl, rfl, rfl⟩
              have hld : ∀ x, x ∈ vinter lo defs → x ∈ lo := fun x hx => (mem_vinter.mp hx).1
              have hfreeT : FreeOf S ([] :: L) (targetsBlock t) :=
                (hfree.sub (fun x hx => by simp [targetsStmt, hx])).mono (AttrMono.push L)
              have hfreeE : FreeOf S ([] :: L) (targetsBlock e) :=
                (hfree.sub (fun x hx => by simp [targetsStmt, hx])).mono (AttrMono.push L)
              have hfreeD : FreeOf S ([] :: L) (vinter lo defs) :=
                (hfree.sub (fun x hx => assigned_sub_targets _ ha x (mem_vinter.mp hx).2)).mono (AttrMono.push L)
              have hTF : TFree S (targetsStmt (.ite c t e)) := TFree.of_free hinv.noattr hfree
              have hTD : ∀ x, x ∈ vinter lo defs → S.attrLit x = none := fun x hx =>
                (hTF x (assigned_sub_targets _ ha x (mem_vinter.mp hx).2)).1
              -- condition
              have hLv : ∀ y, y ∈ usedVars c → y ∈ liveInStmt (.ite c t e) lo := by
                intro y hy; unfold liveInStmt; exact mem_vunion.mpr (Or.inr hy)
              have hc' : evalExpr S (restrict ρ (liveInStmt (.ite c t e) lo)) c = some cv := by
                rw [evalExpr_restrict S ρ _ c hLv]; exact hc
              obtain ⟨env1, ev1, r1, x1, c1⟩ :=
                convExpr_sim S fuel hConst _ L hinv.noattr c _ hinv.vis hinv.rel hinv.cast hc' h1
              -- the condition: a tensor, or the constant of a Python value (an attribute parameter `if flag:`)
              obtain ⟨cvv, htest, hbt⟩ : ∃ cvv, env1 test = some cvv ∧ S.truth cvv = some b := by
                cases cv with
                | t v => exact ⟨v, r1.1, hb⟩
                | py l =>
                  obtain ⟨⟨cc, hcc, hev⟩, _⟩ := r1
                  exact ⟨cc, hev, hTL l cc b hcc hb⟩
              have k1 := convExpr_cast L c _ h1
              have hinv1 : Inv S (liveInStmt (.ite c t e) lo) ρ L env1 s1 := hinv.ext x1 k1.mono c1
              have k2 := ifBlock_cast _ t lo hi.1.2 h2
              have k3 := blockOutputs_cast _ _ _ _ h3
              have k4 := ifBlock_cast _ e lo hi.2 h4
              have k5 := blockOutputs_cast _ _ _ _ h5
              have k15 : CastOK s s5 := k1.trans (k2.trans (k3.trans (k4.trans k5)))
              obtain ⟨m6, f6, l6⟩ := genUniques_fresh _ h6
              have hc6 := genUniques_castable _ h6
              have hnotin : ∀ n, n ∈ s.used → n ∉ renamed := fun n hn hm => (f6.2 n hm).1 (k15.mono n hn)
              -- everything after the node evaluation is common to both branches
              have finish : ∀ (rs : List V) (aset : VSet), (∀ x, x ∈ aset → x ∈ defs) → RunOK S ρ ρ' (some aset) →
                  All2 (fun r pv => ρ' pv = some (PV.t r)) rs (vinter lo defs) →
                  evalNodes S fuel env1 [Node.ifN test renamed (tn ++ tn2) to (en ++ en2) eo]
                    = some (env1.setMany renamed rs) →
                  ∃ env', evalNodes S fuel env (ns0 ++ [Node.ifN test renamed (tn ++ tn2) to (en ++ en2) eo])
                      = some env' ∧ Inv S lo ρ' (bindVals L (vinter lo defs) renamed) env' s6
                      ∧ Ext env env' s s6 ∧ Mono s s6 := by
                intro rs aset hsub run hall evNode
                have xfin : Ext env (env1.setMany renamed rs) s s6 :=
                  ⟨fun n hn => by rw [envSetMany_frame renamed rs env1 n (hnotin n hn)]; exact x1.envSame n hn,
                   hcast.ext⟩
                refine ⟨_, evalNodes_seq ev1 evNode, ?_, xfin, hfr.1⟩
                refine ⟨hsc.2.mono (fun y hy => after_in_used hfr hy), hinv.noattr.bindVals _ _ hTD,
                  hcast.sub hinv.cast, run.allT, ?_, ?_⟩
                · intro y q hy
                  obtain ⟨hm, hq⟩ := restrict_some.mp hy
                  by_cases hyl : y ∈ vinter lo defs
                  · obtain ⟨r, v, hl, hev, hρ, hrn⟩ :=
                      bind_set (vinter lo defs) renamed rs L env1 f6.1 l6 hall y hyl
                    rw [hρ] at hq
                    cases hq
                    refine ⟨r, hl, hev, ?_⟩
                    intro hcst
                    rw [hc6] at hcst
                    exact (f6.2 r hrn).1 (k15.sub hinv.cast r hcst)
                  · have hnd : y ∉ defs := fun hd => hyl (mem_vinter.mpr ⟨hm, hd⟩)
                    have hyLv : y ∈ liveInStmt (.ite c t e) lo := live_pass_stmt _ lo hi0 ha hm hnd
                    have hρy : ρ' y = ρ y := run.frame aset rfl y (fun hmem => hnd (hsub y hmem))
                    rw [hρy] at hq
                    obtain ⟨n, hl, hr⟩ := hinv.rel y q (restrict_some.mpr ⟨hyLv, hq⟩)
                    exact ⟨n, by rw [lookup_bindVals_notin _ _ _ hyl]; exact hl, hr.ext (hinv.vis.lookup hl) xfin⟩
                · intro y n hl
                  by_cases hyl : y ∈ vinter lo defs
                  · obtain ⟨r, v, _, _, hρ, _⟩ :=
                      bind_set (vinter lo defs) renamed rs L env1 f6.1 l6 hall y hyl
                    rw [hρ]; simp
                  · rw [lookup_bindVals_notin _ _ _ hyl] at hl
                    exact run.dom y (hinv.bound y n hl)
              cases b with
              | true =>
                simp only at he
                obtain ⟨ρt, hρt, runT⟩ := ifBlock_run S fuel t hi.1.2 (hTF.sub (fun y hy => by simp [targetsStmt, hy])) hinv.allT he
                cases hρt
                have hinvT : Inv S (liveInBlock t lo) ρ L env1 s1 := hinv1.mono (by
                  intro y hy; unfold liveInStmt
                  exact mem_vunion.mpr (Or.inl (mem_vunion.mpr (Or.inl hy))))
                obtain ⟨envB, rs, evB, hrs, hall, _⟩ := branch_run S fuel hId
                  (fun hi' he' hc' => block_step S fuel hConst hId hTL t lo hi.1.2 hfreeT hi' he' hc') hinvT hld
                  (hfreeD.mono (convStmts_attrMono _ _ _ h2)) he h2 h3
                have hlen : rs.length = renamed.length := by rw [all2_len hall, l6]
                refine finish rs ta (fun x hx => by rw [hdefs]; exact mem_vunion.mpr (Or.inl hx))
                  (by rw [← hta]; exact runT) hall ?_
                simp [evalNodes, evalNode, htest, hbt, evB, Env.getMany, hrs, hlen]
              | false =>
                simp only at he
                obtain ⟨ρt, hρt, runE⟩ := ifBlock_run S fuel e hi.2 (hTF.sub (fun y hy => by simp [targetsStmt, hy])) hinv.allT he
                cases hρt
                have k13 : CastOK s1 s3 := k2.trans k3
                have hinv3 : Inv S (liveInStmt (.ite c t e) lo) ρ L env1 s3 :=
                  hinv1.ext (ext_of_cast k13 (fun _ _ => rfl)) k13.mono (k13.sub c1)
                have hinvE : Inv S (liveInBlock e lo) ρ L env1 s3 := hinv3.mono (by
                  intro y hy; unfold liveInStmt
                  exact mem_vunion.mpr (Or.inl (mem_vunion.mpr (Or.inr hy))))
                obtain ⟨envB, rs, evB, hrs, hall, _⟩ := branch_run S fuel hId
                  (fun hi' he' hc' => block_step S fuel hConst hId hTL e lo hi.2 hfreeE hi' he' hc') hinvE hld
                  (hfreeD.mono (convStmts_attrMono _ _ _ h4)) he h4 h5
                have hlen : rs.length = renamed.length := by rw [all2_len hall, l6]
                refine finish rs ea (fun x hx => by rw [hdefs]; exact mem_vunion.mpr (Or.inr hx))
                  (by rw [← hea]; exact runE) hall ?_
                simp [evalNodes, evalNode, htest, hbt, evB, Env.getMany, hrs, hlen]
  | .tuple _ _, _, _, _, _, _, _, _, _, _, hi, _, _, _, _ => by simp [ifStmt] at hi
  | .badAssign _ _, _, _, _, _, _, _, _, _, _, hi, _, _, _, _ => by simp [ifStmt] at hi
  | .for_ _ _ _ _, _, _, _, _, _, _, _, _, _, hi, _, _, _, _ => by simp [ifStmt] at hi
  | .while_ _ _, _, _, _, _, _, _, _, _, _, hi, _, _, _, _ => by simp [ifStmt] at hi
  | .brk _, _, _, _, _, _, _, _, _, _, hi, _, _, _, _ => by simp [ifStmt] at hi
  | .ret _ _, _, _, _, _, _, _, _, _, _, hi, _, _, _, _ => by simp [ifStmt] at hi
  | .unsupported, _, _, _, _, _, _, _, _, _, hi, _, _, _, _ => by simp [ifStmt] at hi
theorem block_step (S : Sem V) (fuel : Nat) (hConst : ∀ l, ∃ c, constOf S l = some c)
    (hId : ∀ v, S.op "" "Identity" [some v] [] = some [v])
    (hTL : ∀ l c b, constOf S l = some c → truthPV S (.py l) = some b → S.truth c = some b) :
    ∀ (ss : List Stmt) (lo : VSet) {ρ ρ' : Store V} {L L' : Locals} {env : Env V} {s s' : St} {ns : List Node},
    ifBlock ss = true → FreeOf S L (targetsBlock ss) → Inv S (liveInBlock ss lo) ρ L env s →
    evalBlock S fuel ss ρ = some (.normal ρ') → convStmts L ss lo s = .ok ((L', ns), s') →
    ∃ env', evalNodes S fuel env ns = some env' ∧ Inv S lo ρ' L' env' s' ∧ Ext env env' s s' ∧ Mono s s'
  | [], lo, ρ, ρ', L, L', env, s, s', ns, _, _, hinv, he, h => by
    unfold evalBlock at he
    cases he
    unfold convStmts at h
    obtain ⟨q1, q2⟩ := pure_ok h
    cases q1; subst q2
    unfold liveInBlock at hinv
    exact ⟨env, evalNodes_nil _ _ _, hinv, Ext.refl _ _, Mono.refl _⟩
  | st :: ss, lo, ρ, ρ', L, L', env, s, s', ns, hi, hfree, hinv, he, h => by
    simp only [ifBlock, Bool.and_eq_true] at hi
    unfold liveInBlock at hinv
    unfold evalBlock at he
    cases hs : evalStmt S fuel st ρ with
    | none => simp [hs] at he
    | some o1 =>
      obtain ⟨ρ1, rfl, _⟩ := ifStmt_run S fuel st hi.1 (TFree.of_free hinv.noattr hfree.head.1) hinv.allT hs
      simp only [hs] at he
      unfold convStmts at h
      mbind h with p s1 h1
      obtain ⟨L1, ns1⟩ := p
      try dsimp only at h
      mbind h with p s2 h2
      obtain ⟨L2, ns2⟩ := p
      try dsimp only at h
      obtain ⟨q1, q2⟩ := pure_ok h
      cases q1; subst q2
      obtain ⟨env1, ev1, inv1, x1, m1⟩ := stmt_step S fuel hConst hId hTL st _ hi.1 hfree.head.1 hinv hs h1
      obtain ⟨env2, ev2, inv2, x2, m2⟩ := block_step S fuel hConst hId hTL ss lo hi.2
        (hfree.head.2.mono (convStmt_attrMono L st _ h1)) inv1 he h2
      exact ⟨env2, evalNodes_seq ev1 ev2, inv2, x1.trans m1 x2, m1.trans m2⟩
end

end OV.C01

namespace OV.C01

variable {V : Type}

/-! ## Function level -/

theorem ifLine_cons {st : Stmt} {ss : List Stmt} (h : ifLine (st :: ss) = true) :
    (∃ es, st = .ret es false ∧ ss = []) ∨ (ifStmt st = true ∧ ifLine ss = true) := by
  unfold ifLine at h
  cases st with
  | ret es bare =>
    cases ss with
    | nil =>
      simp only [Bool.not_eq_true'] at h
      subst h
      exact Or.inl ⟨es, rfl, rfl⟩
    | cons s2 ss2 => simp [ifStmt] at h
  | _ => right; simpa using h

theorem convTop_if_sim (S : Sem V) (fuel : Nat) (hConst : ∀ l, ∃ c, constOf S l = some c)
    (hId : ∀ v, S.op "" "Identity" [some v] [] = some [v])
    (hTL : ∀ l c b, constOf S l = some c → truthPV S (.py l) = some b → S.truth c = some b) {inputs : List Name} {rc : Option Nat} :
    ∀ (body : List Stmt) (L : Locals) {ρ : Store V} {env : Env V} {s s' : St} {ns : List Node}
      {outs : List Name} {pvs : List (PV V)} {vs : List V},
      ifLine body = true → FreeOf S L (targetsBlock body) → Inv S (liveInBlock body []) ρ L env s →
      evalBlock S fuel body ρ = some (.returned pvs) → pvs.mapM (toTensor S) = some vs →
      convTop inputs rc L body [] s = .ok ((ns, outs), s') →
      ∃ env', evalNodes S fuel env ns = some env' ∧ outs.mapM env' = some vs := by
  intro body
  induction body with
  | nil => intro L ρ env s s' ns outs pvs vs hi; simp [ifLine] at hi
  | cons st ss ih =>
    intro L ρ env s s' ns outs pvs vs hi hfree hinv he hv h
    rcases ifLine_cons hi with ⟨es, rfl, rfl⟩ | ⟨hst, hss⟩
    · -- the final return
      simp only [liveInBlock, liveInStmt] at hinv
      unfold evalBlock at he
      simp only [evalStmt] at he
      cases hes : evalExprs S ρ es with
      | none => simp [hes] at he
      | some pvs' =>
        simp only [hes] at he
        cases he
        unfold convTop at h
        mbind h with p s1 h1
        have h1 := (onlyLast_ok h1).2
        obtain ⟨outs1, ns1⟩ := p
        try dsimp only at h
        have hall : ∃ single, convRetAll L inputs single es 0 [] s = .ok ((outs1, ns1), s1) := by
          unfold convRetStmt at h1
          simp only [Bool.false_eq_true, if_false] at h1
          cases rc with
          | none => exact ⟨_, h1⟩
          | some k =>
            simp only at h1
            by_cases hk : k ≠ es.length
            · rw [if_pos hk] at h1; exact (failM_ok h1).elim
            · rw [if_neg hk] at h1; exact ⟨_, h1⟩
        obtain ⟨single, hall⟩ := hall
        have hes' : evalExprs S (restrict ρ (usedVarsL es)) es = some pvs := by
          rw [evalExprs_restrict S ρ _ es (fun _ hx => hx)]; exact hes
        obtain ⟨env1, ev1, hm1⟩ := convRetAll_sim S fuel hConst hId hinv.noattr es 0 [] (vals := [])
          hinv.vis hinv.rel hinv.cast (by simp) (fun o ho => by cases ho) hes' hv hall
        mbind h with p s2 h2
        obtain ⟨ns2, outs2⟩ := p
        try dsimp only at h
        obtain ⟨q1, q2⟩ := pure_ok h
        cases q1
        unfold convTop at h2
        obtain ⟨q1, q2⟩ := pure_ok h2
        cases q1
        exact ⟨env1, by simpa using ev1, by simpa using hm1⟩
    · unfold liveInBlock at hinv
      unfold evalBlock at he
      cases hs : evalStmt S fuel st ρ with
      | none => simp [hs] at he
      | some o1 =>
        obtain ⟨ρ1, rfl, _⟩ := ifStmt_run S fuel st hst (TFree.of_free hinv.noattr hfree.head.1) hinv.allT hs
        simp only [hs] at he
        have hnr : ∀ es b, st ≠ .ret es b := by
          intro es b hc
          subst hc
          simp [ifStmt] at hst
        rw [convTop_cons_nonret inputs rc L st ss [] hnr] at h
        mbind h with p s1 h1
        obtain ⟨L1, ns1⟩ := p
        try dsimp only at h
        mbind h with p s2 h2
        obtain ⟨ns2, outs2⟩ := p
        try dsimp only at h
        obtain ⟨q1, q2⟩ := pure_ok h
        cases q1
        obtain ⟨env1, ev1, inv1, _, _⟩ := stmt_step S fuel hConst hId hTL st _ hst hfree.head.1 hinv hs h1
        obtain ⟨env2, ev2, hm2⟩ := ih L1 hss (hfree.head.2.mono (convStmt_attrMono L st _ h1)) inv1 he hv h2
        exact ⟨env2, evalNodes_seq ev1 ev2, hm2⟩

theorem paramFrame_key : ∀ (ps : List Param) (x n : Name), (x, Bind.val n) ∈ paramFrame ps →
    x ∈ tensorParams ps := by
  intro ps
  induction ps with
  | nil => intro x n h; simp [paramFrame] at h
  | cons p ps ih =>
    intro x n h
    cases p with
    | tensor y =>
      simp only [paramFrame, List.mem_append, List.mem_singleton] at h
      rcases h with h | h
      · have := ih x n h
        simp [tensorParams] at this ⊢
        exact Or.inr this
      · cases h
        simp [tensorParams]
    | attr y ty =>
      simp only [paramFrame, List.mem_append, List.mem_singleton] at h
      rcases h with h | h
      · have := ih x n h
        simpa [tensorParams] using this
      · cases h

/-- **Refinement for functions made of assignments and nested `if`/`else`.** -/
theorem convert_correct_if (S : Sem V) (hConst : ∀ l, ∃ c, constOf S l = some c)
    (hId : ∀ v, S.op "" "Identity" [some v] [] = some [v])
    (hTL : ∀ l c b, constOf S l = some c → truthPV S (.py l) = some b → S.truth c = some b) {f : Func} {g : Graph}
    (hil : ifLine f.body = true) (hattr : ∀ p, p ∈ attrParams f.params → p ∉ targetsBlock f.body)
    (hσ : ∀ x l, S.attrLit x = some l → ∃ ty, Param.attr x ty ∈ f.params ∧ AttrVal S x ty l)
    (hPy : ∀ x, x ∈ S.pyVars → x ∉ targetsBlock f.body)
    (hnames : (f.params.map Param.name).Nodup) (h : convert f = .ok g)
    {fuel : Nat} {args vs : List V} (he : evalFunc S fuel f args = some vs) :
    evalGraph S fuel g args = some vs := by
  obtain ⟨h, _, d0, ha0⟩ := convert_core h
  unfold convertCore at h
  cases ha : assignedBlock f.body with
  | none => rw [ha] at ha0; cases ha0
  | some d =>
    simp only at h
    cases hc : convTop (tensorParams f.params) f.retCount [paramFrame f.params] f.body []
        { used := (tensorParams f.params).reverse, next := 0, castable := [] } with
    | error e => rw [hc] at h; cases h
    | ok r =>
      obtain ⟨⟨ns, outs⟩, s'⟩ := r
      rw [hc] at h
      cases h
      unfold evalFunc at he
      simp only at he
      by_cases hlen : args.length = (tensorParams f.params).length
      · rw [if_pos hlen] at he
        cases hb : evalBlock S fuel f.body
            (Store.setMany (fun _ => none) (tensorParams f.params) (args.map PV.t)) with
        | none => simp [hb] at he
        | some o =>
          cases o with
          | normal _ => simp [hb] at he
          | broke _ => simp [hb] at he
          | returned pvs =>
            simp only [hb] at he
            have hrelst := setMany_rel (tensorParams f.params) args (fun _ => none) (fun _ => none)
              (fun _ => rfl)
            have hL : VisOK (tensorParams f.params).reverse [paramFrame f.params] := by
              intro fr hfr p hp n hn
              simp only [List.mem_singleton] at hfr
              subst hfr
              simpa using paramFrame_vis _ p hp n hn
            have hinv : Inv S (liveInBlock f.body [])
                (Store.setMany (fun _ => none) (tensorParams f.params) (args.map PV.t))
                [paramFrame f.params] (Env.setMany (fun _ => none) (tensorParams f.params) args)
                { used := (tensorParams f.params).reverse, next := 0, castable := [] } := by
              refine ⟨hL, noAttrBind_paramFrame _ hnames hσ, (fun n hn => by cases hn), ?_, ?_, ?_⟩
              · intro x pv hx
                rw [hrelst] at hx
                cases hev : Env.setMany (fun _ => none) (tensorParams f.params) args x with
                | none => simp [hev] at hx
                | some v => simp only [hev, Option.map_some] at hx; cases hx; exact fun _ => ⟨v, rfl⟩
              · intro x pv hx
                obtain ⟨_, hx⟩ := restrict_some.mp hx
                rw [hrelst] at hx
                cases hev : Env.setMany (fun _ => none) (tensorParams f.params) args x with
                | none => simp [hev] at hx
                | some v =>
                  simp only [hev, Option.map_some] at hx
                  cases hx
                  have hmem : x ∈ tensorParams f.params := by
                    rcases setMany_dom _ _ _ _ _ hev with h' | h'
                    · exact h'
                    · cases h'
                  refine ⟨x, ?_, hev, by simp⟩
                  simp only [lookup]
                  rw [paramFrame_find _ x hnames hmem]
              · intro x n hl
                obtain ⟨fr, hfr, hm⟩ := lookup_mem hl
                simp only [List.mem_singleton] at hfr
                subst hfr
                exact setMany_defined _ _ _ x (by simpa using hlen.symm) (paramFrame_key _ x n hm)
            obtain ⟨env', ev, hm⟩ := convTop_if_sim S fuel hConst hId hTL f.body [paramFrame f.params] hil
              (freeOf_paramFrame _ _ hattr hPy) hinv hb he hc
            unfold evalGraph
            simp only [hlen, if_true, ev]
            exact hm
      · rw [if_neg hlen] at he; cases he

end OV.C01
