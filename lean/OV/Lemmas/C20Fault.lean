import OV.Model.C20Save
import OV.Lemmas.C20Save
/-!
# C20 — a planned fault is never swallowed

`Fired s`: the planned fault index lies below the call counter, i.e. the faulted call has been made.  `NS f`: started in
a state where the fault has not fired, a **normal** return of `f` leaves a state where it still has not — so if the fault
fires inside `f`, `f` ends with an exception.  Proved once for every function of the model.
-/
namespace OV.C20
set_option linter.unusedSectionVars false

def Fired (s : St) : Prop := ∃ n, s.k = some n ∧ n < s.calls

def NS (f : M α) : Prop := ∀ s, ¬ Fired s → ∀ a s', f s = (.ok a, s') → ¬ Fired s'

/-- A state change that leaves the fault plan and the call counter alone. -/
def Quiet (g : St → St) : Prop := ∀ s, (g s).k = s.k ∧ (g s).calls = s.calls

theorem fired_quiet {g : St → St} (hg : Quiet g) (s : St) : Fired (g s) ↔ Fired s := by
  unfold Fired
  rw [(hg s).1, (hg s).2]

theorem ns_pure (a : α) : NS (pure a : M α) := by
  intro s hs b s' h
  cases h
  exact hs

theorem ns_throw (e : Err) : NS (throw e : M α) := by
  intro s _ b s' h
  cases h

theorem ns_get : NS get := by
  intro s hs b s' h
  cases h
  exact hs

theorem ns_modify {g : St → St} (hg : Quiet g) : NS (modify g) := by
  intro s hs b s' h
  cases h
  rw [fired_quiet hg]
  exact hs

theorem ns_bind {f : M α} {g : α → M β} (hf : NS f) (hg : ∀ a, NS (g a)) : NS (f >>= g) := by
  intro s hs b s' h
  change M.bind f g s = _ at h
  unfold M.bind at h
  cases hfs : f s with
  | mk r s1 =>
    rw [hfs] at h
    cases r with
    | ok a => exact hg a s1 (hf s hs a s1 hfs) b s' h
    | error e => cases h

theorem ns_tick (op : Op) : NS (tick op) := by
  intro s hs b s' h
  unfold tick at h
  by_cases hk : s.k = some s.calls
  · simp only [hk, if_true] at h
    cases h
  · simp only [hk, if_false] at h
    cases h
    rintro ⟨n, hn1, hn2⟩
    simp only [] at hn1 hn2
    apply hs
    refine ⟨n, hn1, ?_⟩
    have : n ≠ s.calls := by intro hh; apply hk; rw [hn1, hh]
    omega

theorem ns_tryFinally {body : M α} {fin : St → St} (hb : NS body) (hf : Quiet fin) : NS (tryFinally body fin) := by
  intro s hs b s' h
  unfold tryFinally at h
  cases hbs : body s with
  | mk r s1 =>
    rw [hbs] at h
    simp only [Prod.mk.injEq] at h
    obtain ⟨rfl, rfl⟩ := h
    rw [fired_quiet hf]
    exact hb s hs b s1 hbs

theorem ns_withClose {body : M α} (f : String) (hb : NS body) : NS (withClose f body) := by
  intro s hs b s' h
  unfold withClose at h
  cases hbs : body s with
  | mk r s1 =>
    rw [hbs] at h
    cases r with
    | ok a =>
      simp only [] at h
      cases ht : tick (.close f) s1 with
      | mk r2 s2 =>
        rw [ht] at h
        cases r2 with
        | ok u =>
          simp only [Prod.mk.injEq] at h
          obtain ⟨_, rfl⟩ := h
          exact ns_tick _ s1 (hb s hs a s1 hbs) u s2 ht
        | error e => cases h
    | error e =>
      simp only [] at h
      cases ht : tick (.close f) s1 with
      | mk r2 s2 => rw [ht] at h; cases r2 <;> cases h

theorem ns_mapM' {f : α → M β} (hf : ∀ a, NS (f a)) : ∀ l, NS (mapM' f l)
  | [] => ns_pure _
  | a :: as => by
    unfold mapM'
    exact ns_bind (hf a) (fun _ => ns_bind (ns_mapM' hf as) (fun _ => ns_pure _))

theorem ns_forM' {f : α → M Unit} (hf : ∀ a, NS (f a)) : ∀ l, NS (forM' f l)
  | [] => ns_pure _
  | a :: as => by
    unfold forM'
    exact ns_bind (hf a) (fun _ => ns_forM' hf as)

theorem quiet_of_rfl {g : St → St} (h : ∀ s, (g s).k = s.k ∧ (g s).calls = s.calls) : Quiet g := h

theorem ns_needHandle (f : String) : NS (needHandle f) := by
  intro s hs b s' h
  unfold needHandle at h
  split at h
  · cases h; exact hs
  · cases h

theorem ns_fsOpenW (f : String) : NS (fsOpenW f) := by
  unfold fsOpenW
  exact ns_bind (ns_tick _) (fun _ => ns_modify (fun _ => ⟨rfl, rfl⟩))

theorem ns_fsWrite (f : String) (b : Bytes) : NS (fsWrite f b) := by
  unfold fsWrite
  exact ns_bind (ns_needHandle f) (fun _ => ns_bind (ns_tick _) (fun _ => ns_modify (fun _ => ⟨rfl, rfl⟩)))

theorem ns_fsCWrite (f : String) (b : Bytes) : NS (fsCWrite f b) := by
  unfold fsCWrite
  exact ns_bind (ns_needHandle f) (fun _ => ns_modify (fun _ => ⟨rfl, rfl⟩))

theorem ns_fsWriteProto (f : String) (p : Proto) : NS (fsWriteProto f p) := by
  unfold fsWriteProto
  exact ns_bind (ns_needHandle f) (fun _ => ns_bind (ns_tick _) (fun _ => ns_modify (fun _ => ⟨rfl, rfl⟩)))

theorem ns_fsOpenR (f : String) : NS (fsOpenR f) := by
  unfold fsOpenR
  refine ns_bind (ns_tick _) (fun _ => ns_bind ns_get (fun s => ?_))
  split
  · exact ns_pure _
  · exact ns_throw _
  · exact ns_throw _

theorem ns_fileLen (f : String) : NS (fileLen f) := by
  unfold fileLen
  refine ns_bind ns_get (fun s => ?_)
  split <;> exact ns_pure _

theorem ns_newObj (t : TRef) : NS (newObj t) := by
  intro s hs b s' h
  unfold newObj at h
  cases h
  exact hs

theorem ns_getObj (id : Nat) : NS (getObj id) := by
  unfold getObj
  refine ns_bind ns_get (fun s => ?_)
  split
  · exact ns_pure _
  · exact ns_throw _

theorem ns_extToMem (id : Nat) : NS (extToMem id) := by
  unfold extToMem
  refine ns_bind (ns_getObj id) (fun t => ?_)
  split
  · exact ns_throw _
  · split
    · exact ns_throw _
    · split
      · exact ns_newObj _
      · refine ns_bind (ns_fsOpenR _) (fun whole => ?_)
        refine ns_bind (ns_withClose _ ?_) (fun _ => ?_)
        · split
          · exact ns_throw _
          · exact ns_pure _
        · split
          · exact ns_newObj _
          · exact ns_throw _

theorem ns_materializeOne (dest : String) (exists_ : Bool) (p : String × Nat) : NS (materializeOne dest exists_ p) := by
  unfold materializeOne
  split
  · exact ns_pure _
  · refine ns_bind (ns_getObj _) (fun t => ?_)
    split
    · split
      · refine ns_bind (ns_extToMem _) (fun nid => ?_)
        refine ns_bind ?_ (fun _ => ns_pure _)
        unfold invalidate
        exact ns_modify (fun _ => ⟨rfl, rfl⟩)
      · exact ns_pure _
    · exact ns_pure _

theorem ns_tofile (dest : String) (id : Nat) : NS (tofile dest id) := by
  unfold tofile
  refine ns_bind (ns_getObj id) (fun t => ?_)
  split
  · refine ns_bind (ns_tick _) (fun _ => ?_)
    refine ns_bind (ns_fsCWrite _ _) (fun _ => ?_)
    exact ns_bind (ns_fileLen _) (fun _ => ns_tick _)
  · exact ns_fsWrite _ _
  · split
    · exact ns_throw _
    · refine ns_bind (ns_fsOpenR _) (fun whole => ?_)
      apply ns_withClose
      refine ns_bind (ns_tick _) (fun _ => ?_)
      refine ns_bind (ns_forM' (fun c => ?_) _) (fun _ => ?_)
      · exact ns_bind (ns_tick _) (fun _ => ns_fsWrite _ _)
      · split
        · exact ns_bind (ns_tick _) (fun _ => ns_throw _)
        · exact ns_pure _

theorem ns_writeOne (dest : String) (verbose : Bool) (item : String × Nat × Nat) : NS (writeOne dest verbose item) := by
  unfold writeOne
  obtain ⟨name, id, off⟩ := item
  simp only []
  have rest : NS (do
      let size ← fileLen dest
      if off > size then do
          fsWrite dest (zeros (off - size))
          tofile dest id
        else tofile dest id) := by
    refine ns_bind (ns_fileLen _) (fun size => ?_)
    split
    · exact ns_bind (ns_fsWrite _ _) (fun _ => ns_tofile dest id)
    · exact ns_tofile dest id
  split
  · exact ns_bind (ns_modify (fun _ => ⟨rfl, rfl⟩)) (fun _ => rest)
  · exact rest

theorem ns_writeExternalData (dest : String) (verbose : Bool) (items : List (String × Nat × Nat)) :
    NS (writeExternalData dest verbose items) := by
  unfold writeExternalData
  refine ns_bind (ns_fsOpenW _) (fun _ => ?_)
  apply ns_withClose
  dsimp only
  split
  · exact ns_bind (ns_modify (fun _ => ⟨rfl, rfl⟩)) (fun _ => ns_forM' (fun it => ns_writeOne dest verbose it) _)
  · exact ns_forM' (fun it => ns_writeOne dest verbose it) _

theorem ns_placeAndWrite (dest : String) (verbose : Bool) (names : List String) (ids : List Nat) :
    NS (placeAndWrite dest verbose names ids) := by
  unfold placeAndWrite
  refine ns_bind (ns_mapM' (fun id => ?_) _) (fun sizes => ?_)
  · unfold sizeOf
    exact ns_bind (ns_getObj id) (fun _ => ns_pure _)
  · simp only []
    refine ns_bind (ns_writeExternalData dest verbose _) (fun _ => ?_)
    refine ns_bind (ns_mapM' (fun p => ?_) _) (fun made => ?_)
    · unfold makeExternal
      exact ns_bind (ns_newObj _) (fun _ => ns_pure _)
    · split
      · exact ns_pure _
      · exact ns_throw _

theorem ns_convertToExternal (dest : String) (verbose : Bool) (inp : List (String × Nat)) :
    NS (convertToExternal dest verbose inp) := by
  unfold convertToExternal
  refine ns_bind ns_get (fun s => ?_)
  simp only []
  exact ns_bind (ns_mapM' (fun p => ns_materializeOne dest _ p) _) (fun ids => ns_placeAndWrite dest verbose _ ids)

theorem ns_unload {thr : Nat} (names : List String) (dest : String) (verbose : Bool) : NS (unload thr names dest verbose) := by
  unfold unload
  refine ns_bind ns_get (fun s => ?_)
  refine ns_bind (ns_mapM' (fun i => ns_extToMem _) _) (fun memIds => ?_)
  refine ns_bind (ns_convertToExternal dest verbose _) (fun extIds => ?_)
  exact ns_modify (fun _ => ⟨rfl, rfl⟩)

theorem ns_save (cfg : Cfg) (sig : List (String × Bool)) (tnames : List String) (dir name : String) (verbose : Bool) :
    NS (save cfg sig tnames dir name verbose) := by
  unfold save
  refine ns_bind ns_get (fun s => ?_)
  split
  · exact ns_throw _
  · split
    · exact ns_throw _
    have hir : NS (irSave cfg.thr sig tnames dir name (name ++ ".data") verbose) := by
      unfold irSave
      refine ns_bind ns_get (fun s0 => ?_)
      apply ns_tryFinally
      · refine ns_bind (ns_unload _ _ verbose) (fun _ => ?_)
        refine ns_bind (ns_modify (fun _ => ⟨rfl, rfl⟩)) (fun _ => ?_)
        refine ns_bind ns_get (fun s1 => ?_)
        split
        · exact ns_throw _
        · simp only []
          refine ns_bind (ns_fsOpenW _) (fun _ => ?_)
          exact ns_withClose _ (ns_fsWriteProto _ _)
      · exact fun _ => ⟨rfl, rfl⟩
    split
    · exact ns_tryFinally hir (fun _ => ⟨rfl, rfl⟩)
    · exact hir

end OV.C20
