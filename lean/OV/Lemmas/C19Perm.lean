import OV.Model.C19Index
import Mathlib.Tactic.SplitIfs
/-! Linear case descriptions of the axis maps of `OV.Model.C19Fusions`, so that compositions can be closed by
`omega` with the maps kept opaque. -/
namespace OV.C19

theorem axSwap_cases (n k : Nat) :
    (k + 2 = n ∧ axSwap n k = n - 1) ∨ (k + 2 ≠ n ∧ k + 1 = n ∧ axSwap n k = n - 2)
      ∨ (k + 2 ≠ n ∧ k + 1 ≠ n ∧ axSwap n k = k) := by
  unfold axSwap; split_ifs <;> omega

theorem axRotL_cases (n k : Nat) :
    (k + 1 = n ∧ axRotL n k = 0) ∨ (k + 1 ≠ n ∧ axRotL n k = k + 1) := by
  unfold axRotL; split_ifs <;> omega

theorem axRotR_cases (n k : Nat) :
    (k = 0 ∧ axRotR n k = n - 1) ∨ (k ≠ 0 ∧ axRotR n k = k - 1) := by
  unfold axRotR; split_ifs <;> omega

theorem axBatch_cases (n k : Nat) :
    (k + 1 = n ∧ axBatch n k = n - 1) ∨ (k + 1 ≠ n ∧ k + 2 = n ∧ axBatch n k = 0)
      ∨ (k + 1 ≠ n ∧ k + 2 ≠ n ∧ axBatch n k = k + 1) := by
  unfold axBatch; split_ifs <;> omega

theorem axBatchInv_cases (n k : Nat) :
    (k + 1 = n ∧ axBatchInv n k = n - 1) ∨ (k + 1 ≠ n ∧ k = 0 ∧ axBatchInv n k = n - 2)
      ∨ (k + 1 ≠ n ∧ k ≠ 0 ∧ axBatchInv n k = k - 1) := by
  unfold axBatchInv; split_ifs <;> omega

theorem axSwap0L_cases (n k : Nat) :
    (k = 0 ∧ axSwap0L n k = n - 1) ∨ (k ≠ 0 ∧ k + 1 = n ∧ axSwap0L n k = 0)
      ∨ (k ≠ 0 ∧ k + 1 ≠ n ∧ axSwap0L n k = k) := by
  unfold axSwap0L; split_ifs <;> omega

end OV.C19
