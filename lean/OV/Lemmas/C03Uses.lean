import OV.Lemmas.C03Frag
/-!
# Helper lemmas: use counts and `_clear_unused_initializers` on the generic-folding fragment
-/
namespace OV.C03

variable {V : Type}

/-- occurrences of `x` among the (top-level) inputs of a node list -/
def cnt (x : Name) (l : List Node) : Nat := (l.flatMap fun n => n.inputs).count (some x)

theorem cnt_nil (x : Name) : cnt x [] = 0 := rfl
theorem cnt_cons (x : Name) (n : Node) (l : List Node) : cnt x (n :: l) = n.inputs.count (some x) + cnt x l := by
  simp [cnt, List.flatMap_cons, List.count_append]
theorem cnt_append (x : Name) (a b : List Node) : cnt x (a ++ b) = cnt x a + cnt x b := by
  simp [cnt, List.flatMap_append, List.count_append]

theorem usesOf_incUse (st : St) (y x : Name) : (st.incUse y).usesOf x = if x = y then st.usesOf x + 1 else st.usesOf x := by
  simp only [St.usesOf, St.incUse, lookupA_insert]
  by_cases h : x = y
  · subst h; simp
  · simp [h]

theorem usesOf_decUse (st : St) (y x : Name) : (st.decUse y).usesOf x = if x = y then st.usesOf x - 1 else st.usesOf x := by
  simp only [St.usesOf, St.decUse, lookupA_insert]
  by_cases h : x = y
  · subst h; simp
  · simp [h]

theorem usesOf_decUses (x : Name) : ∀ (xs : List (Option Name)) (st : St),
    (st.decUses xs).usesOf x = st.usesOf x - xs.count (some x) := by
  intro xs
  induction xs with
  | nil => intro st; simp [St.decUses]
  | cons y ys ih =>
    intro st
    simp only [St.decUses, List.foldl_cons] at ih ⊢
    cases y with
    | none =>
      rw [ih st]
      simp
    | some z =>
      rw [ih (st.decUse z), usesOf_decUse]
      by_cases h : x = z
      · subst h
        simp only [if_true, List.count_cons_self]
        omega
      · have : (some z == some x) = false := by simpa using fun e => h e.symm
        simp only [h, if_false, List.count_cons, this]
        simp

theorem usesOf_foldl_incUse (x : Name) : ∀ (l : List Name) (st : St),
    (l.foldl (fun st y => st.incUse y) st).usesOf x = st.usesOf x + l.count x := by
  intro l
  induction l with
  | nil => intro st; simp
  | cons y ys ih =>
    intro st
    simp only [List.foldl_cons]
    rw [ih, usesOf_incUse]
    by_cases h : x = y
    · subst h; simp; omega
    · have : (y == x) = false := by simpa using fun e => h e.symm
      simp [h, List.count_cons, this]

/-! ### bookkeeping fields through the gate cascade -/

/-- same use counts, graph inputs/outputs, popped initializers -/
def SameBk (st st' : St) : Prop :=
  st'.uses = st.uses ∧ st'.gins = st.gins ∧ st'.gouts = st.gouts ∧ st'.removed = st.removed

theorem SameBk.refl (st : St) : SameBk st st := ⟨rfl, rfl, rfl, rfl⟩
theorem SameBk.trans {a b c : St} (h1 : SameBk a b) (h2 : SameBk b c) : SameBk a c :=
  ⟨h2.1.trans h1.1, h2.2.1.trans h1.2.1, h2.2.2.1.trans h1.2.2.1, h2.2.2.2.trans h1.2.2.2⟩
theorem SameBk.usesOf {st st' : St} (h : SameBk st st') (x : Name) : st'.usesOf x = st.usesOf x := by
  simp only [St.usesOf, h.1]

theorem sameBk_gateProceed (ctx : Ctx) (st : St) (n : Node) : SameBk st (gateProceed ctx st n).2 := by
  unfold gateProceed
  split
  · exact ⟨rfl, rfl, rfl, rfl⟩
  · exact ⟨rfl, rfl, rfl, rfl⟩
  · split
    · exact ⟨rfl, rfl, rfl, rfl⟩
    · simp only []
      split
      · split
        · exact ⟨rfl, rfl, rfl, rfl⟩
        · exact ⟨rfl, rfl, rfl, rfl⟩
      · exact SameBk.refl st

theorem sameBk_emitFold (ctx : Ctx) (st : St) (n : Node) (c : CInfo) : SameBk st (emitFold ctx st n c).2 := by
  unfold emitFold
  simp only []
  split
  · exact ⟨rfl, rfl, rfl, rfl⟩
  · split
    · exact ⟨rfl, rfl, rfl, rfl⟩
    · split
      · split <;> exact ⟨rfl, rfl, rfl, rfl⟩
      · split <;> exact ⟨rfl, rfl, rfl, rfl⟩

theorem sameBk_gateCascade (ctx : Ctx) (st : St) (n : Node) (v : Nat) : SameBk st (gateCascade ctx st n v).2 := by
  unfold gateCascade
  split
  · exact ⟨rfl, rfl, rfl, rfl⟩
  · split
    · exact ⟨rfl, rfl, rfl, rfl⟩
    · split
      · exact ⟨rfl, rfl, rfl, rfl⟩
      · split
        · exact ⟨rfl, rfl, rfl, rfl⟩
        · split
          · exact ⟨rfl, rfl, rfl, rfl⟩
          · have hp := sameBk_gateProceed ctx st n
            split
            · rename_i st2 heq
              rw [heq] at hp
              exact hp
            · rename_i st2 heq
              rw [heq] at hp
              split
              · exact SameBk.trans hp ⟨rfl, rfl, rfl, rfl⟩
              · exact SameBk.trans hp ⟨rfl, rfl, rfl, rfl⟩
              · exact SameBk.trans hp (sameBk_emitFold ctx st2 n _)

/-! ### `_clear_unused_initializers` -/

theorem clearUnused_spec (ins : List Name) : ∀ (st : St),
    (clearUnused st ins).uses = st.uses ∧ (clearUnused st ins).gins = st.gins ∧ (clearUnused st ins).gouts = st.gouts ∧
    ∀ x, x ∈ (clearUnused st ins).removed → x ∈ st.removed ∨
      (st.usesOf x = 0 ∧ st.gouts.contains x = false ∧ st.gins.contains x = false) := by
  induction ins with
  | nil => intro st; exact ⟨rfl, rfl, rfl, fun x hx => Or.inl hx⟩
  | cons y ys ih =>
    intro st
    simp only [clearUnused, List.foldl_cons] at ih ⊢
    split
    · rename_i hc
      simp only [Bool.and_eq_true, Bool.not_eq_true', St.isGraphInput, beq_iff_eq] at hc
      obtain ⟨h1, h2, h3, h4⟩ := ih ({ st with removed := y :: st.removed, initDisplay := st.initDisplay.erase (st.display y) }.note "clear:initializer")
      refine ⟨h1, h2, h3, ?_⟩
      intro x hx
      rcases h4 x hx with h | h
      · simp only [St.note, List.mem_cons] at h
        rcases h with rfl | h
        · exact Or.inr ⟨hc.1.1.2, hc.1.2, hc.2⟩
        · exact Or.inl h
      · exact Or.inr h
    · exact ih st

/-! ### the bookkeeping invariant -/

/-- `l` = the nodes currently in the graph (processed and still to process). -/
structure Bk (g : Graph) (st : St) (l : List Node) : Prop where
  lb : ∀ x, cnt x l ≤ st.usesOf x
  gouts : ∀ o, g.outputs.contains o = true → st.gouts.contains o = true
  gins : ∀ i, g.inputs.contains i = true → st.gins.contains i = true
  rem : ∀ x, x ∈ st.removed → cnt x l = 0 ∧ g.outputs.contains x = false ∧ g.inputs.contains x = false
  nofresh : ∀ k : Nat, cnt ("%" ++ toString k) l = 0

theorem Bk.same {g : Graph} {st st' : St} {l l' : List Node} (h : Bk g st l) (hs : SameBk st st')
    (hl : ∀ x, cnt x l' = cnt x l) : Bk g st' l' := by
  refine ⟨?_, ?_, ?_, ?_, ?_⟩
  · intro x; rw [hl, hs.usesOf]; exact h.lb x
  · intro o ho; rw [hs.2.2.1]; exact h.gouts o ho
  · intro i hi; rw [hs.2.1]; exact h.gins i hi
  · intro x hx; rw [hs.2.2.2] at hx; rw [hl]; exact h.rem x hx
  · intro k; rw [hl]; exact h.nofresh k

theorem usesOf_inheritInfo (st3 : St) (o fv x : Name) (hx : x ≠ fv) :
    st3.usesOf x ≤ (inheritInfo st3 [(o, fv)]).usesOf x := by
  simp only [inheritInfo, List.foldl_cons, List.foldl_nil, St.usesOf, St.setInfo, St.clearSym, lookupA_insert, lookupA_erase]
  by_cases h : x = o
  · subst h; simp
  · simp [h, hx]

theorem sameBk_foldState_parts (st3 : St) (n : Node) (o fv : Name) (l : List Name) :
    (foldState st3 n o fv l).gins = st3.gins ∧ (foldState st3 n o fv l).gouts = st3.gouts ∧
    (∀ x, (foldState st3 n o fv l).usesOf x = (inheritInfo st3 [(o, fv)]).usesOf x - n.inputs.count (some x)) ∧
    (∀ x, x ∈ (foldState st3 n o fv l).removed → x ∈ st3.removed ∨
      ((foldState st3 n o fv l).usesOf x = 0 ∧ st3.gouts.contains x = false ∧ st3.gins.contains x = false)) := by
  obtain ⟨h1, h2, h3, h4⟩ := clearUnused_spec (n.inputs.filterMap id)
    { ((inheritInfo st3 [(o, fv)]).decUses n.inputs) with initNames := l }
  have hd := sameFrame_decUses n.inputs (inheritInfo st3 [(o, fv)])
  have hgouts_dec : ∀ (xs : List (Option Name)) (s : St), (s.decUses xs).gouts = s.gouts := by
    intro xs
    induction xs with
    | nil => intro s; rfl
    | cons y ys ih =>
      intro s
      simp only [St.decUses, List.foldl_cons] at ih ⊢
      cases y with
      | none => exact ih s
      | some z => exact ih (s.decUse z)
  have huses : ∀ x, (foldState st3 n o fv l).usesOf x = (inheritInfo st3 [(o, fv)]).usesOf x - n.inputs.count (some x) := by
    intro x
    have : (foldState st3 n o fv l).usesOf x = ((inheritInfo st3 [(o, fv)]).decUses n.inputs).usesOf x := by
      simp only [foldState, St.usesOf, h1]
    rw [this, usesOf_decUses]
  refine ⟨?_, ?_, huses, ?_⟩
  · show (clearUnused _ _).gins = st3.gins
    rw [h2]
    exact hd.1
  · show (clearUnused _ _).gouts = st3.gouts
    rw [h3]
    exact hgouts_dec n.inputs _
  · intro x hx
    have hx' : x ∈ (clearUnused { ((inheritInfo st3 [(o, fv)]).decUses n.inputs) with initNames := l } (n.inputs.filterMap id)).removed := hx
    rcases h4 x hx' with h | ⟨hu, hg, hi⟩
    · left
      have : ({ ((inheritInfo st3 [(o, fv)]).decUses n.inputs) with initNames := l } : St).removed = st3.removed := hd.2
      rw [this] at h
      exact h
    · right
      refine ⟨?_, ?_, ?_⟩
      · have : (foldState st3 n o fv l).usesOf x = ((inheritInfo st3 [(o, fv)]).decUses n.inputs).usesOf x := by
          simp only [foldState, St.usesOf, h1]
        rw [this]
        exact hu
      · have : ({ ((inheritInfo st3 [(o, fv)]).decUses n.inputs) with initNames := l } : St).gouts = st3.gouts :=
          hgouts_dec n.inputs _
        rw [this] at hg
        exact hg
      · have : ({ ((inheritInfo st3 [(o, fv)]).decUses n.inputs) with initNames := l } : St).gins = st3.gins := hd.1
        rw [this] at hi
        exact hi

theorem cnt_reverse (x : Name) (l : List Node) : cnt x l.reverse = cnt x l := by
  induction l with
  | nil => rfl
  | cons n r ih => rw [List.reverse_cons, cnt_append, cnt_cons, cnt_cons, cnt_nil, ih]; omega

/-- **The bookkeeping invariant holds through the node loop** (generic-folding fragment). -/
theorem visitNodes_bk (ctx : Ctx) (hnf : ctx.isFunction = false) (vg : St → Graph → St × Graph) (g : Graph) :
    ∀ (f : Nat) (todo : List Node) (st : St) (acc : List Node) (ai : List (Name × String)),
      (∀ n ∈ todo, Plain n) → st.sym = [] → Bk g st (acc ++ todo) →
      Bk g (visitNodes ctx vg f st todo acc ai).1 (visitNodes ctx vg f st todo acc ai).2.1 := by
  intro f
  induction f with
  | zero =>
    intro todo st acc ai _ _ hb
    simp only [visitNodes]
    exact hb.same ⟨rfl, rfl, rfl, rfl⟩ (fun x => by rw [cnt_append, cnt_append, cnt_reverse])
  | succ f ih =>
    intro todo st acc ai hplain hsym hb
    cases todo with
    | nil =>
      simp only [visitNodes]
      exact hb.same (SameBk.refl st) (fun x => by rw [cnt_append, cnt_reverse, cnt_nil]; rfl)
    | cons n rest =>
      have stuck : ∀ (s : St), SameBk st s → Bk g s (acc.reverse ++ n :: rest) :=
        fun s hs => hb.same hs (fun x => by rw [cnt_append, cnt_append, cnt_reverse])
      have hpn := hplain n List.mem_cons_self
      have hprest : ∀ m ∈ rest, Plain m := fun m hm => hplain m (List.mem_cons_of_mem _ hm)
      have keepCase : ∀ (st' : St), SameBk st st' → SameIS st st' →
          Bk g (visitNodes ctx vg f st' rest (n :: acc) ai).1 (visitNodes ctx vg f st' rest (n :: acc) ai).2.1 := by
        intro st' hbk his
        apply ih rest st' (n :: acc) ai hprest (his.2.trans hsym)
        exact hb.same hbk (fun x => by
          rw [cnt_append, cnt_append, cnt_cons, cnt_cons]; omega)
      simp only [visitNodes]
      split
      · exact stuck st (SameBk.refl st)
      · rw [processNode_plain ctx st n hpn hsym]
        cases himp : lookupA ctx.imports n.domain with
        | none =>
          simp only [hpn.1, visitSubs, setSubs_nil n hpn.1]
          exact keepCase _ ⟨rfl, rfl, rfl, rfl⟩ ⟨rfl, rfl⟩
        | some v =>
          simp only []
          have hbkc := sameBk_gateCascade ctx st n v
          rcases gateCascade_cases ctx hnf st n v with ⟨st', hg, hs⟩ | ⟨m, st', hg⟩ | ⟨c, st2, st3, o, hs2, hora, ho, hsubs, hnc, hins, hg, hsym3, hinfo3⟩
          · rw [hg] at hbkc ⊢
            simp only [hpn.1, visitSubs, setSubs_nil n hpn.1]
            exact keepCase st' hbkc hs
          · rw [hg] at hbkc ⊢
            exact stuck _ (SameBk.trans hbkc ⟨rfl, rfl, rfl, rfl⟩)
          · rw [hg] at hbkc ⊢
            obtain ⟨st4, happ, hs4, l, hst4⟩ := applyRepl_fold ctx hnf st3 n o (freshOf st2) c.tok ho
            simp only [happ, List.nil_append]
            have hfold := inheritInfo_fold st2 st3 o (freshOf st2) c hinfo3
            have hsym4 : st4.sym = [] := by
              rw [hs4.2, hfold.1, hsym3, hs2.2, hsym]; rfl
            apply ih rest st4 acc (ai ++ [(o, c.tok)]) hprest hsym4
            obtain ⟨p1, p2, p3, p4⟩ := sameBk_foldState_parts st3 n o (freshOf st2) l
            rw [← hst4] at p1 p2 p3 p4
            have hcnt : ∀ x, cnt x (acc ++ n :: rest) = cnt x (acc ++ rest) + n.inputs.count (some x) := by
              intro x; rw [cnt_append, cnt_append, cnt_cons]; omega
            have hlb : ∀ x, cnt x (acc ++ rest) ≤ st4.usesOf x := by
              intro x
              by_cases hx : x = freshOf st2
              · have := hb.nofresh st2.fresh
                rw [hcnt] at this
                rw [hx]
                show cnt ("%" ++ toString st2.fresh) (acc ++ rest) ≤ _
                omega
              · have h1 := hb.lb x
                rw [hcnt] at h1
                have h2 := usesOf_inheritInfo st3 o (freshOf st2) x hx
                rw [hbkc.usesOf] at h2
                rw [p3]
                omega
            refine ⟨hlb, ?_, ?_, ?_, ?_⟩
            · intro o' ho'; rw [p2, hbkc.2.2.1]; exact hb.gouts o' ho'
            · intro i hi; rw [p1, hbkc.2.1]; exact hb.gins i hi
            · intro x hx
              rcases p4 x hx with h | ⟨hu, hgo, hgi⟩
              · rw [hbkc.2.2.2] at h
                obtain ⟨r1, r2, r3⟩ := hb.rem x h
                rw [hcnt] at r1
                exact ⟨by omega, r2, r3⟩
              · refine ⟨?_, ?_, ?_⟩
                · have := hlb x
                  omega
                · cases hc : g.outputs.contains x with
                  | false => rfl
                  | true =>
                    have := hb.gouts x hc
                    rw [← hbkc.2.2.1, hgo] at this
                    exact absurd this (by decide)
                · cases hc : g.inputs.contains x with
                  | false => rfl
                  | true =>
                    have := hb.gins x hc
                    rw [← hbkc.2.1, hgi] at this
                    exact absurd this (by decide)
            · intro k
              have := hb.nofresh k
              rw [hcnt] at this
              omega

/-! ### the result is a sub-list of the input nodes (generic-folding fragment) -/

theorem visitNodes_sublist (ctx : Ctx) (hnf : ctx.isFunction = false) (vg : St → Graph → St × Graph) :
    ∀ (f : Nat) (todo : List Node) (st : St) (acc : List Node) (ai : List (Name × String)),
      (∀ n ∈ todo, Plain n) → st.sym = [] →
      ∃ new, (visitNodes ctx vg f st todo acc ai).2.1 = acc.reverse ++ new ∧ List.Sublist new todo := by
  intro f
  induction f with
  | zero =>
    intro todo st acc ai _ _
    exact ⟨todo, by simp [visitNodes], List.Sublist.refl _⟩
  | succ f ih =>
    intro todo st acc ai hplain hsym
    cases todo with
    | nil => exact ⟨[], by simp [visitNodes], List.Sublist.refl _⟩
    | cons n rest =>
      have hpn := hplain n List.mem_cons_self
      have hprest : ∀ m ∈ rest, Plain m := fun m hm => hplain m (List.mem_cons_of_mem _ hm)
      have stuck : ∀ (s : St), ∃ new, ((s, acc.reverse ++ n :: rest, ai) : St × List Node × List (Name × String)).2.1 = acc.reverse ++ new ∧
          List.Sublist new (n :: rest) := fun s => ⟨n :: rest, rfl, List.Sublist.refl _⟩
      have keepCase : ∀ (st' : St), SameIS st st' →
          ∃ new, (visitNodes ctx vg f st' rest (n :: acc) ai).2.1 = acc.reverse ++ new ∧ List.Sublist new (n :: rest) := by
        intro st' his
        obtain ⟨newr, h1, h2⟩ := ih rest st' (n :: acc) ai hprest (his.2.trans hsym)
        exact ⟨n :: newr, by rw [h1]; simp, List.Sublist.cons_cons n h2⟩
      simp only [visitNodes]
      split
      · exact stuck st
      · rw [processNode_plain ctx st n hpn hsym]
        cases himp : lookupA ctx.imports n.domain with
        | none =>
          simp only [hpn.1, visitSubs, setSubs_nil n hpn.1]
          exact keepCase _ ⟨rfl, rfl⟩
        | some v =>
          simp only []
          rcases gateCascade_cases ctx hnf st n v with ⟨st', hg, hs⟩ | ⟨m, st', hg⟩ | ⟨c, st2, st3, o, hs2, hora, ho, hsubs, hnc, hins, hg, hsym3, hinfo3⟩
          · rw [hg]
            simp only [hpn.1, visitSubs, setSubs_nil n hpn.1]
            exact keepCase st' hs
          · rw [hg]
            exact stuck _
          · rw [hg]
            obtain ⟨st4, happ, hs4, l, hst4⟩ := applyRepl_fold ctx hnf st3 n o (freshOf st2) c.tok ho
            simp only [happ, List.nil_append]
            have hfold := inheritInfo_fold st2 st3 o (freshOf st2) c hinfo3
            have hsym4 : st4.sym = [] := by
              rw [hs4.2, hfold.1, hsym3, hs2.2, hsym]; rfl
            obtain ⟨newr, h1, h2⟩ := ih rest st4 acc (ai ++ [(o, c.tok)]) hprest hsym4
            exact ⟨newr, h1, List.Sublist.cons n h2⟩

theorem orderOK_sublist : ∀ {l l' : List Node}, List.Sublist l' l → orderOK l = true → orderOK l' = true := by
  intro l l' h
  induction h with
  | slnil => intro _; rfl
  | cons a _ ih => intro ho; exact ih (orderOK_tail ho)
  | cons_cons a hsub ih =>
    intro ho
    simp only [orderOK, Bool.and_eq_true, List.all_eq_true] at ho ⊢
    exact ⟨fun m hm => ho.1 m (hsub.subset hm), ih ho.2⟩

/-! ### dropping unmentioned initializers -/

/-- the two environments agree outside `R` -/
def EqOff (R : List Name) (ρ ρ' : Env V) : Prop := ∀ y, R.contains y = false → ρ y = ρ' y

theorem EqOff.set {R : List Name} {ρ ρ' : Env V} (h : EqOff R ρ ρ') (x : Name) (v : V) : EqOff R (ρ.set x v) (ρ'.set x v) := by
  intro y hy
  simp only [Env.set]
  split
  · rfl
  · exact h y hy

theorem bindOuts_eqOff {R : List Name} : ∀ (xs : List Name) (vs : List V) (ρ ρ' : Env V), EqOff R ρ ρ' →
    (bindOuts ρ xs vs = none ∧ bindOuts ρ' xs vs = none) ∨
    ∃ a b, bindOuts ρ xs vs = some a ∧ bindOuts ρ' xs vs = some b ∧ EqOff R a b
  | [], _, ρ, ρ', h => Or.inr ⟨ρ, ρ', rfl, rfl, h⟩
  | _ :: _, [], _, _, _ => Or.inl ⟨rfl, rfl⟩
  | x :: xs, v :: vs, ρ, ρ', h => by
    simp only [bindOuts]
    exact bindOuts_eqOff xs vs _ _ (h.set x v)

theorem lookupAll_eqOff {R : List Name} {ρ ρ' : Env V} (h : EqOff R ρ ρ') (xs : List (Option Name))
    (hx : ∀ x, some x ∈ xs → R.contains x = false) : lookupAll ρ xs = lookupAll ρ' xs :=
  lookupAll_congr (fun x hxm => h x (hx x hxm))

theorem evalNode_eqOff (sem : Sem V) {sub} {R : List Name} {ρ ρ' : Env V} (h : EqOff R ρ ρ') (n : Node)
    (hs : n.subs = []) (hx : ∀ x, some x ∈ n.inputs → R.contains x = false) :
    (evalNode sem sub ρ n = none ∧ evalNode sem sub ρ' n = none) ∨
    ∃ a b, evalNode sem sub ρ n = some a ∧ evalNode sem sub ρ' n = some b ∧ EqOff R a b := by
  unfold evalNode
  rw [lookupAll_eqOff h n.inputs hx]
  cases lookupAll ρ' n.inputs with
  | none => exact Or.inl ⟨rfl, rfl⟩
  | some args =>
    simp only [Option.bind]
    have hno : nodeOutputs sem sub ρ n args = nodeOutputs sem sub ρ' n args := by
      simp only [nodeOutputs, hs, List.isEmpty_nil, if_true]
    rw [hno]
    cases nodeOutputs sem sub ρ' n args with
    | none => exact Or.inl ⟨rfl, rfl⟩
    | some vs => exact bindOuts_eqOff n.outputs vs ρ ρ' h

theorem evalNodes_eqOff (sem : Sem V) {sub} {R : List Name} : ∀ (ns : List Node) (ρ ρ' : Env V), EqOff R ρ ρ' →
    (∀ n ∈ ns, n.subs = [] ∧ ∀ x, some x ∈ n.inputs → R.contains x = false) →
    (evalNodes (evalNode sem sub) ρ ns = none ∧ evalNodes (evalNode sem sub) ρ' ns = none) ∨
    ∃ a b, evalNodes (evalNode sem sub) ρ ns = some a ∧ evalNodes (evalNode sem sub) ρ' ns = some b ∧ EqOff R a b
  | [], ρ, ρ', h, _ => Or.inr ⟨ρ, ρ', rfl, rfl, h⟩
  | n :: ns, ρ, ρ', h, hn => by
    have hn1 := hn n List.mem_cons_self
    simp only [evalNodes]
    rcases evalNode_eqOff sem (sub := sub) h n hn1.1 hn1.2 with ⟨e1, e2⟩ | ⟨a, b, e1, e2, hab⟩
    · rw [e1, e2]; exact Or.inl ⟨rfl, rfl⟩
    · rw [e1, e2]
      exact evalNodes_eqOff sem ns a b hab (fun m hm => hn m (List.mem_cons_of_mem _ hm))

theorem lookupOuts_eqOff {R : List Name} {ρ ρ' : Env V} (h : EqOff R ρ ρ') : ∀ (xs : List Name),
    (∀ x ∈ xs, R.contains x = false) → lookupOuts ρ xs = lookupOuts ρ' xs
  | [], _ => rfl
  | x :: xs, hx => by
    simp only [lookupOuts, h x (hx x List.mem_cons_self),
      lookupOuts_eqOff h xs (fun y hy => hx y (List.mem_cons_of_mem _ hy))]

theorem bindInits_filter_eqOff (sem : Sem V) (R : List Name) : ∀ (inits : List (Name × String)) (ρ ρ' : Env V), EqOff R ρ ρ' →
    EqOff R (bindInits sem ρ (inits.filter fun p => !R.contains p.1)) (bindInits sem ρ' inits)
  | [], _, _, h => h
  | (x, t) :: r, ρ, ρ', h => by
    simp only [List.filter]
    cases hc : R.contains x with
    | true =>
      simp only [Bool.not_true, bindInits]
      apply bindInits_filter_eqOff sem R r
      intro y hy
      have : y ≠ x := by
        intro e; subst e; rw [hc] at hy; exact absurd hy (by decide)
      rw [Env.set_get_ne ρ' _ this]
      exact h y hy
    | false =>
      simp only [Bool.not_false, bindInits]
      exact bindInits_filter_eqOff sem R r _ _ (h.set x _)

theorem bindInputs_eqOff {R : List Name} (hd hd' : Name → Bool) : ∀ (xs : List Name) (as : List (Option V)) (ρ ρ' : Env V),
    EqOff R ρ ρ' → (∀ x ∈ xs, hd x = hd' x) →
    (bindInputs hd ρ xs as = none ∧ bindInputs hd' ρ' xs as = none) ∨
    ∃ a b, bindInputs hd ρ xs as = some a ∧ bindInputs hd' ρ' xs as = some b ∧ EqOff R a b
  | [], [], ρ, ρ', h, _ => Or.inr ⟨ρ, ρ', rfl, rfl, h⟩
  | [], _ :: _, _, _, _, _ => Or.inl ⟨rfl, rfl⟩
  | _ :: _, [], _, _, _, _ => Or.inl ⟨rfl, rfl⟩
  | x :: xs, some w :: as, ρ, ρ', h, hh => by
    simp only [bindInputs]
    exact bindInputs_eqOff hd hd' xs as _ _ (h.set x w) (fun y hy => hh y (List.mem_cons_of_mem _ hy))
  | x :: xs, none :: as, ρ, ρ', h, hh => by
    simp only [bindInputs, hh x List.mem_cons_self]
    split
    · exact bindInputs_eqOff hd hd' xs as _ _ h (fun y hy => hh y (List.mem_cons_of_mem _ hy))
    · exact Or.inl ⟨rfl, rfl⟩

theorem find_filter_notin {R : List Name} {inits : List (Name × String)} {x : Name} (hx : R.contains x = false) :
    ((inits.filter fun p => !R.contains p.1).find? (fun p => p.1 == x)) = (inits.find? (fun p => p.1 == x)) := by
  induction inits with
  | nil => rfl
  | cons p r ih =>
    simp only [List.filter]
    cases hc : R.contains p.1 with
    | true =>
      simp only [Bool.not_true, List.find?]
      have : (p.1 == x) = false := by
        cases hpx : p.1 == x with
        | false => rfl
        | true =>
          have e : p.1 = x := by simpa using hpx
          rw [e, hx] at hc
          exact absurd hc (by decide)
      rw [this]
      exact ih
    | false =>
      simp only [Bool.not_false, List.find?]
      cases p.1 == x
      · exact ih
      · rfl

/-- **Dropping initializers nobody mentions** (one level, nodes without bodies) leaves the meaning equal. -/
theorem prune_sound (sem : Sem V) (R : List Name) (ins : List Name) (inits : List (Name × String)) (nodes : List Node)
    (outs : List Name) (d : Nat) (outer : Env V) (args : List (Option V))
    (hplain : ∀ n ∈ nodes, n.subs = [])
    (hin : ∀ x ∈ ins, R.contains x = false) (hout : ∀ x ∈ outs, R.contains x = false)
    (hnodes : ∀ n ∈ nodes, ∀ x, some x ∈ n.inputs → R.contains x = false) :
    evalGraph sem (d + 1) outer (Graph.mk ins (inits.filter fun p => !R.contains p.1) nodes outs) args =
      evalGraph sem (d + 1) outer (Graph.mk ins inits nodes outs) args := by
  simp only [evalGraph, startEnv, Graph.inits, Graph.inputs, Graph.nodes, Graph.outputs, Graph.initTok]
  have h0 : EqOff R (bindInits sem outer (inits.filter fun p => !R.contains p.1)) (bindInits sem outer inits) :=
    bindInits_filter_eqOff sem R inits outer outer (fun _ _ => rfl)
  rcases bindInputs_eqOff (R := R)
      (fun x => (((inits.filter fun p => !R.contains p.1).find? (fun p => p.1 == x)).map (·.2)).isSome)
      (fun x => ((inits.find? (fun p => p.1 == x)).map (·.2)).isSome) ins args _ _ h0
      (fun x hx => by simp only [find_filter_notin (hin x hx)]) with ⟨e1, e2⟩ | ⟨a, b, e1, e2, hab⟩
  · rw [e1, e2]
  · rw [e1, e2]
    simp only [Option.bind]
    rcases evalNodes_eqOff sem (sub := evalGraph sem d) nodes a b hab (fun n hn => ⟨hplain n hn, hnodes n hn⟩) with ⟨f1, f2⟩ | ⟨a', b', f1, f2, hab'⟩
    · rw [f1, f2]
    · rw [f1, f2]
      exact lookupOuts_eqOff hab' outs hout

/-! ### the initial state satisfies the bookkeeping invariant -/

theorem count_filterMap_id (x : Name) : ∀ (l : List (Option Name)), (l.filterMap id).count x = l.count (some x)
  | [] => rfl
  | none :: r => by
    simp only [List.filterMap_cons, id]
    rw [count_filterMap_id x r]
    simp
  | some y :: r => by
    simp only [List.filterMap_cons, id, List.count_cons]
    rw [count_filterMap_id x r]
    by_cases h : y = x
    · subst h; simp
    · have h1 : (y == x) = false := by simpa using h
      have h2 : (some y == some x) = false := by simpa using h
      simp [h1, h2]

theorem cnt_le_flat (x : Name) : ∀ (l : List Node),
    cnt x l = (l.flatMap fun n => n.inputs.filterMap id).count x
  | [] => rfl
  | n :: r => by
    rw [cnt_cons, List.flatMap_cons, List.count_append, count_filterMap_id, cnt_le_flat x r]

theorem foldl_incUse_fields : ∀ (l : List Name) (st : St),
    (l.foldl (fun st y => st.incUse y) st).gouts = st.gouts ∧ (l.foldl (fun st y => st.incUse y) st).gins = st.gins ∧
    (l.foldl (fun st y => st.incUse y) st).removed = st.removed := by
  intro l
  induction l with
  | nil => intro st; exact ⟨rfl, rfl, rfl⟩
  | cons y ys ih => intro st; simp only [List.foldl_cons]; exact ih _

theorem initialState_bk (g : Graph) (info : List (Name × VInfo))
    (hnf : ∀ k : Nat, cnt ("%" ++ toString k) g.nodes = 0) : Bk g (initialState g info) ([] ++ g.nodes) := by
  have hf := foldl_incUse_fields (collect (fun g => g.nodes.flatMap fun n => n.inputs.filterMap id) maxDepth g)
    { info := info, gins := collect Graph.inputs maxDepth g, gouts := collect Graph.outputs maxDepth g,
      initNames := collect (fun g => g.inits.map (·.1)) maxDepth g,
      initDisplay := collect (fun g => g.inits.map (·.1)) maxDepth g }
  refine ⟨?_, ?_, ?_, ?_, ?_⟩
  · intro x
    simp only [List.nil_append]
    have : (initialState g info).usesOf x =
        0 + (collect (fun g => g.nodes.flatMap fun n => n.inputs.filterMap id) maxDepth g).count x := by
      unfold initialState
      simp only []
      rw [usesOf_foldl_incUse]
      rfl
    rw [this, cnt_le_flat]
    simp only [maxDepth, collect, List.count_append]
    omega
  · intro o ho
    show (initialState g info).gouts.contains o = true
    unfold initialState
    simp only []
    rw [hf.1]
    simp only [maxDepth, collect, List.contains_iff_mem, List.mem_append] at ho ⊢
    exact Or.inl ho
  · intro i hi
    show (initialState g info).gins.contains i = true
    unfold initialState
    simp only []
    rw [hf.2.1]
    simp only [maxDepth, collect, List.contains_iff_mem, List.mem_append] at hi ⊢
    exact Or.inl hi
  · intro x hx
    have : (initialState g info).removed = [] := by
      unfold initialState
      simp only []
      rw [hf.2.2]
    rw [this] at hx
    simp at hx
  · intro k
    simp only [List.nil_append]
    exact hnf k

/-! ### end to end on the fragment -/

theorem pruneInits_plain (R : List Name) (k : Nat) (ins : List Name) (inits : List (Name × String)) (nodes : List Node)
    (outs : List Name) (hp : ∀ n ∈ nodes, n.subs = []) :
    pruneInits R (k + 1) (Graph.mk ins inits nodes outs) =
      Graph.mk ins (inits.filter fun p => !R.contains p.1) nodes outs := by
  simp only [pruneInits, Graph.inputs, Graph.inits, Graph.nodes, Graph.outputs]
  congr 1
  have : ∀ (l : List Node), (∀ n ∈ l, n.subs = []) →
      l.map (fun n => n.setSubs (n.subs.map fun (p : String × Graph) => (p.1, pruneInits R k p.2))) = l := by
    intro l
    induction l with
    | nil => intro _; rfl
    | cons n r ih =>
      intro h
      have hn := h n List.mem_cons_self
      simp only [List.map_cons, hn, List.map_nil, setSubs_nil n hn]
      rw [ih (fun m hm => h m (List.mem_cons_of_mem _ hm))]
  exact this nodes hp

/-- **End to end on the generic-folding fragment**: `foldGraph` (node loop, `replace_node`,
`_clear_unused_initializers` included) refines the input graph. -/
theorem foldGraph_fragment_aux (k : Nat) (sem : Sem V) (ctx : Ctx) (hnf : ctx.isFunction = false) (hor : OracleSound sem ctx)
    (info : List (Name × VInfo)) (g : Graph) (hwf : FragWF g)
    (hnofresh : ∀ k : Nat, cnt ("%" ++ toString k) g.nodes = 0)
    (d : Nat) (outer : Env V) (args : List (Option V))
    (hinfo : ConstInfoSound sem outer g args info) (vs : List V)
    (he : evalGraph sem (d + 1) outer g args = some vs) :
    evalGraph sem (d + 1) outer (pruneInits (visitGraph ctx (k + 1) (initialState g info) g).1.removed (k + 1)
      (visitGraph ctx (k + 1) (initialState g info) g).2) args = some vs := by
  have hfrag := visitGraph_fragment sem ctx hnf hor info g hwf d k outer args hinfo vs he
  obtain ⟨hsym0, hinfo0⟩ := initialState_sym g info
  -- replay the structure of the result
  have he' := he
  simp only [evalGraph] at he'
  cases hs : startEnv sem outer g args with
  | none => simp [hs] at he'
  | some ρ0 =>
    simp only [hs, Option.bind] at he'
    cases hn : evalNodes (evalNode sem (evalGraph sem d)) ρ0 g.nodes with
    | none => simp [hn] at he'
    | some ρf =>
      have hI : Inv sem (initialState g info) ρ0 g.nodes := by
        refine ⟨hsym0, ?_, ?_⟩
        · intro x c hx
          simp only [St.constOf, St.getInfo, hinfo0] at hx
          exact hinfo.start ρ0 hs x c hx
        · intro x c hx m hm
          simp only [St.constOf, St.getInfo, hinfo0] at hx
          exact hinfo.notOutput x c hx m hm
      obtain ⟨new, added, h1, h2, h3, h4, h5, h6⟩ := visitNodes_sim sem ctx hnf hor (evalGraph sem d) (visitGraph ctx k)
        (stepFuel g + 16 * (initialState g info).uses.length) g.nodes (initialState g info) [] [] ρ0 ρf
        hwf.plain hwf.order hI hn
      simp only [List.reverse_nil, List.nil_append] at h1 h2
      have hbk := visitNodes_bk ctx hnf (visitGraph ctx k) g
        (stepFuel g + 16 * (initialState g info).uses.length) g.nodes (initialState g info) [] []
        hwf.plain hsym0 (initialState_bk g info hnofresh)
      rw [h1] at hbk
      -- shape of the result and its final state
      have hres : (visitGraph ctx (k + 1) (initialState g info) g).2 = Graph.mk g.inputs (g.inits ++ added) new g.outputs ∧
          (visitGraph ctx (k + 1) (initialState g info) g).1.removed =
            (visitNodes ctx (visitGraph ctx k) (stepFuel g + 16 * (initialState g info).uses.length)
              (initialState g info) g.nodes [] []).1.removed := by
        simp only [visitGraph]
        split
        · exact ⟨by rw [h1, h2], rfl⟩
        · rename_i herr
          have hsymf : (visitNodes ctx (visitGraph ctx k) (stepFuel g + 16 * (initialState g info).uses.length)
              (initialState g info) g.nodes [] []).1.sym = [] := by
            rcases h5 with h | h
            · exact absurd h herr
            · exact h
          refine ⟨?_, (sameFrame_replaceOutputs _ _ _).2⟩
          rw [h1, h2, replaceOutputs_nil _ _ _ hsymf]
      have hplain_new : ∀ m ∈ new, m.subs = [] := fun m hm => (hwf.plain m (h6 m hm)).1
      rw [hres.1] at hfrag ⊢
      rw [pruneInits_plain _ k _ _ _ _ hplain_new]
      rw [prune_sound sem _ g.inputs (g.inits ++ added) new g.outputs d outer args hplain_new]
      · exact hfrag
      · intro x hx
        cases hc : (visitGraph ctx (k + 1) (initialState g info) g).1.removed.contains x with
        | false => rfl
        | true =>
          rw [hres.2] at hc
          have := (hbk.rem x (by simpa using hc)).2.2
          rw [List.contains_iff_mem.mpr hx] at this
          exact absurd this (by decide)
      · intro x hx
        cases hc : (visitGraph ctx (k + 1) (initialState g info) g).1.removed.contains x with
        | false => rfl
        | true =>
          rw [hres.2] at hc
          have := (hbk.rem x (by simpa using hc)).2.1
          rw [List.contains_iff_mem.mpr hx] at this
          exact absurd this (by decide)
      · intro n hnm x hx
        cases hc : (visitGraph ctx (k + 1) (initialState g info) g).1.removed.contains x with
        | false => rfl
        | true =>
          rw [hres.2] at hc
          have h0 := (hbk.rem x (by simpa using hc)).1
          exfalso
          have hpos : 0 < cnt x new := by
            unfold cnt
            apply List.count_pos_iff.mpr
            exact List.mem_flatMap.mpr ⟨n, hnm, hx⟩
          omega

/-- Nothing popped by `_clear_unused_initializers` is still referenced (fragment; unconditional). -/
theorem no_dangling_aux (k : Nat) (ctx : Ctx) (hnf : ctx.isFunction = false) (info : List (Name × VInfo)) (g : Graph)
    (hplain : ∀ n ∈ g.nodes, Plain n) (hnofresh : ∀ k : Nat, cnt ("%" ++ toString k) g.nodes = 0) :
    ∀ x, x ∈ (visitGraph ctx (k + 1) (initialState g info) g).1.removed →
      g.inputs.contains x = false ∧ g.outputs.contains x = false ∧
      ∀ n ∈ (visitGraph ctx (k + 1) (initialState g info) g).2.nodes, n.inputs.contains (some x) = false := by
  have hbk := visitNodes_bk ctx hnf (visitGraph ctx k) g
    (stepFuel g + 16 * (initialState g info).uses.length) g.nodes (initialState g info) [] []
    hplain (initialState_sym g info).1 (initialState_bk g info hnofresh)
  have hres : (visitGraph ctx (k + 1) (initialState g info) g).2.nodes =
        (visitNodes ctx (visitGraph ctx k) (stepFuel g + 16 * (initialState g info).uses.length)
          (initialState g info) g.nodes [] []).2.1 ∧
      (visitGraph ctx (k + 1) (initialState g info) g).1.removed =
        (visitNodes ctx (visitGraph ctx k) (stepFuel g + 16 * (initialState g info).uses.length)
          (initialState g info) g.nodes [] []).1.removed := by
    simp only [visitGraph]
    split
    · exact ⟨rfl, rfl⟩
    · exact ⟨rfl, (sameFrame_replaceOutputs _ _ _).2⟩
  intro x hx
  rw [hres.2] at hx
  obtain ⟨r1, r2, r3⟩ := hbk.rem x hx
  refine ⟨r3, r2, ?_⟩
  intro n hn
  rw [hres.1] at hn
  cases hc : n.inputs.contains (some x) with
  | false => rfl
  | true =>
    exfalso
    have hpos : 0 < cnt x (visitNodes ctx (visitGraph ctx k) (stepFuel g + 16 * (initialState g info).uses.length)
        (initialState g info) g.nodes [] []).2.1 := by
      unfold cnt
      apply List.count_pos_iff.mpr
      exact List.mem_flatMap.mpr ⟨n, hn, by simpa using hc⟩
    omega

/-- the nodes of the result are a sub-list of the input's nodes, in order (fragment; unconditional) -/
theorem result_nodes_sublist (k : Nat) (ctx : Ctx) (hnf : ctx.isFunction = false) (info : List (Name × VInfo)) (g : Graph)
    (hplain : ∀ n ∈ g.nodes, Plain n) :
    List.Sublist (visitGraph ctx (k + 1) (initialState g info) g).2.nodes g.nodes := by
  obtain ⟨new, h1, h2⟩ := visitNodes_sublist ctx hnf (visitGraph ctx k)
    (stepFuel g + 16 * (initialState g info).uses.length) g.nodes (initialState g info) [] [] hplain (initialState_sym g info).1
  simp only [List.reverse_nil, List.nil_append] at h1
  have : (visitGraph ctx (k + 1) (initialState g info) g).2.nodes = new := by
    simp only [visitGraph]
    split <;> exact h1
  rw [this]
  exact h2

theorem foldGraph_fragment (sem : Sem V) (ctx : Ctx) (hnf : ctx.isFunction = false) (hor : OracleSound sem ctx)
    (info : List (Name × VInfo)) (g : Graph) (hwf : FragWF g)
    (hnofresh : ∀ k : Nat, cnt ("%" ++ toString k) g.nodes = 0)
    (d : Nat) (outer : Env V) (args : List (Option V))
    (hinfo : ConstInfoSound sem outer g args info) (vs : List V)
    (he : evalGraph sem (d + 1) outer g args = some vs) :
    evalGraph sem (d + 1) outer (foldGraph ctx info g).2 args = some vs :=
  foldGraph_fragment_aux 7 sem ctx hnf hor info g hwf hnofresh d outer args hinfo vs he

end OV.C03
