import OV.Model.C18Partition
/-! Helper lemmas for C18: `partGo` never loses a positional argument, and (with placeholders) puts every input at
the position of its parameter. -/
namespace OV.C18

theorem mem_dropWhile_of_ne {l : List String} {a : String} (h : a ∈ l) (hn : a ≠ "~") :
    a ∈ l.dropWhile (· = "~") := by
  induction l with
  | nil => cases h
  | cons x xs ih =>
    simp only [List.dropWhile_cons]
    split
    · rename_i hx
      simp only [List.mem_cons] at h
      rcases h with rfl | h
      · exact absurd (by simpa using hx) hn
      · exact ih h
    · exact h

theorem mem_stripPh {l : List String} {a : String} (h : a ∈ l) (hn : a ≠ "~") : a ∈ stripPh l := by
  unfold stripPh
  rw [List.mem_reverse]
  exact mem_dropWhile_of_ne (List.mem_reverse.mpr h) hn

theorem partGo_keeps (ph : Bool) : ∀ (ps : List SigParam) (pos : List String) (kw : List (String × String))
    (ins : List String) (attrs : List (String × String)) (I : List String) (A : List (String × String)),
    partGo ph ps pos kw ins attrs = .ok (I, A) → (∀ a ∈ pos, a ≠ "~") →
    (∀ a ∈ pos, a ∈ I ∨ a ∈ A.map (·.2)) ∧ (∀ a ∈ ins, a ≠ "~" → a ∈ I) ∧ (∀ x ∈ attrs, x ∈ A)
  | [], pos, kw, ins, attrs, I, A, h, _ => by
    simp only [partGo] at h
    split at h
    · rename_i hp
      cases h
      have : pos = [] := by simpa using hp
      subst this
      refine ⟨by simp, ?_, fun x hx => hx⟩
      intro a ha hn
      split
      · exact mem_stripPh ha hn
      · exact ha
    · cases h
  | p :: ps, pos, kw, ins, attrs, I, A, h, hne => by
    simp only [partGo] at h
    split at h
    · obtain ⟨_, h2, h3⟩ := partGo_keeps ph ps [] kw (ins ++ pos) attrs I A h (by simp)
      exact ⟨fun a ha => Or.inl (h2 a (by simp [ha]) (hne a ha)), fun a ha hn => h2 a (by simp [ha]) hn, h3⟩
    · split at h
      · rename_i a rest
        have hne' : ∀ x ∈ rest, x ≠ "~" := fun x hx => hne x (by simp [hx])
        split at h
        · obtain ⟨h1, h2, h3⟩ := partGo_keeps ph ps rest kw (ins ++ [a]) attrs I A h hne'
          refine ⟨?_, fun x hx hn => h2 x (by simp [hx]) hn, h3⟩
          intro x hx
          simp only [List.mem_cons] at hx
          rcases hx with rfl | hx
          · exact Or.inl (h2 x (by simp) (hne x (by simp)))
          · exact h1 x hx
        · obtain ⟨h1, h2, h3⟩ := partGo_keeps ph ps rest kw ins (attrs ++ [(p.name, a)]) I A h hne'
          refine ⟨?_, h2, fun x hx => h3 x (by simp [hx])⟩
          intro x hx
          simp only [List.mem_cons] at hx
          rcases hx with rfl | hx
          · exact Or.inr (List.mem_map.mpr ⟨(p.name, x), h3 _ (by simp), rfl⟩)
          · exact h1 x hx
      · split at h
        · split at h
          · obtain ⟨_, h2, h3⟩ := partGo_keeps ph ps [] kw _ attrs I A h (by simp)
            exact ⟨by simp, fun x hx hn => h2 x (by simp [hx]) hn, h3⟩
          · obtain ⟨_, h2, h3⟩ := partGo_keeps ph ps [] kw ins _ I A h (by simp)
            exact ⟨by simp, h2, fun x hx => h3 x (by simp [hx])⟩
        · split at h
          · obtain ⟨_, h2, h3⟩ := partGo_keeps ph ps [] kw ins attrs I A h (by simp)
            exact ⟨by simp, h2, h3⟩
          · split at h
            · cases h
            · split at h
              · obtain ⟨_, h2, h3⟩ := partGo_keeps ph ps [] kw _ attrs I A h (by simp)
                exact ⟨by simp, fun x hx hn => h2 x (by simp [hx]) hn, h3⟩
              · obtain ⟨_, h2, h3⟩ := partGo_keeps ph ps [] kw ins attrs I A h (by simp)
                exact ⟨by simp, h2, h3⟩

/-! ## with placeholders every input sits at its parameter's position -/

/-- the value each input parameter should receive: the positional argument at its index, else the keyword of its
    name, else absent (`~`). -/
def expectedFrom : List SigParam → List String → List (String × String) → List String
  | [], _, _ => []
  | _ :: ps, a :: rest, kw => a :: expectedFrom ps rest kw
  | p :: ps, [], kw => (kwGet kw p.name).getD "~" :: expectedFrom ps [] kw

theorem partGo_attrs_only : ∀ (ps : List SigParam) (pos : List String) (kw : List (String × String))
    (ins : List String) (attrs : List (String × String)) (I : List String) (A : List (String × String)),
    (∀ p ∈ ps, p.isInput = false) → partGo true ps pos kw ins attrs = .ok (I, A) → I = stripPh ins
  | [], pos, kw, ins, attrs, I, A, _, h => by
    simp only [partGo] at h
    split at h
    · cases h; rfl
    · cases h
  | p :: ps, pos, kw, ins, attrs, I, A, hp, h => by
    have hpi : p.isInput = false := hp p (by simp)
    have hps : ∀ q ∈ ps, q.isInput = false := fun q hq => hp q (by simp [hq])
    simp only [partGo, hpi, Bool.false_and, Bool.false_eq_true, if_false, Bool.and_false] at h
    split at h
    · exact partGo_attrs_only ps _ kw ins _ I A hps h
    · split at h
      · exact partGo_attrs_only ps _ kw ins _ I A hps h
      · split at h
        · exact partGo_attrs_only ps _ kw ins _ I A hps h
        · split at h
          · cases h
          · exact partGo_attrs_only ps _ kw ins _ I A hps h

theorem partGo_positions : ∀ (ps ats : List SigParam) (pos : List String) (kw : List (String × String))
    (ins : List String) (attrs : List (String × String)) (I : List String) (A : List (String × String)),
    (∀ p ∈ ps, p.isInput = true ∧ p.variadic = false) → (∀ p ∈ ats, p.isInput = false) →
    partGo true (ps ++ ats) pos kw ins attrs = .ok (I, A) → I = stripPh (ins ++ expectedFrom ps pos kw)
  | [], ats, pos, kw, ins, attrs, I, A, _, hat, h => by
    simp only [List.nil_append] at h
    rw [partGo_attrs_only ats pos kw ins attrs I A hat h]
    simp [expectedFrom]
  | p :: ps, ats, pos, kw, ins, attrs, I, A, hp, hat, h => by
    obtain ⟨hpi, hpv⟩ := hp p (by simp)
    have hps : ∀ q ∈ ps, q.isInput = true ∧ q.variadic = false := fun q hq => hp q (by simp [hq])
    simp only [List.cons_append, partGo, hpi, hpv, Bool.and_false, Bool.false_eq_true, if_false, if_true,
      Bool.not_true, Bool.false_and, Bool.true_and] at h
    cases pos with
    | cons a rest =>
      simp only [] at h
      have := partGo_positions ps ats rest kw (ins ++ [a]) attrs I A hps hat h
      simpa [expectedFrom, List.append_assoc] using this
    | nil =>
      simp only [] at h
      cases hk : kwGet kw p.name with
      | some v =>
        simp only [hk] at h
        have := partGo_positions ps ats [] kw (ins ++ [v]) attrs I A hps hat h
        simpa [expectedFrom, hk, List.append_assoc] using this
      | none =>
        simp only [hk] at h
        split at h
        · cases h
        · have := partGo_positions ps ats [] kw (ins ++ ["~"]) attrs I A hps hat h
          simpa [expectedFrom, hk, List.append_assoc] using this

end OV.C18
