import OV.Model.C18Partition
/-! Helper lemma for C18: `partGo` never loses a positional argument. -/
namespace OV.C18

theorem partGo_keeps : ∀ (ps : List SigParam) (pos : List String) (kw : List (String × String))
    (ins : List String) (attrs : List (String × String)) (I : List String) (A : List (String × String)),
    partGo ps pos kw ins attrs = .ok (I, A) →
    (∀ a ∈ pos, a ∈ I ∨ a ∈ A.map (·.2)) ∧ (∀ a ∈ ins, a ∈ I) ∧ (∀ x ∈ attrs, x ∈ A)
  | [], pos, kw, ins, attrs, I, A, h => by
    simp only [partGo] at h
    split at h
    · rename_i hp
      cases h
      have : pos = [] := by simpa using hp
      subst this
      exact ⟨by simp, fun a ha => ha, fun x hx => hx⟩
    · cases h
  | p :: ps, pos, kw, ins, attrs, I, A, h => by
    simp only [partGo] at h
    split at h
    · obtain ⟨_, h2, h3⟩ := partGo_keeps ps [] kw (ins ++ pos) attrs I A h
      exact ⟨fun a ha => Or.inl (h2 a (by simp [ha])), fun a ha => h2 a (by simp [ha]), h3⟩
    · split at h
      · rename_i a rest
        split at h
        · obtain ⟨h1, h2, h3⟩ := partGo_keeps ps rest kw (ins ++ [a]) attrs I A h
          refine ⟨?_, fun x hx => h2 x (by simp [hx]), h3⟩
          intro x hx
          simp only [List.mem_cons] at hx
          rcases hx with rfl | hx
          · exact Or.inl (h2 x (by simp))
          · exact h1 x hx
        · obtain ⟨h1, h2, h3⟩ := partGo_keeps ps rest kw ins (attrs ++ [(p.name, a)]) I A h
          refine ⟨?_, h2, fun x hx => h3 x (by simp [hx])⟩
          intro x hx
          simp only [List.mem_cons] at hx
          rcases hx with rfl | hx
          · exact Or.inr (List.mem_map.mpr ⟨(p.name, x), h3 _ (by simp), rfl⟩)
          · exact h1 x hx
      · split at h
        · split at h
          · obtain ⟨_, h2, h3⟩ := partGo_keeps ps [] kw _ attrs I A h
            exact ⟨by simp, fun x hx => h2 x (by simp [hx]), h3⟩
          · obtain ⟨_, h2, h3⟩ := partGo_keeps ps [] kw ins _ I A h
            exact ⟨by simp, h2, fun x hx => h3 x (by simp [hx])⟩
        · split at h
          · obtain ⟨_, h2, h3⟩ := partGo_keeps ps [] kw ins attrs I A h
            exact ⟨by simp, h2, h3⟩
          · split at h
            · cases h
            · obtain ⟨_, h2, h3⟩ := partGo_keeps ps [] kw ins attrs I A h
              exact ⟨by simp, h2, h3⟩

end OV.C18
