import OV.Lemmas.C01SimNest
/-!
# C01 — stage 1 with tuple assignment

The straight-line refinement (`convert_correct_sl`) extended by `x, y = op.Foo(…)` from a multi-output operator.
Unlike stages 2–4 the straight-line simulation keeps Python scalars in the store (`StoreRel`), so a variable may
be assigned a bare literal; `tuple_sim` is `tuple_step` of stage 4 restated for `StoreRel`.
-/
namespace OV.C01
variable {V : Type}

theorem relV_setMany (S : Sem V) (cast : List Name) : ∀ (outs : List Name) (rs : List V) (env : Env V),
    outs.Nodup → rs.length = outs.length → (∀ o, o ∈ outs → o ∉ cast) →
    All2 (RelV S (env.setMany outs rs) cast) outs (rs.map PV.t) := by
  intro outs
  induction outs with
  | nil =>
    intro rs env _ hl _
    cases rs with
    | nil => exact All2.nil
    | cons _ _ => simp at hl
  | cons o outs ih =>
    intro rs env hnd hl hc
    cases rs with
    | nil => simp at hl
    | cons r rs =>
      obtain ⟨ho, hnd'⟩ := List.nodup_cons.mp hnd
      refine All2.cons _ _ _ _ ?_ ?_
      · refine ⟨?_, hc o List.mem_cons_self⟩
        show (Env.setMany (env.set o r) outs rs) o = some r
        rw [envSetMany_frame outs rs _ o ho]
        exact Env.set_same _ _ _
      · exact ih rs (env.set o r) hnd' (by simpa using hl) (fun o' ho' => hc o' (List.mem_cons_of_mem _ ho'))

theorem tuple_normal (S : Sem V) (fuel : Nat) {xs : List Name} {dom op : String} {sig : Sig} {args : List Expr}
    {attrs : List (String × AttrV)} {ρ : Store V} {o : Outcome V}
    (h : evalStmt S fuel (.tuple xs (.call dom op sig args attrs)) ρ = some o) : ∃ ρ', o = .normal ρ' := by
  unfold evalStmt at h
  cases ha : evalExprs S ρ args with
  | none => simp [ha] at h
  | some pvs =>
    simp only [ha] at h
    cases hop : applyOp S dom op sig pvs attrs with
    | none => simp [hop] at h
    | some rs =>
      simp only [hop] at h
      by_cases hl : rs.length = xs.length
      · simp only [hl, if_true] at h
        cases h
        exact ⟨_, rfl⟩
      · simp [hl] at h

/-- `x, y = op.Foo(…)` under the straight-line relation. -/
theorem tuple_sim (S : Sem V) (fuel : Nat) (hConst : ∀ l, ∃ c, constOf S l = some c) {xs : List Name}
    {dom op : String} {sig : Sig} {args : List Expr} {attrs : List (String × AttrV)} {lo : VSet}
    {ρ ρ' : Store V} {L L' : Locals} (hA : NoAttrBind S L) {env : Env V} {s s' : St} {ns : List Node}
    (hL : VisOK s.used L) (hR : StoreRel S ρ L env s.castable) (hs : CastSub s)
    (hxs : ∀ x, x ∈ xs → S.attrLit x = none)
    (he : evalStmt S fuel (.tuple xs (.call dom op sig args attrs)) ρ = some (.normal ρ'))
    (h : convStmt L (.tuple xs (.call dom op sig args attrs)) lo s = .ok ((L', ns), s')) :
    ∃ env', evalNodes S fuel env ns = some env' ∧ StoreRel S ρ' L' env' s'.castable
      ∧ Ext env env' s s' ∧ CastSub s' ∧ VisOK s'.used L' ∧ NoAttrBind S L' ∧ Mono s s' := by
  have hfr := convStmt_fresh L _ lo h
  have hsc := convStmt_scope L _ lo hL (fun x hx => hx) h
  have hcast := tuple_cast h
  unfold evalStmt at he
  cases hargs : evalExprs S ρ args with
  | none => simp [hargs] at he
  | some pvs =>
    simp only [hargs] at he
    cases hap : applyOp S dom op sig pvs attrs with
    | none => simp [hap] at he
    | some rs =>
      simp only [hap] at he
      by_cases hl : rs.length = xs.length
      · simp only [hl, if_true] at he
        cases he
        obtain ⟨vs, hav, hop⟩ := applyOp_some hap
        unfold convStmt at h
        simp only at h
        mbind h with p s1 h1
        obtain ⟨as, ns1⟩ := p
        try dsimp only at h
        mbind h with attrs' s2 h2
        have hs2 := liftE_state h2
        subst hs2
        have hattrs : attrs = attrs' := by
          unfold liftE at h2
          cases hca : convAttrs L attrs with
          | error e => simp [hca] at h2
          | ok a' =>
            simp only [hca] at h2
            cases h2
            exact (convAttrs_id hA _ _ hca).symm
        subst hattrs
        mbind h with p s3 h3
        obtain ⟨as', ns2⟩ := p
        try dsimp only at h
        mbind h with outs s4 h4
        obtain ⟨q1, q2⟩ := pure_ok h
        cases q1; subst q2
        obtain ⟨env1, ev1, hrel1, x1, c1, hu1⟩ := convArgs_sim S fuel hConst ρ L hA args hL hR hs hargs h1
        have m1 := (convArgs_fresh L args h1).1
        obtain ⟨env3, ev3, hm3, x3, hc3, m3⟩ := castInputs_sim S fuel hrel1 hu1 h3 hav
        have c3 : CastSub s3 := fun n hn => m3 n (c1 n (hc3 ▸ hn))
        obtain ⟨m4, f4, l4⟩ := genUniques_fresh _ h4
        have hc4 := genUniques_castable _ h4
        have x13 : Ext env env3 s s3 := x1.trans m1 x3
        have hnotin : ∀ n, n ∈ s.used → n ∉ outs := fun n hn hm => (f4.2 n hm).1 (m3 n (m1 n hn))
        have evN : evalNodes S fuel env3 [Node.op dom op (as'.map some) outs attrs]
            = some (env3.setMany outs rs) :=
          evalNodes_opN (mapM_getOpt_some as' vs hm3) hop (by rw [hl, l4])
        have xfin : Ext env (env3.setMany outs rs) s s4 :=
          ⟨fun n hn => by rw [envSetMany_frame outs rs env3 n (hnotin n hn)]; exact x13.envSame n hn, hcast.ext⟩
        have hrelO : All2 (RelV S (env3.setMany outs rs) s4.castable) outs (rs.map PV.t) :=
          relV_setMany S _ outs rs env3 f4.1 (by rw [hl, l4]) (fun o ho hc => by
            rw [hc4] at hc
            exact (f4.2 o ho).1 (c3 o hc))
        exact ⟨_, evalNodes_seq ev1 (evalNodes_seq ev3 evN), storeRel_bindVals hrelO xs (hR.ext hL xfin), xfin,
          hcast.sub hs, hsc.2.mono (fun y hy => after_in_used hfr hy), hA.bindVals _ _ hxs, hfr.1⟩
      · simp [hl] at he

theorem convTop_slT_sim (S : Sem V) (fuel : Nat) (hConst : ∀ l, ∃ c, constOf S l = some c)
    (hId : ∀ v, S.op "" "Identity" [some v] [] = some [v]) {inputs : List Name} {rc : Option Nat} :
    ∀ (body : List Stmt) (L : Locals) {ρ : Store V} {env : Env V} {s s' : St} {ns : List Node}
      {outs : List Name} {pvs : List (PV V)} {vs : List V},
      straightLineT body = true → (∀ x, x ∈ targetsBlock body → S.attrLit x = none) →
      NoAttrBind S L → VisOK s.used L → StoreRel S ρ L env s.castable → CastSub s →
      evalBlock S fuel body ρ = some (.returned pvs) → pvs.mapM (toTensor S) = some vs →
      convTop inputs rc L body [] s = .ok ((ns, outs), s') →
      ∃ env', evalNodes S fuel env ns = some env' ∧ outs.mapM env' = some vs := by
  intro body
  induction body with
  | nil => intro L ρ env s s' ns outs pvs vs hsl; simp [straightLineT] at hsl
  | cons st ss ih =>
    intro L ρ env s s' ns outs pvs vs hsl ht hA hL hR hs he hv h
    have htS : ∀ x, x ∈ targetsStmt st → S.attrLit x = none := fun x hx =>
      ht x (by simp [targetsBlock, hx])
    have htR : ∀ x, x ∈ targetsBlock ss → S.attrLit x = none := fun x hx =>
      ht x (by simp [targetsBlock, hx])
    cases st with
    | assign x e =>
      simp only [straightLineT] at hsl
      unfold evalBlock at he
      simp only [evalStmt] at he
      cases hee : evalExpr S ρ e with
      | none => simp [hee] at he
      | some pv =>
        simp only [hee] at he
        rw [convTop_cons_nonret inputs rc L _ ss [] (fun es b hc => by cases hc)] at h
        mbind h with p s1 h1
        obtain ⟨L1, ns1⟩ := p
        try dsimp only at h
        mbind h with p s2 h2
        obtain ⟨ns2, outs2⟩ := p
        try dsimp only at h
        obtain ⟨q1, q2⟩ := pure_ok h
        cases q1
        obtain ⟨env1, ev1, hR1, x1, c1, hL1, hA1, m1⟩ := assign_sim S fuel hConst hA hL hR hs (htS _ (by simp [targetsStmt])) hee h1
        obtain ⟨env2, ev2, hm2⟩ := ih L1 hsl htR hA1 hL1 hR1 c1 he hv h2
        exact ⟨env2, evalNodes_seq ev1 ev2, hm2⟩
    | skip =>
      simp only [straightLineT] at hsl
      unfold evalBlock at he
      simp only [evalStmt] at he
      rw [convTop_cons_nonret inputs rc L _ ss [] (fun es b hc => by cases hc)] at h
      mbind h with p s1 h1
      obtain ⟨L1, ns1⟩ := p
      try dsimp only at h
      mbind h with p s2 h2
      obtain ⟨ns2, outs2⟩ := p
      try dsimp only at h
      obtain ⟨q1, q2⟩ := pure_ok h
      cases q1
      unfold convStmt at h1
      obtain ⟨q1, q2⟩ := pure_ok h1
      cases q1; subst q2
      obtain ⟨env2, ev2, hm2⟩ := ih L hsl htR hA hL hR hs he hv h2
      exact ⟨env2, by simpa using ev2, hm2⟩
    | ret es bare =>
      cases ss with
      | cons _ _ => simp [straightLineT] at hsl
      | nil =>
        simp only [straightLineT, Bool.not_eq_true'] at hsl
        subst hsl
        unfold evalBlock at he
        simp only [evalStmt] at he
        cases hes : evalExprs S ρ es with
        | none => simp [hes] at he
        | some pvs' =>
          simp only [hes] at he
          cases he
          unfold convTop at h
          mbind h with p s1 h1
          have h1 := (onlyLast_ok h1).2
          obtain ⟨outs1, ns1⟩ := p
          try dsimp only at h
          have hall : ∃ single, convRetAll L inputs single es 0 [] s = .ok ((outs1, ns1), s1) := by
            unfold convRetStmt at h1
            simp only [Bool.false_eq_true, if_false] at h1
            cases rc with
            | none => exact ⟨_, h1⟩
            | some k =>
              simp only at h1
              by_cases hk : k ≠ es.length
              · rw [if_pos hk] at h1; exact (failM_ok h1).elim
              · rw [if_neg hk] at h1; exact ⟨_, h1⟩
          obtain ⟨single, hall⟩ := hall
          obtain ⟨env1, ev1, hm1⟩ := convRetAll_sim S fuel hConst hId hA es 0 [] (vals := []) hL hR hs
            (by simp) (fun o ho => by cases ho) hes hv hall
          mbind h with p s2 h2
          obtain ⟨ns2, outs2⟩ := p
          try dsimp only at h
          obtain ⟨q1, q2⟩ := pure_ok h
          cases q1
          unfold convTop at h2
          obtain ⟨q1, q2⟩ := pure_ok h2
          cases q1
          exact ⟨env1, by simpa using ev1, by simpa using hm1⟩
    | par xs es =>
      simp only [straightLineT] at hsl
      unfold evalBlock at he
      simp only [evalStmt] at he
      cases hee : evalExprs S ρ es with
      | none => simp [hee] at he
      | some pvs' =>
        simp only [hee] at he
        by_cases hlen : pvs'.length = xs.length
        · simp only [hlen, if_true] at he
          rw [convTop_cons_nonret inputs rc L _ ss [] (fun es b hc => by cases hc)] at h
          mbind h with p s1 h1
          obtain ⟨L1, ns1⟩ := p
          try dsimp only at h
          mbind h with p s2 h2
          obtain ⟨ns2, outs2⟩ := p
          try dsimp only at h
          obtain ⟨q1, q2⟩ := pure_ok h
          cases q1
          obtain ⟨env1, ev1, hR1, x1, c1, hL1, hA1, m1⟩ := par_sim S fuel hConst hA hL hR hs (fun x hx => htS x (by simp [targetsStmt, hx])) hee h1
          obtain ⟨env2, ev2, hm2⟩ := ih L1 hsl htR hA1 hL1 hR1 c1 he hv h2
          exact ⟨env2, evalNodes_seq ev1 ev2, hm2⟩
        · simp [hlen] at he
    | tuple xs e =>
      cases e with
      | call dom op sig args attrs =>
        simp only [straightLineT] at hsl
        unfold evalBlock at he
        cases hst : evalStmt S fuel (.tuple xs (.call dom op sig args attrs)) ρ with
        | none => simp [hst] at he
        | some o1 =>
          obtain ⟨ρ1, rfl⟩ := tuple_normal S fuel hst
          simp only [hst] at he
          rw [convTop_cons_nonret inputs rc L _ ss [] (fun es b hc => by cases hc)] at h
          mbind h with p s1 h1
          obtain ⟨L1, ns1⟩ := p
          try dsimp only at h
          mbind h with p s2 h2
          obtain ⟨ns2, outs2⟩ := p
          try dsimp only at h
          obtain ⟨q1, q2⟩ := pure_ok h
          cases q1
          obtain ⟨env1, ev1, hR1, x1, c1, hL1, hA1, m1⟩ := tuple_sim S fuel hConst hA hL hR hs
            (fun x hx => htS x (by simp [targetsStmt, hx])) hst h1
          obtain ⟨env2, ev2, hm2⟩ := ih L1 hsl htR hA1 hL1 hR1 c1 he hv h2
          exact ⟨env2, evalNodes_seq ev1 ev2, hm2⟩
      | _ => simp [straightLineT] at hsl
    | badAssign xs e => simp [straightLineT] at hsl
    | ite c t e => simp [straightLineT] at hsl
    | for_ i ok b body => simp [straightLineT] at hsl
    | while_ c body => simp [straightLineT] at hsl
    | brk c => simp [straightLineT] at hsl
    | unsupported => simp [straightLineT] at hsl

/-- **Refinement for straight-line functions with tuple assignment.** -/
theorem convert_correct_slT (S : Sem V) (hConst : ∀ l, ∃ c, constOf S l = some c)
    (hId : ∀ v, S.op "" "Identity" [some v] [] = some [v]) {f : Func} {g : Graph}
    (hsl : straightLineT f.body = true)
    (hσ : ∀ x l, S.attrLit x = some l → ∃ ty, Param.attr x ty ∈ f.params ∧ AttrVal S x ty l)
    (ht : ∀ x, x ∈ targetsBlock f.body → S.attrLit x = none)
    (hnames : (f.params.map Param.name).Nodup) (h : convert f = .ok g)
    {fuel : Nat} {args vs : List V} (he : evalFunc S fuel f args = some vs) :
    evalGraph S fuel g args = some vs := by
  obtain ⟨h, _, d0, ha0⟩ := convert_core h
  unfold convertCore at h
  cases ha : assignedBlock f.body with
  | none => rw [ha] at ha0; cases ha0
  | some d =>
    simp only at h
    cases hc : convTop (tensorParams f.params) f.retCount [paramFrame f.params] f.body []
        { used := (tensorParams f.params).reverse, next := 0, castable := [] } with
    | error e => rw [hc] at h; cases h
    | ok r =>
      obtain ⟨⟨ns, outs⟩, s'⟩ := r
      rw [hc] at h
      cases h
      unfold evalFunc at he
      simp only at he
      by_cases hlen : args.length = (tensorParams f.params).length
      · rw [if_pos hlen] at he
        cases hb : evalBlock S fuel f.body
            (Store.setMany (fun _ => none) (tensorParams f.params) (args.map PV.t)) with
        | none => simp [hb] at he
        | some o =>
          cases o with
          | normal _ => simp [hb] at he
          | broke _ => simp [hb] at he
          | returned pvs =>
            simp only [hb] at he
            have hL : VisOK (tensorParams f.params).reverse [paramFrame f.params] := by
              intro fr hfr p hp n hn
              simp only [List.mem_singleton] at hfr
              subst hfr
              simpa using paramFrame_vis _ p hp n hn
            have hR : StoreRel S (Store.setMany (fun _ => none) (tensorParams f.params) (args.map PV.t))
                [paramFrame f.params] (Env.setMany (fun _ => none) (tensorParams f.params) args) [] := by
              intro x pv hx
              rw [setMany_rel _ _ (fun _ => none) (fun _ => none) (fun _ => rfl)] at hx
              cases hev : Env.setMany (fun _ => none) (tensorParams f.params) args x with
              | none => simp [hev] at hx
              | some v =>
                simp only [hev, Option.map_some] at hx
                cases hx
                have hmem : x ∈ tensorParams f.params := by
                  rcases setMany_dom _ _ _ _ _ hev with h' | h'
                  · exact h'
                  · cases h'
                refine ⟨x, ?_, hev, by simp⟩
                simp only [lookup]
                rw [paramFrame_find _ x hnames hmem]
            obtain ⟨env', ev, hm⟩ := convTop_slT_sim S fuel hConst hId f.body [paramFrame f.params] hsl ht
              (noAttrBind_paramFrame _ hnames hσ) hL hR (fun n hn => by cases hn) hb he hc
            unfold evalGraph
            simp only [hlen, if_true, ev]
            exact hm
      · rw [if_neg hlen] at he; cases he

end OV.C01
